#!/bin/sh
# usage: runall.sh [tier] [seed] — runs every claimed check once, prints one line each
tier=${1:-quick}; seed=${2:-1}
for id in $(python3 -c "import json;print(' '.join(c['property_id'] for c in json.load(open('/verif/MANIFEST.json'))['checks']))"); do
  t0=$(date +%s)
  out=$(VERIF_SEED=$seed /verif/check $id --tier $tier 2>&1); rc=$?
  echo "$id rc=$rc $(( $(date +%s) - t0 ))s $(echo "$out" | grep -c '^KNOWN-FINDING') known $(echo "$out" | grep -m1 -E '^VIOLATION|^INFRA|^INCONCLUSIVE' | cut -c1-200)"
done
