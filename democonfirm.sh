#!/bin/sh
# usage: democonfirm.sh <seed-name> <worktree>
# Re-runs a seed's demonstration by hand-normalised command (only the `go test ...` part of
# demo_cmd, demo copied once) on the clean and the patched tree; records the two exit codes.
set -u
name=$1; wt=$2
export GOFLAGS=-mod=mod GOPROXY=off GOSUMDB=off GOTOOLCHAIN=local
dst=/verif/seeded/$name
d=$(jq -r .demo_dir $dst/meta.json)
cmd=$(jq -r .demo_cmd $dst/meta.json | grep -o 'go test [^;&]*' | head -1)
cd "$wt" || exit 2
git checkout -q -- . ; git clean -q -fd -e .seed >/dev/null 2>&1
cp $dst/demo/demo_test.go $d/zz_seed_demo_test.go
sh -c "$cmd" >/tmp/demo.clean.log 2>&1; c=$?
git apply $dst/patch.diff || exit 2
sh -c "$cmd" >/tmp/demo.patched.log 2>&1; p=$?
rm -f $d/zz_seed_demo_test.go; rm -rf kvgraph/test/test.db.*
git checkout -q -- go.sum go.mod 2>/dev/null
echo "$name clean=$c patched=$p"; tail -3 /tmp/demo.clean.log | cut -c1-200; grep -m2 -- "--- FAIL\|Error\|error" /tmp/demo.patched.log | cut -c1-200
python3 - "$dst/meta.json" $c $p <<'PY'
import json,sys
p,c,q=sys.argv[1:4]
m=json.load(open(p)); m.setdefault('confirmed',{}).update({'demo_clean_tree_exit':int(c),'demo_patched_exit':int(q),'demo_note':'demonstration re-run with a normalised command (democonfirm.sh)'})
json.dump(m,open(p,'w'),indent=1)
PY
