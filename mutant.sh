#!/bin/sh
# usage: mutant.sh <name> <check-id> [tier]   (reads a sed/patch script on stdin)
# Applies a deliberate change to a scratch worktree of /repo (outside /repo and /verif),
# runs one check against it via VERIF_REPO, prints the verdict, removes the worktree.
# stdin: either a unified diff (starts with 'diff' or '---') or lines "FILE@@OLD@@NEW (\\t, \\n escapes)".
set -u
name=$1; id=$2; tier=${3:-quick}
wt=$(mktemp -d /tmp/grip-mut-XXXXXX)
git -C /repo worktree add -q --detach "$wt" HEAD >/dev/null 2>&1 || { echo "worktree failed"; exit 2; }
cat > "$wt/.mut.in"
if head -1 "$wt/.mut.in" | grep -q '^\(diff\|---\)'; then
  (cd "$wt" && git apply .mut.in) || { echo "patch failed"; git -C /repo worktree remove --force "$wt"; exit 2; }
else
  python3 - "$wt" <<'PY' || { git -C /repo worktree remove --force "$wt"; exit 2; }
import sys,os
wt=sys.argv[1]
for ln in open(os.path.join(wt,'.mut.in')):
    ln=ln.rstrip('\n')
    if not ln.strip(): continue
    f,old,new=ln.split('@@')
    old=old.encode().decode('unicode_escape'); new=new.encode().decode('unicode_escape')
    p=os.path.join(wt,f); s=open(p).read()
    if old not in s: print("MUTATION SITE NOT FOUND:",f,repr(old)); sys.exit(1)
    open(p,'w').write(s.replace(old,new,1))
PY
fi
rm -f "$wt/.mut.in"
(cd "$wt" && GOFLAGS=-mod=mod GOPROXY=off GOSUMDB=off go build ./engine/... ./kvgraph/... ./server/... ./kvindex/... ./kvi/... ./gripper/... ./jobstorage/... ./mongo/... ./psql/... ./existing-sql/... ./accounts/... ./util/... 2>&1 | tail -5)
out=$(VERIF_REPO="$wt" VERIF_NOEVIDENCE=1 /verif/check "$id" --tier "$tier" 2>&1)
rc=$?
echo "MUTANT $name check=$id rc=$rc: $(echo "$out" | grep -m2 -E 'VIOLATION|INFRA|INCONCLUSIVE|^OK' | tr '\n' ' ' | cut -c1-400)"
git -C /repo worktree remove --force "$wt"
rm -rf /verif/replays/$id/new-*
exit 0
