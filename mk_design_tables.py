#!/usr/bin/env python3
"""Regenerates the generated tables of DESIGN.md (§8.3 findings, §8.4 seeded changes)."""
import json, glob, os, re, subprocess
HERE = os.path.dirname(os.path.abspath(__file__))
p = os.path.join(HERE, "DESIGN.md")
s = open(p).read()
find = subprocess.run(["python3", os.path.join(HERE, "mk_findings_table.py")], capture_output=True, text=True).stdout
rows = ["| seeded change | property | what it needs to manifest | confirmed (demo clean/patched, stable suite) | caught by |", "|---|---|---|---|---|"]
for m in sorted(glob.glob(os.path.join(HERE, "seeded", "*", "meta.json"))):
    d = json.load(open(m))
    c = d.get("confirmed", {})
    caught = []
    for k, v in sorted(c.get("checks", {}).items()):
        caught.append("%s: %s" % (k, "VIOLATION" if v.get("caught") else "missed (exit %s)" % v.get("exit")))
    rows.append("| `%s` | %s | %s | %s/%s, %s | %s |" % (
        os.path.basename(os.path.dirname(m)), d.get("property", ""), d.get("needs", "").replace("|", "\\|").replace("\n", " ")[:300],
        c.get("demo_clean_tree_exit"), c.get("demo_patched_exit"), "pass" if c.get("stable_tests_pass_with_patch") else "FAIL", "; ".join(caught) + (" — " + d["strengthened"] if d.get("strengthened") else "")))
seed = "\n".join(rows)
def put(name, text):
    global s
    begin, end = "<!-- %s -->" % name, "<!-- /%s -->" % name
    if begin in s:
        s = s[:s.index(begin) + len(begin)] + "\n" + text + "\n" + s[s.index(end):]
    else:
        s = s.replace(name, begin + "\n" + text + "\n" + end, 1)
put("FINDINGS_TABLE", find)
put("SEEDED_TABLE", seed)
open(p, "w").write(s)
print("DESIGN.md tables regenerated")
