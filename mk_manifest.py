#!/usr/bin/env python3
"""Regenerates MANIFEST.json from the table below (kept in one place so the manifest is
always valid). Properties without an entry in CHECKS are listed under not_applicable."""
import json, os
HERE = os.path.dirname(os.path.abspath(__file__))
props = [json.loads(l) for l in open(os.path.join(HERE, "properties.jsonl"))]

CHECKS = {
 "C01": dict(
  category="exploration",
  text="Every well-typed sequence up to a length bound over a ~50-step alphabet on fixed graphs (exhaustive) plus random typed-grammar traversals and spliced ill-typed ones on random graphs, run on kvgraph/Badger and compared with a reference interpreter written from the documentation (multiset equality; arithmetic + sub-multiset relations for limit/skip/range; key-set relations for distinct; accept/reject for typing).",
  design_ref="DESIGN.md §3 C01",
  note="Trusted: internal/model/interp.go (reference semantics and typing) and its list of unspecified shapes (not judged). Row order never asserted. Badger only here; other drivers are C10's.",
  technique="property-based testing: exhaustive small-scope enumeration + rapid typed-grammar generation vs. reference interpreter"),
 "C02": dict(
  category="exploration",
  text="Differential: production compiler (index rewrite + load elision) vs. a literal pipeline built from core.StatementProcessor with every step forced to load, on kvgraph/Badger and on an in-memory backend that honours load=false like psql/mongo; plus count() vs row-count law and spelling equivalence of label/id filters.",
  design_ref="DESIGN.md §3 C02",
  note="Trusted: internal/memgraph implements the gdbi load contract as psql/graph.go does; the literal pipeline is the meaning of 'executed literally'.",
  technique="property-based testing: differential + metamorphic relations over rapid-generated traversals"),
 "C03": dict(
  category="exploration",
  text="Histories of the mutating gdbi API over a small id/label universe (every sequence to a depth bound over a 12-operation alphabet, random histories to 30 steps) on kvgraph/Badger; after every step the full observation of every graph through the read API is compared with an abstract last-write-wins model, plus return values and the timestamp rule.",
  design_ref="DESIGN.md §3 C03",
  note="Trusted: the abstract model in internal/hist and the observation in internal/obs. Batches at the gdbi level contain only valid elements (callers validate first).",
  technique="model-based (stateful) property testing: exhaustive + rapid histories vs. abstract graph model"),
 "C04": dict(
  category="fault_enumeration",
  text="Restart: mutation histories with a close+reopen at every position (exhaustive for short histories, random beyond) on a real Badger directory and on an in-memory ordered store re-wrapped by a fresh kvgraph; full observation vs. the abstract model after the reopen and after every later step. Crash: for every mutating call, EVERY top-level store write it issues (count learned by a dry run on a clone) is refused in turn together with all later ones; the surviving store is reopened and checked for index/adjacency consistency and presence of the acknowledged state.",
  design_ref="DESIGN.md §3 C04",
  note="Trusted: each top-level kvi write is atomic (stipulated by the property); internal/memkv is a faithful ordered map (it is C10's model); partially applied in-flight calls that keep the invariants are accepted.",
  technique="fault injection by exhaustive crash-point enumeration over rapid-generated and enumerated histories, with a model-based consistency oracle"),
 "C05": dict(
  category="exploration",
  text="Method table enumerated from the generated service descriptors; every method x transport (real grpc.Server interceptor chain, in-process gateway clients) x 24 credential/policy scenarios exhaustively, plus random Casbin policies; spy handlers record whether the handler ran; a live GripServer level checks effects over gRPC and HTTP.",
  design_ref="DESIGN.md §3 C05",
  note="Trusted: the re-implemented matcher of test/model.conf; operation class per method pinned to accounts.MethodMap (documentation names none).",
  technique="property-based testing: exhaustive method matrix + rapid policies vs. re-implemented access matcher"),
 "C06": dict(
  category="exploration",
  text="Structurally valid, semantically arbitrary requests generated over the protobuf schema (every statement arm incl. null moves, mark/jump/set/increment, unset oneofs; non-string list members; every condition code with any JSON value; empty/duplicate/unnamed/untyped aggregations; negative and inverted ranges; undefined marks; steps after terminals) and arbitrary edit/job requests (elements with missing parts, unknown graphs, bulk streams that switch between existing and missing graphs, unknown job ids), served by a live GripServer in a worker subprocess through its gRPC handlers and through compile+run inside the worker; the oracle is the worker's survival (follow-up ListGraphs), with the panic message and first bmeg/grip frame as crash signature.",
  design_ref="DESIGN.md §3 C06",
  note="Requests exceeding their drain budget are counted inconclusive (hangs are C07's). A pipeline goroutine can outlive its request, so a crash case carries the three preceding requests of the same worker.",
  technique="property-based testing / grammar fuzzing over the request schema against a crash-isolating worker process"),
 "C07": dict(
  category="exploration",
  text="Traversal shapes x graph families (star, bipartite fan, chain) x sizes drawn around every internal channel capacity (100/1000/5000 and their sums) on kvgraph/Badger and the hint-honouring in-memory backend; uncancelled runs must close with the closed-form row count, cancelled runs (context cancelled after j rows while the consumer keeps draining, as server.Traversal does) must close; afterwards no bmeg/grip goroutine and no temporary store may remain. Non-closure is a violation only when two goroutine dumps show every grip goroutine blocked without progress.",
  design_ref="DESIGN.md §3 C07",
  note="Liveness is sampled and judged by quiescence; a livelock with a runnable goroutine is reported inconclusive. Counts come from an O(E) path-count recurrence over the generated family.",
  technique="property-based testing over size boundaries with a closed-form count oracle and quiescence-based hang/leak detection"),
 "C08": dict(
  category="exploration",
  text="Exhaustive operator x key-form x value x argument grid (≈34k cells) plus random Boolean trees, each judged against a reference evaluator written from the documentation and against algebraic laws, directly on logic.MatchesHasExpression and end-to-end through V().has() on a stored Badger graph. The grid is finite and fully enumerated; trees are sampled.",
  design_ref="DESIGN.md §3 C08",
  note="Trusted: the reference evaluator (internal/model/expr.go) and the list of cells it declares undocumented (not judged). Values limited to what structpb carries.",
  technique="property-based testing: exhaustive small-scope grid + rapid random trees vs. reference evaluator and metamorphic Boolean laws"),
 "C09": dict(
  category="exploration",
  text="State machine over kvindex.KVIndex on Badger (thorough: also memkv, LevelDB, Bolt, Pebble): AddField/RemoveField/AddDoc (new and replacing)/AddDocTx in BulkWrite and Update/RemoveDoc over 3 fields, 5 documents, string terms and numeric terms at sign/magnitude boundaries incl. -0.0; every sequence to depth 3 over a 13-op alphabet plus random histories; after every step every index query is compared with a brute-force scan of the model's live documents.",
  design_ref="DESIGN.md §3 C09",
  note="Documents added before a field was registered are not expected to be indexed (documented TODO). Non-string/non-number values are outside the property. Stores live on tmpfs (/dev/shm) for speed.",
  technique="model-based (stateful) property testing: exhaustive + rapid operation sequences vs. brute-force scan model"),
 "C10": dict(
  category="exploration",
  text="(a) generated programs over the kvi.KVInterface (point reads, writes, deletes, prefix deletes, iterator programs with forward/reverse seeks, transaction and bulk programs) on Badger, Bolt, LevelDB and Pebble vs. an in-memory sorted-map model after every operation, plus every operation sequence to depth 3 over a tiny alphabet run at top level, in one transaction and as one batch; (b) the same generated C03 mutation history and the same traversal on kvgraph over each of the four drivers, each compared with the abstract model / reference interpreter.",
  design_ref="DESIGN.md §3 C10",
  note="Not compared: error values, Key/Value of an invalid cursor, behaviour after View returns, empty keys/prefixes, error-returning closures, concurrent transactions (see harness/c10/findings/corrections.md).",
  technique="model-based property testing: rapid programs + exhaustive small scope vs. sorted-map model, differential across four drivers"),
 "C11": dict(
  category="exploration",
  text="State machines (submit/status/view/resume/search/list/delete/restart) over jobstorage.FSJobStorage driven with job_manager.go's call sequences on two graphs, with traversals of every result type and result sizes around the serializer worker pool and buffers; stored rows and status count vs. a direct run, resume vs. the concatenated traversal, search vs. proto-equal prefixes, survival across restarts, deletion; a smaller machine drives a live server's Job service.",
  design_ref="DESIGN.md §3 C11",
  note="Row order and order-sensitive jobs' row choice are not judged; running-job cancellation is unimplemented upstream.",
  technique="model-based (stateful) property testing vs. direct traversal results"),
 "C12": dict(
  category="exploration",
  text="Loop programs from templates grounded in the iteration documentation and upstream repeat tests (counter-bounded cycles, filter-before-body, forward jumps, two jumps to one mark, emit on/off, bodies incl. both/outE.out) on chains, DAGs, cycles and fan-outs with >50 and >1000 travelers in flight; every case runs repeatedly under GOMAXPROCS in {1,2,4,16} with generated consumer pauses; the row multiset must equal an iterative worklist reference every time and the stream must close (quiescence with the protocol's polling loops named as pollers).",
  design_ref="DESIGN.md §3 C12",
  note="Interleavings are sampled, not enumerated. Unconditional cycles are not generated. The optional verif event tap was not built; the result-multiset oracle does not need it.",
  technique="property-based testing with schedule perturbation: reference iterative semantics + quiescence-based termination oracle"),
 "C13": dict(
  category="exploration",
  text="Each internal combinator (job serializer/deserializer pools, gripper ChannelMux alone and as deployed in TabularGraph.GetVertexChannel, LookupBatcher, DualProcessor, jump queue) is fed sequence-numbered items with lengths around every buffer/batch/worker size, generated producer/stage/consumer latency vectors and GOMAXPROCS in {1,2,16}; output sequence, round-trip equality, closure-after-input and goroutine release are checked; hangs are confirmed by a goroutine-dump quiescence detector, never by a bare timeout.",
  design_ref="DESIGN.md §3 C13",
  note="Schedules are sampled, not enumerated. Only inputs real callers can produce are fed (see harness/c13/findings/corrections.md).",
  technique="property-based testing with generated latency schedules: sequence-preservation oracle + quiescence-based hang detection"),
 "C14": dict(
  category="exploration",
  text="(a) typing agreement of the core and Mongo compilers over every statement sequence to length 4 over an ~80-step alphabet plus random ones; (b) the emitted $match document, BSON round-tripped and evaluated by a small interpreter of MongoDB query semantics over scalar documents, vs. logic.MatchesHasExpression, over an exhaustive operator x key x argument x negation grid and random trees.",
  design_ref="DESIGN.md §3 C14",
  note="Trusted: the ~150-line MongoDB match interpreter (rules listed in harness/c14/findings/overview.md); no live MongoDB. Hook: mongo/export_verif.go.",
  technique="property-based testing: differential typing + translation check of emitted filters against a reference interpreter"),
 "C15": dict(
  category="exploration",
  text="Generated table sets and mappings (shared labels, nested prefixes, ids with '-' and ':', links to missing rows, empty/number/null endpoints, repeated links, both directions) served by the repository's table server over in-process gRPC; every traversal (emphasis on the driver-planned hasLabel/id starts) on the TabularGraph is compared three-way with the reference interpreter on the abstract graph the mapping describes and with kvgraph loaded with that graph; write calls must be refused and change nothing.",
  design_ref="DESIGN.md §3 C15",
  note="Edge ids follow the from-label-to scheme E() lists (undocumented); ids shared by repeated links are not looked up. Only the table service shipped in the repository is used as a source.",
  technique="property-based testing: three-way differential (gripper vs. reference model vs. embedded store) over rapid-generated tables, mappings and traversals"),
 "C16": dict(
  category="exploration",
  text="A small base state followed by ONE write with hostile components (graph name, vertex/edge id, label, endpoints, property names and JSON values: zero bytes, key-family prefixes, '.', reserved words and suffixes, unicode, kB-long strings, prefixes of existing ids, numeric extremes, deep nesting), at the server level (live GripServer, validation included) and at the gdbi level on kvgraph/Badger (invalid UTF-8 included); round trip (accepted => read back byte-identical by lookup, listing, adjacency, label listing, traversal) plus frame condition (the complete observation of every other element and graph is unchanged; a rejected write changes nothing). Also AddIndex/ListIndices.",
  design_ref="DESIGN.md §3 C16",
  note="A refusal is always allowed. Reads that probe with a never-accepted hostile id are outside the property. Inputs confirmed to crash the in-process server are replayed in a worker subprocess.",
  technique="property-based testing: round-trip + frame-condition oracle over rapid-generated hostile identifiers and values"),
 "C17": dict(
  category="exploration",
  text="2-6 generated client sessions run concurrently (start barrier, repeated) against one live GripServer in a worker subprocess built with the Go race detector; oracles: no race report between request handlers (reports with a side in GripServer.Serve's own body are counted as start-up/shutdown, out of scope), the worker survives, the final graph equals the per-key model of acknowledged writes, readers only see values some client wrote.",
  design_ref="DESIGN.md §3 C17",
  note="Interleavings are sampled; absence of a report is not absence of races. Structural operations only on disjoint id sets.",
  technique="randomised concurrent-session testing under the Go race detector with a per-key register oracle"),
 "C18": dict(
  category="exploration",
  text="Element streams (valid/invalid mix, repeated ids with other shape, several target graphs incl. missing, forbidden and __schema__ ones, lengths around batch sizes 50/100 and kvgraph's chunk size) through kvgraph.BulkAdd per driver, the server's Edit/BulkAdd stream on live servers with and without a Casbin policy, and util.StreamBatch; final state vs. loading the same valid elements one at a time in order, InsertCount/ErrorCount rules.",
  design_ref="DESIGN.md §3 C18",
  note="ErrorCount is judged only as a lower bound and >0 iff something was refused (its exact value is documented as unreliable in the source).",
  technique="model-based property testing: bulk vs. sequential-load differential over rapid-generated streams"),
 "C19": dict(
  category="exploration",
  text="Generated multisets of field values (missing, null, bool, numbers incl. negatives/fractions/duplicates, strings, numeric text, lists, maps; 0..60 rows and around the 1000-row aggregation buffer) x 1-4 aggregations per step (term with sizes, histogram intervals, percentile lists, field, type, count); each aggregation is judged against a direct computation over the rows the same traversal returns without aggregate(), plus independence of aggregations requested together.",
  design_ref="DESIGN.md §3 C19",
  note="Percentile values are only checked for monotonicity and range (t-digest is approximate). Plain numeric text in histogram/percentile, a null term bucket, and UNKNOWN for missing fields are accepted either way.",
  technique="property-based testing: aggregation results vs. direct recomputation, metamorphic independence relation"),
 "C20": dict(
  category="exploration",
  text="Every psql / existing-sql entry point that takes an id, label, label list or graph name (table asserted complete by reflection over the method sets) x 39 hostile strings exhaustively plus random fragment concatenations; statements are captured by a recording database/sql driver, tokenised by a PostgreSQL lexer, and compared with the benign twin: token structure must be identical and the client string must appear only as one literal/identifier or as a bound argument.",
  design_ref="DESIGN.md §3 C20",
  note="Trusted: the harness PostgreSQL lexer and the canned result sets of the recording driver. MySQL quoting rules for existing-sql are not modelled. Hooks: psql/export_verif.go, existing-sql/export_verif.go.",
  technique="property-based testing: metamorphic token-structure relation over recorded SQL, exhaustive + rapid hostile strings"),
}
# what the seeding rounds added (DESIGN.md §8.4)
ADDED = {
 "C01": " Graphs also arrive through overwrites, deletes and bulk streams (the stored graph must be the final one); distinct() is judged exactly whenever its key groups hold identical travelers, so traversals with several distinct() steps are compared by equality.",
 "C02": " Half of the Badger graphs arrive through overwrites, deletes and bulk streams, so stale index entries show up as planned/literal differences.",
 "C06": " Plus every (string-taking statement, pool string) pair after four prefixes, systematically; thorough: native fuzzing of wire bytes (FuzzQueryBytes).",
 "C07": " Shapes with several aggregations per step; histograms over values whose magnitude swallows the interval must end.",
 "C09": " A fourth field whose name extends another byte-wise; the index as kvgraph drives it (AddVertexIndex/AddVertex/BulkAdd/DelVertex histories read back through a fresh KVIndex handle).",
 "C11": " Rows beyond 64 KB; vertex and edge ids that coincide; an enumeration of marking patterns x resumed parts that read marks stored by id only x restart.",
 "C12": " Schedule dimensions: GOMAXPROCS, repetitions, consumer pauses, capacity of the channels between steps (1/2/7/50/5000), backend latency (120/250 ms per lookup), one generation larger than every bounded buffer of the cycle; counters created by increment() itself.",
 "C13": " ChannelMux with 1-4, 8, 49, 50, 51 and 64 pipelines.",
 "C17": " Sessions call every RPC of the Query/Edit/Job services and run whole resource life cycles (private graph with schema, job, index); contention bursts (sessions writing and deleting hundreds of vertices of one label) and structural contention (a vertex deleted while others delete or move its edges).",
 "C20": " Existing-sql lookups with the client string among 1200 and 2500 ids. Thorough: native fuzzing over (entry point, client string) with the same oracle (FuzzHostile).",
 "C04": " After a crash and reopen every graph that does not exist is created again and must be empty (nothing an interrupted DeleteGraph left behind may be inherited).",
 "C05": " Ten further kinds of Basic credentials that must not validate (empty password, unconfigured user with an empty password, anonymous header, another user's password, ...).",
 "C08": " Numerals in decimal notation with a sign, a leading/trailing point or an exponent (+1, .5, 5., 1e3) count as numeric text.",
 "C15": " Argument lists that name a member twice.",
 "C18": " Streams handed to the kvgraph driver itself that mix valid and invalid elements (invalid ones carrying stored ids).",
}
ADDED["C06"] += " Every ordered pair of canonical statements and every condition code x value kind x key kind, systematically."
ADDED["C01"] += " Ids and labels that no element has, including the blank string, in hasId/hasLabel/V()/E()/_gid conditions; mark templates that read the whole property map or identity fields only."
ADDED["C02"] += " TestMarkReads: producer x move after the mark x reader (render, has, hasKey, distinct) x reference form ($a._data, $a.k, $a._gid, ...) enumerated on generated graphs and both backends; blank and absent ids in leading filters."
ADDED["C04"] += " After every crash point the server goes on: AddGraph is retried for every graph name and a vertex and an edge with new labels written after the reopen must be reachable through the label scan and the label listings."
ADDED["C07"] += " Traversals with 2, 5, 9 and 12 distinct() steps (each holds a temporary store for the whole run)."
ADDED["C10"] = " TestVolumes: 1..50001 keys under one prefix around round block sizes (9998..10001, 16384, 20001, 32769, ...), neighbours and sibling prefixes, bulk fill, sub-prefix and whole-prefix deletes, complete forward/reverse walks and point probes against the model on all four drivers."
ADDED["C12"] += " One program in six ends in limit(n) behind the loop: exactly min(n, N) of the loop's rows, and the stream closes."
ADDED["C16"] = " Marker-byte cases: every identifier role x byte next to the key separator or at the end of the control range (0x01, 0x02, 0x1f, 0x7f) x position (trailing, leading, alone), with a replacement of the written edge."
ADDED["C20"] += " The client string as an id while a label filter is appended to the same statement, and in both positions at once; format-verb strings."
ADDED["C06"] += " The populated fixture carries a field with magnitudes far apart (-1e17, 5, 1e17, 0.5) that every field-taking statement is run on."
ADDED["C05"] += " TestConcurrentEnforce: goroutines of different users ask one policy object for every (user, graph, class) triple at once; each answer must equal the sequential one."
for _k, _v in ADDED.items():
    CHECKS[_k]["text"] += _v
NOT_YET = "check not built yet in this session (planned in DESIGN.md §3); not claimed"

def main():
    checks, na = [], []
    for p in props:
        pid = p["id"]
        if pid in CHECKS:
            c = CHECKS[pid]
            checks.append({
                "property_id": pid,
                "quick_cmd": "./check %s --tier quick" % pid,
                "thorough_cmd": "./check %s --tier thorough" % pid,
                "evidence_file": "evidence/%s.json" % pid,
                "replay_cmd_template": "./check %s --replay {path}" % pid,
                "engine": "harness",
                "level_claimed": {"category": c["category"], "text": c["text"], "design_ref": c["design_ref"]},
                "level_note": c["note"],
                "technique": c["technique"],
            })
        else:
            na.append({"property_id": pid, "reason": NA.get(pid, NOT_YET)})
    m = {
        "version": 1,
        "setup_cmd": "./setup.sh",
        "hooks": {
            "guard": "verif",
            "enable": "go test -tags verif (the ./check driver builds every harness package with -tags verif against /repo's working tree)",
            "baseline_off_cmd": "./baseline.sh",
            "source_commits": HOOK_COMMITS,
            "add_only": True,
        },
        "engines": [{"name": "harness", "path": "harness", "serves_properties": [c["property_id"] for c in checks],
                     "kind_free_text": "Go module of rapid (pgregory.net/rapid v1.3.0) property tests, exhaustive small-scope enumerators and native fuzz targets, built against /repo via a replace directive; driven by ./check"}],
        "checks": checks,
        "notes": "Exit codes of ./check: 0 held, 1 VIOLATION, 2 infrastructure/inconclusive (never a verdict). Known findings: known_findings.json.",
        "not_applicable": na,
    }
    json.dump(m, open(os.path.join(HERE, "MANIFEST.json"), "w"), indent=1)
    print("MANIFEST.json: %d checks, %d not claimed" % (len(checks), len(na)))

NA = {}
HOOK_COMMITS = ["580a25d", "27abbf0"]
if __name__ == "__main__":
    main()
