#!/usr/bin/env python3
"""Regenerates MANIFEST.json from the table below (kept in one place so the manifest is
always valid). Properties without an entry in CHECKS are listed under not_applicable."""
import json, os
HERE = os.path.dirname(os.path.abspath(__file__))
props = [json.loads(l) for l in open(os.path.join(HERE, "properties.jsonl"))]

CHECKS = {
 "C08": dict(
  category="exploration",
  text="Exhaustive operator x key-form x value x argument grid (≈34k cells) plus random Boolean trees, each judged against a reference evaluator written from the documentation and against algebraic laws, directly on logic.MatchesHasExpression and end-to-end through V().has() on a stored Badger graph. The grid is finite and fully enumerated; trees are sampled.",
  design_ref="DESIGN.md §3 C08",
  note="Trusted: the reference evaluator (internal/model/expr.go) and the list of cells it declares undocumented (not judged). Values limited to what structpb carries.",
  technique="property-based testing: exhaustive small-scope grid + rapid random trees vs. reference evaluator and metamorphic Boolean laws"),
}
NOT_YET = "check not built yet in this session (planned in DESIGN.md §3); not claimed"

def main():
    checks, na = [], []
    for p in props:
        pid = p["id"]
        if pid in CHECKS:
            c = CHECKS[pid]
            checks.append({
                "property_id": pid,
                "quick_cmd": "./check %s --tier quick" % pid,
                "thorough_cmd": "./check %s --tier thorough" % pid,
                "evidence_file": "evidence/%s.json" % pid,
                "replay_cmd_template": "./check %s --replay {path}" % pid,
                "engine": "harness",
                "level_claimed": {"category": c["category"], "text": c["text"], "design_ref": c["design_ref"]},
                "level_note": c["note"],
                "technique": c["technique"],
            })
        else:
            na.append({"property_id": pid, "reason": NA.get(pid, NOT_YET)})
    m = {
        "version": 1,
        "setup_cmd": "./setup.sh",
        "hooks": {
            "guard": "verif",
            "enable": "go test -tags verif (the ./check driver builds every harness package with -tags verif against /repo's working tree)",
            "baseline_off_cmd": "./baseline.sh",
            "source_commits": HOOK_COMMITS,
            "add_only": True,
        },
        "engines": [{"name": "harness", "path": "harness", "serves_properties": [c["property_id"] for c in checks],
                     "kind_free_text": "Go module of rapid (pgregory.net/rapid v1.3.0) property tests, exhaustive small-scope enumerators and native fuzz targets, built against /repo via a replace directive; driven by ./check"}],
        "checks": checks,
        "notes": "Exit codes of ./check: 0 held, 1 VIOLATION, 2 infrastructure/inconclusive (never a verdict). Known findings: known_findings.json.",
        "not_applicable": na,
    }
    json.dump(m, open(os.path.join(HERE, "MANIFEST.json"), "w"), indent=1)
    print("MANIFEST.json: %d checks, %d not claimed" % (len(checks), len(na)))

NA = {}
HOOK_COMMITS = []
if __name__ == "__main__":
    main()
