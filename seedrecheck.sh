#!/bin/sh
# usage: seedrecheck.sh <seed-name> <worktree> <check-id> [tier]
# Runs one check against an already confirmed seeded change (patch applied in the scratch
# worktree) and records the outcome in seeded/<name>/meta.json under confirmed.checks.
set -u
name=$1; wt=$2; id=$3; tier=${4:-quick}
export GOFLAGS=-mod=mod GOPROXY=off GOSUMDB=off GOTOOLCHAIN=local
dst=/verif/seeded/$name
cd "$wt" || exit 2
git checkout -q -- . ; git clean -q -fd -e .seed >/dev/null 2>&1
git apply "$dst/patch.diff" || { echo "patch does not apply"; exit 2; }
chk=$(VERIF_REPO="$wt" VERIF_NOEVIDENCE=1 /verif/check "$id" --tier "$tier" 2>&1)
chk_rc=$?
git checkout -q -- .
viol=$(echo "$chk" | grep -A1 -m1 "^VIOLATION" | tr '\n' ' ' | cut -c1-600)
python3 - "$dst/meta.json" "$id" "$tier" "$chk_rc" "$viol" <<'PY'
import json,sys
p,cid,tier,rc,viol=sys.argv[1:6]
m=json.load(open(p))
ch=m.setdefault('confirmed',{}).setdefault('checks',{})
k=cid+':'+tier
if k in ch and not ch[k].get('caught') and int(rc)==1:
    ch[k+':first-run']=ch[k]
ch[k]={'exit':int(rc),'caught':int(rc)==1,'first_violation':viol}
json.dump(m,open(p,'w'),indent=1)
print("RECHECK",p,"check",cid,tier,"rc =",rc); print("   ",viol[:300])
PY
rm -rf /verif/replays/$id/new-* 2>/dev/null
