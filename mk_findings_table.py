#!/usr/bin/env python3
"""Prints a markdown table of every finding (known_findings.json + known/*.json)."""
import json, glob, os
HERE = os.path.dirname(os.path.abspath(__file__))
rows = []
for f in [os.path.join(HERE, "known_findings.json")] + sorted(glob.glob(os.path.join(HERE, "known", "*.json"))):
    for x in json.load(open(f))["findings"]:
        rows.append(x)
rows.sort(key=lambda x: (x["property"], x["status"] != "open", x.get("commit", ""), x["id"]))
print("| property | status | commit | id / signature | what failed |")
print("|---|---|---|---|---|")
for x in rows:
    sig = x.get("match", "")
    print("| %s | %s | %s | `%s`%s | %s |" % (x["property"], x["status"], x.get("commit", ""), x["id"], (" / `%s`" % sig) if sig else "", x["what"].replace("|", "\\|").replace("\n", " ")[:260]))
n_open = sum(1 for x in rows if x["status"] == "open")
print("\n%d entries: %d fixed, %d open." % (len(rows), len(rows) - n_open, n_open))
