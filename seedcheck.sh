#!/bin/sh
# usage: seedcheck.sh <seed-name> <worktree-with-.seed> <check-id> [tier]
# Confirms a seeded change (demo passes on the clean tree, fails with the patch; the
# repository's stable tests still pass with the patch) and runs one check against it.
# Results are appended to /verif/seeded/<seed-name>/meta.json ("confirmed").
set -u
name=$1; wt=$2; id=$3; tier=${4:-quick}
export GOFLAGS=-mod=mod GOPROXY=off GOSUMDB=off GOTOOLCHAIN=local
dst=/verif/seeded/$name
mkdir -p "$dst"
cp "$wt/.seed/patch.diff" "$dst/patch.diff"
cp -r "$wt/.seed/demo" "$dst/" 2>/dev/null
keep=$(python3 -c "import json;print(json.dumps(json.load(open('$dst/meta.json')).get('strengthened','')))" 2>/dev/null)
cp "$wt/.seed/meta.json" "$dst/meta.json"
[ -n "$keep" ] && [ "$keep" != '""' ] && python3 - "$dst/meta.json" "$keep" <<'PY'
import json,sys
m=json.load(open(sys.argv[1])); m['strengthened']=json.loads(sys.argv[2]); json.dump(m,open(sys.argv[1],'w'),indent=1)
PY
demo_dir=$(python3 -c "import json;print(json.load(open('$dst/meta.json')).get('demo_dir',''))")
# only the `go test ...` part of demo_cmd is used (some seeds wrap it in cp/rm, which hides the exit status)
demo_cmd=$(python3 -c "import json;print(json.load(open('$dst/meta.json')).get('demo_cmd',''))" | grep -o 'go test [^;&]*' | head -1)
cd "$wt" || exit 2
git checkout -q -- . ; git clean -q -fd -e .seed >/dev/null 2>&1
for f in "$dst"/demo/*_test.go; do cp "$f" "$demo_dir/zz_seed_$(basename "$f")" 2>/dev/null; done
clean_out=$(sh -c "$demo_cmd" 2>&1 | tail -3); clean_rc=$(sh -c "$demo_cmd" >/dev/null 2>&1; echo $?)
git apply "$dst/patch.diff" || { echo "patch does not apply"; exit 2; }
patched_rc=$(sh -c "$demo_cmd" >/dev/null 2>&1; echo $?)
rm -f "$demo_dir"/zz_seed_*_test.go "$demo_dir"/demo_test.go
rm -rf kvgraph/test/test.db.* 2>/dev/null
base_out=$(VERIF_REPO="$wt" flock /tmp/seed-baseline.lock /verif/baseline.sh 2>&1 | tail -3)
base_rc=$?
echo "$base_out" | grep -q "123/123" && base_ok=true || base_ok=false
git checkout -q -- go.sum go.mod 2>/dev/null
chk=$(VERIF_REPO="$wt" VERIF_NOEVIDENCE=1 /verif/check "$id" --tier "$tier" 2>&1)
chk_rc=$?
viol=$(echo "$chk" | grep -A1 -m1 "^VIOLATION" | tr '\n' ' ' | cut -c1-600)
python3 - "$dst/meta.json" "$clean_rc" "$patched_rc" "$base_ok" "$id" "$tier" "$chk_rc" "$viol" <<'PY'
import json,sys
p,clean,patched,base,cid,tier,rc,viol=sys.argv[1:9]
m=json.load(open(p))
m.setdefault('confirmed',{})
m['confirmed'].update({'demo_clean_tree_exit':int(clean),'demo_patched_exit':int(patched),'stable_tests_pass_with_patch':base=='true'})
m['confirmed'].setdefault('checks',{})[cid+':'+tier]={'exit':int(rc),'caught':int(rc)==1,'first_violation':viol}
json.dump(m,open(p,'w'),indent=1)
print("SEED",p,"demo clean/patched =",clean,patched,"baseline ok =",base,"check",cid,tier,"rc =",rc)
print("   ",viol[:300])
PY
rm -rf /verif/replays/$id/new-* 2>/dev/null
