// Package c04: reopening a database (cleanly or after a crash) preserves a consistent graph.
package c04

import (
	"context"
	"encoding/json"
	"fmt"
	"os"
	"strings"
	"testing"

	"github.com/bmeg/grip/gdbi"
	"github.com/bmeg/grip/kvgraph"
	"github.com/bmeg/grip/kvi"
	_ "github.com/bmeg/grip/kvi/badgerdb"
	"pgregory.net/rapid"
	"verif/internal/gripx"
	"verif/internal/hist"
	"verif/internal/histrun"
	"verif/internal/memkv"
	"verif/internal/model"
	"verif/internal/obs"
	"verif/internal/pbt"
)

var bg = context.Background()

func TestMain(m *testing.M) {
	code := pbt.Main(m, pbt.Meta{
		Property: "C04",
		Level:    "fault_enumeration",
		Rule: "(restart) C03 mutation histories with a close+reopen inserted at every position (exhaustively for short histories over a fixed alphabet, randomly beyond), on a real Badger directory and on an in-memory ordered store re-wrapped by a fresh kvgraph.NewKVGraph; after the reopen and after every later step the full observation must equal the abstract model (a server that never stopped). " +
			"(crash) for every mutating call of a generated history, a dry run on a clone learns the number n of top-level store writes the call issues; for EVERY k<=n the call is re-run from the same pre-state with the store refusing the k-th write and all later ones, then the surviving store is reopened and checked: every adjacency/label-index entry refers to an existing element, every element is reachable through its indexes, every element not touched by the in-flight call equals the acknowledged state, touched elements hold their old or new version or are absent. " +
			"Non-trivial: (restart) >=1 write after a reopen; (crash) the crashed call issues >=2 top-level writes; distinct = (history, position) text.",
		Assumptions: []string{
			"each top-level kvi write (Set, Delete, DeletePrefix, one Update transaction, one BulkWrite batch) is atomic in the underlying store, as the property stipulates; torn writes inside one are out of scope",
			"internal/memkv is a faithful ordered-map kvi.KVInterface (it is the model C10 compares the real drivers with)",
			"a partially applied in-flight call that leaves the invariants intact is accepted",
		},
	})
	gripx.Cleanup()
	os.Exit(code)
}

// ---------------------------------------------------------------------------------
// restart

type RestartCase struct {
	Store string    `json:"store"` // mem | badger
	Ops   []hist.Op `json:"ops"`   // includes {kind: reopen}
}

func runRestart(t pbt.TB, c RestartCase) {
	pbt.Case(t)
	var env *histrun.Env
	switch c.Store {
	case "mem":
		cur := memkv.New()
		env = &histrun.Env{DB: kvgraph.NewKVGraph(cur)}
		env.Reopen = func() (gdbi.GraphDB, error) {
			// the process is gone: only the store's content survives
			cur = cur.Clone()
			return kvgraph.NewKVGraph(cur), nil
		}
	case "badger":
		dir := pbt.ScratchDir("c04-badger-")
		defer os.RemoveAll(dir)
		db, err := kvgraph.NewKVGraphDB("badger", dir)
		if err != nil {
			t.Fatalf("INFRA: open badger: %v", err)
		}
		env = &histrun.Env{DB: db}
		env.Reopen = func() (gdbi.GraphDB, error) {
			if err := env.DB.Close(); err != nil {
				return nil, err
			}
			return kvgraph.NewKVGraphDB("badger", dir)
		}
		defer func() { env.DB.Close() }()
	default:
		t.Fatalf("unknown store %q", c.Store)
	}
	res := histrun.Run(t, c, c.Ops, env)
	if res.Reopens > 0 {
		pbt.Class(t, "with-reopen")
	}
	if res.NewLabelAfterReopen {
		pbt.Class(t, "new-label-after-reopen")
	}
	if res.WritesAfterReopen > 0 {
		pbt.Nontrivial(t, c.Store+"|"+histrun.Text(c.Ops))
	}
}

func withReopens(rt *rapid.T, ops []hist.Op) []hist.Op {
	n := rapid.IntRange(1, 3).Draw(rt, "nReopen")
	out := append([]hist.Op{}, ops...)
	for i := 0; i < n; i++ {
		pos := rapid.IntRange(1, len(out)).Draw(rt, fmt.Sprintf("reopenPos%d", i))
		out = append(out[:pos], append([]hist.Op{{Kind: "reopen"}}, out[pos:]...)...)
	}
	return out
}

func TestRestartRandomMem(t *testing.T) {
	pbt.Check(t, 600, 18000, func(rt *rapid.T) {
		c := RestartCase{Store: "mem", Ops: withReopens(rt, hist.GenHistory(rt, 20, true))}
		if pbt.WantSample(rt) {
			pbt.Sample(rt, histrun.Text(c.Ops))
		}
		runRestart(rt, c)
	})
}

func TestRestartRandomBadger(t *testing.T) {
	pbt.Check(t, 60, 3500, func(rt *rapid.T) {
		c := RestartCase{Store: "badger", Ops: withReopens(rt, hist.GenHistory(rt, 12, false))}
		pbt.Current(rt, c)
		if pbt.WantSample(rt) {
			pbt.Sample(rt, histrun.Text(c.Ops))
		}
		runRestart(rt, c)
	})
}

func v(id, label string, data map[string]interface{}) hist.Op {
	return hist.Op{Kind: "addVertex", Graph: "ga", Elems: []*model.Element{{ID: id, Label: label, Data: data}}}
}
func e(id, label, from, to string) hist.Op {
	return hist.Op{Kind: "addEdge", Graph: "ga", Elems: []*model.Element{{ID: id, Edge: true, Label: label, From: from, To: to, Data: map[string]interface{}{}}}}
}

func alphabet() []hist.Op {
	return []hist.Op{
		v("v0", "A", map[string]interface{}{"k": 1.0}),
		v("v0", "B", map[string]interface{}{}),
		v("v1", "C", map[string]interface{}{}),
		e("e0", "x", "v0", "v1"),
		e("e0", "y", "v1", "v0"),
		{Kind: "delVertex", Graph: "ga", ID: "v0"},
		{Kind: "delEdge", Graph: "ga", ID: "e0"},
		{Kind: "deleteGraph", Graph: "ga"},
		{Kind: "addGraph", Graph: "ga"},
		{Kind: "addGraph", Graph: "gb"},
		{Kind: "bulkAdd", Graph: "ga", Elems: []*model.Element{{ID: "v1", Label: "A", Data: map[string]interface{}{}}, {ID: "e1", Edge: true, Label: "z", From: "v1", To: "v1", Data: map[string]interface{}{}}}},
	}
}

// every history of `depth` alphabet ops with one reopen at every position
func TestRestartExhaustiveMem(t *testing.T) {
	if _, ok := pbt.ReplayFile(); ok {
		t.Skip("replay mode")
	}
	depth := pbt.Pick(3, 4)
	alpha := alphabet()
	i := 0
	var rec func(prefix []hist.Op, left int)
	rec = func(prefix []hist.Op, left int) {
		if left == 0 {
			for pos := 1; pos <= len(prefix); pos++ {
				i++
				if !pbt.ShardOwns(i) {
					continue
				}
				ops := []hist.Op{{Kind: "addGraph", Graph: "ga"}}
				ops = append(ops, prefix[:pos]...)
				ops = append(ops, hist.Op{Kind: "reopen"})
				ops = append(ops, prefix[pos:]...)
				c := RestartCase{Store: "mem", Ops: ops}
				if pbt.WantSample(t) {
					pbt.Sample(t, histrun.Text(ops))
				}
				runRestart(t, c)
			}
			return
		}
		for _, op := range alpha {
			rec(append(append([]hist.Op{}, prefix...), op), left-1)
		}
	}
	rec(nil, depth)
	pbt.Exhaustive(t)
}

// ---------------------------------------------------------------------------------
// crash enumeration

type CrashCase struct {
	Ops   []hist.Op `json:"ops"`   // acknowledged prefix + the in-flight call (last)
	Crash int       `json:"crash"` // refuse the k-th top-level write of the last op (0 = enumerate all)
}

// extract builds the abstract graph the listings of a stored graph describe.
func extract(gi gdbi.GraphInterface) *model.Graph {
	g := &model.Graph{}
	for vtx := range gi.GetVertexList(bg, true) {
		g.V = append(g.V, &model.Element{ID: vtx.ID, Label: vtx.Label, Data: model.CopyMap(vtx.Data)})
	}
	for ed := range gi.GetEdgeList(bg, true) {
		g.E = append(g.E, &model.Element{ID: ed.ID, Edge: true, Label: ed.Label, From: ed.From, To: ed.To, Data: model.CopyMap(ed.Data)})
	}
	return g
}

func elemText(el *model.Element) string {
	if el == nil {
		return "<absent>"
	}
	return fmt.Sprintf("%s:%s %s->%s %s", el.ID, el.Label, el.From, el.To, model.Canon(interface{}(model.CopyMap(el.Data))))
}

// replayOn applies the acknowledged prefix to a fresh memkv store and returns it with
// the model world and names.
func replayOn(t pbt.TB, ops []hist.Op) (*memkv.Store, hist.World, hist.Names, bool) {
	store := memkv.New()
	db := kvgraph.NewKVGraph(store)
	world := hist.World{}
	names := hist.Names{}
	for _, op := range ops {
		ex := world.Apply(op)
		err, panicked := hist.ApplyReal(db, names, op)
		if panicked {
			return nil, nil, nil, false
		}
		if ex.MustFail != (err != nil) && !strings.HasSuffix(ex.Class, "-absent") {
			// return-value disagreements are C03's business; a diverged prefix is not a
			// usable acknowledged state
			return nil, nil, nil, false
		}
	}
	return store, world, names, true
}

func runCrash(t pbt.TB, c CrashCase) {
	pbt.Case(t)
	if len(c.Ops) == 0 {
		return
	}
	prefix, inflight := c.Ops[:len(c.Ops)-1], c.Ops[len(c.Ops)-1]
	store, world, names, ok := replayOn(t, prefix)
	if !ok {
		pbt.Class(t, "skip:prefix-diverged")
		return
	}
	// dry run on a clone: how many top-level writes does the call issue?
	dry := memkv.NewFaulty(store.Clone())
	after := world.Clone()
	ex := after.Apply(inflight)
	if ex.MustFail {
		pbt.Class(t, "skip:inflight-must-fail")
		return
	}
	hist.ApplyReal(kvgraph.NewKVGraph(dry), cloneNames(names), inflight)
	n := dry.NWrites()
	pbt.Class(t, fmt.Sprintf("writes=%d", min(n, 6)))
	if n == 0 {
		return
	}
	if n >= 2 {
		pbt.Nontrivial(t, histrun.Text(c.Ops))
	}
	ks := []int{c.Crash}
	if c.Crash == 0 {
		ks = ks[:0]
		for k := 1; k <= n; k++ {
			ks = append(ks, k)
		}
	}
	for _, k := range ks {
		pbt.Class(t, "crashpoint")
		f := memkv.NewFaulty(store.Clone())
		f.CrashBefore(k)
		nm := cloneNames(names)
		crashed := memkv.Catch(func() { hist.ApplyReal(kvgraph.NewKVGraph(f), nm, inflight) })
		_ = crashed
		f.Disarm()
		// reopen: a fresh process over what survived
		survivor := f.Inner().(*memkv.Store)
		db := kvgraph.NewKVGraph(survivor.Clone())
		cc := CrashCase{Ops: c.Ops, Crash: k}
		if !checkSurvivor(t, cc, db, world, after, nm, inflight, ex, k, n) {
			return
		}
	}
}

func cloneNames(n hist.Names) hist.Names {
	o := hist.Names{}
	for k, v := range n {
		o[k] = v
	}
	return o
}

// checkSurvivor judges the reopened store; false = stop (known finding hit).
func checkSurvivor(t pbt.TB, c CrashCase, db gdbi.GraphDB, before, after hist.World, names hist.Names, inflight hist.Op, ex hist.Expect, k, n int) bool {
	where := fmt.Sprintf("crash before write %d/%d of %s", k, n, inflight)
	listed := map[string]bool{}
	for _, g := range db.ListGraphs() {
		listed[g] = true
	}
	for _, ln := range hist.Graphs {
		real := names.Real(ln)
		gb, existedBefore := before[ln]
		ga, existsAfter := after[ln]
		addressed := ln == inflight.Graph
		if !addressed || existedBefore == existsAfter {
			want := existedBefore
			if listed[real] != want {
				return pbt.Discrepancy(t, c, "crash:"+inflight.Kind+":graph-listing", "%s: graph %s listed=%v, acknowledged state says %v", where, ln, listed[real], want)
			}
		}
		if !listed[real] {
			continue
		}
		gi, err := db.Graph(real)
		if err != nil {
			return pbt.Discrepancy(t, c, "crash:"+inflight.Kind+":listed-graph-unusable", "%s: graph %s is listed but Graph() fails: %v", where, ln, err)
		}
		// (1) self-consistency: the observation must equal the observation of the graph
		// that the plain listings describe
		m := extract(gi)
		got := obs.OfGraph(gi, histrun.Universe)
		want := obs.OfModel(m, histrun.Universe)
		if d := obs.Diff(got, want); len(d) > 0 {
			return pbt.Discrepancy(t, c, "crash:"+inflight.Kind+":inconsistent:"+obs.Method(d[0]), "%s: graph %s is inconsistent after reopen: %s (+%d more)", where, ln, d[0], len(d)-1)
		}
		// (2) acknowledged state: untouched elements exact; touched ones old/new/absent
		touched := map[string]bool{}
		if addressed {
			for _, el := range inflight.Elems {
				touched[kindOf(el.Edge)+el.ID] = true
			}
			switch inflight.Kind {
			case "delVertex":
				touched["v"+inflight.ID] = true
				if gb != nil {
					for _, ed := range gb.E {
						if ed.From == inflight.ID || ed.To == inflight.ID {
							touched["e"+ed.ID] = true
						}
					}
				}
			case "delEdge":
				touched["e"+inflight.ID] = true
			case "deleteGraph", "addGraph":
				// the whole graph is in flight
				continue
			}
		}
		if gb == nil {
			continue
		}
		ids := map[string]bool{}
		for _, el := range gb.V {
			ids["v"+el.ID] = true
		}
		for _, el := range gb.E {
			ids["e"+el.ID] = true
		}
		for _, el := range m.V {
			ids["v"+el.ID] = true
		}
		for _, el := range m.E {
			ids["e"+el.ID] = true
		}
		for key := range ids {
			kind, id := key[:1], key[1:]
			var old, now, nw *model.Element
			if kind == "v" {
				old, now = gb.Vertex(id), m.Vertex(id)
				if ga != nil {
					nw = ga.Vertex(id)
				}
			} else {
				old, now = gb.EdgeByID(id), m.EdgeByID(id)
				if ga != nil {
					nw = ga.EdgeByID(id)
				}
			}
			if !touched[key] {
				if elemText(old) != elemText(now) {
					return pbt.Discrepancy(t, c, "crash:"+inflight.Kind+":acknowledged-lost", "%s: graph %s: %s %s was acknowledged as [%s] but is [%s] after reopen", where, ln, kind, id, elemText(old), elemText(now))
				}
				continue
			}
			if nt := elemText(now); now != nil && nt != elemText(old) && nt != elemText(nw) {
				// a call that carries several versions of one id may have been cut
				// between them: any version it carries is a partial application
				partial := false
				for _, el := range inflight.Elems {
					if kindOf(el.Edge) == kind && el.ID == id {
						cp := *el
						if elemText(&cp) == nt {
							partial = true
						}
					}
				}
				if !partial {
					return pbt.Discrepancy(t, c, "crash:"+inflight.Kind+":invented-version", "%s: graph %s: %s %s is [%s], neither the old [%s] nor a version carried by the call (final [%s])", where, ln, kind, id, nt, elemText(old), elemText(nw))
				}
			}
		}
	}
	// (3) a graph that does not exist after the reopen leaves nothing behind that a later
	// graph of the same name could inherit ("every ... label-index entry refers to an
	// existing element"): created again, it is empty - also in its label listings and
	// label lookups - and what is written to it is listed under its own label only
	for _, ln := range hist.Graphs {
		real := names.Real(ln)
		if listed[real] {
			continue
		}
		if err := db.AddGraph(real); err != nil {
			return pbt.Discrepancy(t, c, "crash:"+inflight.Kind+":cannot-recreate", "%s: graph %s does not exist after the reopen and cannot be created: %v", where, ln, err)
		}
		gi, err := db.Graph(real)
		if err != nil {
			return pbt.Discrepancy(t, c, "crash:"+inflight.Kind+":cannot-recreate", "%s: graph %s created after the reopen: Graph() fails: %v", where, ln, err)
		}
		got := obs.OfGraph(gi, histrun.Universe)
		want := obs.OfModel(&model.Graph{}, histrun.Universe)
		if d := obs.Diff(got, want); len(d) > 0 {
			pbt.Class(t, "recreated-after-crash")
			return pbt.Discrepancy(t, c, "crash:"+inflight.Kind+":recreated-graph-inherits:"+obs.Method(d[0]), "%s: graph %s did not exist after the reopen; created again it is not empty: %s (+%d more)", where, ln, d[0], len(d)-1)
		}
		pbt.Class(t, "recreated-after-crash")
	}
	// (4) the server goes on: in every graph that exists now (after a retry of AddGraph,
	// which a client whose call was cut off would issue), an element written after the
	// reopen is reachable through the label indexes like any other ("every existing
	// element is reachable through its indexes", "every later operation behaves as on a
	// server that never stopped")
	for _, ln := range hist.Graphs {
		real := names.Real(ln)
		if err := db.AddGraph(real); err != nil {
			return pbt.Discrepancy(t, c, "crash:"+inflight.Kind+":addgraph-after-reopen", "%s: AddGraph(%s) after the reopen fails: %v", where, ln, err)
		}
		gi, err := db.Graph(real)
		if err != nil {
			return pbt.Discrepancy(t, c, "crash:"+inflight.Kind+":addgraph-after-reopen", "%s: Graph(%s) after the reopen fails: %v", where, ln, err)
		}
		if err := gi.AddVertex([]*gdbi.Vertex{{ID: "probe-v", Label: "PV", Data: map[string]interface{}{}}}); err != nil {
			return pbt.Discrepancy(t, c, "crash:"+inflight.Kind+":write-after-reopen", "%s: graph %s: AddVertex after the reopen fails: %v", where, ln, err)
		}
		if err := gi.AddEdge([]*gdbi.Edge{{ID: "probe-e", Label: "pe", From: "probe-v", To: "probe-v", Data: map[string]interface{}{}}}); err != nil {
			return pbt.Discrepancy(t, c, "crash:"+inflight.Kind+":write-after-reopen", "%s: graph %s: AddEdge after the reopen fails: %v", where, ln, err)
		}
		found := false
		for id := range gi.VertexLabelScan(context.Background(), "PV") {
			if id == "probe-v" {
				found = true
			}
		}
		vl, _ := gi.ListVertexLabels()
		el, _ := gi.ListEdgeLabels()
		has := func(l []string, x string) bool {
			for _, y := range l {
				if y == x {
					return true
				}
			}
			return false
		}
		if !found || !has(vl, "PV") || !has(el, "pe") {
			return pbt.Discrepancy(t, c, "crash:"+inflight.Kind+":written-after-reopen-not-indexed", "%s: graph %s: a vertex PV and an edge pe written after the reopen: label scan finds the vertex=%v, vertex labels %v, edge labels %v", where, ln, found, vl, el)
		}
		pbt.Class(t, "probe-written-after-crash")
	}
	return true
}

func kindOf(edge bool) string {
	if edge {
		return "e"
	}
	return "v"
}

func TestReplay(t *testing.T) {
	cf, ok := pbt.ReplayFile()
	if !ok {
		t.Skip("no replay file")
	}
	if strings.HasPrefix(cf.Test, "TestRestart") {
		var c RestartCase
		if err := json.Unmarshal(cf.Case, &c); err != nil {
			t.Fatal(err)
		}
		runRestart(t, c)
		return
	}
	var c CrashCase
	if err := json.Unmarshal(cf.Case, &c); err != nil {
		t.Fatal(err)
	}
	runCrash(t, c)
}

func TestCrashRandom(t *testing.T) {
	pbt.Check(t, 2500, 120000, func(rt *rapid.T) {
		ops := hist.GenHistory(rt, 14, false)
		c := CrashCase{Ops: ops}
		if pbt.WantSample(rt) {
			pbt.Sample(rt, histrun.Text(ops))
		}
		runCrash(rt, c)
	})
}

// every history of depth alphabet ops: the last op is the in-flight call
func TestCrashExhaustive(t *testing.T) {
	if _, ok := pbt.ReplayFile(); ok {
		t.Skip("replay mode")
	}
	depth := pbt.Pick(3, 4)
	alpha := alphabet()
	i := 0
	var rec func(prefix []hist.Op, left int)
	rec = func(prefix []hist.Op, left int) {
		if len(prefix) > 0 {
			i++
			if pbt.ShardOwns(i) {
				c := CrashCase{Ops: append([]hist.Op{{Kind: "addGraph", Graph: "ga"}}, prefix...)}
				if pbt.WantSample(t) {
					pbt.Sample(t, histrun.Text(c.Ops))
				}
				runCrash(t, c)
			}
		}
		if left == 0 {
			return
		}
		for _, op := range alpha {
			rec(append(append([]hist.Op{}, prefix...), op), left-1)
		}
	}
	rec(nil, depth)
	pbt.Exhaustive(t)
}

var _ kvi.KVInterface
