// Package c10: all embedded key-value drivers behave as the same ordered map.
//
// Part (a) of the C10 design: one generated program of kvi.KVInterface calls is run
// against each registered embedded driver (badger, bolt, level, pebble) and against
// the sorted-map model internal/memkv, and every observation is compared.
//
// What is compared (and what is not) — see also findings/corrections.md:
//   - Get / HasKey (store, transaction, iterator Get): found-ness, and the value when
//     found. Error *values* are never compared; an error return only means "not found"
//     for Get, and "failed" for calls the model never fails (writes, View, Update).
//   - iterator programs: Valid() after every positioning call (Seek, SeekReverse,
//     Next), Key()/Value() only while the cursor is valid. The error returned by a
//     positioning call is ignored (Bolt's Next returns nil at the end, the others an
//     error: the interface does not say). Key/Value/Next on an invalid cursor and
//     Next/Key/Value before the first seek are not performed (undefined by the
//     interface; no caller does it). Slices are copied at once; nothing is used after
//     the View returned.
//   - after every top-level write and at the end of the program: the full contents
//     (forward scan, cross-checked with point reads).
package c10

import (
	"bytes"
	"encoding/json"
	"fmt"
	"os"
	"path/filepath"
	"runtime"
	"runtime/debug"
	"sort"
	"strconv"
	"strings"
	"testing"

	"github.com/bmeg/grip/kvi"
	_ "github.com/bmeg/grip/kvi/badgerdb"
	_ "github.com/bmeg/grip/kvi/boltdb"
	_ "github.com/bmeg/grip/kvi/leveldb"
	_ "github.com/bmeg/grip/kvi/pebbledb"
	"verif/internal/memkv"
	"verif/internal/pbt"
)

var drivers = func() []string {
	if d := os.Getenv("C10_DRIVERS"); d != "" { // development aid
		return strings.Split(d, ",")
	}
	return []string{"badger", "bolt", "level", "pebble"}
}()

func TestMain(m *testing.M) {
	// an open Badger store holds ~0.5 GB of arenas and caches; keep the garbage on top
	// of that small (16 shards run at once in the thorough tier)
	debug.SetGCPercent(40)
	code := pbt.Main(m, pbt.Meta{
		Property: "C10",
		Level:    "exploration",
		Rule: "programs of kvi.KVInterface calls (Set, Get, HasKey, Delete, DeletePrefix, View(iterator program), Update(transaction program, closure returns nil), BulkWrite(sets)) with keys of length 1-3 and values of length 0-3 over the alphabet {0x00,'a','b',0xff} (keys drawn with a bias to keys used earlier, their prefixes and extensions), each run on badger, bolt, level and pebble (opened with kvi.NewKVInterface, one store per driver per process, wiped and verified empty before every case) and compared call by call with the sorted-map model internal/memkv; " +
			"random programs (<=30 top-level calls, iterator programs <=10 steps, transactions <=8 steps) and an exhaustive enumeration of all mutation sequences up to depth 3 (thorough: 4) over 3 keys {a, ab, b}, each run at top level, inside one transaction and as one bulk batch (thorough: every split into committed prefix / one transaction or batch), each followed by a fixed battery of point reads, forward/reverse seeks from 6 probe keys with full walks, and seek pairs. " +
			"A case is one (driver, program). Non-trivial: the program performs a reverse seek or a prefix delete while the store holds >= 3 keys, or an iterator inside a transaction observes that transaction's own write (its observations differ from what the pre-transaction state would give); distinct = distinct (driver, program).",
		Assumptions: []string{
			"the oracle is the sorted-map model internal/memkv (Seek: smallest key >= k; SeekReverse: largest key <= k; Next continues in the direction of the last seek; Valid iff on a key; transactions read their own writes; BulkWrite applies its Sets, later ones win); the model itself is unit-tested against a naive map",
			"not compared (undefined by kvi/interface.go): error values; the error result of Seek/SeekReverse/Next; Key/Value/Next on an invalid cursor or before the first seek; iterators or slices used after View returned; empty keys, empty DeletePrefix prefixes, nil (as opposed to empty) values; transactions whose closure returns an error; concurrent transactions",
			"one store per driver per process is reused: every case starts by deleting every key the previous cases wrote (one Delete per key) and verifying emptiness by a scan and point reads; a store that cannot be verified empty is closed and replaced by a fresh one",
			"after an observation that matches an open known finding, judging continues: a diverged iterator program is abandoned, diverged store contents are repaired key by key (Set/Delete) and re-verified",
		},
	})
	closeStores()
	os.Exit(code)
}

// ---------------------------------------------------------------------------------
// case form

// B is a byte string that serialises as a Go-escaped ASCII string ("a\x00\xff").
type B []byte

func (b B) String() string {
	q := strconv.QuoteToASCII(string(b))
	return q[1 : len(q)-1]
}

func (b B) MarshalJSON() ([]byte, error) { return json.Marshal(b.String()) }

func (b *B) UnmarshalJSON(data []byte) error {
	var s string
	if err := json.Unmarshal(data, &s); err != nil {
		return err
	}
	u, err := strconv.Unquote(`"` + s + `"`)
	if err != nil {
		return fmt.Errorf("bad byte string %q: %v", s, err)
	}
	*b = B(u)
	return nil
}

// nn returns b as a non-nil slice (a fresh copy: drivers may keep what they get).
func nn(b B) []byte {
	out := make([]byte, len(b))
	copy(out, b)
	return out
}

func q(b []byte) string { return B(b).String() }

// ItOp is one step of an iterator program: seek|seekrev (K), next, valid, key, value, get (K).
type ItOp struct {
	Op string `json:"op"`
	K  B      `json:"k,omitempty"`
}

// TxOp is one step of a transaction program: set (K,V), delete|get|has (K), view (It).
type TxOp struct {
	Op string `json:"op"`
	K  B      `json:"k,omitempty"`
	V  B      `json:"v,omitempty"`
	It []ItOp `json:"it,omitempty"`
}

// KV is one Set of a bulk batch.
type KV struct {
	K B `json:"k"`
	V B `json:"v,omitempty"`
}

// Op is one top-level call: set (K,V), get|has|delete|delprefix (K), view (It),
// update (Tx), bulk (Sets).
type Op struct {
	Op   string `json:"op"`
	K    B      `json:"k,omitempty"`
	V    B      `json:"v,omitempty"`
	It   []ItOp `json:"it,omitempty"`
	Tx   []TxOp `json:"tx,omitempty"`
	Sets []KV   `json:"sets,omitempty"`
}

// Case is one program on one driver.
type Case struct {
	Driver string `json:"driver"`
	Ops    []Op   `json:"ops"`
}

func (o Op) isWrite() bool {
	switch o.Op {
	case "set", "delete", "delprefix", "update", "bulk":
		return true
	}
	return false
}

var topMethod = map[string]string{"set": "Set", "get": "Get", "has": "HasKey", "delete": "Delete",
	"delprefix": "DeletePrefix", "view": "View", "update": "Update", "bulk": "BulkWrite"}

// writtenKeys lists every key the op may create.
func (o Op) writtenKeys() [][]byte {
	var out [][]byte
	switch o.Op {
	case "set":
		out = append(out, o.K)
	case "update":
		for _, s := range o.Tx {
			if s.Op == "set" {
				out = append(out, s.K)
			}
		}
	case "bulk":
		for _, s := range o.Sets {
			out = append(out, s.K)
		}
	}
	return out
}

// ---------------------------------------------------------------------------------
// guarded driver calls

// guard runs fn; a panic becomes the observation "panic: ...".
func guard(fn func() string) (out string) {
	defer func() {
		if r := recover(); r != nil {
			msg := fmt.Sprint(r)
			if len(msg) > 120 {
				msg = msg[:120]
			}
			out = "panic: " + msg
		}
	}()
	return fn()
}

func okErr(err error) string {
	if err != nil {
		return "error"
	}
	return "ok"
}

func getObs(v []byte, err error) string {
	if err != nil {
		return "missing"
	}
	return "found " + q(v)
}

func hasObs(b bool) string {
	if b {
		return "true"
	}
	return "false"
}

// position is the observation after a positioning call: Valid, and the key if valid.
func position(it kvi.KVIterator) string {
	if !it.Valid() {
		return "invalid"
	}
	return "at " + q(append([]byte(nil), it.Key()...))
}

// ---------------------------------------------------------------------------------
// one store per driver per process

type handle struct {
	drv     string
	kv      kvi.KVInterface
	dir     string
	tracked map[string]struct{} // keys written since the store was last verified empty
	cases   int                 // cases run on this store
}

// The LSM drivers keep every overwritten version and tombstone until a compaction, and
// their iterators step over all of them: a long-lived store gets slower with every
// case. A store is therefore replaced by a fresh one after this many cases.
var reopenEvery = func() int {
	if v, err := strconv.Atoi(os.Getenv("C10_REOPEN_EVERY")); err == nil && v > 0 { // development aid
		return v
	}
	return 150
}()

var handles = map[string]*handle{}

func openFresh(drv string) (*handle, error) {
	dir := pbt.ScratchDir("c10-" + drv + "-")
	path := dir
	if drv == "bolt" {
		path = filepath.Join(dir, "bolt.db")
	}
	kv, err := kvi.NewKVInterface(drv, path, nil)
	if err != nil {
		return nil, err
	}
	return &handle{drv: drv, kv: kv, dir: dir, tracked: map[string]struct{}{}}, nil
}

func closeStores() {
	for _, h := range handles {
		guard(func() string { h.kv.Close(); return "" })
		os.RemoveAll(h.dir)
	}
	handles = map[string]*handle{}
}

// scan reads the whole store with a forward iteration from the smallest possible key.
func scan(kv kvi.KVInterface) (pairs []memkv.Pair, problem string) {
	problem = guard(func() string {
		err := kv.View(func(it kvi.KVIterator) error {
			n := 0
			for it.Seek([]byte{0}); it.Valid(); it.Next() {
				k := append([]byte{}, it.Key()...)
				v, err := it.Value()
				if err != nil {
					return fmt.Errorf("Value() of %q: %v", k, err)
				}
				pairs = append(pairs, memkv.Pair{Key: k, Value: append([]byte{}, v...)})
				if n++; n > 10000 {
					return fmt.Errorf("scan does not terminate")
				}
			}
			return nil
		})
		if err != nil {
			return "error: " + err.Error()
		}
		return ""
	})
	return pairs, problem
}

func pairsStr(ps []memkv.Pair) string {
	parts := make([]string, len(ps))
	for i, p := range ps {
		parts[i] = q(p.Key) + "=" + q(p.Value)
	}
	return "{" + strings.Join(parts, ", ") + "}"
}

func samePairs(a, b []memkv.Pair) bool {
	if len(a) != len(b) {
		return false
	}
	for i := range a {
		if !bytes.Equal(a[i].Key, b[i].Key) || !bytes.Equal(a[i].Value, b[i].Value) {
			return false
		}
	}
	return true
}

// pointState reads the given keys one by one with Get.
func pointState(kv kvi.KVInterface, keys []string) (pairs []memkv.Pair, problem string) {
	for _, k := range keys {
		var v []byte
		var err error
		if p := guard(func() string { v, err = kv.Get([]byte(k)); return "" }); p != "" {
			return nil, fmt.Sprintf("Get(%q): %s", k, p)
		}
		if err == nil {
			pairs = append(pairs, memkv.Pair{Key: []byte(k), Value: append([]byte{}, v...)})
		}
	}
	return pairs, ""
}

// wipe deletes every key the store may hold, one Delete per key, and verifies with a
// scan and point reads that nothing is left.
func (h *handle) wipe() (clean bool, why string) {
	for round := 0; round < 2; round++ {
		found, problem := scan(h.kv)
		if problem != "" {
			return false, "scan: " + problem
		}
		for _, p := range found {
			h.tracked[string(p.Key)] = struct{}{}
		}
		keys := make([]string, 0, len(h.tracked))
		for k := range h.tracked {
			keys = append(keys, k)
		}
		sort.Strings(keys)
		// delete what the scan or a point read still sees (every write is a synced
		// commit on most drivers: do not issue needless ones)
		present, problem := pointState(h.kv, keys)
		if problem != "" {
			return false, problem
		}
		for _, p := range append(found, present...) {
			k := p.Key
			if p := guard(func() string { return okErr(h.kv.Delete(k)) }); p != "ok" {
				return false, fmt.Sprintf("Delete(%q): %s", k, p)
			}
		}
		left, problem := scan(h.kv)
		if problem != "" {
			return false, "scan: " + problem
		}
		leftPoint, problem := pointState(h.kv, keys)
		if problem != "" {
			return false, problem
		}
		if len(left) == 0 && len(leftPoint) == 0 {
			h.tracked = map[string]struct{}{}
			return true, ""
		}
		why = fmt.Sprintf("after deleting every key: scan sees %s, point reads see %s", pairsStr(left), pairsStr(leftPoint))
	}
	return false, why
}

// store returns the driver's store, verified empty.
func store(t pbt.TB, drv string) *handle {
	h := handles[drv]
	if h != nil && h.cases >= reopenEvery {
		guard(func() string { h.kv.Close(); return "" })
		os.RemoveAll(h.dir)
		delete(handles, drv)
		h = nil
		// a closed Badger store (64 MB arenas, caches) is only collectable after its
		// finalizers ran: collect twice and hand the memory back, or 16 shards hold
		// more than a gigabyte each
		runtime.GC()
		debug.FreeOSMemory()
	}
	if h != nil {
		clean, why := h.wipe()
		if clean {
			h.cases++
			return h
		}
		// cannot reuse: replace by a fresh store (never a verdict by itself; if the
		// cause is a driver defect the next case's comparisons report it)
		pbt.Class(t, "reset-by-reopen:"+drv)
		t.Logf("store %s could not be wiped (%s): reopening", drv, why)
		guard(func() string { h.kv.Close(); return "" })
		os.RemoveAll(h.dir)
		delete(handles, drv)
	}
	h, err := openFresh(drv)
	if err != nil {
		t.Fatalf("INFRA: cannot open %s store: %v", drv, err)
	}
	if left, problem := scan(h.kv); problem != "" || len(left) != 0 {
		t.Fatalf("INFRA: fresh %s store is not empty: %s %s", drv, pairsStr(left), problem)
	}
	handles[drv] = h
	h.cases++
	return h
}

// ---------------------------------------------------------------------------------
// the runner: the same program code drives the model (recording the expected
// observations), the pre-transaction snapshot (alternative expectations for iterators
// inside a transaction) and the driver (comparing)

type runMode int

const (
	mModel runMode = iota
	mAlt
	mDriver
)

type rec struct {
	method  string
	cond    string
	out     string
	hasAlt  bool
	alt     string
	altCond string
	end     int // program markers: index of the first record after the program
}

type mismatch struct {
	sig    string
	method string
	want   string
	got    string
	note   string
}

type stats struct {
	reverseSeek, prefixDelete, prefixDeleteHit, txIterDirty, txIterOwnWrite bool
	seekPastEnd, seekBeforeFirst, seekEmptyStore, emptyValue, bigReverse    bool
	bigPrefixDelete, nextOffEnd, txReadOwnWrite, bulkOverwrite              bool
	maxKeys                                                                 int
}

type runner struct {
	mode  runMode
	drv   string
	recs  []rec
	i     int
	mism  []mismatch
	model *memkv.Store // model mode: the model store (conditions are computed from it)
	st    *stats

	// iterator-program state (driver mode)
	alive0  bool   // still judged against the model (false: against the pre-transaction state)
	prevPos string // the driver's last valid position
	seekRec int    // record of the program's last seek, -1 if none

	txStep, itStep int // position inside the current call (for messages), -1 if not inside
}

func preTxSig(drv string) string { return drv + ":Tx.View:reads-pre-tx-state" }

// emit performs one observable step.
func (r *runner) emit(method, cond string, do func() string) (out string, ok bool) {
	switch r.mode {
	case mModel:
		out = do()
		r.recs = append(r.recs, rec{method: method, cond: cond, out: out})
		return out, true
	case mAlt:
		out = do()
		rc := &r.recs[r.i]
		rc.hasAlt, rc.alt, rc.altCond = true, out, cond
		if rc.method == "-" { // the model skipped this step
			rc.method = method
		}
		r.i++
		return out, true
	}
	rc := r.recs[r.i]
	r.i++
	got := guard(do)
	m0 := got == rc.out
	if !rc.hasAlt {
		// plain comparison with the model
		if !m0 {
			r.fail(r.sigFor(rc, false, got), rc.method, rc.out, got, "")
		}
		return got, m0
	}
	// an iterator inside a transaction that has written: the model's answer, and what
	// the pre-transaction state would answer
	m1 := got == rc.alt
	if !r.alive0 { // already following the pre-transaction state
		if !m1 {
			r.fail(r.sigFor(rc, true, got), rc.method, rc.alt, got, "judged against the pre-transaction state, which this driver's transaction iterator has been reading")
		}
		return got, m1
	}
	if m0 {
		return got, true
	}
	sig0 := r.sigFor(rc, false, got)
	if !pbt.IsOpen(sig0) { // (a listed defect that does not depend on the transaction explains it otherwise)
		if m1 {
			// differs from the transaction's state, equals what the committed state
			// gives: keep judging against the latter
			r.alive0 = false
			r.mism = append(r.mism, mismatch{sig: preTxSig(r.drv), method: r.where() + rc.method, want: rc.out, got: got,
				note: "the iterator of a transaction does not see the transaction's own writes (answers as the pre-transaction state would)"})
			return got, true
		}
		if pbt.IsOpen(preTxSig(r.drv)) {
			// this driver's transaction iterators are known to read the committed state:
			// a listed defect applied to that state explains it
			if sigA := r.sigFor(rc, true, got); pbt.IsOpen(sigA) {
				r.fail(sigA, rc.method, rc.alt, got, "judged against the pre-transaction state, which this driver's transaction iterators are known to read")
				return got, false
			}
		}
	}
	r.fail(sig0, rc.method, rc.out, got, "")
	return got, false
}

// sigFor builds the signature of a wrong observation got for record rc, judged
// against the model (alt=false) or the pre-transaction state (alt=true).
func (r *runner) sigFor(rc rec, alt bool, got string) string {
	cond, want := rc.cond, rc.out
	if alt {
		cond, want = rc.altCond, rc.alt
	}
	switch rc.method {
	case "Next", "Key", "Value", "Valid":
		// A cursor that went wrong after a seek beyond either end of the keys is the
		// consequence of that seek (the drivers keep stale state there; the wrong
		// position may coincide with the right one at first): key on the seek.
		if r.seekRec >= 0 {
			sr := r.recs[r.seekRec]
			sc := sr.cond
			if alt {
				sc = sr.altCond
			}
			if sc == "past-end" || sc == "before-first" || sc == "empty-store" {
				return r.drv + ":" + sr.method + ":" + sc + "-diverges-later"
			}
		}
	}
	return r.drv + ":" + rc.method + ":" + symptom(rc.method, cond, want, got, r.prevPos)
}

// skip consumes the record of a step that is not performed.
func (r *runner) skip() {
	switch r.mode {
	case mModel:
		r.recs = append(r.recs, rec{method: "-", out: "-"})
	case mAlt:
		rc := &r.recs[r.i]
		rc.hasAlt, rc.alt = true, "-"
		r.i++
	default:
		r.i++
	}
}

func (r *runner) begin() int {
	if r.mode == mModel {
		r.recs = append(r.recs, rec{method: "begin"})
		return len(r.recs) - 1
	}
	r.i++
	return r.i - 1
}

func (r *runner) end(start int) {
	if r.mode == mModel {
		r.recs[start].end = len(r.recs)
	}
}

func (r *runner) fail(sig, method, want, got, note string) {
	r.mism = append(r.mism, mismatch{sig: sig, method: r.where() + method, want: want, got: got, note: note})
}

func (r *runner) where() string {
	w := ""
	if r.txStep >= 0 {
		w += fmt.Sprintf("transaction step %d, ", r.txStep)
	}
	if r.itStep >= 0 {
		w += fmt.Sprintf("iterator step %d, ", r.itStep)
	}
	return w
}

// symptom is the short root-cause key of a wrong observation.
func symptom(method, cond, want, got, prevPos string) string {
	pre := ""
	if cond != "" {
		pre = cond + "-"
	}
	if strings.HasPrefix(got, "panic: ") {
		if cond == "missing" || cond == "present" {
			return "panic-on-" + cond
		}
		return pre + "panic"
	}
	switch method {
	case "Seek", "SeekReverse", "Next":
		switch {
		case got == "invalid":
			return pre + "invalid"
		case got == prevPos:
			return pre + "stale" // still reports the position it had before the call
		case want == "invalid":
			return pre + "valid"
		default:
			return pre + "wrong-key"
		}
	case "Get", "Tx.Get", "It.Get":
		switch {
		case got == "missing":
			return "present-reported-missing"
		case want == "missing":
			return "missing-reported-found"
		default:
			return "wrong-value"
		}
	case "HasKey", "Tx.HasKey", "Valid":
		return "wrong-answer"
	case "Key":
		return pre + "wrong-key"
	case "Value":
		if got == "error" {
			return pre + "error"
		}
		return pre + "wrong-value"
	}
	if got == "error" {
		return pre + "error"
	}
	return pre + "wrong-result"
}

// seekCond classifies a seek target against the sorted keys of the state.
func seekCond(keys []string, k []byte) string {
	switch {
	case len(keys) == 0:
		return "empty-store"
	case string(k) > keys[len(keys)-1]:
		return "past-end"
	case string(k) < keys[0]:
		return "before-first"
	}
	return "in-range"
}

func keysOf(ps []memkv.Pair) []string {
	out := make([]string, len(ps))
	for i, p := range ps {
		out[i] = string(p.Key)
	}
	return out
}

// modelKeys scans a model iterator source (trusted) for its sorted keys.
func modelKeys(view func(func(kvi.KVIterator) error) error) []string {
	var keys []string
	view(func(it kvi.KVIterator) error {
		for it.Seek([]byte{}); it.Valid(); it.Next() {
			keys = append(keys, string(it.Key()))
		}
		return nil
	})
	return keys
}

// runIt runs an iterator program. keys: sorted keys of the iterated state (model and
// alt modes; nil in driver mode).
func (r *runner) runIt(it kvi.KVIterator, prog []ItOp, keys []string) {
	start := r.begin()
	if r.mode == mDriver {
		r.alive0, r.prevPos, r.seekRec = true, "", -1
		defer func() { r.alive0, r.prevPos, r.seekRec = true, "", -1 }()
	} else if r.mode == mAlt {
		r.recs[start].hasAlt = true
	}
	valid := false
	lastSeek := ""
	forward := true
	pos := -1 // model/alt: index of the cursor in keys
	abort := func() {
		if r.mode == mDriver {
			r.i = r.recs[start].end
		}
	}
	moved := func(out string) {
		valid = out != "invalid" && !strings.HasPrefix(out, "panic: ")
		if valid {
			r.prevPos = out
		}
		if r.mode != mDriver {
			pos = -1
			if valid {
				pos = sort.SearchStrings(keys, string(mustUnq(strings.TrimPrefix(out, "at "))))
			}
		}
	}
	defer func() { r.itStep = -1 }()
	for j, s := range prog {
		r.itStep = j
		switch s.Op {
		case "seek", "seekrev":
			k := nn(s.K)
			method, cond := "Seek", ""
			if s.Op == "seekrev" {
				method = "SeekReverse"
			}
			if r.mode != mDriver {
				cond = seekCond(keys, k)
			}
			if r.mode == mModel && r.st != nil {
				if s.Op == "seekrev" {
					r.st.reverseSeek = true
					if len(keys) >= 3 {
						r.st.bigReverse = true
					}
				}
				switch cond {
				case "past-end":
					r.st.seekPastEnd = true
				case "before-first":
					r.st.seekBeforeFirst = true
				case "empty-store":
					r.st.seekEmptyStore = true
				}
			}
			r.seekRec = r.i // (driver mode) this step's record
			out, ok := r.emit(method, cond, func() string {
				if s.Op == "seek" {
					it.Seek(k)
				} else {
					it.SeekReverse(k)
				}
				return position(it)
			})
			if !ok {
				abort()
				return
			}
			forward = s.Op == "seek"
			lastSeek = method
			moved(out)
		case "next":
			if !valid {
				r.skip()
				continue
			}
			cond := "forward"
			if !forward {
				cond = "reverse"
			}
			if r.mode != mDriver {
				if (forward && pos == len(keys)-1) || (!forward && pos == 0) {
					cond += "-off-end"
					if r.mode == mModel && r.st != nil {
						r.st.nextOffEnd = true
					}
				}
			}
			out, ok := r.emit("Next", cond, func() string { it.Next(); return position(it) })
			if !ok {
				abort()
				return
			}
			moved(out)
		case "valid":
			if _, ok := r.emit("Valid", "", func() string {
				if it.Valid() {
					return "true"
				}
				return "false"
			}); !ok {
				abort()
				return
			}
		case "key":
			if !valid {
				r.skip()
				continue
			}
			if _, ok := r.emit("Key", "after-"+lastSeek, func() string { return "key " + q(append([]byte(nil), it.Key()...)) }); !ok {
				abort()
				return
			}
		case "value":
			if !valid {
				r.skip()
				continue
			}
			if _, ok := r.emit("Value", "after-"+lastSeek, func() string {
				v, err := it.Value()
				if err != nil {
					return "error"
				}
				return "value " + q(append([]byte(nil), v...))
			}); !ok {
				abort()
				return
			}
		case "get":
			k := nn(s.K)
			cond := ""
			if r.mode != mDriver {
				cond = "missing"
				if i := sort.SearchStrings(keys, string(k)); i < len(keys) && keys[i] == string(k) {
					cond = "present"
				}
			}
			// a wrong point read does not disturb the cursor: keep going
			r.emit("It.Get", cond, func() string { return getObs(it.Get(k)) })
		default:
			panic("bad iterator op " + s.Op)
		}
	}
	r.end(start)
}

func mustUnq(s string) []byte {
	u, err := strconv.Unquote(`"` + s + `"`)
	if err != nil {
		panic(err)
	}
	return []byte(u)
}

func presence(has bool) string {
	if has {
		return "present"
	}
	return "missing"
}

// runTx runs a transaction program inside an Update closure. pre: the model's
// committed state before the transaction (model mode only).
func (r *runner) runTx(tx kvi.KVTransaction, prog []TxOp, pre *memkv.Store) {
	dirty := false
	defer func() { r.txStep = -1 }()
	for j, s := range prog {
		r.txStep = j
		k := nn(s.K)
		cond := ""
		switch s.Op {
		case "set":
			v := nn(s.V)
			if r.mode == mModel && r.st != nil && len(v) == 0 {
				r.st.emptyValue = true
			}
			r.emit("Tx.Set", "", func() string { return okErr(tx.Set(k, v)) })
			dirty = true
		case "delete":
			r.emit("Tx.Delete", "", func() string { return okErr(tx.Delete(k)) })
			dirty = true
		case "get":
			if r.mode == mModel {
				cond = presence(tx.HasKey(k))
				if r.st != nil && dirty && pre.HasKey(k) != tx.HasKey(k) {
					r.st.txReadOwnWrite = true
				}
			}
			r.emit("Tx.Get", cond, func() string { return getObs(tx.Get(k)) })
		case "has":
			if r.mode == mModel {
				cond = presence(tx.HasKey(k))
				if r.st != nil && dirty && pre.HasKey(k) != tx.HasKey(k) {
					r.st.txReadOwnWrite = true
				}
			}
			r.emit("Tx.HasKey", cond, func() string { return hasObs(tx.HasKey(k)) })
		case "view":
			var keys []string
			if r.mode == mModel {
				keys = modelKeys(tx.View)
				if r.st != nil && len(keys) > r.st.maxKeys {
					r.st.maxKeys = len(keys)
				}
			}
			startRec := len(r.recs)
			if r.mode == mDriver {
				startRec = r.i
			}
			out := guard(func() string {
				return okErr(tx.View(func(it kvi.KVIterator) error { r.runIt(it, s.It, keys); return nil }))
			})
			if r.mode == mModel && dirty {
				// what the same program observes on the pre-transaction state
				r.mode, r.i = mAlt, startRec
				pre.View(func(it kvi.KVIterator) error { r.runIt(it, s.It, keysOf(pre.Dump())); return nil })
				r.mode = mModel
				if r.st != nil {
					r.st.txIterDirty = true
					for _, rc := range r.recs[startRec:] {
						if rc.hasAlt && rc.alt != rc.out {
							r.st.txIterOwnWrite = true
						}
					}
				}
			}
			if r.mode == mDriver && strings.HasPrefix(out, "panic: ") {
				// a panic that escaped the per-step guards (inside View itself)
				r.i = r.recs[startRec].end
			}
			r.emit("Tx.View", "", func() string { return out })
		default:
			panic("bad transaction op " + s.Op)
		}
	}
}

// runOp runs one top-level call on kv.
func (r *runner) runOp(kv kvi.KVInterface, op Op) {
	k := nn(op.K)
	cond := ""
	switch op.Op {
	case "set":
		v := nn(op.V)
		if r.mode == mModel && r.st != nil && len(v) == 0 {
			r.st.emptyValue = true
		}
		r.emit("Set", "", func() string { return okErr(kv.Set(k, v)) })
	case "get":
		if r.mode == mModel {
			cond = presence(r.model.HasKey(k))
		}
		r.emit("Get", cond, func() string { return getObs(kv.Get(k)) })
	case "has":
		if r.mode == mModel {
			cond = presence(r.model.HasKey(k))
		}
		r.emit("HasKey", cond, func() string { return hasObs(kv.HasKey(k)) })
	case "delete":
		r.emit("Delete", "", func() string { return okErr(kv.Delete(k)) })
	case "delprefix":
		if r.mode == mModel && r.st != nil {
			r.st.prefixDelete = true
			for _, key := range keysOf(r.model.Dump()) {
				if strings.HasPrefix(key, string(k)) {
					r.st.prefixDeleteHit = true
				}
			}
			if r.model.Len() >= 3 {
				r.st.bigPrefixDelete = true
			}
		}
		r.emit("DeletePrefix", "", func() string { return okErr(kv.DeletePrefix(k)) })
	case "view":
		var keys []string
		if r.mode == mModel {
			keys = keysOf(r.model.Dump())
		}
		startRec := len(r.recs)
		if r.mode == mDriver {
			startRec = r.i
		}
		out := guard(func() string {
			return okErr(kv.View(func(it kvi.KVIterator) error { r.runIt(it, op.It, keys); return nil }))
		})
		if r.mode == mDriver && strings.HasPrefix(out, "panic: ") {
			r.i = r.recs[startRec].end
		}
		r.emit("View", "", func() string { return out })
	case "update":
		var pre *memkv.Store
		if r.mode == mModel {
			pre = r.model.Clone()
		}
		startRec := r.i
		out := guard(func() string {
			return okErr(kv.Update(func(tx kvi.KVTransaction) error { r.runTx(tx, op.Tx, pre); return nil }))
		})
		if r.mode == mDriver && strings.HasPrefix(out, "panic: ") {
			// cannot happen through the per-step guards unless Update itself panics;
			// the records of the unexecuted steps are skipped by position
			r.i = startRec + r.txRecs(op.Tx, startRec)
		}
		r.emit("Update", "", func() string { return out })
	case "bulk":
		seen := map[string]bool{}
		startRec := r.i
		out := guard(func() string {
			return okErr(kv.BulkWrite(func(bl kvi.KVBulkWrite) error {
				for _, s := range op.Sets {
					sk, sv := nn(s.K), nn(s.V)
					if r.mode == mModel && r.st != nil {
						if len(sv) == 0 {
							r.st.emptyValue = true
						}
						if seen[string(sk)] {
							r.st.bulkOverwrite = true
						}
						seen[string(sk)] = true
					}
					r.emit("Bulk.Set", "", func() string { return okErr(bl.Set(sk, sv)) })
				}
				return nil
			}))
		})
		if r.mode == mDriver && strings.HasPrefix(out, "panic: ") {
			r.i = startRec + len(op.Sets)
		}
		r.emit("BulkWrite", "", func() string { return out })
	default:
		panic("bad op " + op.Op)
	}
}

// txRecs counts the records the model made for a transaction program starting at
// record index at.
func (r *runner) txRecs(prog []TxOp, at int) int {
	n := 0
	for _, s := range prog {
		if s.Op == "view" {
			n = r.recs[at+n].end - at // records of the iterator program (incl. marker)
		}
		n++
	}
	return n
}

// ---------------------------------------------------------------------------------
// reporting

// survey (development aid, C10_SURVEY=1 with plain `go test`): do not stop at
// discrepancies, print each distinct signature once with its first example.
var (
	surveyMode = os.Getenv("C10_SURVEY") != ""
	surveySeen = map[string]int{}
)

func report(t pbt.TB, c Case, sig string, msg func() string) {
	if surveyMode {
		if surveySeen[sig] == 0 || os.Getenv("C10_SURVEY") == "all" {
			b, _ := json.Marshal(c)
			if len(b) > 1500 {
				b = append(b[:1500], "…"...)
			}
			fmt.Printf("SURVEY sig=%s\n   %s\n   case=%s\n", sig, msg(), b)
		}
		surveySeen[sig]++
		return
	}
	if f := pbt.OpenFinding("C10", sig); f != nil {
		pbt.KnownHit(f) // (what Discrepancy does for a listed finding, without building the message)
		return
	}
	pbt.Discrepancy(t, c, sig, "%s", msg())
}

// ---------------------------------------------------------------------------------
// running a case

func caseKey(c Case) string {
	b, _ := json.Marshal(c.Ops)
	return c.Driver + "|" + string(b)
}

func runCase(t pbt.TB, c Case) {
	pbt.Case(t)
	pbt.Current(t, c)
	h := store(t, c.Driver)
	model := memkv.New()
	st := &stats{}
	for i, op := range c.Ops {
		var before []memkv.Pair
		if op.isWrite() {
			before = model.Dump()
		}
		if n := model.Len(); n > st.maxKeys {
			st.maxKeys = n
		}
		r := &runner{mode: mModel, drv: c.Driver, model: model, st: st, alive0: true, seekRec: -1, txStep: -1, itStep: -1}
		r.runOp(model, op)
		for _, k := range op.writtenKeys() {
			h.tracked[string(k)] = struct{}{}
		}
		r.mode, r.i, r.st = mDriver, 0, nil
		r.runOp(h.kv, op)
		if r.i != len(r.recs) {
			t.Fatalf("INFRA: harness lost step alignment at op %d (%d of %d records)", i, r.i, len(r.recs))
		}
		for _, mm := range r.mism {
			note := ""
			if mm.note != "" {
				note = " (" + mm.note + ")"
			}
			report(t, c, mm.sig, func() string {
				return fmt.Sprintf("%s, call %d (%s): %s gave [%s], the ordered-map model gives [%s]%s",
					c.Driver, i, opStr(op), mm.method, mm.got, mm.want, note)
			})
			// listed open finding: keep judging the rest of the program
		}
		if op.isWrite() {
			checkContents(t, c, h, model, before, topMethod[op.Op], func() string { return fmt.Sprintf("after call %d (%s)", i, opStr(op)) })
		}
	}
	checkContents(t, c, h, model, nil, "final-scan", func() string { return "at the end of the program" })

	// generator health and the non-trivial rule
	cls := func(on bool, label string) {
		if on {
			pbt.Class(t, label)
		}
	}
	cls(st.reverseSeek, "reverse-seek")
	cls(st.prefixDelete, "prefix-delete")
	cls(st.prefixDeleteHit, "prefix-delete-hits-keys")
	cls(st.txIterDirty, "tx-iterator-after-own-write")
	cls(st.txIterOwnWrite, "tx-iterator-observes-own-write")
	cls(st.txReadOwnWrite, "tx-point-read-observes-own-write")
	cls(st.seekPastEnd, "seek-past-end")
	cls(st.seekBeforeFirst, "seek-before-first")
	cls(st.seekEmptyStore, "seek-on-empty-store")
	cls(st.nextOffEnd, "next-off-the-end")
	cls(st.emptyValue, "empty-value")
	cls(st.bulkOverwrite, "bulk-same-key-twice")
	cls(st.maxKeys >= 3, "store-reached-3-keys")
	if st.bigReverse || st.bigPrefixDelete || st.txIterOwnWrite {
		pbt.Nontrivial(t, caseKey(c))
		pbt.Class(t, "nontrivial")
	}
}

func opStr(op Op) string {
	b, _ := json.Marshal(op)
	s := string(b)
	if len(s) > 300 {
		s = s[:300] + "…"
	}
	return s
}

// checkContents compares the driver's whole contents with the model after a write
// (before: the model's contents before the write; nil for the final scan). A listed
// known divergence is repaired so that the rest of the program can be judged.
func checkContents(t pbt.TB, c Case, h *handle, model *memkv.Store, before []memkv.Pair, method string, where func() string) {
	want := model.Dump()
	got, problem := scan(h.kv)
	if problem == "" && samePairs(got, want) {
		return
	}
	// attribute: is the store wrong, or the scan?
	universe := map[string]struct{}{}
	for k := range h.tracked {
		universe[k] = struct{}{}
	}
	for _, p := range got {
		universe[string(p.Key)] = struct{}{}
	}
	keys := make([]string, 0, len(universe))
	for k := range universe {
		keys = append(keys, k)
	}
	sort.Strings(keys)
	point, pproblem := pointState(h.kv, keys)
	var sig string
	switch {
	case problem != "":
		sig = c.Driver + ":scan:" + strings.SplitN(problem, ":", 2)[0]
	case pproblem == "" && samePairs(point, want):
		sig = c.Driver + ":scan:differs-from-point-reads"
	case method == "final-scan":
		sig = c.Driver + ":final-scan:contents-diverged"
	case before != nil && samePairs(got, before) && method == "DeletePrefix":
		sig = c.Driver + ":DeletePrefix:deletes-nothing"
	case before != nil && samePairs(got, before):
		sig = c.Driver + ":" + method + ":no-effect"
	default:
		sig = c.Driver + ":" + method + ":contents-diverged"
	}
	report(t, c, sig, func() string {
		return fmt.Sprintf("%s %s: forward scan sees %s %s, point reads see %s %s, the ordered-map model holds %s",
			c.Driver, where(), pairsStr(got), problem, pairsStr(point), pproblem, pairsStr(want))
	})
	// listed open finding: repair the contents key by key and verify
	for _, k := range keys {
		wv, werr := model.Get([]byte(k))
		var gv []byte
		var gerr error
		if guard(func() string { gv, gerr = h.kv.Get([]byte(k)); return "" }) == "" &&
			(gerr == nil) == (werr == nil) && bytes.Equal(gv, wv) {
			continue // this key is as it should be
		}
		res := guard(func() string {
			if werr != nil {
				return okErr(h.kv.Delete([]byte(k)))
			}
			return okErr(h.kv.Set([]byte(k), wv))
		})
		if res != "ok" {
			report(t, c, c.Driver+":repair:"+res, func() string {
				return fmt.Sprintf("%s: cannot repair key %q after a known divergence: %s", c.Driver, k, res)
			})
		}
	}
	got, problem = scan(h.kv)
	if problem != "" || !samePairs(got, want) {
		report(t, c, c.Driver+":repair:contents-diverged", func() string {
			return fmt.Sprintf("%s %s: contents still differ after key-by-key repair: scan %s %s, model %s",
				c.Driver, where(), pairsStr(got), problem, pairsStr(want))
		})
	}
}
