package c10

import (
	"encoding/json"
	"testing"

	"verif/internal/pbt"
)

// ---------------------------------------------------------------------------------
// exhaustive small scope: every mutation sequence up to a depth bound over three keys
// (one a prefix of another, one with an empty value), every way of running a suffix of
// it inside one transaction or one bulk batch, each followed by a fixed battery of
// reads.

var enumMutations = []Op{
	{Op: "set", K: B("a"), V: B("1")},
	{Op: "set", K: B("ab"), V: B("")},
	{Op: "set", K: B("b"), V: B("2")},
	{Op: "delete", K: B("a")},
	{Op: "delete", K: B("ab")},
	{Op: "delete", K: B("b")},
	{Op: "delprefix", K: B("a")},
}

var (
	enumPointKeys = []B{B("a"), B("aa"), B("ab"), B("b")}
	enumProbes    = []B{B("\x00"), B("a"), B("aa"), B("ab"), B("b"), B("\xff")}
	enumEnds      = []B{B("\x00"), B("\xff")}
)

// batteryViews: from every probe key a forward and a reverse seek with a full walk;
// and every (seek, seek) pair whose second target is beyond either end (a cursor that
// was positioned and then finds nothing).
func batteryViews(pairFirst []B) [][]ItOp {
	var out [][]ItOp
	walk := []ItOp{{Op: "key"}, {Op: "value"}, {Op: "next"}, {Op: "key"}, {Op: "value"}, {Op: "next"}, {Op: "key"}, {Op: "value"}, {Op: "next"}, {Op: "valid"}}
	for _, p := range enumProbes {
		for _, dir := range []string{"seek", "seekrev"} {
			out = append(out, append([]ItOp{{Op: dir, K: p}}, walk...))
		}
	}
	for _, p1 := range pairFirst {
		for _, p2 := range enumEnds {
			for _, d1 := range []string{"seek", "seekrev"} {
				for _, d2 := range []string{"seek", "seekrev"} {
					out = append(out, []ItOp{{Op: d1, K: p1}, {Op: "key"}, {Op: d2, K: p2}, {Op: "valid"}, {Op: "key"}, {Op: "value"}, {Op: "next"}, {Op: "key"}, {Op: "get", K: B("ab")}})
				}
			}
		}
	}
	return out
}

func batteryTop() []Op {
	var ops []Op
	for _, k := range enumPointKeys {
		ops = append(ops, Op{Op: "get", K: k}, Op{Op: "has", K: k})
	}
	for _, v := range batteryViews(enumProbes) {
		ops = append(ops, Op{Op: "view", It: v})
	}
	return ops
}

func batteryTx() []TxOp {
	var ops []TxOp
	for _, k := range enumPointKeys {
		ops = append(ops, TxOp{Op: "get", K: k}, TxOp{Op: "has", K: k})
	}
	// (the iterators are the same code inside and outside a transaction: the quick tier
	// repeats only a few of the seek pairs inside the transaction)
	first := enumProbes
	if !pbt.Thorough() {
		first = []B{B("a")}
	}
	for _, v := range batteryViews(first) {
		ops = append(ops, TxOp{Op: "view", It: v})
	}
	return ops
}

// enumPrograms calls f with every program of the enumeration. allSplits: every split
// of a sequence into committed prefix + one transaction / bulk batch; otherwise only
// the whole sequence at top level, in one transaction, in one batch.
func enumPrograms(depth int, allSplits bool, f func(ops []Op)) {
	top, txb := batteryTop(), batteryTx()
	var rec func(seq []Op)
	rec = func(seq []Op) {
		// all at top level
		f(append(append([]Op{}, seq...), top...))
		for i := 0; i < len(seq); i++ {
			if i > 0 && !allSplits {
				break
			}
			suffix := seq[i:]
			txOK, bulkOK := true, true
			for _, m := range suffix {
				if m.Op == "delprefix" {
					txOK = false
				}
				if m.Op != "set" {
					bulkOK = false
				}
			}
			if txOK {
				var tx []TxOp
				for _, m := range suffix {
					tx = append(tx, TxOp{Op: m.Op, K: m.K, V: m.V})
				}
				tx = append(tx, txb...)
				ops := append(append([]Op{}, seq[:i]...), Op{Op: "update", Tx: tx})
				f(append(ops, top...))
			}
			if bulkOK {
				var sets []KV
				for _, m := range suffix {
					sets = append(sets, KV{K: m.K, V: m.V})
				}
				ops := append(append([]Op{}, seq[:i]...), Op{Op: "bulk", Sets: sets})
				f(append(ops, top...))
			}
		}
		if len(seq) == depth {
			return
		}
		for _, m := range enumMutations {
			rec(append(append([]Op{}, seq...), m))
		}
	}
	rec(nil)
}

func TestEnumerateSmallScope(t *testing.T) {
	if cf, ok := pbt.ReplayFile(); ok {
		if cf.Test != "TestEnumerateSmallScope" && cf.Test != "TestKnownFindings" {
			t.Skip()
		}
		var c Case
		if err := json.Unmarshal(cf.Case, &c); err != nil {
			t.Fatal(err)
		}
		runCase(t, c)
		return
	}
	i := 0
	enumPrograms(pbt.Pick(3, 4), pbt.Thorough(), func(ops []Op) {
		i++
		if !pbt.ShardOwns(i) { // a program runs on all drivers in the same shard
			return
		}
		for _, d := range drivers {
			c := Case{Driver: d, Ops: ops}
			if pbt.WantSample(t) {
				pbt.Sample(t, c)
			}
			runCase(t, c)
		}
	})
	pbt.Exhaustive(t)
}

// ---------------------------------------------------------------------------------
// the minimal program of every defect found so far, on every driver. On a tree where
// a defect is open this reports its KNOWN-FINDING line in every run; once it is fixed
// the program simply passes.

func set(k, v string) Op         { return Op{Op: "set", K: B(k), V: B(v)} }
func view(it ...ItOp) Op         { return Op{Op: "view", It: it} }
func update(tx ...TxOp) Op       { return Op{Op: "update", Tx: tx} }
func seek(k string) ItOp         { return ItOp{Op: "seek", K: B(k)} }
func seekrev(k string) ItOp      { return ItOp{Op: "seekrev", K: B(k)} }
func txview(it ...ItOp) TxOp     { return TxOp{Op: "view", It: it} }
func txop(op, k, v string) TxOp  { return TxOp{Op: op, K: B(k), V: B(v)} }
func top(op string, k string) Op { return Op{Op: op, K: B(k)} }

var minimalPrograms = []struct {
	name string
	ops  []Op
}{
	{"has-missing", []Op{top("has", "a")}},
	{"tx-has-missing-and-present", []Op{set("a", "1"), update(txop("has", "a", ""), txop("has", "b", ""))}},
	{"delete-prefix", []Op{set("a", "1"), set("ab", ""), set("b", "2"), top("delprefix", "a")}},
	{"seekreverse-past-end", []Op{set("a", "1"), view(seekrev("b"), ItOp{Op: "key"}, ItOp{Op: "value"})}},
	{"seekreverse-before-first", []Op{set("b", "1"), view(seekrev("a"))}},
	{"seek-finds-nothing-after-hit", []Op{set("a", "1"), view(seek("a"), seek("b"))}},
	{"seekreverse-finds-nothing-after-hit", []Op{set("b", "1"), view(seekrev("b"), seekrev("a"))}},
	{"seekreverse-past-end-after-hit", []Op{set("a", "1"), set("b", "2"), view(seek("a"), seekrev("c"), ItOp{Op: "key"})}},
	{"seekreverse-past-end-then-next", []Op{set("a", "1"), set("b", "2"), view(seekrev("b"), seekrev("c"), ItOp{Op: "next"}, ItOp{Op: "key"})}},
	{"tx-iterator-own-write", []Op{set("a", "1"), update(txop("set", "b", "2"), txview(seek("b"), ItOp{Op: "key"}, ItOp{Op: "value"}, ItOp{Op: "get", K: B("b")}))}},
	{"tx-iterator-own-delete", []Op{set("a", "1"), update(txop("delete", "a", ""), txview(seek("a")))}},
}

func TestKnownFindings(t *testing.T) {
	if _, ok := pbt.ReplayFile(); ok {
		t.Skip() // replayed through TestEnumerateSmallScope
	}
	if pbt.Shard() != 0 {
		t.Skip()
	}
	for _, p := range minimalPrograms {
		for _, d := range drivers {
			runCase(t, Case{Driver: d, Ops: p.ops})
		}
	}
	pbt.Exhaustive(t)
}
