package c10

// Volumes: the programs of the other tests hold a handful of keys. The drivers work in
// blocks internally (delete blocks, write batches, iterator prefetch, memtable flushes),
// so "the same answers as a sorted map" is also exercised with key populations around
// and beyond round block sizes: N keys under one prefix (plus neighbours that do not
// carry it), written in one bulk batch, in several, or one Set at a time; then prefix
// deletes of a sub-prefix and of the whole prefix, full forward and reverse walks and
// point probes, each compared with the model.

import (
	"bytes"
	"encoding/json"
	"fmt"
	"os"
	"testing"
	"time"

	"github.com/bmeg/grip/kvi"
	"verif/internal/memkv"
	"verif/internal/pbt"
)

// VolCase is one volume scenario on one driver.
type VolCase struct {
	Driver string `json:"driver"`
	N      int    `json:"n"`      // keys under the prefix
	Layout string `json:"layout"` // one | siblings
	Fill   string `json:"fill"`   // bulk1 | bulk1000 | sets
}

var volumeSizes = []int{1, 255, 1000, 1023, 1025, 4096, 4097, 9998, 9999, 10000, 10001, 16384, 19999, 20001, 32769, 50001}

func volKeys(c VolCase) (prefixes [][]byte, pairs []memkv.Pair) {
	add := func(k string, v string) { pairs = append(pairs, memkv.Pair{Key: []byte(k), Value: []byte(v)}) }
	// neighbours that do not carry the prefix "p|"
	add("o", "before")
	add("p", "shorter")
	add("p{", "after") // '{' = '|'+1
	add("q", "after2")
	switch c.Layout {
	case "one":
		for i := 0; i < c.N; i++ {
			add(fmt.Sprintf("p|%07d", i), fmt.Sprintf("v%d", i%7))
		}
		// first a sub-prefix (about a tenth of the keys, or none), then everything
		prefixes = [][]byte{[]byte("p|000000"), []byte("p|")}
	default: // siblings: two prefixes, one extending the other
		for i := 0; i < c.N; i++ {
			if i%2 == 0 {
				add(fmt.Sprintf("p|a%07d", i), "x")
			} else {
				add(fmt.Sprintf("p|ab%07d", i), "")
			}
		}
		prefixes = [][]byte{[]byte("p|ab"), []byte("p|a"), []byte("p|")}
	}
	return
}

func scanAll(kv kvi.KVInterface, limit int) (pairs []memkv.Pair, problem string) {
	problem = guard(func() string {
		err := kv.View(func(it kvi.KVIterator) error {
			for it.Seek([]byte{0}); it.Valid(); it.Next() {
				k := append([]byte{}, it.Key()...)
				v, err := it.Value()
				if err != nil {
					return fmt.Errorf("Value() of %q: %v", k, err)
				}
				pairs = append(pairs, memkv.Pair{Key: k, Value: append([]byte{}, v...)})
				if len(pairs) > limit {
					return fmt.Errorf("scan does not terminate")
				}
			}
			return nil
		})
		if err != nil {
			return "error: " + err.Error()
		}
		return ""
	})
	return
}

func reverseAll(kv kvi.KVInterface, limit int) (keys [][]byte, problem string) {
	problem = guard(func() string {
		err := kv.View(func(it kvi.KVIterator) error {
			for it.SeekReverse([]byte{0xff, 0xff}); it.Valid(); it.Next() {
				keys = append(keys, append([]byte{}, it.Key()...))
				if len(keys) > limit {
					return fmt.Errorf("reverse walk does not terminate")
				}
			}
			return nil
		})
		if err != nil {
			return "error: " + err.Error()
		}
		return ""
	})
	return
}

// diffPairs describes the first difference between two sorted listings.
func diffPairs(got, want []memkv.Pair) string {
	for i := 0; i < len(got) && i < len(want); i++ {
		if !bytes.Equal(got[i].Key, want[i].Key) || !bytes.Equal(got[i].Value, want[i].Value) {
			return fmt.Sprintf("%d keys, model %d; first difference at position %d: %s=%s, model %s=%s", len(got), len(want), i, q(got[i].Key), q(got[i].Value), q(want[i].Key), q(want[i].Value))
		}
	}
	if len(got) > len(want) {
		return fmt.Sprintf("%d keys, model %d; first surplus key %s", len(got), len(want), q(got[len(want)].Key))
	}
	if len(got) < len(want) {
		return fmt.Sprintf("%d keys, model %d; first missing key %s", len(got), len(want), q(want[len(got)].Key))
	}
	return ""
}

func runVolume(t pbt.TB, c VolCase) {
	pbt.Case(t)
	pbt.Current(t, c)
	h, err := openFresh(c.Driver)
	if err != nil {
		t.Fatalf("INFRA: cannot open %s store: %v", c.Driver, err)
	}
	defer func() {
		guard(func() string { h.kv.Close(); return "" })
		os.RemoveAll(h.dir)
	}()
	model := memkv.New()
	prefixes, pairs := volKeys(c)
	limit := 2*len(pairs) + 100
	fail := func(method, what, detail string) {
		sig := c.Driver + ":" + method + ":volume-" + what
		if f := pbt.OpenFinding("C10", sig); f != nil {
			pbt.KnownHit(f)
			return
		}
		pbt.Discrepancy(t, c, sig, "%s with %d keys under one prefix (%s, written by %s): %s: %s", c.Driver, c.N, c.Layout, c.Fill, method, detail)
	}
	compare := func(method string) bool {
		got, problem := scanAll(h.kv, limit)
		want := model.Dump()
		if problem != "" {
			fail(method, "scan-"+problem[:5], "forward scan: "+problem)
			return false
		}
		if d := diffPairs(got, want); d != "" {
			fail(method, "contents-diverged", "a forward scan afterwards sees "+d)
			return false
		}
		rk, problem := reverseAll(h.kv, limit)
		if problem != "" {
			fail(method, "reverse-"+problem[:5], "reverse walk: "+problem)
			return false
		}
		if len(rk) != len(want) {
			fail(method, "reverse-walk-diverged", fmt.Sprintf("a reverse walk afterwards visits %d keys, the model holds %d", len(rk), len(want)))
			return false
		}
		for i := range rk {
			if !bytes.Equal(rk[i], want[len(want)-1-i].Key) {
				fail(method, "reverse-walk-diverged", fmt.Sprintf("reverse walk position %d is %s, model %s", i, q(rk[i]), q(want[len(want)-1-i].Key)))
				return false
			}
		}
		// point probes: first, middle, last of the original population
		for _, i := range []int{0, len(pairs) / 2, len(pairs) - 1} {
			k := pairs[i].Key
			wantHas := model.HasKey(k)
			var gotHas bool
			if p := guard(func() string { gotHas = h.kv.HasKey(k); return "" }); p != "" {
				fail(method, "haskey-panic", p)
				return false
			}
			wv, werr := model.Get(k)
			var gv []byte
			var gerr error
			guard(func() string { gv, gerr = h.kv.Get(k); return "" })
			if gotHas != wantHas || (gerr == nil) != (werr == nil) || (werr == nil && !bytes.Equal(gv, wv)) {
				fail(method, "point-read-diverged", fmt.Sprintf("HasKey/Get(%s) = %v/%s, model %v/%s", q(k), gotHas, getObs(gv, gerr), wantHas, getObs(wv, werr)))
				return false
			}
		}
		return true
	}

	// fill
	model.BulkWrite(func(bl kvi.KVBulkWrite) error {
		for _, p := range pairs {
			bl.Set(p.Key, p.Value)
		}
		return nil
	})
	var res string
	switch c.Fill {
	case "sets":
		res = guard(func() string {
			for _, p := range pairs {
				if err := h.kv.Set(p.Key, p.Value); err != nil {
					return "error"
				}
			}
			return "ok"
		})
	default:
		chunk := len(pairs)
		if c.Fill == "bulk1000" {
			chunk = 1000
		}
		res = guard(func() string {
			for lo := 0; lo < len(pairs); lo += chunk {
				hi := min(lo+chunk, len(pairs))
				err := h.kv.BulkWrite(func(bl kvi.KVBulkWrite) error {
					for _, p := range pairs[lo:hi] {
						if err := bl.Set(p.Key, p.Value); err != nil {
							return err
						}
					}
					return nil
				})
				if err != nil {
					return "error"
				}
			}
			return "ok"
		})
	}
	if res != "ok" {
		fail("BulkWrite", "write-"+res[:5], "filling the store: "+res)
		return
	}
	if !compare("BulkWrite") {
		return
	}
	for _, pre := range prefixes {
		model.DeletePrefix(pre)
		if res := guard(func() string { return okErr(h.kv.DeletePrefix(pre)) }); res != "ok" {
			fail("DeletePrefix", "call-"+res[:5], fmt.Sprintf("DeletePrefix(%s): %s", q(pre), res))
			return
		}
		if !compare("DeletePrefix") {
			return
		}
	}
	pbt.Class(t, fmt.Sprintf("volume-n=%d", c.N))
	if c.N >= 1000 {
		pbt.Nontrivial(t, fmt.Sprintf("volume|%s|%d|%s|%s", c.Driver, c.N, c.Layout, c.Fill))
	}
}

// TestVolumes enumerates sizes x layouts; the way of filling rotates with the index.
func TestVolumes(t *testing.T) {
	if cf, ok := pbt.ReplayFile(); ok {
		if cf.Test != "TestVolumes" {
			t.Skip()
		}
		var c VolCase
		if err := json.Unmarshal(cf.Case, &c); err != nil {
			t.Fatal(err)
		}
		runVolume(t, c)
		return
	}
	fills := []string{"bulk1", "bulk1000", "sets"}
	i := 0
	for _, n := range volumeSizes {
		for _, layout := range []string{"one", "siblings"} {
			i++
			if !pbt.ShardOwns(i) {
				continue
			}
			fill := fills[i%len(fills)]
			if fill == "sets" && n > 5000 && !pbt.Thorough() {
				fill = "bulk1" // one synced commit per key is slow on bolt
			}
			for _, d := range drivers {
				if d == "pebble" && n > 10001 && !pbt.Thorough() {
					continue // pebble's DeletePrefix issues one synced Delete per key (~1 ms each)
				}
				c := VolCase{Driver: d, N: n, Layout: layout, Fill: fill}
				if d == "pebble" && fill == "bulk1000" {
					c.Fill = "bulk1" // pebble compacts the written range after every batch
				}
				if pbt.WantSample(t) {
					pbt.Sample(t, c)
				}
				t0 := time.Now()
				runVolume(t, c)
				if d := time.Since(t0); d > 5*time.Second {
					t.Logf("slow volume case %+v: %s", c, d)
				}
			}
		}
	}
}
