package c10

import (
	"encoding/json"
	"testing"

	"pgregory.net/rapid"
	"verif/internal/pbt"
)

var alphabet = []byte{0x00, 'a', 'b', 0xff}

// keyGen draws keys of length 1-3; with a bias to keys used earlier in the program,
// their prefixes and one-byte extensions, so that hits, shared prefixes and
// neighbours are common.
type keyGen struct {
	pool [][]byte
}

func (g *keyGen) fresh(rt *rapid.T, label string) []byte {
	n := rapid.IntRange(1, 3).Draw(rt, label+"-len")
	k := make([]byte, n)
	for i := range k {
		k[i] = rapid.SampledFrom(alphabet).Draw(rt, label+"-byte")
	}
	return k
}

func (g *keyGen) key(rt *rapid.T, label string) B {
	var k []byte
	if len(g.pool) > 0 && rapid.IntRange(0, 9).Draw(rt, label+"-reuse") < 6 {
		base := g.pool[rapid.IntRange(0, len(g.pool)-1).Draw(rt, label+"-from")]
		k = append([]byte{}, base...)
		switch rapid.IntRange(0, 5).Draw(rt, label+"-variant") {
		case 0: // proper prefix
			if len(k) > 1 {
				k = k[:len(k)-1]
			}
		case 1: // extension
			if len(k) < 3 {
				k = append(k, rapid.SampledFrom(alphabet).Draw(rt, label+"-ext"))
			}
		case 2: // neighbour: last byte changed
			k[len(k)-1] = rapid.SampledFrom(alphabet).Draw(rt, label+"-last")
		}
	} else {
		k = g.fresh(rt, label)
	}
	g.pool = append(g.pool, k)
	return B(k)
}

func genValue(rt *rapid.T, label string) B {
	n := rapid.SampledFrom([]int{0, 0, 1, 1, 2, 3}).Draw(rt, label+"-len")
	v := make([]byte, n)
	for i := range v {
		v[i] = rapid.SampledFrom(alphabet).Draw(rt, label+"-byte")
	}
	return B(v)
}

func weighted(rt *rapid.T, label string, choices []string, weights []int) string {
	total := 0
	for _, w := range weights {
		total += w
	}
	x := rapid.IntRange(0, total-1).Draw(rt, label)
	for i, w := range weights {
		if x < w {
			return choices[i]
		}
		x -= w
	}
	return choices[len(choices)-1]
}

func (g *keyGen) itProgram(rt *rapid.T) []ItOp {
	n := rapid.IntRange(1, 10).Draw(rt, "it-steps")
	prog := make([]ItOp, 0, n)
	for i := 0; i < n; i++ {
		var op string
		if i == 0 && rapid.IntRange(0, 9).Draw(rt, "it-start-with-seek") < 9 {
			op = rapid.SampledFrom([]string{"seek", "seekrev"}).Draw(rt, "it-first")
		} else {
			op = weighted(rt, "it-op", []string{"seek", "seekrev", "next", "key", "value", "valid", "get"}, []int{12, 14, 34, 14, 12, 6, 8})
		}
		s := ItOp{Op: op}
		switch op {
		case "seek", "seekrev", "get":
			s.K = g.key(rt, "it-key")
		}
		prog = append(prog, s)
	}
	return prog
}

func (g *keyGen) txProgram(rt *rapid.T) []TxOp {
	n := rapid.IntRange(1, 8).Draw(rt, "tx-steps")
	prog := make([]TxOp, 0, n)
	for i := 0; i < n; i++ {
		op := weighted(rt, "tx-op", []string{"set", "delete", "get", "has", "view"}, []int{32, 14, 14, 14, 26})
		s := TxOp{Op: op}
		switch op {
		case "set":
			s.K, s.V = g.key(rt, "tx-key"), genValue(rt, "tx-val")
		case "delete", "get", "has":
			s.K = g.key(rt, "tx-key")
		case "view":
			s.It = g.itProgram(rt)
		}
		prog = append(prog, s)
	}
	return prog
}

func genProgram(rt *rapid.T) []Op {
	g := &keyGen{}
	n := rapid.IntRange(1, 30).Draw(rt, "ops")
	ops := make([]Op, 0, n)
	for i := 0; i < n; i++ {
		kind := weighted(rt, "op", []string{"set", "get", "has", "delete", "delprefix", "view", "update", "bulk"},
			[]int{26, 7, 7, 7, 7, 22, 16, 8})
		op := Op{Op: kind}
		switch kind {
		case "set":
			op.K, op.V = g.key(rt, "key"), genValue(rt, "val")
		case "get", "has", "delete":
			op.K = g.key(rt, "key")
		case "delprefix":
			k := g.key(rt, "prefix")
			if len(k) > 1 && rapid.IntRange(0, 2).Draw(rt, "shorten-prefix") > 0 {
				k = k[:len(k)-1]
			}
			op.K = k
		case "view":
			op.It = g.itProgram(rt)
		case "update":
			op.Tx = g.txProgram(rt)
		case "bulk":
			m := rapid.IntRange(1, 4).Draw(rt, "bulk-sets")
			for j := 0; j < m; j++ {
				op.Sets = append(op.Sets, KV{K: g.key(rt, "bulk-key"), V: genValue(rt, "bulk-val")})
			}
		}
		ops = append(ops, op)
	}
	return ops
}

// TestRandomPrograms: every generated program runs on all four drivers.
func TestRandomPrograms(t *testing.T) {
	if cf, ok := pbt.ReplayFile(); ok {
		if cf.Test != "TestRandomPrograms" {
			t.Skip()
		}
		var c Case
		if err := json.Unmarshal(cf.Case, &c); err != nil {
			t.Fatal(err)
		}
		runCase(t, c)
		return
	}
	pbt.Check(t, 700, 24000, func(rt *rapid.T) {
		ops := genProgram(rt)
		if pbt.WantSample(t) {
			pbt.Sample(t, Case{Driver: "all four", Ops: ops})
		}
		for _, d := range drivers {
			runCase(rt, Case{Driver: d, Ops: ops})
		}
	})
}

// TestSerialisation: the replay form round-trips (byte strings with 0x00 / 0xff, empty
// values).
func TestSerialisation(t *testing.T) {
	if _, ok := pbt.ReplayFile(); ok {
		t.Skip()
	}
	c := Case{Driver: "bolt", Ops: []Op{
		{Op: "set", K: B{0, 'a', 0xff}, V: B{}},
		{Op: "update", Tx: []TxOp{{Op: "set", K: B("a\"b"), V: B{0xff}}, {Op: "view", It: []ItOp{{Op: "seekrev", K: B{0xff, 0xff}}, {Op: "next"}}}}},
		{Op: "bulk", Sets: []KV{{K: B("b"), V: nil}}},
	}}
	b, err := json.Marshal(c)
	if err != nil {
		t.Fatal(err)
	}
	var d Case
	if err := json.Unmarshal(b, &d); err != nil {
		t.Fatal(err, string(b))
	}
	b2, _ := json.Marshal(d)
	if string(b) != string(b2) || string(d.Ops[0].K) != "\x00a\xff" || string(d.Ops[1].Tx[0].K) != "a\"b" || string(d.Ops[1].Tx[1].It[0].K) != "\xff\xff" {
		t.Fatalf("round trip: %s vs %s", b, b2)
	}
}
