package c10

// Part (b) of C10: the same mutation history and the same traversal produce identical
// results whichever embedded store backs the graph.

import (
	"encoding/json"
	"testing"

	"pgregory.net/rapid"
	"verif/internal/gen"
	"verif/internal/gripx"
	"verif/internal/hist"
	"verif/internal/histrun"
	"verif/internal/model"
	"verif/internal/pbt"
)

var graphDrivers = []string{"badger", "bolt", "level", "pebble"}

type histCase struct {
	Driver string    `json:"driver"`
	Ops    []hist.Op `json:"ops"`
}

var histCount = map[string]int{}

func runHistCase(t pbt.TB, c histCase) {
	pbt.Case(t)
	histCount[c.Driver]++
	if histCount[c.Driver]%40 == 0 {
		gripx.Recycle(c.Driver)
	}
	res := histrun.Run(t, c, c.Ops, &histrun.Env{DB: gripx.DB(c.Driver), SigPrefix: "graph:" + c.Driver + ":"})
	pbt.Class(t, "hist-driver:"+c.Driver)
	if res.SawEdge && res.SawShape {
		pbt.Nontrivial(t, "hist|"+c.Driver+"|"+histrun.Text(c.Ops))
	}
}

// TestGraphHistoriesPerDriver replays one generated C03 history on every driver; each
// must agree with the abstract model after every step (hence with each other).
func TestGraphHistoriesPerDriver(t *testing.T) {
	if cf, ok := pbt.ReplayFile(); ok {
		if cf.Test != "TestGraphHistoriesPerDriver" {
			t.Skip()
		}
		var c histCase
		if err := json.Unmarshal(cf.Case, &c); err != nil {
			t.Fatal(err)
		}
		runHistCase(t, c)
		return
	}
	pbt.Check(t, 160, 8000, func(rt *rapid.T) {
		ops := hist.GenHistory(rt, 16, true)
		if pbt.WantSample(rt) {
			pbt.Sample(rt, histrun.Text(ops))
		}
		for _, d := range graphDrivers {
			runHistCase(rt, histCase{Driver: d, Ops: ops})
		}
	})
}

type travCase struct {
	Graph *model.Graph `json:"graph"`
	Steps []model.Step `json:"steps"`
}

func runTravCase(t pbt.TB, c travCase) {
	pbt.Case(t)
	ty := model.TypeCheck(c.Steps)
	if ty.Verdict != model.WellTyped {
		return
	}
	order := false
	for _, s := range c.Steps {
		if model.OrderSensitive(s) {
			order = true
		}
	}
	var ref []string
	haveRef := false
	if !order {
		if travs, final, unspec := model.Eval(c.Graph, c.Steps); unspec == "" {
			ref, haveRef = gripx.ExpectedRows(travs, final), true
		}
	}
	var first []string
	for i, d := range graphDrivers {
		gi, err := gripx.Load(gripx.DB(d), gripx.FreshName(), c.Graph)
		if err != nil {
			pbt.Discrepancy(t, c, "graph:"+d+":load-failed", "loading the graph on %s failed: %v", d, err)
			return
		}
		out := gripx.Run(gi, model.Protos(c.Steps))
		if out.CompileErr != nil || out.Hang {
			pbt.Inconclusive(t, "compile error or budget on "+d)
			return
		}
		if order {
			if !model.CountComparable(c.Steps) {
				pbt.Class(t, "order-sensitive step followed by a filter or move: not comparable")
				continue
			}
			if i == 0 {
				first = out.Rows
			} else if len(out.Rows) != len(first) {
				pbt.Discrepancy(t, c, "graph:"+d+":row-count-differs-from-badger", "%s: %d rows on %s, %d on badger", model.TravString(c.Steps), len(out.Rows), d, len(first))
				return
			}
			continue
		}
		if haveRef {
			if diff := gripx.DiffMultiset(out.Rows, ref); diff != "" {
				pbt.Discrepancy(t, c, "graph:"+d+":rows-differ-from-model", "%s on %s: %s", model.TravString(c.Steps), d, diff)
				return
			}
		} else if i == 0 {
			first = out.Rows
		} else if diff := gripx.DiffMultiset(out.Rows, first); diff != "" {
			pbt.Discrepancy(t, c, "graph:"+d+":rows-differ-from-badger", "%s on %s vs badger: %s", model.TravString(c.Steps), d, diff)
			return
		}
	}
	if haveRef && len(ref) > 0 && len(c.Steps) >= 3 {
		b, _ := json.Marshal(c.Graph)
		pbt.Nontrivial(t, "trav|"+string(b)+"|"+model.TravString(c.Steps))
	}
}

// TestTraversalsPerDriver runs the same traversal on the same graph stored in each of
// the four drivers.
func TestTraversalsPerDriver(t *testing.T) {
	if cf, ok := pbt.ReplayFile(); ok {
		if cf.Test != "TestTraversalsPerDriver" {
			t.Skip()
		}
		var c travCase
		if err := json.Unmarshal(cf.Case, &c); err != nil {
			t.Fatal(err)
		}
		runTravCase(t, c)
		return
	}
	n := 0
	pbt.Check(t, 300, 20000, func(rt *rapid.T) {
		n++
		if n%60 == 0 {
			for _, d := range graphDrivers {
				gripx.Recycle(d)
			}
		}
		c := travCase{Graph: gen.Graph(rt, 6, 10), Steps: gen.Traversal(rt, gen.TravOpts{MaxLen: 8})}
		if pbt.WantSample(rt) {
			pbt.Sample(rt, model.TravString(c.Steps))
		}
		runTravCase(rt, c)
	})
}
