package c12

import (
	"fmt"

	"verif/internal/model"
)

// trav is a traveler of the iterative reference semantics. Marks are the traveler's
// own copies (set/increment act on that traveler only).
type trav struct {
	cur   *model.Element
	marks map[string]*model.Element
	path  []model.PathEntry
}

func (t *trav) clone() *trav {
	o := &trav{cur: t.cur, marks: map[string]*model.Element{}, path: append([]model.PathEntry{}, t.path...)}
	for k, v := range t.marks {
		c := *v
		c.Data = model.CopyMap(v.Data)
		o.marks[k] = &c
	}
	return o
}

func (t *trav) lookup(key string) (interface{}, bool) {
	mark, path := model.SplitRef(key)
	el := t.cur
	if mark != "" {
		el = t.marks[mark]
	}
	if el == nil || path == "" {
		return nil, false
	}
	return el.Field(path)
}

func (t *trav) setValue(key string, v interface{}) {
	mark, path := model.SplitRef(key)
	if mark != "" {
		if m, ok := t.marks[mark]; ok {
			c := *m
			c.Data = model.CopyMap(m.Data)
			c.Data[path] = v
			t.marks[mark] = &c
		}
		return
	}
	c := *t.cur
	c.Data = model.CopyMap(t.cur.Data)
	c.Data[path] = v
	t.cur = &c
}

func entry(el *model.Element) model.PathEntry {
	if el.Edge {
		return model.PathEntry{Edge: el.ID}
	}
	return model.PathEntry{Vertex: el.ID}
}

// refRun is the iterative definition of a mark/jump program: every traveler that
// satisfies a jump's condition re-enters after the mark once per pass; with emit a copy
// continues downstream. It returns the travelers that leave the last step and an error
// if the work exceeds maxWork (a program that does not terminate by its counters).
func refRun(g *model.Graph, steps []model.Step, maxWork int) ([]*trav, error) {
	markPos := map[string]int{}
	for i, s := range steps {
		if s.Op == "mark" {
			markPos[s.Args[0]] = i
		}
	}
	type item struct {
		t   *trav
		pos int
	}
	work := []item{{t: &trav{marks: map[string]*model.Element{}}, pos: 0}}
	var out []*trav
	n := 0
	for len(work) > 0 {
		it := work[len(work)-1]
		work = work[:len(work)-1]
		n++
		if n > maxWork {
			return nil, fmt.Errorf("more than %d traveler-steps", maxWork)
		}
		if it.pos >= len(steps) {
			out = append(out, it.t)
			continue
		}
		s := steps[it.pos]
		t := it.t
		next := func(nt *trav) { work = append(work, item{nt, it.pos + 1}) }
		labelOK := func(e *model.Element) bool {
			if len(s.Args) == 0 {
				return true
			}
			for _, l := range s.Args {
				if l == e.Label {
					return true
				}
			}
			return false
		}
		move := func(el *model.Element) {
			nt := &trav{cur: el, marks: t.marks, path: append(append([]model.PathEntry{}, t.path...), entry(el))}
			next(nt)
		}
		switch s.Op {
		case "V":
			if len(s.Args) == 0 {
				for _, v := range g.V {
					move(v)
				}
			} else {
				for _, id := range s.Args {
					if v := g.Vertex(id); v != nil {
						move(v)
					}
				}
			}
		case "out", "in", "both":
			if t.cur.Edge {
				if s.Op != "out" {
					if v := g.Vertex(t.cur.From); v != nil {
						move(v)
					}
				}
				if s.Op != "in" {
					if v := g.Vertex(t.cur.To); v != nil {
						move(v)
					}
				}
				break
			}
			for _, e := range g.E {
				if !labelOK(e) {
					continue
				}
				if s.Op != "out" && e.To == t.cur.ID {
					if v := g.Vertex(e.From); v != nil {
						move(v)
					}
				}
				if s.Op != "in" && e.From == t.cur.ID {
					if v := g.Vertex(e.To); v != nil {
						move(v)
					}
				}
			}
		case "outE", "inE", "bothE":
			for _, e := range g.E {
				if !labelOK(e) {
					continue
				}
				if s.Op != "outE" && e.To == t.cur.ID {
					move(e)
				}
				if s.Op != "inE" && e.From == t.cur.ID {
					move(e)
				}
			}
		case "has":
			r := model.RefExpr(s.Has, t.lookup)
			if r == model.Undefined {
				return nil, fmt.Errorf("undefined has cell")
			}
			if r == model.True {
				next(t)
			}
		case "hasLabel":
			if labelOK(t.cur) {
				next(t)
			}
		case "as":
			nt := t.clone()
			c := *t.cur
			c.Data = model.CopyMap(t.cur.Data)
			nt.marks[s.Args[0]] = &c
			next(nt)
		case "set":
			nt := t.clone()
			nt.setValue(s.Args[0], model.DeepCopy(s.Template))
			next(nt)
		case "increment":
			nt := t.clone()
			v, _ := nt.lookup(s.Args[0])
			f, _ := v.(float64)
			nt.setValue(s.Args[0], f+float64(s.N))
			next(nt)
		case "mark":
			next(t)
		case "jump":
			cond := s.Has == nil
			if !cond {
				r := model.RefExpr(s.Has, t.lookup)
				if r == model.Undefined {
					return nil, fmt.Errorf("undefined jump condition cell")
				}
				cond = r == model.True
			}
			if cond {
				p, ok := markPos[s.Args[0]]
				if !ok {
					return nil, fmt.Errorf("jump to an undefined mark")
				}
				work = append(work, item{t.clone(), p + 1})
			}
			if s.Emit {
				next(t.clone())
			}
		default:
			return nil, fmt.Errorf("step %s not covered by the loop reference", s.Op)
		}
	}
	return out, nil
}
