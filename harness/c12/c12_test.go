// Package c12: mark/jump loops are exact and terminate under every schedule.
package c12

import (
	"context"
	"encoding/json"
	"fmt"
	"os"
	"runtime"
	"sort"
	"strings"
	"sync/atomic"
	"testing"
	"time"

	"github.com/bmeg/grip/engine"
	"github.com/bmeg/grip/engine/core"
	"github.com/bmeg/grip/engine/pipeline"
	"github.com/bmeg/grip/gdbi"
	"github.com/bmeg/grip/gripql"
	"pgregory.net/rapid"
	"verif/internal/gripx"
	"verif/internal/model"
	"verif/internal/pbt"
	"verif/internal/quiesce"
)

func TestMain(m *testing.M) {
	code := pbt.Main(m, pbt.Meta{
		Property: "C12",
		Level:    "exploration",
		Rule: "loop programs from templates grounded in the iteration documentation and the upstream repeat tests (V(S)[.set(c,0)].as(s).mark(m) body .increment($s.c).has(lt($s.c,k)).jump(m,cond?,emit); filter-before-body variant; forward jump over a body; two jumps to one mark; emit on/off; k<=4; bodies of out/in/both/outE.out/hasLabel/as) on chains, small DAGs, cycles bounded by the counter and fan-outs that put >50 and >1000 travelers in flight; every case is run R times under GOMAXPROCS in {1,2,4,16} with a generated consumer pause pattern, a generated capacity of the channels between the steps (the server's 5000 or 1/2/7/50) and, for one case in six, a backend that answers every lookup 120 or 250 ms late; TestVolume puts more travelers into one generation than all bounded buffers of the cycle hold (27000 with the server's capacity); the row multiset must equal the iterative reference semantics every time and the stream must close (hangs judged by goroutine-dump quiescence with the protocol's polling loops named as pollers). " +
			"Non-trivial: >=2 passes through the cycle and >=2 travelers in flight; distinct = (graph, program) text.",
		Assumptions: []string{
			"interleavings are sampled (GOMAXPROCS sweep, repetitions, consumer pauses), not enumerated; a failure seen in some repetitions is reported with its frequency",
			"reference: a traveler reaching jump re-enters after the mark iff the condition is absent or holds; with emit a copy continues downstream, otherwise it stops; set/increment act on the traveler's own copy",
			"programs terminate by their counters; unconditional cycles (documented as a denial-of-service hazard) are not generated",
		},
	})
	gripx.Cleanup()
	os.Exit(code)
}

// quiet silences the protocol chatter that engine/logic and engine/queue print on stdout for
// every loop. It is called inside the tests, after the testing package has taken its own
// reference to the real stdout, so verdict lines still reach the driver.
func quiet() func() {
	if os.Getenv("VERIF_SURVEY") != "" {
		return func() {}
	}
	devnull, err := os.OpenFile(os.DevNull, os.O_WRONLY, 0)
	if err != nil {
		return func() {}
	}
	real := os.Stdout
	os.Stdout = devnull
	return func() { os.Stdout = real; devnull.Close() }
}

// Case is one loop program on one graph.
type Case struct {
	Graph  *model.Graph `json:"graph"`
	Steps  []model.Step `json:"steps"`
	Procs  []int        `json:"procs"`  // GOMAXPROCS values to run under
	Repeat int          `json:"repeat"` // runs per GOMAXPROCS value
	Pauses []int        `json:"pauses"` // consumer pause pattern (µs), cyclic
	// BufSize is the capacity of the channels between the steps: 0 = pipeline.Run (the
	// server's 5000); otherwise pipeline.Start is called with it, the way Run and the job
	// manager do with their own constant. The loop's termination may not depend on it:
	// the queue between jump and mark is what takes up any number of travelers.
	BufSize int `json:"bufsize,omitempty"`
	// LatencyMS is the latency added to every element lookup of the backend (0 = none).
	LatencyMS int `json:"latency_ms,omitempty"`
}

// run starts the compiled traversal like pipeline.Run does, with the case's channel capacity.
func run(ctx context.Context, pipe gdbi.Pipeline, bufsize int) <-chan *gripql.QueryResult {
	if bufsize <= 0 {
		return pipeline.Run(ctx, pipe, gripx.WorkDir())
	}
	resch := make(chan *gripql.QueryResult, bufsize)
	go func() {
		defer close(resch)
		graph := pipe.Graph()
		dataType := pipe.DataType()
		markTypes := pipe.MarkTypes()
		man := engine.NewManager(gripx.WorkDir())
		for t := range pipeline.Start(ctx, pipe, man, bufsize, nil, nil) {
			if !t.IsSignal() {
				resch <- pipeline.Convert(graph, dataType, markTypes, t)
			}
		}
		man.Cleanup()
	}()
	return resch
}

func rowOf(t *trav, final string) *gripql.QueryResult {
	mt := &model.Trav{Cur: t.cur, Path: t.path}
	switch final {
	case "path":
		return gripx.ExpectedRow(mt, model.TPath)
	}
	if t.cur.Edge {
		return gripx.ExpectedRow(mt, model.TEdge)
	}
	return gripx.ExpectedRow(mt, model.TVertex)
}

type loaded struct {
	gi gdbi.GraphInterface
}

var poll = quiesce.WithPollers("logic.(*JumpMark).Process", "queue.New")

func runCase(t pbt.TB, c Case) {
	pbt.Case(t)
	// split a trailing terminal
	steps := c.Steps
	final := ""
	body := steps
	limitN := int64(-1)
	if last := steps[len(steps)-1]; last.Op == "path" || last.Op == "count" {
		final = last.Op
		body = steps[:len(steps)-1]
	} else if last.Op == "limit" {
		// a limit behind the loop: it is satisfied (and cancels the pipeline) while
		// travelers may still be cycling; exactly min(n, N) of the loop's rows must
		// arrive and the stream must close
		limitN = last.N
		body = steps[:len(steps)-1]
		pbt.Class(t, "limit-behind-loop")
	}
	ref, err := refRun(c.Graph, body, 400000)
	if err != nil {
		pbt.Class(t, "skip:"+err.Error())
		return
	}
	var want []string
	if final == "count" {
		want = []string{gripx.RowCanon(&gripql.QueryResult{Result: &gripql.QueryResult_Count{Count: uint32(len(ref))}})}
	} else {
		for _, r := range ref {
			want = append(want, gripx.RowCanon(rowOf(r, final)))
		}
		sort.Strings(want)
	}
	passes, inflight := loopStats(c, ref)
	pbt.Class(t, fmt.Sprintf("passes=%d", min(passes, 4)))
	if passes >= 2 && inflight >= 2 {
		pbt.Nontrivial(t, gkey(c.Graph)+"|"+model.TravString(c.Steps))
	}
	if inflight > 50 {
		pbt.Class(t, "inflight>50")
	}
	if inflight > 1000 {
		pbt.Class(t, "inflight>1000")
	}
	if inflight > 20000 {
		pbt.Class(t, "inflight>20000")
	}
	if c.BufSize > 0 {
		pbt.Class(t, fmt.Sprintf("channel-capacity=%d", c.BufSize))
		if inflight > 1200 {
			pbt.Class(t, "inflight>1200-with-small-channels")
		}
	}
	gi, lerr := gripx.Load(gripx.DB("badger"), gripx.FreshName(), c.Graph)
	if lerr != nil {
		t.Fatalf("INFRA: load: %v", lerr)
	}
	if c.LatencyMS > 0 {
		gi = &slowGraph{GraphInterface: gi, d: time.Duration(c.LatencyMS) * time.Millisecond}
		pbt.Class(t, "backend-latency>0")
	}
	pipe, cerr := gi.Compiler().Compile(model.Protos(c.Steps), nil)
	if cerr != nil {
		pbt.Discrepancy(t, c, "compile:"+shape(c.Steps), "%s rejected: %v", model.TravString(c.Steps), cerr)
		return
	}
	_ = pipe
	old := runtime.GOMAXPROCS(0)
	defer runtime.GOMAXPROCS(old)
	bad := 0
	total := 0
	var firstDiff, firstSig string
	for _, p := range c.Procs {
		runtime.GOMAXPROCS(p)
		for r := 0; r < c.Repeat; r++ {
			total++
			pipe, _ := gi.Compiler().Compile(model.Protos(c.Steps), nil)
			ctx, cancel := context.WithCancel(context.Background())
			var got []string
			var n int64
			done := make(chan struct{})
			ch := run(ctx, pipe, c.BufSize)
			go func() {
				defer close(done)
				i := 0
				for row := range ch {
					got = append(got, gripx.RowCanon(row))
					atomic.AddInt64(&n, 1)
					if len(c.Pauses) > 0 {
						if d := c.Pauses[i%len(c.Pauses)]; d > 0 {
							time.Sleep(time.Duration(d) * time.Microsecond)
						}
					}
					i++
				}
			}()
			rep := quiesce.WaitReport(done, func() int64 { return atomic.LoadInt64(&n) }, 60*time.Second, poll)
			if rep.Verdict != quiesce.Done {
				cancel()
				if rep.Verdict == quiesce.Hang {
					pbt.Discrepancy(t, c, "hang:"+shape(c.Steps), "%s (GOMAXPROCS=%d, run %d) never closed its result stream after %d rows; the loop's goroutines are idle:\n%s",
						model.TravString(c.Steps), p, r, atomic.LoadInt64(&n), rep.Stacks())
					return
				}
				pbt.Inconclusive(t, "loop did not finish within the budget and is not quiescent: "+rep.Reason)
				return
			}
			cancel()
			sort.Strings(got)
			if limitN >= 0 {
				wantN := int(min(limitN, int64(len(want))))
				d := ""
				if len(got) != wantN {
					d = fmt.Sprintf("%d rows, want min(limit %d, %d rows of the loop) = %d", len(got), limitN, len(want), wantN)
				} else if !gripx.SubMultiset(got, want) {
					d = "rows that the loop does not produce: " + gripx.DiffMultiset(got, want)
				}
				if d != "" {
					bad++
					if firstDiff == "" {
						firstDiff, firstSig = fmt.Sprintf("GOMAXPROCS=%d run %d: %s", p, r, d), "limit-behind-loop"
					}
				}
				continue
			}
			if d := gripx.DiffMultiset(got, want); d != "" {
				bad++
				if firstDiff == "" {
					firstDiff = fmt.Sprintf("GOMAXPROCS=%d run %d: %s", p, r, d)
					switch {
					case len(got) < len(want):
						firstSig = "lost-travelers"
					case len(got) > len(want):
						firstSig = "duplicated-travelers"
					default:
						firstSig = "wrong-rows"
					}
				}
			}
		}
	}
	if bad > 0 {
		pbt.Discrepancy(t, c, firstSig+":"+shape(c.Steps), "%s: %d of %d runs differ from the iterative definition; first: %s", model.TravString(c.Steps), bad, total, firstDiff)
	}
}

func gkey(g *model.Graph) string {
	b, _ := json.Marshal(g)
	return string(b)
}

func shape(steps []model.Step) string {
	ops := make([]string, len(steps))
	for i, s := range steps {
		ops[i] = s.Op
		if s.Op == "jump" {
			ops[i] = fmt.Sprintf("jump[cond=%v,emit=%v]", s.Has != nil, s.Emit)
		}
	}
	return strings.Join(ops, ".")
}

// loopStats: passes through the cycle = the largest counter value reached; in flight =
// number of travelers that took at least one jump.
func loopStats(c Case, ref []*trav) (passes int, inflight int) {
	// re-run the reference counting jumps taken
	jumps := 0
	maxc := 0
	for _, r := range ref {
		for _, m := range r.marks {
			if v, ok := m.Data["c"].(float64); ok && int(v) > maxc {
				maxc = int(v)
			}
		}
	}
	// rough in-flight measure: rows produced (each row passed the loop body at least once)
	jumps = len(ref)
	return maxc, jumps
}

func TestReplay(t *testing.T) {
	defer quiet()()
	cf, ok := pbt.ReplayFile()
	if !ok {
		t.Skip("no replay file")
	}
	var c Case
	if err := json.Unmarshal(cf.Case, &c); err != nil {
		t.Fatal(err)
	}
	// schedule dependent: replay many times
	if c.Repeat < 25 {
		c.Repeat = 25
	}
	runCase(t, c)
}

// ---------------------------------------------------------------------------------
// generators

func genGraph(rt *rapid.T) *model.Graph {
	g := &model.Graph{}
	kind := rapid.SampledFrom([]string{"chain", "dag", "cycle", "fan", "bigfan"}).Draw(rt, "graphKind")
	addV := func(id string) {
		g.V = append(g.V, &model.Element{ID: id, Label: []string{"A", "B"}[len(g.V)%2], Data: map[string]interface{}{}})
	}
	addE := func(from, to string) {
		g.E = append(g.E, &model.Element{ID: fmt.Sprintf("e%04d", len(g.E)), Edge: true, Label: "x", From: from, To: to, Data: map[string]interface{}{}})
	}
	switch kind {
	case "chain":
		n := rapid.IntRange(1, 6).Draw(rt, "n")
		for i := 0; i <= n; i++ {
			addV(fmt.Sprintf("v%02d", i))
		}
		for i := 0; i < n; i++ {
			addE(fmt.Sprintf("v%02d", i), fmt.Sprintf("v%02d", i+1))
		}
	case "dag":
		n := rapid.IntRange(2, 6).Draw(rt, "n")
		for i := 0; i < n; i++ {
			addV(fmt.Sprintf("v%02d", i))
		}
		for i := 0; i < n; i++ {
			for j := i + 1; j < n; j++ {
				if rapid.IntRange(0, 2).Draw(rt, fmt.Sprintf("e%d-%d", i, j)) > 0 {
					addE(fmt.Sprintf("v%02d", i), fmt.Sprintf("v%02d", j))
				}
			}
		}
	case "cycle":
		n := rapid.IntRange(1, 5).Draw(rt, "n")
		for i := 0; i < n; i++ {
			addV(fmt.Sprintf("v%02d", i))
		}
		for i := 0; i < n; i++ {
			addE(fmt.Sprintf("v%02d", i), fmt.Sprintf("v%02d", (i+1)%n))
		}
		if rapid.Bool().Draw(rt, "chord") && n > 2 {
			addE("v00", "v02")
		}
	case "fan", "bigfan":
		// v00 -> w spokes -> each spoke -> d targets: width*d travelers in the second pass
		w := rapid.IntRange(3, 12).Draw(rt, "w")
		d := rapid.IntRange(2, 8).Draw(rt, "d")
		if kind == "bigfan" {
			w = rapid.SampledFrom([]int{30, 40, 60, 80}).Draw(rt, "bw")
			d = rapid.SampledFrom([]int{20, 30, 40}).Draw(rt, "bd")
		}
		addV("v00")
		for i := 0; i < w; i++ {
			s := fmt.Sprintf("s%03d", i)
			addV(s)
			addE("v00", s)
		}
		for j := 0; j < d; j++ {
			tg := fmt.Sprintf("t%03d", j)
			addV(tg)
			for i := 0; i < w; i++ {
				addE(fmt.Sprintf("s%03d", i), tg)
			}
		}
	}
	return g
}

func lt(key string, k int) *model.Expr { return model.Leaf("lt", key, float64(k)) }

func genProgram(rt *rapid.T, g *model.Graph) []model.Step {
	S := model.S
	k := rapid.IntRange(1, 4).Draw(rt, "k")
	emit := rapid.IntRange(0, 3).Draw(rt, "emit") > 0
	start := S("V", "v00")
	if rapid.IntRange(0, 3).Draw(rt, "allStart") == 0 && len(g.V) <= 12 {
		start = S("V")
	}
	bodies := [][]model.Step{{S("out")}, {S("out")}, {S("in")}, {S("both")}, {S("outE"), S("out")}, {S("out", "x")}, {S("out"), S("hasLabel", "A", "B")}, {S("out"), S("as", "b")}}
	body := bodies[rapid.IntRange(0, len(bodies)-1).Draw(rt, "body")]
	set := model.Step{Op: "set", Args: []string{"c"}, Template: 0.0}
	inc := model.Step{Op: "increment", Args: []string{"$s.c"}, N: 1}
	guard := model.Step{Op: "has", Has: lt("$s.c", k)}
	var jcond *model.Expr
	switch rapid.IntRange(0, 3).Draw(rt, "jcond") {
	case 0:
		jcond = model.Leaf("eq", "_label", "A")
	case 1:
		jcond = lt("$s.c", k)
	}
	var steps []model.Step
	switch rapid.IntRange(0, 5).Draw(rt, "template") {
	case 0, 1: // documented form: body, increment, guard, jump
		steps = []model.Step{start, set, S("as", "s"), S("mark", "m")}
		steps = append(steps, body...)
		steps = append(steps, inc, guard, model.Step{Op: "jump", Args: []string{"m"}, Has: jcond, Emit: emit})
	case 2: // filter before the body (second upstream test)
		steps = []model.Step{start, set, S("as", "s"), S("mark", "m"), inc, guard}
		steps = append(steps, body...)
		steps = append(steps, model.Step{Op: "jump", Args: []string{"m"}, Emit: true})
	case 3: // forward jump over a body
		steps = []model.Step{start, {Op: "jump", Args: []string{"skip"}, Has: model.Leaf("eq", "_label", "A"), Emit: rapid.Bool().Draw(rt, "femit")}}
		steps = append(steps, body...)
		steps = append(steps, S("mark", "skip"))
	case 4: // two jumps to one mark
		steps = []model.Step{start, set, S("as", "s"), S("mark", "m")}
		steps = append(steps, body...)
		steps = append(steps, inc,
			model.Step{Op: "jump", Args: []string{"m"}, Has: model.And(lt("$s.c", k), model.Leaf("eq", "_label", "A")), Emit: true},
			model.Step{Op: "jump", Args: []string{"m"}, Has: model.And(lt("$s.c", k), model.Leaf("eq", "_label", "B")), Emit: emit})
	default: // loop without emit: only the last pass leaves through the guard's negation
		steps = []model.Step{start, set, S("as", "s"), S("mark", "m")}
		steps = append(steps, body...)
		steps = append(steps, inc, model.Step{Op: "jump", Args: []string{"m"}, Has: lt("$s.c", k), Emit: true})
	}
	if rapid.IntRange(0, 3).Draw(rt, "noSet") == 0 {
		// the counter is created by increment() itself: no set() before the loop, so the
		// marked element starts without the property (and, in these graphs, without any)
		var kept []model.Step
		for _, st := range steps {
			if st.Op != "set" {
				kept = append(kept, st)
			}
		}
		steps = kept
	}
	switch rapid.IntRange(0, 5).Draw(rt, "tail") {
	case 0:
		steps = append(steps, S("count"))
	case 1:
		steps = append(steps, S("path"))
	case 2:
		steps = append(steps, model.Step{Op: "limit", N: int64(rapid.SampledFrom([]int{0, 1, 2, 5, 10, 60, 1100}).Draw(rt, "limit"))})
	}
	return steps
}

func TestLoops(t *testing.T) {
	defer quiet()()
	pbt.Check(t, 260, 12000, func(rt *rapid.T) {
		g := genGraph(rt)
		c := Case{Graph: g, Steps: genProgram(rt, g), Repeat: pbt.Pick(2, 5)}
		c.Procs = rapid.SampledFrom([][]int{{1, 16}, {2, 4}, {1, 2, 4, 16}, {16}}).Draw(rt, "procs")
		c.Pauses = rapid.SampledFrom([][]int{nil, {0, 0, 50}, {200}, {0, 1000, 0, 0}}).Draw(rt, "pauses")
		c.BufSize = rapid.SampledFrom([]int{0, 0, 1, 2, 7, 50}).Draw(rt, "bufsize")
		if len(g.V) <= 12 && rapid.IntRange(0, 5).Draw(rt, "slow") == 0 {
			// a slow backend: every pass takes the latency, so one GOMAXPROCS value, one run
			c.LatencyMS = rapid.SampledFrom([]int{120, 250}).Draw(rt, "latency")
			c.Procs = c.Procs[:1]
			c.Repeat = 1
		}
		pbt.Current(rt, c)
		if pbt.WantSample(rt) {
			pbt.Sample(rt, map[string]interface{}{"program": model.TravString(c.Steps), "vertices": len(g.V), "edges": len(g.E), "procs": c.Procs})
		}
		runCase(rt, c)
	})
}

// layered builds root -> w -> w -> ... (depth fully connected layers of width w).
func layered(w, depth int) *model.Graph {
	g := &model.Graph{}
	addV := func(id string) {
		g.V = append(g.V, &model.Element{ID: id, Label: []string{"A", "B"}[len(g.V)%2], Data: map[string]interface{}{}})
	}
	addE := func(from, to string) {
		g.E = append(g.E, &model.Element{ID: fmt.Sprintf("e%05d", len(g.E)), Edge: true, Label: "x", From: from, To: to, Data: map[string]interface{}{}})
	}
	addV("v00")
	prev := []string{"v00"}
	for l := 0; l < depth; l++ {
		var cur []string
		for i := 0; i < w; i++ {
			id := fmt.Sprintf("l%d-%03d", l, i)
			addV(id)
			cur = append(cur, id)
		}
		for _, p := range prev {
			for _, c := range cur {
				addE(p, c)
			}
		}
		prev = cur
	}
	return g
}

// TestVolume: "regardless of ... the number of travelers in flight". One generation of the
// loop holds more travelers than every bounded buffer of the cycle together (the channels
// between the steps and the queue's own two channels), so only the unbounded queue between
// jump and mark lets the body drain.
func TestVolume(t *testing.T) {
	defer quiet()()
	pbt.Check(t, 12, 320, func(rt *rapid.T) {
		S := model.S
		var g *model.Graph
		buf := rapid.SampledFrom([]int{1, 2, 7, 50}).Draw(rt, "bufsize")
		depth := 2
		w := rapid.SampledFrom([]int{40, 50, 64}).Draw(rt, "w")
		if rapid.IntRange(0, 7).Draw(rt, "huge") == 0 {
			// wider than the server's own channels: 30^3 = 27000 travelers in the last pass
			buf, w, depth = 0, 30, 3
		}
		g = layered(w, depth)
		k := depth + rapid.IntRange(0, 1).Draw(rt, "extra")
		steps := []model.Step{S("V", "v00"), {Op: "set", Args: []string{"c"}, Template: 0.0}, S("as", "s"), S("mark", "m"), S("out"),
			{Op: "increment", Args: []string{"$s.c"}, N: 1}}
		if rapid.Bool().Draw(rt, "guarded") {
			steps = append(steps, model.Step{Op: "has", Has: lt("$s.c", k+1)}, model.Step{Op: "jump", Args: []string{"m"}, Emit: true})
		} else {
			steps = append(steps, model.Step{Op: "jump", Args: []string{"m"}, Has: lt("$s.c", k), Emit: true})
		}
		if rapid.Bool().Draw(rt, "count") {
			steps = append(steps, S("count"))
		}
		c := Case{Graph: g, Steps: steps, Repeat: 1, BufSize: buf}
		c.Procs = rapid.SampledFrom([][]int{{16}, {2}, {1}}).Draw(rt, "procs")
		pbt.Current(rt, c)
		if pbt.WantSample(rt) {
			pbt.Sample(rt, map[string]interface{}{"program": model.TravString(c.Steps), "vertices": len(g.V), "edges": len(g.E), "procs": c.Procs, "channel_capacity": buf})
		}
		runCase(rt, c)
	})
}

// slowGraph adds a fixed latency to every element lookup of the wrapped graph, the way a
// remote backend does: requests are answered in order, each one `d` after it was made
// (throughput is not limited, lookups overlap). Exactness and termination of a loop may
// not depend on how long a traveler or a shutdown signal takes to go round the cycle.
type slowGraph struct {
	gdbi.GraphInterface
	d time.Duration
}

func (s *slowGraph) Compiler() gdbi.Compiler { return core.NewCompiler(s, core.IndexStartOptimize) }

type stamped struct {
	r  gdbi.ElementLookup
	at time.Time
}

func (s *slowGraph) delay(req chan gdbi.ElementLookup) chan gdbi.ElementLookup {
	out := make(chan gdbi.ElementLookup, cap(req))
	mid := make(chan stamped, 1<<16)
	go func() {
		defer close(mid)
		for r := range req {
			mid <- stamped{r, time.Now()}
		}
	}()
	go func() {
		defer close(out)
		for m := range mid {
			if w := s.d - time.Since(m.at); w > 0 {
				time.Sleep(w)
			}
			out <- m.r
		}
	}()
	return out
}

func (s *slowGraph) GetVertexChannel(ctx context.Context, req chan gdbi.ElementLookup, load bool) chan gdbi.ElementLookup {
	return s.GraphInterface.GetVertexChannel(ctx, s.delay(req), load)
}
func (s *slowGraph) GetOutChannel(ctx context.Context, req chan gdbi.ElementLookup, load bool, emitNull bool, l []string) chan gdbi.ElementLookup {
	return s.GraphInterface.GetOutChannel(ctx, s.delay(req), load, emitNull, l)
}
func (s *slowGraph) GetInChannel(ctx context.Context, req chan gdbi.ElementLookup, load bool, emitNull bool, l []string) chan gdbi.ElementLookup {
	return s.GraphInterface.GetInChannel(ctx, s.delay(req), load, emitNull, l)
}
func (s *slowGraph) GetOutEdgeChannel(ctx context.Context, req chan gdbi.ElementLookup, load bool, emitNull bool, l []string) chan gdbi.ElementLookup {
	return s.GraphInterface.GetOutEdgeChannel(ctx, s.delay(req), load, emitNull, l)
}
func (s *slowGraph) GetInEdgeChannel(ctx context.Context, req chan gdbi.ElementLookup, load bool, emitNull bool, l []string) chan gdbi.ElementLookup {
	return s.GraphInterface.GetInEdgeChannel(ctx, s.delay(req), load, emitNull, l)
}
