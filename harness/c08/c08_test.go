// Package c08: has() conditions mean what the documentation says, for every value.
package c08

import (
	"encoding/json"
	"fmt"
	"os"
	"sort"
	"strings"
	"testing"

	"github.com/bmeg/grip/engine/logic"
	"github.com/bmeg/grip/gdbi"
	"github.com/bmeg/grip/gripql"
	"pgregory.net/rapid"
	"verif/internal/gripx"
	"verif/internal/model"
	"verif/internal/pbt"
)

func TestMain(m *testing.M) {
	code := pbt.Main(m, pbt.Meta{
		Property: "C08",
		Level:    "exploration",
		Rule: "exhaustive grid: 12 condition operators x 3 key forms (k, a.k, $m.k) x element values (missing + every JSON kind incl. boundary numbers, numeric text) x arguments (all kinds; pairs incl. equal/inverted bounds; lists), evaluated directly (logic.MatchesHasExpression) and end-to-end (V().has(e) on a stored Badger graph with one vertex per value); random Boolean trees to depth 3 with algebraic laws. " +
			"A case is non-trivial when the documented answer is true or the operand kinds differ (grid), or when a tree has >=2 leaves of differing truth (trees); distinct = distinct (operator,key form,value,argument) cell or distinct tree text.",
		Assumptions: []string{
			"reference evaluator written from website/content/docs/queries/operations.md; cells the documentation leaves open (missing vs null equality, non-list within/without arguments, contains on strings/maps, text that ParseFloat accepts but is not plain decimal) are judged only for 'does not raise' and the algebraic laws",
			"values are restricted to what structpb can carry (no NaN/Inf numbers)",
		},
	})
	gripx.Cleanup()
	os.Exit(code)
}

// ---------------------------------------------------------------------------------
// value pools

type val struct {
	Missing bool        `json:"missing,omitempty"`
	V       interface{} `json:"v"`
}

func (v val) String() string {
	if v.Missing {
		return "<missing>"
	}
	return model.Canon(v.V)
}

func (v val) kind() string {
	if v.Missing {
		return "missing"
	}
	if s, ok := v.V.(string); ok {
		if model.PlainDecimal(s) {
			return "numtext"
		}
		if model.ExoticNumeric(s) {
			return "exotictext"
		}
	}
	return model.Kind(v.V)
}

func argKind(a interface{}) string {
	if s, ok := a.(string); ok {
		if model.PlainDecimal(s) {
			return "numtext"
		}
		if model.ExoticNumeric(s) {
			return "exotictext"
		}
	}
	if l, ok := a.([]interface{}); ok {
		if len(l) == 2 {
			_, ok1 := model.Number(l[0])
			_, ok2 := model.Number(l[1])
			if ok1 && ok2 {
				return "numpair"
			}
		}
		return "list"
	}
	return model.Kind(a)
}

func l(xs ...interface{}) []interface{} { return xs }
func m(kv ...interface{}) map[string]interface{} {
	o := map[string]interface{}{}
	for i := 0; i+1 < len(kv); i += 2 {
		o[kv[i].(string)] = kv[i+1]
	}
	return o
}

const maxInt53 = 9007199254740992.0

var scalars = []interface{}{
	nil, true, false,
	0.0, 1.0, -1.0, 0.5, -0.5, 2.0, 3.0, 1e308, -1e308, maxInt53, maxInt53 + 2, 5e-324,
	"1", "0.5", "-1", "2", "0", "abc", "", "a", "true", " 1", "1 ", "inf", "1e3", "NaN", "0x10", "+1", ".5", "5.", "+0.5", "1E3", "-.5e1", "1e999", "0x1p1",
}

var elemValues = func() []val {
	out := []val{{Missing: true}}
	for _, s := range scalars {
		out = append(out, val{V: s})
	}
	for _, c := range []interface{}{
		l(), l(1.0), l(1.0, "a"), l("a", "b"), l(nil), l(0.0, 2.0), l(l(1.0)), l(true), l("1"),
		m(), m("x", 1.0), m("k", 1.0),
	} {
		out = append(out, val{V: c})
	}
	return out
}()

var argValues = func() []interface{} {
	out := append([]interface{}{}, scalars...)
	out = append(out,
		l(), l(1.0), l(1.0, "a"), l("a", "b"), l(nil), l(nil, 1.0), l(l(1.0)), l(true, false), l("1"), l("abc", "", 0.5),
		l(0.0, 1.0), l(1.0, 1.0), l(2.0, 0.0), l(-1.0, 0.5), l(0.0, 2.0), l("0", "2"), l(0.0, "2"), l(-1e308, 1e308),
		l(0.0, 1.0, 2.0), l("a", 1.0), l(1.0, "b"), l(true, 2.0), l(nil, nil), l(0.0, "inf"), l(l(0.0), 2.0),
		m(), m("x", 1.0),
	)
	return out
}()

var keyForms = []string{"k", "a.k", "$m.k"}

// traveler carrying the value under k, a.k and (through mark m) $m.k
func travelerFor(v val) gdbi.Traveler {
	data := map[string]interface{}{"other": "x"}
	if !v.Missing {
		data["k"] = model.DeepCopy(v.V)
		data["a"] = map[string]interface{}{"k": model.DeepCopy(v.V)}
	}
	cur := &gdbi.DataElement{ID: "v", Label: "L", Data: data, Loaded: true}
	var t gdbi.Traveler = &gdbi.BaseTraveler{}
	t = t.AddCurrent(cur)
	t = t.AddMark("m", cur)
	return t
}

func lookupFor(v val) model.Lookup {
	return func(key string) (interface{}, bool) {
		switch key {
		case "k", "a.k", "$m.k":
			if v.Missing {
				return nil, false
			}
			return v.V, true
		case "_gid", "$m._gid":
			return "v", true
		case "_label", "$m._label":
			return "L", true
		case "other":
			return "x", true
		}
		return nil, false
	}
}

// implEval calls the engine; a panic is converted into an error (the property says
// conditions never raise).
func implEval(t gdbi.Traveler, e *gripql.HasExpression) (res bool, perr interface{}) {
	defer func() {
		if r := recover(); r != nil {
			perr = r
		}
	}()
	return logic.MatchesHasExpression(t, e), nil
}

type gridCase struct {
	Op  string      `json:"op"`
	Key string      `json:"key"`
	Val val         `json:"val"`
	Arg interface{} `json:"arg"`
}

func (c gridCase) expr() *model.Expr { return model.Leaf(c.Op, c.Key, c.Arg) }
func (c gridCase) cell() string {
	return fmt.Sprintf("cell:%s:%s:%s", c.Op, c.Val.kind(), argKind(c.Arg))
}

func runGridCase(t pbt.TB, c gridCase) {
	pbt.Case(t)
	want := model.RefCond(c.Op, c.Val.V, !c.Val.Missing, c.Arg)
	got, perr := implEval(travelerFor(c.Val), c.expr().Proto())
	if perr != nil {
		pbt.Discrepancy(t, c, "panic:"+c.cell(), "%s on value %s raised: %v", c.expr(), c.Val, perr)
		return
	}
	pbt.Class(t, "ref="+want.String())
	if want == model.Undefined {
		return
	}
	if want == model.True || c.Val.kind() != argKind(c.Arg) {
		pbt.Nontrivial(t, fmt.Sprintf("%s|%s|%s|%s", c.Op, c.Key, c.Val, model.Canon(c.Arg)))
	}
	if got != (want == model.True) {
		pbt.Discrepancy(t, c, c.cell(), "%s on value %s: engine=%v documented=%v", c.expr(), c.Val, got, want)
	}
}

func TestGridDirect(t *testing.T) {
	if cf, ok := pbt.ReplayFile(); ok {
		if cf.Test != "TestGridDirect" {
			t.Skip()
		}
		var c gridCase
		if err := json.Unmarshal(cf.Case, &c); err != nil {
			t.Fatal(err)
		}
		runGridCase(t, c)
		return
	}
	i := 0
	for _, op := range model.CondOps {
		for _, key := range keyForms {
			for _, v := range elemValues {
				for _, a := range argValues {
					i++
					if !pbt.ShardOwns(i) {
						continue
					}
					c := gridCase{Op: op, Key: key, Val: v, Arg: a}
					if pbt.WantSample(t) {
						pbt.Sample(t, c)
					}
					runGridCase(t, c)
				}
			}
		}
	}
	pbt.Exhaustive(t)
}

// ---------------------------------------------------------------------------------
// random Boolean trees + laws

func genArg(t *rapid.T, op string) interface{} {
	switch op {
	case "inside", "outside", "between":
		if rapid.IntRange(0, 9).Draw(t, "wellformed") < 8 {
			nums := []interface{}{0.0, 1.0, -1.0, 0.5, 2.0, 3.0, "0", "2", -0.5, 1e308}
			return l(rapid.SampledFrom(nums).Draw(t, "lo"), rapid.SampledFrom(nums).Draw(t, "hi"))
		}
	case "within", "without":
		if rapid.IntRange(0, 9).Draw(t, "listarg") < 8 {
			n := rapid.IntRange(0, 4).Draw(t, "n")
			out := make([]interface{}, n)
			for i := range out {
				out[i] = rapid.SampledFrom(scalars).Draw(t, "member")
			}
			return out
		}
	}
	return rapid.SampledFrom(argValues).Draw(t, "arg")
}

func genExpr(t *rapid.T, depth int) *model.Expr {
	k := rapid.IntRange(0, 9).Draw(t, "node")
	if depth <= 0 || k < 5 {
		op := rapid.SampledFrom(model.CondOps).Draw(t, "op")
		key := rapid.SampledFrom([]string{"k", "k", "a.k", "$m.k", "other", "_gid", "_label", "nokey"}).Draw(t, "key")
		return model.Leaf(op, key, genArg(t, op))
	}
	switch {
	case k < 7:
		n := rapid.IntRange(0, 3).Draw(t, "nkids")
		kids := make([]*model.Expr, n)
		for i := range kids {
			kids[i] = genExpr(t, depth-1)
		}
		return model.And(kids...)
	case k < 9:
		n := rapid.IntRange(0, 3).Draw(t, "nkids")
		kids := make([]*model.Expr, n)
		for i := range kids {
			kids[i] = genExpr(t, depth-1)
		}
		return model.Or(kids...)
	}
	return model.Not(genExpr(t, depth-1))
}

type treeCase struct {
	Val  val         `json:"val"`
	Expr *model.Expr `json:"expr"`
}

func reverseKids(e *model.Expr) *model.Expr {
	if e.IsLeaf() {
		return e
	}
	o := &model.Expr{Op: e.Op}
	for i := len(e.Kids) - 1; i >= 0; i-- {
		o.Kids = append(o.Kids, reverseKids(e.Kids[i]))
	}
	return o
}

// deMorgan pushes a negation inward: the dual form of not(e).
func dual(e *model.Expr) *model.Expr {
	switch e.Op {
	case "and":
		o := &model.Expr{Op: "or"}
		for _, k := range e.Kids {
			o.Kids = append(o.Kids, dual(k))
		}
		return o
	case "or":
		o := &model.Expr{Op: "and"}
		for _, k := range e.Kids {
			o.Kids = append(o.Kids, dual(k))
		}
		return o
	case "not":
		return e.Kids[0]
	}
	return model.Not(e)
}

// rewriteLeaves replaces leaves by documented equivalents.
func rewriteLeaves(e *model.Expr) (*model.Expr, bool) {
	if !e.IsLeaf() {
		o := &model.Expr{Op: e.Op}
		changed := false
		for _, k := range e.Kids {
			r, c := rewriteLeaves(k)
			o.Kids = append(o.Kids, r)
			changed = changed || c
		}
		return o, changed
	}
	pair := func() (interface{}, interface{}, bool) {
		p, ok := e.Arg.([]interface{})
		if !ok || len(p) != 2 {
			return nil, nil, false
		}
		_, ok1 := model.Number(p[0])
		_, ok2 := model.Number(p[1])
		return p[0], p[1], ok1 && ok2
	}
	switch e.Op {
	case "neq":
		return model.Not(model.Leaf("eq", e.Key, e.Arg)), true
	case "without":
		if _, ok := e.Arg.([]interface{}); ok {
			return model.Not(model.Leaf("within", e.Key, e.Arg)), true
		}
	case "between":
		if lo, hi, ok := pair(); ok {
			return model.And(model.Leaf("gte", e.Key, lo), model.Leaf("lt", e.Key, hi)), true
		}
	case "inside":
		if lo, hi, ok := pair(); ok {
			return model.And(model.Leaf("gt", e.Key, lo), model.Leaf("lt", e.Key, hi)), true
		}
	case "outside":
		if lo, hi, ok := pair(); ok {
			return model.Or(model.Leaf("lt", e.Key, lo), model.Leaf("gt", e.Key, hi)), true
		}
	}
	return e, false
}

func leafSig(e *model.Expr, v val) string {
	// signature of the first leaf whose engine answer differs from the reference,
	// else the generic law signature
	tr := travelerFor(v)
	for _, lf := range e.Leaves() {
		var lv val
		x, present := lookupFor(v)(lf.Key)
		lv = val{Missing: !present, V: x}
		want := model.RefCond(lf.Op, x, present, lf.Arg)
		got, perr := implEval(tr, lf.Proto())
		if perr != nil {
			return "panic:" + gridCase{Op: lf.Op, Val: lv, Arg: lf.Arg}.cell()
		}
		if want != model.Undefined && got != (want == model.True) {
			return gridCase{Op: lf.Op, Val: lv, Arg: lf.Arg}.cell()
		}
	}
	return ""
}

func runTreeCase(t pbt.TB, c treeCase) {
	pbt.Case(t)
	tr := travelerFor(c.Val)
	look := lookupFor(c.Val)
	got, perr := implEval(tr, c.Expr.Proto())
	if perr != nil {
		pbt.Discrepancy(t, c, "panic:tree", "%s on %s raised: %v", c.Expr, c.Val, perr)
		return
	}
	want := model.RefExpr(c.Expr, look)
	pbt.Class(t, "ref="+want.String())
	// non-trivial: >= 2 leaves with differing (defined) truth
	seenT, seenF := false, false
	for _, lf := range c.Expr.Leaves() {
		switch model.RefExpr(lf, look) {
		case model.True:
			seenT = true
		case model.False:
			seenF = true
		}
	}
	if seenT && seenF {
		pbt.Nontrivial(t, c.Val.String()+"|"+c.Expr.String())
	}
	fail := func(law string, other *model.Expr, og bool) {
		sig := leafSig(c.Expr, c.Val)
		if sig == "" {
			sig = leafSig(other, c.Val)
		}
		if sig == "" {
			sig = "law:" + law
		}
		pbt.Discrepancy(t, c, sig, "law %s broken on value %s: %s => %v but %s => %v", law, c.Val, c.Expr, got, other, og)
	}
	if want != model.Undefined && got != (want == model.True) {
		sig := leafSig(c.Expr, c.Val)
		if sig == "" {
			sig = "boolean-combination"
		}
		pbt.Discrepancy(t, c, sig, "%s on value %s: engine=%v documented=%v", c.Expr, c.Val, got, want)
		return
	}
	check := func(law string, other *model.Expr, negate bool) {
		og, perr := implEval(tr, other.Proto())
		if perr != nil {
			pbt.Discrepancy(t, c, "panic:tree", "%s on %s raised: %v", other, c.Val, perr)
			return
		}
		if negate {
			og = !og
		}
		if og != got {
			fail(law, other, og)
		}
	}
	check("double-negation", model.Not(model.Not(c.Expr)), false)
	check("de-morgan", dual(c.Expr), true)
	check("commutativity", reverseKids(c.Expr), false)
	check("and-singleton", model.And(c.Expr), false)
	check("or-singleton", model.Or(c.Expr), false)
	check("and-true", model.And(c.Expr, model.And()), false)
	check("or-false", model.Or(model.Or(), c.Expr), false)
	if r, changed := rewriteLeaves(c.Expr); changed {
		pbt.Class(t, "leaf-rewrite")
		check("leaf-equivalence", r, false)
	}
}

func TestTreesDirect(t *testing.T) {
	if cf, ok := pbt.ReplayFile(); ok {
		if cf.Test != "TestTreesDirect" {
			t.Skip()
		}
		var c treeCase
		if err := json.Unmarshal(cf.Case, &c); err != nil {
			t.Fatal(err)
		}
		runTreeCase(t, c)
		return
	}
	pbt.Check(t, 20000, 2000000, func(rt *rapid.T) {
		c := treeCase{Val: rapid.SampledFrom(elemValues).Draw(rt, "val"), Expr: genExpr(rt, 3)}
		if pbt.WantSample(t) {
			pbt.Sample(t, map[string]interface{}{"val": c.Val.String(), "expr": c.Expr.String()})
		}
		runTreeCase(rt, c)
	})
}

// ---------------------------------------------------------------------------------
// end to end: V().has(expr) on a stored graph with one vertex per value

var (
	e2eGraph gdbi.GraphInterface
	e2eIDs   []string
)

func e2eSetup(t pbt.TB) {
	if e2eGraph != nil {
		return
	}
	g := &model.Graph{}
	for i, v := range elemValues {
		data := map[string]interface{}{"other": "x"}
		if !v.Missing {
			data["k"] = model.DeepCopy(v.V)
			data["a"] = map[string]interface{}{"k": model.DeepCopy(v.V)}
		}
		id := fmt.Sprintf("v%02d", i)
		g.V = append(g.V, &model.Element{ID: id, Label: "L", Data: data})
		e2eIDs = append(e2eIDs, id)
	}
	gi, err := gripx.Load(gripx.DB("badger"), gripx.FreshName(), g)
	if err != nil {
		t.Fatalf("INFRA: load: %v", err)
	}
	e2eGraph = gi
}

type e2eCase struct {
	Expr *model.Expr `json:"expr"`
}

func usesMark(e *model.Expr) bool {
	for _, lf := range e.Leaves() {
		if strings.HasPrefix(lf.Key, "$") {
			return true
		}
	}
	return false
}

func runE2E(t pbt.TB, c e2eCase) {
	e2eSetup(t)
	pbt.Case(t)
	stmts := []*gripql.GraphStatement{{Statement: &gripql.GraphStatement_V{}}}
	if usesMark(c.Expr) {
		stmts = append(stmts, &gripql.GraphStatement{Statement: &gripql.GraphStatement_As{As: "m"}})
	}
	stmts = append(stmts, &gripql.GraphStatement{Statement: &gripql.GraphStatement_Has{Has: c.Expr.Proto()}})
	out := gripx.Run(e2eGraph, stmts)
	if out.CompileErr != nil {
		pbt.Discrepancy(t, c, "e2e:compile-error", "V().has(%s) rejected: %v", c.Expr, out.CompileErr)
		return
	}
	if out.Hang {
		pbt.Inconclusive(t, "stream did not close within budget")
		return
	}
	kept := map[string]bool{}
	for _, r := range out.Raw {
		kept[r.GetVertex().GetGid()] = true
	}
	if len(kept) != len(out.Raw) {
		pbt.Discrepancy(t, c, "e2e:duplicate-rows", "V().has(%s) returned %d rows for %d distinct vertices", c.Expr, len(out.Raw), len(kept))
		return
	}
	nT, nF := 0, 0
	for i, v := range elemValues {
		id := e2eIDs[i]
		direct, perr := implEval(travelerFor(v), c.Expr.Proto())
		want := model.RefExpr(c.Expr, func(key string) (interface{}, bool) {
			switch key {
			case "_gid", "$m._gid":
				return id, true
			}
			return lookupFor(v)(key)
		})
		if perr == nil && kept[id] != direct && !keyTouchesID(c.Expr) {
			sig := leafSig(c.Expr, v)
			if sig == "" {
				sig = "e2e:differs-from-direct"
			}
			pbt.Discrepancy(t, c, sig, "V().has(%s): vertex %s (k=%s) kept=%v but direct evaluation says %v", c.Expr, id, v, kept[id], direct)
			return
		}
		if want == model.Undefined {
			continue
		}
		if want == model.True {
			nT++
		} else {
			nF++
		}
		if kept[id] != (want == model.True) {
			sig := leafSig(c.Expr, v)
			if sig == "" {
				sig = "e2e:differs-from-documented"
			}
			pbt.Discrepancy(t, c, sig, "V().has(%s): vertex %s (k=%s) kept=%v documented=%v", c.Expr, id, v, kept[id], want)
			return
		}
	}
	if nT > 0 && nF > 0 {
		pbt.Nontrivial(t, "e2e|"+c.Expr.String())
	}
}

func keyTouchesID(e *model.Expr) bool {
	for _, lf := range e.Leaves() {
		if strings.HasSuffix(lf.Key, "_gid") {
			return true
		}
	}
	return false
}

func TestEndToEndGrid(t *testing.T) {
	if cf, ok := pbt.ReplayFile(); ok {
		if cf.Test != "TestEndToEndGrid" && cf.Test != "TestEndToEndTrees" {
			t.Skip()
		}
		var c e2eCase
		if err := json.Unmarshal(cf.Case, &c); err != nil {
			t.Fatal(err)
		}
		runE2E(t, c)
		return
	}
	i := 0
	for _, op := range model.CondOps {
		for _, key := range keyForms {
			for _, a := range argValues {
				i++
				if !pbt.ShardOwns(i) {
					continue
				}
				c := e2eCase{Expr: model.Leaf(op, key, a)}
				if pbt.WantSample(t) {
					pbt.Sample(t, c.Expr.String())
				}
				runE2E(t, c)
			}
		}
	}
	pbt.Exhaustive(t)
}

func TestEndToEndTrees(t *testing.T) {
	if _, ok := pbt.ReplayFile(); ok {
		t.Skip()
	}
	pbt.Check(t, 1500, 100000, func(rt *rapid.T) {
		c := e2eCase{Expr: genExpr(rt, 3)}
		if pbt.WantSample(t) {
			pbt.Sample(t, c.Expr.String())
		}
		runE2E(rt, c)
	})
}

var _ = sort.Strings
