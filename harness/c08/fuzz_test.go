package c08

import (
	"encoding/json"
	"math"
	"testing"

	"verif/internal/model"
)

// jsonDomain reports whether v is inside the value domain of the property: what
// structpb can carry (finite numbers, valid strings) at modest depth.
func jsonDomain(v interface{}, depth int) bool {
	switch x := v.(type) {
	case nil, bool, string:
		return true
	case float64:
		return !math.IsNaN(x) && !math.IsInf(x, 0)
	case []interface{}:
		if depth <= 0 {
			return false
		}
		for _, e := range x {
			if !jsonDomain(e, depth-1) {
				return false
			}
		}
		return true
	case map[string]interface{}:
		if depth <= 0 {
			return false
		}
		for _, e := range x {
			if !jsonDomain(e, depth-1) {
				return false
			}
		}
		return true
	}
	return false
}

// FuzzCondition: coverage-guided search over (operator, key form, element value JSON,
// argument JSON) with the same oracle as the grid: the reference evaluator where the
// documentation defines the cell, "does not raise" everywhere.
func FuzzCondition(f *testing.F) {
	for i, op := range model.CondOps {
		f.Add(uint8(i), uint8(i%3), false, `1`, `[0, 2]`)
		f.Add(uint8(i), uint8(0), false, `"1"`, `1`)
		f.Add(uint8(i), uint8(1), true, `null`, `null`)
		f.Add(uint8(i), uint8(2), false, `[1,"a",null]`, `"a"`)
		f.Add(uint8(i), uint8(0), false, `true`, `[true, 0.5]`)
		_ = op
	}
	f.Fuzz(func(t *testing.T, opi uint8, keyi uint8, missing bool, valJSON string, argJSON string) {
		var v, a interface{}
		if err := json.Unmarshal([]byte(valJSON), &v); err != nil {
			t.Skip()
		}
		if err := json.Unmarshal([]byte(argJSON), &a); err != nil {
			t.Skip()
		}
		if !jsonDomain(v, 4) || !jsonDomain(a, 4) {
			t.Skip()
		}
		c := gridCase{Op: model.CondOps[int(opi)%len(model.CondOps)], Key: keyForms[int(keyi)%len(keyForms)], Val: val{Missing: missing, V: v}, Arg: a}
		if missing {
			c.Val.V = nil
		}
		want := model.RefCond(c.Op, c.Val.V, !c.Val.Missing, c.Arg)
		got, perr := implEval(travelerFor(c.Val), c.expr().Proto())
		if perr != nil {
			b, _ := json.Marshal(c)
			t.Fatalf("DISCREPANCY sig=panic:%s: %s raised: %v", c.cell(), b, perr)
		}
		if want != model.Undefined && got != (want == model.True) {
			b, _ := json.Marshal(c)
			t.Fatalf("DISCREPANCY sig=%s: %s engine=%v documented=%v", c.cell(), b, got, want)
		}
	})
}
