// Package c03: any mutation history leaves exactly the abstract graph observable.
package c03

import (
	"encoding/json"
	"fmt"
	"os"
	"sort"
	"strings"
	"testing"

	"github.com/bmeg/grip/gdbi"
	"pgregory.net/rapid"
	"verif/internal/gripx"
	"verif/internal/hist"
	"verif/internal/model"
	"verif/internal/obs"
	"verif/internal/pbt"
)

func TestMain(m *testing.M) {
	code := pbt.Main(m, pbt.Meta{
		Property: "C03",
		Level:    "exploration",
		Rule: "histories of AddGraph/DeleteGraph/AddVertex(batch)/AddEdge(batch)/BulkAdd/DelVertex/DelEdge over 2 graphs, 4 vertex ids, 4 edge ids, 3+3 labels (re-adds with different label/endpoints/data, deletes of absent ids, single invalid elements, invalid graph names) on kvgraph/Badger: every sequence up to a depth bound over an 11-operation single-graph alphabet (exhaustive) and random histories up to 30 steps; after EVERY step the complete observation of every graph through the gdbi read API (lookups with load true/false, listings, adjacency in both directions x label filters, label listings, label scan, index-planned traversals, counts) is compared with the abstract model, plus return values and the timestamp rule. " +
			"Non-trivial: the history contains a replace-with-different-shape or a delete of a present element, and an edge exists at some point; distinct = history text.",
		Assumptions: []string{
			"abstract model in internal/hist: last write wins, DelVertex removes incident edges, graphs isolated, failed calls change nothing, deleting something absent changes nothing (its return value is not judged)",
			"batches handed to AddVertex/AddEdge/BulkAdd at the gdbi level contain only valid elements (every caller validates first: server/api.go, util/insert.go); single invalid elements must be rejected",
			"timestamp: must change after a successful call that changed the graph, must not change for other graphs or across reads; calls that failed or changed nothing are not judged at this level",
		},
	})
	gripx.Cleanup()
	os.Exit(code)
}

type Case struct {
	Driver string    `json:"driver"`
	Ops    []hist.Op `json:"ops"`
}

var caseCount int

var universe = obs.Universe{VertexIDs: append(append([]string{}, hist.VIDs...), "ghost"), EdgeIDs: hist.EIDs, VLabels: hist.VLabels, ELabels: hist.ELabels, Traversals: true}

func method(line string) string {
	if strings.HasPrefix(line, "V()") || strings.HasPrefix(line, "E()") {
		if i := strings.Index(line[3:], "("); i > 0 {
			return line[:3+i]
		}
	}
	return obs.Method(line)
}

// runHistory applies the history step by step; returns false when judging stopped at a
// known finding.
func runHistory(t pbt.TB, c Case) {
	pbt.Case(t)
	db := gripx.DB(c.Driver)
	world := hist.World{}
	names := hist.Names{}
	// no cleanup deletes: tombstones make every later seek slower; the store is
	// recycled every few hundred cases instead
	caseCount++
	if caseCount%40 == 0 {
		gripx.Recycle(c.Driver)
		db = gripx.DB(c.Driver)
	}
	sawEdge, sawShape := false, false
	for step, op := range c.Ops {
		// timestamps of existing graphs before the call
		tsBefore := map[string]string{}
		for ln := range world {
			if gi, err := db.Graph(names.Real(ln)); err == nil {
				tsBefore[ln] = gi.GetTimestamp()
			}
		}
		stateBefore := map[string]string{}
		for ln, g := range world {
			stateBefore[ln] = hist.StateText(g)
		}
		ex := world.Apply(op)
		pbt.Class(t, "op:"+ex.Class)
		if strings.Contains(ex.Class, "relabel") || strings.Contains(ex.Class, "reattach") || strings.Contains(ex.Class, "newdata") ||
			ex.Class == "delVertex" || ex.Class == "delVertex-with-edges" || ex.Class == "delEdge" {
			sawShape = true
		}
		for _, g := range world {
			if len(g.E) > 0 {
				sawEdge = true
			}
		}
		err, panicked := hist.ApplyReal(db, names, op)
		where := fmt.Sprintf("step %d %s", step, op)
		if panicked {
			pbt.Discrepancy(t, c, "panic:"+ex.Class, "%s panicked: %v", where, err)
			return
		}
		if ex.MustFail && err == nil {
			if !pbt.Discrepancy(t, c, "accepted:"+ex.Class, "%s must be rejected with an error but returned nil", where) {
				return
			}
		}
		if !ex.MustFail && err != nil && !strings.HasSuffix(ex.Class, "-absent") {
			if !pbt.Discrepancy(t, c, "rejected:"+ex.Class, "%s returned an error: %v", where, err) {
				return
			}
		}
		// observation of every graph
		listed := map[string]bool{}
		for _, n := range db.ListGraphs() {
			listed[n] = true
		}
		for _, ln := range hist.Graphs {
			real := names.Real(ln)
			g, exists := world[ln]
			if exists != listed[real] {
				if !pbt.Discrepancy(t, c, "ListGraphs:after-"+ex.Class, "%s: graph %s listed=%v but model says exists=%v", where, ln, listed[real], exists) {
					return
				}
				continue
			}
			gi, gerr := db.Graph(real)
			if exists != (gerr == nil) {
				if !pbt.Discrepancy(t, c, "Graph():after-"+ex.Class, "%s: Graph(%s) error=%v but model says exists=%v", where, ln, gerr, exists) {
					return
				}
				continue
			}
			if !exists {
				continue
			}
			tsA := gi.GetTimestamp()
			got := obs.OfGraph(gi, universe)
			want := obs.OfModel(g, universe)
			if d := obs.Diff(got, want); len(d) > 0 {
				more := ""
				if len(d) > 1 {
					more = fmt.Sprintf(" (+%d more differences)", len(d)-1)
				}
				if !pbt.Discrepancy(t, c, method(d[0])+":after-"+ex.Class, "%s: graph %s: %s%s", where, ln, d[0], more) {
					return
				}
				return // state diverged; stop judging this history
			}
			tsB := gi.GetTimestamp()
			if tsA != tsB {
				if !pbt.Discrepancy(t, c, "timestamp:changed-by-reads", "%s: graph %s: timestamp changed across pure reads (%s -> %s)", where, ln, tsA, tsB) {
					return
				}
			}
			// timestamp rule for the call itself
			before, had := tsBefore[ln]
			if !had {
				continue
			}
			changed := stateBefore[ln] != hist.StateText(g)
			addressed := ln == op.Graph
			switch {
			case addressed && err == nil && changed && tsA == before:
				if !pbt.Discrepancy(t, c, "timestamp:unchanged-after-"+op.Kind, "%s: graph %s changed but its timestamp did not (%s)", where, ln, tsA) {
					return
				}
			case !addressed && tsA != before:
				if !pbt.Discrepancy(t, c, "timestamp:other-graph-touched-by-"+op.Kind, "%s: timestamp of unrelated graph %s changed (%s -> %s)", where, ln, before, tsA) {
					return
				}
			}
		}
	}
	if sawEdge && sawShape {
		pbt.Nontrivial(t, histText(c.Ops))
	}
}

func histText(ops []hist.Op) string {
	parts := make([]string, len(ops))
	for i, o := range ops {
		parts[i] = o.String()
	}
	return strings.Join(parts, "; ")
}

func TestReplay(t *testing.T) {
	cf, ok := pbt.ReplayFile()
	if !ok {
		t.Skip("no replay file")
	}
	var c Case
	if err := json.Unmarshal(cf.Case, &c); err != nil {
		t.Fatal(err)
	}
	runHistory(t, c)
}

func TestRandomHistories(t *testing.T) {
	pbt.Check(t, 800, 40000, func(rt *rapid.T) {
		c := Case{Driver: "badger", Ops: hist.GenHistory(rt, 30, true)}
		pbt.Current(rt, c)
		if pbt.WantSample(rt) {
			pbt.Sample(rt, histText(c.Ops))
		}
		runHistory(rt, c)
	})
}

// alphabet of the exhaustive single-graph enumeration
func alphabet() []hist.Op {
	v := func(id, label string, data map[string]interface{}) hist.Op {
		return hist.Op{Kind: "addVertex", Graph: "ga", Elems: []*model.Element{{ID: id, Label: label, Data: data}}}
	}
	e := func(id, label, from, to string) hist.Op {
		return hist.Op{Kind: "addEdge", Graph: "ga", Elems: []*model.Element{{ID: id, Edge: true, Label: label, From: from, To: to, Data: map[string]interface{}{}}}}
	}
	return []hist.Op{
		v("v0", "A", map[string]interface{}{"k": 1.0}),
		v("v0", "B", map[string]interface{}{}),
		v("v1", "A", map[string]interface{}{}),
		e("e0", "x", "v0", "v1"),
		e("e0", "y", "v0", "v1"),
		e("e0", "x", "v1", "v0"),
		e("e1", "x", "v0", "v0"),
		{Kind: "delVertex", Graph: "ga", ID: "v0"},
		{Kind: "delEdge", Graph: "ga", ID: "e0"},
		{Kind: "bulkAdd", Graph: "ga", Elems: []*model.Element{{ID: "v1", Label: "C", Data: map[string]interface{}{}}, {ID: "e1", Edge: true, Label: "y", From: "v1", To: "v0", Data: map[string]interface{}{}}}},
		{Kind: "deleteGraph", Graph: "ga"},
		{Kind: "addGraph", Graph: "ga"},
	}
}

func TestExhaustiveHistories(t *testing.T) {
	if _, ok := pbt.ReplayFile(); ok {
		t.Skip("replay mode")
	}
	depth := pbt.Pick(3, 5)
	alpha := alphabet()
	i := 0
	var rec func(prefix []hist.Op, left int)
	rec = func(prefix []hist.Op, left int) {
		if left == 0 {
			i++
			if pbt.ShardOwns(i) {
				c := Case{Driver: "badger", Ops: append([]hist.Op{{Kind: "addGraph", Graph: "ga"}}, prefix...)}
				if pbt.WantSample(t) {
					pbt.Sample(t, histText(c.Ops))
				}
				runHistory(t, c)
			}
			return
		}
		for _, op := range alpha {
			rec(append(append([]hist.Op{}, prefix...), op), left-1)
		}
	}
	// full-length sequences contain every shorter one as a prefix (observed after every step)
	rec(nil, depth)
	pbt.Exhaustive(t)
}

var _ = sort.Strings
var _ gdbi.GraphDB
