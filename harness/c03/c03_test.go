// Package c03: any mutation history leaves exactly the abstract graph observable.
package c03

import (
	"encoding/json"
	"os"
	"sort"
	"testing"

	"github.com/bmeg/grip/gdbi"
	"pgregory.net/rapid"
	"verif/internal/gripx"
	"verif/internal/hist"
	"verif/internal/histrun"
	"verif/internal/model"
	"verif/internal/pbt"
)

func TestMain(m *testing.M) {
	code := pbt.Main(m, pbt.Meta{
		Property: "C03",
		Level:    "exploration",
		Rule: "histories of AddGraph/DeleteGraph/AddVertex(batch)/AddEdge(batch)/BulkAdd/DelVertex/DelEdge over 2 graphs, 4 vertex ids, 4 edge ids, 3+3 labels (re-adds with different label/endpoints/data, deletes of absent ids, single invalid elements, invalid graph names) on kvgraph/Badger: every sequence up to a depth bound over an 11-operation single-graph alphabet (exhaustive) and random histories up to 30 steps; after EVERY step the complete observation of every graph through the gdbi read API (lookups with load true/false, listings, adjacency in both directions x label filters, label listings, label scan, index-planned traversals, counts) is compared with the abstract model, plus return values and the timestamp rule. " +
			"Non-trivial: the history contains a replace-with-different-shape or a delete of a present element, and an edge exists at some point; distinct = history text.",
		Assumptions: []string{
			"abstract model in internal/hist: last write wins, DelVertex removes incident edges, graphs isolated, failed calls change nothing, deleting something absent changes nothing (its return value is not judged)",
			"batches handed to AddVertex/AddEdge/BulkAdd at the gdbi level contain only valid elements (every caller validates first: server/api.go, util/insert.go); single invalid elements must be rejected",
			"timestamp: must change after a successful call that changed the graph, must not change for other graphs or across reads; calls that failed or changed nothing are not judged at this level",
		},
	})
	gripx.Cleanup()
	os.Exit(code)
}

type Case struct {
	Driver string    `json:"driver"`
	Ops    []hist.Op `json:"ops"`
}

var caseCount int

// runHistory applies the history step by step on the shared Badger store.
func runHistory(t pbt.TB, c Case) {
	pbt.Case(t)
	// no cleanup deletes: tombstones make every later seek slower; the store is
	// recycled every few dozen cases instead
	caseCount++
	if caseCount%40 == 0 {
		gripx.Recycle(c.Driver)
	}
	res := histrun.Run(t, c, c.Ops, &histrun.Env{DB: gripx.DB(c.Driver)})
	if res.SawEdge && res.SawShape {
		pbt.Nontrivial(t, histText(c.Ops))
	}
}

func histText(ops []hist.Op) string { return histrun.Text(ops) }

func TestReplay(t *testing.T) {
	cf, ok := pbt.ReplayFile()
	if !ok {
		t.Skip("no replay file")
	}
	var c Case
	if err := json.Unmarshal(cf.Case, &c); err != nil {
		t.Fatal(err)
	}
	runHistory(t, c)
}

func TestRandomHistories(t *testing.T) {
	pbt.Check(t, 800, 30000, func(rt *rapid.T) {
		c := Case{Driver: "badger", Ops: hist.GenHistory(rt, 30, true)}
		pbt.Current(rt, c)
		if pbt.WantSample(rt) {
			pbt.Sample(rt, histText(c.Ops))
		}
		runHistory(rt, c)
	})
}

// alphabet of the exhaustive single-graph enumeration
func alphabet() []hist.Op {
	v := func(id, label string, data map[string]interface{}) hist.Op {
		return hist.Op{Kind: "addVertex", Graph: "ga", Elems: []*model.Element{{ID: id, Label: label, Data: data}}}
	}
	e := func(id, label, from, to string) hist.Op {
		return hist.Op{Kind: "addEdge", Graph: "ga", Elems: []*model.Element{{ID: id, Edge: true, Label: label, From: from, To: to, Data: map[string]interface{}{}}}}
	}
	return []hist.Op{
		v("v0", "A", map[string]interface{}{"k": 1.0}),
		v("v0", "B", map[string]interface{}{}),
		v("v1", "A", map[string]interface{}{}),
		e("e0", "x", "v0", "v1"),
		e("e0", "y", "v0", "v1"),
		e("e0", "x", "v1", "v0"),
		e("e1", "x", "v0", "v0"),
		{Kind: "delVertex", Graph: "ga", ID: "v0"},
		{Kind: "delEdge", Graph: "ga", ID: "e0"},
		{Kind: "bulkAdd", Graph: "ga", Elems: []*model.Element{{ID: "v1", Label: "C", Data: map[string]interface{}{}}, {ID: "e1", Edge: true, Label: "y", From: "v1", To: "v0", Data: map[string]interface{}{}}}},
		{Kind: "deleteGraph", Graph: "ga"},
		{Kind: "addGraph", Graph: "ga"},
	}
}

func TestExhaustiveHistories(t *testing.T) {
	if _, ok := pbt.ReplayFile(); ok {
		t.Skip("replay mode")
	}
	depth := pbt.Pick(3, 4)
	alpha := alphabet()
	i := 0
	var rec func(prefix []hist.Op, left int)
	rec = func(prefix []hist.Op, left int) {
		if left == 0 {
			i++
			if pbt.ShardOwns(i) {
				c := Case{Driver: "badger", Ops: append([]hist.Op{{Kind: "addGraph", Graph: "ga"}}, prefix...)}
				if pbt.WantSample(t) {
					pbt.Sample(t, histText(c.Ops))
				}
				runHistory(t, c)
			}
			return
		}
		for _, op := range alpha {
			rec(append(append([]hist.Op{}, prefix...), op), left-1)
		}
	}
	// full-length sequences contain every shorter one as a prefix (observed after every step)
	rec(nil, depth)
	pbt.Exhaustive(t)
}

var _ = sort.Strings
var _ gdbi.GraphDB
