// Package c17: concurrent clients cannot corrupt or crash the server.
// Built with -race (plan.json); the live server runs in a worker subprocess.
package c17

import (
	"context"
	"encoding/json"
	"fmt"
	"io"
	"os"
	"path/filepath"
	"regexp"
	"sort"
	"strings"
	"sync"
	"testing"
	"time"

	"github.com/bmeg/grip/gripql"
	"google.golang.org/protobuf/types/known/structpb"
	"pgregory.net/rapid"
	"verif/internal/live"
	"verif/internal/pbt"
	"verif/internal/worker"
)

func TestMain(m *testing.M) {
	if worker.IsChild() {
		os.Exit(m.Run())
	}
	code := pbt.Main(m, pbt.Meta{
		Property: "C17",
		Level:    "exploration",
		Rule: "2-6 client sessions of generated operation lists (vertex/edge upserts and deletes on disjoint and overlapping ids, BulkAdd streams, traversals, AddGraph/DeleteGraph of per-session graphs, AddSchema/GetSchema, ListGraphs/ListLabels/GetTimestamp, job submit/poll/view/delete) run concurrently (start barrier, each case repeated) against one live GripServer in a worker subprocess built with the Go race detector. Oracle: no race report whose both stacks are in request handling (reports with a side in GripServer.Serve itself = bootstrap/shutdown are counted out of scope), worker alive, final graph equals the model (union for disjoint ids; for overlapping vertex upserts the last write of some client), and every vertex a reader saw carries a value some client wrote. " +
			"Non-trivial: >=2 sessions with >=1 write each and >=1 shared-state call (AddGraph/DeleteGraph/AddSchema/GetSchema/Submit/GetJob); distinct = case text.",
		Assumptions: []string{
			"interleavings are sampled; absence of a report is not absence of races",
			"structural operations (deletes, graph drops) are generated on disjoint id sets only, so the expected final state is unique; overlapping writes are vertex upserts judged per key",
			"race reports are de-duplicated by the unordered pair of innermost bmeg/grip functions of the two stacks",
		},
	})
	stopWorker()
	os.Exit(code)
}

func TestWorkerChild(t *testing.T) {
	if !worker.IsChild() {
		t.Skip("not a worker child")
	}
	worker.ChildMain(func(srv *live.Server, raw json.RawMessage) (interface{}, error) { return "ok", nil })
}

// ---------------------------------------------------------------------------------

type Op struct {
	Kind  string  `json:"kind"` // putV putE delV delE bulk query count addGraph delGraph addSchema getSchema listGraphs listLabels timestamp submit getJob viewJob delJob
	Graph string  `json:"graph,omitempty"`
	ID    string  `json:"id,omitempty"`
	From  string  `json:"from,omitempty"`
	To    string  `json:"to,omitempty"`
	Val   float64 `json:"val,omitempty"`
	N     int     `json:"n,omitempty"`
}

type Case struct {
	Sessions [][]Op `json:"sessions"`
	Repeat   int    `json:"repeat"`
	// Hubs > 0: before the sessions start, vertices hub-0..hub-(Hubs-1) are stored, each
	// with Spokes edges sp-<h>-<i> (hub -> leaf-<h>-<i>). They belong to no session: the ops
	// hubDel / spokesDel / spokesMove of different sessions collide on them.
	Hubs   int `json:"hubs,omitempty"`
	Spokes int `json:"spokes,omitempty"`
}

var (
	wMu      sync.Mutex
	w        *worker.Worker
	raceSeen = map[string]int64{} // race log file -> bytes already consumed
	graphSeq int
)

func getWorker(t pbt.TB) *worker.Worker {
	wMu.Lock()
	defer wMu.Unlock()
	if w != nil && w.Alive() {
		return w
	}
	if w != nil {
		w.Stop()
	}
	nw, err := worker.Start()
	if err != nil {
		t.Fatalf("INFRA: %v", err)
	}
	w = nw
	return w
}

func stopWorker() {
	wMu.Lock()
	defer wMu.Unlock()
	if w != nil {
		w.Stop()
		w = nil
	}
}

var (
	raceBlock = regexp.MustCompile(`(?s)WARNING: DATA RACE\n(.*?)\n==================`)
	frameRe   = regexp.MustCompile(`(?m)^\s+(github\.com/bmeg/grip/[^\s(]+(?:\([^)]*\))?[^\s(]*)\(`)
)

// newRaces reads what the race detector logged since the last call.
func newRaces() (pairs map[string]string, outOfScope int) {
	pairs = map[string]string{}
	dir := os.Getenv("VERIF_SCRATCH")
	files, _ := filepath.Glob(filepath.Join(dir, "race.*"))
	for _, f := range files {
		b, err := os.ReadFile(f)
		if err != nil {
			continue
		}
		off := raceSeen[f]
		if int64(len(b)) <= off {
			continue
		}
		text := string(b[off:])
		// only consume complete blocks
		last := strings.LastIndex(text, "==================\n")
		if last < 0 {
			continue
		}
		raceSeen[f] = off + int64(last+len("==================\n"))
		for _, m := range raceBlock.FindAllStringSubmatch(text[:last+19], -1) {
			block := m[1]
			// the two access stacks are the first two paragraphs
			paras := strings.Split(block, "\n\n")
			var tops []string
			scope := true
			for _, p := range paras[:min(2, len(paras))] {
				fr := frameRe.FindAllStringSubmatch(p, -1)
				if len(fr) == 0 {
					tops = append(tops, "non-grip")
					continue
				}
				tops = append(tops, strings.TrimPrefix(fr[0][1], "github.com/bmeg/grip/"))
				// innermost server.* frame
				for _, x := range fr {
					if strings.Contains(x[1], "/server.") {
						if strings.HasSuffix(x[1], "(*GripServer).Serve") || strings.Contains(x[1], "(*GripServer).Serve.func") {
							scope = false
						}
						break
					}
				}
			}
			if !scope {
				outOfScope++
				continue
			}
			sort.Strings(tops)
			key := strings.Join(tops, " <-> ")
			if _, ok := pairs[key]; !ok {
				if len(block) > 2500 {
					block = block[:2500]
				}
				pairs[key] = block
			}
		}
	}
	return pairs, outOfScope
}

func vtx(id string, val float64, session int) *gripql.Vertex {
	d, _ := structpb.NewStruct(map[string]interface{}{"val": val, "by": float64(session)})
	return &gripql.Vertex{Gid: id, Label: "L", Data: d}
}

type seen struct {
	id  string
	val float64
	by  float64
}

func runCase(t pbt.TB, c Case) {
	pbt.Case(t)
	wk := getWorker(t)
	newRaces() // drop reports that belong to start-up
	ctx := context.Background()
	shared := false
	writers := 0
	for _, s := range c.Sessions {
		wr := false
		for _, op := range s {
			switch op.Kind {
			case "churn", "hubDel", "spokesDel", "spokesMove": // contend for the shared label index / one vertex's adjacency
				wr, shared = true, true
			case "putV", "putE", "delV", "delE", "bulk":
				wr = true
			case "addGraph", "delGraph", "addSchema", "getSchema", "submit", "getJob", "addSchemaOwn", "getSchemaOwn", "addIndex", "delIndex", "listJobs", "searchJobs", "resumeJob":
				shared = true
			}
		}
		if wr {
			writers++
		}
	}
	if writers >= 2 && shared {
		b, _ := json.Marshal(c.Sessions)
		pbt.Nontrivial(t, string(b))
	}
	for rep := 0; rep < max(1, c.Repeat); rep++ {
		graphSeq++
		gname := fmt.Sprintf("shared%d", graphSeq)
		if _, err := wk.Srv.Edit.AddGraph(ctx, &gripql.GraphID{Graph: gname}); err != nil {
			t.Fatalf("INFRA: AddGraph: %v", err)
		}
		// model of acknowledged vertex writes: id -> set of values written, per session the last one
		type write struct {
			val     float64
			session int
			deleted bool
		}
		var mu sync.Mutex
		lastBySession := map[string]map[int]write{}
		written := map[string]map[float64]bool{}
		// ids with a write whose outcome is unknown (the call returned an error, e.g. its
		// deadline passed on a loaded machine): it may or may not have been applied, so
		// the final value of such an id is not judged
		uncertain := map[string]bool{}
		var observed []seen
		start := make(chan struct{})
		var wg sync.WaitGroup
		for si, ops := range c.Sessions {
			wg.Add(1)
			go func(si int, ops []Op) {
				defer wg.Done()
				<-start
				own := fmt.Sprintf("%s-own%d", gname, si)
				jobs := []string{}
				for _, op := range ops {
					g := gname
					cctx, cancel := context.WithTimeout(ctx, 30*time.Second)
					switch op.Kind {
					case "putV":
						mu.Lock()
						if written[op.ID] == nil {
							written[op.ID] = map[float64]bool{}
						}
						written[op.ID][op.Val] = true
						mu.Unlock()
						_, err := wk.Srv.Edit.AddVertex(cctx, &gripql.GraphElement{Graph: g, Vertex: vtx(op.ID, op.Val, si)})
						mu.Lock()
						if err == nil {
							if lastBySession[op.ID] == nil {
								lastBySession[op.ID] = map[int]write{}
							}
							lastBySession[op.ID][si] = write{val: op.Val, session: si}
						} else {
							uncertain[op.ID] = true
						}
						mu.Unlock()
					case "delV":
						// only a session's private ids are deleted
						id := fmt.Sprintf("p%d-%s", si, op.ID)
						_, err := wk.Srv.Edit.DeleteVertex(cctx, &gripql.ElementID{Graph: g, Id: id})
						mu.Lock()
						if err == nil {
							if lastBySession[id] == nil {
								lastBySession[id] = map[int]write{}
							}
							lastBySession[id][si] = write{deleted: true, session: si}
						} else if !strings.Contains(err.Error(), "not found") {
							// refused or cut short: whether it was applied is not known
							uncertain[id] = true
						}
						mu.Unlock()
					case "churn": // op.N private vertices of the shared label, each written and deleted at once
						for i := 0; i < op.N; i++ {
							id := fmt.Sprintf("p%d-%s%d", si, op.ID, i)
							mu.Lock()
							if written[id] == nil {
								written[id] = map[float64]bool{}
							}
							written[id][op.Val] = true
							mu.Unlock()
							c2, cancel2 := context.WithTimeout(ctx, 30*time.Second)
							_, aerr := wk.Srv.Edit.AddVertex(c2, &gripql.GraphElement{Graph: g, Vertex: vtx(id, op.Val, si)})
							_, derr := wk.Srv.Edit.DeleteVertex(c2, &gripql.ElementID{Graph: g, Id: id})
							cancel2()
							mu.Lock()
							switch {
							case derr == nil:
								lastBySession[id] = map[int]write{si: {deleted: true, session: si}}
							case aerr == nil && strings.Contains(derr.Error(), "Conflict"):
								// the delete was refused and says so: the acknowledged write stands
								lastBySession[id] = map[int]write{si: {val: op.Val, session: si}}
							default:
								uncertain[id] = true
							}
							mu.Unlock()
						}
					case "putP": // private vertex
						id := fmt.Sprintf("p%d-%s", si, op.ID)
						mu.Lock()
						if written[id] == nil {
							written[id] = map[float64]bool{}
						}
						written[id][op.Val] = true
						mu.Unlock()
						_, err := wk.Srv.Edit.AddVertex(cctx, &gripql.GraphElement{Graph: g, Vertex: vtx(id, op.Val, si)})
						mu.Lock()
						if err == nil {
							if lastBySession[id] == nil {
								lastBySession[id] = map[int]write{}
							}
							lastBySession[id][si] = write{val: op.Val, session: si}
						} else {
							uncertain[id] = true
						}
						mu.Unlock()
					case "putE":
						d, _ := structpb.NewStruct(map[string]interface{}{"val": op.Val})
						wk.Srv.Edit.AddEdge(cctx, &gripql.GraphElement{Graph: g, Edge: &gripql.Edge{Gid: fmt.Sprintf("pe%d-%s", si, op.ID), Label: "E", From: op.From, To: op.To, Data: d}})
					case "delE":
						wk.Srv.Edit.DeleteEdge(cctx, &gripql.ElementID{Graph: g, Id: fmt.Sprintf("pe%d-%s", si, op.ID)})
					case "hubDel": // a vertex whose many edges other sessions are removing or moving right now
						wk.Srv.Edit.DeleteVertex(cctx, &gripql.ElementID{Graph: g, Id: fmt.Sprintf("hub-%d", op.N)})
					case "spokesDel":
						for i := 0; i < c.Spokes; i++ {
							c2, cancel2 := context.WithTimeout(ctx, 30*time.Second)
							wk.Srv.Edit.DeleteEdge(c2, &gripql.ElementID{Graph: g, Id: fmt.Sprintf("sp-%d-%d", op.N, i)})
							cancel2()
						}
					case "spokesMove":
						for i := c.Spokes - 1; i >= 0; i-- {
							c2, cancel2 := context.WithTimeout(ctx, 30*time.Second)
							wk.Srv.Edit.AddEdge(c2, &gripql.GraphElement{Graph: g, Edge: &gripql.Edge{Gid: fmt.Sprintf("sp-%d-%d", op.N, i), Label: "S2", From: fmt.Sprintf("leaf-%d-%d", op.N, i), To: "elsewhere"}})
							cancel2()
						}
					case "hubRead":
						if s, err := wk.Srv.Query.Traversal(cctx, &gripql.GraphQuery{Graph: g, Query: gripql.NewQuery().V(fmt.Sprintf("hub-%d", op.N)).OutE().Statements}); err == nil {
							for {
								if _, err := s.Recv(); err != nil {
									break
								}
							}
						}
					case "bulk":
						if s, err := wk.Srv.Edit.BulkAdd(cctx); err == nil {
							ids := []string{}
							sendErr := false
							for i := 0; i < op.N; i++ {
								id := fmt.Sprintf("b%d-%s-%d", si, op.ID, i)
								ids = append(ids, id)
								mu.Lock()
								if written[id] == nil {
									written[id] = map[float64]bool{}
								}
								written[id][op.Val] = true
								mu.Unlock()
								if s.Send(&gripql.GraphElement{Graph: g, Vertex: vtx(id, op.Val, si)}) != nil {
									sendErr = true
								}
							}
							res, cerr := s.CloseAndRecv()
							acked := cerr == nil && !sendErr && res != nil && int(res.InsertCount) == op.N && res.ErrorCount == 0
							mu.Lock()
							for _, id := range ids {
								if acked {
									if lastBySession[id] == nil {
										lastBySession[id] = map[int]write{}
									}
									lastBySession[id][si] = write{val: op.Val, session: si}
								} else {
									uncertain[id] = true
								}
							}
							mu.Unlock()
						}
					case "query":
						q := gripql.NewQuery().V()
						if s, err := wk.Srv.Query.Traversal(cctx, &gripql.GraphQuery{Graph: g, Query: q.Statements}); err == nil {
							for {
								r, err := s.Recv()
								if err != nil {
									break
								}
								if v := r.GetVertex(); v != nil {
									m := v.Data.AsMap()
									val, _ := m["val"].(float64)
									by, _ := m["by"].(float64)
									mu.Lock()
									observed = append(observed, seen{v.Gid, val, by})
									mu.Unlock()
								}
							}
						}
					case "count":
						q := gripql.NewQuery().V().Out().Count()
						if s, err := wk.Srv.Query.Traversal(cctx, &gripql.GraphQuery{Graph: g, Query: q.Statements}); err == nil {
							for {
								if _, err := s.Recv(); err != nil {
									break
								}
							}
						}
					case "addGraph":
						wk.Srv.Edit.AddGraph(cctx, &gripql.GraphID{Graph: own})
					case "delGraph":
						wk.Srv.Edit.DeleteGraph(cctx, &gripql.GraphID{Graph: own})
					case "addSchema":
						wk.Srv.Edit.AddSchema(cctx, &gripql.Graph{Graph: g, Vertices: []*gripql.Vertex{{Gid: "L", Label: "Vertex"}}})
					case "getSchema":
						wk.Srv.Query.GetSchema(cctx, &gripql.GraphID{Graph: g})
					case "addSchemaOwn": // a schema on the session's private graph: dropped with it by delGraph
						wk.Srv.Edit.AddSchema(cctx, &gripql.Graph{Graph: own, Vertices: []*gripql.Vertex{{Gid: "L", Label: "Vertex"}}})
					case "getSchemaOwn":
						wk.Srv.Query.GetSchema(cctx, &gripql.GraphID{Graph: own})
					case "getMapping":
						wk.Srv.Query.GetMapping(cctx, &gripql.GraphID{Graph: g})
					case "getV":
						wk.Srv.Query.GetVertex(cctx, &gripql.ElementID{Graph: g, Id: op.ID})
					case "getE":
						wk.Srv.Query.GetEdge(cctx, &gripql.ElementID{Graph: g, Id: fmt.Sprintf("pe%d-%s", int(op.Val)%6, op.ID)})
					case "addIndex":
						wk.Srv.Edit.AddIndex(cctx, &gripql.IndexID{Graph: g, Label: "L", Field: []string{"val", "by"}[int(op.Val)%2]})
					case "delIndex":
						wk.Srv.Edit.DeleteIndex(cctx, &gripql.IndexID{Graph: g, Label: "L", Field: []string{"val", "by"}[int(op.Val)%2]})
					case "listIndices":
						wk.Srv.Query.ListIndices(cctx, &gripql.GraphID{Graph: g})
					case "listTables":
						if s, err := wk.Srv.Query.ListTables(cctx, &gripql.Empty{}); err == nil {
							for {
								if _, err := s.Recv(); err != nil {
									break
								}
							}
						}
					case "listJobs":
						if s, err := wk.Srv.Job.ListJobs(cctx, &gripql.GraphID{Graph: g}); err == nil {
							for {
								if _, err := s.Recv(); err != nil {
									break
								}
							}
						}
					case "searchJobs":
						if s, err := wk.Srv.Job.SearchJobs(cctx, &gripql.GraphQuery{Graph: g, Query: gripql.NewQuery().V().Statements}); err == nil {
							for {
								if _, err := s.Recv(); err != nil {
									break
								}
							}
						}
					case "resumeJob":
						for _, j := range jobs {
							if s, err := wk.Srv.Job.ResumeJob(cctx, &gripql.ExtendQuery{Graph: g, SrcId: j, Query: gripql.NewQuery().Count().Statements}); err == nil {
								for {
									if _, err := s.Recv(); err != nil {
										break
									}
								}
							}
						}
					case "listGraphs":
						wk.Srv.Query.ListGraphs(cctx, &gripql.Empty{})
					case "listLabels":
						wk.Srv.Query.ListLabels(cctx, &gripql.GraphID{Graph: g})
					case "timestamp":
						wk.Srv.Query.GetTimestamp(cctx, &gripql.GraphID{Graph: g})
					case "submit":
						if j, err := wk.Srv.Job.Submit(cctx, &gripql.GraphQuery{Graph: g, Query: gripql.NewQuery().V().Statements}); err == nil {
							jobs = append(jobs, j.Id)
						}
					case "getJob":
						for _, j := range jobs {
							wk.Srv.Job.GetJob(cctx, &gripql.QueryJob{Graph: g, Id: j})
						}
					case "viewJob":
						for _, j := range jobs {
							if s, err := wk.Srv.Job.ViewJob(cctx, &gripql.QueryJob{Graph: g, Id: j}); err == nil {
								for {
									if _, err := s.Recv(); err != nil {
										break
									}
								}
							}
						}
					case "delJob":
						for _, j := range jobs {
							wk.Srv.Job.DeleteJob(cctx, &gripql.QueryJob{Graph: g, Id: j})
						}
						jobs = nil
					}
					cancel()
				}
			}(si, ops)
		}
		if c.Hubs > 0 {
			sctx, scancel := context.WithTimeout(ctx, 120*time.Second)
			if bs, err := wk.Srv.Edit.BulkAdd(sctx); err == nil {
				for h := 0; h < c.Hubs; h++ {
					bs.Send(&gripql.GraphElement{Graph: gname, Vertex: &gripql.Vertex{Gid: fmt.Sprintf("hub-%d", h), Label: "H"}})
					for i := 0; i < c.Spokes; i++ {
						bs.Send(&gripql.GraphElement{Graph: gname, Edge: &gripql.Edge{Gid: fmt.Sprintf("sp-%d-%d", h, i), Label: "S", From: fmt.Sprintf("hub-%d", h), To: fmt.Sprintf("leaf-%d-%d", h, i)}})
					}
				}
				if _, err := bs.CloseAndRecv(); err != nil {
					scancel()
					t.Fatalf("INFRA: hub setup: %v", err)
				}
			}
			scancel()
		}
		close(start)
		done := make(chan struct{})
		go func() { wg.Wait(); close(done) }()
		select {
		case <-done:
		case <-time.After(120 * time.Second):
			pbt.Inconclusive(t, "sessions did not finish within the budget")
			stopWorker()
			return
		}
		// (2) liveness
		if !wk.Alive() || func() bool {
			lctx, lc := context.WithTimeout(ctx, 10*time.Second)
			defer lc()
			_, err := wk.Srv.Query.ListGraphs(lctx, &gripql.Empty{})
			return err != nil && wk.WaitDead(3*time.Second)
		}() {
			msg, frame := wk.CrashInfo()
			stderr := wk.Stderr(1500)
			stopWorker()
			pbt.Discrepancy(t, c, "crash:"+frame+"|"+strings.SplitN(msg, "\n", 2)[0], "the server died under concurrent sessions: %s\n%s", msg, stderr)
			return
		}
		// (3) final state of the shared graph
		final := map[string]float64{}
		if s, err := wk.Srv.Query.Traversal(ctx, &gripql.GraphQuery{Graph: gname, Query: gripql.NewQuery().V().Statements}); err == nil {
			for {
				r, err := s.Recv()
				if err == io.EOF || err != nil {
					break
				}
				if v := r.GetVertex(); v != nil {
					val, _ := v.Data.AsMap()["val"].(float64)
					final[v.Gid] = val
				}
			}
		}
		for id, bySession := range lastBySession {
			if uncertain[id] {
				pbt.Class(t, "final-state:id-with-unacknowledged-write-not-judged")
				continue
			}
			got, present := final[id]
			okPresent, okAbsent := false, false
			for _, wr := range bySession {
				if wr.deleted {
					okAbsent = true
				} else if present && wr.val == got {
					okPresent = true
				}
			}
			if present && !okPresent {
				vals := []string{}
				for s, wr := range bySession {
					vals = append(vals, fmt.Sprintf("session %d last wrote %v (deleted=%v)", s, wr.val, wr.deleted))
				}
				sort.Strings(vals)
				if !pbt.Discrepancy(t, c, "final-state:value-nobody-wrote-last", "vertex %s ends with val=%v, which is not the last acknowledged write of any session: %s", id, got, strings.Join(vals, "; ")) {
					return
				}
			}
			if !present && !okAbsent {
				if !pbt.Discrepancy(t, c, "final-state:acknowledged-write-lost", "vertex %s was written and acknowledged (never deleted) but is absent after all calls returned", id) {
					return
				}
			}
		}
		// (4) readers only observe what some client wrote
		for _, o := range observed {
			if !written[o.id][o.val] {
				if !pbt.Discrepancy(t, c, "read:value-nobody-wrote", "a reader saw vertex %s with val=%v that no client ever wrote", o.id, o.val) {
					return
				}
			}
		}
		wk.Srv.Edit.DeleteGraph(ctx, &gripql.GraphID{Graph: gname})
		// (1) race reports
		time.Sleep(50 * time.Millisecond)
		pairs, oos := newRaces()
		for i := 0; i < oos; i++ {
			pbt.Class(t, "race:out_of_scope_startup_shutdown")
		}
		keys := make([]string, 0, len(pairs))
		for k := range pairs {
			keys = append(keys, k)
		}
		sort.Strings(keys)
		for _, k := range keys {
			if !pbt.Discrepancy(t, c, "race:"+k, "data race between concurrent requests: %s\n%s", k, pairs[k]) {
				continue
			}
		}
	}
}

func TestReplay(t *testing.T) {
	cf, ok := pbt.ReplayFile()
	if !ok {
		t.Skip("no replay file")
	}
	var c Case
	if err := json.Unmarshal(cf.Case, &c); err != nil {
		t.Fatal(err)
	}
	if c.Repeat < 10 {
		c.Repeat = 10
	}
	runCase(t, c)
}

func genOp(rt *rapid.T, lbl string) Op {
	k := rapid.SampledFrom([]string{"putV", "putV", "putV", "putP", "putP", "delV", "putE", "delE", "bulk", "query", "query", "count",
		"addGraph", "delGraph", "addSchema", "getSchema", "listGraphs", "listLabels", "timestamp", "submit", "getJob", "viewJob", "delJob",
		"addGraph", "delGraph", "addSchemaOwn", "addSchemaOwn", "getSchemaOwn", "getMapping", "getV", "getE", "addIndex", "delIndex", "listIndices", "listTables",
		"listJobs", "searchJobs", "resumeJob"}).Draw(rt, lbl+".kind")
	op := Op{Kind: k}
	op.ID = rapid.SampledFrom([]string{"a", "b", "c"}).Draw(rt, lbl+".id")
	op.Val = float64(rapid.IntRange(1, 1000).Draw(rt, lbl+".val"))
	switch k {
	case "putE":
		op.From = rapid.SampledFrom([]string{"a", "b", "c"}).Draw(rt, lbl+".from")
		op.To = rapid.SampledFrom([]string{"a", "b", "c"}).Draw(rt, lbl+".to")
	case "bulk":
		op.N = rapid.IntRange(1, 30).Draw(rt, lbl+".n")
	}
	return op
}

var cycles = [][]string{
	{"addGraph", "addSchemaOwn", "getSchemaOwn", "delGraph"},
	{"submit", "getJob", "listJobs", "viewJob", "resumeJob", "searchJobs", "delJob"},
	{"addIndex", "putV", "listIndices", "delIndex"},
}

// TestContention: every session writes and deletes many private vertices of the one shared
// label as fast as it can, so that the storage transactions of different clients overlap
// all the time (each touches the shared label index). Whatever the store does about the
// overlap, an acknowledged delete must be in the final graph and so must an acknowledged
// write whose delete was refused.
func TestContention(t *testing.T) {
	pbt.Check(t, 8, 160, func(rt *rapid.T) {
		ns := rapid.IntRange(4, 8).Draw(rt, "sessions")
		c := Case{Repeat: 1}
		for s := 0; s < ns; s++ {
			ops := []Op{{Kind: "churn", ID: "c", Val: float64(rapid.IntRange(1, 1000).Draw(rt, fmt.Sprintf("s%d.val", s))), N: rapid.IntRange(60, 260).Draw(rt, fmt.Sprintf("s%d.n", s))}}
			if rapid.Bool().Draw(rt, fmt.Sprintf("s%d.reads", s)) {
				ops = append(ops, Op{Kind: "query"}, Op{Kind: "listLabels"})
			}
			c.Sessions = append(c.Sessions, ops)
		}
		pbt.Class(rt, "contention-burst")
		if pbt.WantSample(rt) {
			pbt.Sample(rt, c)
		}
		runCase(rt, c)
	})
}

// TestStructuralContention: sessions delete a vertex while other sessions delete or move
// the edges incident to it (and a reader walks them). There is no unique final state for
// these elements and none is judged; the server must survive, race-free.
func TestStructuralContention(t *testing.T) {
	pbt.Check(t, 8, 160, func(rt *rapid.T) {
		c := Case{Repeat: 1, Hubs: rapid.IntRange(1, 3).Draw(rt, "hubs"), Spokes: rapid.SampledFrom([]int{40, 150, 400}).Draw(rt, "spokes")}
		ns := rapid.IntRange(2, 6).Draw(rt, "sessions")
		for s := 0; s < ns; s++ {
			n := rapid.IntRange(1, 3).Draw(rt, fmt.Sprintf("s%d.len", s))
			var ops []Op
			for i := 0; i < n; i++ {
				k := rapid.SampledFrom([]string{"hubDel", "hubDel", "spokesDel", "spokesDel", "spokesMove", "hubRead"}).Draw(rt, fmt.Sprintf("s%d.op%d", s, i))
				if s == 0 && i == 0 {
					k = "hubDel"
				}
				if s == 1 && i == 0 {
					k = "spokesDel"
				}
				ops = append(ops, Op{Kind: k, N: rapid.IntRange(0, c.Hubs-1).Draw(rt, fmt.Sprintf("s%d.hub%d", s, i))})
			}
			c.Sessions = append(c.Sessions, ops)
		}
		pbt.Class(rt, "structural-contention")
		if pbt.WantSample(rt) {
			pbt.Sample(rt, c)
		}
		runCase(rt, c)
	})
}

func TestSessions(t *testing.T) {
	pbt.Check(t, 60, 1500, func(rt *rapid.T) {
		ns := rapid.IntRange(2, 6).Draw(rt, "sessions")
		c := Case{Repeat: pbt.Pick(2, 3)}
		for s := 0; s < ns; s++ {
			n := rapid.IntRange(3, 14).Draw(rt, fmt.Sprintf("s%d.len", s))
			var ops []Op
			for i := 0; i < n; i++ {
				lbl := fmt.Sprintf("s%d.op%d", s, i)
				// one in four steps is a whole life cycle of a shared server resource (a
				// private graph with its schema, a job, an index) rather than a single call:
				// the states that matter (a graph that has a stored schema is dropped, a job is
				// resumed and deleted) need their calls in order
				if cyc := rapid.IntRange(0, 11).Draw(rt, lbl+".cycle"); cyc < len(cycles) {
					for j, k := range cycles[cyc] {
						op := genOp(rt, fmt.Sprintf("%s.%d", lbl, j))
						op.Kind = k
						ops = append(ops, op)
					}
					continue
				}
				ops = append(ops, genOp(rt, lbl))
			}
			c.Sessions = append(c.Sessions, ops)
		}
		if pbt.WantSample(rt) {
			pbt.Sample(rt, c)
		}
		runCase(rt, c)
	})
}
