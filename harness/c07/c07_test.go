// Package c07: traversals terminate for any data volume and stop when cancelled.
package c07

import (
	"context"
	"encoding/json"
	"fmt"
	"os"
	"path/filepath"
	"strings"
	"sync/atomic"
	"testing"
	"time"

	"github.com/bmeg/grip/engine/pipeline"
	"github.com/bmeg/grip/gdbi"
	"pgregory.net/rapid"
	"verif/internal/gripx"
	"verif/internal/memgraph"
	"verif/internal/model"
	"verif/internal/pbt"
	"verif/internal/quiesce"
)

func TestMain(m *testing.M) {
	code := pbt.Main(m, pbt.Meta{
		Property: "C07",
		Level:    "exploration",
		Rule: "traversal shapes (every move kind alone and composed, both/bothE before and after fan-out, count, limit around the capacities, distinct, aggregate(count)) x graph families (star with the hub first/last in key order, bipartite fan, chain) x sizes drawn around every internal capacity found in the code (100 store/query channels, 1000 both/aggregate fan-out channels, 5000 pipeline buffers: c-1, c, c+1, 2c+1, 3c and sums of capacities), on kvgraph/Badger and on the hint-honouring in-memory backend; uncancelled runs must close with the closed-form row count (computed by an O(E) path-count recurrence); cancelled runs (context cancelled after j rows, consumer keeps draining as server.Traversal does) must close; afterwards no bmeg/grip goroutine of the run may remain and the work directory holds no temporary store. A stream that does not close within the budget is a violation only if two goroutine dumps show every grip goroutine blocked with no progress (quiescence), else inconclusive. " +
			"Non-trivial: some intermediate step carries more rows than the smallest internal channel capacity (100); distinct = (backend, family, size, shape, cancel point).",
		Assumptions: []string{
			"liveness is sampled and judged by quiescence: a livelock that keeps a goroutine runnable is reported inconclusive, never as a violation",
			"row order is not asserted; counts come from a path-count recurrence over the generated family",
		},
	})
	gripx.Cleanup()
	os.Exit(code)
}

// Case is one run.
type Case struct {
	Backend string       `json:"backend"` // badger | mem
	Family  string       `json:"family"`  // star | fan | chain
	N       int          `json:"n"`
	M       int          `json:"m,omitempty"`
	HubLast bool         `json:"hubLast,omitempty"`
	Steps   []model.Step `json:"steps"`
	Cancel  int          `json:"cancel"` // cancel the context after this many rows (-1: never)
}

func (c Case) key() string {
	return fmt.Sprintf("%s|%s|%d|%d|%v|%s|%d", c.Backend, c.Family, c.N, c.M, c.HubLast, model.TravString(c.Steps), c.Cancel)
}

// family builds the graph: vertex ids are zero padded so key order is predictable.
func family(c Case) *model.Graph {
	g := &model.Graph{}
	addV := func(id, label string) {
		g.V = append(g.V, &model.Element{ID: id, Label: label, Data: map[string]interface{}{"k": 1.0}})
	}
	addE := func(i int, from, to string) {
		g.E = append(g.E, &model.Element{ID: fmt.Sprintf("e%06d", i), Edge: true, Label: "x", From: from, To: to, Data: map[string]interface{}{}})
	}
	switch c.Family {
	case "star":
		hub := "a-hub"
		if c.HubLast {
			hub = "z-hub"
		}
		addV(hub, "H")
		for i := 0; i < c.N; i++ {
			s := fmt.Sprintf("s%06d", i)
			addV(s, "S")
			addE(i, hub, s)
		}
	case "fan": // N sources x M targets, complete bipartite
		for i := 0; i < c.N; i++ {
			addV(fmt.Sprintf("l%04d", i), "L")
		}
		for j := 0; j < c.M; j++ {
			addV(fmt.Sprintf("r%04d", j), "R")
		}
		k := 0
		for i := 0; i < c.N; i++ {
			for j := 0; j < c.M; j++ {
				addE(k, fmt.Sprintf("l%04d", i), fmt.Sprintf("r%04d", j))
				k++
			}
		}
	case "chain":
		for i := 0; i <= c.N; i++ {
			addV(fmt.Sprintf("c%06d", i), "C")
		}
		for i := 0; i < c.N; i++ {
			addE(i, fmt.Sprintf("c%06d", i), fmt.Sprintf("c%06d", i+1))
		}
	}
	return g
}

// expected computes the number of rows after every step by a path-count recurrence
// (O(E) per step), and the final row count. ok=false: shape not covered.
func expected(g *model.Graph, steps []model.Step) (final int64, maxInter int64, ok bool) {
	vidx := map[string]int{}
	for i, v := range g.V {
		vidx[v.ID] = i
	}
	var cv []int64 // per vertex path counts (when on vertices)
	var ce []int64 // per edge path counts (when on edges)
	onV := true
	total := func() int64 {
		var s int64
		if onV {
			for _, x := range cv {
				s += x
			}
		} else {
			for _, x := range ce {
				s += x
			}
		}
		return s
	}
	rows := int64(-1) // after a terminal: explicit row count
	for _, s := range steps {
		if rows >= 0 {
			switch s.Op {
			case "count":
				rows = 1
			case "limit":
				if rows > s.N {
					rows = s.N
				}
			default:
				return 0, 0, false
			}
			continue
		}
		switch s.Op {
		case "V":
			cv = make([]int64, len(g.V))
			for i := range cv {
				cv[i] = 1
			}
			onV = true
		case "E":
			ce = make([]int64, len(g.E))
			for i := range ce {
				ce[i] = 1
			}
			onV = false
		case "out", "in", "both":
			nv := make([]int64, len(g.V))
			if onV {
				for _, e := range g.E {
					f, fo := vidx[e.From]
					t, to := vidx[e.To]
					if !fo || !to {
						continue
					}
					if s.Op != "in" {
						nv[t] += cv[f]
					}
					if s.Op != "out" {
						nv[f] += cv[t]
					}
				}
			} else {
				for i, e := range g.E {
					if t, to := vidx[e.To]; to && s.Op != "in" {
						nv[t] += ce[i]
					}
					if f, fo := vidx[e.From]; fo && s.Op != "out" {
						nv[f] += ce[i]
					}
				}
			}
			cv, onV = nv, true
		case "outE", "inE", "bothE":
			if !onV {
				return 0, 0, false
			}
			ne := make([]int64, len(g.E))
			for i, e := range g.E {
				if f, fo := vidx[e.From]; fo && s.Op != "inE" {
					ne[i] += cv[f]
				}
				if t, to := vidx[e.To]; to && s.Op != "outE" {
					ne[i] += cv[t]
				}
			}
			ce, onV = ne, false
		case "hasLabel":
			if onV {
				for i, v := range g.V {
					if v.Label != s.Args[0] {
						cv[i] = 0
					}
				}
			} else {
				for i, e := range g.E {
					if e.Label != s.Args[0] {
						ce[i] = 0
					}
				}
			}
		case "distinct":
			if len(s.Args) > 0 {
				return 0, 0, false
			}
			if onV {
				for i := range cv {
					if cv[i] > 1 {
						cv[i] = 1
					}
				}
			} else {
				for i := range ce {
					if ce[i] > 1 {
						ce[i] = 1
					}
				}
			}
		case "count":
			rows = 1
		case "aggregate": // a count aggregation -> one row; term(_label) -> one row per label present
			rows = 0
			for _, a := range s.Aggs {
				switch {
				case a.Kind == "count":
					rows++
				case a.Kind == "term" && a.Field == "_label":
					labels := map[string]bool{}
					if onV {
						for i, v := range g.V {
							if cv[i] > 0 {
								labels[v.Label] = true
							}
						}
					} else {
						for i, e := range g.E {
							if ce[i] > 0 {
								labels[e.Label] = true
							}
						}
					}
					rows += int64(len(labels))
				default:
					return 0, 0, false
				}
			}
			if t := total(); t > maxInter {
				maxInter = t
			}
		case "limit":
			t := total()
			if t > s.N {
				t = s.N
			}
			rows = t
		case "as":
		default:
			return 0, 0, false
		}
		if rows < 0 {
			if t := total(); t > maxInter {
				maxInter = t
			}
		}
	}
	if rows >= 0 {
		return rows, maxInter, true
	}
	return total(), maxInter, true
}

type graphKey struct {
	backend, family string
	n, m            int
	hubLast         bool
}

var graphs = map[graphKey]gdbi.GraphInterface{}
var models = map[graphKey]*model.Graph{}

func open(t pbt.TB, c Case) (gdbi.GraphInterface, *model.Graph) {
	k := graphKey{c.Backend, c.Family, c.N, c.M, c.HubLast}
	if gi, ok := graphs[k]; ok {
		return gi, models[k]
	}
	g := family(c)
	var gi gdbi.GraphInterface
	if c.Backend == "mem" {
		gi = memgraph.New(g)
	} else {
		var err error
		gi, err = gripx.Load(gripx.DB("badger"), gripx.FreshName(), g)
		if err != nil {
			t.Fatalf("INFRA: load: %v", err)
		}
	}
	graphs[k], models[k] = gi, g
	return gi, g
}

func shapeSig(steps []model.Step) string {
	ops := make([]string, len(steps))
	for i, s := range steps {
		ops[i] = s.Op
	}
	return strings.Join(ops, ".")
}

func tmpStores(dir string) []string {
	m, _ := filepath.Glob(filepath.Join(dir, "kvTmp*"))
	return m
}

const closeBudget = 45 * time.Second

func runCase(t pbt.TB, c Case) {
	pbt.Case(t)
	gi, g := open(t, c)
	want, maxInter, ok := expected(g, c.Steps)
	if !ok {
		t.Fatalf("harness: shape %s not covered by the count recurrence", model.TravString(c.Steps))
	}
	if maxInter > 100 {
		pbt.Nontrivial(t, c.key())
	}
	pbt.Class(t, "family:"+c.Family)
	pbt.Class(t, "backend:"+c.Backend)
	if c.Cancel >= 0 {
		pbt.Class(t, "cancelled")
	}
	pipe, err := gi.Compiler().Compile(model.Protos(c.Steps), nil)
	if err != nil {
		pbt.Discrepancy(t, c, "compile:"+shapeSig(c.Steps), "%s rejected: %v", model.TravString(c.Steps), err)
		return
	}
	workdir := gripx.WorkDir()
	// the work directory is shared by the cases of a shard: only stores that appear during
	// this case are this case's (an earlier, cancelled case may still be cleaning up)
	storesBefore := map[string]bool{}
	for _, d := range tmpStores(workdir) {
		storesBefore[d] = true
	}
	baseline := quiesce.GripGoroutines()
	ctx, cancel := context.WithCancel(context.Background())
	defer cancel()
	var got int64
	done := make(chan struct{})
	ch := pipeline.Run(ctx, pipe, workdir)
	go func() {
		defer close(done)
		for range ch {
			n := atomic.AddInt64(&got, 1)
			if c.Cancel >= 0 && n == int64(c.Cancel) {
				cancel()
			}
		}
	}()
	if c.Cancel == 0 {
		cancel()
	}
	rep := quiesce.WaitReport(done, func() int64 { return atomic.LoadInt64(&got) }, closeBudget)
	switch rep.Verdict {
	case quiesce.Hang:
		mode := "run"
		if c.Cancel >= 0 {
			mode = "cancel"
		}
		pbt.Discrepancy(t, c, "hang:"+mode+":"+shapeSig(c.Steps), "%s on %s/%s n=%d m=%d (cancel=%d) never closed its result stream after %d rows; all grip goroutines are blocked:\n%s",
			model.TravString(c.Steps), c.Backend, c.Family, c.N, c.M, c.Cancel, atomic.LoadInt64(&got), rep.Stacks())
		return
	case quiesce.Inconclusive:
		pbt.Inconclusive(t, "stream did not close within the budget but the goroutines are not quiescent: "+rep.Reason)
		return
	}
	n := atomic.LoadInt64(&got)
	if c.Cancel < 0 {
		if n != want {
			pbt.Discrepancy(t, c, "count:"+shapeSig(c.Steps), "%s on %s/%s n=%d m=%d returned %d rows, the family's closed form says %d",
				model.TravString(c.Steps), c.Backend, c.Family, c.N, c.M, n, want)
			return
		}
	} else if n > want {
		pbt.Discrepancy(t, c, "count:cancelled-more-than-total:"+shapeSig(c.Steps), "%s cancelled after %d rows returned %d rows, more than the uncancelled total %d", model.TravString(c.Steps), c.Cancel, n, want)
		return
	}
	// release: goroutines and temporary stores
	left, allBlocked := quiesce.Leaks(baseline, 10*time.Second)
	if len(left) > 0 {
		if allBlocked {
			mode := "run"
			if c.Cancel >= 0 {
				mode = "cancel"
			}
			pbt.Discrepancy(t, c, "leak:"+mode+":"+shapeSig(c.Steps), "%s on %s/%s n=%d (cancel=%d): %d grip goroutines remain blocked after the stream closed:\n%s",
				model.TravString(c.Steps), c.Backend, c.Family, c.N, c.Cancel, len(left), quiesce.Render(left, 12))
			return
		}
		pbt.Inconclusive(t, "goroutines still running after the stream closed")
	}
	newStores := func() []string {
		var out []string
		for _, d := range tmpStores(workdir) {
			if !storesBefore[d] {
				out = append(out, d)
			}
		}
		return out
	}
	dirs := newStores()
	for wait := 0; len(dirs) > 0 && wait < 100; wait++ { // Manager.Cleanup may still be removing them
		time.Sleep(100 * time.Millisecond)
		dirs = newStores()
	}
	if len(dirs) > 0 {
		if len(left) > 0 {
			pbt.Inconclusive(t, "temporary stores present while goroutines of the run are still running")
			return
		}
		pbt.Discrepancy(t, c, "tmpstore-left:"+shapeSig(c.Steps), "%s left temporary stores behind: %v", model.TravString(c.Steps), dirs)
	}
}

func TestReplay(t *testing.T) {
	cf, ok := pbt.ReplayFile()
	if !ok {
		t.Skip("no replay file")
	}
	if cf.Test == "TestHistogramMagnitudes" {
		var mc magCase
		if err := json.Unmarshal(cf.Case, &mc); err != nil {
			t.Fatal(err)
		}
		runMag(t, mc)
		return
	}
	var c Case
	if err := json.Unmarshal(cf.Case, &c); err != nil {
		t.Fatal(err)
	}
	runCase(t, c)
}

// shapes: every move kind alone and composed twice, both/bothE before/after fan-out …
func shapes() [][]model.Step {
	S := model.S
	cnt := S("count")
	agg := model.Step{Op: "aggregate", Aggs: []model.Agg{{Name: "c", Kind: "count"}}}
	agg2 := model.Step{Op: "aggregate", Aggs: []model.Agg{{Name: "t", Kind: "term", Field: "_label"}, {Name: "c", Kind: "count"}}}
	agg3 := model.Step{Op: "aggregate", Aggs: []model.Agg{{Name: "c", Kind: "count"}, {Name: "t", Kind: "term", Field: "_label"}, {Name: "c2", Kind: "count"}}}
	out := [][]model.Step{
		{S("V")}, {S("E")}, {S("V"), cnt}, {S("E"), cnt},
		{S("V"), S("out")}, {S("V"), S("in")}, {S("V"), S("both")}, {S("V"), S("outE")}, {S("V"), S("inE")}, {S("V"), S("bothE")},
		{S("V"), S("both"), cnt}, {S("V"), S("bothE"), cnt},
		{S("V"), S("out"), S("in")}, {S("V"), S("in"), S("out")}, {S("V"), S("both"), S("both"), cnt},
		{S("V"), S("outE"), S("out")}, {S("V"), S("inE"), S("in")}, {S("V"), S("bothE"), S("both"), cnt},
		{S("E"), S("out")}, {S("E"), S("in")}, {S("E"), S("both")}, {S("E"), S("both"), S("bothE"), cnt},
		{S("V"), S("hasLabel", "H"), S("out")}, {S("V"), S("hasLabel", "H"), S("both"), S("both")},
		{S("V"), S("hasLabel", "S"), S("in")}, {S("V"), S("hasLabel", "L"), S("out"), S("in"), cnt},
		{S("V"), S("out"), S("distinct")}, {S("V"), S("in"), S("distinct"), cnt}, {S("V"), S("both"), S("distinct")},
		{S("V"), agg}, {S("V"), S("both"), agg}, {S("V"), S("out"), S("in"), agg},
		// several aggregations in one step: each has its own 1000-slot feed
		{S("V"), agg2}, {S("V"), S("both"), agg2}, {S("E"), agg2}, {S("V"), S("bothE"), agg3}, {S("V"), S("out"), S("in"), agg3},
		{S("V"), S("as", "a"), S("both")},
	}
	// several steps that each hold a resource of their own for the whole run (distinct()
	// opens a temporary store): 2, 5, 9 and 12 of them in one traversal
	for _, k := range []int{2, 5, 9, 12} {
		sh := []model.Step{S("V")}
		for i := 0; i < k; i++ {
			if i%3 == 1 {
				sh = append(sh, S("both"))
			}
			sh = append(sh, S("distinct"))
		}
		out = append(out, append(sh, cnt))
	}
	for _, k := range []int64{0, 1, 99, 100, 101, 999, 1001, 4999, 5001} {
		out = append(out, []model.Step{S("V"), {Op: "limit", N: k}}, []model.Step{S("V"), S("both"), {Op: "limit", N: k}}, []model.Step{S("V"), S("out"), S("in"), {Op: "limit", N: k}, cnt})
	}
	return out
}

var sizes = []int{0, 1, 2, 50, 99, 100, 101, 201, 300, 999, 1000, 1001, 1100, 1200, 2001, 2200, 3000, 3300}
var bigSizes = []int{4999, 5000, 5001, 6100, 7200, 10001, 15000}

func genCase(rt *rapid.T) Case {
	c := Case{Backend: rapid.SampledFrom([]string{"badger", "mem"}).Draw(rt, "backend"), Cancel: -1}
	c.Family = rapid.SampledFrom([]string{"star", "star", "fan", "chain"}).Draw(rt, "family")
	pool := sizes
	if pbt.Thorough() && rapid.IntRange(0, 3).Draw(rt, "big") == 0 {
		pool = bigSizes
	}
	switch c.Family {
	case "star":
		c.N = rapid.SampledFrom(pool).Draw(rt, "n")
		c.HubLast = rapid.Bool().Draw(rt, "hubLast")
	case "chain":
		c.N = rapid.SampledFrom(pool).Draw(rt, "n")
	case "fan":
		c.N = rapid.SampledFrom([]int{0, 1, 2, 10, 11, 33, 34, 50, 101}).Draw(rt, "n")
		c.M = rapid.SampledFrom([]int{0, 1, 10, 11, 30, 33, 100, 101}).Draw(rt, "m")
	}
	sh := shapes()
	c.Steps = sh[rapid.IntRange(0, len(sh)-1).Draw(rt, "shape")]
	if rapid.IntRange(0, 3).Draw(rt, "cancelled") == 0 {
		c.Cancel = rapid.SampledFrom([]int{0, 1, 2, 99, 100, 101, 1000, 1001, 5000, 5001, 100000}).Draw(rt, "cancelAfter")
	}
	return c
}

func TestRandom(t *testing.T) {
	pbt.Check(t, 240, 8000, func(rt *rapid.T) {
		c := genCase(rt)
		pbt.Current(rt, c)
		if pbt.WantSample(rt) {
			pbt.Sample(rt, c)
		}
		runCase(rt, c)
	})
}

// TestCancelEveryShape: every traversal shape is stopped early in both ways the
// property names - the client cancels after the first row, and a limit(1) is satisfied -
// on graphs large enough that every internal queue of the shape is full at that moment.
// The stream must close and every goroutine of the run must be released.
func TestCancelEveryShape(t *testing.T) {
	if _, ok := pbt.ReplayFile(); ok {
		t.Skip("replay mode")
	}
	graphs := []Case{
		{Backend: "badger", Family: "star", N: 1300},
		{Backend: "badger", Family: "fan", N: 34, M: 40},
		{Backend: "mem", Family: "star", N: 1300, HubLast: true},
	}
	if pbt.Thorough() {
		graphs = append(graphs, Case{Backend: "badger", Family: "star", N: 6100, HubLast: true}, Case{Backend: "badger", Family: "chain", N: 2200})
	}
	i := 0
	for _, g := range graphs {
		for _, sh := range shapes() {
			last := sh[len(sh)-1]
			if last.Op == "limit" {
				continue
			}
			variants := []Case{}
			c := g
			c.Steps, c.Cancel = sh, 1
			variants = append(variants, c)
			if last.Op != "count" && last.Op != "aggregate" {
				l := g
				l.Steps = append(append([]model.Step{}, sh...), model.Step{Op: "limit", N: 1})
				l.Cancel = -1
				variants = append(variants, l)
			}
			for _, v := range variants {
				i++
				if !pbt.ShardOwns(i) {
					continue
				}
				pbt.Current(t, v)
				if pbt.WantSample(t) {
					pbt.Sample(t, v)
				}
				runCase(t, v)
			}
		}
	}
	pbt.Exhaustive(t)
}
