package c07

import (
	"context"
	"fmt"
	"math"
	"sync/atomic"
	"testing"
	"time"

	"github.com/bmeg/grip/engine/pipeline"
	"verif/internal/gripx"
	"verif/internal/model"
	"verif/internal/pbt"
	"verif/internal/quiesce"
)

// magCase: a histogram over a handful of stored numbers whose magnitude is so large that
// adding the interval does not change them. The graph is finite (<= 4 vertices), so the
// result stream has to close after finitely many rows whatever the values are.
type magCase struct {
	Values   []float64 `json:"values"`
	Interval uint32    `json:"interval"`
}

const magRowBound = 200000 // far beyond (max-min)/interval+1 of every generated case

func runMag(t pbt.TB, c magCase) {
	pbt.Case(t)
	g := &model.Graph{}
	for i, v := range c.Values {
		g.V = append(g.V, &model.Element{ID: fmt.Sprintf("v%d", i), Label: "A", Data: map[string]interface{}{"n": v}})
	}
	gi, err := gripx.Load(gripx.DB("badger"), gripx.FreshName(), g)
	if err != nil {
		t.Fatalf("INFRA: load: %v", err)
	}
	steps := []model.Step{model.S("V"), {Op: "aggregate", Aggs: []model.Agg{{Name: "h", Kind: "histogram", Field: "n", Interval: c.Interval}}}}
	pipe, cerr := gi.Compiler().Compile(model.Protos(steps), nil)
	if cerr != nil {
		pbt.Class(t, "rejected")
		return
	}
	pbt.Nontrivial(t, fmt.Sprint(c.Values, c.Interval))
	ctx, cancel := context.WithCancel(context.Background())
	defer cancel()
	var got int64
	done := make(chan struct{})
	ch := pipeline.Run(ctx, pipe, gripx.WorkDir())
	go func() {
		defer close(done)
		for range ch {
			if atomic.AddInt64(&got, 1) == magRowBound {
				cancel() // keep draining, as server.Traversal does
			}
		}
	}()
	rep := quiesce.WaitReport(done, func() int64 { return atomic.LoadInt64(&got) }, 60*time.Second)
	n := atomic.LoadInt64(&got)
	if n >= magRowBound {
		pbt.Discrepancy(t, c, "endless-rows:histogram", "V().aggregate(histogram(n, %d)) over the %d values %v produced more than %d rows and was still going: the stream of a finite graph does not end",
			c.Interval, len(c.Values), c.Values, magRowBound)
		return
	}
	switch rep.Verdict {
	case quiesce.Hang:
		pbt.Discrepancy(t, c, "hang:run:V.aggregate", "V().aggregate(histogram(n, %d)) over %v never closed its result stream after %d rows:\n%s", c.Interval, c.Values, n, rep.Stacks())
	case quiesce.Inconclusive:
		pbt.Inconclusive(t, "stream did not close within the budget: "+rep.Reason)
	}
}

func TestHistogramMagnitudes(t *testing.T) {
	if _, ok := pbt.ReplayFile(); ok {
		t.Skip("replay mode")
	}
	big := []float64{1e17, -1e17, 9007199254740992, -9007199254740994, 1e300, math.MaxFloat64, -math.MaxFloat64, 4.5e15}
	i := 0
	for _, x := range big {
		for _, iv := range []uint32{1, 2, 5, 1000} {
			for _, vals := range [][]float64{{x}, {x, x, x}, {x, x + math.Abs(x)*1e-15}, {x, 0.5}} {
				// a case whose exact bucket count would be astronomic is not a finite-time
				// question: keep (max-min)/interval small
				lo, hi := vals[0], vals[0]
				for _, v := range vals {
					lo, hi = math.Min(lo, v), math.Max(hi, v)
				}
				if (hi-lo)/float64(iv) > 50000 {
					continue
				}
				i++
				if !pbt.ShardOwns(i) {
					continue
				}
				c := magCase{Values: vals, Interval: iv}
				pbt.Current(t, c)
				if pbt.WantSample(t) {
					pbt.Sample(t, c)
				}
				runMag(t, c)
				if t.Failed() {
					return
				}
			}
		}
	}
	pbt.Exhaustive(t)
}
