// Package c20: the SQL backends treat client-supplied identifiers as data.
//
// Every driver entry point that takes an id, label, label list, id channel or graph name
// is called twice against a recording database/sql driver: once with a benign string
// and once with a hostile one. The statements of both calls are tokenised with a
// PostgreSQL lexer; the property demands the same number of statements, the same token
// kinds, textually equal tokens except for the literal that stands for the client string
// (which must decode to exactly that string), or the string travelling as a bound
// argument.
package c20

import (
	"context"
	"encoding/json"
	"fmt"
	"os"
	"path/filepath"
	"reflect"
	"sort"
	"strings"
	"sync"
	"testing"

	esql "github.com/bmeg/grip/existing-sql"
	"github.com/bmeg/grip/gdbi"
	"github.com/bmeg/grip/psql"
	"github.com/jmoiron/sqlx"
	"pgregory.net/rapid"
	"verif/internal/pbt"
)

func TestMain(m *testing.M) {
	code := pbt.Main(m, pbt.Meta{
		Property: "C20",
		Level:    "exploration",
		Rule: "case = (driver entry point, argument position, hostile string h): the call is made with the benign string \"" + benign + "\" and with h against a recording database/sql driver (canned results), all recorded statements are tokenised with a PostgreSQL lexer and compared. " +
			"Exhaustive pass: every entry point x argument position (psql Graph+GraphDB, existing-sql Graph+GraphDB; see the entries table, completeness asserted by reflection over the method sets) x a fixed list of hostile strings; random pass: h built from hostile fragments (' '' \\ \\' \" -- /* */ ; $$ $1 E' unicode quotes, newline, tab, backtick, %s, ), OR 1=1, ...) interleaved with benign chunks, plus arbitrary unicode. " +
			"A case is non-trivial when h contains at least one of ' \" \\ ; -- /* ; distinct = distinct (entry point, position, h).",
		Assumptions: []string{
			"PostgreSQL lexical rules with standard_conforming_strings=on for both drivers (MySQL quoting for existing-sql is not modelled)",
			"NUL bytes are not generated (not representable in PostgreSQL text)",
			"graph names become table names: an identifier token that differs only by the (sanitised) graph name is accepted when it is still one identifier token",
			"psql Get*Channel are fed one id per call (gdbi.LookupBatcher splits batches by wall-clock time, so multi-id calls issue a timing-dependent number of statements)",
			"rows returned by the recording driver are canned: one row for the single-row lookups, none for the streamed lookups (a non-empty result for an unknown existing-sql table would crash the process inside a driver goroutine)",
		},
	})
	os.Exit(code)
}

// benign is the twin of every hostile string: non-empty, no character that is special
// anywhere, and distinctive enough to be found again inside derived names.
const benign = "bq7"

// ---------------------------------------------------------------------------------
// entry points

type env struct {
	rec *recorder
	db  *sqlx.DB
}

func (e *env) pg() gdbi.GraphInterface { return psql.VerifNewGraph(e.db, "g", "g_vertices", "g_edges") }
func (e *env) pgdb() gdbi.GraphDB      { return psql.VerifNewGraphDB(e.db) }
func (e *env) es() gdbi.GraphInterface { return esql.VerifNewGraph(e.db, esSchema) }
func (e *env) esdb() gdbi.GraphDB      { return esql.VerifNewGraphDB(e.db, []*esql.Schema{esSchema}) }

var esSchema = &esql.Schema{
	Graph: "eg",
	Vertices: []*esql.Vertex{
		{Table: "users", GidField: "id", Label: "User"},
		{Table: "posts", GidField: "id", Label: "Post"},
	},
	Edges: []*esql.Edge{
		// generated from a foreign key
		{Table: "", Label: "authored",
			From: &esql.ForeignKey{DestTable: "users", DestField: "id"},
			To:   &esql.ForeignKey{DestTable: "posts", DestField: "author_id"}},
		// backed by a relation table
		{Table: "likes", GidField: "id", Label: "likes",
			From: &esql.ForeignKey{SourceField: "user_id", DestTable: "users", DestField: "id"},
			To:   &esql.ForeignKey{SourceField: "post_id", DestTable: "posts", DestField: "id"}},
	},
}

type entry struct {
	Driver  string // psql | esql
	Method  string
	Variant string // "" | "load"
	Pos     string // which argument carries the client string
	Rows    func(s string) rowPolicy
	Run     func(e *env, s string) error
	// Order: statement prefixes in canonical order, for calls that issue statements
	// from concurrent goroutines (the recorded order is then scheduling-dependent)
	Order []string
	// PanicSig names the root cause of a panic at this position
	PanicSig string
	// OtherPath reports that h legitimately sends the call down another code path than
	// the benign twin (no verdict is possible by comparison then)
	OtherPath func(h string) bool
}

func (en *entry) method() string {
	if en.Variant != "" {
		return en.Method + "+" + en.Variant
	}
	return en.Method
}
func (en *entry) site() string { return en.Driver + "." + en.method() }
func (en *entry) name() string { return en.site() + "[" + en.Pos + "]" }

func feed(ids ...string) chan gdbi.ElementLookup {
	ch := make(chan gdbi.ElementLookup, len(ids))
	for _, id := range ids {
		ch <- gdbi.ElementLookup{ID: id}
	}
	close(ch)
	return ch
}

// feedMany: n ids prefix+"k<i>" with prefix+s in the middle.
func feedMany(prefix string, n int, s string) chan gdbi.ElementLookup {
	ids := make([]string, 0, n)
	for i := 0; i < n; i++ {
		if i == n/2 {
			ids = append(ids, prefix+s)
			continue
		}
		ids = append(ids, fmt.Sprintf("%sk%d", prefix, i))
	}
	return feed(ids...)
}

func drain(ch chan gdbi.ElementLookup) error {
	for range ch {
	}
	return nil
}

func always(p rowPolicy) func(string) rowPolicy { return func(string) rowPolicy { return p } }

type travFn func(g gdbi.GraphInterface, ctx context.Context, req chan gdbi.ElementLookup, load, emitNull bool, labels []string) chan gdbi.ElementLookup

var travs = []struct {
	name    string
	f       travFn
	esTable string // existing-sql vertex table whose ids reach both edge definitions
}{
	{"GetOutChannel", gdbi.GraphInterface.GetOutChannel, "users"},
	{"GetInChannel", gdbi.GraphInterface.GetInChannel, "posts"},
	{"GetOutEdgeChannel", gdbi.GraphInterface.GetOutEdgeChannel, "users"},
	{"GetInEdgeChannel", gdbi.GraphInterface.GetInEdgeChannel, "posts"},
}

var buildSchemaOrder = []string{
	"SELECT * FROM graphs",
	"SELECT DISTINCT label FROM g_vertices",
	"SELECT * FROM g_vertices WHERE label",
	"SELECT DISTINCT label FROM g_edges",
	"SELECT a.label",
}

func vtx(id, label string, data map[string]interface{}) *gdbi.Vertex {
	if data == nil {
		data = map[string]interface{}{"k": "v"}
	}
	return &gdbi.Vertex{ID: id, Label: label, Data: data}
}

func edg(id, label, from, to string) *gdbi.Edge {
	return &gdbi.Edge{ID: id, Label: label, From: from, To: to, Data: map[string]interface{}{"k": "v"}}
}

func bulk(g gdbi.GraphInterface, graph string, v *gdbi.Vertex, e *gdbi.Edge) error {
	ch := make(chan *gdbi.GraphElement, 1)
	ch <- &gdbi.GraphElement{Graph: graph, Vertex: v, Edge: e}
	close(ch)
	return g.BulkAdd(ch)
}

var entries = buildEntries()

func buildEntries() []*entry {
	ctx := context.Background()
	var out []*entry
	add := func(driver, method, variant, pos string, rows func(string) rowPolicy, run func(e *env, s string) error) *entry {
		en := &entry{Driver: driver, Method: method, Variant: variant, Pos: pos, Rows: rows, Run: run}
		out = append(out, en)
		return en
	}
	one := always(oneRow)

	// ----- psql.Graph
	for _, load := range []bool{false, true} {
		load := load
		v := ""
		if load {
			v = "load"
		}
		add("psql", "GetVertex", v, "id", one, func(e *env, s string) error { e.pg().GetVertex(s, load); return nil })
		add("psql", "GetEdge", v, "id", one, func(e *env, s string) error { e.pg().GetEdge(s, load); return nil })
		add("psql", "GetVertexChannel", v, "id", nil, func(e *env, s string) error {
			return drain(e.pg().GetVertexChannel(ctx, feed(s), load))
		})

		for _, tr := range travs {
			tr := tr
			add("psql", tr.name, v, "id", nil, func(e *env, s string) error {
				return drain(tr.f(e.pg(), ctx, feed(s), load, false, nil))
			})
			add("psql", tr.name, v, "label", nil, func(e *env, s string) error {
				return drain(tr.f(e.pg(), ctx, feed("v1"), load, false, []string{"L0", s}))
			})
			// the client string as an id while a label filter is appended to the same
			// statement, and in both positions at once: the pieces of one statement are
			// assembled in several steps, and each step sees the text of the earlier ones
			add("psql", tr.name, v, "id-with-label-filter", nil, func(e *env, s string) error {
				return drain(tr.f(e.pg(), ctx, feed(s), load, false, []string{"L0", "L1"}))
			})
			add("psql", tr.name, v, "id-and-label", nil, func(e *env, s string) error {
				return drain(tr.f(e.pg(), ctx, feed(s), load, false, []string{s, "L1"})) // one id: psql batches its lookups by time
			})
		}
	}
	add("psql", "DelVertex", "", "id", nil, func(e *env, s string) error { return e.pg().DelVertex(s) })
	add("psql", "DelEdge", "", "id", nil, func(e *env, s string) error { return e.pg().DelEdge(s) })
	add("psql", "VertexLabelScan", "", "label", nil, func(e *env, s string) error {
		for range e.pg().VertexLabelScan(ctx, s) {
		}
		return nil
	})
	add("psql", "AddVertex", "", "id", nil, func(e *env, s string) error {
		return e.pg().AddVertex([]*gdbi.Vertex{vtx(s, "L", nil)})
	})
	add("psql", "AddVertex", "", "label", nil, func(e *env, s string) error {
		return e.pg().AddVertex([]*gdbi.Vertex{vtx("v1", s, nil)})
	})
	add("psql", "AddVertex", "", "data-key", nil, func(e *env, s string) error {
		return e.pg().AddVertex([]*gdbi.Vertex{vtx("v1", "L", map[string]interface{}{s: "v"})})
	})
	add("psql", "AddVertex", "", "data-value", nil, func(e *env, s string) error {
		return e.pg().AddVertex([]*gdbi.Vertex{vtx("v1", "L", map[string]interface{}{"k": s})})
	})
	add("psql", "AddEdge", "", "id", nil, func(e *env, s string) error {
		return e.pg().AddEdge([]*gdbi.Edge{edg(s, "L", "a", "b")})
	})
	add("psql", "AddEdge", "", "label", nil, func(e *env, s string) error {
		return e.pg().AddEdge([]*gdbi.Edge{edg("e1", s, "a", "b")})
	})
	add("psql", "AddEdge", "", "from", nil, func(e *env, s string) error {
		return e.pg().AddEdge([]*gdbi.Edge{edg("e1", "L", s, "b")})
	})
	add("psql", "AddEdge", "", "to", nil, func(e *env, s string) error {
		return e.pg().AddEdge([]*gdbi.Edge{edg("e1", "L", "a", s)})
	})
	add("psql", "BulkAdd", "", "vertex-id", nil, func(e *env, s string) error {
		return bulk(e.pg(), "g", vtx(s, "L", nil), nil)
	})
	add("psql", "BulkAdd", "", "edge-from", nil, func(e *env, s string) error {
		return bulk(e.pg(), "g", nil, edg("e1", "L", s, "b"))
	})
	add("psql", "BulkAdd", "", "graph", nil, func(e *env, s string) error {
		return bulk(e.pg(), s, vtx("v1", "L", nil), nil)
	})
	add("psql", "AddVertexIndex", "", "label", nil, func(e *env, s string) error { return e.pg().AddVertexIndex(s, "f") })
	add("psql", "AddVertexIndex", "", "field", nil, func(e *env, s string) error { return e.pg().AddVertexIndex("L", s) })
	add("psql", "DeleteVertexIndex", "", "label", nil, func(e *env, s string) error { return e.pg().DeleteVertexIndex(s, "f") })
	add("psql", "DeleteVertexIndex", "", "field", nil, func(e *env, s string) error { return e.pg().DeleteVertexIndex("L", s) })

	// ----- psql.GraphDB
	add("psql", "AddGraph", "", "graph", nil, func(e *env, s string) error { return e.pgdb().AddGraph(s) })
	add("psql", "DeleteGraph", "", "graph", one, func(e *env, s string) error { return e.pgdb().DeleteGraph(s) })
	add("psql", "Graph", "", "graph", one, func(e *env, s string) error { _, err := e.pgdb().Graph(s); return err })
	bs := func(e *env, s string) error { _, err := e.pgdb().BuildSchema(ctx, s, 10, false); return err }
	bsFixed := func(e *env, _ string) error { _, err := e.pgdb().BuildSchema(ctx, "g", 10, false); return err }
	add("psql", "BuildSchema", "", "graph", always(buildSchemaRows([]string{"VL"}, []string{"EL"})), bs).Order = buildSchemaOrder
	add("psql", "BuildSchema", "", "stored-vertex-label", func(s string) rowPolicy {
		return buildSchemaRows([]string{s}, []string{"EL"})
	}, bsFixed).Order = buildSchemaOrder
	add("psql", "BuildSchema", "", "stored-edge-label", func(s string) rowPolicy {
		return buildSchemaRows([]string{"VL"}, []string{s})
	}, bsFixed).Order = buildSchemaOrder

	// ----- esql.Graph (ids are <table>:<key>; the table prefix must exist in the schema)
	add("esql", "GetVertex", "", "id", one, func(e *env, s string) error { e.es().GetVertex("users:"+s, false); return nil })
	add("esql", "GetVertex", "load", "id", one, func(e *env, s string) error { e.es().GetVertex("users:"+s, true); return nil })
	add("esql", "GetVertex", "", "table", one, func(e *env, s string) error { e.es().GetVertex(s+":1", false); return nil }).PanicSig = "panic-unknown-table"
	add("esql", "GetEdge", "", "id", one, func(e *env, s string) error { e.es().GetEdge("likes:"+s, false); return nil })
	add("esql", "GetEdge", "load", "id", one, func(e *env, s string) error { e.es().GetEdge("likes:"+s, true); return nil })
	add("esql", "GetEdge", "", "table", one, func(e *env, s string) error { e.es().GetEdge(s+":1", false); return nil }).PanicSig = "panic-unknown-table"
	add("esql", "GetEdge", "", "generated-id", one, func(e *env, s string) error {
		e.es().GetEdge("generated:users:"+s+":posts:1", false)
		return nil
	}).PanicSig = "panic-generated-id"
	add("esql", "GetVertexChannel", "", "id", nil, func(e *env, s string) error {
		return drain(e.es().GetVertexChannel(ctx, feed("users:"+s), false))
	})
	add("esql", "GetVertexChannel", "", "id-of-several", nil, func(e *env, s string) error {
		return drain(e.es().GetVertexChannel(ctx, feed("users:1", "users:"+s, "users:3"), false))
	})
	add("esql", "GetVertexChannel", "", "table", nil, func(e *env, s string) error {
		return drain(e.es().GetVertexChannel(ctx, feed(s+":1"), false))
	}).PanicSig = "panic-unknown-table"
	// one id among very many of one table: batches beyond the placeholder limits of the
	// usual databases (sqlite 999, SQL Server 2100)
	add("esql", "GetVertexChannel", "", "id-of-1200", nil, func(e *env, s string) error {
		return drain(e.es().GetVertexChannel(ctx, feedMany("users:", 1200, s), false))
	})
	add("esql", "GetVertexChannel", "", "id-of-2500", nil, func(e *env, s string) error {
		return drain(e.es().GetVertexChannel(ctx, feedMany("users:", 2500, s), false))
	})
	for _, tr := range travs {
		tr := tr
		add("esql", tr.name, "", "id-of-1200", nil, func(e *env, s string) error {
			return drain(tr.f(e.es(), ctx, feedMany(tr.esTable+":", 1200, s), false, false, nil))
		})
		add("esql", tr.name, "", "id", nil, func(e *env, s string) error {
			return drain(tr.f(e.es(), ctx, feed(tr.esTable+":"+s), false, false, nil))
		})
		add("esql", tr.name, "", "id-of-several", nil, func(e *env, s string) error {
			return drain(tr.f(e.es(), ctx, feed(tr.esTable+":1", tr.esTable+":"+s), false, false, nil))
		})
		add("esql", tr.name, "", "label", nil, func(e *env, s string) error {
			return drain(tr.f(e.es(), ctx, feed(tr.esTable+":1"), false, false, []string{"authored", s}))
		})
		add("esql", tr.name, "", "id-with-label-filter", nil, func(e *env, s string) error {
			return drain(tr.f(e.es(), ctx, feed(tr.esTable+":"+s), false, false, []string{"authored", "likes"}))
		})
		add("esql", tr.name, "", "id-and-label", nil, func(e *env, s string) error {
			return drain(tr.f(e.es(), ctx, feed(tr.esTable+":"+s, tr.esTable+":2"), false, false, []string{s, "authored"}))
		})
		add("esql", tr.name, "", "table", nil, func(e *env, s string) error {
			return drain(tr.f(e.es(), ctx, feed(s+":1"), false, false, nil))
		}).PanicSig = "panic-unknown-table"
	}
	add("esql", "VertexLabelScan", "", "label", nil, func(e *env, s string) error {
		for range e.es().VertexLabelScan(ctx, s) {
		}
		return nil
	})
	// not implemented in existing-sql: must not reach the database at all
	add("esql", "AddVertex", "", "id", nil, func(e *env, s string) error { return e.es().AddVertex([]*gdbi.Vertex{vtx(s, "L", nil)}) })
	add("esql", "AddEdge", "", "id", nil, func(e *env, s string) error { return e.es().AddEdge([]*gdbi.Edge{edg(s, "L", "a", "b")}) })
	add("esql", "BulkAdd", "", "vertex-id", nil, func(e *env, s string) error { return bulk(e.es(), "eg", vtx(s, "L", nil), nil) })
	add("esql", "DelVertex", "", "id", nil, func(e *env, s string) error { return e.es().DelVertex("users:" + s) })
	add("esql", "DelEdge", "", "id", nil, func(e *env, s string) error { return e.es().DelEdge("likes:" + s) })
	add("esql", "AddVertexIndex", "", "label", nil, func(e *env, s string) error { return e.es().AddVertexIndex(s, "f") })
	add("esql", "DeleteVertexIndex", "", "label", nil, func(e *env, s string) error { return e.es().DeleteVertexIndex(s, "f") })

	// an existing-sql id is <table>:<key>: at the table positions the benign twin names an
	// unknown table, so h must not name a configured one (or the "generated" namespace)
	for _, en := range out {
		if en.Driver == "esql" && (en.Pos == "label" || en.Method == "AddGraph") {
			// labels and graph names are compared with the configuration: a configured
			// one selects more (or other) statements than the benign twin's unknown one
			en.OtherPath = func(h string) bool {
				return h == esSchema.Graph || len(esSchema.GetVertexTables(h)) > 0 || len(esSchema.GetEdgeTables(h)) > 0
			}
		}
		if en.Method == "BulkAdd" && en.Pos == "graph" {
			en.OtherPath = func(h string) bool { return h == "g" || h == esSchema.Graph }
		}
		if en.Driver == "esql" && en.Pos == "table" {
			en.OtherPath = func(h string) bool {
				tbl := strings.SplitN(h+":1", ":", 2)[0]
				return tbl == "generated" || esSchema.GetVertex(tbl) != nil || esSchema.GetEdge(tbl) != nil
			}
		}
	}

	// ----- esql.GraphDB (graph names are only compared with the configuration)
	add("esql", "AddGraph", "", "graph", nil, func(e *env, s string) error { return e.esdb().AddGraph(s) })
	add("esql", "DeleteGraph", "", "graph", nil, func(e *env, s string) error { return e.esdb().DeleteGraph(s) })
	add("esql", "Graph", "", "graph", nil, func(e *env, s string) error { _, err := e.esdb().Graph(s); return err })
	add("esql", "BuildSchema", "", "graph", nil, func(e *env, s string) error { _, err := e.esdb().BuildSchema(ctx, s, 10, false); return err })
	return out
}

// methods that take nothing a client could have written
var noClientString = map[string]bool{
	"Compiler": true, "GetTimestamp": true, "ListVertexLabels": true, "ListEdgeLabels": true,
	"GetVertexIndexList": true, "GetVertexList": true, "GetEdgeList": true, "ListGraphs": true, "Close": true,
}

func findEntry(driver, method, pos string) *entry {
	for _, en := range entries {
		if en.Driver == driver && en.method() == method && en.Pos == pos {
			return en
		}
	}
	return nil
}

// ---------------------------------------------------------------------------------
// running one call

type callResult struct {
	Events []event
	Err    string
	Panic  string
}

func invoke(en *entry, s string) (res callResult) {
	var pol rowPolicy
	if en.Rows != nil {
		pol = en.Rows(s)
	}
	rec, db := newRecorderDB(pol)
	defer db.Close()
	func() {
		defer func() {
			if r := recover(); r != nil {
				res.Panic = fmt.Sprint(r)
			}
		}()
		if err := en.Run(&env{rec: rec, db: db}, s); err != nil {
			res.Err = err.Error()
		}
	}()
	res.Events = reorder(rec.snapshot(), en.Order)
	return res
}

func reorder(evs []event, order []string) []event {
	if len(order) == 0 {
		return evs
	}
	rank := func(ev event) int {
		for i, p := range order {
			if strings.HasPrefix(ev.Text, p) {
				return i
			}
		}
		return len(order)
	}
	sort.SliceStable(evs, func(i, j int) bool { return rank(evs[i]) < rank(evs[j]) })
	return evs
}

var (
	benignMu    sync.Mutex
	benignCache = map[string]callResult{}
)

func benignRun(en *entry) callResult {
	benignMu.Lock()
	defer benignMu.Unlock()
	if r, ok := benignCache[en.name()]; ok {
		return r
	}
	r := invoke(en, benign)
	benignCache[en.name()] = r
	return r
}

// ---------------------------------------------------------------------------------
// the oracle

type finding struct {
	Sig string
	Msg string
}

type verdict struct {
	Class    string
	Findings []finding
	Sites    map[string]string // site -> how the client string reached it
}

func sanitizeGraph(s string) string { return strings.ReplaceAll(s, "-", "_") }

// expected values of a token that contained the benign string
func expectedValues(benignVal, h string) []string {
	return []string{
		strings.ReplaceAll(benignVal, benign, h),
		strings.ReplaceAll(benignVal, benign, sanitizeGraph(h)),
	}
}

func oneOf(v string, cands []string) bool {
	for _, c := range cands {
		if v == c {
			return true
		}
	}
	return false
}

// compareStmt judges one statement of the hostile call against its benign twin.
// how: unused | bound-argument | quoted-literal | identifier | INJECTABLE
func compareStmt(b, h event, hs string) (how string, why string) {
	if b.Op != h.Op {
		return "INJECTABLE", fmt.Sprintf("operation %s became %s", b.Op, h.Op)
	}
	tb, th := lex(b.Text), lex(h.Text)
	if len(tb) != len(th) {
		return "INJECTABLE", fmt.Sprintf("%d tokens became %d tokens", len(tb), len(th))
	}
	for j := range tb {
		if tb[j].K != th[j].K {
			return "INJECTABLE", fmt.Sprintf("token %d: %s became %s", j+1, tb[j], th[j])
		}
	}
	how = "unused"
	for j := range tb {
		if tb[j].Text == th[j].Text {
			continue
		}
		switch tb[j].K {
		case kString:
			if !oneOf(th[j].Val, expectedValues(tb[j].Val, hs)) {
				return "INJECTABLE", fmt.Sprintf("token %d: literal %s decodes to %q, not to the client string %q", j+1, th[j].Text, th[j].Val, hs)
			}
			how = "quoted-literal"
		case kIdent:
			if !oneOf(th[j].Text, expectedValues(tb[j].Text, hs)) {
				return "INJECTABLE", fmt.Sprintf("token %d: identifier %s became %s", j+1, tb[j].Text, th[j].Text)
			}
			if how == "unused" {
				how = "identifier"
			}
		default:
			return "INJECTABLE", fmt.Sprintf("token %d: %s became %s", j+1, tb[j], th[j])
		}
	}
	if len(b.Args) != len(h.Args) {
		return "INJECTABLE", fmt.Sprintf("%d bound arguments became %d", len(b.Args), len(h.Args))
	}
	for j := range b.Args {
		if !reflect.DeepEqual(b.Args[j], h.Args[j]) && how == "unused" {
			how = "bound-argument"
		}
	}
	return how, ""
}

func clip(s string) string {
	if len(s) > 600 {
		return s[:600] + "…"
	}
	return s
}

func evaluate(en *entry, h string) verdict {
	v := verdict{Sites: map[string]string{}}
	b := benignRun(en)
	r := invoke(en, h)
	site := en.site()
	if r.Panic != "" {
		ps := en.PanicSig
		if ps == "" {
			ps = "panic"
		}
		last := "(no statement had been issued)"
		if n := len(r.Events); n > 0 {
			last = "after statement: " + clip(r.Events[n-1].Text)
		}
		v.Findings = append(v.Findings, finding{site + ":" + ps,
			fmt.Sprintf("%s with client string %q panicked: %s %s", en.name(), h, r.Panic, last)})
	}
	if len(r.Events) == 0 {
		switch {
		case len(b.Events) == 0:
			v.Class = "no-sql"
		case r.Err != "" || r.Panic != "":
			v.Class = "rejected-before-sql"
		default:
			v.Class = "statement-count-differs"
			v.Findings = append(v.Findings, finding{site + "#count",
				fmt.Sprintf("%s: %d statements with %q but none (and no error) with %q", en.name(), len(b.Events), benign, h)})
		}
		return v
	}
	n := len(r.Events)
	if len(b.Events) != n {
		// a call that died half way is judged on the statements it did issue
		if !(r.Panic != "" && n < len(b.Events)) && !(b.Panic != "" && len(b.Events) < n) {
			v.Findings = append(v.Findings, finding{site + "#count",
				fmt.Sprintf("%s: %d statements with %q but %d with %q", en.name(), len(b.Events), benign, n, h)})
		}
		if len(b.Events) < n {
			n = len(b.Events)
		}
	}
	v.Class = "all-sites-safe"
	for i := 0; i < n; i++ {
		sig := fmt.Sprintf("%s#%d", site, i+1)
		how, why := compareStmt(b.Events[i], r.Events[i], h)
		v.Sites[sig] = how
		if how == "INJECTABLE" {
			v.Class = "injectable-site"
			v.Findings = append(v.Findings, finding{sig, fmt.Sprintf(
				"%s: the client string %q changes the structure of statement #%d (%s)\n  with %q: %s\n  with h : %s\n  tokens : %s",
				en.name(), h, i+1, why, benign, clip(b.Events[i].Text), clip(r.Events[i].Text), clip(renderTokens(lex(r.Events[i].Text))))})
		}
	}
	return v
}

// ---------------------------------------------------------------------------------
// cases

type c20Case struct {
	Driver string `json:"driver"`
	Entry  string `json:"entry"`
	Pos    string `json:"position"`
	H      string `json:"h"`
}

func nontrivial(h string) bool {
	return strings.ContainsAny(h, `'"\;`) || strings.Contains(h, "--") || strings.Contains(h, "/*")
}

// markCurrent leaves the case on disk before it runs where a crash of the whole process
// is conceivable (driver goroutines meeting an unknown table or unexpected rows; every
// case of the small exhaustive pass). For the other random cases the file write would
// dominate the run time; a stale file is removed so that a crash is never attributed to
// an earlier case.
var currentLive bool

func markCurrent(t pbt.TB, en *entry, c c20Case) {
	if en.PanicSig != "" || en.Method == "BuildSchema" || strings.HasPrefix(t.Name(), "TestExhaustive") {
		pbt.Current(t, c)
		currentLive = true
		return
	}
	if currentLive {
		if d := os.Getenv("VERIF_FAIL_DIR"); d != "" {
			os.Remove(filepath.Join(d, fmt.Sprintf("current.shard%d.json", pbt.Shard())))
		}
		currentLive = false
	}
}

func runCase(t pbt.TB, c c20Case) {
	en := findEntry(c.Driver, c.Entry, c.Pos)
	if en == nil {
		t.Fatalf("INFRA: no entry point %s.%s[%s]", c.Driver, c.Entry, c.Pos)
		return
	}
	if strings.ContainsRune(c.H, 0) || c.H == "" {
		pbt.Inconclusive(t, "outside domain (empty or NUL)")
		return
	}
	pbt.Case(t)
	markCurrent(t, en, c)
	if nontrivial(c.H) {
		pbt.Nontrivial(t, en.name()+"|"+c.H)
	}
	if en.OtherPath != nil && en.OtherPath(c.H) {
		pbt.Class(t, "other-path-than-twin(not judged)")
		return
	}
	v := evaluate(en, c.H)
	pbt.Class(t, v.Class)
	for _, f := range v.Findings {
		if pbt.Discrepancy(t, c, f.Sig, "%s", f.Msg) {
			return
		}
	}
}

var hostileFixed = []string{
	`'`, `''`, `a'b`, `\`, `\'`, `a\`, `\\`, `"`, `a"b`, `--`, `a--b`, `/*`, `*/`, `/* c */`, `;`, `a;b`,
	`$$`, `$1`, `$q$a$q$`, `E'`, `E'\''`, `U&'\0041'`, `’`, `＇`, "a\nb", "a\tb", "a`b", `a b`, `%s`, `%d`, `100%`, `%[2]s`, `%v%v%v`, `%%`, `)`, `:name`,
	`1 OR 1=1`, `' OR '1'='1`, `x') OR 1=1 --`, `1; DROP TABLE users`, `'; DROP TABLE g_vertices; --`, `x' /* */ OR 'a'='a`,
	`users WHERE 1=1 -- `,
}

func TestExhaustive(t *testing.T) {
	if cf, ok := pbt.ReplayFile(); ok {
		if cf.Test != "TestExhaustive" && cf.Test != "TestRandom" {
			t.Skip()
		}
		var c c20Case
		if err := json.Unmarshal(cf.Case, &c); err != nil {
			t.Fatal(err)
		}
		runCase(t, c)
		return
	}
	i := 0
	for _, en := range entries {
		for _, h := range hostileFixed {
			i++
			if !pbt.ShardOwns(i) {
				continue
			}
			c := c20Case{Driver: en.Driver, Entry: en.method(), Pos: en.Pos, H: h}
			if pbt.WantSample(t) {
				pbt.Sample(t, c)
			}
			runCase(t, c)
		}
	}
	pbt.Exhaustive(t)
}

var fragments = []string{
	`'`, `''`, `\`, `\'`, `"`, `--`, `/*`, `*/`, `;`, `$$`, `$1`, `$t$`, `E'`, `’`, `＇`, "\n", "\r", "\t", "`", `%s`, `%`, `%[1]s`, `%[2]s`, `)`, `(`,
	` OR 1=1`, ` `, `:`, `::`, `,`, `=`, `U&'`, `\x27`, `\047`, `%27`,
}

var chunks = []string{"a", "abc", "x", "Z9", "tbl", "or", "select", "users", "g_vertices", "v1", "é", "名", "_", "-", "A-b"}

func genHostile(rt *rapid.T) string {
	if rapid.IntRange(0, 9).Draw(rt, "arbitrary") == 0 {
		s := rapid.String().Draw(rt, "s")
		s = strings.ReplaceAll(s, "\x00", "")
		if strings.Trim(s, "abcdefghijklmnopqrstuvwxyzABCDEFGHIJKLMNOPQRSTUVWXYZ0123456789_") == "" {
			// a plain word is not hostile (and may name a configured table, label or graph)
			s += rapid.SampledFrom(fragments).Draw(rt, "f")
		}
		return s
	}
	n := rapid.IntRange(1, 6).Draw(rt, "parts")
	var b strings.Builder
	special := false
	for i := 0; i < n; i++ {
		if rapid.Bool().Draw(rt, "frag") {
			b.WriteString(rapid.SampledFrom(fragments).Draw(rt, "f"))
			special = true
		} else {
			b.WriteString(rapid.SampledFrom(chunks).Draw(rt, "c"))
		}
	}
	if !special {
		b.WriteString(rapid.SampledFrom(fragments).Draw(rt, "f"))
	}
	return b.String()
}

// graph names: fragments that gripql.ValidateGraphName lets through, so that the
// statements behind the validation are reached too
var nameFragments = []string{"--", "-", "\n", "\r", "\t", "\v", "\f", "`", "’", "＇", "\u00a0", "\u2028", "é", "_"}

func genGraphName(rt *rapid.T) string {
	n := rapid.IntRange(1, 4).Draw(rt, "parts")
	var b strings.Builder
	b.WriteString(rapid.SampledFrom([]string{"a", "abc", "Z9", "tbl", "select"}).Draw(rt, "head"))
	for i := 0; i < n; i++ {
		b.WriteString(rapid.SampledFrom(nameFragments).Draw(rt, "f"))
		if rapid.Bool().Draw(rt, "chunk") {
			b.WriteString(rapid.SampledFrom([]string{"a", "abc", "x", "drop", "table", "t1"}).Draw(rt, "c"))
		}
	}
	return b.String()
}

func TestRandom(t *testing.T) {
	pbt.Check(t, 100000, 3000000, func(rt *rapid.T) {
		en := entries[rapid.IntRange(0, len(entries)-1).Draw(rt, "entry")]
		var h string
		if en.Pos == "graph" && rapid.Bool().Draw(rt, "valid-name") {
			h = genGraphName(rt)
		} else {
			h = genHostile(rt)
		}
		c := c20Case{Driver: en.Driver, Entry: en.method(), Pos: en.Pos, H: h}
		if pbt.WantSample(t) {
			pbt.Sample(t, c)
		}
		runCase(rt, c)
	})
}

// ---------------------------------------------------------------------------------
// harness self-checks (not property verdicts)

// Every exported method of the four driver types is either in the entries table or in
// the explicit list of methods that take nothing a client could have written; methods
// on that list must really have no such parameter.
func TestEntryCoverage(t *testing.T) {
	if _, ok := pbt.ReplayFile(); ok {
		t.Skip()
	}
	rec, db := newRecorderDB(nil)
	defer db.Close()
	e := &env{rec: rec, db: db}
	ctxT := reflect.TypeOf((*context.Context)(nil)).Elem()
	inert := func(p reflect.Type) bool {
		return p == ctxT || p.Kind() == reflect.Bool || p.Kind() == reflect.Uint32
	}
	check := func(driver string, v interface{}, iface reflect.Type) {
		typ := reflect.TypeOf(v)
		if !typ.Implements(iface) {
			t.Fatalf("INFRA: %s does not implement %s", typ, iface)
		}
		for i := 0; i < typ.NumMethod(); i++ {
			m := typ.Method(i)
			if strings.HasPrefix(m.Name, "Verif") {
				continue
			}
			carries := false
			for p := 1; p < m.Type.NumIn(); p++ { // 0 is the receiver
				if !inert(m.Type.In(p)) {
					carries = true
				}
			}
			listed := false
			for _, en := range entries {
				if en.Driver == driver && en.Method == m.Name {
					listed = true
				}
			}
			switch {
			case listed:
			case noClientString[m.Name] && !carries:
			case noClientString[m.Name]:
				t.Errorf("INFRA: %s.%s is listed as taking no client string but has the signature %s", driver, m.Name, m.Type)
			default:
				t.Errorf("INFRA: %s.%s (%s) is a driver entry point that the entries table does not exercise", driver, m.Name, m.Type)
			}
		}
	}
	gi := reflect.TypeOf((*gdbi.GraphInterface)(nil)).Elem()
	gd := reflect.TypeOf((*gdbi.GraphDB)(nil)).Elem()
	check("psql", e.pg(), gi)
	check("psql", e.pgdb(), gd)
	check("esql", e.es(), gi)
	check("esql", e.esdb(), gd)
}

// The recorder keeps statement text and bound arguments on every path (Exec, Prepare +
// Stmt.Exec, NamedExec expanded to positional arguments, Query) and derives the result
// columns from the select list; the entry points are deterministic.
func TestRecorderSelfCheck(t *testing.T) {
	if _, ok := pbt.ReplayFile(); ok {
		t.Skip()
	}
	if err := esql.ValidateSchema(esSchema); err != nil {
		t.Fatalf("INFRA: test schema invalid: %v", err)
	}
	// the recorder itself, driven directly (independent of the code under test)
	h := `it's`
	rec, db := newRecorderDB(oneRow)
	defer db.Close()
	must := func(err error) {
		if err != nil {
			t.Fatalf("INFRA: recorder: %v", err)
		}
	}
	_, err := db.Exec("DELETE FROM t WHERE gid=$1", h)
	must(err)
	tx, err := db.Begin()
	must(err)
	st, err := tx.Prepare("INSERT INTO t (gid) VALUES ($1)")
	must(err)
	_, err = st.Exec(h)
	must(err)
	must(st.Close())
	must(tx.Commit())
	_, err = db.NamedExec("UPDATE t SET label=:l WHERE gid=:g", map[string]interface{}{"l": "L", "g": h})
	must(err)
	row := map[string]interface{}{}
	must(db.QueryRowx(`SELECT g_vertices.*, g_edges.from, "to" AS t2 FROM g_vertices WHERE gid='x'`).MapScan(row))
	got := rec.snapshot()
	want := []event{
		{Op: "exec", Text: "DELETE FROM t WHERE gid=$1", Args: []interface{}{h}},
		{Op: "prepare", Text: "INSERT INTO t (gid) VALUES ($1)"},
		{Op: "stmt-exec", Text: "INSERT INTO t (gid) VALUES ($1)", Args: []interface{}{h}},
		{Op: "exec", Text: "UPDATE t SET label=$1 WHERE gid=$2", Args: []interface{}{"L", h}},
		{Op: "query", Text: `SELECT g_vertices.*, g_edges.from, "to" AS t2 FROM g_vertices WHERE gid='x'`},
	}
	if !reflect.DeepEqual(got, want) {
		t.Fatalf("INFRA: recorder kept\n %+v\nwant\n %+v", got, want)
	}
	if len(row) != 5 || row["gid"] != "r1" || row["from"] != "r0" || row["t2"] != "1" {
		t.Fatalf("INFRA: canned row %v", row)
	}
	// every entry point issues the same statements when called twice with the same string
	for _, en := range entries {
		r1, r2 := invoke(en, benign), invoke(en, benign)
		if len(r1.Events) != len(r2.Events) {
			t.Fatalf("INFRA: %s is not deterministic: %d vs %d statements", en.name(), len(r1.Events), len(r2.Events))
		}
		for i := range r1.Events {
			if r1.Events[i].Text != r2.Events[i].Text {
				t.Fatalf("INFRA: %s is not deterministic at #%d: %q vs %q", en.name(), i+1, r1.Events[i].Text, r2.Events[i].Text)
			}
		}
	}
}

func TestLexer(t *testing.T) {
	if _, ok := pbt.ReplayFile(); ok {
		t.Skip()
	}
	type tk = token
	cases := []struct {
		in   string
		want string
	}{
		{`SELECT * FROM t WHERE gid='a''b'`, `ident‹SELECT› op‹*› ident‹FROM› ident‹t› ident‹WHERE› ident‹gid› op‹=› string‹'a''b'›`},
		{`'a\'`, `string‹'a\'›`},
		{`'a\' OR 1=1 --'`, `string‹'a\'› ident‹OR› number‹1› op‹=› number‹1› comment‹--'›`},
		{`E'a\'b'`, `string‹E'a\'b'›`},
		{`'a`, `BAD‹'a›`},
		{`$$a'b$$ $t$x$$y$t$ $1 $t$z`, `string‹$$a'b$$› string‹$t$x$$y$t$› param‹$1› BAD‹$t$z›`},
		{`a$$b "q""i" "open`, `ident‹a$$b› qident‹"q""i"› BAD‹"open›`},
		{`/* a /* b */ c */ x /* open`, `comment‹/* a /* b */ c */› ident‹x› BAD‹/* open›`},
		{`a--b` + "\n" + `c`, `ident‹a› comment‹--b› ident‹c›`},
		{`1 1.5 .5 1e10 1e`, `number‹1› number‹1.5› number‹.5› number‹1e10› number‹1› ident‹e›`},
		{`a::text :name a<>b a<=-1 x@-y`, `ident‹a› op‹::› ident‹text› named‹:name› ident‹a› op‹<>› ident‹b› ident‹a› op‹<=› op‹-› number‹1› ident‹x› op‹@-› ident‹y›`},
		{`(a,b);c.d`, `punct‹(› ident‹a› punct‹,› ident‹b› punct‹)› punct‹;› ident‹c› punct‹.› ident‹d›`},
		{`'’' x’y \ {`, `string‹'’'› ident‹x’y› BAD‹\› BAD‹{›`},
		{`U&'\0041' N'x' B'01' X'ff' e'\x41\101\n'`, `string‹U&'\0041'› string‹N'x'› string‹B'01'› string‹X'ff'› string‹e'\x41\101\n'›`},
		{`a*/b +-`, `ident‹a› op‹*/› ident‹b› op‹+› op‹-›`},
	}
	for _, c := range cases {
		if got := renderTokens(lex(c.in)); got != c.want {
			t.Errorf("INFRA: lex(%q)\n got  %s\n want %s", c.in, got, c.want)
		}
	}
	vals := map[string]string{`'a''b'`: `a'b`, `'a\'`: `a\`, `E'a\'b\\'`: `a'b\`, `e'\x41\101\n'`: "AA\n", `$q$a'b$q$`: `a'b`, `"q""i"`: `q"i`}
	for in, want := range vals {
		ts := lex(in)
		if len(ts) != 1 || ts[0].Val != want {
			t.Errorf("INFRA: lex(%q) = %v (val %q), want value %q", in, ts, ts[0].Val, want)
		}
	}
	// round trip: a correctly quoted literal is one string token that decodes to the input
	rapid.Check(t, func(rt *rapid.T) {
		s := strings.ReplaceAll(genHostile(rt), "\x00", "")
		ts := lex("SELECT " + quoteLiteral(s) + " FROM t")
		if len(ts) != 4 || ts[1].K != kString || ts[1].Val != s {
			rt.Fatalf("INFRA: literal for %q lexed as %s", s, renderTokens(ts))
		}
	})
	_ = tk{}
}

// C20_DUMP=<file>: write the verdict per call site (development aid; used to derive
// /verif/known/C20.json and the site table in findings/overview.md).
func TestDumpSites(t *testing.T) {
	path := os.Getenv("C20_DUMP")
	if path == "" {
		t.Skip()
	}
	type siteInfo struct {
		Site    string   `json:"site"`
		Verdict string   `json:"verdict"`
		How     []string `json:"how"`
		Benign  string   `json:"benign_sql"`
		Example string   `json:"example_h,omitempty"`
		Hostile string   `json:"example_sql,omitempty"`
		Why     string   `json:"why,omitempty"`
		Entries []string `json:"entries"`
	}
	sites := map[string]*siteInfo{}
	var order []string
	other := map[string]string{}
	hs := append([]string{}, hostileFixed...)
	for _, en := range entries {
		b := benignRun(en)
		for i, ev := range b.Events {
			sig := fmt.Sprintf("%s#%d", en.site(), i+1)
			if sites[sig] == nil {
				sites[sig] = &siteInfo{Site: sig, Verdict: "safe", Benign: ev.Text}
				order = append(order, sig)
			}
			if !oneOf(en.name(), sites[sig].Entries) {
				sites[sig].Entries = append(sites[sig].Entries, en.name())
			}
		}
		for _, h := range hs {
			v := evaluate(en, h)
			for sig, how := range v.Sites {
				si := sites[sig]
				if si == nil {
					continue
				}
				if !oneOf(how, si.How) {
					si.How = append(si.How, how)
					sort.Strings(si.How)
				}
			}
			for _, f := range v.Findings {
				if si := sites[f.Sig]; si != nil {
					if si.Verdict == "safe" || len(h) < len(si.Example) {
						si.Verdict = "INJECTABLE"
						si.Example = h
						r := invoke(en, h)
						for i, ev := range r.Events {
							if fmt.Sprintf("%s#%d", en.site(), i+1) == f.Sig {
								si.Hostile = ev.Text
							}
						}
						si.Why = f.Msg
					}
				} else if _, ok := other[f.Sig]; !ok {
					other[f.Sig] = f.Msg
				}
			}
		}
	}
	var out []interface{}
	for _, s := range order {
		out = append(out, sites[s])
	}
	var oks []string
	for k := range other {
		oks = append(oks, k)
	}
	sort.Strings(oks)
	for _, k := range oks {
		out = append(out, map[string]string{"site": k, "verdict": "OTHER", "why": other[k]})
	}
	bts, _ := json.MarshalIndent(out, "", " ")
	if err := os.WriteFile(path, bts, 0o644); err != nil {
		t.Fatal(err)
	}
}
