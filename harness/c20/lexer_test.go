package c20

// A PostgreSQL lexer (after src/backend/parser/scan.l) with
// standard_conforming_strings=on: a backslash is an ordinary character inside a plain
// '...' literal and an escape only inside E'...'. It never fails: unterminated
// strings/comments/quoted identifiers and stray characters become kBad tokens, so that
// two statements can always be compared token by token.

import (
	"fmt"
	"strconv"
	"strings"
	"unicode/utf8"
)

type kind int

const (
	kIdent   kind = iota // identifier or keyword
	kQIdent              // "quoted identifier", U&"..."
	kString              // '...', E'...', $tag$...$tag$, B'..', X'..', N'..', U&'..'
	kNumber              // 1, 1.5, .5, 1e10
	kParam               // $1
	kNamed               // :name
	kOp                  // operator
	kPunct               // ( ) [ ] , ; . :
	kComment             // -- ... or /* ... */
	kBad                 // unterminated literal/comment/identifier, stray character
)

var kindNames = []string{"ident", "qident", "string", "number", "param", "named", "op", "punct", "comment", "BAD"}

func (k kind) String() string { return kindNames[k] }

type token struct {
	K    kind
	Text string // exact source text
	Val  string // decoded value (strings, quoted identifiers); else == Text
}

func (t token) String() string { return fmt.Sprintf("%s‹%s›", t.K, t.Text) }

func isSpace(c byte) bool { return c == ' ' || c == '\t' || c == '\n' || c == '\r' || c == '\f' || c == '\v' }
func isDigit(c byte) bool { return c >= '0' && c <= '9' }
func isIdentStart(c byte) bool {
	return c == '_' || (c >= 'a' && c <= 'z') || (c >= 'A' && c <= 'Z') || c >= 0x80
}
func isIdentCont(c byte) bool { return isIdentStart(c) || isDigit(c) || c == '$' }
func isOpChar(c byte) bool    { return strings.IndexByte("+-*/<>=~!@#%^&|`?", c) >= 0 }

// lex tokenises one statement text.
func lex(s string) []token {
	var out []token
	i := 0
	n := len(s)
	emit := func(k kind, from, to int, val string) {
		out = append(out, token{K: k, Text: s[from:to], Val: val})
	}
	for i < n {
		c := s[i]
		switch {
		case isSpace(c):
			i++
		case c == '-' && i+1 < n && s[i+1] == '-':
			j := i
			for j < n && s[j] != '\n' && s[j] != '\r' {
				j++
			}
			emit(kComment, i, j, s[i:j])
			i = j
		case c == '/' && i+1 < n && s[i+1] == '*':
			j, ok := scanBlockComment(s, i)
			if ok {
				emit(kComment, i, j, s[i:j])
			} else {
				emit(kBad, i, j, s[i:j])
			}
			i = j
		case c == '\'':
			j, val, ok := scanQuoted(s, i, '\'', false)
			if ok {
				emit(kString, i, j, val)
			} else {
				emit(kBad, i, j, val)
			}
			i = j
		case c == '"':
			j, val, ok := scanQuoted(s, i, '"', false)
			if ok {
				emit(kQIdent, i, j, val)
			} else {
				emit(kBad, i, j, val)
			}
			i = j
		case c == '$':
			if i+1 < n && isDigit(s[i+1]) {
				j := i + 1
				for j < n && isDigit(s[j]) {
					j++
				}
				emit(kParam, i, j, s[i:j])
				i = j
				break
			}
			// dollar quoting: $tag$ ... $tag$
			j := i + 1
			if j < n && isIdentStart(s[j]) {
				for j < n && (isIdentStart(s[j]) || isDigit(s[j])) {
					j++
				}
			}
			if j < n && s[j] == '$' {
				delim := s[i : j+1]
				end := strings.Index(s[j+1:], delim)
				if end < 0 {
					emit(kBad, i, n, s[j+1:])
					i = n
				} else {
					stop := j + 1 + end + len(delim)
					emit(kString, i, stop, s[j+1:j+1+end])
					i = stop
				}
				break
			}
			emit(kBad, i, i+1, "$")
			i++
		case isIdentStart(c):
			// string prefixes: E'', B'', X'', N'', U&'' and U&""
			if i+1 < n && s[i+1] == '\'' && strings.IndexByte("eEbBxXnN", c) >= 0 {
				esc := c == 'e' || c == 'E'
				j, val, ok := scanQuoted(s, i+1, '\'', esc)
				if ok {
					emit(kString, i, j, val)
				} else {
					emit(kBad, i, j, val)
				}
				i = j
				break
			}
			if (c == 'u' || c == 'U') && i+2 < n && s[i+1] == '&' && (s[i+2] == '\'' || s[i+2] == '"') {
				q := s[i+2]
				j, val, ok := scanQuoted(s, i+2, q, false)
				k := kString
				if q == '"' {
					k = kQIdent
				}
				if !ok {
					k = kBad
				}
				emit(k, i, j, val)
				i = j
				break
			}
			j := i + 1
			for j < n && isIdentCont(s[j]) {
				j++
			}
			emit(kIdent, i, j, s[i:j])
			i = j
		case isDigit(c) || (c == '.' && i+1 < n && isDigit(s[i+1])):
			j := i
			for j < n && isDigit(s[j]) {
				j++
			}
			if j < n && s[j] == '.' && !(j+1 < n && s[j+1] == '.') {
				j++
				for j < n && isDigit(s[j]) {
					j++
				}
			}
			if j < n && (s[j] == 'e' || s[j] == 'E') {
				k := j + 1
				if k < n && (s[k] == '+' || s[k] == '-') {
					k++
				}
				if k < n && isDigit(s[k]) {
					for k < n && isDigit(s[k]) {
						k++
					}
					j = k
				}
			}
			emit(kNumber, i, j, s[i:j])
			i = j
		case c == ':':
			if i+1 < n && (s[i+1] == ':' || s[i+1] == '=') {
				emit(kOp, i, i+2, s[i:i+2])
				i += 2
			} else if i+1 < n && isIdentStart(s[i+1]) {
				j := i + 2
				for j < n && isIdentCont(s[j]) {
					j++
				}
				emit(kNamed, i, j, s[i:j])
				i = j
			} else {
				emit(kPunct, i, i+1, ":")
				i++
			}
		case strings.IndexByte("()[],;.", c) >= 0:
			emit(kPunct, i, i+1, s[i:i+1])
			i++
		case isOpChar(c):
			j := i
			for j < n && isOpChar(s[j]) {
				if j > i && j+1 < n && ((s[j] == '-' && s[j+1] == '-') || (s[j] == '/' && s[j+1] == '*')) {
					break
				}
				j++
			}
			// a multi-character operator may end in + or - only if it contains one of
			// ~ ! @ # % ^ & | ` ?
			if j-i > 1 && (s[j-1] == '+' || s[j-1] == '-') && !strings.ContainsAny(s[i:j], "~!@#%^&|`?") {
				for j-i > 1 && (s[j-1] == '+' || s[j-1] == '-') {
					j--
				}
			}
			emit(kOp, i, j, s[i:j])
			i = j
		default:
			// control characters, NUL, backslash, braces ... : not part of any SQL token
			_, w := utf8.DecodeRuneInString(s[i:])
			if w < 1 {
				w = 1
			}
			emit(kBad, i, i+w, s[i:i+w])
			i += w
		}
	}
	return out
}

func scanBlockComment(s string, i int) (end int, ok bool) {
	depth := 0
	j := i
	for j < len(s) {
		if j+1 < len(s) && s[j] == '/' && s[j+1] == '*' {
			depth++
			j += 2
			continue
		}
		if j+1 < len(s) && s[j] == '*' && s[j+1] == '/' {
			depth--
			j += 2
			if depth == 0 {
				return j, true
			}
			continue
		}
		j++
	}
	return len(s), false
}

// scanQuoted scans a literal whose opening quote is at s[i]. A doubled quote stands for
// one quote; with esc, backslash sequences are decoded as in E'...'.
func scanQuoted(s string, i int, q byte, esc bool) (end int, val string, ok bool) {
	var b strings.Builder
	j := i + 1
	for j < len(s) {
		c := s[j]
		if c == q {
			if j+1 < len(s) && s[j+1] == q {
				b.WriteByte(q)
				j += 2
				continue
			}
			return j + 1, b.String(), true
		}
		if esc && c == '\\' {
			if j+1 >= len(s) {
				b.WriteByte(c)
				j++
				continue
			}
			d := s[j+1]
			j += 2
			switch d {
			case 'b':
				b.WriteByte('\b')
			case 'f':
				b.WriteByte('\f')
			case 'n':
				b.WriteByte('\n')
			case 'r':
				b.WriteByte('\r')
			case 't':
				b.WriteByte('\t')
			case 'x':
				k := j
				for k < len(s) && k < j+2 && isHex(s[k]) {
					k++
				}
				if k > j {
					v, _ := strconv.ParseUint(s[j:k], 16, 8)
					b.WriteByte(byte(v))
					j = k
				} else {
					b.WriteByte('x')
				}
			case 'u', 'U':
				w := 4
				if d == 'U' {
					w = 8
				}
				if j+w <= len(s) {
					if v, err := strconv.ParseUint(s[j:j+w], 16, 32); err == nil {
						b.WriteRune(rune(v))
						j += w
						break
					}
				}
				b.WriteByte(d)
			default:
				if d >= '0' && d <= '7' {
					k := j
					for k < len(s) && k < j+2 && s[k] >= '0' && s[k] <= '7' {
						k++
					}
					v, _ := strconv.ParseUint(s[j-1:k], 8, 16)
					b.WriteByte(byte(v))
					j = k
				} else {
					b.WriteByte(d)
				}
			}
			continue
		}
		b.WriteByte(c)
		j++
	}
	return len(s), b.String(), false
}

func isHex(c byte) bool {
	return isDigit(c) || (c >= 'a' && c <= 'f') || (c >= 'A' && c <= 'F')
}

// quoteLiteral renders s as a plain PostgreSQL literal (used by the lexer self-test).
func quoteLiteral(s string) string { return "'" + strings.ReplaceAll(s, "'", "''") + "'" }

func renderTokens(ts []token) string {
	parts := make([]string, len(ts))
	for i, t := range ts {
		parts[i] = t.String()
	}
	return strings.Join(parts, " ")
}
