package c20

import (
	"strings"
	"testing"
	"unicode/utf8"

	"verif/internal/pbt"
)

// FuzzHostile: coverage-guided search over (entry point, client string) with the oracle of
// the random test inside the target: the statements sent for the client string must have the
// token structure of the statements sent for its benign twin, the string appearing only as
// the value of a literal, a bound parameter or a quoted identifier - or the call is refused
// before any statement is sent.
func FuzzHostile(f *testing.F) {
	for i := range entries {
		for _, h := range hostileFixed {
			f.Add(uint16(i), h)
		}
	}
	f.Fuzz(func(t *testing.T, ei uint16, h string) {
		en := entries[int(ei)%len(entries)]
		if h == "" || strings.ContainsRune(h, 0) || !utf8.ValidString(h) || len(h) > 200 {
			t.Skip() // outside the domain: protobuf strings are valid UTF-8; NUL is refused by every PostgreSQL client library
		}
		if en.OtherPath != nil && en.OtherPath(h) {
			t.Skip()
		}
		v := evaluate(en, h)
		for _, fd := range v.Findings {
			if pbt.IsOpen(fd.Sig) {
				continue
			}
			t.Fatalf("DISCREPANCY sig=%s: %s", fd.Sig, fd.Msg)
		}
	})
}
