package c20

// A recording database/sql driver: every statement text and its bound arguments are
// kept; results are canned (column names derived from the SELECT list, rows decided by
// a per-call policy).

import (
	"context"
	"database/sql"
	"database/sql/driver"
	"io"
	"strings"
	"sync"

	"github.com/jmoiron/sqlx"
)

type event struct {
	Op   string        `json:"op"` // exec | query | prepare | stmt-exec | stmt-query
	Text string        `json:"sql"`
	Args []interface{} `json:"args,omitempty"`
}

// rowPolicy decides which rows a SELECT returns: q is the statement, cols the derived
// column names, table the first table after FROM, distinct whether SELECT DISTINCT.
type rowPolicy func(q string, cols []string, table string, distinct bool) [][]driver.Value

type recorder struct {
	mu     sync.Mutex
	events []event
	policy rowPolicy
	tables map[string][]string // columns of the tables a `*` may expand to
}

func (r *recorder) record(op, text string, args []driver.NamedValue) {
	ev := event{Op: op, Text: text}
	for _, a := range args {
		ev.Args = append(ev.Args, a.Value)
	}
	r.mu.Lock()
	r.events = append(r.events, ev)
	r.mu.Unlock()
}

func (r *recorder) snapshot() []event {
	r.mu.Lock()
	defer r.mu.Unlock()
	return append([]event(nil), r.events...)
}

func named(vs []driver.Value) []driver.NamedValue {
	out := make([]driver.NamedValue, len(vs))
	for i, v := range vs {
		out[i] = driver.NamedValue{Ordinal: i + 1, Value: v}
	}
	return out
}

// ---- driver plumbing

type connector struct{ r *recorder }

func (c connector) Connect(context.Context) (driver.Conn, error) { return &conn{r: c.r}, nil }
func (c connector) Driver() driver.Driver                        { return drv{c.r} }

type drv struct{ r *recorder }

func (d drv) Open(string) (driver.Conn, error) { return &conn{r: d.r}, nil }

type conn struct{ r *recorder }

func (c *conn) Prepare(q string) (driver.Stmt, error) {
	c.r.record("prepare", q, nil)
	return &stmt{r: c.r, q: q}, nil
}
func (c *conn) Close() error              { return nil }
func (c *conn) Begin() (driver.Tx, error) { return tx{}, nil }
func (c *conn) BeginTx(context.Context, driver.TxOptions) (driver.Tx, error) {
	return tx{}, nil
}
func (c *conn) ExecContext(_ context.Context, q string, args []driver.NamedValue) (driver.Result, error) {
	c.r.record("exec", q, args)
	return driver.RowsAffected(0), nil
}
func (c *conn) QueryContext(_ context.Context, q string, args []driver.NamedValue) (driver.Rows, error) {
	c.r.record("query", q, args)
	return c.r.respond(q), nil
}
func (c *conn) Ping(context.Context) error { return nil }

// accept every Go value as a bound argument (it is data whatever it is)
func (c *conn) CheckNamedValue(*driver.NamedValue) error { return nil }

type tx struct{}

func (tx) Commit() error   { return nil }
func (tx) Rollback() error { return nil }

type stmt struct {
	r *recorder
	q string
}

func (s *stmt) Close() error  { return nil }
func (s *stmt) NumInput() int { return -1 }
func (s *stmt) Exec(args []driver.Value) (driver.Result, error) {
	s.r.record("stmt-exec", s.q, named(args))
	return driver.RowsAffected(0), nil
}
func (s *stmt) Query(args []driver.Value) (driver.Rows, error) {
	s.r.record("stmt-query", s.q, named(args))
	return s.r.respond(s.q), nil
}

type rows struct {
	cols []string
	data [][]driver.Value
	i    int
}

func (r *rows) Columns() []string { return r.cols }
func (r *rows) Close() error      { return nil }
func (r *rows) Next(dest []driver.Value) error {
	if r.i >= len(r.data) {
		return io.EOF
	}
	copy(dest, r.data[r.i])
	r.i++
	return nil
}

// ---- canned results

// selectShape derives the result columns of a SELECT from its select list (the client
// strings always come after FROM in the statements of both drivers).
func selectShape(q string, tables map[string][]string) (cols []string, table string, distinct bool, ok bool) {
	var toks []token
	for _, t := range lex(q) {
		if t.K != kComment {
			toks = append(toks, t)
		}
	}
	if len(toks) == 0 || toks[0].K != kIdent || !strings.EqualFold(toks[0].Text, "select") {
		return nil, "", false, false
	}
	i := 1
	if i < len(toks) && toks[i].K == kIdent && strings.EqualFold(toks[i].Text, "distinct") {
		distinct = true
		i++
	}
	var items [][]token
	cur := []token{}
	depth := 0
	from := -1
	for ; i < len(toks); i++ {
		t := toks[i]
		if t.K == kPunct && (t.Text == "(" || t.Text == "[") {
			depth++
		}
		if t.K == kPunct && (t.Text == ")" || t.Text == "]") {
			depth--
		}
		// "t.from" is a column reference, not the FROM keyword
		if depth == 0 && t.K == kIdent && strings.EqualFold(t.Text, "from") && !(i > 0 && toks[i-1].Text == ".") {
			from = i
			break
		}
		if depth == 0 && t.K == kPunct && t.Text == "," {
			items = append(items, cur)
			cur = []token{}
			continue
		}
		cur = append(cur, t)
	}
	items = append(items, cur)
	if from >= 0 && from+1 < len(toks) {
		table = toks[from+1].Val
	}
	colsOf := func(tb string) []string {
		if c, ok := tables[tb]; ok {
			return c
		}
		return []string{"id"}
	}
	for _, it := range items {
		if len(it) == 0 {
			continue
		}
		last := it[len(it)-1]
		switch {
		case last.K == kOp && last.Text == "*":
			if len(it) >= 3 && it[len(it)-2].Text == "." {
				cols = append(cols, colsOf(it[len(it)-3].Val)...)
			} else {
				cols = append(cols, colsOf(table)...)
			}
		default:
			cols = append(cols, last.Val)
		}
	}
	return cols, table, distinct, true
}

func (r *recorder) respond(q string) driver.Rows {
	cols, table, distinct, ok := selectShape(q, r.tables)
	if !ok {
		return &rows{}
	}
	out := &rows{cols: cols}
	if r.policy != nil {
		out.data = r.policy(q, cols, table, distinct)
	}
	return out
}

// rowFor builds one plausible row for the given columns.
func rowFor(cols []string) []driver.Value {
	row := make([]driver.Value, len(cols))
	for i, c := range cols {
		switch c {
		case "gid":
			row[i] = "r1"
		case "label":
			row[i] = "L"
		case "from":
			row[i] = "r0"
		case "to":
			row[i] = "r2"
		case "data":
			row[i] = []byte(`{"k":1}`)
		case "graph_name", "sanitized_graph_name":
			row[i] = "g"
		case "vertex_table":
			row[i] = "g_vertices"
		case "edge_table":
			row[i] = "g_edges"
		default:
			row[i] = "1"
		}
	}
	return row
}

func oneRow(_ string, cols []string, _ string, _ bool) [][]driver.Value {
	return [][]driver.Value{rowFor(cols)}
}

// buildSchemaRows: the graphs table has the graph; SELECT DISTINCT label returns the
// stored labels; the per-label sampling queries (run in goroutines by BuildSchema)
// return nothing.
func buildSchemaRows(vlabels, elabels []string) rowPolicy {
	return func(_ string, cols []string, table string, distinct bool) [][]driver.Value {
		if table == "graphs" {
			return [][]driver.Value{rowFor(cols)}
		}
		if distinct {
			ls := vlabels
			if table == "g_edges" {
				ls = elabels
			}
			var out [][]driver.Value
			for _, l := range ls {
				out = append(out, []driver.Value{l})
			}
			return out
		}
		return nil
	}
}

var tableColumns = map[string][]string{
	// psql
	"g_vertices": {"gid", "label", "data"},
	"g_edges":    {"gid", "label", "from", "to", "data"},
	"graphs":     {"graph_name", "sanitized_graph_name", "vertex_table", "edge_table"},
	// existing-sql
	"users": {"id", "name"},
	"posts": {"id", "title", "author_id"},
	"likes": {"id", "user_id", "post_id"},
}

func newRecorderDB(policy rowPolicy) (*recorder, *sqlx.DB) {
	r := &recorder{policy: policy, tables: tableColumns}
	return r, sqlx.NewDb(sql.OpenDB(connector{r}), "postgres")
}
