// Package c11: jobs faithfully store, resume and find traversals.
//
// The main level drives jobstorage.NewFSJobStorage(dir) with exactly the call sequences
// of server/job_manager.go (Submit spools pipeline.Start output; ViewJob = Stream +
// pipeline.Convert; ResumeJob = Stream + Compile(CompileOptions{PipelineExtension,
// ExtensionMarkTypes}) + pipeline.Resume; SearchJobs = Search; ListJobs = List;
// DeleteJob = Delete; GetJob = Status) and compares with running the traversal directly.
package c11

import (
	"context"
	"encoding/json"
	"fmt"
	"io"
	stdlog "log"
	"os"
	"path/filepath"
	"sort"
	"strings"
	"sync"
	"sync/atomic"
	"testing"
	"time"

	"github.com/bmeg/grip/engine"
	"github.com/bmeg/grip/engine/pipeline"
	"github.com/bmeg/grip/gdbi"
	"github.com/bmeg/grip/gripql"
	"github.com/bmeg/grip/jobstorage"
	"github.com/kennygrant/sanitize"
	"google.golang.org/protobuf/proto"
	"verif/internal/gripx"
	"verif/internal/model"
	"verif/internal/pbt"
	"verif/internal/quiesce"
)

func TestMain(m *testing.M) {
	stdlog.SetOutput(io.Discard) // jobstorage logs every job through the standard logger
	code := pbt.Main(m, pbt.Meta{
		Property: "C11",
		Level:    "exploration",
		Rule: "state machines (explicit op lists, 3..14 ops) over one jobstorage.FSJobStorage directory and two unchanged graphs on kvgraph/Badger (a random small graph; a sized graph with |V|,|E| in {0,1,3,4,5,39,40,41} and, thorough only, {4999,5000,5001}): submit(graph, traversal) / status / view / resume(job, suffix) / search(graph, traversal) / list(graph) / delete(job) / restart (= NewFSJobStorage on the same directory), driven with the call sequences of server/job_manager.go. Traversals: typed-grammar traversals and their element-typed prefixes, sized families V()/E() x {elements, render, path, selection, count, aggregation}, count/term aggregations, extensions of earlier jobs; resume suffixes: the rest of the split traversal, tails of fresh traversals, suffixes that read marks of the stored prefix; search queries: extensions, exact, proper prefixes and one-statement mutations of stored traversals, on the job's graph and on the other one. Oracle: direct execution (pipeline.Run) of the same / the concatenated traversal on the unchanged graph (multisets of canonical rows; order-sensitive traversals are compared by count only), proto-equal-prefix for search, and the machine's own bookkeeping for list/delete/restart. 400 (quick) / 3200 (thorough) machines; 12 / 160 shorter machines through a live server. Plus: a fixed scenario over pairs of graph names that file-name sanitising maps to one key, a live GripServer (restart = stop and start on the same directories) driven through the Job gRPC service with Query.Traversal as the oracle, the minimal cases of the listed findings, and subprocess confirmations (a process-killing resume; a restart with 1501 jobs under a 1024 open-file limit). " +
			"Non-trivial: the machine has a completed job with >=5 rows or a non-element result type AND at least one restart followed by a read (status/view/resume/search/list); distinct = op-list text.",
		Assumptions: []string{
			"the oracle for stored / resumed rows is bmeg/grip's own direct execution of the traversal (C01 judges that against the documentation); graphs are never mutated after the first submit",
			"a job is complete only when Status says COMPLETE (polled; an expired budget is decided by goroutine quiescence, otherwise inconclusive); row order, job id format and timestamps are not judged",
			"restart = a new NewFSJobStorage on the same directory after every submitted job was seen COMPLETE (a real restart kills running jobs; cancellation / crash of running jobs is not judged)",
			"search: jobs of one statement may or may not be returned (not judged); mark/jump traversals (C12) and the Status data race (C17) are outside this check",
		},
	})
	gripx.Cleanup()
	os.Exit(code)
}

// ---------------------------------------------------------------------------------
// case form

// Sized describes the second graph: NV vertices v0.. (labels A/B/C) and NE edges e0..
type Sized struct {
	NV int `json:"nv"`
	NE int `json:"ne"`
}

// Op is one step of the machine. Job indexes the jobs in submit order.
type Op struct {
	Kind   string       `json:"kind"` // submit status view resume search list delete restart
	Graph  int          `json:"graph,omitempty"`
	Job    int          `json:"job,omitempty"`
	Steps  []model.Step `json:"steps,omitempty"` // submit: traversal; resume: suffix; search: query
	NoWait bool         `json:"nowait,omitempty"`
}

type Case struct {
	G0  *model.Graph `json:"g0"`
	G1  Sized        `json:"g1"`
	Ops []Op         `json:"ops"`
	// BigRow > 0: the first vertex and the first edge of G0 carry a text property of that
	// many characters, so every row that shows them is larger than the line buffers a
	// reader may start with (bufio's 64 KB).
	BigRow int `json:"big_row,omitempty"`
}

// withBigRow returns g with the large property added (see Case.BigRow).
func withBigRow(g *model.Graph, n int) *model.Graph {
	if n <= 0 || g == nil {
		return g
	}
	out := &model.Graph{}
	for i, v := range g.V {
		c := *v
		if i == 0 {
			c.Data = model.CopyMap(v.Data)
			c.Data["s"] = strings.Repeat("x", n)
		}
		out.V = append(out.V, &c)
	}
	for i, e := range g.E {
		c := *e
		if i == 0 {
			c.Data = model.CopyMap(e.Data)
			c.Data["s"] = strings.Repeat("y", n)
		}
		out.E = append(out.E, &c)
	}
	return out
}

func (o Op) String() string {
	switch o.Kind {
	case "submit":
		w := ""
		if o.NoWait {
			w = ",nowait"
		}
		return fmt.Sprintf("submit(g%d,%s%s)", o.Graph, model.TravString(o.Steps), w)
	case "resume":
		return fmt.Sprintf("resume(j%d,%s)", o.Job, model.TravString(o.Steps))
	case "search":
		return fmt.Sprintf("search(g%d,%s)", o.Graph, model.TravString(o.Steps))
	case "list":
		return fmt.Sprintf("list(g%d)", o.Graph)
	case "restart":
		return "restart"
	}
	return fmt.Sprintf("%s(j%d)", o.Kind, o.Job)
}

func opsText(ops []Op) string {
	p := make([]string, len(ops))
	for i, o := range ops {
		p[i] = o.String()
	}
	return strings.Join(p, "; ")
}

func sizedGraph(s Sized) *model.Graph {
	g := &model.Graph{}
	for i := 0; i < s.NV; i++ {
		d := map[string]interface{}{"k": float64(i % 3), "s": []string{"a", "b"}[i%2]}
		if i%4 == 0 {
			d["l"] = []interface{}{1.0, "a"}
		}
		if i%5 == 0 {
			d["a"] = map[string]interface{}{"k": true, "b": "a"}
		}
		g.V = append(g.V, &model.Element{ID: fmt.Sprintf("v%d", i), Label: []string{"A", "B", "C"}[i%3], Data: d})
	}
	for i := 0; i < s.NE; i++ {
		from, to := "ghost1", "ghost2"
		if s.NV > 0 {
			from, to = fmt.Sprintf("v%d", i%s.NV), fmt.Sprintf("v%d", (i*7+1)%s.NV)
		}
		id := fmt.Sprintf("e%d", i)
		if i == 1 && s.NV > 1 {
			id = "v1" // vertex and edge ids are separate id spaces: this edge shares the id of its source
		}
		g.E = append(g.E, &model.Element{ID: id, Edge: true, Label: []string{"x", "y", "z"}[i%3], From: from, To: to,
			Data: map[string]interface{}{"k": float64(i % 2)}})
	}
	return g
}

// ---------------------------------------------------------------------------------
// graphs

type loaded struct {
	name string
	gi   gdbi.GraphInterface
}

var (
	sizedMu    sync.Mutex
	sizedCache = map[Sized]*loaded{}
)

func loadGraph(t pbt.TB, name string, g *model.Graph) *loaded {
	gi, err := gripx.Load(gripx.DB("badger"), name, g)
	if err != nil {
		t.Fatalf("INFRA: cannot load graph %q: %v", name, err)
	}
	return &loaded{name: name, gi: gi}
}

// the sized graphs are never mutated: one copy per process
func loadSized(t pbt.TB, s Sized) *loaded {
	sizedMu.Lock()
	defer sizedMu.Unlock()
	if l, ok := sizedCache[s]; ok {
		return l
	}
	l := loadGraph(t, gripx.FreshName()+"s", sizedGraph(s))
	sizedCache[s] = l
	return l
}

// ---------------------------------------------------------------------------------
// machine

const (
	jPending = iota
	jComplete
	jDeleted
	jGone // lost by a judged (known) defect: no longer followed
)

type jobRec struct {
	graph   int
	steps   []model.Step
	q       []*gripql.GraphStatement
	id      string
	want    []string // rows of the direct run (canonical, sorted)
	ty      model.Type
	ordered bool     // contains limit/skip/range/distinct
	cmp     int      // how the stored rows are judged against the direct run (cmpRows / cmpCount / cmpSelf)
	base    []string // rows of the first view (jobs not comparable with the direct run; later views must equal it)
	state   int
	man     gdbi.Manager
}

type machine struct {
	t     pbt.TB
	c     Case
	dir   string
	js    *jobstorage.FSResults
	g     [2]*loaded
	jobs  []*jobRec
	stop  bool // a known finding / inconclusive wait ended the judgement of this machine
	stats struct {
		restarts, readsAfterRestart, resumes, resumesJudged, searchHits, searches int
		bigOrNonElement                                                           bool
		restarted                                                                 bool
	}
}

// WaitBudget bounds every wait for a job / a stream; never an oracle (see quiesce).
var WaitBudget = 45 * time.Second

// Row order is never asserted. A traversal without limit/skip/range/distinct has one
// result multiset (cmpRows). With such a step the surviving rows depend on the order, but
// their number does not as long as every later step maps one row to one row (as, fields,
// render, path, select), truncates again, or counts (cmpCount). Otherwise (a fan-out or a
// filter after the truncation, a distinct after it) two runs may differ even in size: the
// job is then judged for self-consistency only (Status.Count == stored rows, rows stable
// across views and restarts) (cmpSelf).
const (
	cmpRows = iota
	cmpCount
	cmpSelf
)

func cmpMode(steps []model.Step) int {
	first := -1
	for i, s := range steps {
		if model.OrderSensitive(s) {
			first = i
			break
		}
	}
	if first < 0 {
		return cmpRows
	}
	for _, s := range steps[first+1:] {
		switch s.Op {
		case "as", "fields", "render", "path", "select", "limit", "skip", "range", "count":
		default:
			return cmpSelf
		}
	}
	return cmpCount
}

func orderSensitive(steps []model.Step) bool {
	for _, s := range steps {
		if model.OrderSensitive(s) {
			return true
		}
	}
	return false
}

func opsSig(steps []model.Step) string {
	ops := make([]string, len(steps))
	for i, s := range steps {
		ops[i] = s.Op
	}
	return strings.Join(ops, ".")
}

func (m *machine) disc(sig, format string, args ...any) {
	// Discrepancy returns only for listed findings: stop judging this machine then
	pbt.Discrepancy(m.t, m.c, sig, "%s\nops: %s", fmt.Sprintf(format, args...), opsText(m.c.Ops))
	m.stop = true
}

func (m *machine) read() {
	if m.stats.restarted {
		m.stats.readsAfterRestart++
	}
}

// collect drains ch in a harness goroutine with a hang detector. conv may panic (it runs
// bmeg/grip's Convert): the panic is reported as text.
func collect[T any](ch <-chan T, conv func(T) string) (rows []string, panicked string, verdict quiesce.Report) {
	done := make(chan struct{})
	var n int64
	go func() {
		defer close(done)
		defer func() {
			if r := recover(); r != nil {
				panicked = fmt.Sprint(r)
				go func() {
					for range ch {
					}
				}()
			}
		}()
		for x := range ch {
			rows = append(rows, conv(x))
			atomic.AddInt64(&n, 1)
		}
	}()
	verdict = quiesce.WaitReport(done, func() int64 { return atomic.LoadInt64(&n) }, WaitBudget)
	if verdict.Verdict != quiesce.Done {
		return nil, "", verdict
	}
	sort.Strings(rows)
	return rows, panicked, verdict
}

// submit mirrors GripServer.Submit.
func (m *machine) submit(op Op) {
	t := m.t
	g := m.g[op.Graph]
	ty := model.TypeCheck(op.Steps)
	if ty.Verdict != model.WellTyped {
		pbt.Class(t, "skip:submit-not-well-typed")
		m.jobs = append(m.jobs, &jobRec{graph: op.Graph, steps: op.Steps, state: jGone})
		return
	}
	q := model.Protos(op.Steps)
	direct := gripx.Run(g.gi, model.Protos(op.Steps))
	if direct.CompileErr != nil || direct.Hang {
		pbt.Class(t, "skip:direct-run-failed")
		m.jobs = append(m.jobs, &jobRec{graph: op.Graph, steps: op.Steps, state: jGone})
		return
	}
	pipe, err := g.gi.Compiler().Compile(q, nil)
	if err != nil {
		m.jobs = append(m.jobs, &jobRec{graph: op.Graph, steps: op.Steps, state: jGone})
		m.disc("submit:compile-rejected", "%s compiles for a direct run but not for a job: %v", model.TravString(op.Steps), err)
		return
	}
	man := engine.NewManager(gripx.WorkDir())
	res := pipeline.Start(context.Background(), pipe, man, 5000, nil, nil)
	id, err := m.js.Spool(g.name, &jobstorage.Stream{DataType: pipe.DataType(), MarkTypes: pipe.MarkTypes(), Pipe: res, Query: q})
	j := &jobRec{graph: op.Graph, steps: op.Steps, q: q, id: id, want: direct.Rows, ty: ty.Final, ordered: orderSensitive(op.Steps), cmp: cmpMode(op.Steps), state: jPending, man: man}
	m.jobs = append(m.jobs, j)
	if err != nil || id == "" {
		j.state = jGone
		m.disc("submit:spool-error", "Spool(%s) failed: id=%q err=%v", model.TravString(op.Steps), id, err)
		return
	}
	pbt.Class(t, "job-type:"+ty.Final.String())
	pbt.Class(t, "job-rows:"+sizeClass(len(direct.Rows)))
	if len(direct.Rows) >= 5 || !ty.Final.IsElement() {
		m.stats.bigOrNonElement = true
	}
	if !op.NoWait {
		m.await(j)
	}
}

func sizeClass(n int) string {
	switch {
	case n == 0:
		return "0"
	case n < 4:
		return "1-3"
	case n == 4:
		return "4"
	case n < 39:
		return "5-38"
	case n <= 41:
		return "39-41"
	case n < 4999:
		return "42-4998"
	case n <= 5001:
		return "4999-5001"
	}
	return ">5001"
}

// await polls the job's status until it says COMPLETE (or ERROR).
func (m *machine) await(j *jobRec) {
	if j.state != jPending || m.stop {
		return
	}
	g := m.g[j.graph]
	done := make(chan struct{})
	var quit int32
	var count int64
	var last *gripql.JobStatus
	var lastErr error
	go func() {
		defer close(done)
		pause := 20 * time.Microsecond
		for atomic.LoadInt32(&quit) == 0 {
			st, err := m.js.Status(g.name, j.id)
			last, lastErr = st, err
			if err != nil {
				return
			}
			atomic.StoreInt64(&count, int64(st.Count))
			if st.State == gripql.JobState_COMPLETE || st.State == gripql.JobState_ERROR {
				return
			}
			time.Sleep(pause)
			if pause < 2*time.Millisecond {
				pause *= 2
			}
		}
	}()
	rep := quiesce.WaitReport(done, func() int64 { return atomic.LoadInt64(&count) }, WaitBudget)
	if rep.Verdict != quiesce.Done {
		atomic.StoreInt32(&quit, 1)
		<-done
		j.state = jGone
		if rep.Verdict == quiesce.Hang {
			m.disc("submit:never-completes:"+opsSig(j.steps), "job %s (%s) never reaches COMPLETE: %s\n%s", j.id, model.TravString(j.steps), rep.Reason, rep.Stacks())
			return
		}
		pbt.Inconclusive(m.t, "job not complete within budget: "+firstWords(rep.Reason))
		m.stop = true
		return
	}
	if lastErr != nil {
		j.state = jGone
		m.disc("status:not-found-after-submit", "Status(%s,%s) after Spool: %v", g.name, j.id, lastErr)
		return
	}
	if last.State == gripql.JobState_ERROR {
		j.state = jGone
		m.disc("submit:job-error", "job %s (%s) ended in state ERROR", j.id, model.TravString(j.steps))
		return
	}
	j.state = jComplete
	if j.man != nil {
		j.man.Cleanup() // the server never does (temporary stores of distinct); harness hygiene only
		j.man = nil
	}
	m.checkStatus(j, last, m.where())
}

func (m *machine) awaitAll() {
	for _, j := range m.jobs {
		m.await(j)
	}
}

func firstWords(s string) string {
	f := strings.Fields(s)
	if len(f) > 4 {
		f = f[:4]
	}
	return strings.Join(f, " ")
}

func protoPrefix(job, query []*gripql.GraphStatement) bool {
	if len(job) > len(query) {
		return false
	}
	for i := range job {
		if !proto.Equal(job[i], query[i]) {
			return false
		}
	}
	return true
}

func sameQuery(a, b []*gripql.GraphStatement) bool {
	return len(a) == len(b) && protoPrefix(a, b)
}

// checkStatus judges a status of a completed job; where = status | restart | search.
func (m *machine) checkStatus(j *jobRec, st *gripql.JobStatus, where string) bool {
	g := m.g[j.graph]
	if st.State != gripql.JobState_COMPLETE {
		m.disc(where+":state", "job %s (%s): state %s, want COMPLETE", j.id, model.TravString(j.steps), st.State)
		return false
	}
	wantN, what := len(j.want), "the direct run returns"
	if j.cmp == cmpSelf {
		wantN, what = len(j.base), "the job stores"
	}
	if (j.cmp != cmpSelf || j.base != nil) && int(st.Count) != wantN {
		sig := "status-count"
		if where != "status" {
			sig = where + ":count"
		}
		m.disc(sig, "job %s (%s, result type %s): Status.Count=%d, %s %d rows", j.id, model.TravString(j.steps), j.ty, st.Count, what, wantN)
		return false
	}
	if st.Id != j.id || st.Graph != g.name {
		m.disc(where+":identity", "job %s on %s: status carries id=%q graph=%q", j.id, g.name, st.Id, st.Graph)
		return false
	}
	if !sameQuery(st.Query, j.q) {
		m.disc(where+":query", "job %s (%s): status carries a different query: %v", j.id, model.TravString(j.steps), st.Query)
		return false
	}
	return true
}

func (m *machine) where() string {
	if m.stats.restarted {
		return "restart"
	}
	return "status"
}

func (m *machine) statusOp(op Op) {
	j := m.job(op.Job)
	if j == nil || j.state == jGone {
		return
	}
	g := m.g[j.graph]
	st, err := m.js.Status(g.name, j.id)
	switch j.state {
	case jDeleted:
		m.read()
		if err == nil {
			m.disc("delete:status-still-found", "Status of deleted job %s still answers: %v", j.id, st)
		}
	case jPending:
		if err != nil {
			m.disc("status:not-found-after-submit", "Status(%s,%s) of a running job: %v", g.name, j.id, err)
			return
		}
		if j.cmp != cmpSelf && int(st.Count) > len(j.want) {
			m.disc("status-count", "running job %s (%s): Status.Count=%d exceeds the %d rows of the direct run", j.id, model.TravString(j.steps), st.Count, len(j.want))
		}
	case jComplete:
		m.read()
		if err != nil {
			m.disc(m.where()+":job-lost", "Status(%s,%s) of a completed job: %v", g.name, j.id, err)
			j.state = jGone
			return
		}
		m.checkStatus(j, st, m.where())
	}
}

func (m *machine) job(i int) *jobRec {
	if len(m.jobs) == 0 {
		return nil
	}
	if i < 0 {
		i = -i
	}
	return m.jobs[i%len(m.jobs)]
}

// view mirrors GripServer.ViewJob.
func (m *machine) view(j *jobRec) (rows []string, ok bool) {
	g := m.g[j.graph]
	where := "stored-rows"
	if m.stats.restarted {
		where = "restart"
	}
	stream, err := m.js.Stream(context.Background(), g.name, j.id)
	if err != nil {
		m.disc(where+":not-readable", "Stream(%s,%s) of a completed job (%s): %v", g.name, j.id, model.TravString(j.steps), err)
		return nil, false
	}
	rows, panicked, rep := collect(stream.Pipe, func(tr gdbi.Traveler) string {
		return gripx.RowCanon(pipeline.Convert(g.gi, stream.DataType, stream.MarkTypes, tr))
	})
	if rep.Verdict == quiesce.Hang {
		m.disc(where+":view-hangs:"+j.ty.String(), "reading job %s (%s) never ends: %s\n%s", j.id, model.TravString(j.steps), rep.Reason, rep.Stacks())
		return nil, false
	}
	if rep.Verdict != quiesce.Done {
		pbt.Inconclusive(m.t, "view not finished within budget")
		m.stop = true
		return nil, false
	}
	if panicked != "" {
		m.disc(where+":convert-panic:"+j.ty.String(), "pipeline.Convert panicked on a stored row of job %s (%s): %s", j.id, model.TravString(j.steps), panicked)
		return nil, false
	}
	sig := "stored-rows:" + j.ty.String()
	if m.stats.restarted {
		sig = "restart:rows:" + j.ty.String()
	}
	if j.cmp != cmpRows {
		if j.cmp == cmpCount && len(rows) != len(j.want) {
			m.disc(sig, "job %s (%s): %d stored rows, the direct run returns %d", j.id, model.TravString(j.steps), len(rows), len(j.want))
			return nil, false
		}
		if j.base == nil {
			j.base = append([]string{}, rows...)
			if st, err := m.js.Status(g.name, j.id); err == nil && int(st.Count) != len(rows) {
				m.disc("status-count", "job %s (%s, result type %s): Status.Count=%d, the job stores %d rows", j.id, model.TravString(j.steps), j.ty, st.Count, len(rows))
				return nil, false
			}
		} else if d := gripx.DiffMultiset(rows, j.base); d != "" {
			m.disc(where+":rows-changed:"+j.ty.String(), "job %s (%s): the stored rows differ from those read earlier: %s", j.id, model.TravString(j.steps), d)
			return nil, false
		}
		return rows, true
	}
	if d := gripx.DiffMultiset(rows, j.want); d != "" {
		m.disc(sig, "job %s (%s): stored rows differ from the direct run: %s", j.id, model.TravString(j.steps), d)
		return nil, false
	}
	return rows, true
}

func (m *machine) viewOp(op Op) {
	j := m.job(op.Job)
	if j == nil || j.state == jGone {
		return
	}
	m.awaitAll()
	if m.stop || j.state == jGone {
		return
	}
	m.read()
	if j.state == jDeleted {
		if _, err := m.js.Stream(context.Background(), m.g[j.graph].name, j.id); err == nil {
			m.disc("delete:still-readable", "Stream of deleted job %s still opens", j.id)
		}
		return
	}
	m.view(j)
}

// prefixMarksUsed lists the marks defined in P that R reads before redefining them.
func prefixMarksUsed(P, R []model.Step) []string {
	def := map[string]bool{}
	for _, s := range P {
		if s.Op == "as" && len(s.Args) > 0 {
			def[s.Args[0]] = true
		}
	}
	used := map[string]bool{}
	use := func(ref string) {
		if mk, _ := model.SplitRef(ref); mk != "" && def[mk] {
			used[mk] = true
		}
	}
	for _, s := range R {
		switch s.Op {
		case "as":
			if len(s.Args) > 0 {
				delete(def, s.Args[0])
			}
		case "select":
			for _, a := range s.Args {
				if def[a] {
					used[a] = true
				}
			}
		case "has":
			if s.Has != nil {
				for _, lf := range s.Has.Leaves() {
					use(lf.Key)
				}
			}
		case "hasKey", "distinct", "fields", "unwind":
			for _, a := range s.Args {
				use(a)
			}
		case "render":
			for _, r := range model.TemplateRefs(s.Template) {
				use(r)
			}
		case "aggregate":
			for _, a := range s.Aggs {
				use(a.Field)
			}
		}
	}
	return model.SortedKeys(used)
}

// crashChild is set in the subprocess that confirms a process-killing case.
var crashChild = os.Getenv("C11_CRASH_CHILD") != ""

// storedUnloadedMarks reads the stored travelers of a job and reports the marks that at
// least one of them carries without data (Loaded=false).
func (m *machine) storedUnloadedMarks(j *jobRec) (map[string]bool, bool) {
	g := m.g[j.graph]
	stream, err := m.js.Stream(context.Background(), g.name, j.id)
	if err != nil {
		where := "stored-rows"
		if m.stats.restarted {
			where = "restart"
		}
		m.disc(where+":not-readable", "Stream(%s,%s) of a completed job (%s): %v", g.name, j.id, model.TravString(j.steps), err)
		return nil, false
	}
	un := map[string]bool{}
	var mu sync.Mutex
	_, _, rep := collect(stream.Pipe, func(tr gdbi.Traveler) string {
		for _, name := range tr.ListMarks() {
			if e := tr.GetMark(name); e != nil && !e.Loaded {
				mu.Lock()
				un[name] = true
				mu.Unlock()
			}
		}
		return ""
	})
	if rep.Verdict != quiesce.Done {
		pbt.Inconclusive(m.t, "stored rows not read within budget")
		m.stop = true
		return nil, false
	}
	return un, true
}

// resumeOp mirrors GripServer.ResumeJob.
func (m *machine) resumeOp(op Op) {
	j := m.job(op.Job)
	if j == nil || j.state == jGone || len(op.Steps) == 0 {
		return
	}
	m.awaitAll()
	if m.stop || j.state == jGone {
		return
	}
	g := m.g[j.graph]
	if j.state == jDeleted {
		m.read()
		if _, err := m.js.Stream(context.Background(), g.name, j.id); err == nil {
			m.disc("delete:still-resumable", "Stream of deleted job %s still opens", j.id)
		}
		return
	}
	if !j.ty.IsElement() {
		pbt.Class(m.t, "skip:resume-of-non-element-job")
		return
	}
	full := append(append([]model.Step{}, j.steps...), op.Steps...)
	ty := model.TypeCheck(full)
	if ty.Verdict != model.WellTyped {
		pbt.Class(m.t, "skip:resume-not-well-typed")
		return
	}
	direct := gripx.Run(g.gi, model.Protos(full))
	if direct.CompileErr != nil || direct.Hang {
		pbt.Class(m.t, "skip:direct-run-failed")
		return
	}
	// symptoms of the resume itself are signed "resume:..." whether or not a restart
	// preceded (one root cause, one signature); only "the job cannot be opened any more"
	// is a restart symptom
	where := "resume"
	marks := prefixMarksUsed(j.steps, op.Steps)
	if len(marks) > 0 {
		pbt.Class(m.t, "resume:reads-prefix-mark")
	}
	var unloaded []string
	if len(marks) > 0 {
		un, ok := m.storedUnloadedMarks(j)
		if !ok {
			return
		}
		for _, mk := range marks {
			if un[mk] {
				unloaded = append(unloaded, mk)
			}
		}
		if len(unloaded) >= 2 {
			pbt.Class(m.t, "resume:reads>=2-marks-stored-by-id-only")
		}
	}
	m.read()
	m.stats.resumes++
	ctx, cancel := context.WithCancel(context.Background())
	defer cancel()
	stream, err := m.js.Stream(ctx, g.name, j.id)
	if err != nil {
		if m.stats.restarted {
			where = "restart"
		}
		m.disc(where+":not-readable", "Stream(%s,%s) of a completed job: %v", g.name, j.id, err)
		return
	}
	// the mark types the job hands out must be those of its own traversal (compiling an
	// earlier resume may have written into the very same map)
	overwritten := []string{}
	ptypes := model.TypeCheck(j.steps).Marks
	for name, dt := range stream.MarkTypes {
		want, ok := ptypes[name]
		if !ok || (want == model.TVertex) != (dt == gdbi.VertexData) || (want == model.TEdge) != (dt == gdbi.EdgeData) {
			overwritten = append(overwritten, fmt.Sprintf("%s=%s", name, dt))
		}
	}
	sort.Strings(overwritten)
	pipe, err := g.gi.Compiler().Compile(model.Protos(op.Steps), &gdbi.CompileOptions{PipelineExtension: stream.DataType, ExtensionMarkTypes: stream.MarkTypes})
	if err != nil {
		cancel()
		go func() {
			for range stream.Pipe {
			}
		}()
		m.disc(where+":compile-rejected:"+op.Steps[0].Op, "resume of job %s (%s) with %s rejected although the concatenated traversal compiles: %v", j.id, model.TravString(j.steps), model.TravString(op.Steps), err)
		return
	}
	res := pipeline.Resume(context.Background(), pipe, gripx.WorkDir(), stream.Pipe, cancel)
	rows, _, rep := collect(res, func(r *gripql.QueryResult) string { return gripx.RowCanon(r) })
	if rep.Verdict == quiesce.Hang {
		m.disc(where+":hangs:"+opsSig(op.Steps), "resume of job %s (%s) with %s never ends: %s\n%s", j.id, model.TravString(j.steps), model.TravString(op.Steps), rep.Reason, rep.Stacks())
		return
	}
	if rep.Verdict != quiesce.Done {
		pbt.Inconclusive(m.t, "resume not finished within budget")
		m.stop = true
		return
	}
	if j.ordered || orderSensitive(op.Steps) {
		pbt.Class(m.t, "resume:order-sensitive(not compared)")
		return
	}
	m.stats.resumesJudged++
	if d := gripx.DiffMultiset(rows, direct.Rows); d != "" {
		sym, note := "rows:"+ty.Final.String(), ""
		if len(overwritten) > 0 {
			// root cause visible on the job itself: an earlier resume changed its mark types
			sym, note = "mark-types-overwritten-by-earlier-resume", fmt.Sprintf(" (the job of %s now declares the mark types %v)", model.TravString(j.steps), overwritten)
		} else if len(unloaded) > 0 {
			// root cause confirmed on the stored rows: the suffix reads a mark of the
			// prefix that the job stored without its data
			sym, note = "prefix-mark-stored-without-data", fmt.Sprintf(" (the stored travelers carry mark(s) %v by id only: Loaded=false, no data)", unloaded)
		}
		m.disc(where+":"+sym, "resume(job(%s), %s) differs from running %s directly%s: %s", model.TravString(j.steps), model.TravString(op.Steps), model.TravString(full), note, d)
	}
}

func (m *machine) searchOp(op Op) {
	m.awaitAll()
	if m.stop {
		return
	}
	m.read()
	m.stats.searches++
	g := m.g[op.Graph]
	q := model.Protos(op.Steps)
	ch, err := m.js.Search(g.name, q)
	if err != nil {
		m.disc("search:error", "Search(%s,%s): %v", g.name, model.TravString(op.Steps), err)
		return
	}
	got := map[string]*gripql.JobStatus{}
	var ids []string
	for st := range ch {
		c := proto.Clone(st).(*gripql.JobStatus)
		if _, dup := got[c.Id]; dup {
			m.disc("search:duplicate", "Search(%s,%s) returned job %s twice", g.name, model.TravString(op.Steps), c.Id)
			return
		}
		got[c.Id] = c
		ids = append(ids, c.Id)
	}
	byID := map[string]*jobRec{}
	for _, j := range m.jobs {
		if j.id != "" {
			byID[j.id] = j
		}
	}
	for _, id := range ids {
		j := byID[id]
		switch {
		case j == nil:
			m.disc("search:unknown-job", "Search(%s,%s) returned job %s, which was never submitted", g.name, model.TravString(op.Steps), id)
			return
		case j.state == jGone:
			continue
		case j.state == jDeleted:
			m.disc("delete:still-found-by-search", "Search(%s,%s) returned deleted job %s", g.name, model.TravString(op.Steps), id)
			return
		case j.graph != op.Graph || got[id].Graph != g.name:
			m.disc("search:cross-graph", "Search on graph %s for %s returned job %s of graph %s (%s)", g.name, model.TravString(op.Steps), id, m.g[j.graph].name, model.TravString(j.steps))
			return
		case !protoPrefix(j.q, q):
			m.disc("search:false-positive", "Search(%s) returned job %s whose statements %s are not a prefix", model.TravString(op.Steps), id, model.TravString(j.steps))
			return
		}
		if !m.checkStatus(j, got[id], "search") {
			return
		}
	}
	hits := 0
	for _, j := range m.jobs {
		if j.state != jComplete || j.graph != op.Graph || len(j.q) < 2 || !protoPrefix(j.q, q) {
			continue
		}
		hits++
		if got[j.id] == nil {
			m.disc("search:false-negative", "Search(%s,%s) did not return job %s although its %d statements %s are a prefix", g.name, model.TravString(op.Steps), j.id, len(j.q), model.TravString(j.steps))
			return
		}
	}
	if hits > 0 {
		m.stats.searchHits++
	}
}

func (m *machine) listOp(op Op) {
	m.awaitAll()
	if m.stop {
		return
	}
	m.read()
	m.checkList(op.Graph)
}

func (m *machine) checkList(gidx int) {
	g := m.g[gidx]
	ch, err := m.js.List(g.name)
	if err != nil {
		m.disc("list:error", "List(%s): %v", g.name, err)
		return
	}
	got := map[string]int{}
	for id := range ch {
		got[id]++
	}
	where := "list"
	if m.stats.restarted {
		where = "restart"
	}
	for _, j := range m.jobs {
		if j.id == "" || j.state == jGone {
			delete(got, j.id)
			continue
		}
		n := got[j.id]
		delete(got, j.id)
		switch {
		case j.graph != gidx:
			if n > 0 {
				m.disc("list:cross-graph", "List(%s) contains job %s of graph %s", g.name, j.id, m.g[j.graph].name)
				return
			}
		case j.state == jDeleted:
			if n > 0 {
				m.disc("delete:still-listed", "List(%s) contains deleted job %s", g.name, j.id)
				return
			}
		default:
			if n == 0 {
				m.disc(where+":not-listed", "List(%s) misses job %s (%s)", g.name, j.id, model.TravString(j.steps))
				return
			}
			if n > 1 {
				m.disc("list:duplicate", "List(%s) contains job %s %d times", g.name, j.id, n)
				return
			}
		}
	}
	for id := range got {
		m.disc("list:unknown-job", "List(%s) contains job %s, which was never submitted", g.name, id)
		return
	}
}

func (m *machine) jobDir(j *jobRec) string {
	return filepath.Join(m.dir, sanitize.Name(m.g[j.graph].name), sanitize.Name(j.id))
}

func (m *machine) deleteOp(op Op) {
	j := m.job(op.Job)
	if j == nil || j.state == jGone {
		return
	}
	m.awaitAll()
	if m.stop || j.state == jGone {
		return
	}
	m.read()
	g := m.g[j.graph]
	if err := m.js.Delete(g.name, j.id); err != nil {
		m.disc("delete:error", "Delete(%s,%s): %v", g.name, j.id, err)
		return
	}
	j.state = jDeleted
	if st, err := m.js.Status(g.name, j.id); err == nil {
		m.disc("delete:status-still-found", "Status of deleted job %s still answers: %v", j.id, st)
		return
	}
	if _, err := m.js.Stream(context.Background(), g.name, j.id); err == nil {
		m.disc("delete:still-readable", "Stream of deleted job %s still opens", j.id)
		return
	}
	if _, err := os.Stat(m.jobDir(j)); err == nil {
		m.disc("delete:directory-remains", "directory %s of deleted job still exists", m.jobDir(j))
		return
	}
	m.checkList(j.graph)
}

func (m *machine) restartOp() {
	m.awaitAll()
	if m.stop {
		return
	}
	m.js = jobstorage.NewFSJobStorage(m.dir)
	m.stats.restarts++
	m.stats.restarted = true
	for _, j := range m.jobs {
		if j.id == "" || j.state == jGone {
			continue
		}
		g := m.g[j.graph]
		st, err := m.js.Status(g.name, j.id)
		if j.state == jDeleted {
			if err == nil {
				m.disc("restart:deleted-job-back", "deleted job %s is known again after a restart", j.id)
				return
			}
			continue
		}
		if err != nil {
			j.state = jGone
			// COMPLETE is published before the status file is written. Tell "the file was
			// not there yet" from a real loss: wait until the file is complete (the spool
			// goroutine's last action), then open the directory once more.
			sig := "restart:job-lost"
			for k := 0; k < 4000; k++ {
				if b, e := os.ReadFile(filepath.Join(m.jobDir(j), "status")); e == nil && len(b) > 0 && b[len(b)-1] == '\n' {
					break
				}
				time.Sleep(50 * time.Microsecond)
			}
			if _, e := jobstorage.NewFSJobStorage(m.dir).Status(g.name, j.id); e == nil {
				sig = "restart:job-lost:complete-before-status-file"
			}
			m.disc(sig, "completed job %s (%s) is unknown after a restart: %v", j.id, model.TravString(j.steps), err)
			return
		}
		if !m.checkStatus(j, st, "restart") {
			return
		}
	}
	m.checkList(0)
	if !m.stop {
		m.checkList(1)
	}
}

// audit is the closing read of every machine: every live job is still listed, has its
// status and its rows.
func (m *machine) audit() {
	m.awaitAll()
	for _, j := range m.jobs {
		if m.stop {
			return
		}
		if j.state != jComplete {
			continue
		}
		st, err := m.js.Status(m.g[j.graph].name, j.id)
		if err != nil {
			m.disc(m.where()+":job-lost", "Status of completed job %s: %v", j.id, err)
			return
		}
		if !m.checkStatus(j, st, m.where()) {
			return
		}
		m.read()
		m.view(j)
	}
	for g := 0; g < 2 && !m.stop; g++ {
		m.checkList(g)
	}
}

// runCase executes one machine.
func runCase(t pbt.TB, c Case) {
	pbt.Case(t)
	if c.G0 == nil {
		c.G0 = &model.Graph{}
	}
	g0 := c.G0 // the case file keeps the graph without the large property
	if c.BigRow > 0 {
		g0 = withBigRow(c.G0, c.BigRow)
		pbt.Class(t, "rows>64KB")
	}
	m := &machine{t: t, c: c, dir: pbt.ScratchDir("c11-jobs-")}
	defer os.RemoveAll(m.dir)
	m.dir = filepath.Join(m.dir, "jobs") // NewFSJobStorage creates it, as on a first server start
	m.js = jobstorage.NewFSJobStorage(m.dir)
	m.g[0] = loadGraph(t, gripx.FreshName()+"r", g0)
	m.g[1] = loadSized(t, c.G1)
	for _, op := range c.Ops {
		if m.stop {
			break
		}
		if op.Graph < 0 || op.Graph > 1 {
			op.Graph = 0
		}
		switch op.Kind {
		case "submit":
			m.submit(op)
		case "status":
			m.statusOp(op)
		case "view":
			m.viewOp(op)
		case "resume":
			m.resumeOp(op)
		case "search":
			m.searchOp(op)
		case "list":
			m.listOp(op)
		case "delete":
			m.deleteOp(op)
		case "restart":
			m.restartOp()
		}
	}
	if !m.stop {
		m.audit()
	}
	// let every spool goroutine finish before the directory goes away
	for _, j := range m.jobs {
		if j.state == jPending {
			m.stop = false
			m.await(j)
		}
	}
	s := m.stats
	if s.restarts > 0 {
		pbt.Class(t, "machine:restart")
	}
	if s.readsAfterRestart > 0 {
		pbt.Class(t, "machine:restart-then-read")
	}
	if s.resumes > 0 {
		pbt.Class(t, "machine:resume")
	}
	if s.resumesJudged > 0 {
		pbt.Class(t, "machine:resume-compared")
	}
	if s.searches > 0 {
		pbt.Class(t, "machine:search")
	}
	if s.searchHits > 0 {
		pbt.Class(t, "machine:search-hit")
	}
	for _, j := range m.jobs {
		if j.state == jDeleted {
			pbt.Class(t, "machine:delete")
			break
		}
	}
	if s.bigOrNonElement && s.readsAfterRestart > 0 {
		pbt.Nontrivial(t, opsText(c.Ops))
	}
}

func TestReplay(t *testing.T) {
	cf, ok := pbt.ReplayFile()
	if !ok {
		t.Skip("no replay file")
	}
	switch cf.Test {
	case "TestGraphNames":
		var c nameCase
		if err := json.Unmarshal(cf.Case, &c); err != nil {
			t.Fatal(err)
		}
		runNames(t, c)
		return
	case "TestConfirmCrash":
		confirmCrash(t)
		return
	case "TestConfirmCompleteBeforeStatusFile":
		confirmWindow(t)
		return
	case "TestConfirmManyJobsRestart":
		confirmManyJobs(t)
		return
	case "TestLiveServer":
		var c Case
		if err := json.Unmarshal(cf.Case, &c); err != nil {
			t.Fatal(err)
		}
		runLive(t, c)
		return
	}
	var c Case
	if err := json.Unmarshal(cf.Case, &c); err != nil {
		t.Fatal(err)
	}
	runCase(t, c)
}
