package c11

import (
	"context"
	"os"
	"path/filepath"
	"testing"

	"github.com/bmeg/grip/jobstorage"
	"verif/internal/gripx"
	"verif/internal/model"
	"verif/internal/pbt"
)

// nameCase: two distinct, valid graph names (gripql.ValidateGraphName accepts both) and
// one fixed scenario. Jobs belong to the graph they were submitted on: the other
// graph's name must not reach them, and every completed job survives a restart.
type nameCase struct {
	Class string `json:"class"`
	A     string `json:"a"`
	B     string `json:"b"`
}

func namePairs() []nameCase {
	u := gripx.FreshName()
	return []nameCase{
		{"control", u + "p", u + "q"},
		{"case", u + "a", u + "A"},
		{"separator", u + "x_y", u + "x-y"},
		{"accent", u + "e", u + "é"},
		{"underscore-dropped", u + "m_", u + "m"},
		// names without any ASCII letter or digit: sanitize.Name maps them to ""
		{"no-ascii", "グラフ", u + "z"},
	}
}

func runNames(t pbt.TB, c nameCase) {
	pbt.Case(t)
	pbt.Class(t, "names:"+c.Class)
	disc := func(sig, format string, args ...any) bool {
		return pbt.Discrepancy(t, c, sig, "graphs %q and %q: "+format, append([]any{c.A, c.B}, args...)...)
	}
	ga := &model.Graph{V: []*model.Element{{ID: "a1", Label: "A", Data: map[string]interface{}{"k": 1.0}}, {ID: "a2", Label: "A", Data: map[string]interface{}{}}}}
	gb := &model.Graph{V: []*model.Element{{ID: "b1", Label: "B", Data: map[string]interface{}{"k": 2.0}}}}
	dir := pbt.ScratchDir("c11-names-")
	defer os.RemoveAll(dir)
	m := &machine{t: t, c: Case{}, dir: filepath.Join(dir, "jobs")}
	m.js = jobstorage.NewFSJobStorage(m.dir)
	m.g[0] = loadGraph(t, c.A, ga)
	m.g[1] = loadGraph(t, c.B, gb)
	q := []model.Step{model.S("V"), model.S("as", "a")}
	m.submit(Op{Kind: "submit", Graph: 0, Steps: q})
	m.submit(Op{Kind: "submit", Graph: 0, Steps: q})
	m.submit(Op{Kind: "submit", Graph: 1, Steps: q})
	if m.stop || len(m.jobs) != 3 || m.jobs[0].state != jComplete || m.jobs[1].state != jComplete || m.jobs[2].state != jComplete {
		pbt.Inconclusive(t, "names: jobs not completed")
		return
	}
	pbt.Nontrivial(t, "names|"+c.Class)
	ja, ja2 := m.jobs[0], m.jobs[1]
	// the other graph's name must not reach the job
	if st, err := m.js.Status(c.B, ja.id); err == nil {
		if !disc("names:key-collision", "Status(%q, %s) answers with the job of graph %q (status graph=%q)", c.B, ja.id, c.A, st.Graph) {
			return
		}
	}
	if _, err := m.js.Stream(context.Background(), c.B, ja.id); err == nil {
		if !disc("names:key-collision", "Stream(%q, %s) opens the job of graph %q", c.B, ja.id, c.A) {
			return
		}
	}
	m.checkList(0)
	m.checkList(1)
	if m.stop {
		return
	}
	// deleting "job ja of graph B" (no such job) must leave graph A's job alone
	m.js.Delete(c.B, ja.id)
	if _, err := m.js.Status(c.A, ja.id); err != nil {
		if !disc("names:key-collision", "Delete(%q, %s) removed the job of graph %q", c.B, ja.id, c.A) {
			return
		}
	}
	// restart: the remaining jobs are still there
	m.js = jobstorage.NewFSJobStorage(m.dir)
	m.stats.restarted = true
	for _, j := range []*jobRec{ja2, m.jobs[2]} {
		if _, err := m.js.Status(m.g[j.graph].name, j.id); err != nil {
			if !disc("names:lost-on-restart", "completed job %s of graph %q is unknown after a restart: %v", j.id, m.g[j.graph].name, err) {
				return
			}
			continue
		}
		m.view(j)
		if m.stop {
			return
		}
	}
}

func TestGraphNames(t *testing.T) {
	if _, ok := pbt.ReplayFile(); ok {
		t.Skip("replay mode")
	}
	for i, c := range namePairs() {
		if !pbt.ShardOwns(i) {
			continue
		}
		runNames(t, c)
	}
	pbt.Exhaustive(t)
}
