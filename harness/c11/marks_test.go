package c11

import (
	"testing"

	"verif/internal/model"
	"verif/internal/pbt"
)

// TestMarkScenarios: every combination of (graph size, way of marking a vertex and an edge
// in one stored traversal, whether the traversal moves on afterwards, what the resumed part
// reads, restart in between). The stored rows carry marks the stored part never read by id
// only; the resumed part must see them as the concatenated traversal does. In the sized
// graphs one edge shares its id with its source vertex (vertex and edge ids are separate
// id spaces).
func TestMarkScenarios(t *testing.T) {
	if _, ok := pbt.ReplayFile(); ok {
		t.Skip("replay mode")
	}
	S := model.S
	var prefixes [][]model.Step
	for _, em := range []string{"outE", "inE", "bothE"} {
		prefixes = append(prefixes, []model.Step{S("V"), S("as", "a"), S(em), S("as", "b")})
	}
	for _, vm := range []string{"out", "in", "both"} {
		prefixes = append(prefixes, []model.Step{S("E"), S("as", "b"), S(vm), S("as", "a")})
	}
	tails := [][]model.Step{nil, {S("out")}, {S("in")}, {S("both")}}
	suffixes := [][]model.Step{
		{S("select", "a", "b")},
		{S("select", "b")},
		{{Op: "render", Template: map[string]interface{}{"a": "$a._gid", "al": "$a._label", "ak": "$a.k", "b": "$b._gid", "bl": "$b._label", "bk": "$b.k"}}},
		{{Op: "has", Has: model.Leaf("eq", "$b._label", "y")}, S("select", "a")},
	}
	i := 0
	for _, size := range []Sized{{NV: 3, NE: 3}, {NV: 5, NE: 40}, {NV: 41, NE: 39}} {
		for _, p := range prefixes {
			for _, tl := range tails {
				steps := append(append([]model.Step{}, p...), tl...)
				if model.TypeCheck(steps).Verdict != model.WellTyped {
					continue
				}
				for _, sf := range suffixes {
					for _, restart := range []bool{false, true} {
						i++
						if !pbt.ShardOwns(i) {
							continue
						}
						ops := []Op{{Kind: "submit", Graph: 1, Steps: steps}}
						if restart {
							ops = append(ops, Op{Kind: "restart"})
						}
						ops = append(ops, Op{Kind: "resume", Job: 0, Steps: sf})
						c := Case{G0: &model.Graph{}, G1: size, Ops: ops}
						pbt.Current(t, c)
						if pbt.WantSample(t) {
							pbt.Sample(t, opsText(ops))
						}
						runCase(t, c)
						if t.Failed() {
							return
						}
					}
				}
			}
		}
	}
	pbt.Exhaustive(t)
}
