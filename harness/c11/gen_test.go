package c11

import (
	"testing"

	"pgregory.net/rapid"
	"verif/internal/gen"
	"verif/internal/model"
	"verif/internal/pbt"
)

// generation-side mirror of a submitted job
type gjob struct {
	graph   int
	steps   []model.Step
	natural []model.Step // rest of the traversal the job is a prefix of
	ty      model.Type
	marks   []string
	deleted bool
}

func sizes() []int {
	s := []int{0, 1, 3, 4, 5, 39, 40, 41}
	if pbt.Thorough() {
		// the 5000-slot pipeline buffers; drawn rarely (see genSized)
		s = append(s, 4999, 5000, 5001)
	}
	return s
}

func genSized(rt *rapid.T) Sized {
	pick := func(label string) int {
		all := sizes()
		if pbt.Thorough() && rapid.IntRange(0, 19).Draw(rt, label+".big") == 0 {
			return rapid.SampledFrom(all[8:]).Draw(rt, label)
		}
		return rapid.SampledFrom(all[:8]).Draw(rt, label)
	}
	return Sized{NV: pick("nv"), NE: pick("ne")}
}

func cp(steps []model.Step) []model.Step { return append([]model.Step{}, steps...) }

func marksOf(steps []model.Step) []string {
	seen := map[string]bool{}
	var out []string
	for _, s := range steps {
		if s.Op == "as" && len(s.Args) > 0 && !seen[s.Args[0]] {
			seen[s.Args[0]] = true
			out = append(out, s.Args[0])
		}
	}
	return out
}

var aggSteps = []model.Step{
	{Op: "aggregate", Aggs: []model.Agg{{Name: "c", Kind: "count"}}},
	{Op: "aggregate", Aggs: []model.Agg{{Name: "t", Kind: "term", Field: "k"}}},
	{Op: "aggregate", Aggs: []model.Agg{{Name: "t", Kind: "term", Field: "_label"}, {Name: "c", Kind: "count"}}},
	{Op: "aggregate", Aggs: []model.Agg{{Name: "t", Kind: "term", Field: "s"}}},
}

// elementPrefixes lists the lengths k >= 1 such that steps[:k] ends on a vertex/edge type.
func elementPrefixes(steps []model.Step) []int {
	ty := model.TypeCheck(steps)
	var out []int
	for k := 1; k <= len(steps) && k <= len(ty.Types); k++ {
		if ty.Types[k-1].IsElement() {
			out = append(out, k)
		}
	}
	return out
}

// genSubmit draws the traversal of a submit op; natural is a suffix it can be resumed /
// searched with.
func genSubmit(rt *rapid.T, jobs []*gjob, graph int) (steps, natural []model.Step) {
	kind := rapid.IntRange(0, 9).Draw(rt, "submitKind")
	if kind == 9 && len(jobs) == 0 {
		kind = 0
	}
	switch kind {
	case 0, 1, 2, 3:
		T := gen.Traversal(rt, gen.TravOpts{MaxLen: 6, NoOrder: rapid.IntRange(0, 4).Draw(rt, "noOrder") != 0, RowCountHint: 5})
		ks := elementPrefixes(T)
		if len(ks) > 0 && rapid.Bool().Draw(rt, "split") {
			k := rapid.SampledFrom(ks).Draw(rt, "splitAt")
			return cp(T[:k]), cp(T[k:])
		}
		return T, nil
	case 4, 5, 6, 7:
		// sized family: V()/E() x every result type
		st := model.S(rapid.SampledFrom([]string{"V", "V", "E"}).Draw(rt, "famStart"))
		steps = []model.Step{st}
		switch rapid.IntRange(0, 11).Draw(rt, "famTerm") {
		case 8, 10: // a vertex mark and an edge mark, both read only by the resumed part
			steps = []model.Step{model.S("V"), model.S("as", "a"), model.S(rapid.SampledFrom([]string{"outE", "inE", "bothE"}).Draw(rt, "famEdgeMove")), model.S("as", "b")}
			natural = []model.Step{model.S("select", "a", "b")}
			if rapid.IntRange(0, 3).Draw(rt, "famMoveOn") > 0 {
				steps = append(steps, model.S(rapid.SampledFrom([]string{"out", "in", "both"}).Draw(rt, "famMove")))
			}
			return steps, natural
		case 9, 11:
			steps = []model.Step{model.S("E"), model.S("as", "b"), model.S(rapid.SampledFrom([]string{"out", "in", "both"}).Draw(rt, "famVertexMove")), model.S("as", "a")}
			natural = []model.Step{{Op: "render", Template: map[string]interface{}{"a": "$a._gid", "al": "$a._label", "ak": "$a.k", "b": "$b._gid", "bl": "$b._label", "bk": "$b.k"}}}
			return steps, natural
		case 0, 1:
			natural = []model.Step{model.S("out")}
		case 2:
			steps = append(steps, model.Step{Op: "render", Template: map[string]interface{}{"id": "_gid", "k": "k"}})
		case 3:
			steps = append(steps, model.S("path"))
		case 4:
			steps = append(steps, model.S("as", "a"), model.S("select", "a", "a"))
		case 5:
			steps = append(steps, model.S("count"))
		case 6:
			steps = append(steps, rapid.SampledFrom(aggSteps).Draw(rt, "famAgg"))
		case 7:
			steps = append(steps, model.S("as", "a"), model.S("out"))
			natural = []model.Step{{Op: "render", Template: map[string]interface{}{"m": "$a._gid", "mk": "$a.k", "cur": "_gid"}}}
		}
		return steps, natural
	case 8:
		// aggregation after a short element-typed prefix
		T := gen.Traversal(rt, gen.TravOpts{MaxLen: 4, NoOrder: true, NoTerminal: true})
		return append(T, rapid.SampledFrom(aggSteps).Draw(rt, "agg")), nil
	}
	// extension of an earlier job (nested prefixes for search)
	j := jobs[rapid.IntRange(0, len(jobs)-1).Draw(rt, "extOf")]
	if !j.ty.IsElement() {
		return cp(j.steps), nil
	}
	ext := j.natural
	if len(ext) == 0 {
		ext = []model.Step{model.S("out")}
	}
	full := append(cp(j.steps), ext...)
	ks := elementPrefixes(full)
	var longer []int
	for _, k := range ks {
		if k > len(j.steps) {
			longer = append(longer, k)
		}
	}
	if len(longer) == 0 {
		return full, nil
	}
	k := rapid.SampledFrom(longer).Draw(rt, "extLen")
	return cp(full[:k]), cp(full[k:])
}

func wellTyped(steps []model.Step) bool {
	return model.TypeCheck(steps).Verdict == model.WellTyped
}

// genSuffix draws a resume suffix that is well-typed after the job's traversal.
func genSuffix(rt *rapid.T, j *gjob) []model.Step {
	try := func(R []model.Step) []model.Step {
		if len(R) > 0 && wellTyped(append(cp(j.steps), R...)) {
			return R
		}
		return nil
	}
	if len(j.marks) >= 2 && rapid.IntRange(0, 2).Draw(rt, "allMarks") == 0 {
		// reads every mark of the stored prefix at once
		if R := try([]model.Step{model.S("select", j.marks...)}); R != nil {
			return R
		}
	}
	kind := rapid.IntRange(0, 9).Draw(rt, "suffixKind")
	var R []model.Step
	switch {
	case kind <= 2 && len(j.natural) > 0:
		n := rapid.IntRange(1, len(j.natural)).Draw(rt, "naturalLen")
		R = try(cp(j.natural[:n]))
	case kind <= 5:
		T := gen.Traversal(rt, gen.TravOpts{MaxLen: 5, NoOrder: rapid.IntRange(0, 4).Draw(rt, "noOrder") != 0, RowCountHint: 5})
		tail := cp(T[1:])
		startV := T[0].Op == "V"
		switch {
		case j.ty == model.TVertex && !startV:
			tail = append([]model.Step{model.S("outE")}, tail...)
		case j.ty == model.TEdge && startV:
			tail = append([]model.Step{model.S("out")}, tail...)
		}
		R = try(tail)
	case kind <= 7 && len(j.marks) > 0:
		mk := rapid.SampledFrom(j.marks).Draw(rt, "mark")
		switch rapid.IntRange(0, 5).Draw(rt, "markUse") {
		case 0:
			R = try([]model.Step{model.S("select", mk)})
		case 1:
			R = try([]model.Step{{Op: "render", Template: map[string]interface{}{"m": "$" + mk + "._gid", "mk": "$" + mk + ".k", "cur": "_gid"}}})
		case 2:
			R = try([]model.Step{{Op: "has", Has: model.Leaf("eq", "$"+mk+".k", rapid.SampledFrom([]interface{}{0.0, 1.0, "a", true}).Draw(rt, "arg"))}})
		case 3:
			R = try([]model.Step{model.S("as", "c"), model.S("select", mk, "c")})
		case 4:
			R = try([]model.Step{model.S("hasKey", "$"+mk+".k"), model.S("count")})
		case 5:
			R = try([]model.Step{model.S("select", mk), model.S("out"), model.S("path")})
		}

	}
	if R != nil {
		return R
	}
	simple := [][]model.Step{
		{model.S("count")}, {model.S("out")}, {model.S("path")}, {model.S("as", "z"), model.S("out"), model.S("select", "z", "z")},
		{{Op: "render", Template: "_gid"}}, {aggSteps[0]}, {aggSteps[1]}, {model.S("hasLabel", "A", "x")}, {model.S("in"), model.S("count")},
		{{Op: "has", Has: model.Leaf("eq", "k", 1.0)}},
	}
	R = try(cp(rapid.SampledFrom(simple).Draw(rt, "simpleSuffix")))
	if R == nil {
		R = []model.Step{model.S("count")}
	}
	return R
}

// mutate changes one statement so that the result is (almost always) not proto-equal.
func mutate(rt *rapid.T, steps []model.Step) []model.Step {
	out := cp(steps)
	i := rapid.IntRange(0, len(out)-1).Draw(rt, "mutAt")
	s := out[i]
	switch s.Op {
	case "V", "E":
		if len(s.Args) == 0 {
			s.Args = []string{"v0"}
		} else if rapid.Bool().Draw(rt, "mutDrop") {
			s.Args = nil
		} else {
			s.Args = append(cp2(s.Args), "v1")
		}
	case "out", "in", "both", "outE", "inE", "bothE":
		if rapid.Bool().Draw(rt, "mutOp") {
			s.Op = map[string]string{"out": "in", "in": "both", "both": "out", "outE": "inE", "inE": "bothE", "bothE": "outE"}[s.Op]
		} else if len(s.Args) == 0 {
			s.Args = []string{"x"}
		} else {
			s.Args = nil
		}
	case "hasLabel", "hasId", "hasKey", "fields", "distinct", "select", "as", "unwind":
		if len(s.Args) > 0 && rapid.Bool().Draw(rt, "mutArg") {
			a := cp2(s.Args)
			a[0] = a[0] + "x"
			s.Args = a
		} else {
			s.Args = append(cp2(s.Args), "b")
		}
	case "has":
		s.Has = model.Not(s.Has)
	case "limit", "skip":
		s.N++
	case "range":
		s.M++
	case "render":
		s.Template = map[string]interface{}{"other": s.Template}
	case "aggregate":
		a := append([]model.Agg{}, s.Aggs...)
		if len(a) > 0 {
			a[0].Name += "x"
		}
		s.Aggs = a
	default:
		s = model.S("hasLabel", "Z")
	}
	out[i] = s
	return out
}

func cp2(a []string) []string { return append([]string{}, a...) }

func genSearch(rt *rapid.T, jobs []*gjob) (graph int, q []model.Step) {
	if len(jobs) == 0 || rapid.IntRange(0, 9).Draw(rt, "searchRandom") == 0 {
		return rapid.IntRange(0, 1).Draw(rt, "graph"), gen.Traversal(rt, gen.TravOpts{MaxLen: 5})
	}
	j := jobs[rapid.IntRange(0, len(jobs)-1).Draw(rt, "searchJob")]
	graph = j.graph
	if rapid.IntRange(0, 4).Draw(rt, "otherGraph") == 0 {
		graph = 1 - graph
	}
	ext := j.natural
	if len(ext) == 0 {
		ext = []model.Step{model.S("out"), model.S("count")}
	}
	switch rapid.IntRange(0, 9).Draw(rt, "searchKind") {
	case 0, 1, 2, 3:
		n := rapid.IntRange(1, len(ext)).Draw(rt, "extLen")
		return graph, append(cp(j.steps), ext[:n]...)
	case 4, 5:
		return graph, cp(j.steps)
	case 6:
		if len(j.steps) > 1 {
			return graph, cp(j.steps[:len(j.steps)-1])
		}
		return graph, cp(j.steps)
	}
	return graph, append(mutate(rt, j.steps), ext...)
}

func genOps(rt *rapid.T) []Op {
	n := rapid.IntRange(3, 14).Draw(rt, "nOps")
	var ops []Op
	var jobs []*gjob
	addSubmit := func() {
		g := rapid.IntRange(0, 1).Draw(rt, "graph")
		steps, natural := genSubmit(rt, jobs, g)
		ty := model.TypeCheck(steps)
		jobs = append(jobs, &gjob{graph: g, steps: steps, natural: natural, ty: ty.Final, marks: marksOf(steps)})
		ops = append(ops, Op{Kind: "submit", Graph: g, Steps: steps, NoWait: rapid.IntRange(0, 2).Draw(rt, "nowait") == 0})
	}
	addSubmit()
	for it := 1; it < n; it++ {
		k := rapid.IntRange(0, 19).Draw(rt, "opKind")
		pickJob := func() int { return rapid.IntRange(0, len(jobs)-1).Draw(rt, "job") }
		switch {
		case k < 5:
			if len(jobs) < 7 {
				addSubmit()
			}
		case k < 6:
			ops = append(ops, Op{Kind: "status", Job: pickJob()})
		case k < 8:
			ops = append(ops, Op{Kind: "view", Job: pickJob()})
		case k < 12:
			// prefer element-typed live jobs
			var cand []int
			for i, j := range jobs {
				if j.ty.IsElement() && !j.deleted {
					cand = append(cand, i)
				}
			}
			if len(cand) == 0 {
				continue
			}
			// half of the time one of the jobs that carry several marks, if there is one
			var multi []int
			for _, i := range cand {
				if len(jobs[i].marks) >= 2 {
					multi = append(multi, i)
				}
			}
			if len(multi) > 0 && rapid.Bool().Draw(rt, "resumeMultiMark") {
				cand = multi
			}
			i := rapid.SampledFrom(cand).Draw(rt, "resumeJob")
			ops = append(ops, Op{Kind: "resume", Job: i, Steps: genSuffix(rt, jobs[i])})
		case k < 15:
			g, q := genSearch(rt, jobs)
			ops = append(ops, Op{Kind: "search", Graph: g, Steps: q})
		case k < 16:
			ops = append(ops, Op{Kind: "list", Graph: rapid.IntRange(0, 1).Draw(rt, "graph")})
		case k < 17:
			i := pickJob()
			jobs[i].deleted = true
			ops = append(ops, Op{Kind: "delete", Job: i})
		default:
			ops = append(ops, Op{Kind: "restart"})
		}
	}
	return ops
}

func TestMachines(t *testing.T) {
	pbt.Check(t, 400, 3200, func(rt *rapid.T) {
		c := Case{G0: gen.Graph(rt, 6, 12), G1: genSized(rt), Ops: genOps(rt)}
		if rapid.IntRange(0, 7).Draw(rt, "bigRow") == 0 {
			c.BigRow = rapid.SampledFrom([]int{66000, 140000, 1100000}).Draw(rt, "bigRowLen")
		}
		pbt.Current(rt, c)
		if pbt.WantSample(rt) {
			pbt.Sample(rt, map[string]interface{}{"g1": c.G1, "ops": opsText(c.Ops)})
		}
		runCase(rt, c)
	})
}
