package c11

// Level (ii): the same kind of machine through the Job gRPC service of a live
// GripServer (server.NewGripServer + Serve on loopback, Badger store and work directory
// under the run's scratch directory). restart = stop the server, start a new one on the
// same directories. The oracle for rows is the server's own Query.Traversal.

import (
	"bytes"
	"context"
	"encoding/json"
	"fmt"
	"io"
	"net"
	"os"
	"path/filepath"
	"sort"
	"testing"
	"time"

	"github.com/bmeg/grip/config"
	"github.com/bmeg/grip/gdbi"
	"github.com/bmeg/grip/gripql"
	"github.com/bmeg/grip/server"
	"google.golang.org/grpc"
	"google.golang.org/grpc/credentials/insecure"
	"google.golang.org/protobuf/types/known/structpb"
	"pgregory.net/rapid"
	"verif/internal/gen"
	"verif/internal/gripx"
	"verif/internal/model"
	"verif/internal/pbt"
)

type live struct {
	dir    string
	conn   *grpc.ClientConn
	J      gripql.JobClient
	Q      gripql.QueryClient
	E      gripql.EditClient
	cancel context.CancelFunc
	done   chan error
}

func freePort() (string, error) {
	l, err := net.Listen("tcp", "127.0.0.1:0")
	if err != nil {
		return "", err
	}
	defer l.Close()
	return fmt.Sprint(l.Addr().(*net.TCPAddr).Port), nil
}

// startLive starts a server on dir (Badger store dir/badger.db, work dir dir/work).
func startLive(dir string) (*live, error) {
	var lastErr error
	for attempt := 0; attempt < 5; attempt++ {
		rpcPort, err := freePort()
		if err != nil {
			return nil, err
		}
		httpPort, err := freePort()
		if err != nil {
			return nil, err
		}
		conf := config.DefaultConfig()
		conf.Server.HostName = "127.0.0.1"
		conf.Server.RPCPort = rpcPort
		conf.Server.HTTPPort = httpPort
		conf.Server.WorkDir = filepath.Join(dir, "work")
		db := filepath.Join(dir, "badger.db")
		conf.Drivers["badger"] = config.DriverConfig{Badger: &db}
		conf.Default = "badger"
		srv, err := server.NewGripServer(conf, dir, nil)
		if err != nil {
			return nil, err
		}
		ctx, cancel := context.WithCancel(context.Background())
		l := &live{dir: dir, cancel: cancel, done: make(chan error, 1)}
		go func() { l.done <- srv.Serve(ctx) }()
		dctx, dcancel := context.WithTimeout(ctx, 20*time.Second)
		conn, err := grpc.DialContext(dctx, "127.0.0.1:"+rpcPort, grpc.WithTransportCredentials(insecure.NewCredentials()), grpc.WithBlock())
		dcancel()
		if err == nil {
			// make sure it is our server that answers
			cl := gripql.NewQueryClient(conn)
			cctx, ccancel := context.WithTimeout(ctx, 20*time.Second)
			_, err = cl.ListGraphs(cctx, &gripql.Empty{})
			ccancel()
		}
		if err != nil {
			lastErr = err
			if conn != nil {
				conn.Close()
			}
			cancel()
			select {
			case <-l.done:
			case <-time.After(20 * time.Second):
				return nil, fmt.Errorf("server did not stop after a failed start: %v", lastErr)
			}
			continue
		}
		l.conn = conn
		l.J, l.Q, l.E = gripql.NewJobClient(conn), gripql.NewQueryClient(conn), gripql.NewEditClient(conn)
		return l, nil
	}
	return nil, lastErr
}

func (l *live) stop() error {
	l.conn.Close()
	l.cancel()
	select {
	case <-l.done:
		return nil // Serve reports "http: Server closed" on every orderly shutdown
	case <-time.After(60 * time.Second):
		return fmt.Errorf("server did not stop")
	}
}

func mustStruct(m map[string]interface{}) *structpb.Struct {
	s, err := structpb.NewStruct(model.CopyMap(m))
	if err != nil {
		panic(err)
	}
	return s
}

func (l *live) load(ctx context.Context, name string, g *model.Graph) error {
	if _, err := l.E.AddGraph(ctx, &gripql.GraphID{Graph: name}); err != nil {
		return err
	}
	for _, v := range g.V {
		if _, err := l.E.AddVertex(ctx, &gripql.GraphElement{Graph: name, Vertex: &gripql.Vertex{Gid: v.ID, Label: v.Label, Data: mustStruct(v.Data)}}); err != nil {
			return err
		}
	}
	for _, e := range g.E {
		if _, err := l.E.AddEdge(ctx, &gripql.GraphElement{Graph: name, Edge: &gripql.Edge{Gid: e.ID, Label: e.Label, From: e.From, To: e.To, Data: mustStruct(e.Data)}}); err != nil {
			return err
		}
	}
	return nil
}

type recvr[T any] interface{ Recv() (T, error) }

func drain[T any](s recvr[T], f func(T)) error {
	for {
		x, err := s.Recv()
		if err == io.EOF {
			return nil
		}
		if err != nil {
			return err
		}
		f(x)
	}
}

// storedUnloaded reads the job's results file below the server's work directory and
// reports the marks that some stored traveler carries by id only.
func storedUnloaded(dir, graph, id string) map[string]bool {
	un := map[string]bool{}
	b, err := os.ReadFile(filepath.Join(dir, "work", "jobs", graph, id, "results"))
	if err != nil {
		return un
	}
	for _, line := range bytes.Split(b, []byte("\n")) {
		tr := gdbi.BaseTraveler{}
		if len(line) == 0 || json.Unmarshal(line, &tr) != nil {
			continue
		}
		for name, e := range tr.Marks {
			if e != nil && !e.Loaded {
				un[name] = true
			}
		}
	}
	return un
}

// retypedMarks lists the marks of P that R assigns again on another element type.
func retypedMarks(P, R []model.Step) []string {
	pt := model.TypeCheck(P)
	full := model.TypeCheck(append(cp(P), R...))
	var out []string
	for i, s := range R {
		if s.Op != "as" || len(s.Args) == 0 {
			continue
		}
		if was, ok := pt.Marks[s.Args[0]]; ok && len(P)+i-1 < len(full.Types) && len(P)+i-1 >= 0 && full.Types[len(P)+i-1] != was {
			out = append(out, s.Args[0])
		}
	}
	return out
}

type liveJob struct {
	retyped map[string]bool
	graph   int
	steps   []model.Step
	q       []*gripql.GraphStatement
	id      string
	want    []string
	ty      model.Type
	ordered bool
	cmp     int
	base    []string
	state   int
}

func runLive(t pbt.TB, c Case) {
	pbt.Case(t)
	if c.G0 == nil {
		c.G0 = &model.Graph{}
	}
	dir := pbt.ScratchDir("c11-live-")
	defer os.RemoveAll(dir)
	l, err := startLive(dir)
	if err != nil {
		t.Fatalf("INFRA: cannot start a live server: %v", err)
	}
	defer func() {
		if l != nil {
			l.stop()
		}
	}()
	ctx, cancelAll := context.WithTimeout(context.Background(), 5*time.Minute) // bounds infrastructure, never an oracle
	defer cancelAll()
	names := [2]string{gripx.FreshName() + "l", gripx.FreshName() + "m"}
	if err := l.load(ctx, names[0], c.G0); err != nil {
		t.Fatalf("INFRA: load: %v", err)
	}
	if err := l.load(ctx, names[1], sizedGraph(c.G1)); err != nil {
		t.Fatalf("INFRA: load: %v", err)
	}
	stopped := false
	disc := func(sig, format string, args ...any) {
		pbt.Discrepancy(t, c, sig, "%s\nops: %s", fmt.Sprintf(format, args...), opsText(c.Ops))
		stopped = true
	}
	traverse := func(g int, steps []model.Step) ([]string, error) {
		s, err := l.Q.Traversal(ctx, &gripql.GraphQuery{Graph: names[g], Query: model.Protos(steps)})
		if err != nil {
			return nil, err
		}
		var rows []string
		err = drain[*gripql.QueryResult](s, func(r *gripql.QueryResult) { rows = append(rows, gripx.RowCanon(r)) })
		sort.Strings(rows)
		return rows, err
	}
	var jobs []*liveJob
	job := func(i int) *liveJob {
		if len(jobs) == 0 {
			return nil
		}
		if i < 0 {
			i = -i
		}
		return jobs[i%len(jobs)]
	}
	restarted, readAfterRestart, big, resumed, searchHit := false, false, false, false, false
	read := func() {
		if restarted {
			readAfterRestart = true
		}
	}
	checkStatus := func(j *liveJob, st *gripql.JobStatus, where string) bool {
		switch {
		case st.State != gripql.JobState_COMPLETE:
			disc("live:"+where+":state", "job %s: state %s", j.id, st.State)
		case j.cmp != cmpSelf && int(st.Count) != len(j.want):
			disc("live:"+where+":count", "job %s (%s): Count=%d, the direct traversal returns %d rows", j.id, model.TravString(j.steps), st.Count, len(j.want))
		case st.Id != j.id || st.Graph != names[j.graph] || !sameQuery(st.Query, j.q):
			disc("live:"+where+":identity", "job %s: status carries id=%q graph=%q query=%v", j.id, st.Id, st.Graph, st.Query)
		default:
			return true
		}
		return false
	}
	where := func() string {
		if restarted {
			return "restart"
		}
		return "status"
	}
	view := func(j *liveJob) {
		s, err := l.J.ViewJob(ctx, &gripql.QueryJob{Id: j.id, Graph: names[j.graph]})
		var rows []string
		if err == nil {
			err = drain[*gripql.QueryResult](s, func(r *gripql.QueryResult) { rows = append(rows, gripx.RowCanon(r)) })
		}
		if err != nil {
			disc("live:view:error", "ViewJob(%s): %v", j.id, err)
			return
		}
		sort.Strings(rows)
		sig := "live:stored-rows:" + j.ty.String()
		if restarted {
			sig = "live:restart:rows:" + j.ty.String()
		}
		if j.cmp != cmpRows {
			switch {
			case j.cmp == cmpCount && len(rows) != len(j.want):
				disc(sig, "job %s (%s): %d stored rows, the direct traversal returns %d", j.id, model.TravString(j.steps), len(rows), len(j.want))
			case j.base == nil:
				j.base = rows
			case gripx.DiffMultiset(rows, j.base) != "":
				disc("live:rows-changed:"+j.ty.String(), "job %s (%s): the stored rows differ from those read earlier: %s", j.id, model.TravString(j.steps), gripx.DiffMultiset(rows, j.base))
			}
			return
		}
		if d := gripx.DiffMultiset(rows, j.want); d != "" {
			disc(sig, "job %s (%s): stored rows differ from the direct traversal: %s", j.id, model.TravString(j.steps), d)
		}
	}
	list := func(g int) {
		s, err := l.J.ListJobs(ctx, &gripql.GraphID{Graph: names[g]})
		got := map[string]int{}
		if err == nil {
			err = drain[*gripql.QueryJob](s, func(q *gripql.QueryJob) { got[q.Id]++ })
		}
		if err != nil {
			disc("live:list:error", "ListJobs(%s): %v", names[g], err)
			return
		}
		for _, j := range jobs {
			n := got[j.id]
			delete(got, j.id)
			switch {
			case j.state == jGone:
			case j.graph != g && n > 0:
				disc("live:list:cross-graph", "ListJobs(%s) contains job %s of %s", names[g], j.id, names[j.graph])
				return
			case j.graph == g && j.state == jDeleted && n > 0:
				disc("live:delete:still-listed", "ListJobs(%s) contains deleted job %s", names[g], j.id)
				return
			case j.graph == g && j.state == jComplete && n != 1:
				w := "list"
				if restarted {
					w = "restart"
				}
				disc("live:"+w+":not-listed", "ListJobs(%s) contains job %s %d times", names[g], j.id, n)
				return
			}
		}
		for id := range got {
			disc("live:list:unknown-job", "ListJobs(%s) contains unknown job %s", names[g], id)
			return
		}
	}
	for _, op := range c.Ops {
		if stopped {
			break
		}
		if op.Graph < 0 || op.Graph > 1 {
			op.Graph = 0
		}
		switch op.Kind {
		case "submit":
			ty := model.TypeCheck(op.Steps)
			j := &liveJob{graph: op.Graph, steps: op.Steps, q: model.Protos(op.Steps), ty: ty.Final, ordered: orderSensitive(op.Steps), cmp: cmpMode(op.Steps), state: jGone}
			jobs = append(jobs, j)
			if ty.Verdict != model.WellTyped {
				continue
			}
			want, err := traverse(op.Graph, op.Steps)
			if err != nil {
				pbt.Class(t, "skip:direct-run-failed")
				continue
			}
			j.want = want
			qj, err := l.J.Submit(ctx, &gripql.GraphQuery{Graph: names[op.Graph], Query: j.q})
			if err != nil || qj.GetId() == "" {
				disc("live:submit:error", "Submit(%s): %v", model.TravString(op.Steps), err)
				continue
			}
			j.id = qj.Id
			// poll the status (bounded; an expired budget is inconclusive at this level)
			pause := 50 * time.Microsecond
			deadline := time.Now().Add(WaitBudget)
			for {
				st, err := l.J.GetJob(ctx, &gripql.QueryJob{Id: j.id, Graph: names[op.Graph]})
				if err != nil {
					disc("live:status:not-found-after-submit", "GetJob(%s) after Submit: %v", j.id, err)
					break
				}
				if st.State == gripql.JobState_COMPLETE || st.State == gripql.JobState_ERROR {
					j.state = jComplete
					checkStatus(j, st, where())
					break
				}
				if time.Now().After(deadline) {
					pbt.Inconclusive(t, "live: job not complete within budget")
					stopped = true
					break
				}
				time.Sleep(pause)
				if pause < 2*time.Millisecond {
					pause *= 2
				}
			}
			pbt.Class(t, "job-type:"+ty.Final.String())
			if len(want) >= 5 || !ty.Final.IsElement() {
				big = true
			}
		case "status":
			j := job(op.Job)
			if j == nil || j.state == jGone {
				continue
			}
			read()
			st, err := l.J.GetJob(ctx, &gripql.QueryJob{Id: j.id, Graph: names[j.graph]})
			if j.state == jDeleted {
				if err == nil {
					disc("live:delete:status-still-found", "GetJob of deleted job %s answers: %v", j.id, st)
				}
				continue
			}
			if err != nil {
				j.state = jGone
				disc("live:"+where()+":job-lost", "GetJob(%s): %v", j.id, err)
				continue
			}
			checkStatus(j, st, where())
		case "view":
			j := job(op.Job)
			if j == nil || j.state != jComplete {
				continue
			}
			read()
			view(j)
		case "resume":
			j := job(op.Job)
			if j == nil || j.state != jComplete || !j.ty.IsElement() || len(op.Steps) == 0 {
				continue
			}
			full := append(cp(j.steps), op.Steps...)
			ty := model.TypeCheck(full)
			if ty.Verdict != model.WellTyped {
				continue
			}
			want, err := traverse(j.graph, full)
			if err != nil {
				pbt.Class(t, "skip:direct-run-failed")
				continue
			}
			read()
			resumed = true
			s, err := l.J.ResumeJob(ctx, &gripql.ExtendQuery{SrcId: j.id, Graph: names[j.graph], Query: model.Protos(op.Steps)})
			var rows []string
			if err == nil {
				err = drain[*gripql.QueryResult](s, func(r *gripql.QueryResult) { rows = append(rows, gripx.RowCanon(r)) })
			}
			defer0 := retypedMarks(j.steps, op.Steps)
			markRetyped := func() {
				for _, mk := range defer0 {
					if j.retyped == nil {
						j.retyped = map[string]bool{}
					}
					j.retyped[mk] = true
				}
			}
			if err != nil {
				markRetyped()
				disc("live:resume:error", "ResumeJob(%s, %s): %v", j.id, model.TravString(op.Steps), err)
				continue
			}
			if j.ordered || orderSensitive(op.Steps) {
				markRetyped()
				continue
			}
			sort.Strings(rows)
			defer0b := markRetyped
			if d := gripx.DiffMultiset(rows, want); d != "" {
				sym := "rows:" + ty.Final.String()
				un := storedUnloaded(dir, names[j.graph], j.id)
				for _, mk := range prefixMarksUsed(j.steps, op.Steps) {
					if j.retyped[mk] {
						sym = "mark-types-overwritten-by-earlier-resume"
						break
					}
					if un[mk] {
						sym = "prefix-mark-stored-without-data"
					}
				}
				disc("live:resume:"+sym, "ResumeJob(job(%s), %s) differs from Traversal(%s): %s", model.TravString(j.steps), model.TravString(op.Steps), model.TravString(full), d)
			}
			defer0b()
		case "search":
			read()
			q := model.Protos(op.Steps)
			s, err := l.J.SearchJobs(ctx, &gripql.GraphQuery{Graph: names[op.Graph], Query: q})
			got := map[string]*gripql.JobStatus{}
			if err == nil {
				err = drain[*gripql.JobStatus](s, func(st *gripql.JobStatus) { got[st.Id] = st })
			}
			if err != nil {
				disc("live:search:error", "SearchJobs(%s): %v", model.TravString(op.Steps), err)
				continue
			}
			for _, j := range jobs {
				st := got[j.id]
				delete(got, j.id)
				isPrefix := j.graph == op.Graph && protoPrefix(j.q, q)
				switch {
				case j.state == jGone || stopped:
				case st != nil && j.state == jDeleted:
					disc("live:delete:still-found-by-search", "SearchJobs returned deleted job %s", j.id)
				case st != nil && j.graph != op.Graph:
					disc("live:search:cross-graph", "SearchJobs on %s returned job %s of %s", names[op.Graph], j.id, names[j.graph])
				case st != nil && !isPrefix:
					disc("live:search:false-positive", "SearchJobs(%s) returned job %s (%s)", model.TravString(op.Steps), j.id, model.TravString(j.steps))
				case st == nil && isPrefix && len(j.q) >= 2 && j.state == jComplete:
					disc("live:search:false-negative", "SearchJobs(%s) did not return job %s (%s)", model.TravString(op.Steps), j.id, model.TravString(j.steps))
				case st != nil:
					searchHit = true
					checkStatus(j, st, "search")
				}
			}
			for id := range got {
				if !stopped {
					disc("live:search:unknown-job", "SearchJobs returned unknown job %s", id)
				}
			}
		case "list":
			read()
			list(op.Graph)
		case "delete":
			j := job(op.Job)
			if j == nil || j.state != jComplete {
				continue
			}
			read()
			st, err := l.J.DeleteJob(ctx, &gripql.QueryJob{Id: j.id, Graph: names[j.graph]})
			if err != nil {
				disc("live:delete:error", "DeleteJob(%s): %v", j.id, err)
				continue
			}
			j.state = jDeleted
			if st.State != gripql.JobState_DELETED {
				disc("live:delete:state", "DeleteJob(%s) answers state %s", j.id, st.State)
				continue
			}
			if st, err := l.J.GetJob(ctx, &gripql.QueryJob{Id: j.id, Graph: names[j.graph]}); err == nil {
				disc("live:delete:status-still-found", "GetJob of deleted job %s answers: %v", j.id, st)
				continue
			}
			if _, err := os.Stat(filepath.Join(dir, "work", "jobs", names[j.graph], j.id)); err == nil {
				disc("live:delete:directory-remains", "directory of deleted job %s still exists", j.id)
				continue
			}
			list(j.graph)
		case "restart":
			if err := l.stop(); err != nil {
				l = nil
				t.Fatalf("INFRA: server stop: %v", err)
			}
			l, err = startLive(dir)
			if err != nil {
				l = nil
				t.Fatalf("INFRA: cannot restart the live server: %v", err)
			}
			restarted = true
			pbt.Class(t, "live:restart")
			for _, j := range jobs {
				j.retyped = nil // the overwritten mark types lived in the old server's memory only
			}
			for _, j := range jobs {
				if stopped || j.state == jGone {
					continue
				}
				st, err := l.J.GetJob(ctx, &gripql.QueryJob{Id: j.id, Graph: names[j.graph]})
				if j.state == jDeleted {
					if err == nil {
						disc("live:restart:deleted-job-back", "deleted job %s is known again after a restart", j.id)
					}
					continue
				}
				if err != nil {
					j.state = jGone
					disc("live:restart:job-lost", "completed job %s (%s) is unknown after a restart: %v", j.id, model.TravString(j.steps), err)
					continue
				}
				checkStatus(j, st, "restart")
			}
		}
	}
	// closing audit
	for _, j := range jobs {
		if stopped {
			break
		}
		if j.state == jComplete {
			read()
			view(j)
		}
	}
	for g := 0; g < 2 && !stopped; g++ {
		list(g)
	}
	if readAfterRestart {
		pbt.Class(t, "live:restart-then-read")
	}
	if resumed {
		pbt.Class(t, "live:resume")
	}
	if searchHit {
		pbt.Class(t, "live:search-hit")
	}
	if big && readAfterRestart {
		pbt.Nontrivial(t, "live|"+opsText(c.Ops))
	}
}

// TestLiveServer: short machines (every submit waits; at most one restart) through gRPC.
func TestLiveServer(t *testing.T) {
	pbt.Check(t, 12, 160, func(rt *rapid.T) {
		ops := genOps(rt)
		restarts := 0
		kept := ops[:0]
		for _, op := range ops {
			if op.Kind == "restart" {
				restarts++
				if restarts > 1 {
					continue
				}
			}
			op.NoWait = false
			kept = append(kept, op)
		}
		small := Sized{NV: rapid.SampledFrom([]int{0, 1, 4, 5, 40, 41}).Draw(rt, "nv"), NE: rapid.SampledFrom([]int{0, 3, 5, 41}).Draw(rt, "ne")}
		c := Case{G0: gen.Graph(rt, 6, 12), G1: small, Ops: kept}
		pbt.Current(rt, c)
		if pbt.WantSample(rt) {
			pbt.Sample(rt, map[string]interface{}{"g1": c.G1, "ops": opsText(c.Ops)})
		}
		runLive(rt, c)
	})
}
