package c11

import (
	"bytes"
	"context"
	"encoding/json"
	"fmt"
	"os"
	"os/exec"
	"path/filepath"
	"strings"
	"syscall"
	"testing"
	"time"

	"github.com/bmeg/grip/engine"
	"github.com/bmeg/grip/engine/pipeline"
	"github.com/bmeg/grip/gripql"
	"github.com/bmeg/grip/jobstorage"
	"verif/internal/gripx"
	"verif/internal/model"
	"verif/internal/pbt"
)

func tinyGraph() *model.Graph {
	return &model.Graph{
		V: []*model.Element{{ID: "v0", Label: "A", Data: map[string]interface{}{"k": 1.0}}, {ID: "v1", Label: "B", Data: map[string]interface{}{"k": 2.0}}},
		E: []*model.Element{{ID: "e0", Edge: true, Label: "x", From: "v0", To: "v1", Data: map[string]interface{}{"k": 3.0}}},
	}
}

// minimal cases of the findings listed in /verif/known/C11.json
func confirmCases() []Case {
	V, out, outE := model.S("V"), model.S("out"), model.S("outE")
	return []Case{
		// the suffix reads data of a mark that the stored prefix never read
		{G0: tinyGraph(), Ops: []Op{
			{Kind: "submit", Steps: []model.Step{V, model.S("as", "a"), out}},
			{Kind: "resume", Job: 0, Steps: []model.Step{{Op: "render", Template: map[string]interface{}{"cur": "_gid", "mk": "$a.k"}}}},
		}},
		{G0: tinyGraph(), Ops: []Op{
			{Kind: "submit", Steps: []model.Step{V, outE, model.S("as", "b"), out}},
			{Kind: "restart"},
			{Kind: "resume", Job: 0, Steps: []model.Step{{Op: "has", Has: model.Leaf("eq", "$b.k", 3.0)}}},
		}},
		// a resume that re-uses a mark name with another element type must not change what
		// later resumes of the same job see
		{G0: tinyGraph(), Ops: []Op{
			{Kind: "submit", Steps: []model.Step{V, model.S("as", "a"), out, {Op: "has", Has: model.Leaf("eq", "$a.k", 1.0)}}},
			{Kind: "resume", Job: 0, Steps: []model.Step{model.S("inE"), model.S("as", "a"), model.S("count")}},
			{Kind: "resume", Job: 0, Steps: []model.Step{model.S("as", "c"), model.S("select", "a", "c")}},
		}},
	}
}

// crashCase: the selected edge mark b is stored by id only; pipeline.Convert then
// dereferences a nil *gripql.Edge inside pipeline.Resume's goroutine.
func crashCase() Case {
	return Case{G0: tinyGraph(), Ops: []Op{
		{Kind: "submit", Steps: []model.Step{model.S("V"), model.S("outE"), model.S("as", "b"), model.S("out")}},
		{Kind: "resume", Job: 0, Steps: []model.Step{model.S("as", "c"), model.S("select", "b", "c")}},
	}}
}

func TestConfirmKnown(t *testing.T) {
	if _, ok := pbt.ReplayFile(); ok {
		t.Skip("replay mode")
	}
	if !pbt.ShardOwns(0) {
		t.Skip("runs on shard 0")
	}
	for _, c := range confirmCases() {
		runCase(t, c)
	}
}

// TestCrashChild runs only in the subprocess started by TestConfirmCrash.
func TestCrashChild(t *testing.T) {
	if !crashChild {
		t.Skip("only as a child of TestConfirmCrash")
	}
	runCase(t, crashCase())
}

// TestConfirmCrash replays the process-killing case (which the generator steers away
// from) in a subprocess.
func TestConfirmCrash(t *testing.T) {
	if _, ok := pbt.ReplayFile(); ok {
		t.Skip("replay mode")
	}
	if !pbt.ShardOwns(1 % pbt.NShards()) {
		t.Skip("runs on one shard")
	}
	confirmCrash(t)
}

func confirmCrash(t *testing.T) {
	pbt.Case(t)
	env := childEnv("C11_CRASH_CHILD=1")
	ctx, cancel := context.WithTimeout(context.Background(), 5*time.Minute)
	defer cancel()
	cmd := exec.CommandContext(ctx, os.Args[0], "-test.run", "^TestCrashChild$", "-test.v")
	cmd.Env = env
	cmd.Dir = pbt.ScratchDir("c11-child-")
	defer os.RemoveAll(cmd.Dir)
	var buf bytes.Buffer
	cmd.Stdout, cmd.Stderr = &buf, &buf
	err := cmd.Run()
	out := buf.String()
	c := crashCase()
	switch {
	case err == nil:
		if !strings.Contains(out, "--- PASS: TestCrashChild") {
			t.Fatalf("INFRA: crash child did not run the case:\n%s", clip(out, 3000))
		}
		return // no crash, rows equal
	case ctx.Err() != nil:
		pbt.Inconclusive(t, "crash child did not finish")
	case strings.Contains(out, "panic:") && strings.Contains(out, "pipeline.Convert"):
		i := strings.Index(out, "panic:")
		pbt.Discrepancy(t, c, "resume:selection-unloaded-edge:process-crash", "ops: %s\nthe process dies in pipeline.Resume's goroutine:\n%s", opsText(c.Ops), clip(out[i:], 900))
	case strings.Contains(out, "DISCREPANCY sig="):
		i := strings.Index(out, "DISCREPANCY sig=")
		pbt.Discrepancy(t, c, "resume:selection-of-prefix-edge-mark", "ops: %s\n%s", opsText(c.Ops), clip(out[i:], 900))
	default:
		t.Fatalf("INFRA: crash child failed in an unexpected way: %v\n%s", err, clip(out, 3000))
	}
}

func clip(s string, n int) string {
	if len(s) > n {
		return s[:n] + "…"
	}
	return s
}

// TestConfirmCompleteBeforeStatusFile: Status reports COMPLETE before the status file
// (the only thing a restarted server reads) has been written. A client that sees
// COMPLETE, followed by a restart inside that window, loses the job. The window is a few
// microseconds wide, so this test polls without pausing and restarts at once, for a
// bounded number of small jobs; it reports the first loss (a run without a loss proves
// nothing and is silent).
func TestConfirmCompleteBeforeStatusFile(t *testing.T) {
	if _, ok := pbt.ReplayFile(); ok {
		t.Skip("replay mode")
	}
	if !pbt.ShardOwns(2 % pbt.NShards()) {
		t.Skip("runs on one shard")
	}
	confirmWindow(t)
}

func confirmWindow(t *testing.T) {
	g := loadGraph(t, gripx.FreshName()+"w", tinyGraph())
	steps := []model.Step{model.S("V"), model.S("out")}
	c := Case{G0: tinyGraph(), Ops: []Op{{Kind: "submit", Steps: steps}, {Kind: "restart"}, {Kind: "status", Job: 0}}}
	dir := pbt.ScratchDir("c11-window-")
	defer os.RemoveAll(dir)
	attempts := pbt.Pick(300, 3000)
	for i := 0; i < attempts; i++ {
		pbt.Case(t)
		// a fresh directory per attempt: NewFSJobStorage opens (and leaves open) the
		// status file of every job below it
		jdir := filepath.Join(dir, fmt.Sprintf("a%d", i), "jobs")
		js := jobstorage.NewFSJobStorage(jdir)
		q := model.Protos(steps)
		pipe, err := g.gi.Compiler().Compile(q, nil)
		if err != nil {
			t.Fatalf("INFRA: %v", err)
		}
		res := pipeline.Start(context.Background(), pipe, engine.NewManager(gripx.WorkDir()), 5000, nil, nil)
		id, err := js.Spool(g.name, &jobstorage.Stream{DataType: pipe.DataType(), MarkTypes: pipe.MarkTypes(), Pipe: res, Query: q})
		if err != nil {
			t.Fatalf("INFRA: %v", err)
		}
		deadline := time.Now().Add(WaitBudget)
		for {
			st, err := js.Status(g.name, id)
			if err == nil && st.State == gripql.JobState_COMPLETE {
				break
			}
			if time.Now().After(deadline) {
				pbt.Inconclusive(t, "job not complete within budget")
				return
			}
		}
		js2 := jobstorage.NewFSJobStorage(jdir)
		_, err = js2.Status(g.name, id)
		// let the spool goroutine finish before the next round removes nothing it needs
		for k := 0; k < 2000; k++ {
			if b, e := os.ReadFile(filepath.Join(jdir, g.name, id, "status")); e == nil && len(b) > 0 && b[len(b)-1] == '\n' {
				break
			}
			time.Sleep(50 * time.Microsecond)
		}
		if err != nil {
			pbt.Nontrivial(t, "window")
			pbt.Discrepancy(t, c, "restart:job-lost:complete-before-status-file",
				"attempt %d: job %s was reported COMPLETE, a storage opened on the same directory right afterwards does not know it (%v); the status file was written only later", i, id, err)
			return
		}
	}
}

// ---------------------------------------------------------------------------------
// restart with many completed jobs

const fdJobs = 1500

// TestFdChild runs only in the subprocess started by TestConfirmManyJobsRestart: with
// the customary soft limit of 1024 open files it completes one real job, copies its
// directory fdJobs times under fresh ids (what fdJobs completed jobs leave on disk) and
// opens a storage on the directory, as a restarted server does.
func TestFdChild(t *testing.T) {
	if os.Getenv("C11_FD_CHILD") == "" {
		t.Skip("only as a child of TestConfirmManyJobsRestart")
	}
	var lim syscall.Rlimit
	if err := syscall.Getrlimit(syscall.RLIMIT_NOFILE, &lim); err != nil {
		t.Fatalf("INFRA: getrlimit: %v", err)
	}
	if lim.Cur > 1024 {
		lim.Cur = 1024
		if err := syscall.Setrlimit(syscall.RLIMIT_NOFILE, &lim); err != nil {
			t.Fatalf("INFRA: setrlimit: %v", err)
		}
	}
	dir := pbt.ScratchDir("c11-fd-")
	defer os.RemoveAll(dir)
	m := &machine{t: t, c: Case{}, dir: filepath.Join(dir, "jobs")}
	m.js = jobstorage.NewFSJobStorage(m.dir)
	m.g[0] = loadGraph(t, gripx.FreshName()+"f", tinyGraph())
	m.g[1] = m.g[0]
	m.submit(Op{Kind: "submit", Graph: 0, Steps: []model.Step{model.S("V"), model.S("as", "a")}})
	if m.stop || m.jobs[0].state != jComplete {
		t.Fatalf("INFRA: job not completed")
	}
	src := m.jobDir(m.jobs[0])
	var sb []byte
	for k := 0; k < 4000; k++ { // COMPLETE is published before the file is written
		if sb, _ = os.ReadFile(filepath.Join(src, "status")); len(sb) > 0 && sb[len(sb)-1] == '\n' {
			break
		}
		time.Sleep(50 * time.Microsecond)
	}
	job := jobstorage.Job{}
	if err := json.Unmarshal(sb, &job); err != nil {
		t.Fatalf("INFRA: status file: %v", err)
	}
	results, err := os.ReadFile(filepath.Join(src, "results"))
	if err != nil {
		t.Fatalf("INFRA: %v", err)
	}
	for i := 0; i < fdJobs; i++ {
		id := fmt.Sprintf("job-9%08d", i)
		d := filepath.Join(filepath.Dir(src), id)
		job.Status.Id = id
		b, err := json.Marshal(&job)
		if err != nil {
			t.Fatalf("INFRA: %v", err)
		}
		if err := os.MkdirAll(d, 0o700); err != nil {
			t.Fatalf("INFRA: %v", err)
		}
		if err := os.WriteFile(filepath.Join(d, "status"), append(b, '\n'), 0o600); err != nil {
			t.Fatalf("INFRA: %v", err)
		}
		if err := os.WriteFile(filepath.Join(d, "results"), results, 0o600); err != nil {
			t.Fatalf("INFRA: %v", err)
		}
	}
	js := jobstorage.NewFSJobStorage(m.dir)
	ch, err := js.List(m.g[0].name)
	if err != nil {
		t.Fatalf("INFRA: %v", err)
	}
	n := 0
	for range ch {
		n++
	}
	fmt.Printf("FDCHILD listed=%d want=%d\n", n, fdJobs+1)
}

func childEnv(extra string) []string {
	var env []string
	for _, kv := range os.Environ() {
		switch strings.SplitN(kv, "=", 2)[0] {
		case "VERIF_STATS_DIR", "VERIF_FAIL_DIR", "VERIF_REPLAY", "VERIF_MERGE", "VERIF_SURVEY":
			continue
		}
		env = append(env, kv)
	}
	return append(env, extra)
}

// TestConfirmManyJobsRestart: every completed job is still listed after a restart, also
// when there are more of them than the process may hold open files.
func TestConfirmManyJobsRestart(t *testing.T) {
	if _, ok := pbt.ReplayFile(); ok {
		t.Skip("replay mode")
	}
	if !pbt.ShardOwns(3 % pbt.NShards()) {
		t.Skip("runs on one shard")
	}
	confirmManyJobs(t)
}

func confirmManyJobs(t *testing.T) {
	pbt.Case(t)
	ctx, cancel := context.WithTimeout(context.Background(), 5*time.Minute)
	defer cancel()
	cmd := exec.CommandContext(ctx, os.Args[0], "-test.run", "^TestFdChild$", "-test.v")
	cmd.Env = childEnv("C11_FD_CHILD=1")
	cmd.Dir = pbt.ScratchDir("c11-child-")
	defer os.RemoveAll(cmd.Dir)
	var buf bytes.Buffer
	cmd.Stdout, cmd.Stderr = &buf, &buf
	err := cmd.Run()
	out := buf.String()
	var listed, want int
	if i := strings.Index(out, "FDCHILD listed="); i >= 0 {
		fmt.Sscanf(out[i:], "FDCHILD listed=%d want=%d", &listed, &want)
	}
	switch {
	case ctx.Err() != nil:
		pbt.Inconclusive(t, "fd child did not finish")
	case err != nil || want == 0:
		t.Fatalf("INFRA: fd child failed: %v\n%s", err, clip(out, 3000))
	case listed != want:
		pbt.Nontrivial(t, "many-jobs")
		c := map[string]interface{}{"jobs": want, "open_file_limit": 1024}
		pbt.Discrepancy(t, c, "restart:jobs-lost:status-files-left-open",
			"%d completed jobs on disk, open-file limit 1024: after a restart (NewFSJobStorage) only %d are listed", want, listed)
	}
}
