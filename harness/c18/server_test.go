package c18

// Entry point (2): the Edit/BulkAdd client stream of a live GripServer.
//
// The server is a real server.NewGripServer + Serve on loopback ports, driven over gRPC.
// It is handed the kvgraph/Badger store this package opened (NewGripServer's drivers
// argument), so that the graphs the server wrote can be observed completely through the
// gdbi read API afterwards (internal/live does not expose its store). Two servers: one
// without accounts and one with Basic auth + Casbin policy (the repository's model.conf)
// in which the calling user "bob" may write every graph of a case except "gf".

import (
	"context"
	"encoding/base64"
	"fmt"
	"net"
	"os"
	"path/filepath"
	"sort"
	"strings"
	"testing"
	"time"

	"github.com/bmeg/grip/accounts"
	"github.com/bmeg/grip/config"
	"github.com/bmeg/grip/gdbi"
	"github.com/bmeg/grip/gripql"
	"github.com/bmeg/grip/kvgraph"
	"github.com/bmeg/grip/server"
	"google.golang.org/grpc"
	"google.golang.org/grpc/codes"
	"google.golang.org/grpc/credentials/insecure"
	"google.golang.org/grpc/metadata"
	"google.golang.org/grpc/status"
	"google.golang.org/protobuf/types/known/structpb"
	"pgregory.net/rapid"
	"verif/internal/model"
	"verif/internal/obs"
	"verif/internal/pbt"
)

// repository model: /repo/test/model.conf (verbatim)
const casbinModel = `[request_definition]
r = sub, obj, act

[policy_definition]
p = sub, obj, act

[policy_effect]
e = some(where (p.eft == allow))

[matchers]
m = r.sub == p.sub && (r.obj == p.obj || p.obj ==  "*") && (r.act == p.act || p.act == "*") || r.sub == "root"
`

const schemaSuffix = "__schema__"

// one root cause, several symptoms: on every graph switch the handler starts the next
// loader (graph.BulkAdd) while the previous one is still draining its channel and
// committing. When the stream returns to a graph, the later version of an element does not
// see the earlier one (stale index entries, or the older version wins); loaders running at
// once - even for different graphs - abort each other's transactions ("Transaction
// Conflict", the element is dropped and counted as an error). Every difference observed
// on a stream for which the handler opens at least two loaders carries this signature.
const sigOverlap = "misordered-after-graph-switch"

// srvCases is the number of cases one server instance serves: its graph names (and the
// policy lines naming them) are fixed at start; the store is not cleaned between cases
// (tombstones slow every later scan), the whole server is replaced instead.
const srvCases = 60

type bsrv struct {
	auth   bool
	gen    int
	used   int
	db     gdbi.GraphDB
	dir    string
	conn   *grpc.ClientConn
	edit   gripql.EditClient
	query  gripql.QueryClient
	cancel context.CancelFunc
	done   chan error
}

var (
	servers = map[bool]*bsrv{}
	srvGen  int
	srvErr  = map[bool]error{}
)

// bmeg/grip's accounts code prints a line per authorised message to stdout; it is sent
// to /dev/null while a server case runs (C18_VERBOSE keeps it)
var (
	realStdout = os.Stdout
	devNull    *os.File
)

func muteOn() {
	if os.Getenv("C18_VERBOSE") != "" {
		return
	}
	if devNull == nil {
		f, err := os.OpenFile(os.DevNull, os.O_WRONLY, 0)
		if err != nil {
			return
		}
		devNull = f
	}
	os.Stdout = devNull
}

func muteOff() { os.Stdout = realStdout }

func freePort() (string, error) {
	l, err := net.Listen("tcp", "127.0.0.1:0")
	if err != nil {
		return "", err
	}
	defer l.Close()
	return fmt.Sprint(l.Addr().(*net.TCPAddr).Port), nil
}

func basicCtx(ctx context.Context, user string) context.Context {
	h := "Basic " + base64.StdEncoding.EncodeToString([]byte(user+":pw-"+user))
	return metadata.NewOutgoingContext(ctx, metadata.Pairs("authorization", h))
}

// adminCtx is the all-powerful caller used for set-up; callerCtx the caller of BulkAdd.
func (s *bsrv) adminCtx(ctx context.Context) context.Context {
	if s.auth {
		return basicCtx(ctx, "alice")
	}
	return ctx
}

func (s *bsrv) callerCtx(ctx context.Context) context.Context {
	if s.auth {
		return basicCtx(ctx, "bob")
	}
	return ctx
}

// realName maps the logical graph name of case k to the name used on this server.
func (s *bsrv) realName(k int, logical string) string {
	base := strings.TrimSuffix(logical, schemaSuffix)
	n := fmt.Sprintf("s%dc%d%s", s.gen, k, base[1:])
	if strings.HasSuffix(logical, schemaSuffix) {
		n += schemaSuffix
	}
	return n
}

// permitted: may the caller of BulkAdd write the logical graph?
func permitted(auth bool, logical string) bool {
	if !auth {
		return true
	}
	switch logical {
	case "ga", "gb", "gm", "ga" + schemaSuffix:
		return true
	}
	return false
}

func startServer(auth bool) (*bsrv, error) {
	base := pbt.ScratchDir("c18-srv-")
	var last error
	for attempt := 0; attempt < 8; attempt++ {
		s, err := tryStart(auth, filepath.Join(base, fmt.Sprintf("a%d", attempt)))
		if err == nil {
			return s, nil
		}
		last = err
	}
	return nil, last
}

func tryStart(auth bool, dir string) (*bsrv, error) {
	if err := os.MkdirAll(dir, 0o755); err != nil {
		return nil, err
	}
	rpcPort, err := freePort()
	if err != nil {
		return nil, err
	}
	httpPort, err := freePort()
	if err != nil {
		return nil, err
	}
	srvGen++
	s := &bsrv{auth: auth, gen: srvGen, dir: dir, done: make(chan error, 1)}
	conf := config.DefaultConfig()
	conf.Server.HostName = "127.0.0.1"
	conf.Server.RPCPort = rpcPort
	conf.Server.HTTPPort = httpPort
	conf.Server.WorkDir = filepath.Join(dir, "work")
	dbPath := filepath.Join(dir, "badger.db")
	conf.Drivers["badger"] = config.DriverConfig{Badger: &dbPath}
	conf.Default = "badger"
	if auth {
		mp, pp := filepath.Join(dir, "model.conf"), filepath.Join(dir, "policy.csv")
		var pol strings.Builder
		pol.WriteString("p, alice, *, *\n")
		for k := 0; k < srvCases; k++ {
			for _, lg := range []string{"ga", "gb", "gm", "gf", "ga" + schemaSuffix} {
				if permitted(true, lg) {
					fmt.Fprintf(&pol, "p, bob, %s, write\n", s.realName(k, lg))
				} else {
					fmt.Fprintf(&pol, "p, bob, %s, read\n", s.realName(k, lg))
				}
			}
		}
		if err := os.WriteFile(mp, []byte(casbinModel), 0o644); err != nil {
			return nil, err
		}
		if err := os.WriteFile(pp, []byte(pol.String()), 0o644); err != nil {
			return nil, err
		}
		ba := accounts.BasicAuth{{User: "alice", Password: "pw-alice"}, {User: "bob", Password: "pw-bob"}}
		conf.Server.Accounts = accounts.Config{
			Auth:   &accounts.AuthConfig{Basic: &ba},
			Access: &accounts.AccessConfig{Casbin: &accounts.CasbinAccess{Model: mp, Policy: pp}},
		}
	}
	db, err := kvgraph.NewKVGraphDB("badger", dbPath)
	if err != nil {
		return nil, err
	}
	s.db = db
	srv, err := server.NewGripServer(conf, dir, map[string]gdbi.GraphDB{"badger": db})
	if err != nil {
		db.Close()
		return nil, err
	}
	ctx, cancel := context.WithCancel(context.Background())
	s.cancel = cancel
	go func() { s.done <- srv.Serve(ctx) }()
	fail := func(err error) (*bsrv, error) {
		s.stop()
		return nil, err
	}
	dctx, dcancel := context.WithTimeout(ctx, 20*time.Second)
	defer dcancel()
	conn, err := grpc.DialContext(dctx, "127.0.0.1:"+rpcPort, grpc.WithTransportCredentials(insecure.NewCredentials()), grpc.WithBlock())
	if err != nil {
		return fail(fmt.Errorf("dial: %v", err))
	}
	s.conn = conn
	s.edit, s.query = gripql.NewEditClient(conn), gripql.NewQueryClient(conn)
	// identity: a graph created through the connection must appear in OUR store,
	// otherwise the port belongs to another process (a parallel shard raced us to it)
	marker := fmt.Sprintf("marker%dx%d", os.Getpid(), s.gen)
	if _, err := s.edit.AddGraph(s.adminCtx(ctx), &gripql.GraphID{Graph: marker}); err != nil {
		return fail(fmt.Errorf("setup AddGraph: %v", err))
	}
	found := false
	for _, g := range db.ListGraphs() {
		found = found || g == marker
	}
	if !found {
		return fail(fmt.Errorf("port %s answers for a different server", rpcPort))
	}
	return s, nil
}

func (s *bsrv) stop() {
	if s.conn != nil {
		s.conn.Close()
	}
	s.cancel()
	select {
	case err := <-s.done:
		if err != nil && strings.Contains(err.Error(), "cannot open port") {
			s.db.Close() // Serve returned before it owned the store
		}
	case <-time.After(15 * time.Second):
	}
	os.RemoveAll(s.dir)
}

func getServer(t pbt.TB, auth bool) *bsrv {
	if s := servers[auth]; s != nil {
		return s
	}
	if srvErr[auth] != nil {
		return nil
	}
	s, err := startServer(auth)
	if err != nil {
		srvErr[auth] = err
		t.Logf("live server (auth=%v) could not be started: %v", auth, err)
		return nil
	}
	servers[auth] = s
	return s
}

func dropServer(auth bool) {
	if s := servers[auth]; s != nil {
		s.stop()
		delete(servers, auth)
	}
}

func stopServers() {
	muteOn()
	defer muteOff()
	dropServer(false)
	dropServer(true)
}

// ---------------------------------------------------------------------------------
// wire forms

func toStruct(m map[string]interface{}) *structpb.Struct {
	s, err := structpb.NewStruct(model.CopyMap(m))
	if err != nil {
		panic(err)
	}
	return s
}

func wireElem(graph string, el *model.Element) *gripql.GraphElement {
	ge := &gripql.GraphElement{Graph: graph}
	switch {
	case el == nil:
	case el.Edge:
		ge.Edge = &gripql.Edge{Gid: el.ID, Label: el.Label, From: el.From, To: el.To, Data: toStruct(el.Data)}
	default:
		ge.Vertex = &gripql.Vertex{Gid: el.ID, Label: el.Label, Data: toStruct(el.Data)}
	}
	return ge
}

// ---------------------------------------------------------------------------------
// expectation: the same accepted elements added one at a time, in stream order

type expectation struct {
	world     mworld
	valid     int // accepted elements == InsertCount
	rejected  int // elements the handler sees and must refuse (each one an error)
	empty     int // ... neither vertex nor edge
	invalid   int // ... invalid content
	missing   int // ... addressed to a graph that does not exist
	schema    int // ... addressed to a schema graph
	forbidden int // removed by the accounts filter before the handler
	// valid-by-content elements among the refused ones (to explain a wrong InsertCount)
	validMissing, validSchema, validForbidden int
	// revisit[g]: elements are accepted for g in at least two separate runs of the stream
	// (another graph was addressed in between)
	revisit map[string]bool
	// loaders: number of times the handler opens a loader (graph.BulkAdd) for an existing
	// graph: once per run of consecutive elements for the same graph in the stream it sees
	// (forbidden elements are filtered before it, schema-graph elements are refused before
	// the graph switch, a missing graph ends the current run)
	loaders int
}

func expect(c Case) *expectation {
	x := &expectation{world: mworld{}, revisit: map[string]bool{}}
	present := map[string]bool{}
	for _, g := range c.Present {
		present[g] = true
		x.world[g] = newMGraph()
	}
	for _, e := range c.Pre {
		x.world[e.G].upsert(e.El)
	}
	lastRun := map[string]int{} // graph -> run index of the last acceptance
	run := 0
	cur, open := "", false
	for i, e := range c.Stream {
		if i > 0 && c.Stream[i-1].G != e.G {
			run++
		}
		if permitted(c.Auth, e.G) && !strings.HasSuffix(e.G, schemaSuffix) && (e.G != cur || !open) {
			cur, open = e.G, present[e.G]
			if open {
				x.loaders++
			}
		}
		ok := validElem(e.El, true)
		switch {
		case !permitted(c.Auth, e.G):
			x.forbidden++
			if ok {
				x.validForbidden++
			}
		case strings.HasSuffix(e.G, schemaSuffix):
			x.schema++
			x.rejected++
			if ok {
				x.validSchema++
			}
		case !present[e.G]:
			x.missing++
			x.rejected++
			if ok {
				x.validMissing++
			}
		case e.El == nil:
			x.empty++
			x.rejected++
		case !ok:
			x.invalid++
			x.rejected++
		default:
			el := *e.El
			if el.Edge && el.ID == "" {
				el.ID = fmt.Sprintf("?%d", i)
			}
			x.world[e.G].upsert(&el)
			x.valid++
			if r, seen := lastRun[e.G]; seen && r != run {
				x.revisit[e.G] = true
			}
			lastRun[e.G] = run
		}
	}
	return x
}

// bindBlankEdges returns the model graph with the placeholder ids of blank-gid edges
// replaced by the ids the server assigned, matched by content (label, endpoints, data).
func bindBlankEdges(gi gdbi.GraphInterface, g *model.Graph) *model.Graph {
	has := false
	known := map[string]bool{}
	for _, e := range g.E {
		if strings.HasPrefix(e.ID, "?") {
			has = true
		} else {
			known[e.ID] = true
		}
	}
	if !has {
		return g
	}
	key := func(label, from, to string, data map[string]interface{}) string {
		return label + "\x00" + from + "\x00" + to + "\x00" + model.Canon(interface{}(model.CopyMap(data)))
	}
	stored := map[string][]string{}
	for e := range gi.GetEdgeList(context.Background(), true) {
		if !known[e.ID] && e.ID != "" {
			k := key(e.Label, e.From, e.To, e.Data)
			stored[k] = append(stored[k], e.ID)
		}
	}
	for _, ids := range stored {
		sort.Strings(ids)
	}
	out := g.Clone()
	for _, e := range out.E {
		if !strings.HasPrefix(e.ID, "?") {
			continue
		}
		k := key(e.Label, e.From, e.To, e.Data)
		if ids := stored[k]; len(ids) > 0 {
			e.ID = ids[0]
			stored[k] = ids[1:]
		}
	}
	return out
}

// ---------------------------------------------------------------------------------

func switchBucket(n int) string {
	switch {
	case n < 2:
		return fmt.Sprint(n)
	case n < 10:
		return "2-9"
	}
	return ">=10"
}

func runServer(t pbt.TB, c Case) {
	muteOn()
	defer muteOff()
	s := getServer(t, c.Auth)
	if s == nil {
		pbt.Inconclusive(t, "live server could not be started")
		return
	}
	pbt.Case(t)
	k := s.used
	s.used++
	defer func() {
		if s.used >= srvCases {
			dropServer(c.Auth)
		}
	}()
	disc := func(sig, format string, args ...interface{}) bool {
		muteOff()
		defer muteOn()
		return pbt.Discrepancy(t, c, "server-bulk:"+sig, format, args...)
	}
	x := expect(c)
	st := statsOf(c.Stream)
	pbt.Class(t, fmt.Sprintf("srv:auth=%v", c.Auth))
	pbt.Class(t, "srv:len:"+bucket(len(c.Stream)))
	pbt.Class(t, "srv:switches:"+switchBucket(st.switches))
	pbt.Class(t, fmt.Sprintf("srv:rejected=%v:repeated-id=%v", x.rejected > 0, st.repeated > 0))
	if x.missing > 0 {
		pbt.Class(t, "srv:has-missing-graph-element")
	}
	if x.forbidden > 0 {
		pbt.Class(t, "srv:has-forbidden-graph-element")
	}
	if x.schema > 0 {
		pbt.Class(t, "srv:has-schema-graph-element")
	}
	if x.empty > 0 {
		pbt.Class(t, "srv:has-empty-element")
	}
	if st.blankEdges > 0 {
		pbt.Class(t, "srv:has-blank-gid-edge")
	}
	if len(x.revisit) > 0 {
		pbt.Class(t, "srv:returns-to-a-graph")
	}
	if x.loaders >= 2 {
		pbt.Class(t, "srv:loaders>=2")
	}
	if (len(c.Stream) > 50 || st.switches >= 2) && st.rejectable >= 1 && st.repeated >= 1 {
		pbt.Class(t, "srv:nontrivial")
		pbt.Nontrivial(t, c.text())
	}

	// set-up as the administrator
	bg := context.Background()
	for _, g := range c.Present {
		if _, err := s.edit.AddGraph(s.adminCtx(bg), &gripql.GraphID{Graph: s.realName(k, g)}); err != nil {
			t.Fatalf("INFRA: set-up AddGraph(%s): %v", g, err)
		}
	}
	for _, e := range c.Pre {
		ge := wireElem(s.realName(k, e.G), e.El)
		var err error
		if e.El.Edge {
			_, err = s.edit.AddEdge(s.adminCtx(bg), ge)
		} else {
			_, err = s.edit.AddVertex(s.adminCtx(bg), ge)
		}
		if err != nil {
			t.Fatalf("INFRA: set-up add of %s: %v", elemText(e), err)
		}
	}

	// the bulk call
	ctx, cancel := context.WithTimeout(bg, 120*time.Second)
	defer cancel()
	var res *gripql.BulkEditResult
	bs, err := s.edit.BulkAdd(s.callerCtx(ctx))
	if err == nil {
		for _, e := range c.Stream {
			if err = bs.Send(wireElem(s.realName(k, e.G), e.El)); err != nil {
				break
			}
		}
		res, err = bs.CloseAndRecv()
	}
	show := streamText(c.Stream)
	if len(show) > 1500 {
		show = show[:1500] + "…"
	}
	where := fmt.Sprintf("BulkAdd (auth=%v, existing graphs %v, pre-existing [%s]) of [%s]", c.Auth, c.Present, streamText(c.Pre), show)
	if status.Code(err) == codes.DeadlineExceeded {
		pbt.Inconclusive(t, "BulkAdd call budget expired")
		dropServer(c.Auth)
		return
	}
	if err != nil {
		disc("rpc-error", "%s failed: %v", where, err)
		return
	}

	// counts (judged independently of the state: a listed count finding does not end the case)
	ic, ec := int(res.InsertCount), int(res.ErrorCount)
	if ic != x.valid {
		sig := "insertcount-mismatch"
		over := ic - x.valid
		switch {
		case over < 0:
			sig = "insertcount-below-stored"
		case x.validMissing > 0 && over == x.validMissing:
			sig = "insertcount-counts-missing-graph"
		case x.validSchema > 0 && over == x.validSchema:
			sig = "insertcount-counts-schema-graph"
		case x.validForbidden > 0 && over == x.validForbidden:
			sig = "insertcount-counts-forbidden-graph"
		case x.invalid+x.empty > 0 && over == x.invalid+x.empty:
			sig = "insertcount-counts-invalid"
		}
		disc(sig, "%s: InsertCount=%d but %d valid elements were addressed to existing graphs the caller may write (refused: %d invalid, %d neither vertex nor edge, %d for missing graphs [%d valid], %d for schema graphs [%d valid], %d filtered as forbidden [%d valid]); ErrorCount=%d",
			where, ic, x.valid, x.invalid, x.empty, x.missing, x.validMissing, x.schema, x.validSchema, x.forbidden, x.validForbidden, ec)
	}
	switch {
	case ec < x.rejected:
		sig := "errorcount-below-rejected"
		if x.empty > 0 && ec >= x.rejected-x.empty {
			sig = "errorcount-ignores-empty-element"
		}
		disc(sig, "%s: ErrorCount=%d but %d elements had to be refused (%d invalid, %d neither vertex nor edge, %d for missing graphs, %d for schema graphs); InsertCount=%d",
			where, ec, x.rejected, x.invalid, x.empty, x.missing, x.schema, ic)
	case ec > 0 && x.rejected == 0:
		sig := "errorcount-without-rejection"
		if x.loaders >= 2 {
			// loaders running at once fail each other's updates
			sig = sigOverlap
		}
		disc(sig, "%s: ErrorCount=%d although no element had to be refused; InsertCount=%d", where, ec, ic)
	}

	// state of every existing graph
	u := universe(c.Pool)
	graphs := append([]string{}, c.Present...)
	sort.Strings(graphs)
	for _, g := range graphs {
		gi, gerr := s.db.Graph(s.realName(k, g))
		if gerr != nil {
			t.Fatalf("INFRA: graph %s vanished: %v", g, gerr)
		}
		want := bindBlankEdges(gi, x.world[g].g)
		if d := obs.Diff(obs.OfGraph(gi, u), obs.OfModel(want, u)); len(d) > 0 {
			sig := "state:" + obs.Method(d[0])
			switch {
			case !permitted(c.Auth, g):
				sig = "forbidden-graph-changed"
			case x.loaders >= 2:
				sig = sigOverlap
			}
			disc(sig, "%s: graph %s differs from adding the accepted elements one at a time: %s", where, g, diffText(d))
			continue // listed finding: the other graphs are still judged
		}
	}
	// nothing may come into existence for missing or schema graphs
	listed := map[string]bool{}
	for _, n := range s.db.ListGraphs() {
		listed[n] = true
	}
	present := map[string]bool{}
	for _, g := range c.Present {
		present[g] = true
	}
	for _, e := range c.Stream {
		if !present[e.G] && listed[s.realName(k, e.G)] {
			disc("graph-created", "%s: graph %s did not exist before the call and is listed afterwards", where, e.G)
			return
		}
	}
}

// ---------------------------------------------------------------------------------
// generation

var srvTargets = []struct {
	name string
	pct  int
}{{"ga", 80}, {"gb", 60}, {"gf", 40}, {"gm", 35}, {"ga" + schemaSuffix, 12}}

func genServerCase(t *rapid.T) Case {
	c := Case{Entry: "server"}
	c.Auth = rapid.Bool().Draw(t, "auth")
	c.Pool = rapid.SampledFrom([]int{2, 4, 8, 40}).Draw(t, "pool")
	for _, g := range []struct {
		name string
		pct  int
	}{{"ga", 90}, {"gb", 75}, {"gf", 80}} {
		if rapid.IntRange(0, 99).Draw(t, "present."+g.name) < g.pct {
			c.Present = append(c.Present, g.name)
		}
	}
	var targets []string
	for _, tg := range srvTargets {
		if rapid.IntRange(0, 99).Draw(t, "target."+tg.name) < tg.pct {
			targets = append(targets, tg.name)
		}
	}
	if len(targets) == 0 {
		targets = []string{"ga"}
	}
	if len(c.Present) > 0 && rapid.IntRange(0, 3).Draw(t, "hasPre") == 0 {
		for i, n := 0, rapid.IntRange(1, 3).Draw(t, "npre"); i < n; i++ {
			g := rapid.SampledFrom(c.Present).Draw(t, fmt.Sprintf("pre%d.g", i))
			c.Pre = append(c.Pre, Elem{G: g, El: genElement(t, fmt.Sprintf("pre%d", i), c.Pool, 0, 0)})
		}
	}
	n := genLen(t)
	invalidPct := rapid.SampledFrom([]int{0, 5, 20}).Draw(t, "invalidPct")
	blankPct := rapid.SampledFrom([]int{0, 0, 15}).Draw(t, "blankPct")
	maxRun := rapid.SampledFrom([]int{1, 2, 5, 30, 120}).Draw(t, "maxRun")
	cur, left := "", 0
	for i := 0; i < n; i++ {
		if left == 0 {
			next := rapid.SampledFrom(targets).Draw(t, fmt.Sprintf("s%d.g", i))
			if next == cur && len(targets) > 1 {
				next = rapid.SampledFrom(targets).Draw(t, fmt.Sprintf("s%d.g2", i))
			}
			cur = next
			left = rapid.IntRange(1, maxRun).Draw(t, fmt.Sprintf("s%d.run", i))
		}
		left--
		c.Stream = append(c.Stream, Elem{G: cur, El: genElement(t, fmt.Sprintf("s%d", i), c.Pool, invalidPct, blankPct)})
	}
	return c
}

func TestServerRandom(t *testing.T) {
	defer stopServers()
	pbt.Check(t, 360, 4000, func(rt *rapid.T) {
		c := genServerCase(rt)
		pbt.Current(rt, c)
		if pbt.WantSample(rt) {
			pbt.Sample(rt, c)
		}
		runServer(rt, c)
	})
}

// TestServerLengths enumerates the boundary lengths deterministically: two existing
// graphs and a missing one addressed in runs of 25 (run length 1 in the second
// variant), 4 ids (every revisit reshapes), every 10th element invalid.
func TestServerLengths(t *testing.T) {
	if _, ok := pbt.ReplayFile(); ok {
		t.Skip("replay mode")
	}
	defer stopServers()
	i := 0
	for _, auth := range []bool{false, true} {
		for _, n := range fixedLens {
			for _, run := range []int{25, 1} {
				i++
				if !pbt.ShardOwns(i) {
					continue
				}
				c := Case{Entry: "server", Auth: auth, Pool: 4, Present: []string{"ga", "gb", "gf"}}
				order := []string{"ga", "gb", "gm", "gf"}
				for j := 0; j < n; j++ {
					el := patternElem(j, c.Pool)
					switch j % 30 {
					case 9:
						el.Label = ""
					case 19:
						el = nil
					case 29:
						el.Data = map[string]interface{}{"_gid": 1.0}
					}
					c.Stream = append(c.Stream, Elem{G: order[(j/run)%len(order)], El: el})
				}
				pbt.Current(t, c)
				if pbt.WantSample(t) {
					pbt.Sample(t, c)
				}
				runServer(t, c)
			}
		}
	}
	pbt.ClearCurrent()
	pbt.Exhaustive(t)
}
