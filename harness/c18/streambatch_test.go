package c18

// Entry point (3): util.StreamBatch, the batching loop behind the BulkAdd of the
// psql/mongo/elastic drivers, with vertexAdd/edgeAdd callbacks that record their batches
// and apply them to the abstract model.

import (
	"fmt"
	"sync"
	"testing"
	"time"

	"github.com/bmeg/grip/gdbi"
	"github.com/bmeg/grip/util"
	multierror "github.com/hashicorp/go-multierror"
	"pgregory.net/rapid"
	"verif/internal/gripx"
	"verif/internal/hist"
	"verif/internal/model"
	"verif/internal/pbt"
)

const sbGraph = "ga" // the graph StreamBatch loads; elements naming another graph must be refused

// an edge whose only fault is a blank from/to reached the edge callback
const sigBlankEnds = "edge-blank-endpoint-accepted"

var sbFilter = []string{"github.com/bmeg/grip/util."}

func fromGdbi(e *gdbi.DataElement, edge bool) *model.Element {
	return &model.Element{ID: e.ID, Label: e.Label, From: e.From, To: e.To, Data: model.CopyMap(e.Data), Edge: edge}
}

func sameUpToBlankID(want, got *model.Element) bool {
	if want.ID != "" && want.ID != got.ID {
		return false
	}
	if want.ID == "" && got.ID == "" {
		return false // a blank gid must have been replaced
	}
	return want.Label == got.Label && want.From == got.From && want.To == got.To &&
		model.Equal(interface{}(model.CopyMap(want.Data)), interface{}(model.CopyMap(got.Data)))
}

func runStreamBatch(t pbt.TB, c Case) {
	pbt.Case(t)
	disc := func(sig, format string, args ...interface{}) bool {
		return pbt.Discrepancy(t, c, "streambatch:"+sig, format, args...)
	}
	// expectation
	var expV, expE []*model.Element
	rejected, empty := 0, 0
	for _, e := range c.Stream {
		switch {
		case e.G != sbGraph:
			rejected++
		case e.El == nil:
			rejected++
			empty++
		case !validElem(e.El, true):
			rejected++
		case e.El.Edge:
			expE = append(expE, e.El)
		default:
			expV = append(expV, e.El)
		}
	}
	st := statsOf(c.Stream)
	crosses := len(expV) > c.BatchSize || len(expE) > c.BatchSize
	pbt.Class(t, fmt.Sprintf("sb:batch=%d", c.BatchSize))
	pbt.Class(t, "sb:len:"+bucket(len(c.Stream)))
	pbt.Class(t, fmt.Sprintf("sb:crosses-batch=%v:switches>=2=%v", crosses, st.switches >= 2))
	pbt.Class(t, fmt.Sprintf("sb:rejected=%v:repeated-id=%v", rejected > 0, st.repeated > 0))
	if (crosses || st.switches >= 2) && st.rejectable >= 1 && st.repeated >= 1 {
		pbt.Class(t, "sb:nontrivial")
		pbt.Nontrivial(t, c.text())
	}

	// recording callbacks backed by the model (called from two goroutines)
	var mu sync.Mutex
	var vBatches, eBatches [][]*model.Element
	got := newMGraph()
	vAdd := func(b []*gdbi.Vertex) error {
		mu.Lock()
		defer mu.Unlock()
		cp := make([]*model.Element, len(b))
		for i, v := range b {
			cp[i] = fromGdbi(v, false)
			got.upsert(cp[i])
		}
		vBatches = append(vBatches, cp)
		return nil
	}
	eAdd := func(b []*gdbi.Edge) error {
		mu.Lock()
		defer mu.Unlock()
		cp := make([]*model.Element, len(b))
		for i, e := range b {
			cp[i] = fromGdbi(e, true)
			got.upsert(cp[i])
		}
		eBatches = append(eBatches, cp)
		return nil
	}
	ch := make(chan *gdbi.GraphElement, len(c.Stream)+1)
	for _, e := range c.Stream {
		ge := &gdbi.GraphElement{Graph: e.G}
		switch {
		case e.El == nil:
		case e.El.Edge:
			ge.Edge = gripx.ToGdbi(e.El)
		default:
			ge.Vertex = gripx.ToGdbi(e.El)
		}
		ch <- ge
	}
	close(ch)
	show := streamText(c.Stream)
	if len(show) > 1500 {
		show = show[:1500] + "…"
	}
	where := fmt.Sprintf("StreamBatch(batchSize=%d, graph=%s) of [%s]", c.BatchSize, sbGraph, show)
	err, panicked, hang, undecided, evidence := guarded(30*time.Second, sbFilter, func() error {
		return util.StreamBatch(ch, c.BatchSize, sbGraph, vAdd, eAdd)
	})
	switch {
	case hang:
		disc("hang", "%s never returns; goroutines parked:\n%s", where, evidence)
		return
	case undecided:
		pbt.Inconclusive(t, "StreamBatch exceeded its budget, hang not confirmed")
		return
	case panicked:
		disc("panic", "%s panicked: %v", where, err)
		return
	}
	mu.Lock()
	defer mu.Unlock()

	// batches: non-empty, not larger than the batch size
	for ki, bs := range [][][]*model.Element{vBatches, eBatches} {
		for i, b := range bs {
			if len(b) == 0 || len(b) > c.BatchSize {
				disc("batch-size", "%s: %s batch %d has %d elements", where, []string{"vertex", "edge"}[ki], i, len(b))
				return
			}
		}
	}
	// every valid element exactly once, order within kind preserved
	for _, k := range []struct {
		kind    string
		want    []*model.Element
		batches [][]*model.Element
	}{{"vertex", expV, vBatches}, {"edge", expE, eBatches}} {
		var flat []*model.Element
		for _, b := range k.batches {
			flat = append(flat, b...)
		}
		// an invalid element handed to a callback
		for _, el := range flat {
			if !validElem(el, false) {
				sig := "invalid-element-accepted:" + k.kind
				if el.Edge && el.ID != "" && el.Label != "" && (el.From == "" || el.To == "") {
					sig = sigBlankEnds
				}
				disc(sig, "%s: the %s callback received the invalid element %s", where, k.kind, elemText(Elem{G: sbGraph, El: el}))
				return
			}
		}
		if len(flat) != len(k.want) {
			sig := "elements-lost"
			if len(flat) > len(k.want) {
				sig = "elements-extra"
			}
			disc(sig+":"+k.kind, "%s: the %s callback received %d elements in %d batches, %d valid %s elements were streamed for %s", where, k.kind, len(flat), len(k.batches), len(k.want), k.kind, sbGraph)
			return
		}
		ids := map[string]bool{}
		for i := range flat {
			if !sameUpToBlankID(k.want[i], flat[i]) {
				disc("reordered-or-altered:"+k.kind, "%s: %s element %d handed to the callback is %s, expected %s", where, k.kind, i, elemText(Elem{G: sbGraph, El: flat[i]}), elemText(Elem{G: sbGraph, El: k.want[i]}))
				return
			}
			if k.want[i].ID == "" {
				if ids[flat[i].ID] {
					disc("blank-gid-not-unique", "%s: two edges without gid received the same id %s", where, flat[i].ID)
					return
				}
				ids[flat[i].ID] = true
			}
		}
	}
	// final state == one at a time (implied by the above; cheap cross-check through the model)
	seq := newMGraph()
	var flatE []*model.Element
	for _, b := range eBatches {
		flatE = append(flatE, b...)
	}
	for _, v := range expV {
		seq.upsert(v)
	}
	for i, e := range expE {
		el := *e
		if el.ID == "" {
			el.ID = flatE[i].ID
		}
		seq.upsert(&el)
	}
	if a, b := hist.StateText(got.g), hist.StateText(seq.g); a != b {
		disc("state", "%s: the model behind the callbacks holds [%s], adding the valid elements one at a time gives [%s]", where, a, b)
		return
	}
	// errors
	nerr := 0
	if err != nil {
		nerr = 1
		if me, ok := err.(*multierror.Error); ok {
			nerr = len(me.Errors)
		}
	}
	switch {
	case rejected > 0 && err == nil:
		sig := "rejected-without-error"
		if empty == rejected {
			sig = "empty-element-without-error"
		}
		disc(sig, "%s: %d elements had to be refused (%d of them neither vertex nor edge) but StreamBatch returned nil", where, rejected, empty)
	case rejected == 0 && err != nil:
		disc("error-without-rejection", "%s: every element is valid but StreamBatch returned: %v", where, err)
	case nerr < rejected:
		sig := "error-count-below-rejected"
		if empty > 0 && nerr >= rejected-empty {
			sig = "empty-element-without-error"
		}
		disc(sig, "%s: %d elements had to be refused (%d of them neither vertex nor edge) but only %d errors are reported: %v", where, rejected, empty, nerr, err)
	case nerr > rejected:
		disc("error-count-above-rejected", "%s: %d elements had to be refused but %d errors are reported: %v", where, rejected, nerr, err)
	}
}

func genStreamBatchCase(t *rapid.T) Case {
	c := Case{Entry: "streambatch", Present: []string{sbGraph}}
	c.BatchSize = rapid.SampledFrom([]int{1, 2, 50, 100}).Draw(t, "batchSize")
	c.Pool = rapid.SampledFrom([]int{2, 4, 16, 300}).Draw(t, "pool")
	n := genLen(t)
	invalidPct := rapid.SampledFrom([]int{0, 5, 20}).Draw(t, "invalidPct")
	blankPct := rapid.SampledFrom([]int{0, 0, 15}).Draw(t, "blankPct")
	otherPct := rapid.SampledFrom([]int{0, 0, 3, 30}).Draw(t, "otherPct")
	edgeHeavy := rapid.IntRange(0, 2).Draw(t, "kindBias")
	// while the blank-endpoint finding is open it would end the judgement of most cases
	// with invalid elements: three cases in four are generated without such edges
	noBlankEnds = pbt.IsOpen("streambatch:"+sigBlankEnds) && rapid.IntRange(0, 3).Draw(t, "blankEnds") > 0
	defer func() { noBlankEnds = false }()
	if noBlankEnds {
		pbt.Avoided("streambatch:" + sigBlankEnds)
	}
	for i := 0; i < n; i++ {
		lbl := fmt.Sprintf("s%d", i)
		g := sbGraph
		if otherPct > 0 && rapid.IntRange(0, 99).Draw(t, lbl+".other") < otherPct {
			g = "gb"
		}
		el := genElement(t, lbl, c.Pool, invalidPct, blankPct)
		// bias towards one kind so that a single kind crosses the larger batch sizes
		if el != nil && validElem(el, true) && edgeHeavy != 1 && rapid.IntRange(0, 2).Draw(t, lbl+".bias") > 0 {
			if edgeHeavy == 0 && el.Edge {
				el = genVertex(t, lbl+".v", c.Pool)
			} else if edgeHeavy == 2 && !el.Edge {
				el = genEdge(t, lbl+".e", c.Pool)
			}
		}
		c.Stream = append(c.Stream, Elem{G: g, El: el})
	}
	return c
}

func TestStreamBatchRandom(t *testing.T) {
	pbt.ClearCurrent() // the cases of this entry point do not record themselves
	pbt.Check(t, 6000, 120000, func(rt *rapid.T) {
		c := genStreamBatchCase(rt)
		if pbt.WantSample(rt) {
			pbt.Sample(rt, c)
		}
		runStreamBatch(rt, c)
	})
}

// TestStreamBatchLengths: boundary lengths x batch sizes, vertices only / edges only /
// alternating, every 10th element refused (invalid, other graph, neither vertex nor edge).
func TestStreamBatchLengths(t *testing.T) {
	if _, ok := pbt.ReplayFile(); ok {
		t.Skip("replay mode")
	}
	i := 0
	for _, bs := range []int{1, 2, 50, 100} {
		for _, n := range fixedLens {
			for _, kinds := range []string{"v", "e", "ve"} {
				for _, bad := range []bool{false, true} {
					i++
					if !pbt.ShardOwns(i) {
						continue
					}
					c := Case{Entry: "streambatch", BatchSize: bs, Pool: 7, Present: []string{sbGraph}}
					for j := 0; j < n; j++ {
						idx := j
						switch kinds {
						case "v":
							idx = 2 * j
						case "e":
							idx = 2*j + 1
						}
						e := Elem{G: sbGraph, El: patternElem(idx, c.Pool)}
						if bad {
							switch j % 30 {
							case 9:
								e.El.Label = ""
							case 19:
								e.G = "gb"
							case 29:
								e.El = nil
							}
						}
						c.Stream = append(c.Stream, e)
					}
					if pbt.WantSample(t) {
						pbt.Sample(t, c)
					}
					runStreamBatch(t, c)
				}
			}
		}
	}
	pbt.Exhaustive(t)
}
