// Package c18: bulk loading equals loading the same elements one by one.
//
// Three entry points share one case form (Case): kvgraph's gdbi BulkAdd on the embedded
// drivers (kvgraph_test.go), the server's Edit/BulkAdd gRPC stream on a live GripServer
// with and without accounts (server_test.go), and util.StreamBatch with callbacks backed
// by the abstract model (streambatch_test.go).
package c18

import (
	"encoding/json"
	"fmt"
	"os"
	"regexp"
	"sort"
	"strconv"
	"strings"
	"testing"
	"time"

	"github.com/bmeg/grip/gdbi"
	"pgregory.net/rapid"
	"verif/internal/gripx"
	"verif/internal/hist"
	"verif/internal/model"
	"verif/internal/obs"
	"verif/internal/pbt"
	"verif/internal/quiesce"
)

func TestMain(m *testing.M) {
	code := pbt.Main(m, pbt.Meta{
		Property: "C18",
		Level:    "exploration",
		Rule: "element streams (graph, vertex|edge|neither) of length {0,1,49,50,51,99,100,101,250} and random 0-260 over id pools of 2-40 ids (repeated ids with the same and with a different label/endpoints/data), 3+3 labels, small nested data; " +
			"(1) kvgraph gdbi BulkAdd of valid-only streams vs. a twin graph loaded with one AddVertex/AddEdge call per element and vs. the abstract model (quick: badger; thorough: also bolt, level, pebble and lengths around kvgraph.bulkChunkSize), full observation of both graphs through the gdbi read API; " +
			"(2) Edit/BulkAdd over gRPC on a live GripServer (Badger) without accounts and with Basic auth + Casbin policy as a caller who may not write one graph: streams mixing valid and invalid elements (blank gid/label/from/to, reserved or invalid property names, neither vertex nor edge), edges with blank gid (server-assigned id, compared up to id), 1-4 target graphs interleaved in runs of 1-120 elements (existing, missing, forbidden, <g>__schema__), optional pre-existing content; every existing graph is observed completely afterwards and compared with the model of adding the accepted elements one at a time in stream order, BulkEditResult counts are compared with the counts of that model; " +
			"(3) util.StreamBatch with batch sizes {1,2,50,100} and recording callbacks. " +
			"Non-trivial (2,3): the stream crosses a batch boundary (2: more than 50 elements; 3: more valid elements of one kind than the batch size) or switches graphs at least twice, and contains >= 1 rejected element and >= 1 repeated id; (1): >= 50 elements or a chunk split, and an id repeated with a different shape. distinct = distinct case text.",
		Assumptions: []string{
			"sequential semantics = abstract model internal/hist: last write to an id wins, vertices and edges have separate id spaces, edges may dangle, graphs are isolated",
			"streams handed to gdbi BulkAdd contain only valid elements (server/api.go and util/insert.go validate first)",
			"an edge with a blank gid is valid at the server and in StreamBatch (both assign a UUID); it is compared up to its id",
			"InsertCount must equal the number of valid elements addressed to existing graphs the caller may write; ErrorCount is judged only as: >= number of rejected elements that reached the handler (invalid, neither vertex nor edge, missing graph, schema graph) and > 0 only if something was rejected (the source calls its value 'not a good representation'); elements removed by the accounts filter are not expected to be counted",
			"a call that does not return is reported only when two goroutine dumps show the bmeg/grip goroutines parked (internal/quiesce); otherwise inconclusive",
		},
	})
	stopServers()
	closeStores()
	gripx.Cleanup()
	os.Exit(code)
}

// ---------------------------------------------------------------------------------
// case form

// Elem is one stream element: the logical graph it is addressed to and the element
// (nil = a GraphElement with neither vertex nor edge).
type Elem struct {
	G  string         `json:"g"`
	El *model.Element `json:"el,omitempty"`
}

// Case is the shared case form of the three entry points.
type Case struct {
	Entry     string   `json:"entry"`               // kvgraph | server | streambatch
	Driver    string   `json:"driver,omitempty"`    // kvgraph: embedded driver
	BatchSize int      `json:"batchSize,omitempty"` // streambatch
	Auth      bool     `json:"auth,omitempty"`      // server: Basic auth + Casbin policy; the caller may not write "gf"
	Present   []string `json:"present,omitempty"`   // logical graphs that exist before the call
	Pre       []Elem   `json:"pre,omitempty"`       // valid elements stored one at a time before the call
	Stream    []Elem   `json:"stream"`
	Pool      int      `json:"pool"`           // ids are v0..v<pool-1> / e0..e<pool-1>
	Twin      bool     `json:"twin,omitempty"` // kvgraph: also load a real twin graph one element at a time
	// PatternN > 0: the stream starts with the deterministic elements patternElem(0..PatternN-1, Pool)
	// addressed to "ga" (keeps the case files of the chunk-size cases small)
	PatternN int `json:"patternN,omitempty"`
}

func (c Case) text() string {
	b, _ := json.Marshal(c)
	return string(b)
}

func elemText(e Elem) string {
	if e.El == nil {
		return e.G + ":{}"
	}
	el := e.El
	if el.Edge {
		return fmt.Sprintf("%s:E{%s:%s %s->%s %s}", e.G, el.ID, el.Label, el.From, el.To, model.Canon(interface{}(model.CopyMap(el.Data))))
	}
	return fmt.Sprintf("%s:V{%s:%s %s}", e.G, el.ID, el.Label, model.Canon(interface{}(model.CopyMap(el.Data))))
}

func streamText(s []Elem) string {
	parts := make([]string, len(s))
	for i, e := range s {
		parts[i] = elemText(e)
	}
	return strings.Join(parts, " ")
}

// validElem is the documented validity rule (gripql Vertex/Edge.Validate): non-blank
// gid and label, non-blank endpoints for edges, valid and unreserved property names.
// blankEdgeID says whether an edge without gid is acceptable (the server and
// StreamBatch assign one).
func validElem(el *model.Element, blankEdgeID bool) bool {
	if el == nil {
		return false
	}
	if el.Edge && el.ID == "" && blankEdgeID {
		c := *el
		c.ID = "x"
		return hist.ValidElement(&c)
	}
	return hist.ValidElement(el)
}

// ---------------------------------------------------------------------------------
// abstract model with fast upsert (same semantics as hist.World.Apply for
// addVertex/addEdge: last write wins, separate id spaces)

type mgraph struct {
	g      *model.Graph
	vi, ei map[string]int
}

func newMGraph() *mgraph {
	return &mgraph{g: &model.Graph{}, vi: map[string]int{}, ei: map[string]int{}}
}

// upsert stores a copy of el; it reports whether an element with that id existed and
// whether its shape (label/endpoints/data) differs from the new one.
func (m *mgraph) upsert(el *model.Element) (existed, reshaped bool) {
	c := *el
	c.Data = model.CopyMap(el.Data)
	if c.Data == nil {
		c.Data = map[string]interface{}{}
	}
	idx, list := m.vi, &m.g.V
	if el.Edge {
		idx, list = m.ei, &m.g.E
	}
	if i, ok := idx[el.ID]; ok {
		old := (*list)[i]
		reshaped = old.Label != c.Label || old.From != c.From || old.To != c.To ||
			!model.Equal(interface{}(model.CopyMap(old.Data)), interface{}(model.CopyMap(c.Data)))
		(*list)[i] = &c
		return true, reshaped
	}
	idx[el.ID] = len(*list)
	*list = append(*list, &c)
	return false, false
}

type mworld map[string]*mgraph

func (w mworld) world() hist.World {
	o := hist.World{}
	for k, g := range w {
		o[k] = g.g
	}
	return o
}

// ---------------------------------------------------------------------------------
// observation universe

func vid(k int) string { return "v" + strconv.Itoa(k) }
func eid(k int) string { return "e" + strconv.Itoa(k) }

// universe probes the first ids of the pool individually (lookups, adjacency x label
// filters); listings, label scans and counts cover everything.
func universe(pool int) obs.Universe {
	n := pool
	if n > 5 {
		n = 5
	}
	if n < 2 {
		n = 2
	}
	u := obs.Universe{VLabels: hist.VLabels, ELabels: hist.ELabels, Traversals: true}
	for i := 0; i < n; i++ {
		u.VertexIDs = append(u.VertexIDs, vid(i))
		u.EdgeIDs = append(u.EdgeIDs, eid(i))
	}
	u.VertexIDs = append(u.VertexIDs, "ghost")
	return u
}

func diffText(d []string) string {
	if len(d) == 0 {
		return ""
	}
	s := d[0]
	if len(s) > 1500 {
		s = s[:1500] + "…"
	}
	if len(d) > 1 {
		s += fmt.Sprintf(" (+%d more differences)", len(d)-1)
	}
	return s
}

// ---------------------------------------------------------------------------------
// generators

var fixedLens = []int{0, 1, 49, 50, 51, 99, 100, 101, 250}

func genLen(t *rapid.T) int {
	switch k := rapid.IntRange(0, 9).Draw(t, "lenKind"); {
	case k < 3:
		return rapid.SampledFrom(fixedLens).Draw(t, "fixedLen")
	case k < 8:
		return rapid.IntRange(0, 30).Draw(t, "shortLen")
	}
	return rapid.IntRange(31, 260).Draw(t, "longLen")
}

func genData(t *rapid.T, lbl string) map[string]interface{} {
	switch rapid.IntRange(0, 5).Draw(t, lbl+".data") {
	case 0, 1:
		return map[string]interface{}{}
	case 2:
		return map[string]interface{}{"k": rapid.SampledFrom([]interface{}{0.0, 1.0, "a"}).Draw(t, lbl+".k")}
	case 3:
		return map[string]interface{}{"k": 1.0, "n": map[string]interface{}{"x": "a"}}
	case 4:
		return map[string]interface{}{"b": true, "k": "b"}
	}
	return map[string]interface{}{"l": []interface{}{1.0, "a"}}
}

func genVertex(t *rapid.T, lbl string, pool int) *model.Element {
	return &model.Element{ID: vid(rapid.IntRange(0, pool-1).Draw(t, lbl+".id")), Label: rapid.SampledFrom(hist.VLabels).Draw(t, lbl+".label"), Data: genData(t, lbl)}
}

func genEnd(t *rapid.T, lbl string, pool int) string {
	k := rapid.IntRange(0, pool).Draw(t, lbl)
	if k == pool {
		return "ghost"
	}
	return vid(k)
}

func genEdge(t *rapid.T, lbl string, pool int) *model.Element {
	return &model.Element{ID: eid(rapid.IntRange(0, pool-1).Draw(t, lbl+".id")), Edge: true, Label: rapid.SampledFrom(hist.ELabels).Draw(t, lbl+".label"),
		From: genEnd(t, lbl+".from", pool), To: genEnd(t, lbl+".to", pool), Data: genData(t, lbl)}
}

var badKeys = []string{"_gid", "_label", "_from", "_to", "_data", "a.b", "_x", "a b", "-k", "a$"}

// noBlankEnds (set by a generator for the duration of one case) replaces edges with a
// blank from/to by edges with a blank label.
var noBlankEnds bool

// genInvalid draws an element every entry point must reject; nil = neither vertex nor edge.
func genInvalid(t *rapid.T, lbl string, pool int) *model.Element {
	how := rapid.IntRange(0, 8).Draw(t, lbl+".how")
	if noBlankEnds && (how == 5 || how == 6) {
		how = 4
	}
	switch how {
	case 0:
		return nil
	case 1:
		v := genVertex(t, lbl, pool)
		v.ID = ""
		return v
	case 2:
		v := genVertex(t, lbl, pool)
		v.Label = ""
		return v
	case 3:
		v := genVertex(t, lbl, pool)
		v.Data = map[string]interface{}{rapid.SampledFrom(badKeys).Draw(t, lbl+".badkey"): 1.0}
		return v
	case 4:
		e := genEdge(t, lbl, pool)
		e.Label = ""
		return e
	case 5:
		e := genEdge(t, lbl, pool)
		e.From = ""
		return e
	case 6:
		e := genEdge(t, lbl, pool)
		e.To = ""
		return e
	case 7:
		e := genEdge(t, lbl, pool)
		e.ID, e.Label = "", "" // blank gid is repaired by the receiver, the blank label is not
		return e
	}
	e := genEdge(t, lbl, pool)
	e.Data = map[string]interface{}{"ok": 1.0, rapid.SampledFrom(badKeys).Draw(t, lbl+".badkey"): 1.0}
	return e
}

// genElement draws one element: invalid with probability invalidPct/100, otherwise a
// valid vertex or edge (edges get a blank gid with probability blankPct/100).
func genElement(t *rapid.T, lbl string, pool, invalidPct, blankPct int) *model.Element {
	if invalidPct > 0 && rapid.IntRange(0, 99).Draw(t, lbl+".inv") < invalidPct {
		return genInvalid(t, lbl, pool)
	}
	if rapid.Bool().Draw(t, lbl+".isEdge") {
		e := genEdge(t, lbl, pool)
		if blankPct > 0 && rapid.IntRange(0, 99).Draw(t, lbl+".blank") < blankPct {
			e.ID = ""
		}
		return e
	}
	return genVertex(t, lbl, pool)
}

// patternElem is the deterministic element i of the enumerated streams: ids cycle
// through the pool, every revisit of an id changes label, endpoints or data.
func patternElem(i, pool int) *model.Element {
	round := i / (2 * pool)
	k := (i / 2) % pool
	datas := []map[string]interface{}{{}, {"k": 1.0}, {"k": "a"}, {"l": []interface{}{1.0, "a"}}, {"k": 1.0, "n": map[string]interface{}{"x": "a"}}}
	if i%2 == 0 {
		return &model.Element{ID: vid(k), Label: hist.VLabels[(k+round)%3], Data: model.CopyMap(datas[(k+2*round)%5])}
	}
	return &model.Element{ID: eid(k), Edge: true, Label: hist.ELabels[(k+round)%3], From: vid((k + round) % pool), To: vid((k + 1) % pool), Data: model.CopyMap(datas[(k+round)%5])}
}

// ---------------------------------------------------------------------------------
// stream statistics (classification and the non-trivial rule)

type streamStats struct {
	switches   int // changes of the addressed graph between consecutive elements
	repeated   int // elements whose (graph, kind, id) occurred earlier in the stream
	reshaped   int // ... with a different label/endpoints/data
	rejectable int // elements that are invalid by content
	blankEdges int
}

func statsOf(s []Elem) streamStats {
	var st streamStats
	seen := map[string]string{}
	for i, e := range s {
		if i > 0 && s[i-1].G != e.G {
			st.switches++
		}
		if !validElem(e.El, true) {
			st.rejectable++
			continue
		}
		if e.El.Edge && e.El.ID == "" {
			st.blankEdges++
			continue
		}
		k := fmt.Sprintf("%s/%v/%s", e.G, e.El.Edge, e.El.ID)
		txt := elemText(e)
		if old, ok := seen[k]; ok {
			st.repeated++
			if old != txt {
				st.reshaped++
			}
		}
		seen[k] = txt
	}
	return st
}

func bucket(n int) string {
	switch {
	case n == 0:
		return "0"
	case n == 1:
		return "1"
	case n < 50:
		return "2-49"
	case n <= 51:
		return "50-51"
	case n < 99:
		return "52-98"
	case n <= 101:
		return "99-101"
	}
	return ">101"
}

// ---------------------------------------------------------------------------------
// calls that may never return

// guarded runs f on its own goroutine. hang is true only when the call did not return
// within the budget AND two goroutine dumps show the bmeg/grip goroutines of the given
// packages parked; undecided is the unconfirmed rest.
func guarded(budget time.Duration, filter []string, f func() error) (err error, panicked, hang, undecided bool, evidence string) {
	type res struct {
		err      error
		panicked bool
	}
	out := make(chan res, 1)
	done := make(chan struct{})
	go func() {
		var r res
		defer func() {
			if p := recover(); p != nil {
				r = res{fmt.Errorf("panic: %v", p), true}
			}
			out <- r
			close(done)
		}()
		r.err = f()
	}()
	rep := quiesce.WaitReport(done, nil, budget, quiesce.WithFilter(filter...))
	switch rep.Verdict {
	case quiesce.Done:
		r := <-out
		return r.err, r.panicked, false, false, ""
	case quiesce.Hang:
		return nil, false, true, false, rep.Reason + "\n" + rep.Stacks()
	}
	return nil, false, false, true, rep.Reason
}

// ---------------------------------------------------------------------------------
// replay

func runCase(t pbt.TB, c Case) {
	switch c.Entry {
	case "kvgraph":
		runKV(t, c)
	case "server":
		runServer(t, c)
	case "streambatch":
		runStreamBatch(t, c)
	default:
		t.Fatalf("INFRA: unknown entry %q", c.Entry)
	}
}

func TestReplay(t *testing.T) {
	cf, ok := pbt.ReplayFile()
	if !ok {
		t.Skip("no replay file")
	}
	if cf.Test == "TestKVInvalidInStream" {
		t.Skip("replayed by TestKVInvalidInStream")
	}
	var c Case
	if err := json.Unmarshal(cf.Case, &c); err != nil {
		t.Fatal(err)
	}
	defer stopServers()
	runCase(t, c)
}

// bulkChunkSize reads kvgraph's unexported chunk size constant from the source tree
// under test (fallback: the value at the time of writing).
func bulkChunkSize() int {
	repo := os.Getenv("VERIF_REPO")
	if repo == "" {
		repo = "/repo"
	}
	b, err := os.ReadFile(repo + "/kvgraph/graph.go")
	if err == nil {
		if m := regexp.MustCompile(`(?m)^const bulkChunkSize = (\d+)`).FindSubmatch(b); m != nil {
			if n, err := strconv.Atoi(string(m[1])); err == nil && n > 0 {
				return n
			}
		}
	}
	return 10000
}

// self-check of the fast model against hist.World.Apply
func TestModelAgreesWithHist(t *testing.T) {
	if _, ok := pbt.ReplayFile(); ok {
		t.Skip("replay mode")
	}
	for pool := 1; pool <= 4; pool++ {
		w := hist.World{"ga": &model.Graph{}}
		m := newMGraph()
		for i := 0; i < 60; i++ {
			el := patternElem(i*7%61, pool)
			kind := "addVertex"
			if el.Edge {
				kind = "addEdge"
			}
			w.Apply(hist.Op{Kind: kind, Graph: "ga", Elems: []*model.Element{el}})
			m.upsert(el)
			if a, b := hist.StateText(w["ga"]), hist.StateText(m.g); a != b {
				t.Fatalf("INFRA: fast model diverges from hist model after %d elements:\n%s\n%s", i+1, a, b)
			}
		}
	}
}

var _ = sort.Strings
var _ gdbi.GraphDB
