package c18

import (
	"encoding/json"
	"fmt"
	"strings"
	"testing"

	"github.com/bmeg/grip/gdbi"
	"pgregory.net/rapid"
	"verif/internal/gripx"
	"verif/internal/hist"
	"verif/internal/histrun"
	"verif/internal/model"
	"verif/internal/obs"
	"verif/internal/pbt"
)

// invCase: a stream handed to the kvgraph driver's BulkAdd itself (as cmd/kvload does, with
// no server in front to validate it) that mixes valid and invalid elements; the invalid ones
// may carry the id of an element that is stored already or that comes earlier in the stream.
// "Every invalid element is skipped and counted as an error without affecting the others."
type invCase struct {
	Pre    []*model.Element `json:"pre"`
	Stream []*model.Element `json:"stream"`
}

func upsertInto(g *model.Graph, e *model.Element) {
	c := *e
	c.Data = model.CopyMap(e.Data)
	list := &g.V
	if e.Edge {
		list = &g.E
	}
	for i, o := range *list {
		if o.ID == e.ID {
			(*list)[i] = &c
			return
		}
	}
	*list = append(*list, &c)
}

func runInvalid(t pbt.TB, c invCase) {
	pbt.Case(t)
	db := gripx.DB("badger")
	name := gripx.FreshName()
	if err := db.AddGraph(name); err != nil {
		t.Fatalf("INFRA: %v", err)
	}
	gi, err := db.Graph(name)
	if err != nil {
		t.Fatalf("INFRA: %v", err)
	}
	want := &model.Graph{}
	for _, e := range c.Pre {
		var err error
		if e.Edge {
			err = gi.AddEdge([]*gdbi.Edge{gripx.ToGdbi(e)})
		} else {
			err = gi.AddVertex([]*gdbi.Vertex{gripx.ToGdbi(e)})
		}
		if err != nil {
			t.Fatalf("INFRA: storing %v: %v", e, err)
		}
		upsertInto(want, e)
	}
	invalid, hitsStored := 0, false
	ch := make(chan *gdbi.GraphElement, len(c.Stream))
	var text []string
	for _, e := range c.Stream {
		ge := &gdbi.GraphElement{Graph: name}
		if e.Edge {
			ge.Edge = gripx.ToGdbi(e)
		} else {
			ge.Vertex = gripx.ToGdbi(e)
		}
		ch <- ge
		if hist.ValidElement(e) {
			upsertInto(want, e)
			text = append(text, elemText(Elem{El: e}))
			continue
		}
		invalid++
		text = append(text, "INVALID "+elemText(Elem{El: e}))
		for _, o := range append(append([]*model.Element{}, want.V...), want.E...) {
			if o.Edge == e.Edge && o.ID == e.ID && e.ID != "" {
				hitsStored = true
			}
		}
	}
	close(ch)
	berr := gi.BulkAdd(ch)
	if invalid > 0 {
		pbt.Class(t, "kv:stream-with-invalid-elements")
	}
	if hitsStored {
		pbt.Class(t, "kv:invalid-element-with-a-stored-id")
		b, _ := json.Marshal(c)
		pbt.Nontrivial(t, string(b))
	}
	if (berr != nil) != (invalid > 0) {
		pbt.Discrepancy(t, c, "kv-invalid:error-report", "BulkAdd of [%s] returned error=%v although %d elements are invalid", strings.Join(text, " "), berr, invalid)
		return
	}
	got := obs.OfGraph(gi, histrun.Universe)
	exp := obs.OfModel(want, histrun.Universe)
	if d := obs.Diff(got, exp); len(d) > 0 {
		pbt.Discrepancy(t, c, "kv-invalid:"+obs.Method(d[0]), "after BulkAdd of [%s] on top of %d stored elements the graph is not what the valid elements alone give: %s (+%d more)",
			strings.Join(text, " "), len(c.Pre), d[0], len(d)-1)
	}
}

func TestKVInvalidInStream(t *testing.T) {
	if cf, ok := pbt.ReplayFile(); ok {
		if cf.Test != "TestKVInvalidInStream" {
			t.Skip("replay of another test")
		}
		var c invCase
		if err := json.Unmarshal(cf.Case, &c); err != nil {
			t.Fatal(err)
		}
		runInvalid(t, c)
		return
	}
	n := 0
	pbt.Check(t, 400, 30000, func(rt *rapid.T) {
		if n++; n%50 == 0 {
			gripx.Recycle("badger")
		}
		var c invCase
		for i := 0; i < rapid.IntRange(0, 5).Draw(rt, "nPre"); i++ {
			l := fmt.Sprintf("pre%d", i)
			if rapid.Bool().Draw(rt, l+".edge") {
				c.Pre = append(c.Pre, hist.GenEdge(rt, l))
			} else {
				c.Pre = append(c.Pre, hist.GenVertex(rt, l))
			}
		}
		for i := 0; i < rapid.IntRange(1, 10).Draw(rt, "nStream"); i++ {
			l := fmt.Sprintf("s%d", i)
			switch k := rapid.IntRange(0, 9).Draw(rt, l+".kind"); {
			case k < 3:
				c.Stream = append(c.Stream, hist.GenInvalid(rt, l))
			case k < 6:
				c.Stream = append(c.Stream, hist.GenEdge(rt, l))
			default:
				c.Stream = append(c.Stream, hist.GenVertex(rt, l))
			}
		}
		pbt.Current(rt, c)
		if pbt.WantSample(rt) {
			pbt.Sample(rt, c)
		}
		runInvalid(rt, c)
	})
}
