package c18

// Entry point (1): gdbi.GraphInterface.BulkAdd of kvgraph on the embedded drivers.
// A stream of valid elements is bulk-loaded into one graph; a twin graph receives the
// same elements with one AddVertex/AddEdge call each; both are observed completely and
// compared with each other and with the abstract model.

import (
	"context"
	"fmt"
	"os"
	"path/filepath"
	"strings"
	"testing"
	"time"

	"github.com/bmeg/grip/gdbi"
	"github.com/bmeg/grip/kvgraph"
	"pgregory.net/rapid"
	"verif/internal/gripx"
	"verif/internal/model"
	"verif/internal/obs"
	"verif/internal/pbt"
)

// ---------------------------------------------------------------------------------
// stores (own management: a store whose writer is stuck cannot be closed, it is
// abandoned and replaced)

type store struct {
	db    gdbi.GraphDB
	dir   string
	cases int
}

var stores = map[string]*store{}

func getStore(driver string) *store {
	if s, ok := stores[driver]; ok {
		return s
	}
	dir := pbt.ScratchDir("c18-" + driver + "-")
	path := dir
	if driver == "bolt" {
		path = filepath.Join(dir, "bolt.db")
	}
	db, err := kvgraph.NewKVGraphDB(driver, path)
	if err != nil {
		panic(fmt.Sprintf("INFRA: cannot open %s store: %v", driver, err))
	}
	s := &store{db: db, dir: dir}
	stores[driver] = s
	return s
}

func recycleStore(driver string) {
	if s, ok := stores[driver]; ok {
		s.db.Close()
		os.RemoveAll(s.dir)
		delete(stores, driver)
	}
}

// abandonStore forgets a store without closing it (a goroutine is stuck inside it).
func abandonStore(driver string) { delete(stores, driver) }

func closeStores() {
	for d := range stores {
		recycleStore(d)
	}
}

var kvFilter = []string{"github.com/bmeg/grip/kvgraph.", "github.com/bmeg/grip/kvi/", "github.com/bmeg/grip/kvindex."}

func kvDrivers() []string {
	if d := os.Getenv("C18_DRIVERS"); d != "" { // development aid
		return strings.Split(d, ",")
	}
	if pbt.Thorough() {
		return []string{"badger", "bolt", "level", "pebble"}
	}
	return []string{"badger"}
}

func sigPrefix(driver string) string {
	if driver == "badger" {
		return ""
	}
	return driver + ":"
}

// expand returns the full stream of a case (pattern prefix + explicit elements).
func (c Case) expand() []Elem {
	if c.PatternN == 0 {
		return c.Stream
	}
	out := make([]Elem, 0, c.PatternN+len(c.Stream))
	for i := 0; i < c.PatternN; i++ {
		out = append(out, Elem{G: "ga", El: patternElem(i, c.Pool)})
	}
	return append(out, c.Stream...)
}

func addOne(gi gdbi.GraphInterface, el *model.Element) (err error) {
	defer func() {
		if r := recover(); r != nil {
			err = fmt.Errorf("panic: %v", r)
		}
	}()
	if el.Edge {
		return gi.AddEdge([]*gdbi.Edge{gripx.ToGdbi(el)})
	}
	return gi.AddVertex([]*gdbi.Vertex{gripx.ToGdbi(el)})
}

// ---------------------------------------------------------------------------------
// known hang: replacing a stored element inside BulkAdd on drivers whose write
// transactions exclude each other

const hangSig = "kvgraph-bulk:hang-replacing-stored-element"

// replaceHangs[driver]: the confirmation case hung on this driver in this process.
var replaceHangs = map[string]*bool{}

func confirmCase(driver string) Case {
	return Case{Entry: "kvgraph", Driver: driver, Pool: 2, Present: []string{"ga"}, Stream: []Elem{
		{G: "ga", El: &model.Element{ID: "v0", Label: "A", Data: map[string]interface{}{}}},
		{G: "ga", El: &model.Element{ID: "v0", Label: "B", Data: map[string]interface{}{}}},
	}}
}

// hangsOnReplace runs the minimal confirmation case once per driver and process.
func hangsOnReplace(t pbt.TB, driver string) bool {
	if h, ok := replaceHangs[driver]; ok {
		return *h
	}
	h := new(bool)
	replaceHangs[driver] = h
	c := confirmCase(driver)
	res := execKV(t, c, 3*time.Second)
	*h = res == "hang"
	return *h
}

// storedShapes is the bookkeeping behind the steering: which vertex ids are stored and
// which (label, endpoints) each stored edge id has. Pre elements are stored one at a time,
// the last version of an id is the stored one.
type storedShapes struct {
	v map[string]bool
	e map[string]string
}

func shapesAfter(pre []Elem) *storedShapes {
	st := &storedShapes{v: map[string]bool{}, e: map[string]string{}}
	for _, e := range pre {
		if e.El == nil {
			continue
		}
		if e.El.Edge {
			st.e[e.El.ID] = e.El.Label + "\x00" + e.El.From + "\x00" + e.El.To
		} else {
			st.v[e.El.ID] = true
		}
	}
	return st
}

// replaces reports whether bulk-loading el replaces a stored element through a separate
// update (vertices: any stored id; edges: a stored id with another label or endpoints);
// otherwise el is recorded as stored. A repeated id always starts a new chunk, so the
// earlier version of the same stream is stored by then.
func (st *storedShapes) replaces(el *model.Element) bool {
	if el.Edge {
		shape := el.Label + "\x00" + el.From + "\x00" + el.To
		if old, ok := st.e[el.ID]; ok && old != shape {
			return true
		}
		st.e[el.ID] = shape
		return false
	}
	if st.v[el.ID] {
		return true
	}
	st.v[el.ID] = true
	return false
}

func replacesStored(pre, stream []Elem) bool {
	st := shapesAfter(pre)
	for _, e := range stream {
		if e.El != nil && st.replaces(e.El) {
			return true
		}
	}
	return false
}

// withoutReplacements drops the stream elements that would replace a stored element.
func withoutReplacements(pre, stream []Elem) []Elem {
	st := shapesAfter(pre)
	var out []Elem
	for _, e := range stream {
		if e.El != nil && st.replaces(e.El) {
			continue
		}
		out = append(out, e)
	}
	return out
}

// ---------------------------------------------------------------------------------

func runKV(t pbt.TB, c Case) {
	pbt.Case(t)
	stream := c.expand()
	for _, e := range append(append([]Elem{}, c.Pre...), stream...) {
		if !validElem(e.El, false) {
			t.Fatalf("INFRA: kvgraph case with an invalid element: %s", elemText(e))
		}
	}
	st := statsOf(stream)
	pbt.Class(t, "kv:driver:"+c.Driver)
	pbt.Class(t, "kv:len:"+bucket(len(stream)))
	pbt.Class(t, fmt.Sprintf("kv:repeated-id=%v:reshaped=%v", st.repeated > 0, st.reshaped > 0))
	if (len(stream) >= 50 || st.repeated > 0) && st.reshaped > 0 {
		pbt.Nontrivial(t, c.text())
	}
	budget := 20*time.Second + time.Duration(len(stream))*2*time.Millisecond
	execKV(t, c, budget)
}

// execKV runs the case; the result is "ok", "hang", "undecided" or "stopped" (a
// discrepancy was reported).
func execKV(t pbt.TB, c Case, budget time.Duration) string {
	stream := c.expand()
	prefix := sigPrefix(c.Driver)
	disc := func(sig, format string, args ...interface{}) bool {
		return pbt.Discrepancy(t, c, prefix+sig, format, args...)
	}
	s := getStore(c.Driver)
	s.cases++
	if s.cases%40 == 0 {
		recycleStore(c.Driver)
		s = getStore(c.Driver)
	}
	db := s.db
	bulkName, twinName := gripx.FreshName(), gripx.FreshName()
	// creating a graph can already fail on a driver with a defective KV adapter
	// (reported under the driver's name; the adapters are another property's subject)
	open := func(name string) (gi gdbi.GraphInterface) {
		defer func() {
			if r := recover(); r != nil {
				gi = nil
				disc("setup:AddGraph-panic", "%s: creating graph %s panicked: %v", c.Driver, name, r)
			}
		}()
		if err := db.AddGraph(name); err != nil {
			t.Fatalf("INFRA: AddGraph(%s) on %s: %v", name, c.Driver, err)
		}
		gi, err := db.Graph(name)
		if err != nil {
			t.Fatalf("INFRA: Graph(%s) on %s: %v", name, c.Driver, err)
		}
		return gi
	}
	bulk := open(bulkName)
	if bulk == nil {
		return "stopped"
	}
	var twin gdbi.GraphInterface
	if c.Twin {
		if twin = open(twinName); twin == nil {
			return "stopped"
		}
	}
	m := newMGraph()
	for _, e := range c.Pre {
		for _, gi := range []gdbi.GraphInterface{bulk, twin} {
			if gi == nil {
				continue
			}
			if err := addOne(gi, e.El); err != nil {
				disc("kvgraph-single:error", "storing the pre-existing element %s with a single add failed: %v", elemText(e), err)
				return "stopped"
			}
		}
		m.upsert(e.El)
	}

	// the bulk call
	ch := make(chan *gdbi.GraphElement, len(stream)+1)
	for _, e := range stream {
		ge := &gdbi.GraphElement{Graph: bulkName}
		if e.El.Edge {
			ge.Edge = gripx.ToGdbi(e.El)
		} else {
			ge.Vertex = gripx.ToGdbi(e.El)
		}
		ch <- ge
	}
	close(ch)
	err, panicked, hang, undecided, evidence := guarded(budget, kvFilter, func() error { return bulk.BulkAdd(ch) })
	show := streamText(stream)
	if len(show) > 1200 {
		show = show[:1200] + "…"
	}
	switch {
	case hang:
		abandonStore(c.Driver)
		sig := "kvgraph-bulk:hang"
		if replacesStored(c.Pre, stream) {
			sig = hangSig
		}
		if txt := c.text(); len(txt) < 4000 {
			fmt.Fprintf(os.Stderr, "C18: %s%s on %s\n", prefix, sig, txt) // hangs are rare and cost a store: keep a trace
		}
		disc(sig, "%s: BulkAdd of %d valid elements [%s] (pre-existing: [%s]) never returns; goroutines parked:\n%s", c.Driver, len(stream), show, streamText(c.Pre), evidence)
		return "hang"
	case undecided:
		abandonStore(c.Driver)
		pbt.Inconclusive(t, "BulkAdd exceeded its budget, hang not confirmed: "+evidence)
		return "undecided"
	case panicked:
		disc("kvgraph-bulk:panic", "%s: BulkAdd of [%s] panicked: %v", c.Driver, show, err)
		return "stopped"
	case err != nil:
		if !disc("kvgraph-bulk:error-on-valid-stream", "%s: BulkAdd of the valid elements [%s] returned an error: %v", c.Driver, show, err) {
			return "stopped"
		}
	}

	// the twin, one element at a time, and the model
	for i, e := range stream {
		if twin != nil {
			if err := addOne(twin, e.El); err != nil {
				disc("kvgraph-single:error", "%s: single add of element %d %s failed: %v", c.Driver, i, elemText(e), err)
				return "stopped"
			}
		}
		m.upsert(e.El)
	}

	u := universe(c.Pool)
	om := obs.OfModel(m.g, u)
	ob := obs.OfGraph(bulk, u)
	if twin != nil {
		ot := obs.OfGraph(twin, u)
		if d := obs.Diff(ot, om); len(d) > 0 {
			disc("kvgraph-single:"+obs.Method(d[0]), "%s: the twin graph loaded one element at a time differs from the model after [%s]: %s", c.Driver, show, diffText(d))
			return "stopped"
		}
		if d := obs.Diff(ob, ot); len(d) > 0 {
			txt := strings.Replace(strings.Replace(diffText(d), "stored=", "bulk=", 1), " model=", " one-by-one=", 1)
			disc("kvgraph-bulk:"+obs.Method(d[0]), "%s: after BulkAdd of [%s] (pre-existing: [%s]) the graph differs from the twin loaded one element at a time: %s", c.Driver, show, streamText(c.Pre), txt)
			return "stopped"
		}
	}
	if d := obs.Diff(ob, om); len(d) > 0 {
		disc("kvgraph-bulk:"+obs.Method(d[0]), "%s: after BulkAdd of [%s] (pre-existing: [%s]) the graph differs from the sequential model: %s", c.Driver, show, streamText(c.Pre), diffText(d))
		return "stopped"
	}
	// every element listed exactly once (listings beyond the probed ids)
	n := 0
	for range bulk.GetVertexList(context.Background(), false) {
		n++
	}
	if n != len(m.g.V) {
		disc("kvgraph-bulk:GetVertexList", "%s: after BulkAdd of [%s] GetVertexList(load=false) lists %d vertices, the model has %d", c.Driver, show, n, len(m.g.V))
		return "stopped"
	}
	return "ok"
}

// steer adapts a generated case to a driver on which replacing a stored element inside
// BulkAdd is known (confirmed in this process) to hang.
func steer(t pbt.TB, c Case) Case {
	if c.Driver == "badger" || !hangsOnReplace(t, c.Driver) {
		return c
	}
	full := c.expand()
	if replacesStored(c.Pre, full) {
		pbt.Avoided(sigPrefix(c.Driver) + hangSig)
		c.Stream = withoutReplacements(c.Pre, full)
		c.PatternN = 0
	}
	return c
}

func TestKVRandom(t *testing.T) {
	drivers := kvDrivers()
	pbt.Check(t, 160, 3000, func(rt *rapid.T) {
		c := Case{Entry: "kvgraph", Twin: true, Present: []string{"ga"}}
		c.Driver = rapid.SampledFrom(drivers).Draw(rt, "driver")
		// the boundary lengths are enumerated by TestKVLengths; the twin costs two
		// commits per element, so most random streams are short
		var n int
		switch k := rapid.IntRange(0, 19).Draw(rt, "lenKind"); {
		case k < 2:
			n = rapid.SampledFrom(fixedLens).Draw(rt, "fixedLen")
		case k < 16:
			n = rapid.IntRange(0, 24).Draw(rt, "shortLen")
		default:
			n = rapid.IntRange(25, 120).Draw(rt, "longLen")
		}
		c.Pool = rapid.SampledFrom([]int{2, 4, 16, n + 1}).Draw(rt, "pool")
		if rapid.IntRange(0, 3).Draw(rt, "hasPre") == 0 {
			for i, k := 0, rapid.IntRange(1, 3).Draw(rt, "npre"); i < k; i++ {
				c.Pre = append(c.Pre, Elem{G: "ga", El: genElement(rt, fmt.Sprintf("pre%d", i), c.Pool, 0, 0)})
			}
		}
		for i := 0; i < n; i++ {
			c.Stream = append(c.Stream, Elem{G: "ga", El: genElement(rt, fmt.Sprintf("s%d", i), c.Pool, 0, 0)})
		}
		c = steer(rt, c)
		pbt.Current(rt, c)
		if pbt.WantSample(rt) {
			pbt.Sample(rt, c)
		}
		runKV(rt, c)
	})
}

// TestKVLengths enumerates the boundary lengths x id pools (all distinct, heavy
// repetition) x drivers with deterministic pattern streams; the thorough tier adds
// lengths around kvgraph's chunk size.
func TestKVLengths(t *testing.T) {
	if _, ok := pbt.ReplayFile(); ok {
		t.Skip("replay mode")
	}
	i := 0
	chunk := bulkChunkSize()
	for _, drv := range kvDrivers() {
		for _, n := range fixedLens {
			for _, pool := range []int{n + 1, 4, 16} {
				i++
				if !pbt.ShardOwns(i) {
					continue
				}
				c := steer(t, Case{Entry: "kvgraph", Driver: drv, Twin: n <= 101 || pool == 4, Present: []string{"ga"}, Pool: pool, PatternN: n})
				pbt.Current(t, c)
				if pbt.WantSample(t) {
					pbt.Sample(t, c)
				}
				runKV(t, c)
			}
		}
		if !pbt.Thorough() {
			continue
		}
		for _, n := range []int{chunk - 1, chunk, chunk + 1, 2*chunk + 1} {
			for _, tail := range []int{0, 1} {
				i++
				if !pbt.ShardOwns(i) {
					continue
				}
				// all ids distinct (chunks end by size); tail: one more version of the first
				// vertex and edge right after the pattern
				c := Case{Entry: "kvgraph", Driver: drv, Present: []string{"ga"}, Pool: n, PatternN: n}
				if tail == 1 {
					c.Stream = []Elem{
						{G: "ga", El: &model.Element{ID: "v0", Label: "C", Data: map[string]interface{}{"k": "tail"}}},
						{G: "ga", El: &model.Element{ID: "e0", Edge: true, Label: "z", From: "v1", To: "v0", Data: map[string]interface{}{}}},
					}
				}
				c = steer(t, c)
				pbt.Current(t, c)
				runKV(t, c)
			}
		}
	}
	pbt.ClearCurrent()
	pbt.Exhaustive(t)
}

// TestKVReplaceStoredConfirm keeps the minimal case of the known hang alive: two
// versions of one vertex in one BulkAdd stream, on every driver of the tier.
func TestKVReplaceStoredConfirm(t *testing.T) {
	if _, ok := pbt.ReplayFile(); ok {
		t.Skip("replay mode")
	}
	for _, drv := range kvDrivers() {
		pbt.Case(t)
		pbt.Class(t, fmt.Sprintf("kv:confirm:%s:hang=%v", drv, hangsOnReplace(t, drv)))
	}
}
