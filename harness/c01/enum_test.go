package c01

import (
	"testing"

	"verif/internal/model"
	"verif/internal/pbt"
)

func d(kv ...interface{}) map[string]interface{} {
	o := map[string]interface{}{}
	for i := 0; i+1 < len(kv); i += 2 {
		o[kv[i].(string)] = kv[i+1]
	}
	return o
}
func li(xs ...interface{}) []interface{} { return xs }

// fixed graphs for the exhaustive enumeration
func fixedGraphs() map[string]*model.Graph {
	g1 := &model.Graph{
		V: []*model.Element{
			{ID: "v0", Label: "A", Data: d("k", 1.0, "n", 2.0, "l", li(1.0, 2.0), "a", d("k", 1.0, "b", "a"))},
			{ID: "v1", Label: "B", Data: d("k", "a", "s", "a", "l", li("a", "b", "a"))},
			{ID: "v2", Label: "A", Data: d("k", 1.0, "n", -1.0)},
			{ID: "v3", Label: "C", Data: d()}, // isolated
			{ID: "v4", Label: "B", Data: d("k", true, "a", d("k", "a"))},
		},
		E: []*model.Element{
			{ID: "e0", Edge: true, Label: "x", From: "v0", To: "v1", Data: d("k", 1.0, "l", li(1.0))},
			{ID: "e1", Edge: true, Label: "x", From: "v0", To: "v1", Data: d()}, // parallel
			{ID: "e2", Edge: true, Label: "y", From: "v1", To: "v2", Data: d("k", "a", "n", 3.0)},
			{ID: "e3", Edge: true, Label: "y", From: "v2", To: "v2", Data: d("k", 2.0)},     // self loop
			{ID: "e4", Edge: true, Label: "z", From: "v2", To: "ghost1", Data: d("k", 1.0)}, // dangling target
			{ID: "e5", Edge: true, Label: "x", From: "ghost2", To: "v4", Data: d()},         // dangling source
			{ID: "e6", Edge: true, Label: "z", From: "v4", To: "v0", Data: d("n", 0.0, "l", li(li(1.0), "a"))},
		},
	}
	g2 := &model.Graph{}
	g3 := &model.Graph{
		V: []*model.Element{
			{ID: "v0", Label: "A", Data: d("k", 0.0)},
			{ID: "v1", Label: "A", Data: d("k", 0.0, "l", li(2.0))},
			{ID: "v2", Label: "B", Data: d("k", "1", "n", 1.0)},
		},
		E: []*model.Element{
			{ID: "e0", Edge: true, Label: "x", From: "v0", To: "v0", Data: d("k", 0.0)},
			{ID: "e1", Edge: true, Label: "y", From: "v0", To: "v1", Data: d("k", 0.0)},
			{ID: "e2", Edge: true, Label: "y", From: "v1", To: "v0", Data: d()},
			{ID: "e3", Edge: true, Label: "x", From: "v1", To: "v2", Data: d("l", li(1.0, 1.0))},
			{ID: "e4", Edge: true, Label: "x", From: "v1", To: "v2", Data: d("l", li(1.0, 1.0))},
		},
	}
	return map[string]*model.Graph{"g1": g1, "g2-empty": g2, "g3": g3}
}

func has(e *model.Expr) model.Step { return model.Step{Op: "has", Has: e} }

var starts = []model.Step{model.S("V"), model.S("E"), model.S("V", "v0", "v2", "nope"), model.S("E", "e0", "e3")}

// the step alphabet of the exhaustive enumeration
var alphabet = []model.Step{
	model.S("out"), model.S("out", "x"), model.S("out", "x", "y"),
	model.S("in"), model.S("in", "y"), model.S("in", "y", "z"),
	model.S("both"), model.S("both", "x"),
	model.S("outE"), model.S("outE", "x"), model.S("outE", "y", "z"),
	model.S("inE"), model.S("inE", "x"),
	model.S("bothE"), model.S("bothE", "y"),
	has(model.Leaf("eq", "k", 1.0)), has(model.Leaf("gt", "n", 0.0)), has(model.Leaf("eq", "_label", "A")),
	has(model.Leaf("within", "_gid", li("v0", "v1", "e0"))), has(model.Not(model.Leaf("eq", "a.k", 1.0))),
	has(model.Or(model.Leaf("eq", "$a.k", 1.0), model.Leaf("contains", "l", "a"))),
	model.S("hasLabel", "A"), model.S("hasLabel", "x", "B"), model.S("hasId", "v0", "e1"), model.S("hasKey", "k"), model.S("hasKey", "l", "k"), model.S("hasKey", "a.k"),
	model.S("as", "a"), model.S("as", "b"), model.S("select", "a"), model.S("select", "a", "b"),
	model.S("fields"), model.S("fields", "k", "n"), model.S("fields", "-k"),
	{Op: "render", Template: map[string]interface{}{"id": "_gid", "k": "k", "ak": "$a.k"}}, {Op: "render", Template: "_label"},
	model.S("path"), model.S("unwind", "l"),
	model.S("distinct"), model.S("distinct", "k"), model.S("distinct", "$a._gid", "_label"),
	model.S("count"),
	{Op: "limit", N: 0}, {Op: "limit", N: 2}, {Op: "skip", N: 1}, {Op: "skip", N: 9}, {Op: "range", N: 1, M: 3}, {Op: "range", N: 0, M: -1}, {Op: "range", N: 2, M: 1},
}

// enumerate calls f for every sequence start ++ alphabet^(<=depth) whose every proper
// prefix is well-typed and non-terminal (extending an ill-typed or terminated prefix
// adds nothing: it is rejected at the same position).
func enumerate(depth int, f func(steps []model.Step)) {
	var rec func(prefix []model.Step, left int)
	rec = func(prefix []model.Step, left int) {
		f(prefix)
		if left == 0 {
			return
		}
		ty := model.TypeCheck(prefix)
		if ty.Verdict != model.WellTyped || !ty.Final.IsElement() {
			return
		}
		for _, s := range alphabet {
			next := append(append([]model.Step{}, prefix...), s)
			rec(next, left-1)
		}
	}
	for _, s := range starts {
		rec([]model.Step{s}, depth)
	}
}

func TestExhaustive(t *testing.T) {
	if _, ok := pbt.ReplayFile(); ok {
		t.Skip("replay mode")
	}
	depth := pbt.Pick(2, 3)
	graphs := fixedGraphs()
	i := 0
	for _, name := range model.SortedKeys(graphs) {
		ld := load(t, graphs[name])
		enumerate(depth, func(steps []model.Step) {
			i++
			if !pbt.ShardOwns(i) {
				return
			}
			c := Case{Graph: graphs[name], Steps: steps}
			if pbt.WantSample(t) {
				pbt.Sample(t, map[string]interface{}{"graph": name, "traversal": model.TravString(steps)})
			}
			judge(t, ld, c)
		})
	}
	pbt.Exhaustive(t)
}
