// Package c01: traversal results equal the documented step-by-step semantics.
package c01

import (
	"encoding/json"
	"fmt"
	"os"
	"strings"
	"testing"

	"github.com/bmeg/grip/gdbi"
	"pgregory.net/rapid"
	"verif/internal/gen"
	"verif/internal/gripx"
	"verif/internal/model"
	"verif/internal/pbt"
)

func TestMain(m *testing.M) {
	code := pbt.Main(m, pbt.Meta{
		Property: "C01",
		Level:    "exploration",
		Rule: "graphs (<=6 vertices, <=12 edges over small id/label universes: self loops, parallel edges, dangling endpoints, isolated vertices, empty graph, nested data) x traversals: every well-typed sequence up to a length bound over a ~50-step alphabet on fixed graphs (exhaustive), and random typed-grammar traversals (length <=10) plus spliced ill-typed ones; run on kvgraph/Badger and compared with a reference interpreter (multiset equality; arithmetic+sub-multiset relations for limit/skip/range; key-set relations for distinct; accept/reject for typing). " +
			"Non-trivial: the reference result has >=1 row and the traversal has >=2 steps after the start, or it is ill-typed at a position >0; distinct = distinct (graph, traversal) text.",
		Assumptions: []string{
			"reference interpreter (internal/model/interp.go) written from website/content/docs/queries and the conformance tests; traversals it marks unspecified are counted and not judged",
			"row order is never asserted; store under test is kvgraph on Badger with unique ids loaded once per graph",
		},
	})
	gripx.Cleanup()
	os.Exit(code)
}

// Case is one (graph, traversal) pair.
type Case struct {
	Graph *model.Graph `json:"graph"`
	Steps []model.Step `json:"steps"`
	// Arrival: how the graph got into the store (nil = every element written once)
	Arrival *gripx.Arrival `json:"arrival,omitempty"`
}

type loaded struct {
	g  *model.Graph
	gi gdbi.GraphInterface
}

func load(t pbt.TB, g *model.Graph, arr ...*gripx.Arrival) *loaded {
	var a *gripx.Arrival
	if len(arr) > 0 {
		a = arr[0]
	}
	if a != nil {
		pbt.Class(t, "graph-arrived-through-overwrites-and-deletes")
	}
	gi, err := gripx.LoadVia(gripx.DB("badger"), gripx.FreshName(), g, a)
	if err != nil {
		t.Fatalf("INFRA: cannot load graph: %v", err)
	}
	return &loaded{g: g, gi: gi}
}

func opsSig(steps []model.Step) string {
	ops := make([]string, len(steps))
	for i, s := range steps {
		ops[i] = s.Op
	}
	return strings.Join(ops, ".")
}

// rowWise reports whether every step maps one input row to rows independently of the
// other rows (so truncating the input truncates the output to a sub-multiset).
func rowWise(steps []model.Step) bool {
	for _, s := range steps {
		if s.Op == "count" || model.OrderSensitive(s) || s.Op == "aggregate" {
			return false
		}
	}
	return true
}

// oneToOne: each input row yields exactly one output row.
func oneToOne(steps []model.Step) bool {
	for _, s := range steps {
		switch s.Op {
		case "as", "fields", "render", "path":
		case "select":
		default:
			return false
		}
	}
	return true
}

func clamp(x, lo, hi int) int {
	if x < lo {
		return lo
	}
	if x > hi {
		return hi
	}
	return x
}

func expectedCount(s model.Step, n int) int {
	switch s.Op {
	case "limit":
		return clamp(int(s.N), 0, n)
	case "skip":
		return clamp(n-int(s.N), 0, n)
	case "range":
		a, b := int(s.N), int(s.M)
		if b == -1 {
			return clamp(n-a, 0, n)
		}
		return clamp(clamp(b, 0, n)-a, 0, n)
	}
	panic("not a truncation step")
}

func distinctKey(t *model.Trav, fields []string) (string, bool) { return model.DistinctKey(t, fields) }

// judge runs one case; returns false if it was not judged (unspecified).
func judge(t pbt.TB, ld *loaded, c Case) {
	pbt.Case(t)
	steps := c.Steps
	ty := model.TypeCheck(steps)
	pbt.Class(t, "typing="+ty.Verdict.String())
	if ty.Verdict == model.Unspecified {
		pbt.Class(t, "skip:"+firstWords(ty.Why))
		return
	}
	out := gripx.Run(ld.gi, model.Protos(steps))
	if ty.Verdict == model.IllTyped {
		if ty.At > 0 {
			pbt.Nontrivial(t, "ill|"+model.TravString(steps))
		}
		if out.CompileErr == nil {
			prev := "none"
			if ty.At > 0 && ty.At-1 < len(ty.Types) {
				prev = ty.Types[ty.At-1].String()
			}
			pbt.Discrepancy(t, c, fmt.Sprintf("typing:accepted:%s-after-%s", steps[min(ty.At, len(steps)-1)].Op, prev),
				"ill-typed traversal %s (%s at step %d) was accepted and produced a result stream (%d rows)", model.TravString(steps), ty.Why, ty.At, len(out.Rows))
		}
		return
	}
	if out.CompileErr != nil {
		pbt.Discrepancy(t, c, "typing:rejected:"+opsSig(steps), "well-typed traversal %s rejected: %v", model.TravString(steps), out.CompileErr)
		return
	}
	if out.Hang {
		pbt.Inconclusive(t, "stream not closed within budget")
		return
	}
	for _, r := range out.Raw {
		if r == nil {
			pbt.Discrepancy(t, c, "rows:nil-row:"+opsSig(steps), "%s produced a nil row", model.TravString(steps))
			return
		}
	}
	// j: the first step whose result depends on the (undocumented) row order. A distinct()
	// whose groups hold identical travelers only is not such a step (model.EvalX).
	j := -1
	for i, s := range steps {
		if !model.OrderSensitive(s) {
			continue
		}
		if s.Op == "distinct" {
			if _, _, unspec, _ := model.EvalX(ld.g, steps[:i+1]); !strings.HasPrefix(unspec, "order-sensitive step") {
				if unspec == "" {
					pbt.Class(t, "distinct-with-identical-groups:exact")
				}
				continue
			}
		}
		j = i
		break
	}
	nontrivial := func(nref int) {
		if nref >= 1 && len(steps) >= 3 {
			pbt.Nontrivial(t, model.Canon(graphKey(c.Graph))+"|"+model.TravString(steps))
		}
	}
	if j < 0 {
		travs, final, unspec, subsetOnly := model.EvalX(ld.g, steps)
		if unspec != "" {
			pbt.Class(t, "skip:"+firstWords(unspec))
			return
		}
		want := gripx.ExpectedRows(travs, final)
		nontrivial(len(want))
		if subsetOnly {
			// an unwind() of a missing/empty/non-list value occurred whose result nobody
			// read: the row multiplicity is open, the rows themselves are not
			pbt.Class(t, "judged:subset-after-open-unwind")
			ok := gripx.SubMultiset(out.Rows, want)
			if final == model.TCount {
				ok = len(out.Raw) == 1 && len(travs) == 1 && int(out.Raw[0].GetCount()) <= travs[0].Count
			}
			if !ok {
				pbt.Discrepancy(t, c, "rows-after-open-unwind:"+opsSig(steps), "%s: rows are not among those the steps can produce: %s", model.TravString(steps), gripx.DiffMultiset(out.Rows, want))
			}
			return
		}
		pbt.Class(t, "judged:equality")
		if d := gripx.DiffMultiset(out.Rows, want); d != "" {
			pbt.Discrepancy(t, c, "rows:"+opsSig(steps), "%s: %s", model.TravString(steps), d)
		}
		return
	}
	P, op, R := steps[:j], steps[j], steps[j+1:]
	pt, _, unspec := model.Eval(ld.g, P)
	if unspec != "" {
		pbt.Class(t, "skip:"+firstWords(unspec))
		return
	}
	N := len(pt)
	if op.Op == "distinct" {
		judgeDistinct(t, ld, c, P, op, R, pt, out, nontrivial)
		return
	}
	want := expectedCount(op, N)
	switch {
	case len(R) == 0 || oneToOne(R):
		pbt.Class(t, "judged:truncation-count")
		nontrivial(N)
		if len(out.Rows) != want {
			pbt.Discrepancy(t, c, "count:"+op.Op, "%s: %d rows, want %d (N=%d before %s)", model.TravString(steps), len(out.Rows), want, N, op)
			return
		}
	case len(R) == 1 && R[0].Op == "count":
		pbt.Class(t, "judged:truncation-count")
		nontrivial(N)
		got := -1
		if len(out.Raw) == 1 {
			got = int(out.Raw[0].GetCount())
		}
		if got != want {
			pbt.Discrepancy(t, c, "count:"+op.Op, "%s: count=%d (rows %v), want %d (N=%d)", model.TravString(steps), got, out.Rows, want, N)
		}
		return
	}
	if rowWise(R) {
		full := append(append([]model.Step{}, P...), R...)
		ft, final, unspec := model.Eval(ld.g, full)
		if unspec != "" {
			pbt.Class(t, "skip:"+firstWords(unspec))
			return
		}
		pbt.Class(t, "judged:truncation-subset")
		if !gripx.SubMultiset(out.Rows, gripx.ExpectedRows(ft, final)) {
			pbt.Discrepancy(t, c, "subset:"+op.Op, "%s: rows are not a sub-multiset of the untruncated result: %v", model.TravString(steps), out.Rows)
		}
		return
	}
	pbt.Class(t, "skip:order-sensitive suffix")
}

func judgeDistinct(t pbt.TB, ld *loaded, c Case, P []model.Step, op model.Step, R []model.Step, pt []*model.Trav, out gripx.Outcome, nontrivial func(int)) {
	steps := c.Steps
	keys := map[string]bool{}
	for _, tr := range pt {
		if k, ok := distinctKey(tr, op.Args); ok {
			keys[k] = true
		}
	}
	if len(R) == 0 {
		pbt.Class(t, "judged:distinct")
		nontrivial(len(pt))
		ptype := model.TypeCheck(P).Final
		if !gripx.SubMultiset(out.Rows, gripx.ExpectedRows(pt, ptype)) {
			pbt.Discrepancy(t, c, "distinct:not-subset", "%s: rows are not a sub-multiset of the rows before distinct: %v", model.TravString(steps), out.Rows)
			return
		}
		if len(out.Rows) != len(keys) {
			pbt.Discrepancy(t, c, "distinct:count", "%s: %d rows, but the input has %d distinct key tuples", model.TravString(steps), len(out.Rows), len(keys))
			return
		}
		// keys of output rows: recompute by matching rows back to reference travelers
		byRow := map[string][]string{}
		for _, tr := range pt {
			if k, ok := distinctKey(tr, op.Args); ok {
				r := gripx.RowCanon(gripx.ExpectedRow(tr, ptype))
				byRow[r] = append(byRow[r], k)
			}
		}
		// every output row must be explainable by a distinct key: greedy matching is
		// exact when rows with equal text have equal key sets, otherwise only the
		// count/subset relations above are judged.
		return
	}
	if len(R) == 1 && R[0].Op == "count" {
		pbt.Class(t, "judged:distinct")
		nontrivial(len(pt))
		got := -1
		if len(out.Raw) == 1 {
			got = int(out.Raw[0].GetCount())
		}
		if got != len(keys) {
			pbt.Discrepancy(t, c, "distinct:count", "%s: count=%d, but the input has %d distinct key tuples", model.TravString(steps), got, len(keys))
		}
		return
	}
	if rowWise(R) {
		full := append(append([]model.Step{}, P...), R...)
		ft, final, unspec := model.Eval(ld.g, full)
		if unspec != "" {
			pbt.Class(t, "skip:"+firstWords(unspec))
			return
		}
		pbt.Class(t, "judged:distinct-subset")
		if !gripx.SubMultiset(out.Rows, gripx.ExpectedRows(ft, final)) {
			pbt.Discrepancy(t, c, "subset:distinct", "%s: rows are not a sub-multiset of the undeduplicated result: %v", model.TravString(steps), out.Rows)
		}
		return
	}
	pbt.Class(t, "skip:order-sensitive suffix")
}

func firstWords(s string) string {
	f := strings.Fields(s)
	if len(f) > 5 {
		f = f[:5]
	}
	return strings.Join(f, " ")
}

func graphKey(g *model.Graph) interface{} {
	b, _ := json.Marshal(g)
	var v interface{}
	json.Unmarshal(b, &v)
	return v
}

func classifyGraph(t pbt.Named, g *model.Graph) {
	s := g.Shape()
	for name, b := range map[string]bool{"selfloop": s.SelfLoop, "parallel": s.Parallel, "dangling": s.Dangling, "isolated": s.Isolated, "empty": s.Empty, "nested": s.Nested} {
		if b {
			pbt.Class(t, "graph:"+name)
		}
	}
}

func classifySteps(t pbt.Named, steps []model.Step) {
	seen := map[string]bool{}
	for _, s := range steps {
		if !seen[s.Op] {
			seen[s.Op] = true
			pbt.Class(t, "step:"+s.Op)
		}
	}
}

// ---------------------------------------------------------------------------------

func TestReplay(t *testing.T) {
	cf, ok := pbt.ReplayFile()
	if !ok {
		t.Skip("no replay file")
	}
	var c Case
	if err := json.Unmarshal(cf.Case, &c); err != nil {
		t.Fatal(err)
	}
	judge(t, load(t, c.Graph, c.Arrival), c)
}

func TestRandom(t *testing.T) {
	pbt.Check(t, 3000, 80000, func(rt *rapid.T) {
		g := gen.Graph(rt, 6, 12)
		steps := gen.Traversal(rt, gen.TravOpts{MaxLen: 10, RowCountHint: 5})
		c := Case{Graph: g, Steps: steps, Arrival: gen.Arrival(rt, g)}
		pbt.Current(rt, c)
		classifyGraph(rt, g)
		classifySteps(rt, steps)
		if pbt.WantSample(rt) {
			pbt.Sample(rt, map[string]interface{}{"graph": g, "traversal": model.TravString(steps)})
		}
		judge(rt, load(rt, g, c.Arrival), c)
	})
}

func TestIllTyped(t *testing.T) {
	pbt.Check(t, 1500, 50000, func(rt *rapid.T) {
		g := gen.Graph(rt, 4, 6)
		base := gen.Traversal(rt, gen.TravOpts{MaxLen: 6, NoTerminal: true})
		steps := gen.IllTyped(rt, base)
		c := Case{Graph: g, Steps: steps}
		pbt.Current(rt, c)
		if pbt.WantSample(rt) {
			pbt.Sample(rt, model.TravString(steps))
		}
		judge(rt, load(rt, g), c)
	})
}
