package c16

import (
	"encoding/json"
	"fmt"
	"testing"
	"time"
	"unicode/utf8"

	"github.com/bmeg/grip/gripql"
	"verif/internal/gripx"
	"verif/internal/live"
	"verif/internal/pbt"
	"verif/internal/worker"
)

// One small fixed case per expected defect (findings/*.md, /verif/known/C16.json), at
// both levels, through the same runCase as the generated cases: while the finding is
// listed as open they print its KNOWN-FINDING line, once it is fixed they must hold.

func TestWorkerChild(t *testing.T) {
	if !worker.IsChild() {
		t.Skip("not a worker child")
	}
	worker.ChildMain(func(srv *live.Server, raw json.RawMessage) (interface{}, error) { return "ok", nil })
}

func hv(id, label string, hostile ...string) Write {
	return Write{Kind: "addVertex", Elems: []Elem{bv(id, label, map[string]interface{}{"k": 1.0})}, Hostile: hostile}
}

func he(id, label, from, to string, hostile ...string) Write {
	return Write{Kind: "addEdge", Elems: []Elem{bedge(id, label, from, to, nil)}, Hostile: hostile}
}

func hidx(label, field string, hostile ...string) Write {
	return Write{Kind: "addIndex", Elems: []Elem{{Label: []byte(label), ID: []byte(field)}}, Hostile: hostile}
}

// hval writes a vertex whose property k has the given value
func hval(id, label string, v interface{}) Write {
	return Write{Kind: "addVertex", Elems: []Elem{bv(id, label, map[string]interface{}{"k": v})}, Hostile: []string{"value"}}
}

func bulk(w Write) Write {
	w.Kind = "bulkAdd"
	return w
}

type fixed struct {
	name   string
	base   int
	writes func(ga, gb string) []Write
}

func fixedCases() []fixed {
	// into addresses the writes to graph A. Index fields get a suffix unique to the case
	// (the index listing of the shared store is not isolated per graph, see
	// findings/index-listing.md), and so does the property k of later vertex writes.
	into := func(ws ...Write) func(ga, gb string) []Write {
		return func(ga, gb string) []Write {
			out := make([]Write, len(ws))
			indexed := false
			for i, w := range ws {
				if w.Kind != "addGraph" {
					w.Graph = []byte(ga)
				}
				switch {
				case w.Kind == "addIndex":
					e := w.Elems[0]
					e.ID = append(append([]byte{}, e.ID...), ga...)
					w.Elems = []Elem{e}
					indexed = true
				case indexed && len(w.Elems) == 1:
					e := w.Elems[0]
					d := map[string]interface{}{}
					for k, v := range e.Data {
						if k == "k" {
							k += ga
						}
						d[k] = v
					}
					e.Data = d
					w.Elems = []Elem{e}
				}
				out[i] = w
			}
			return out
		}
	}
	return append(markerByteCases(into), []fixed{
		// a vertex id that extends an existing id by 0x00: listed under the truncated id
		{"vertex-id-nul-suffix", 0, into(hv("v1\x00", "A", "vertex-id"))},
		{"vertex-id-nul-middle", 0, into(hv("v1\x00x", "B", "vertex-id"))},
		{"vertex-id-nul-fresh", 0, into(hv("n\x00m", "A", "vertex-id"))},
		{"vertex-id-nul-bulk", 0, into(bulk(hv("v2\x00", "A", "vertex-id")))},
		// labels with 0x00: the index entry key is mis-parsed (term/doc id shift)
		{"vertex-label-nul", 0, into(hv("nv", "A\x00v2", "label"))},
		{"vertex-label-nul-suffix", 0, into(hv("nv", "A\x00", "label"))},
		{"edge-label-nul", 0, into(he("ne", "x\x00y", "v1", "v2", "label"))},
		// edge components with 0x00 shift every later key component
		{"edge-id-nul", 0, into(he("e1\x00", "x", "v1", "v2", "edge-id"))},
		{"edge-id-nul-fresh", 1, into(he("n\x00e", "x", "v1", "v2", "edge-id"))},
		{"edge-from-nul", 0, into(he("ne", "x", "v1\x00", "v2", "from"))},
		{"edge-to-nul", 0, into(he("ne", "x", "v1", "v2\x00v1", "to"))},
		{"edge-id-nul-bulk", 0, into(bulk(he("e1\x00z", "x", "v1", "v2", "edge-id")))},
		// accepted, and the stored key cannot be parsed (reported without reading back)
		{"edge-id-crash-shape", 0, into(he("e1\x00\x00\x00\x00", "x", "v1", "v2", "edge-id"))},
		// the label named "label" collides with the label term inside the index document
		{"label-named-label-new", 0, into(hv("nv", "label", "label"))},
		{"label-named-label-replace", 0, into(hv("v1", "label", "label"))},
		{"label-named-label-bulk", 0, into(bulk(hv("nv", "label", "label")))},
		{"edge-label-named-label", 0, into(he("ne", "label", "v1", "v2", "label"))},
		{"edge-label-named-label-replace", 0, into(he("e1", "label", "v1", "v2", "label"))},
		{"edge-label-named-label-bulk", 0, into(bulk(he("ne", "label", "v1", "v2", "label")))},
		// not valid UTF-8 (reaches the store at the gdbi level only)
		{"vertex-id-invalid-utf8", 0, into(hv("v1\xff", "A", "vertex-id"))},
		{"vertex-label-invalid-utf8-replace", 0, into(hv("v1", "A\xff", "label"))},
		{"edge-label-invalid-utf8-replace", 0, into(he("e1", "x\xff", "v1", "v2", "label"))},
		{"edge-to-invalid-utf8-replace", 0, into(he("e1", "x", "v1", "v2\xff", "to"))},
		{"edge-id-invalid-utf8", 0, into(he("e1\xc3(", "x", "v1", "v2", "edge-id"))},
		// graph names with 0x00
		{"graph-nul-existing-prefix", 0, func(ga, gb string) []Write {
			return []Write{{Kind: "addGraph", Graph: []byte(ga + "\x00b"), Hostile: []string{"graph"}}}
		}},
		{"graph-nul-fresh-prefix", 0, func(ga, gb string) []Write {
			return []Write{{Kind: "addGraph", Graph: []byte(gripx.FreshName() + "\x00b"), Hostile: []string{"graph"}}}
		}},
		{"graph-nul-then-vertex", 2, func(ga, gb string) []Write {
			w := hv("nv", "A")
			w.Graph = []byte(gb + "\x00")
			return []Write{{Kind: "addGraph", Graph: []byte(gb + "\x00"), Hostile: []string{"graph"}}, w}
		}},
		// reserved suffixes in graph names
		{"graph-mapping-suffix", 0, func(ga, gb string) []Write {
			return []Write{{Kind: "addGraph", Graph: []byte(ga + "__mapping__"), Hostile: []string{"graph"}}}
		}},
		{"graph-schema-suffix", 0, func(ga, gb string) []Write {
			w := hv("nv", "A")
			w.Graph = []byte(ga + "__schema__")
			return []Write{{Kind: "addGraph", Graph: []byte(ga + "__schema__"), Hostile: []string{"graph"}}, w}
		}},
		{"graph-empty-name", 0, func(ga, gb string) []Write {
			return []Write{{Kind: "addGraph", Graph: []byte(""), Hostile: []string{"graph"}}}
		}},
		// property indices (AddIndex / ListIndices)
		{"index-plain", 0, into(hidx("A", "k"))},
		{"index-dot-label", 0, into(hidx("A.k", "f", "index-label"))},
		{"index-nested-field", 0, into(hidx("A", "a.b", "index-field"))},
		{"index-label-named-label", 0, into(hidx("label", "k", "index-label"))},
		{"index-nul-label", 0, into(hidx("A\x00B", "k", "index-label"))},
		{"index-then-string", 0, into(hidx("A", "k"), hval("v1", "A", "s"))},
		{"index-then-bool-replace", 0, into(hidx("A", "k"), hval("v1", "A", true))},
		{"index-then-bool-new", 0, into(hidx("A", "k"), hval("nv", "A", false))},
		{"index-then-map", 0, into(hidx("A", "k"), hval("v1", "A", map[string]interface{}{"n": 1.0}))},
		{"index-then-list-bulk", 0, into(hidx("A", "k"), bulk(hval("v1", "A", []interface{}{1.0})))},
		{"index-then-null", 0, into(hidx("A", "k"), hval("v1", "A", nil))},
		{"index-then-other-label", 0, into(hidx("A", "k"), hval("v2", "B", true))},
		// controls: things that must simply work
		{"control-unicode-ids", 0, into(hv("e\u0301\u202e\U0001F600 x", "L \t.l", "vertex-id", "label"), he("\u00e9/\\", "v", "v1", "e\u0301\u202e\U0001F600 x", "edge-id", "to"))},
		{"control-family-letters", 1, into(hv("v", "e", "vertex-id", "label"), he("e", "v", "v", "s", "edge-id", "from"))},
		{"control-dot-label", 0, into(hv("nv", "A.k", "label"), hv("v.label", "v.label", "vertex-id", "label"))},
		{"control-bad-prop-names", 0, into(
			Write{Kind: "addVertex", Elems: []Elem{bv("nv", "A", map[string]interface{}{"a.b": 1.0})}, Hostile: []string{"prop-name"}},
			Write{Kind: "addVertex", Elems: []Elem{bv("v1", "A", map[string]interface{}{"k\x00": 1.0})}, Hostile: []string{"prop-name"}})},
	}...)
}

// markerByteCases: every identifier role x the bytes next to the key separator that the
// key layouts use as markers or that sit at the ends of the byte range (0x01, 0x02,
// 0x1f, 0x7f) x position (trailing, leading, alone), one element per case, followed by
// a delete of the same element; the complete observation must show the string verbatim.
func markerByteCases(into func(ws ...Write) func(ga, gb string) []Write) []fixed {
	var out []fixed
	for _, b := range []string{"\x01", "\x02", "\x1f", "\x7f"} {
		for _, pos := range []string{"trailing", "leading", "alone"} {
			mk := func(base string) string {
				switch pos {
				case "trailing":
					return base + b
				case "leading":
					return b + base
				}
				return b
			}
			name := func(role string) string { return fmt.Sprintf("marker-%s-%s-%q", role, pos, b) }
			out = append(out,
				fixed{name("vertex-id"), 1, into(hv(mk("v1"), "A", "vertex-id"))},
				fixed{name("vertex-label"), 1, into(hv("v1", mk("A"), "label"), hv("nv", mk("A"), "label"))},
				fixed{name("edge-id"), 1, into(he(mk("e1"), "x", "v1", "v2", "edge-id"))},
				fixed{name("edge-label"), 1, into(he("ne", mk("x"), "v1", "v2", "label"), he("e1", mk("x"), "v2", "v1", "label"), he("e1", "x", "v1", "v2"))},
				fixed{name("edge-from"), 1, into(he("ne", "x", mk("v1"), "v2", "from"))},
				fixed{name("edge-to"), 1, into(he("ne", "x", "v1", mk("v2"), "to"))},
			)
		}
	}
	return out
}

func TestFixedCases(t *testing.T) {
	if _, ok := pbt.ReplayFile(); ok {
		t.Skip("replay mode")
	}
	i := 0
	for _, level := range []string{"gdbi", "server"} {
		for _, f := range fixedCases() {
			i++
			if !pbt.ShardOwns(i) {
				continue
			}
			ga, gb := gripx.FreshName(), gripx.FreshName()
			c := Case{Level: level, GA: ga, GB: gb, Base: f.base, Writes: f.writes(ga, gb)}
			c.Desc = f.name + ": " + describe(c.Writes)
			if level == "server" && !utf8.ValidString(describeRaw(c.Writes)) {
				continue // gRPC refuses invalid UTF-8 before the server sees it
			}
			pbt.Class(t, "fixed:"+f.name)
			pbt.Current(t, c)
			runCase(t, c)
		}
	}
	pbt.ClearCurrent()
	pbt.Exhaustive(t)
}

// ---------------------------------------------------------------------------------
// crash confirmation in a child process

// confirmCrash writes the crash-shaped edge of the case through a live server in a
// worker subprocess and lists the edges: the server must survive.
func confirmCrash(t pbt.TB, c Case) {
	pbt.Case(t)
	w, err := worker.Start()
	if err != nil {
		t.Fatalf("INFRA: %v", err)
	}
	defer w.Stop()
	be := &srvBackend{t: t, srv: w.Srv}
	if ok, detail, _ := be.addGraph(c.GA); !ok {
		t.Fatalf("INFRA: AddGraph in worker failed: %s", detail)
	}
	for _, e := range []Elem{bv("v1", "A", nil), bv("v2", "B", nil)} {
		if ok, detail, _ := be.put(Write{Kind: "addVertex", Graph: []byte(c.GA), Elems: []Elem{e}}); !ok {
			t.Fatalf("INFRA: base AddVertex in worker failed: %s", detail)
		}
	}
	wr := c.Writes[0]
	accepted, detail, _ := be.put(wr)
	pbt.Class(t, fmt.Sprintf("crash-confirm:accepted=%v", accepted))
	if !accepted {
		// refused: the graph must be readable and unchanged
		s, err := be.trav(c.GA, gripql.NewQuery().E())
		if err != nil || s != "[]" || !w.Alive() {
			pbt.Discrepancy(t, c, signature(wr, "rejected-but-graph-changed"), "%s was refused (%s) but E() afterwards returned %q err=%v alive=%v", wr, detail, s, err, w.Alive())
		}
		return
	}
	pbt.Nontrivial(t, "crash-confirm|"+describe(c.Writes))
	s, terr := be.trav(c.GA, gripql.NewQuery().E())
	if w.WaitDead(3*time.Second) || !w.Alive() {
		msg, frame := w.CrashInfo()
		pbt.Discrepancy(t, c, signature(wr, "process-crash"), "%s was accepted; the following E() traversal killed the server process: %s at %s", wr, msg, frame)
		return
	}
	want := "[E " + etext(string(wr.target().ID), string(wr.target().Label), string(wr.target().From), string(wr.target().To), nil) + "]"
	if terr != nil || s != want {
		pbt.Discrepancy(t, c, signature(wr, "not-read-back-verbatim"), "%s was accepted; E() returned %q err=%v, want %q", wr, s, terr, want)
	}
}

func TestConfirmCrash(t *testing.T) {
	if _, ok := pbt.ReplayFile(); ok {
		t.Skip("replay mode")
	}
	if pbt.Shard() != 0 {
		t.Skip("shard 0 only")
	}
	ga := gripx.FreshName()
	for _, wr := range []Write{
		he("e1\x00\x00\x00\x00", "x", "v1", "v2", "edge-id"),
		he("ne", "x", "v1\x00\x00\x00\x00", "v2", "from"),
	} {
		wr.Graph = []byte(ga)
		c := Case{Level: "crash-confirm", GA: ga, Writes: []Write{wr}}
		c.Desc = describe(c.Writes)
		confirmCrash(t, c)
	}
	pbt.Exhaustive(t)
}

// describeRaw concatenates the raw identifier components of the writes.
func describeRaw(ws []Write) string {
	var b []byte
	for _, w := range ws {
		b = append(b, w.Graph...)
		for _, e := range w.Elems {
			b = append(append(append(append(b, e.ID...), e.Label...), e.From...), e.To...)
		}
	}
	return string(b)
}
