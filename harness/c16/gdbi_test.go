package c16

import (
	"fmt"

	"github.com/bmeg/grip/gdbi"
	"verif/internal/model"
	"verif/internal/obs"
)

// level (ii): the gdbi interface of the shared kvgraph/Badger store

type gdbiBackend struct {
	db gdbi.GraphDB
}

func toGdbi(e Elem) *gdbi.DataElement {
	return &gdbi.DataElement{ID: string(e.ID), Label: string(e.Label), From: string(e.From), To: string(e.To), Data: model.CopyMap(e.Data), Loaded: true}
}

func (b *gdbiBackend) addGraph(name string) (accepted bool, detail string, panicked bool) {
	defer func() {
		if r := recover(); r != nil {
			accepted, detail, panicked = false, fmt.Sprintf("%v", r), true
		}
	}()
	if err := b.db.AddGraph(name); err != nil {
		return false, err.Error(), false
	}
	return true, "", false
}

func (b *gdbiBackend) put(w Write) (accepted bool, detail string, panicked bool) {
	defer func() {
		if r := recover(); r != nil {
			accepted, detail, panicked = false, fmt.Sprintf("%v", r), true
		}
	}()
	gi, err := b.db.Graph(string(w.Graph))
	if err != nil {
		return false, err.Error(), false
	}
	switch w.Kind {
	case "addVertex":
		err = gi.AddVertex([]*gdbi.Vertex{toGdbi(w.Elems[0])})
	case "addEdge":
		err = gi.AddEdge([]*gdbi.Edge{toGdbi(w.Elems[0])})
	case "bulkAdd":
		ch := make(chan *gdbi.GraphElement, len(w.Elems))
		for _, e := range w.Elems {
			ge := &gdbi.GraphElement{Graph: string(w.Graph)}
			if e.Edge {
				ge.Edge = toGdbi(e)
			} else {
				ge.Vertex = toGdbi(e)
			}
			ch <- ge
		}
		close(ch)
		err = gi.BulkAdd(ch)
	default:
		panic("c16: unknown write kind " + w.Kind)
	}
	if err != nil {
		return false, err.Error(), false
	}
	return true, "", false
}

func (b *gdbiBackend) listGraphs() []string { return b.db.ListGraphs() }

func (b *gdbiBackend) addIndex(graph, label, field string) (accepted bool, detail string, panicked bool) {
	defer func() {
		if r := recover(); r != nil {
			accepted, detail, panicked = false, fmt.Sprintf("%v", r), true
		}
	}()
	gi, err := b.db.Graph(graph)
	if err != nil {
		return false, err.Error(), false
	}
	if err := gi.AddVertexIndex(label, field); err != nil {
		return false, err.Error(), false
	}
	return true, "", false
}

func (b *gdbiBackend) listIndices(graph string) (out []string, err error) {
	defer func() {
		if r := recover(); r != nil {
			err = fmt.Errorf("PANIC: %v", r)
		}
	}()
	gi, err := b.db.Graph(graph)
	if err != nil {
		return nil, err
	}
	for i := range gi.GetVertexIndexList() {
		if i.Graph != graph {
			out = append(out, "(graph "+i.Graph+")"+i.Label+"|"+i.Field)
			continue
		}
		out = append(out, i.Label+"|"+i.Field)
	}
	return out, nil
}

func (b *gdbiBackend) deleteGraph(name string) {
	defer func() { recover() }()
	b.db.DeleteGraph(name)
}

func (b *gdbiBackend) observe(graph string, u *universe, light bool) (o obs.Observation) {
	defer func() {
		if r := recover(); r != nil {
			o = obs.Observation{"Graph()": fmt.Sprintf("PANIC: %v", r)}
		}
	}()
	gi, err := b.db.Graph(graph)
	if err != nil {
		return nil
	}
	o = obs.Observation{}
	for _, ou := range u.forGdbi(light) {
		for k, v := range obs.OfGraph(gi, ou) {
			o[k] = v
		}
	}
	return o
}

func (b *gdbiBackend) modelObs(g *model.Graph, u *universe, light bool) obs.Observation {
	o := obs.Observation{}
	for _, ou := range u.forGdbi(light) {
		for k, v := range obs.OfModel(g, ou) {
			o[k] = v
		}
	}
	return o
}
