package c16

import (
	"fmt"
	"math"
	"strings"
	"unicode/utf8"

	"pgregory.net/rapid"
	"verif/internal/gripx"
)

// ---------------------------------------------------------------------------------
// hostile strings

var fragments = []string{
	"\x00", "\x00", "\x00", // the key separator of kvgraph and kvindex
	"v", "e", "s", "d", "g", "i", "t", "f", "D", // key-family prefixes
	".", "label", "v", "e", "__schema__", "__mapping__", "__current__",
	"_", "-", "$", " ", "\t", "\n", "\r", "\x01", "\x02", "\x7f", "\x1f",
	"\u00e9", "\u0301", "\u202e", "\u05d0", "\U0001F600", "e\u0301", "\ufeff", "\u00a0", "\ufffd",
	"a", "x", "1", "0", "A", "/", "\\", "%", "'", "\"", ":", "*", "?", "#", "{", "}", "[", "]", ",", "=", "|", "~",
}

var invalidUTF8 = []string{"\xff", "\xc3\x28", "\xc0\x80", "\xed\xa0\x80", "\xf8", "\x80"}

// hostile draws a hostile byte string. existing are strings already in play (ids,
// labels or graph names of the same role) for prefix/suffix relations; invalid allows
// invalid UTF-8.
func hostile(rt *rapid.T, lbl string, existing []string, invalid bool) []byte {
	frag := func(l string) string {
		if invalid && rapid.IntRange(0, 7).Draw(rt, l+".inv") == 0 {
			return rapid.SampledFrom(invalidUTF8).Draw(rt, l+".bad")
		}
		return rapid.SampledFrom(fragments).Draw(rt, l+".frag")
	}
	ex := func(l string) string {
		if len(existing) == 0 {
			return "v1"
		}
		return rapid.SampledFrom(existing).Draw(rt, l+".existing")
	}
	switch rapid.IntRange(0, 13).Draw(rt, lbl+".mode") {
	case 0: // existing + NUL + fragment
		return []byte(ex(lbl) + "\x00" + frag(lbl))
	case 1: // existing + NUL
		return []byte(ex(lbl) + "\x00")
	case 2: // NUL + existing
		return []byte("\x00" + ex(lbl))
	case 3: // proper prefix of an existing string
		e := ex(lbl)
		if len(e) > 1 {
			cut := 1
			if !invalid {
				_, cut = utf8.DecodeLastRuneInString(e) // whole characters only
			}
			if cut < len(e) {
				return []byte(e[:len(e)-cut])
			}
		}
		return []byte(e + "x")
	case 4: // existing + fragment
		return []byte(ex(lbl) + frag(lbl))
	case 5: // fragment + existing
		return []byte(frag(lbl) + ex(lbl))
	case 6: // a single fragment or reserved word
		return []byte(frag(lbl))
	case 7, 8: // several fragments
		n := rapid.IntRange(2, 5).Draw(rt, lbl+".n")
		var sb strings.Builder
		for i := 0; i < n; i++ {
			sb.WriteString(frag(fmt.Sprintf("%s.%d", lbl, i)))
		}
		return []byte(sb.String())
	case 9: // very long
		n := rapid.IntRange(1024, 4096).Draw(rt, lbl+".len")
		unit := rapid.SampledFrom([]string{"a", "ab", "\u00e9", "x\x00", "v."}).Draw(rt, lbl+".unit")
		n -= n % len(unit) // whole units only (no split multi-byte character)
		return []byte(strings.Repeat(unit, n/len(unit)))
	case 10: // empty
		return []byte{}
	case 11: // existing + several NULs (shifts key components)
		n := rapid.IntRange(2, 6).Draw(rt, lbl+".nuls")
		return []byte(ex(lbl) + strings.Repeat("\x00", n) + rapid.SampledFrom([]string{"", "x", "\x01"}).Draw(rt, lbl+".tail"))
	case 12: // two strings in play joined by NUL (looks like two key components)
		return []byte(ex(lbl+".a") + "\x00" + ex(lbl+".b"))
	default: // plain fresh
		return []byte("n" + rapid.SampledFrom([]string{"1", "2", "10"}).Draw(rt, lbl+".plain"))
	}
}

// ---------------------------------------------------------------------------------
// JSON values

var specialNumbers = []float64{
	math.MaxFloat64, -math.MaxFloat64, math.SmallestNonzeroFloat64, -math.SmallestNonzeroFloat64, 2.2250738585072014e-308, 1e-310,
	math.Copysign(0, -1), 0, 9007199254740992, 9007199254740993, -9007199254740993, 1 << 63, 1 << 64, 1e19, 1e308, 0.1, -1, 1.5, 4294967296,
}

var oddKeys = []string{"", "a.b", "_x", "-y", "$z", "label", "k k", "k\x00", "\x00", "\u00e9", "\U0001F600", "a/b", "_gid", "data", "v", "k"}

func genValue(rt *rapid.T, lbl string, depth int) interface{} {
	max := 8
	if depth >= 6 {
		max = 5
	}
	switch rapid.IntRange(0, max).Draw(rt, lbl+".kind") {
	case 0:
		return rapid.SampledFrom(specialNumbers).Draw(rt, lbl+".num")
	case 1:
		return rapid.Float64().Filter(func(f float64) bool { return !math.IsNaN(f) && !math.IsInf(f, 0) }).Draw(rt, lbl+".f")
	case 2:
		switch rapid.IntRange(0, 4).Draw(rt, lbl+".skind") {
		case 0:
			return ""
		case 1:
			return "a\x00b"
		case 2:
			return strings.Repeat(rapid.SampledFrom([]string{"a", "\u00e9", "\x00"}).Draw(rt, lbl+".unit"), rapid.IntRange(1024, 4096).Draw(rt, lbl+".len"))
		case 3:
			return rapid.SampledFrom(fragments).Draw(rt, lbl+".frag")
		}
		return rapid.SampledFrom([]string{"1", "true", "null", "{}", "-0", "1e400", "NaN"}).Draw(rt, lbl+".lit")
	case 3:
		return rapid.Bool().Draw(rt, lbl+".b")
	case 4:
		return nil
	case 5:
		if rapid.Bool().Draw(rt, lbl+".emptyMap") {
			return map[string]interface{}{}
		}
		return []interface{}{}
	case 6, 7:
		n := rapid.IntRange(1, 3).Draw(rt, lbl+".n")
		m := map[string]interface{}{}
		for i := 0; i < n; i++ {
			k := rapid.SampledFrom(oddKeys).Draw(rt, fmt.Sprintf("%s.k%d", lbl, i))
			m[k] = genValue(rt, fmt.Sprintf("%s.%d", lbl, i), depth+1)
		}
		return m
	default:
		n := rapid.IntRange(1, 3).Draw(rt, lbl+".n")
		l := make([]interface{}, n)
		for i := range l {
			l[i] = genValue(rt, fmt.Sprintf("%s.%d", lbl, i), depth+1)
		}
		return l
	}
}

// deepValue nests exactly d levels.
func deepValue(rt *rapid.T, lbl string, d int) interface{} {
	var v interface{} = rapid.SampledFrom([]interface{}{1.0, "s", map[string]interface{}{}, []interface{}{}, nil}).Draw(rt, lbl+".leaf")
	for i := 0; i < d; i++ {
		if rapid.Bool().Draw(rt, fmt.Sprintf("%s.m%d", lbl, i)) {
			v = map[string]interface{}{"n": v}
		} else {
			v = []interface{}{v}
		}
	}
	return v
}

func hostileValueData(rt *rapid.T, lbl string) map[string]interface{} {
	d := map[string]interface{}{}
	n := rapid.IntRange(1, 2).Draw(rt, lbl+".nprops")
	for i := 0; i < n; i++ {
		k := []string{"p", "q"}[i]
		if rapid.IntRange(0, 4).Draw(rt, fmt.Sprintf("%s.deep%d", lbl, i)) == 0 {
			d[k] = deepValue(rt, fmt.Sprintf("%s.dv%d", lbl, i), rapid.IntRange(3, 6).Draw(rt, fmt.Sprintf("%s.depth%d", lbl, i)))
		} else {
			d[k] = genValue(rt, fmt.Sprintf("%s.v%d", lbl, i), 1)
		}
	}
	return d
}

var hostilePropNames = []string{"", "a.b", "_x", "-y", "$z", "label", "k k", "k\x00", "\x00", "k\x00k", "\u00e9", "\U0001F600", "e\u0301", "a/b", "_gid", "_label", "_data", "data", "gid", "v", "e", "__current__", "k", "K", "\t", "k\n", "\u202ek"}

// ---------------------------------------------------------------------------------
// cases

func genCase(rt *rapid.T, level string) Case {
	invalid := level == "gdbi"
	c := Case{Level: level, Base: rapid.IntRange(0, nBases-1).Draw(rt, "base")}
	c.GA = gripx.FreshName()
	switch rapid.IntRange(0, 2).Draw(rt, "gbName") {
	case 0:
		c.GB = c.GA + "b" // GA is a prefix of GB
	case 1:
		c.GB = c.GA[:len(c.GA)-1] + "x" + gripx.FreshName()[1:]
	default:
		c.GB = gripx.FreshName()
	}
	a, _, hasB := baseElems(c.Base)
	var vids, eids, vlabels, elabels []string
	for _, e := range a {
		if e.Edge {
			eids = append(eids, string(e.ID))
			elabels = append(elabels, string(e.Label))
		} else {
			vids = append(vids, string(e.ID))
			vlabels = append(vlabels, string(e.Label))
		}
	}
	if len(eids) == 0 {
		eids, elabels = []string{"e1"}, []string{"x"}
	}
	graphsInPlay := []string{c.GA}
	if hasB {
		graphsInPlay = append(graphsInPlay, c.GB)
	}
	fresh := gripx.FreshName() // a name that is not a graph: truncation target that does not exist
	nw := 1
	if rapid.IntRange(0, 2).Draw(rt, "twoWrites") == 0 {
		nw = 2
	}
	for wi := 0; wi < nw; wi++ {
		lbl := fmt.Sprintf("w%d", wi)
		var w Write
		// (rapid favours small values: the common kinds come first)
		kindName := []string{"addVertex", "addEdge", "bulkVertex", "addGraph", "bulkEdge", "addVertex", "addEdge", "addIndex", "addGraph", "bulkEdge", "addIndex"}[rapid.IntRange(0, 10).Draw(rt, lbl+".kind")]
		// which graph is written
		target := c.GA
		if wi > 0 && c.Writes[0].Kind == "addGraph" && rapid.Bool().Draw(rt, lbl+".intoNew") {
			target = string(c.Writes[0].Graph)
		} else if rapid.IntRange(0, 19).Draw(rt, lbl+".missingGraph") == 0 {
			// a graph that was never created, related to an existing name
			target = string(hostile(rt, lbl+".mg", graphsInPlay, false))
			if target == c.GA || target == c.GB {
				target = c.GA + "\x00b"
			}
		}
		w.Graph = []byte(target)
		switch {
		case wi > 0 && c.Writes[0].Kind == "addIndex" && string(w.Graph) == string(c.Writes[0].Graph) && rapid.IntRange(0, 3).Draw(rt, lbl+".underIndex") > 0:
			// a vertex of the indexed label with a hostile value under the indexed field
			ix := c.Writes[0].Elems[0]
			var v interface{}
			switch rapid.IntRange(0, 5).Draw(rt, lbl+".ixval") {
			case 0:
				v = rapid.Bool().Draw(rt, lbl+".ixbool")
			case 1:
				v = "s"
			case 2:
				v = rapid.SampledFrom(specialNumbers).Draw(rt, lbl+".ixnum")
			case 3:
				v = nil
			default:
				v = genValue(rt, lbl+".ixv", 2)
			}
			// nested field a.b -> {a: {b: v}}
			parts := strings.Split(string(ix.ID), ".")
			for i := len(parts) - 1; i > 0; i-- {
				v = map[string]interface{}{parts[i]: v}
			}
			id := rapid.SampledFrom([]string{"v1", "nv"}).Draw(rt, lbl+".ixid")
			w.Kind = rapid.SampledFrom([]string{"addVertex", "addVertex", "bulkAdd"}).Draw(rt, lbl+".ixkind")
			w.Hostile = []string{"value"}
			if features("label", ix.Label)[0] != "plain" {
				w.Hostile = append(w.Hostile, "label")
			}
			w.Elems = []Elem{{ID: []byte(id), Label: ix.Label, Data: map[string]interface{}{parts[0]: v}}}
		case kindName == "addIndex":
			// a property index; the field carries a suffix unique to the case (the index
			// listing of a shared store is not isolated per graph)
			w.Kind = "addIndex"
			label := rapid.SampledFrom([]string{"A", "A", "B", "A.k", "label", "A\x00B", "v", "\u00e9", "A B", "v.label"}).Draw(rt, lbl+".ixlabel")
			field := rapid.SampledFrom([]string{"k", "k", "a.b", "p", "label", "k\x00x"}).Draw(rt, lbl+".ixfield") + c.GA
			for _, pair := range [][2]string{{"index-label", label}, {"index-field", field}} {
				if fs := features(pair[0], []byte(pair[1])); fs[0] != "plain" {
					w.Hostile = append(w.Hostile, pair[0])
				}
			}
			w.Elems = []Elem{{Label: []byte(label), ID: []byte(field)}}
		case kindName == "addGraph":
			w.Kind = "addGraph"
			w.Hostile = []string{"graph"}
			w.Graph = hostile(rt, lbl+".graph", append(append([]string{}, graphsInPlay...), fresh), invalid)
		default:
			edge := kindName == "addEdge" || kindName == "bulkEdge"
			bulk := kindName == "bulkVertex" || kindName == "bulkEdge"
			e := Elem{Edge: edge}
			// benign defaults
			if edge {
				e.ID, e.Label, e.From, e.To = []byte("ne"), []byte("x"), []byte("v1"), []byte("v1")
				if len(vids) > 1 {
					e.To = []byte(vids[1])
				}
			} else {
				e.ID, e.Label = []byte("nv"), []byte("A")
			}
			if rapid.Bool().Draw(rt, lbl+".someData") {
				e.Data = map[string]interface{}{"k": 1.0}
			}
			comps := []string{"vertex-id", "label", "prop-name", "value"}
			if edge {
				comps = []string{"edge-id", "label", "from", "to", "prop-name", "value"}
			}
			n := 1
			if rapid.IntRange(0, 2).Draw(rt, lbl+".pair") == 0 {
				n = 2
			}
			rest := append([]string{}, comps...)
			for j := 0; j < n; j++ {
				idx := rapid.IntRange(0, len(rest)-1).Draw(rt, fmt.Sprintf("%s.comp%d", lbl, j))
				comp := rest[idx]
				rest = append(rest[:idx], rest[idx+1:]...)
				w.Hostile = append(w.Hostile, comp)
				hl := lbl + "." + comp
				switch comp {
				case "vertex-id":
					e.ID = hostile(rt, hl, vids, invalid)
				case "edge-id":
					e.ID = hostile(rt, hl, eids, invalid)
					if len(e.ID) == 0 && level == "server" {
						// the server assigns an id to an edge without one (documented)
						e.ID = []byte("e")
					}
				case "label":
					if rapid.IntRange(0, 5).Draw(rt, hl+".reserved") == 0 {
						e.Label = []byte(rapid.SampledFrom([]string{"label", "label", "v", "e", "a.b", "v.label", "A.k"}).Draw(rt, hl+".word"))
					} else if edge {
						e.Label = hostile(rt, hl, elabels, invalid)
					} else {
						e.Label = hostile(rt, hl, vlabels, invalid)
					}
				case "from":
					e.From = hostile(rt, hl, vids, invalid)
				case "to":
					e.To = hostile(rt, hl, vids, invalid)
				case "prop-name":
					if e.Data == nil {
						e.Data = map[string]interface{}{}
					}
					e.Data[rapid.SampledFrom(hostilePropNames).Draw(rt, hl+".name")] = rapid.SampledFrom([]interface{}{1.0, "s", true}).Draw(rt, hl+".val")
				case "value":
					d := hostileValueData(rt, hl)
					if e.Data == nil {
						e.Data = map[string]interface{}{}
					}
					for k, v := range d {
						e.Data[k] = v
					}
				}
			}
			switch {
			case bulk:
				w.Kind = "bulkAdd"
				if rapid.IntRange(0, 2).Draw(rt, lbl+".companion") == 0 {
					w.Elems = append(w.Elems, bv(fmt.Sprintf("cv%d", wi), "B", map[string]interface{}{"c": 1.0}))
				}
			case edge:
				w.Kind = "addEdge"
			default:
				w.Kind = "addVertex"
			}
			w.Elems = append(w.Elems, e)
			// a default taken from an earlier hostile write is hostile too
			idComp := "vertex-id"
			if edge {
				idComp = "edge-id"
			}
			for _, cv := range []struct {
				comp string
				val  []byte
			}{{idComp, e.ID}, {"label", e.Label}, {"from", e.From}, {"to", e.To}} {
				if (cv.comp == "from" || cv.comp == "to") && !edge {
					continue
				}
				listed := false
				for _, h := range w.Hostile {
					listed = listed || h == cv.comp
				}
				if !listed && features(cv.comp, cv.val)[0] != "plain" {
					w.Hostile = append(w.Hostile, cv.comp)
				}
			}
			// later writes may relate to the strings of this one
			if edge {
				eids = append(eids, string(e.ID))
				elabels = append(elabels, string(e.Label))
			} else {
				vids = append(vids, string(e.ID))
				vlabels = append(vlabels, string(e.Label))
			}
		}
		if w.Kind == "addGraph" {
			graphsInPlay = append(graphsInPlay, string(w.Graph))
		}
		c.Writes = append(c.Writes, w)
	}
	c.Desc = describe(c.Writes)
	return c
}
