// Package c16: accepted identifiers and values are stored verbatim or rejected.
//
// Each case is a small clean base state (two graphs with a few vertices and edges)
// followed by one or two write calls with hostile components, executed either through
// the gRPC API of a live in-process GripServer ("server") or directly on the gdbi
// interface of a kvgraph/Badger store ("gdbi"). After every write the complete
// observation of every graph in play is compared with an abstract model that applied
// the write iff the call reported success (round trip + frame condition).
package c16

import (
	"bytes"
	"encoding/json"
	"fmt"
	"os"
	"sort"
	"strings"
	"testing"
	"time"
	"unicode/utf8"

	"github.com/bmeg/grip/kvgraph"
	"pgregory.net/rapid"
	"verif/internal/gripx"
	"verif/internal/model"
	"verif/internal/obs"
	"verif/internal/pbt"
	"verif/internal/worker"
)

func TestMain(m *testing.M) {
	if worker.IsChild() {
		os.Exit(m.Run()) // runs only TestWorkerChild
	}
	code := pbt.Main(m, pbt.Meta{
		Property: "C16",
		Level:    "exploration",
		Rule: "base state of two graphs (fresh valid names, optionally one a prefix of the other) with 1-3 vertices and 0-3 edges built through benign calls, then 1-2 write calls (AddGraph, AddVertex, AddEdge, BulkAdd of one element with an optional benign companion, AddIndex optionally followed by a vertex of the indexed label with a hostile value under the indexed field) in which one or two of graph name / vertex id / edge id / label / from / to / property name / property value / index label / index field are hostile: fragments 0x00, the key-family letters v e s d g i t f D, '.', the words label v e __schema__ __mapping__ __current__, leading _ - $, whitespace, control bytes, combining/RTL/astral unicode, 1-4 kB strings, the empty string, strings that extend / truncate / are prefixed by an existing id or graph name (with and without 0x00 between, several 0x00 in a row), invalid UTF-8 (gdbi level only); JSON values nested up to depth 6, empty containers, +-MaxFloat64, denormals, -0, integers beyond 2^53, long strings, NUL inside strings, odd keys. Executed (i) through the gRPC Edit/Query clients of a live in-process GripServer and (ii) on the gdbi interface of kvgraph/Badger; plus a fixed list of minimal cases per expected defect at both levels and a crash confirmation in a child process. Oracle: abstract model that applies the write iff the call reported success; after every write the observation (lookup by id, listings, adjacency in both directions with label filters, label listings, label scans, V()/E()/V(id)/E(id)/hasLabel/outE/inE/out/in traversals, ListLabels, ListIndices, ListGraphs) of every graph in play (base graphs, the written graph name, its truncations at every 0x00) over a per-case universe (base ids + hostile strings + their truncations at every 0x00) must equal the model's where the model says the write affects it, and must be what it was before the write elsewhere. " +
			"Non-trivial: a hostile component contains a separator or reserved token (0x00, '.', label, v, e, a key-family letter, __schema__, __mapping__, __current__) and the call was accepted, or the call was rejected while a neighbour differing in one byte of that component is accepted; distinct = level + rendered writes.",
		Assumptions: []string{
			"a refusal is always allowed by the property: which inputs must be accepted is not judged (only that a refused call changes nothing)",
			"every element of a BulkAdd stream is a write of its own: the hostile element counts as refused iff the call reported an error (gdbi) / a non-zero error count (server); a benign companion sent before it must be stored either way",
			"numbers are compared as float64 (0 equals -0); property names and string values are valid UTF-8 (they are JSON), ids/labels/graph names may be arbitrary bytes at the gdbi level only (gRPC refuses invalid UTF-8 before the server sees it)",
			"the server assigns an id to an edge sent without one (documented): empty edge ids are generated at the gdbi level only",
			"reads that probe with an id/label/name containing 0x00 are judged only once a write containing 0x00 was accepted in the case: identifiers no write call accepts are outside the property (before that such reads can match other elements' keys by prefix; counted as baseline-read-anomaly / unjudged-nul-probe)",
			"an accepted edge whose stored key makes kvgraph.EdgeKeyParse index out of range (empty 7th key component) is reported without reading the graph back, because the read would kill the process (counted as avoided); TestConfirmCrash shows the crash in a child process; a refused bulk element with such a key is counted inconclusive (the bulk stream is flushed despite the error)",
			"before the first write the benign base is read back only when the case probes with 0x00 or lists indices; otherwise it is assumed to be what the model says (C03 checks that)",
			"index fields are plain property paths (no leading $, _ or data.), suffixed per case because the index listing of a shared store is not isolated per graph",
			"writing into a graph that was never created must be refused",
		},
	})
	stopServer()
	gripx.Cleanup()
	os.Exit(code)
}

// ---------------------------------------------------------------------------------
// case form

// Elem is a vertex or an edge to be written. Identifier components are byte strings
// (base64 in the case file): they need not be valid UTF-8.
type Elem struct {
	Edge  bool                   `json:"edge,omitempty"`
	ID    []byte                 `json:"id"`
	Label []byte                 `json:"label"`
	From  []byte                 `json:"from,omitempty"`
	To    []byte                 `json:"to,omitempty"`
	Data  map[string]interface{} `json:"data,omitempty"`
}

func (e Elem) toModel() *model.Element {
	return &model.Element{ID: string(e.ID), Label: string(e.Label), From: string(e.From), To: string(e.To), Data: model.CopyMap(e.Data), Edge: e.Edge}
}

// Write is one mutating call.
type Write struct {
	Kind  string `json:"kind"` // addGraph addVertex addEdge bulkAdd addIndex (Elems[0]: Label = label, ID = field)
	Graph []byte `json:"graph"`
	// addVertex/addEdge: exactly one element; bulkAdd: the last element is the hostile
	// one, elements before it are benign companions
	Elems []Elem `json:"elems,omitempty"`
	// components under attack: graph vertex-id edge-id label from to prop-name value
	Hostile []string `json:"hostile,omitempty"`
}

type Case struct {
	Level  string  `json:"level"` // server | gdbi
	GA     string  `json:"ga"`
	GB     string  `json:"gb"`
	Base   int     `json:"base"` // base variant
	Writes []Write `json:"writes"`
	Desc   string  `json:"desc,omitempty"` // human-readable rendering of Writes
}

func q(b []byte) string { return fmt.Sprintf("%+q", string(b)) }

func clip(s string, n int) string {
	if len(s) > n {
		return s[:n] + fmt.Sprintf("…(%d bytes)", len(s))
	}
	return s
}

func (e Elem) String() string {
	d := clip(model.Canon(interface{}(model.CopyMap(e.Data))), 200)
	if e.Edge {
		return fmt.Sprintf("E{id=%s label=%s from=%s to=%s data=%s}", clip(q(e.ID), 80), clip(q(e.Label), 80), clip(q(e.From), 80), clip(q(e.To), 80), d)
	}
	return fmt.Sprintf("V{id=%s label=%s data=%s}", clip(q(e.ID), 80), clip(q(e.Label), 80), d)
}

func (w Write) String() string {
	if w.Kind == "addIndex" && len(w.Elems) == 1 {
		return fmt.Sprintf("addIndex(graph=%s, label=%s, field=%s) hostile=%v", clip(q(w.Graph), 80), clip(q(w.Elems[0].Label), 80), clip(q(w.Elems[0].ID), 80), w.Hostile)
	}
	parts := []string{}
	for _, e := range w.Elems {
		parts = append(parts, e.String())
	}
	return fmt.Sprintf("%s(graph=%s%s%s) hostile=%v", w.Kind, clip(q(w.Graph), 80), map[bool]string{true: ", ", false: ""}[len(parts) > 0], strings.Join(parts, ", "), w.Hostile)
}

func describe(ws []Write) string {
	p := make([]string, len(ws))
	for i, w := range ws {
		p[i] = w.String()
	}
	return strings.Join(p, " ; ")
}

// the hostile element of a write (nil for addGraph)
func (w Write) target() *Elem {
	if len(w.Elems) == 0 {
		return nil
	}
	return &w.Elems[len(w.Elems)-1]
}

// ---------------------------------------------------------------------------------
// base states (benign)

func bv(id, label string, data map[string]interface{}) Elem {
	return Elem{ID: []byte(id), Label: []byte(label), Data: data}
}
func bedge(id, label, from, to string, data map[string]interface{}) Elem {
	return Elem{Edge: true, ID: []byte(id), Label: []byte(label), From: []byte(from), To: []byte(to), Data: data}
}

const nBases = 3

// baseElems returns the elements of graph A and graph B of a base variant; hasB says
// whether graph B is created at all.
func baseElems(variant int) (a, b []Elem, hasB bool) {
	one := map[string]interface{}{"k": 1.0}
	switch variant {
	case 0:
		a = []Elem{bv("v1", "A", one), bv("v2", "B", nil), bedge("e1", "x", "v1", "v2", map[string]interface{}{"w": 1.0})}
		b = []Elem{bv("v1", "B", map[string]interface{}{"k": 2.0}), bedge("e1", "y", "v1", "v1", nil)}
		return a, b, true
	case 1:
		a = []Elem{bv("v1", "A", one), bv("v2", "B", nil), bv("v3", "A", map[string]interface{}{"s": "t"}),
			bedge("e1", "x", "v1", "v2", nil), bedge("e2", "y", "v2", "v1", nil), bedge("e3", "x", "v3", "ghost", nil)}
		return a, nil, true
	default:
		a = []Elem{bv("v1", "A", one)}
		return a, nil, false
	}
}

// ---------------------------------------------------------------------------------
// features of hostile strings

var reservedWords = []string{"label", "v", "e", "__schema__", "__mapping__", "__current__"}
var familyLetters = "vesdgitfD"

const validateChars = "!@#$%^&*()+={}[] :;\"',.<>?/\\|~"

// features lists what is special about a hostile string, most specific first.
func features(component string, b []byte) []string {
	var f []string
	s := string(b)
	if bytes.IndexByte(b, 0) >= 0 {
		f = append(f, "nul")
	}
	if !utf8.Valid(b) {
		f = append(f, "invalid-utf8")
	}
	if component == "label" && s == "label" {
		f = append(f, "label-named-label")
	}
	if component == "graph" {
		if strings.HasSuffix(s, "__mapping__") {
			f = append(f, "mapping-suffix")
		}
		if strings.HasSuffix(s, "__schema__") {
			f = append(f, "schema-suffix")
		}
	}
	if strings.Contains(s, ".") {
		f = append(f, "dot")
	}
	if s == "" {
		f = append(f, "empty")
	}
	for _, w := range reservedWords {
		if s == w || (len(w) > 2 && strings.Contains(s, w)) {
			f = append(f, "reserved-word")
			break
		}
	}
	if len(s) == 1 && strings.Contains(familyLetters, s) {
		f = append(f, "family-letter")
	}
	if strings.ContainsAny(s, validateChars) || strings.HasPrefix(s, "_") || strings.HasPrefix(s, "-") {
		f = append(f, "charset")
	}
	for _, c := range b {
		if (c < 0x20 && c != 0) || c == 0x7f {
			f = append(f, "ctrl")
			break
		}
	}
	if len(b) >= 1024 {
		f = append(f, "long")
	}
	for _, c := range b {
		if c >= 0x80 {
			f = append(f, "unicode")
			break
		}
	}
	if len(f) == 0 {
		f = append(f, "plain")
	}
	return f
}

// tokenFeature: the string contains a separator or reserved token (non-trivial rule).
func hasToken(fs []string) bool {
	for _, f := range fs {
		switch f {
		case "nul", "dot", "reserved-word", "family-letter", "label-named-label", "mapping-suffix", "schema-suffix":
			return true
		}
	}
	return false
}

// valueKind classifies a property map by its most exotic member.
func valueKind(d map[string]interface{}) string {
	best := "plain"
	rank := map[string]int{"plain": 0, "odd-key": 1, "long-string": 2, "empty-container": 3, "bigint": 4, "negzero": 5, "denormal": 6, "maxfloat": 7, "deep": 8, "nul-string": 9}
	up := func(k string) {
		if rank[k] > rank[best] {
			best = k
		}
	}
	var walk func(v interface{}, depth int)
	walk = func(v interface{}, depth int) {
		if depth >= 4 {
			up("deep")
		}
		switch x := v.(type) {
		case map[string]interface{}:
			if len(x) == 0 {
				up("empty-container")
			}
			for k, e := range x {
				if depth > 0 && (k == "" || strings.ContainsAny(k, validateChars+"\x00") || strings.HasPrefix(k, "_") || !isASCII(k)) {
					up("odd-key")
				}
				walk(e, depth+1)
			}
		case []interface{}:
			if len(x) == 0 {
				up("empty-container")
			}
			for _, e := range x {
				walk(e, depth+1)
			}
		case string:
			if strings.IndexByte(x, 0) >= 0 {
				up("nul-string")
			} else if len(x) >= 1024 {
				up("long-string")
			}
		case float64:
			ax := x
			if ax < 0 {
				ax = -ax
			}
			switch {
			case ax > 1e300:
				up("maxfloat")
			case ax != 0 && ax < 2.3e-308:
				up("denormal")
			case x == 0 && 1/x < 0:
				up("negzero")
			case ax >= 9007199254740992:
				up("bigint")
			}
		}
	}
	for _, v := range d {
		walk(v, 1)
	}
	return best
}

func isASCII(s string) bool {
	for i := 0; i < len(s); i++ {
		if s[i] >= 0x80 || s[i] < 0x20 {
			return false
		}
	}
	return true
}

// componentValue returns the bytes of a component of a write ("" for prop-name/value).
func componentValue(w Write, comp string) []byte {
	t := w.target()
	switch comp {
	case "graph":
		return w.Graph
	case "vertex-id", "edge-id", "index-field":
		if t != nil {
			return t.ID
		}
	case "label", "index-label":
		if t != nil {
			return t.Label
		}
	case "from":
		if t != nil {
			return t.From
		}
	case "to":
		if t != nil {
			return t.To
		}
	}
	return nil
}

var featureRank = []string{"nul", "invalid-utf8", "label-named-label", "mapping-suffix", "schema-suffix", "dot", "empty", "reserved-word", "family-letter", "charset", "ctrl", "long", "unicode", "plain"}

func rankOf(f string) int {
	for i, x := range featureRank {
		if x == f {
			return i
		}
	}
	return len(featureRank)
}

// cause names the root-cause part of a signature for a write: "<feature>-in-<component>"
// of the hostile component with the most specific feature.
func cause(w Write) string {
	best, bestRank := "", 1<<30
	attacked := map[string]bool{}
	for _, comp := range w.Hostile {
		attacked[comp] = true
	}
	// fixed order, so that among equally specific features the key components win
	for _, comp := range []string{"graph", "vertex-id", "edge-id", "label", "from", "to", "index-label", "index-field", "prop-name", "value"} {
		if !attacked[comp] {
			continue
		}
		var name string
		var r int
		switch comp {
		case "value":
			name, r = "value:"+valueKind(w.target().Data), 200
		case "prop-name":
			f := "plain"
			rr := len(featureRank)
			for k := range w.target().Data {
				kf := features(comp, []byte(k))[0]
				if rankOf(kf) < rr {
					f, rr = kf, rankOf(kf)
				}
			}
			// property names live inside the stored value, not in keys: any special
			// identifier component is the likelier cause
			name, r = f+"-in-prop-name", 100+rr
			if f == "plain" {
				r = 1000
			}
		default:
			f := features(comp, componentValue(w, comp))[0]
			name, r = f+"-in-"+map[string]string{"from": "endpoint", "to": "endpoint", "graph": "graph-name"}[comp], rankOf(f)
			if comp != "from" && comp != "to" && comp != "graph" {
				name = f + "-in-" + comp
			}
			if f == "plain" {
				r = 1000
			}
			if f == "label-named-label" {
				name = f
			}
		}
		if r < bestRank {
			best, bestRank = name, r
		}
	}
	if best == "" {
		best = "benign"
	}
	return best
}

func signature(w Write, symptom string) string {
	c := cause(w)
	if symptom == "rejected-but-graph-changed" {
		// a refused call that changed something: attribute it to the feature that makes
		// the store fail after it started writing (0x00 alone is never refused)
		for _, comp := range []string{"label", "vertex-id", "edge-id", "from", "to"} {
			for _, h := range w.Hostile {
				if h != comp {
					continue
				}
				fs := features(comp, componentValue(w, comp))
				for _, f := range fs {
					if f == "label-named-label" {
						return f + ":" + symptom
					}
				}
			}
		}
		for _, comp := range []string{"vertex-id", "edge-id", "label", "from", "to"} {
			for _, h := range w.Hostile {
				if h == comp && !utf8.Valid(componentValue(w, comp)) {
					name := map[string]string{"from": "endpoint", "to": "endpoint"}[comp]
					if name == "" {
						name = comp
					}
					return "invalid-utf8-in-" + name + ":" + symptom
				}
			}
		}
	}
	if strings.HasPrefix(c, "value:") {
		if symptom == "not-read-back-verbatim" {
			symptom = "not-roundtripped"
		}
		return c + "-" + symptom
	}
	return c + ":" + symptom
}

// ---------------------------------------------------------------------------------
// crash shape: an edge whose e/s/d key has an empty 7th component makes
// kvgraph.{Edge,SrcEdge,DstEdge}KeyParse index out of range inside a goroutine.

func crashShape(w Write) bool {
	for _, e := range w.Elems {
		if !e.Edge {
			continue
		}
		g, id, from, to, label := string(w.Graph), string(e.ID), string(e.From), string(e.To), string(e.Label)
		for _, key := range [][]byte{kvgraph.EdgeKey(g, id, from, to, label, 1), kvgraph.SrcEdgeKey(g, from, to, id, label, 1), kvgraph.DstEdgeKey(g, from, to, id, label, 1)} {
			tmp := bytes.Split(key, []byte{0})
			if len(tmp) > 7 && len(tmp[6]) == 0 {
				return true
			}
		}
	}
	return false
}

// ---------------------------------------------------------------------------------
// backends

type backend interface {
	// addGraph / put perform the call. accepted: the call reported success.
	addGraph(name string) (accepted bool, detail string, panicked bool)
	put(w Write) (accepted bool, detail string, panicked bool)
	deleteGraph(name string)
	addIndex(graph, label, field string) (accepted bool, detail string, panicked bool)
	// listIndices returns "label|field" of every index listed for the graph
	listIndices(graph string) ([]string, error)
	listGraphs() []string
	// observe returns nil when the graph cannot be opened. light: the reduced
	// observation used for graphs that no write of the case addresses
	observe(graph string, u *universe, light bool) obs.Observation
	modelObs(g *model.Graph, u *universe, light bool) obs.Observation
}

// universe: what is probed. full holds every id/label in play; the host* lists only
// the hostile strings and their truncations (not the base ids/labels).
type universe struct {
	full                         obs.Universe
	hostV, hostE, hostVL, hostEL []string
	targets                      map[string]bool            // graphs addressed by a write
	idx                          []string                   // "label|field" of the addIndex writes of the case
	midx                         map[string]map[string]bool // model: graph -> accepted "label|field"
	skipKeys                     map[string]bool            // graph \x00 key: index-listing observations already reported as diverged
}

func idxKey(label, field []byte) string { return string(label) + "|" + string(field) }

// indexObs adds the index listing of a graph to an observation: one count per index
// of the case, and the rest of the listing (indices of earlier cases) as one value.
func indexObs(be backend, graph string, u *universe, o obs.Observation) {
	if len(u.idx) == 0 {
		return
	}
	l, err := be.listIndices(graph)
	if err != nil {
		o["ListIndices"] = "error: " + err.Error()
		return
	}
	cnt := map[string]int{}
	mine := map[string]bool{}
	for _, k := range u.idx {
		mine[k] = true
	}
	var others []string
	for _, k := range l {
		if mine[k] {
			cnt[k]++
		} else {
			others = append(others, k)
		}
	}
	sort.Strings(others)
	for _, k := range u.idx {
		o["ListIndices["+k+"]"] = fmt.Sprint(cnt[k])
	}
	o["ListIndices[others]"] = fmt.Sprintf("%q", others)
}

// forGdbi returns the universes handed to obs.OfGraph/obs.OfModel: the main one
// (no traversals) and, for full observations, a small one that adds the traversals
// for the hostile labels only (every traversal allocates ~300 kB of channel buffers).
func (u *universe) forGdbi(light bool) []obs.Universe {
	if light {
		return []obs.Universe{{VertexIDs: append([]string{"v1"}, u.hostV...), EdgeIDs: append([]string{"e1"}, u.hostE...), VLabels: u.full.VLabels}}
	}
	main := u.full
	main.Traversals = false
	return []obs.Universe{main, {VLabels: u.hostVL, Traversals: true}}
}

// ---------------------------------------------------------------------------------
// universe and graphs in play

func truncations(b []byte) [][]byte {
	var out [][]byte
	for i, c := range b {
		if c == 0 {
			out = append(out, b[:i])
			if len(out) >= 4 {
				break
			}
		}
	}
	return out
}

type strset struct {
	seen map[string]bool
	list []string
}

func (s *strset) add(x string) {
	if s.seen == nil {
		s.seen = map[string]bool{}
	}
	if !s.seen[x] {
		s.seen[x] = true
		s.list = append(s.list, x)
	}
}

func (s *strset) addWithTruncs(b []byte) {
	s.add(string(b))
	for _, t := range truncations(b) {
		s.add(string(t))
	}
}

func universeOf(c Case) (*universe, []string) {
	var vids, eids, vl, el, graphs strset
	var hv, he, hvl, hel strset
	a, b, _ := baseElems(c.Base)
	for _, e := range append(append([]Elem{}, a...), b...) {
		if e.Edge {
			eids.add(string(e.ID))
			if len(el.list) < 2 {
				el.add(string(e.Label))
			}
		} else {
			vids.add(string(e.ID))
			vl.add(string(e.Label))
		}
	}
	vids.add("ghost")
	graphs.add(c.GA)
	graphs.add(c.GB)
	u := &universe{targets: map[string]bool{}, midx: map[string]map[string]bool{}, skipKeys: map[string]bool{}}
	for _, w := range c.Writes {
		graphs.addWithTruncs(w.Graph)
		u.targets[string(w.Graph)] = true
		if w.Kind == "addIndex" {
			u.idx = append(u.idx, idxKey(w.Elems[0].Label, w.Elems[0].ID))
			hvl.addWithTruncs(w.Elems[0].Label)
			continue
		}
		for _, e := range w.Elems {
			if e.Edge {
				he.addWithTruncs(e.ID)
				hel.addWithTruncs(e.Label)
				hv.addWithTruncs(e.From)
				hv.addWithTruncs(e.To)
			} else {
				hv.addWithTruncs(e.ID)
				hvl.addWithTruncs(e.Label)
			}
		}
	}
	keepNew := func(all *strset, host *strset) []string {
		var out []string
		for _, x := range host.list {
			if !all.seen[x] {
				out = append(out, x)
			}
			all.add(x)
		}
		return out
	}
	u.hostV, u.hostE, u.hostVL, u.hostEL = keepNew(&vids, &hv), keepNew(&eids, &he), keepNew(&vl, &hvl), keepNew(&el, &hel)
	u.full = obs.Universe{VertexIDs: vids.list, EdgeIDs: eids.list, VLabels: vl.list, ELabels: el.list, Traversals: true}
	return u, graphs.list
}

// ---------------------------------------------------------------------------------
// snapshots

type snapshot map[string]obs.Observation // graph name (or "") -> observation

const listKey = "\x00ListGraphs" // pseudo graph holding the graph listing

// takeSnapshot observes the graph listing and every graph in play. With assume != nil the
// graphs are not read: their observations are taken from assume (used before the first
// write of a case without 0x00 probes, where the benign base is assumed to be what the
// model says; C03 checks that).
func takeSnapshot(be backend, graphs []string, u *universe, assume snapshot) snapshot {
	s := snapshot{}
	interest := map[string]bool{}
	for _, g := range graphs {
		interest[g] = true
	}
	lo := obs.Observation{}
	var others []string
	cnt := map[string]int{}
	for _, n := range be.listGraphs() {
		if interest[n] {
			cnt[n]++
		} else {
			others = append(others, n)
		}
	}
	sort.Strings(others)
	for _, g := range graphs {
		lo["ListGraphs["+g+"]"] = fmt.Sprint(cnt[g])
	}
	lo["ListGraphs[others]"] = fmt.Sprintf("%q", others)
	s[listKey] = lo
	for _, g := range graphs {
		if assume != nil {
			s[g] = assume[g]
			continue
		}
		o := be.observe(g, u, !u.targets[g])
		if o == nil {
			o = obs.Observation{"graph": "absent"}
		} else {
			o["graph"] = "present"
			indexObs(be, g, u, o)
		}
		s[g] = o
	}
	return s
}

func modelSnapshot(be backend, world map[string]*model.Graph, graphs []string, u *universe, others string) snapshot {
	s := snapshot{}
	lo := obs.Observation{}
	for _, g := range graphs {
		if _, ok := world[g]; ok {
			lo["ListGraphs["+g+"]"] = "1"
		} else {
			lo["ListGraphs["+g+"]"] = "0"
		}
	}
	lo["ListGraphs[others]"] = others
	s[listKey] = lo
	for _, g := range graphs {
		mg, ok := world[g]
		if !ok {
			s[g] = obs.Observation{"graph": "absent"}
			continue
		}
		o := be.modelObs(mg, u, !u.targets[g])
		o["graph"] = "present"
		if len(u.idx) > 0 {
			for _, k := range u.idx {
				o["ListIndices["+k+"]"] = map[bool]string{true: "1", false: "0"}[u.midx[g][k]]
			}
			o["ListIndices[others]"] = "?" // unchanged by every write (carried from the real listing)
		}
		s[g] = o
	}
	return s
}

type diffItem struct {
	graph, key, got, want string
}

// listDelta renders two %q-formatted name lists by their difference.
func listDelta(got, want string) (string, string) {
	set := func(s string) map[string]bool {
		m := map[string]bool{}
		for _, f := range strings.Fields(strings.Trim(s, "[]")) {
			m[f] = true
		}
		return m
	}
	g, w := set(got), set(want)
	var extra, missing []string
	for k := range g {
		if !w[k] {
			extra = append(extra, k)
		}
	}
	for k := range w {
		if !g[k] {
			missing = append(missing, k)
		}
	}
	sort.Strings(extra)
	sort.Strings(missing)
	return fmt.Sprintf("(%d names; not in the model: %v)", len(g), extra), fmt.Sprintf("(%d names; not stored: %v)", len(w), missing)
}

func diffSnap(got, want snapshot) []diffItem {
	var out []diffItem
	gs := map[string]bool{}
	for g := range got {
		gs[g] = true
	}
	for g := range want {
		gs[g] = true
	}
	for _, g := range model.SortedKeys(gs) {
		keys := map[string]bool{}
		for k := range got[g] {
			keys[k] = true
		}
		for k := range want[g] {
			keys[k] = true
		}
		for _, k := range model.SortedKeys(keys) {
			if got[g][k] != want[g][k] {
				out = append(out, diffItem{g, k, got[g][k], want[g][k]})
			}
		}
	}
	return out
}

// ---------------------------------------------------------------------------------
// running a case

func upsert(g *model.Graph, e *model.Element) {
	if e.Edge {
		for i, x := range g.E {
			if x.ID == e.ID {
				g.E[i] = e
				return
			}
		}
		g.E = append(g.E, e)
		return
	}
	for i, x := range g.V {
		if x.ID == e.ID {
			g.V[i] = e
			return
		}
	}
	g.V = append(g.V, e)
}

var caseCount = map[string]int{}

func newBackend(t pbt.TB, level string) backend {
	caseCount[level]++
	switch level {
	case "gdbi":
		if caseCount[level]%150 == 0 {
			gripx.Recycle("badger")
		}
		return &gdbiBackend{db: gripx.DB("badger")}
	case "server":
		return &srvBackend{t: t, srv: getServer(t, caseCount[level]%120 == 0)}
	}
	t.Fatalf("INFRA: unknown level %q", level)
	return nil
}

func runCase(t pbt.TB, c Case) {
	pbt.Case(t)
	pbt.Class(t, "level:"+c.Level)
	be := newBackend(t, c.Level)
	disc := func(sig, format string, args ...interface{}) bool {
		return pbt.Discrepancy(t, c, sig, "[%s] "+format, append([]interface{}{c.Level}, args...)...)
	}
	u, graphs := universeOf(c)
	world := map[string]*model.Graph{}

	// graphs created by hostile AddGraph calls are removed again at the end of the
	// case; a leftover of an earlier case (same fixed hostile name) is removed first
	listed := map[string]bool{}
	for _, n := range be.listGraphs() {
		listed[n] = true
	}
	for _, g := range graphs {
		if g != c.GA && g != c.GB && listed[g] {
			be.deleteGraph(g)
			for _, n := range be.listGraphs() {
				if n == g {
					pbt.Inconclusive(t, "leftover-graph-with-name-in-play")
					return
				}
			}
		}
	}
	defer func() {
		for _, w := range c.Writes {
			if w.Kind == "addGraph" && string(w.Graph) != c.GA && string(w.Graph) != c.GB {
				be.deleteGraph(string(w.Graph))
			}
		}
	}()

	// base state through benign calls
	a, b, hasB := baseElems(c.Base)
	mk := func(name string, elems []Elem) {
		if ok, detail, _ := be.addGraph(name); !ok {
			t.Fatalf("INFRA: base AddGraph(%q) failed: %s", name, detail)
		}
		world[name] = &model.Graph{}
		for _, e := range elems {
			kind := "addVertex"
			if e.Edge {
				kind = "addEdge"
			}
			if ok, detail, _ := be.put(Write{Kind: kind, Graph: []byte(name), Elems: []Elem{e}}); !ok {
				t.Fatalf("INFRA: base %s %s failed: %s", kind, e, detail)
			}
			upsert(world[name], e.toModel())
		}
	}
	mk(c.GA, a)
	if hasB {
		mk(c.GB, b)
	}
	nulProbes := false
	for _, l := range [][]string{u.hostV, u.hostE, u.hostVL, u.hostEL, graphs} {
		for _, x := range l {
			if strings.IndexByte(x, 0) >= 0 {
				nulProbes = true
			}
		}
	}
	var before snapshot
	if nulProbes || len(u.idx) > 0 {
		before = takeSnapshot(be, graphs, u, nil)
	} else {
		before = takeSnapshot(be, graphs, u, modelSnapshot(be, world, graphs, u, ""))
	}
	others := before[listKey]["ListGraphs[others]"]
	// Reads that probe with an id/label containing 0x00 can match the keys of benign
	// elements (prefix clash of the joined key) although nothing with that id was ever
	// written. Ids that no write accepted are outside the property: such baseline
	// anomalies are counted and carried along as "unchanged unless the model says the
	// write affects this observation".
	prevReal := before
	for _, d := range diffSnap(before, modelSnapshot(be, world, graphs, u, others)) {
		if strings.Contains(d.key, "\x00") {
			pbt.Class(t, "baseline-read-anomaly:"+obs.Method(d.key))
			continue
		}
		if d.key == "ListIndices[others]" {
			continue // indices of earlier cases: only its changes are judged
		}
		// the benign base is not what the model says: not this property's business
		disc("base:"+obs.Method(d.key), "base state differs from the model before any hostile write: graph %q %q: stored=%q model=%q", d.graph, d.key, d.got, d.want)
		return
	}

	type outcome struct {
		accepted bool
	}
	var outs []outcome
	nulAccepted := false
	var indexed [][3]string // accepted indices: graph, label, field
	for wi, w := range c.Writes {
		where := fmt.Sprintf("write %d %s", wi, w)
		pbt.Class(t, "kind:"+w.Kind)
		for _, comp := range w.Hostile {
			pbt.Class(t, "attack:"+comp)
		}
		pbt.Class(t, "cause:"+cause(w))
		modelBefore := modelSnapshot(be, world, graphs, u, others)
		var accepted, panicked bool
		var detail string
		switch w.Kind {
		case "addGraph":
			accepted, detail, panicked = be.addGraph(string(w.Graph))
		case "addIndex":
			accepted, detail, panicked = be.addIndex(string(w.Graph), string(w.Elems[0].Label), string(w.Elems[0].ID))
		default:
			accepted, detail, panicked = be.put(w)
		}
		if panicked {
			pbt.Class(t, "result:panic")
			disc(signature(w, "panic:"+panicWhat(detail)), "%s panicked: %s", where, detail)
			return
		}
		outs = append(outs, outcome{accepted})
		if accepted {
			pbt.Class(t, "result:accepted")
		} else {
			pbt.Class(t, "result:rejected")
		}
		_, graphExisted := world[string(w.Graph)]
		if w.Kind != "addGraph" && !graphExisted && accepted {
			if !disc(signature(w, "accepted-into-missing-graph"), "%s reported success although graph %q was never created", where, w.Graph) {
				return
			}
		}
		if accepted {
			switch w.Kind {
			case "addGraph":
				if !graphExisted {
					world[string(w.Graph)] = &model.Graph{}
				}
			case "addIndex":
				if graphExisted {
					g := string(w.Graph)
					if u.midx[g] == nil {
						u.midx[g] = map[string]bool{}
					}
					u.midx[g][idxKey(w.Elems[0].Label, w.Elems[0].ID)] = true
					indexed = append(indexed, [3]string{g, string(w.Elems[0].Label), string(w.Elems[0].ID)})
				}
			default:
				if graphExisted {
					upsert(world[string(w.Graph)], w.target().toModel())
				}
			}
		}
		// benign companions of a bulk stream are stored either way
		if w.Kind == "bulkAdd" && graphExisted {
			for _, e := range w.Elems[:len(w.Elems)-1] {
				upsert(world[string(w.Graph)], e.toModel())
			}
		}
		if accepted && crashShape(w) {
			pbt.Class(t, "result:accepted-crash-shape")
			pbt.Avoided("C16-nul-crash:graph-not-read-back-after-accepted-crash-shaped-key")
			disc(signature(w, "unparseable-key-stored"), "%s was accepted, but the key it stores has an empty 7th component: kvgraph.EdgeKeyParse/SrcEdgeKeyParse/DstEdgeKeyParse index out of range on it inside a goroutine (listing or adjacency reads of this graph kill the process; see TestConfirmCrash)", where)
			return // reading this graph back would kill the process
		}
		if !accepted && w.Kind == "bulkAdd" && crashShape(w) {
			// a bulk stream is flushed although an element failed: the crash-shaped key
			// may be stored, reading the graph back could kill the process
			pbt.Inconclusive(t, "refused-bulk-element-with-crash-shaped-key-not-read-back")
			return
		}
		after := takeSnapshot(be, graphs, u, nil)
		want := modelSnapshot(be, world, graphs, u, others)
		// an observation the model says this write does not affect must be what it
		// was before the write (this carries baseline read anomalies along)
		for g, mo := range want {
			for k, v := range mo {
				if pv, ok := prevReal[g][k]; ok && modelBefore[g][k] == v && modelBefore[g]["graph"] == mo["graph"] {
					mo[k] = pv
				} else if k == "ListIndices[others]" {
					mo[k] = after[g][k] // a graph that did not exist before: nothing to compare with
				}
			}
		}
		if accepted {
			hasNul := bytes.IndexByte(w.Graph, 0) >= 0
			for _, e := range w.Elems {
				for _, b := range [][]byte{e.ID, e.Label, e.From, e.To} {
					hasNul = hasNul || bytes.IndexByte(b, 0) >= 0
				}
			}
			nulAccepted = nulAccepted || hasNul
		}
		diffs := diffSnap(after, want)
		prevReal = after
		if len(u.skipKeys) > 0 {
			kept := diffs[:0]
			for _, d := range diffs {
				if !u.skipKeys[d.graph+"\x00"+d.key] {
					kept = append(kept, d)
				}
			}
			diffs = kept
		}
		if !nulAccepted {
			// reads that probe with a 0x00 id/label/name nothing accepted so far
			// contains are outside the property (see the baseline anomalies above)
			kept := diffs[:0]
			for _, d := range diffs {
				if strings.IndexByte(d.key, 0) >= 0 {
					pbt.Class(t, "unjudged-nul-probe-of-never-accepted-id")
					continue
				}
				kept = append(kept, d)
			}
			diffs = kept
		}
		if len(diffs) == 0 {
			continue
		}
		// classify every difference; report each distinct signature once
		seen := map[string]bool{}
		for _, d := range diffs {
			var symptom string
			switch {
			case strings.HasPrefix(d.got, "PANIC:"):
				symptom = "panic-on-read"
			case !accepted:
				symptom = "rejected-but-graph-changed"
			case d.graph == listKey && d.key != "ListGraphs["+string(w.Graph)+"]":
				symptom = "changes-other-graph"
			case d.graph != listKey && d.graph != string(w.Graph):
				symptom = "changes-other-graph"
			case modelBefore[d.graph][d.key] == want[d.graph][d.key]:
				symptom = "changes-other-element"
			default:
				symptom = "not-read-back-verbatim"
			}
			sig := signature(w, symptom)
			if strings.HasPrefix(d.key, "ListIndices[") && d.key != "ListIndices[others]" && d.got != "0" && d.got != "" {
				// an index of this case listed for a graph it was not added to
				for _, ix := range indexed {
					if "ListIndices["+ix[1]+"|"+ix[2]+"]" == d.key && ix[0] != d.graph {
						sig = "index-list:not-filtered-by-graph"
					}
				}
			}
			if w.Kind == "addIndex" && strings.HasPrefix(d.key, "ListIndices[") && d.graph != string(w.Graph) {
				sig = "index-list:not-filtered-by-graph" // (possibly mangled) entry listed for another graph
			}
			if !accepted && (w.Kind == "addVertex" || w.Kind == "bulkAdd") && !strings.HasPrefix(sig, "label-named-label") {
				// a refused value under an indexed field: the index decides what is accepted
				for _, ix := range indexed {
					if ix[0] == string(w.Graph) && ix[1] == string(w.target().Label) {
						if v, ok := w.target().toModel().Field(ix[2]); ok {
							sig = "indexed-value:" + model.Kind(v) + "-" + symptom
						}
					}
				}
			}
			if seen[sig] {
				continue
			}
			seen[sig] = true
			pbt.Class(t, "symptom:"+symptom)
			gname := d.graph
			if gname == listKey {
				gname = "(graph listing)"
			}
			gotText, wantText := clip(fmt.Sprintf("%+q", d.got), 600), clip(fmt.Sprintf("%+q", d.want), 600)
			if strings.HasSuffix(d.key, "[others]") {
				// long listings: show what was added and what is missing
				gotText, wantText = listDelta(d.got, d.want)
				// "others" is state shared with earlier cases of the shard: a change is only
				// this write's doing if the listing is stable - read twice more, it must
				// still show the same change
				time.Sleep(300 * time.Millisecond)
				again := takeSnapshot(be, graphs, u, after)[d.graph][d.key]
				time.Sleep(300 * time.Millisecond)
				again2 := takeSnapshot(be, graphs, u, after)[d.graph][d.key]
				if again != d.got || again2 != d.got {
					pbt.Inconclusive(t, "the listing of graphs/indices not in play changes between reads (activity outside this case)")
					continue
				}
			}
			if !disc(sig, "%s (accepted=%v %s): graph %q observation %q: stored=%s model=%s (%d differences in all)", where, accepted, clip(strings.Join(strings.Fields(detail), " "), 300), gname, clip(fmt.Sprintf("%+q", d.key), 200), gotText, wantText, len(diffs)) {
				continue
			}
		}
		// the index listing is an observation of its own: a case whose only divergence
		// is there goes on (the listing is then carried as it is)
		onlyIndexListing := true
		for _, d := range diffs {
			if !strings.HasPrefix(d.key, "ListIndices[") {
				onlyIndexListing = false
			}
		}
		if onlyIndexListing {
			for _, d := range diffs {
				u.skipKeys[d.graph+"\x00"+d.key] = true
			}
			continue
		}
		return // state diverged from the model: stop judging this case
	}

	// non-trivial rule
	nontrivial := false
	for wi, w := range c.Writes {
		tok := false
		for _, comp := range w.Hostile {
			switch comp {
			case "value":
			case "prop-name":
				for k := range w.target().Data {
					if hasToken(features(comp, []byte(k))) {
						tok = true
					}
				}
			default:
				if hasToken(features(comp, componentValue(w, comp))) {
					tok = true
				}
			}
		}
		if outs[wi].accepted {
			if tok {
				nontrivial = true
				pbt.Class(t, "nontrivial:token-accepted")
			}
			continue
		}
		// rejected: is a neighbour differing by one byte accepted?
		nb, ok := neighbour(w)
		if !ok || crashShape(nb) {
			continue
		}
		var acc, pan bool
		switch nb.Kind {
		case "addGraph":
			acc, _, pan = be.addGraph(string(nb.Graph))
		case "addIndex":
			acc, _, pan = be.addIndex(string(nb.Graph), string(nb.Elems[0].Label), string(nb.Elems[0].ID))
		default:
			acc, _, pan = be.put(nb)
		}
		if acc && !pan {
			nontrivial = true
			pbt.Class(t, "nontrivial:rejected-neighbour-accepted")
		}
		break // the neighbour changed the state: no further probes
	}
	if nontrivial {
		pbt.Nontrivial(t, c.Level+"|"+describe(c.Writes))
	}
}

func panicWhat(detail string) string {
	// first line, without addresses
	s := strings.SplitN(detail, "\n", 2)[0]
	if len(s) > 80 {
		s = s[:80]
	}
	return s
}

// neighbour returns the write with one byte of its (most specific) hostile component
// changed so that the offending token disappears.
func neighbour(w Write) (Write, bool) {
	b, _ := json.Marshal(w)
	var n Write
	if json.Unmarshal(b, &n) != nil {
		return w, false
	}
	fix := func(x []byte) []byte {
		x = append([]byte{}, x...)
		if len(x) == 0 {
			return []byte("a")
		}
		if i := bytes.IndexByte(x, 0); i >= 0 {
			x[i] = 'a'
			return x
		}
		for i := 0; i < len(x); {
			r, sz := utf8.DecodeRune(x[i:])
			if r == utf8.RuneError && sz == 1 {
				x[i] = 'a'
				return x
			}
			i += sz
		}
		if x[0] == '_' || x[0] == '-' {
			x[0] = 'a'
			return x
		}
		if i := bytes.IndexAny(x, validateChars); i >= 0 {
			x[i] = 'a'
			return x
		}
		x[len(x)-1] ^= 0x01 // any other one-byte change (stays ASCII for ASCII)
		return x
	}
	for _, comp := range n.Hostile {
		t := n.target()
		switch comp {
		case "graph":
			n.Graph = fix(n.Graph)
		case "vertex-id", "edge-id", "index-field":
			t.ID = fix(t.ID)
		case "label", "index-label":
			t.Label = fix(t.Label)
		case "from":
			t.From = fix(t.From)
		case "to":
			t.To = fix(t.To)
		case "prop-name":
			nd := map[string]interface{}{}
			for k, v := range t.Data {
				nd[string(fix([]byte(k)))] = v
			}
			t.Data = nd
		default:
			return w, false
		}
		return n, true // one component, one byte
	}
	return w, false
}

// ---------------------------------------------------------------------------------
// tests

func TestReplay(t *testing.T) {
	cf, ok := pbt.ReplayFile()
	if !ok {
		t.Skip("no replay file")
	}
	var c Case
	if err := json.Unmarshal(cf.Case, &c); err != nil {
		t.Fatal(err)
	}
	if c.Level == "crash-confirm" {
		confirmCrash(t, c)
		return
	}
	runCase(t, c)
}

func randomLevel(t *testing.T, level string, quickN, thoroughN int) {
	pbt.Check(t, quickN, thoroughN, func(rt *rapid.T) {
		c := genCase(rt, level)
		pbt.Current(rt, c)
		if pbt.WantSample(rt) {
			pbt.Sample(rt, c)
		}
		runCase(rt, c)
	})
}

func TestGdbiLevel(t *testing.T)   { randomLevel(t, "gdbi", 1600, 48000) }
func TestServerLevel(t *testing.T) { randomLevel(t, "server", 560, 16000) }
