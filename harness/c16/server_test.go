package c16

import (
	"context"
	"fmt"
	"io"
	"os"
	"sort"
	"strings"
	"sync"
	"time"

	"github.com/bmeg/grip/gripql"
	"google.golang.org/grpc/codes"
	"google.golang.org/grpc/status"
	"google.golang.org/protobuf/types/known/structpb"
	"verif/internal/live"
	"verif/internal/model"
	"verif/internal/obs"
	"verif/internal/pbt"
)

// level (i): a live in-process GripServer (Badger), driven through its gRPC clients

var (
	srvMu  sync.Mutex
	curSrv *live.Server
	srvDir string
)

func stopServerLocked() {
	if curSrv != nil {
		curSrv.Stop()
		select {
		case <-curSrv.Done:
		case <-time.After(20 * time.Second):
		}
		curSrv = nil
	}
	if srvDir != "" {
		os.RemoveAll(srvDir)
		srvDir = ""
	}
}

func stopServer() {
	srvMu.Lock()
	defer srvMu.Unlock()
	stopServerLocked()
}

func getServer(t pbt.TB, restart bool) *live.Server {
	srvMu.Lock()
	defer srvMu.Unlock()
	if curSrv != nil && !restart {
		return curSrv
	}
	stopServerLocked()
	srvDir = pbt.ScratchDir("c16-srv-")
	s, err := live.Start(srvDir)
	if err != nil {
		t.Fatalf("INFRA: cannot start live server: %v", err)
	}
	curSrv = s
	return s
}

type srvBackend struct {
	t   pbt.TB
	srv *live.Server
}

const rpcBudget = 60 * time.Second

func rpcCtx() (context.Context, context.CancelFunc) {
	return context.WithTimeout(context.Background(), rpcBudget)
}

func mustStruct(d map[string]interface{}) *structpb.Struct {
	s, err := structpb.NewStruct(model.CopyMap(d))
	if err != nil {
		panic("c16: generated data is not a JSON object: " + err.Error())
	}
	return s
}

func toGraphElement(graph string, e Elem) *gripql.GraphElement {
	if e.Edge {
		return &gripql.GraphElement{Graph: graph, Edge: &gripql.Edge{Gid: string(e.ID), Label: string(e.Label), From: string(e.From), To: string(e.To), Data: mustStruct(e.Data)}}
	}
	return &gripql.GraphElement{Graph: graph, Vertex: &gripql.Vertex{Gid: string(e.ID), Label: string(e.Label), Data: mustStruct(e.Data)}}
}

func (b *srvBackend) addGraph(name string) (bool, string, bool) {
	ctx, cancel := rpcCtx()
	defer cancel()
	_, err := b.srv.Edit.AddGraph(ctx, &gripql.GraphID{Graph: name})
	if err != nil {
		return false, err.Error(), false
	}
	return true, "", false
}

func (b *srvBackend) put(w Write) (bool, string, bool) {
	ctx, cancel := rpcCtx()
	defer cancel()
	g := string(w.Graph)
	switch w.Kind {
	case "addVertex":
		_, err := b.srv.Edit.AddVertex(ctx, toGraphElement(g, w.Elems[0]))
		if err != nil {
			return false, err.Error(), false
		}
		return true, "", false
	case "addEdge":
		_, err := b.srv.Edit.AddEdge(ctx, toGraphElement(g, w.Elems[0]))
		if err != nil {
			return false, err.Error(), false
		}
		return true, "", false
	case "bulkAdd":
		st, err := b.srv.Edit.BulkAdd(ctx)
		if err != nil {
			return false, err.Error(), false
		}
		for _, e := range w.Elems {
			if err := st.Send(toGraphElement(g, e)); err != nil {
				st.CloseAndRecv()
				return false, "send: " + err.Error(), false
			}
		}
		res, err := st.CloseAndRecv()
		if err != nil {
			return false, err.Error(), false
		}
		if res.ErrorCount > 0 {
			return false, fmt.Sprintf("BulkEditResult{insert=%d error=%d}", res.InsertCount, res.ErrorCount), false
		}
		return true, fmt.Sprintf("BulkEditResult{insert=%d error=%d}", res.InsertCount, res.ErrorCount), false
	}
	panic("c16: unknown write kind " + w.Kind)
}

func (b *srvBackend) deleteGraph(name string) {
	ctx, cancel := rpcCtx()
	defer cancel()
	b.srv.Edit.DeleteGraph(ctx, &gripql.GraphID{Graph: name})
}

func (b *srvBackend) addIndex(graph, label, field string) (bool, string, bool) {
	ctx, cancel := rpcCtx()
	defer cancel()
	_, err := b.srv.Edit.AddIndex(ctx, &gripql.IndexID{Graph: graph, Label: label, Field: field})
	if err != nil {
		return false, err.Error(), false
	}
	return true, "", false
}

func (b *srvBackend) listIndices(graph string) ([]string, error) {
	ctx, cancel := rpcCtx()
	defer cancel()
	r, err := b.srv.Query.ListIndices(ctx, &gripql.GraphID{Graph: graph})
	if err != nil {
		return nil, err
	}
	var out []string
	for _, i := range r.Indices {
		if i.Graph != graph {
			out = append(out, "(graph "+i.Graph+")"+i.Label+"|"+i.Field)
			continue
		}
		out = append(out, i.Label+"|"+i.Field)
	}
	return out, nil
}

func (b *srvBackend) listGraphs() []string {
	ctx, cancel := rpcCtx()
	defer cancel()
	r, err := b.srv.Query.ListGraphs(ctx, &gripql.Empty{})
	if err != nil {
		b.t.Fatalf("INFRA: ListGraphs failed: %v", err)
	}
	return r.Graphs
}

func etext(id, label, from, to string, data map[string]interface{}) string {
	s := fmt.Sprintf("id=%q label=%q", id, label)
	if from != "" || to != "" {
		s += fmt.Sprintf(" from=%q to=%q", from, to)
	}
	return s + " data=" + model.Canon(interface{}(model.CopyMap(data)))
}

func rowText(r *gripql.QueryResult) string {
	if v := r.GetVertex(); v != nil {
		return "V " + etext(v.Gid, v.Label, "", "", v.Data.AsMap())
	}
	if e := r.GetEdge(); e != nil {
		return "E " + etext(e.Gid, e.Label, e.From, e.To, e.Data.AsMap())
	}
	return "other " + r.String()
}

func mset(items []string) string {
	sort.Strings(items)
	return "[" + strings.Join(items, " | ") + "]"
}

func sset(items []string) string {
	seen := map[string]bool{}
	var out []string
	for _, i := range items {
		if !seen[i] {
			seen[i] = true
			out = append(out, i)
		}
	}
	sort.Strings(out)
	return fmt.Sprintf("%q", out)
}

// trav runs a traversal and renders the rows; errors are part of the observation.
func (b *srvBackend) trav(graph string, qy *gripql.Query) (string, error) {
	ctx, cancel := rpcCtx()
	defer cancel()
	st, err := b.srv.Query.Traversal(ctx, &gripql.GraphQuery{Graph: graph, Query: qy.Statements})
	if err != nil {
		return "", err
	}
	var rows []string
	for {
		r, err := st.Recv()
		if err == io.EOF {
			break
		}
		if err != nil {
			return "", err
		}
		rows = append(rows, rowText(r))
	}
	return mset(rows), nil
}

// probe lists of an observation: light (graphs no write addresses) looks only at the
// listings, the label listing and lookups of the hostile ids
func probes(u *universe, light bool) (vids, eids, vlabels, elabels []string) {
	if light {
		return append([]string{"v1"}, u.hostV...), append([]string{"e1"}, u.hostE...), u.hostVL, u.hostEL
	}
	return u.full.VertexIDs, u.full.EdgeIDs, u.full.VLabels, u.full.ELabels
}

// adjacency is probed from the hostile ids and from two base vertices
func adjProbe(u *universe, id string) bool {
	return id == "v1" || id == "v2" || isHost(u.hostV, id)
}

func isHost(list []string, x string) bool {
	for _, y := range list {
		if x == y {
			return true
		}
	}
	return false
}

func (b *srvBackend) observe(graph string, u *universe, light bool) obs.Observation {
	o := obs.Observation{}
	put := func(k string, qy *gripql.Query) bool {
		s, err := b.trav(graph, qy)
		if err != nil {
			if status.Code(err) == codes.DeadlineExceeded {
				o[k] = "HANG"
				return false
			}
			o[k] = "error: " + err.Error()
			return false
		}
		o[k] = s
		return true
	}
	if !put("V()", gripql.NewQuery().V()) {
		if strings.Contains(o["V()"], "not found") {
			return nil // the graph cannot be opened
		}
	}
	put("E()", gripql.NewQuery().E())
	vids, eids, vlabels, elabels := probes(u, light)
	for _, id := range vids {
		ctx, cancel := rpcCtx()
		v, err := b.srv.Query.GetVertex(ctx, &gripql.ElementID{Graph: graph, Id: id})
		cancel()
		k := "GetVertex(" + id + ")"
		switch {
		case err == nil:
			o[k] = etext(v.Gid, v.Label, "", "", v.Data.AsMap())
		case status.Code(err) == codes.NotFound:
			o[k] = "nil"
		default:
			o[k] = "error: " + err.Error()
		}
		if id == "" || light {
			continue // V("") is V() (no ids)
		}
		if !adjProbe(u, id) {
			continue
		}
		put("V("+id+").outE()", gripql.NewQuery().V(id).OutE())
		put("V("+id+").inE()", gripql.NewQuery().V(id).InE())
		if !isHost(u.hostV, id) {
			continue
		}
		put("V("+id+")", gripql.NewQuery().V(id))
		put("V("+id+").out()", gripql.NewQuery().V(id).Out())
		put("V("+id+").in()", gripql.NewQuery().V(id).In())
		for _, l := range u.hostEL {
			if l == "" {
				continue
			}
			put("V("+id+").outE("+l+")", gripql.NewQuery().V(id).OutE(l))
		}
	}
	for _, id := range eids {
		ctx, cancel := rpcCtx()
		e, err := b.srv.Query.GetEdge(ctx, &gripql.ElementID{Graph: graph, Id: id})
		cancel()
		k := "GetEdge(" + id + ")"
		switch {
		case err == nil:
			o[k] = etext(e.Gid, e.Label, e.From, e.To, e.Data.AsMap())
		case status.Code(err) == codes.NotFound:
			o[k] = "nil"
		default:
			o[k] = "error: " + err.Error()
		}
		if id == "" || light || !isHost(u.hostE, id) {
			continue
		}
		put("E("+id+")", gripql.NewQuery().E(id))
	}
	for _, l := range vlabels {
		if l == "" {
			continue
		}
		put("V().hasLabel("+l+")", gripql.NewQuery().V().HasLabel(l))
	}
	for _, l := range elabels {
		if l == "" {
			continue
		}
		put("E().hasLabel("+l+")", gripql.NewQuery().E().HasLabel(l))
	}
	ctx, cancel := rpcCtx()
	ll, err := b.srv.Query.ListLabels(ctx, &gripql.GraphID{Graph: graph})
	cancel()
	if err != nil {
		o["ListLabels"] = "error: " + err.Error()
	} else {
		o["ListLabels"] = "vertex=" + sset(ll.VertexLabels) + " edge=" + sset(ll.EdgeLabels)
	}
	return o
}

func (b *srvBackend) modelObs(g *model.Graph, u *universe, light bool) obs.Observation {
	o := obs.Observation{}
	vt := func(v *model.Element) string { return "V " + etext(v.ID, v.Label, "", "", v.Data) }
	et := func(e *model.Element) string { return "E " + etext(e.ID, e.Label, e.From, e.To, e.Data) }
	var vs, es []string
	for _, v := range g.V {
		vs = append(vs, vt(v))
	}
	for _, e := range g.E {
		es = append(es, et(e))
	}
	o["V()"] = mset(vs)
	o["E()"] = mset(es)
	vids, eids, vlabels, elabels := probes(u, light)
	for _, id := range vids {
		v := g.Vertex(id)
		k := "GetVertex(" + id + ")"
		if v == nil {
			o[k] = "nil"
		} else {
			o[k] = etext(v.ID, v.Label, "", "", v.Data)
		}
		if id == "" || light {
			continue
		}
		var self, outE, inE, outV, inV []string
		byOutE := map[string][]string{}
		if v != nil {
			self = append(self, vt(v))
			for _, e := range g.E {
				if e.From == id {
					outE = append(outE, et(e))
					byOutE[e.Label] = append(byOutE[e.Label], et(e))
					if w := g.Vertex(e.To); w != nil {
						outV = append(outV, vt(w))
					}
				}
				if e.To == id {
					inE = append(inE, et(e))
					if w := g.Vertex(e.From); w != nil {
						inV = append(inV, vt(w))
					}
				}
			}
		}
		if !adjProbe(u, id) {
			continue
		}
		o["V("+id+").outE()"] = mset(outE)
		o["V("+id+").inE()"] = mset(inE)
		if !isHost(u.hostV, id) {
			continue
		}
		o["V("+id+")"] = mset(self)
		o["V("+id+").out()"] = mset(outV)
		o["V("+id+").in()"] = mset(inV)
		for _, l := range u.hostEL {
			if l == "" {
				continue
			}
			o["V("+id+").outE("+l+")"] = mset(byOutE[l])
		}
	}
	for _, id := range eids {
		e := g.EdgeByID(id)
		k := "GetEdge(" + id + ")"
		if e == nil {
			o[k] = "nil"
		} else {
			o[k] = etext(e.ID, e.Label, e.From, e.To, e.Data)
		}
		if id == "" || light || !isHost(u.hostE, id) {
			continue
		}
		var self []string
		if e != nil {
			self = append(self, et(e))
		}
		o["E("+id+")"] = mset(self)
	}
	for _, l := range vlabels {
		if l == "" {
			continue
		}
		var m []string
		for _, v := range g.V {
			if v.Label == l {
				m = append(m, vt(v))
			}
		}
		o["V().hasLabel("+l+")"] = mset(m)
	}
	for _, l := range elabels {
		if l == "" {
			continue
		}
		var m []string
		for _, e := range g.E {
			if e.Label == l {
				m = append(m, et(e))
			}
		}
		o["E().hasLabel("+l+")"] = mset(m)
	}
	var vl, el []string
	for _, v := range g.V {
		vl = append(vl, v.Label)
	}
	for _, e := range g.E {
		el = append(el, e.Label)
	}
	o["ListLabels"] = "vertex=" + sset(vl) + " edge=" + sset(el)
	return o
}
