package c06

import (
	"testing"

	"github.com/bmeg/grip/gripql"
	"google.golang.org/protobuf/types/known/structpb"
	"verif/internal/pbt"
)

// stringStatements builds, for one client string, every statement that takes a string: a
// label, id, mark or field path. The random generator draws these strings from the same
// pool, but reaches a given (statement, string) pair only by chance.
func stringStatements(s string) []*gripql.GraphStatement {
	l := &structpb.ListValue{Values: []*structpb.Value{structpb.NewStringValue(s)}}
	has := func(c gripql.Condition, v *structpb.Value) *gripql.GraphStatement {
		return &gripql.GraphStatement{Statement: &gripql.GraphStatement_Has{Has: &gripql.HasExpression{Expression: &gripql.HasExpression_Condition{
			Condition: &gripql.HasCondition{Key: s, Value: v, Condition: c}}}}}
	}
	agg := func(a *gripql.Aggregate) *gripql.GraphStatement {
		a.Name = "a"
		return &gripql.GraphStatement{Statement: &gripql.GraphStatement_Aggregate{Aggregate: &gripql.Aggregations{Aggregations: []*gripql.Aggregate{a}}}}
	}
	tmpl, _ := structpb.NewValue(map[string]interface{}{"x": s, "y": []interface{}{s}})
	return []*gripql.GraphStatement{
		{Statement: &gripql.GraphStatement_In{In: l}}, {Statement: &gripql.GraphStatement_Out{Out: l}}, {Statement: &gripql.GraphStatement_Both{Both: l}},
		{Statement: &gripql.GraphStatement_InE{InE: l}}, {Statement: &gripql.GraphStatement_OutE{OutE: l}}, {Statement: &gripql.GraphStatement_BothE{BothE: l}},
		{Statement: &gripql.GraphStatement_OutNull{OutNull: l}}, {Statement: &gripql.GraphStatement_InENull{InENull: l}},
		{Statement: &gripql.GraphStatement_As{As: s}}, {Statement: &gripql.GraphStatement_Select{Select: &gripql.SelectStatement{Marks: []string{s}}}},
		{Statement: &gripql.GraphStatement_Select{Select: &gripql.SelectStatement{Marks: []string{"a", s}}}},
		{Statement: &gripql.GraphStatement_HasLabel{HasLabel: l}}, {Statement: &gripql.GraphStatement_HasKey{HasKey: l}}, {Statement: &gripql.GraphStatement_HasId{HasId: l}},
		{Statement: &gripql.GraphStatement_Distinct{Distinct: l}}, {Statement: &gripql.GraphStatement_Fields{Fields: l}},
		{Statement: &gripql.GraphStatement_Unwind{Unwind: s}},
		{Statement: &gripql.GraphStatement_Render{Render: structpb.NewStringValue(s)}}, {Statement: &gripql.GraphStatement_Render{Render: tmpl}},
		{Statement: &gripql.GraphStatement_Path{Path: l}},
		{Statement: &gripql.GraphStatement_Set{Set: &gripql.Set{Key: s, Value: structpb.NewNumberValue(1)}}},
		{Statement: &gripql.GraphStatement_Set{Set: &gripql.Set{Key: "c", Value: structpb.NewStringValue(s)}}},
		{Statement: &gripql.GraphStatement_Increment{Increment: &gripql.Increment{Key: s, Value: 1}}},
		has(gripql.Condition_EQ, structpb.NewStringValue(s)), has(gripql.Condition_GT, structpb.NewNumberValue(1)),
		has(gripql.Condition_WITHIN, structpb.NewListValue(l)), has(gripql.Condition_INSIDE, structpb.NewListValue(l)), has(gripql.Condition_CONTAINS, structpb.NewNullValue()),
		agg(&gripql.Aggregate{Aggregation: &gripql.Aggregate_Term{Term: &gripql.TermAggregation{Field: s}}}),
		agg(&gripql.Aggregate{Aggregation: &gripql.Aggregate_Histogram{Histogram: &gripql.HistogramAggregation{Field: s, Interval: 1}}}),
		agg(&gripql.Aggregate{Aggregation: &gripql.Aggregate_Percentile{Percentile: &gripql.PercentileAggregation{Field: s, Percents: []float64{50}}}}),
		agg(&gripql.Aggregate{Aggregation: &gripql.Aggregate_Field{Field: &gripql.FieldAggregation{Field: s}}}),
		agg(&gripql.Aggregate{Aggregation: &gripql.Aggregate_Type{Type: &gripql.TypeAggregation{Field: s}}}),
	}
}

// TestEveryArgument sends every (string-taking statement, pool string) pair once after each
// of four prefixes: V(), E(), V().as(a) and V().as(a).out() (so mark references resolve).
func TestEveryArgument(t *testing.T) {
	if _, ok := pbt.ReplayFile(); ok {
		t.Skip("replay mode")
	}
	v := &gripql.GraphStatement{Statement: &gripql.GraphStatement_V{}}
	e := &gripql.GraphStatement{Statement: &gripql.GraphStatement_E{}}
	as := &gripql.GraphStatement{Statement: &gripql.GraphStatement_As{As: "a"}}
	out := &gripql.GraphStatement{Statement: &gripql.GraphStatement_Out{}}
	prefixes := [][]*gripql.GraphStatement{{v}, {e}, {v, as}, {v, as, out}}
	i := 0
	for _, s := range strPool {
		for _, st := range stringStatements(s) {
			for _, p := range prefixes {
				i++
				if !pbt.ShardOwns(i) {
					continue
				}
				q := &gripql.GraphQuery{Query: append(append([]*gripql.GraphStatement{}, p...), st)}
				c := Case{Kind: "traversal", Graph: "pop", Query: toJSON(q)}
				if pbt.WantSample(t) {
					pbt.Sample(t, c)
				}
				runCase(t, c)
				if t.Failed() {
					return
				}
			}
		}
	}
	pbt.Exhaustive(t)
}

// canonicalStatements: one plausible instance of every statement arm.
func canonicalStatements() []*gripql.GraphStatement {
	out := stringStatements("k")
	l := func(ss ...string) *structpb.ListValue {
		lv := &structpb.ListValue{}
		for _, s := range ss {
			lv.Values = append(lv.Values, structpb.NewStringValue(s))
		}
		return lv
	}
	out = append(out,
		&gripql.GraphStatement{Statement: &gripql.GraphStatement_V{}}, &gripql.GraphStatement{Statement: &gripql.GraphStatement_E{}},
		&gripql.GraphStatement{Statement: &gripql.GraphStatement_V{V: l("v0", "nope")}},
		&gripql.GraphStatement{Statement: &gripql.GraphStatement_In{}}, &gripql.GraphStatement{Statement: &gripql.GraphStatement_Out{}}, &gripql.GraphStatement{Statement: &gripql.GraphStatement_Both{}},
		&gripql.GraphStatement{Statement: &gripql.GraphStatement_InE{}}, &gripql.GraphStatement{Statement: &gripql.GraphStatement_OutE{}}, &gripql.GraphStatement{Statement: &gripql.GraphStatement_BothE{}},
		&gripql.GraphStatement{Statement: &gripql.GraphStatement_InNull{}}, &gripql.GraphStatement{Statement: &gripql.GraphStatement_OutNull{}},
		&gripql.GraphStatement{Statement: &gripql.GraphStatement_InENull{}}, &gripql.GraphStatement{Statement: &gripql.GraphStatement_OutENull{}},
		&gripql.GraphStatement{Statement: &gripql.GraphStatement_As{As: "a"}}, &gripql.GraphStatement{Statement: &gripql.GraphStatement_As{As: "b"}},
		&gripql.GraphStatement{Statement: &gripql.GraphStatement_Select{Select: &gripql.SelectStatement{Marks: []string{"a"}}}},
		&gripql.GraphStatement{Statement: &gripql.GraphStatement_Select{Select: &gripql.SelectStatement{Marks: []string{"a", "b"}}}},
		&gripql.GraphStatement{Statement: &gripql.GraphStatement_Limit{Limit: 1}}, &gripql.GraphStatement{Statement: &gripql.GraphStatement_Skip{Skip: 1}},
		&gripql.GraphStatement{Statement: &gripql.GraphStatement_Range{Range: &gripql.Range{Start: 1, Stop: 3}}},
		&gripql.GraphStatement{Statement: &gripql.GraphStatement_Count{}},
		&gripql.GraphStatement{Statement: &gripql.GraphStatement_Distinct{}}, &gripql.GraphStatement{Statement: &gripql.GraphStatement_Fields{}}, &gripql.GraphStatement{Statement: &gripql.GraphStatement_Path{}},
		&gripql.GraphStatement{Statement: &gripql.GraphStatement_Aggregate{Aggregate: &gripql.Aggregations{Aggregations: []*gripql.Aggregate{
			{Name: "c", Aggregation: &gripql.Aggregate_Count{Count: &gripql.CountAggregation{}}}}}}},
		&gripql.GraphStatement{Statement: &gripql.GraphStatement_Set{Set: &gripql.Set{Key: "$a.c", Value: structpb.NewNumberValue(0)}}},
		&gripql.GraphStatement{Statement: &gripql.GraphStatement_Increment{Increment: &gripql.Increment{Key: "$a.c", Value: 1}}},
		&gripql.GraphStatement{Statement: &gripql.GraphStatement_Mark{Mark: "m1"}},
		&gripql.GraphStatement{Statement: &gripql.GraphStatement_Jump{Jump: &gripql.Jump{Mark: "m1", Emit: true, Expression: &gripql.HasExpression{Expression: &gripql.HasExpression_Condition{
			Condition: &gripql.HasCondition{Key: "$a.c", Value: structpb.NewNumberValue(2), Condition: gripql.Condition_LT}}}}}},
	)
	return out
}

// TestEveryPair sends every ordered pair of canonical statements after V().as(a): what one statement leaves behind (a row that is no element, a traveler
// without a current element, a copied traveler) is what the next one has to cope with.
func TestEveryPair(t *testing.T) {
	if _, ok := pbt.ReplayFile(); ok {
		t.Skip("replay mode")
	}
	v := &gripql.GraphStatement{Statement: &gripql.GraphStatement_V{}}
	as := &gripql.GraphStatement{Statement: &gripql.GraphStatement_As{As: "a"}}
	prefixes := [][]*gripql.GraphStatement{{v, as}}
	stmts := canonicalStatements()
	i := 0
	for _, a := range stmts {
		for _, b := range stmts {
			for _, p := range prefixes {
				i++
				if !pbt.ShardOwns(i) {
					continue
				}
				q := &gripql.GraphQuery{Query: append(append([]*gripql.GraphStatement{}, p...), a, b)}
				c := Case{Kind: "traversal", Graph: "pop", Query: toJSON(q)}
				if pbt.WantSample(t) {
					pbt.Sample(t, c)
				}
				runCase(t, c)
				if t.Failed() {
					return
				}
			}
		}
	}
	pbt.Exhaustive(t)
}

// TestEveryCondition: every condition code x every kind of condition value (scalar, list,
// list of lists, object, null) x keys that resolve to every kind of element value of the
// populated graph (number, text, list, object, missing, reserved fields, a mark's field).
func TestEveryCondition(t *testing.T) {
	if _, ok := pbt.ReplayFile(); ok {
		t.Skip("replay mode")
	}
	mk := func(v interface{}) *structpb.Value {
		x, err := structpb.NewValue(v)
		if err != nil {
			panic(err)
		}
		return x
	}
	values := []*structpb.Value{
		mk("a"), mk(1.0), mk(true), structpb.NewNullValue(),
		mk([]interface{}{0.0, "a"}), mk([]interface{}{}), mk([]interface{}{[]interface{}{0.0, "a"}, "a"}),
		mk(map[string]interface{}{"k": 0.0}), mk(map[string]interface{}{}), mk([]interface{}{map[string]interface{}{"k": 0.0}}),
		mk([]interface{}{1.0, 2.0}),
	}
	keys := []string{"k", "s", "l", "a", "a.k", "b", "nope", "_gid", "_label", "_data", "$a.l", "$a.a", "$a"}
	v := &gripql.GraphStatement{Statement: &gripql.GraphStatement_V{}}
	as := &gripql.GraphStatement{Statement: &gripql.GraphStatement_As{As: "a"}}
	out := &gripql.GraphStatement{Statement: &gripql.GraphStatement_Out{}}
	i := 0
	for cond := 0; cond <= 13; cond++ {
		for _, key := range keys {
			for _, val := range values {
				for _, negate := range []bool{false, true} {
					i++
					if !pbt.ShardOwns(i) {
						continue
					}
					e := &gripql.HasExpression{Expression: &gripql.HasExpression_Condition{Condition: &gripql.HasCondition{Key: key, Value: val, Condition: gripql.Condition(cond)}}}
					if negate {
						e = &gripql.HasExpression{Expression: &gripql.HasExpression_Not{Not: e}}
					}
					q := &gripql.GraphQuery{Query: []*gripql.GraphStatement{v, as, out, {Statement: &gripql.GraphStatement_Has{Has: e}}}}
					c := Case{Kind: "traversal", Graph: "pop", Query: toJSON(q)}
					if pbt.WantSample(t) {
						pbt.Sample(t, c)
					}
					runCase(t, c)
					if t.Failed() {
						return
					}
				}
			}
		}
	}
	pbt.Exhaustive(t)
}
