// Package c06: no request can crash the server.
package c06

import (
	"context"
	"encoding/json"
	"fmt"
	"io"
	"os"
	"path/filepath"
	"regexp"
	"strings"
	"sync"
	"testing"
	"time"

	"github.com/bmeg/grip/engine/pipeline"
	"github.com/bmeg/grip/gdbi"
	"github.com/bmeg/grip/gripql"
	"github.com/bmeg/grip/kvgraph"
	"google.golang.org/grpc/codes"
	"google.golang.org/grpc/status"
	"google.golang.org/protobuf/encoding/protojson"
	"google.golang.org/protobuf/types/known/structpb"
	"pgregory.net/rapid"
	"verif/internal/live"
	"verif/internal/pbt"
	"verif/internal/worker"
)

func TestMain(m *testing.M) {
	if worker.IsChild() {
		os.Exit(m.Run()) // runs only TestWorkerChild
	}
	code := pbt.Main(m, pbt.Meta{
		Property: "C06",
		Level:    "exploration",
		Rule: "structurally valid, semantically arbitrary requests generated over the protobuf schema (every GraphStatement arm incl. null-emitting moves, mark/jump/set/increment and unset oneofs; list arguments with non-string members; has conditions with every operator code and any JSON value; empty/duplicate/unnamed aggregations with zero sizes/intervals and empty percent lists; negative and inverted ranges; undefined marks; steps after terminal steps) and edit/job requests (elements with missing parts, unknown graphs, bulk streams that switch between existing and missing graphs, unknown job ids), executed against a live GripServer in a worker subprocess on an empty, a populated and a missing graph, through the gRPC handlers and through compile+pipeline.Run inside the worker. Oracle: the worker process is alive afterwards and answers a follow-up ListGraphs. " +
			"Non-trivial: the request reached execution (compiled / reached a driver); distinct = request text.",
		Assumptions: []string{
			"a request that exceeds its drain budget is counted inconclusive (hangs are C07's business), the worker is restarted",
			"memory exhaustion by huge limits/sizes is out of scope; generated sizes are bounded",
		},
	})
	stopWorker()
	os.Exit(code)
}

// ---------------------------------------------------------------------------------
// worker child

type childCmd struct {
	Graph string `json:"graph"`
	Query string `json:"query"` // protojson GraphQuery
}

func TestWorkerChild(t *testing.T) {
	if !worker.IsChild() {
		t.Skip("not a worker child")
	}
	worker.ChildMain(func(srv *live.Server, raw json.RawMessage) (interface{}, error) {
		var c childCmd
		if err := json.Unmarshal(raw, &c); err != nil {
			return nil, err
		}
		return childRun(srv, c)
	})
}

var (
	childDBOnce sync.Once
	childGraphs = map[string]gdbi.GraphInterface{}
)

// childRun compiles and runs a query in-process inside the child (no gRPC), on a
// kvgraph/Badger store private to this path.
func childRun(srv *live.Server, c childCmd) (interface{}, error) {
	childDBOnce.Do(func() {
		db := childOpenDB(srv.Dir)
		for _, g := range []string{"empty", "pop"} {
			db.AddGraph(g)
			gi, _ := db.Graph(g)
			childGraphs[g] = gi
		}
		populate(func(v *gripql.Vertex) { childGraphs["pop"].AddVertex([]*gdbi.Vertex{gdbi.NewElementFromVertex(v)}) },
			func(e *gripql.Edge) { childGraphs["pop"].AddEdge([]*gdbi.Edge{gdbi.NewElementFromEdge(e)}) })
	})
	gi, ok := childGraphs[c.Graph]
	if !ok {
		return "no such graph", nil
	}
	q := &gripql.GraphQuery{}
	if err := protojson.Unmarshal([]byte(c.Query), q); err != nil {
		return nil, err
	}
	pipe, err := gi.Compiler().Compile(q.Query, nil)
	if err != nil {
		return "compile error", nil
	}
	ctx, cancel := context.WithCancel(context.Background())
	defer cancel()
	n := 0
	for range pipeline.Run(ctx, pipe, srv.Dir) {
		n++
		if n > 200000 {
			cancel()
		}
	}
	return fmt.Sprintf("rows=%d", n), nil
}

func childOpenDB(dir string) gdbi.GraphDB {
	db, err := kvgraph.NewKVGraphDB("badger", filepath.Join(dir, "childrun.db"))
	if err != nil {
		panic(err)
	}
	return db
}

func sv(v interface{}) *structpb.Value {
	x, err := structpb.NewValue(v)
	if err != nil {
		panic(err)
	}
	return x
}

func st(m map[string]interface{}) *structpb.Struct {
	s, err := structpb.NewStruct(m)
	if err != nil {
		panic(err)
	}
	return s
}

// populate builds the fixed populated graph.
func populate(addV func(*gripql.Vertex), addE func(*gripql.Edge)) {
	for i := 0; i < 6; i++ {
		// m: magnitudes far apart (an aggregation or comparison over it spans 1e17 and more)
		data := map[string]interface{}{"k": float64(i % 3), "s": fmt.Sprint("s", i%2), "l": []interface{}{float64(i), "a"}, "a": map[string]interface{}{"k": float64(i)},
			"m": []float64{-1e17, 5, 1e17, 0.5}[i%4]}
		if i == 4 {
			data = map[string]interface{}{"k": "text", "b": true}
		}
		if i == 5 {
			data = map[string]interface{}{}
		}
		addV(&gripql.Vertex{Gid: fmt.Sprint("v", i), Label: []string{"A", "B"}[i%2], Data: st(data)})
	}
	edges := [][3]string{{"v0", "v1", "x"}, {"v0", "v1", "x"}, {"v1", "v2", "y"}, {"v2", "v2", "y"}, {"v2", "ghost", "z"}, {"v3", "v0", "x"}}
	for i, e := range edges {
		addE(&gripql.Edge{Gid: fmt.Sprint("e", i), From: e[0], To: e[1], Label: e[2], Data: st(map[string]interface{}{"w": float64(i), "k": "a"})})
	}
}

// ---------------------------------------------------------------------------------
// parent: worker management

var (
	wMu sync.Mutex
	w   *worker.Worker
)

func getWorker(t pbt.TB) *worker.Worker {
	wMu.Lock()
	defer wMu.Unlock()
	if w != nil && w.Alive() {
		return w
	}
	if w != nil {
		w.Stop()
		w = nil
	}
	nw, err := worker.Start()
	if err != nil {
		t.Fatalf("INFRA: %v", err)
	}
	recent = nil
	ctx := context.Background()
	for _, g := range []string{"empty", "pop"} {
		if _, err := nw.Srv.Edit.AddGraph(ctx, &gripql.GraphID{Graph: g}); err != nil {
			t.Fatalf("INFRA: worker setup AddGraph: %v", err)
		}
	}
	populate(func(v *gripql.Vertex) { nw.Srv.Edit.AddVertex(ctx, &gripql.GraphElement{Graph: "pop", Vertex: v}) },
		func(e *gripql.Edge) { nw.Srv.Edit.AddEdge(ctx, &gripql.GraphElement{Graph: "pop", Edge: e}) })
	w = nw
	return w
}

func stopWorker() {
	wMu.Lock()
	defer wMu.Unlock()
	if w != nil {
		w.Stop()
		w = nil
	}
}

func killWorker() {
	wMu.Lock()
	defer wMu.Unlock()
	if w != nil {
		w.Stop()
		w = nil
	}
}

// ---------------------------------------------------------------------------------
// cases

// Case is one request. Kind: run (compile+run inside the worker), traversal, submit,
// addVertex, addEdge, bulkAdd, deleteGraph, addSchema, addIndex, deleteIndex, getVertex,
// getEdge, deleteVertex, deleteEdge, listLabels, getSchema, getJob, viewJob, deleteJob,
// resumeJob, searchJobs, listJobs.
type Case struct {
	Kind  string   `json:"kind"`
	Graph string   `json:"graph,omitempty"`
	Query string   `json:"query,omitempty"` // protojson of GraphQuery (traversal/run/submit/search/resume)
	Elems []string `json:"elems,omitempty"` // protojson of GraphElement (addVertex/addEdge/bulkAdd)
	ID    string   `json:"id,omitempty"`
	Aux   string   `json:"aux,omitempty"`
	// Prev holds the requests served by the same worker just before this one: a
	// pipeline goroutine can outlive its request, so the crash may belong to them
	Prev []Case `json:"prev,omitempty"`
}

var recent []Case

var numRe = regexp.MustCompile(`0x[0-9a-f]+|\[[0-9:]+\]|\b[0-9]+\b`)

func crashSig(wk *worker.Worker) (string, string) {
	msg, frame := wk.CrashInfo()
	class := numRe.ReplaceAllString(msg, "N")
	if len(class) > 90 {
		class = class[:90]
	}
	return frame + "|" + class, msg
}

const budget = 8 * time.Second

func runCase(t pbt.TB, c Case) {
	for _, p := range c.Prev {
		p.Prev = nil
		runOne(t, p)
	}
	prev := append([]Case{}, recent...)
	c.Prev = nil
	recent = append(recent, c)
	if len(recent) > 3 {
		recent = recent[len(recent)-3:]
	}
	c.Prev = prev
	runOne(t, c)
}

func runOne(t pbt.TB, c Case) {
	pbt.Case(t)
	wk := getWorker(t)
	ctx, cancel := context.WithTimeout(context.Background(), budget)
	defer cancel()
	reached := false
	timedOut := false
	var callErr error
	q := &gripql.GraphQuery{}
	if c.Query != "" {
		if err := protojson.Unmarshal([]byte(c.Query), q); err != nil {
			t.Fatalf("harness: bad query json: %v", err)
		}
		q.Graph = c.Graph
	}
	elems := []*gripql.GraphElement{}
	for _, e := range c.Elems {
		ge := &gripql.GraphElement{}
		if err := protojson.Unmarshal([]byte(e), ge); err != nil {
			t.Fatalf("harness: bad element json: %v", err)
		}
		elems = append(elems, ge)
	}
	drain := func(recv func() error) {
		n := 0
		for {
			err := recv()
			if err == io.EOF {
				reached = true
				return
			}
			if err != nil {
				callErr = err
				return
			}
			n++
			reached = true
		}
	}
	switch c.Kind {
	case "run":
		res, herr, died, to := wk.Exec(childCmd{Graph: c.Graph, Query: c.Query}, budget)
		timedOut = to
		if !died && !to && herr == "" && strings.Contains(string(res), "rows=") {
			reached = true
		}
	case "traversal":
		s, err := wk.Srv.Query.Traversal(ctx, q)
		if err != nil {
			callErr = err
		} else {
			drain(func() error { _, e := s.Recv(); return e })
		}
	case "submit":
		_, callErr = wk.Srv.Job.Submit(ctx, q)
		reached = callErr == nil
	case "searchJobs":
		s, err := wk.Srv.Job.SearchJobs(ctx, q)
		if err != nil {
			callErr = err
		} else {
			drain(func() error { _, e := s.Recv(); return e })
		}
	case "resumeJob":
		s, err := wk.Srv.Job.ResumeJob(ctx, &gripql.ExtendQuery{SrcId: c.ID, Graph: c.Graph, Query: q.Query})
		if err != nil {
			callErr = err
		} else {
			drain(func() error { _, e := s.Recv(); return e })
		}
	case "listJobs":
		s, err := wk.Srv.Job.ListJobs(ctx, &gripql.GraphID{Graph: c.Graph})
		if err != nil {
			callErr = err
		} else {
			drain(func() error { _, e := s.Recv(); return e })
		}
	case "getJob":
		_, callErr = wk.Srv.Job.GetJob(ctx, &gripql.QueryJob{Id: c.ID, Graph: c.Graph})
	case "viewJob":
		s, err := wk.Srv.Job.ViewJob(ctx, &gripql.QueryJob{Id: c.ID, Graph: c.Graph})
		if err != nil {
			callErr = err
		} else {
			drain(func() error { _, e := s.Recv(); return e })
		}
	case "deleteJob":
		_, callErr = wk.Srv.Job.DeleteJob(ctx, &gripql.QueryJob{Id: c.ID, Graph: c.Graph})
	case "addVertex":
		for _, ge := range elems {
			_, callErr = wk.Srv.Edit.AddVertex(ctx, ge)
			reached = reached || callErr == nil
		}
	case "addEdge":
		for _, ge := range elems {
			_, callErr = wk.Srv.Edit.AddEdge(ctx, ge)
			reached = reached || callErr == nil
		}
	case "bulkAdd":
		s, err := wk.Srv.Edit.BulkAdd(ctx)
		if err != nil {
			callErr = err
			break
		}
		for _, ge := range elems {
			if err := s.Send(ge); err != nil {
				callErr = err
				break
			}
		}
		if callErr == nil {
			_, callErr = s.CloseAndRecv()
			reached = callErr == nil
		}
	case "deleteGraph":
		_, callErr = wk.Srv.Edit.DeleteGraph(ctx, &gripql.GraphID{Graph: c.Graph})
		if callErr == nil && (c.Graph == "empty" || c.Graph == "pop") {
			// the fixture is gone: check liveness now, then start over next case
			lctx, lcancel := context.WithTimeout(context.Background(), 10*time.Second)
			_, lerr := wk.Srv.Query.ListGraphs(lctx, &gripql.Empty{})
			lcancel()
			if lerr != nil && wk.WaitDead(3*time.Second) {
				sig, msg := crashSig(wk)
				killWorker()
				pbt.Discrepancy(t, c, sig, "the server process died after deleteGraph(%s): %s", c.Graph, msg)
				return
			}
			killWorker()
			return
		}
	case "addSchema":
		g := &gripql.Graph{Graph: c.Graph}
		for _, ge := range elems {
			if ge.Vertex != nil {
				g.Vertices = append(g.Vertices, ge.Vertex)
			}
			if ge.Edge != nil {
				g.Edges = append(g.Edges, ge.Edge)
			}
		}
		_, callErr = wk.Srv.Edit.AddSchema(ctx, g)
	case "getSchema":
		_, callErr = wk.Srv.Query.GetSchema(ctx, &gripql.GraphID{Graph: c.Graph})
	case "sampleSchema":
		_, callErr = wk.Srv.Edit.SampleSchema(ctx, &gripql.GraphID{Graph: c.Graph})
	case "getMapping":
		_, callErr = wk.Srv.Query.GetMapping(ctx, &gripql.GraphID{Graph: c.Graph})
	case "addIndex":
		_, callErr = wk.Srv.Edit.AddIndex(ctx, &gripql.IndexID{Graph: c.Graph, Label: c.ID, Field: c.Aux})
	case "deleteIndex":
		_, callErr = wk.Srv.Edit.DeleteIndex(ctx, &gripql.IndexID{Graph: c.Graph, Label: c.ID, Field: c.Aux})
	case "listIndices":
		_, callErr = wk.Srv.Query.ListIndices(ctx, &gripql.GraphID{Graph: c.Graph})
	case "listLabels":
		_, callErr = wk.Srv.Query.ListLabels(ctx, &gripql.GraphID{Graph: c.Graph})
	case "getTimestamp":
		_, callErr = wk.Srv.Query.GetTimestamp(ctx, &gripql.GraphID{Graph: c.Graph})
	case "getVertex":
		_, callErr = wk.Srv.Query.GetVertex(ctx, &gripql.ElementID{Graph: c.Graph, Id: c.ID})
	case "getEdge":
		_, callErr = wk.Srv.Query.GetEdge(ctx, &gripql.ElementID{Graph: c.Graph, Id: c.ID})
	case "deleteVertex":
		_, callErr = wk.Srv.Edit.DeleteVertex(ctx, &gripql.ElementID{Graph: c.Graph, Id: c.ID})
	case "deleteEdge":
		_, callErr = wk.Srv.Edit.DeleteEdge(ctx, &gripql.ElementID{Graph: c.Graph, Id: c.ID})
	default:
		t.Fatalf("harness: unknown case kind %q", c.Kind)
	}
	if callErr != nil {
		switch status.Code(callErr) {
		case codes.DeadlineExceeded, codes.Canceled:
			timedOut = true
		}
	}
	pbt.Class(t, "kind:"+c.Kind)
	if reached {
		pbt.Class(t, "reached-execution")
		pbt.Nontrivial(t, c.Kind+"|"+c.Graph+"|"+c.Query+"|"+strings.Join(c.Elems, ";")+"|"+c.ID)
	}
	// liveness: the child may need a moment to die after the connection broke
	dead := !wk.Alive()
	if !dead && callErr != nil && status.Code(callErr) == codes.Unavailable {
		dead = wk.WaitDead(3 * time.Second)
	}
	if !dead && !timedOut {
		lctx, lcancel := context.WithTimeout(context.Background(), 10*time.Second)
		_, lerr := wk.Srv.Query.ListGraphs(lctx, &gripql.Empty{})
		lcancel()
		if lerr != nil {
			dead = wk.WaitDead(3 * time.Second)
			if !dead {
				pbt.Inconclusive(t, "follow-up ListGraphs failed but the worker is alive: "+status.Code(lerr).String())
				killWorker()
				return
			}
		}
	}
	if dead {
		sig, msg := crashSig(wk)
		stderr := wk.Stderr(1500)
		killWorker()
		pbt.Discrepancy(t, c, sig, "the server process died while serving %s on graph %q: %s\n%s", c.Kind, c.Graph, msg, stderr)
		return
	}
	if timedOut {
		pbt.Inconclusive(t, "request exceeded its drain budget (hangs are judged by C07)")
		pbt.Class(t, "timeout:"+c.Kind)
		killWorker()
	}
}

func TestReplay(t *testing.T) {
	cf, ok := pbt.ReplayFile()
	if !ok {
		t.Skip("no replay file")
	}
	var c Case
	if err := json.Unmarshal(cf.Case, &c); err != nil {
		t.Fatal(err)
	}
	runCase(t, c)
}

func TestQueries(t *testing.T) {
	pbt.Check(t, 2500, 300000, func(rt *rapid.T) {
		q := genQuery(rt)
		c := Case{Kind: rapid.SampledFrom([]string{"traversal", "traversal", "run", "run", "submit"}).Draw(rt, "target"),
			Graph: rapid.SampledFrom([]string{"pop", "pop", "pop", "empty", "nosuchgraph"}).Draw(rt, "graph"), Query: toJSON(q)}
		if pbt.WantSample(rt) {
			pbt.Sample(rt, c)
		}
		runCase(rt, c)
	})
}

func TestEdits(t *testing.T) {
	pbt.Check(t, 1200, 100000, func(rt *rapid.T) {
		c := genEdit(rt)
		if pbt.WantSample(rt) {
			pbt.Sample(rt, c)
		}
		runCase(rt, c)
	})
}

func toJSON(q *gripql.GraphQuery) string {
	b, err := protojson.Marshal(q)
	if err != nil {
		panic(err)
	}
	return string(b)
}
