package c06

import (
	"context"
	"path/filepath"
	"sync"
	"testing"
	"time"

	"github.com/bmeg/grip/engine/pipeline"
	"github.com/bmeg/grip/gdbi"
	"github.com/bmeg/grip/gripql"
	"github.com/bmeg/grip/kvgraph"
	"google.golang.org/protobuf/proto"
	"google.golang.org/protobuf/types/known/structpb"
	"verif/internal/pbt"
)

var (
	fuzzOnce   sync.Once
	fuzzGraphs = map[bool]gdbi.GraphInterface{}
)

func fuzzGraph(pop bool) gdbi.GraphInterface {
	fuzzOnce.Do(func() {
		db, err := kvgraph.NewKVGraphDB("badger", filepath.Join(pbt.ScratchDir("c06fuzz-"), "db"))
		if err != nil {
			panic("INFRA: " + err.Error())
		}
		for _, g := range []string{"empty", "pop"} {
			db.AddGraph(g)
		}
		e, _ := db.Graph("empty")
		p, _ := db.Graph("pop")
		populate(func(v *gripql.Vertex) { p.AddVertex([]*gdbi.Vertex{gdbi.NewElementFromVertex(v)}) },
			func(ed *gripql.Edge) { p.AddEdge([]*gdbi.Edge{gdbi.NewElementFromEdge(ed)}) })
		fuzzGraphs[false], fuzzGraphs[true] = e, p
	})
	return fuzzGraphs[pop]
}

func lv(ss ...string) *structpb.ListValue {
	l := &structpb.ListValue{}
	for _, s := range ss {
		l.Values = append(l.Values, structpb.NewStringValue(s))
	}
	return l
}

// FuzzQueryBytes: coverage-guided search over the WIRE FORMAT itself: any byte string
// that decodes as a GraphQuery is compiled and, if accepted, run on an empty or a
// populated kvgraph in this process. The oracle is survival: a panic in the compiler
// fails the input, a panic in a pipeline goroutine kills the fuzz worker, which the
// fuzzing engine records as a failing input. mark/jump programs are left to the
// grammar generator (an unconditional cycle loops by design).
func FuzzQueryBytes(f *testing.F) {
	q := func(stmts ...*gripql.GraphStatement) []byte {
		b, err := proto.Marshal(&gripql.GraphQuery{Graph: "pop", Query: stmts})
		if err != nil {
			panic(err)
		}
		return b
	}
	V := &gripql.GraphStatement{Statement: &gripql.GraphStatement_V{}}
	E := &gripql.GraphStatement{Statement: &gripql.GraphStatement_E{}}
	has := func(k string, c gripql.Condition, v interface{}) *gripql.GraphStatement {
		sv, _ := structpb.NewValue(v)
		return &gripql.GraphStatement{Statement: &gripql.GraphStatement_Has{Has: &gripql.HasExpression{Expression: &gripql.HasExpression_Condition{Condition: &gripql.HasCondition{Key: k, Value: sv, Condition: c}}}}}
	}
	agg := func(a ...*gripql.Aggregate) *gripql.GraphStatement {
		return &gripql.GraphStatement{Statement: &gripql.GraphStatement_Aggregate{Aggregate: &gripql.Aggregations{Aggregations: a}}}
	}
	seeds := [][]byte{
		q(V), q(E), q(V, &gripql.GraphStatement{Statement: &gripql.GraphStatement_Out{Out: lv("x")}}),
		q(V, &gripql.GraphStatement{Statement: &gripql.GraphStatement_OutNull{OutNull: lv("nope")}}, &gripql.GraphStatement{Statement: &gripql.GraphStatement_HasLabel{HasLabel: lv("A")}}),
		q(V, has("k", gripql.Condition_WITHIN, []interface{}{1.0, "a"}), &gripql.GraphStatement{Statement: &gripql.GraphStatement_Count{}}),
		q(V, has("_gid", gripql.Condition_WITHIN, []interface{}{1.0})), q(E, has("w", gripql.Condition_INSIDE, []interface{}{0.0})),
		q(V, &gripql.GraphStatement{Statement: &gripql.GraphStatement_As{As: "a"}}, &gripql.GraphStatement{Statement: &gripql.GraphStatement_OutE{}},
			&gripql.GraphStatement{Statement: &gripql.GraphStatement_As{As: "b"}}, &gripql.GraphStatement{Statement: &gripql.GraphStatement_Select{Select: &gripql.SelectStatement{Marks: []string{"a", "b", "c"}}}}),
		q(V, agg(&gripql.Aggregate{Name: "h", Aggregation: &gripql.Aggregate_Histogram{Histogram: &gripql.HistogramAggregation{Field: "nope", Interval: 0}}},
			&gripql.Aggregate{Name: "h", Aggregation: &gripql.Aggregate_Term{Term: &gripql.TermAggregation{Field: "k", Size: 1}}})),
		q(E, &gripql.GraphStatement{Statement: &gripql.GraphStatement_Unwind{Unwind: "l"}}, &gripql.GraphStatement{Statement: &gripql.GraphStatement_Fields{Fields: lv("-k", "a.k")}},
			&gripql.GraphStatement{Statement: &gripql.GraphStatement_Range{Range: &gripql.Range{Start: -1, Stop: -5}}}),
		q(V, &gripql.GraphStatement{Statement: &gripql.GraphStatement_Distinct{Distinct: lv("$x.k", "_gid")}}, &gripql.GraphStatement{Statement: &gripql.GraphStatement_Path{}}),
		q(&gripql.GraphStatement{}), q(),
	}
	for _, s := range seeds {
		f.Add(s, true)
		f.Add(s, false)
	}
	f.Fuzz(func(t *testing.T, data []byte, pop bool) {
		pbt.FuzzIteration(data, pop)
		gq := &gripql.GraphQuery{}
		if err := proto.Unmarshal(data, gq); err != nil {
			t.Skip()
		}
		if len(gq.Query) > 12 {
			t.Skip()
		}
		for _, s := range gq.Query {
			switch s.GetStatement().(type) {
			case *gripql.GraphStatement_Mark, *gripql.GraphStatement_Jump:
				t.Skip()
			}
		}
		gi := fuzzGraph(pop)
		pipe, err := gi.Compiler().Compile(gq.Query, nil)
		if err != nil {
			return
		}
		// survival is the oracle; time is not (hangs are C07's). The engine kills a worker
		// whose call takes 10 s, so the call itself never waits that long: 3 s of rows, then
		// cancel, then at most 3 s more for the stream to close.
		ctx, cancel := context.WithCancel(context.Background())
		defer cancel()
		ch := pipeline.Run(ctx, pipe, pbt.ScratchDir("c06fuzzwork-"))
		soft, hard := time.After(3*time.Second), time.After(6*time.Second)
		n := 0
		for {
			select {
			case _, ok := <-ch:
				if !ok {
					return
				}
				if n++; n > 50000 {
					cancel()
				}
			case <-soft:
				cancel()
			case <-hard:
				return
			}
		}
	})
}
