package c06

import (
	"fmt"

	"github.com/bmeg/grip/gripql"
	"google.golang.org/protobuf/encoding/protojson"
	"google.golang.org/protobuf/types/known/structpb"
	"pgregory.net/rapid"
)

var (
	strPool   = []string{"v0", "v1", "v2", "e0", "e1", "A", "B", "x", "y", "k", "s", "l", "a", "a.k", "w", "m", "", "nope", "$a", "$a.k", "$b._gid", "$nope.k", "_gid", "_label", "_from", "_to", "_data", "$", "$.", ".", "a..b", "l[0]", "$._data", "__current__", "-k", "a b"}
	markNames = []string{"a", "b", "", "nope", "$a", "__current__", "m1"}
)

// genValue draws an arbitrary JSON value. Values nested in lists and structs are always
// set (protojson, the replay format, cannot carry a Value without a kind); a top-level
// value may be absent.
func genValue(t *rapid.T, depth int, lbl string) *structpb.Value {
	return genValueOpt(t, depth, lbl, false)
}

func genValueOpt(t *rapid.T, depth int, lbl string, allowUnset bool) *structpb.Value {
	hi := 8
	if allowUnset {
		hi = 9
	}
	switch rapid.IntRange(0, hi).Draw(t, lbl+".vk") {
	case 0:
		return structpb.NewNullValue()
	case 1:
		return structpb.NewBoolValue(rapid.Bool().Draw(t, lbl+".b"))
	case 2, 3:
		return structpb.NewNumberValue(rapid.SampledFrom([]float64{0, 1, -1, 0.5, 2, 1e308, -1e308, 4294967296}).Draw(t, lbl+".n"))
	case 4, 5, 6:
		return structpb.NewStringValue(rapid.SampledFrom(strPool).Draw(t, lbl+".s"))
	case 7:
		if depth <= 0 {
			return structpb.NewListValue(&structpb.ListValue{})
		}
		n := rapid.IntRange(0, 3).Draw(t, lbl+".ln")
		l := &structpb.ListValue{}
		for i := 0; i < n; i++ {
			l.Values = append(l.Values, genValue(t, depth-1, fmt.Sprintf("%s.%d", lbl, i)))
		}
		return structpb.NewListValue(l)
	case 8:
		if depth <= 0 {
			return structpb.NewStructValue(&structpb.Struct{Fields: map[string]*structpb.Value{}})
		}
		n := rapid.IntRange(0, 2).Draw(t, lbl+".mn")
		s := &structpb.Struct{Fields: map[string]*structpb.Value{}}
		for i := 0; i < n; i++ {
			s.Fields[rapid.SampledFrom(strPool).Draw(t, fmt.Sprintf("%s.key%d", lbl, i))] = genValue(t, depth-1, fmt.Sprintf("%s.f%d", lbl, i))
		}
		return structpb.NewStructValue(s)
	}
	return nil // unset value
}

func genList(t *rapid.T, lbl string) *structpb.ListValue {
	switch rapid.IntRange(0, 9).Draw(t, lbl+".lk") {
	case 0:
		return nil
	case 1:
		return &structpb.ListValue{}
	case 2:
		l := &structpb.ListValue{}
		n := rapid.IntRange(1, 3).Draw(t, lbl+".n")
		for i := 0; i < n; i++ {
			l.Values = append(l.Values, genValue(t, 1, fmt.Sprintf("%s.%d", lbl, i)))
		}
		return l
	}
	l := &structpb.ListValue{}
	n := rapid.IntRange(1, 3).Draw(t, lbl+".n")
	for i := 0; i < n; i++ {
		l.Values = append(l.Values, structpb.NewStringValue(rapid.SampledFrom(strPool).Draw(t, fmt.Sprintf("%s.s%d", lbl, i))))
	}
	return l
}

func genHas(t *rapid.T, depth int, lbl string) *gripql.HasExpression {
	k := rapid.IntRange(0, 11).Draw(t, lbl+".hk")
	switch {
	case k == 0:
		return nil
	case k == 1:
		return &gripql.HasExpression{} // no variant set
	case k <= 7 || depth <= 0:
		c := &gripql.HasCondition{Key: rapid.SampledFrom(strPool).Draw(t, lbl+".key"), Value: genValueOpt(t, 2, lbl+".val", true),
			Condition: gripql.Condition(rapid.IntRange(0, 13).Draw(t, lbl+".cond"))}
		if rapid.IntRange(0, 19).Draw(t, lbl+".nilcond") == 0 {
			return &gripql.HasExpression{Expression: &gripql.HasExpression_Condition{}}
		}
		return &gripql.HasExpression{Expression: &gripql.HasExpression_Condition{Condition: c}}
	case k <= 9:
		l := &gripql.HasExpressionList{}
		n := rapid.IntRange(0, 3).Draw(t, lbl+".n")
		for i := 0; i < n; i++ {
			l.Expressions = append(l.Expressions, genHas(t, depth-1, fmt.Sprintf("%s.%d", lbl, i)))
		}
		if rapid.IntRange(0, 9).Draw(t, lbl+".nillist") == 0 {
			l = nil
		}
		if k == 8 {
			return &gripql.HasExpression{Expression: &gripql.HasExpression_And{And: l}}
		}
		return &gripql.HasExpression{Expression: &gripql.HasExpression_Or{Or: l}}
	}
	return &gripql.HasExpression{Expression: &gripql.HasExpression_Not{Not: genHas(t, depth-1, lbl+".not")}}
}

func genAgg(t *rapid.T, lbl string) *gripql.Aggregate {
	a := &gripql.Aggregate{Name: rapid.SampledFrom([]string{"a", "a", "b", "", "c"}).Draw(t, lbl+".name")}
	field := rapid.SampledFrom(strPool).Draw(t, lbl+".field")
	switch rapid.IntRange(0, 7).Draw(t, lbl+".kind") {
	case 0:
		a.Aggregation = &gripql.Aggregate_Term{Term: &gripql.TermAggregation{Field: field, Size: rapid.SampledFrom([]uint32{0, 1, 2, 4294967295}).Draw(t, lbl+".size")}}
	case 1:
		a.Aggregation = &gripql.Aggregate_Histogram{Histogram: &gripql.HistogramAggregation{Field: field, Interval: rapid.SampledFrom([]uint32{0, 1, 5, 4294967295}).Draw(t, lbl+".interval")}}
	case 2:
		p := rapid.SliceOfN(rapid.SampledFrom([]float64{0, 50, 100, -1, 101, 1e9}), 0, 3).Draw(t, lbl+".percents")
		a.Aggregation = &gripql.Aggregate_Percentile{Percentile: &gripql.PercentileAggregation{Field: field, Percents: p}}
	case 3:
		a.Aggregation = &gripql.Aggregate_Field{Field: &gripql.FieldAggregation{Field: field}}
	case 4:
		a.Aggregation = &gripql.Aggregate_Type{Type: &gripql.TypeAggregation{Field: field}}
	case 5:
		a.Aggregation = &gripql.Aggregate_Count{Count: &gripql.CountAggregation{}}
	case 6:
		a.Aggregation = &gripql.Aggregate_Term{} // nil payload
	}
	return a
}

func genStatement(t *rapid.T, i int) *gripql.GraphStatement {
	lbl := fmt.Sprintf("s%d", i)
	gs := &gripql.GraphStatement{}
	switch rapid.IntRange(0, 33).Draw(t, lbl+".arm") {
	case 0:
		gs.Statement = &gripql.GraphStatement_V{V: genList(t, lbl)}
	case 1:
		gs.Statement = &gripql.GraphStatement_E{E: genList(t, lbl)}
	case 2:
		gs.Statement = &gripql.GraphStatement_In{In: genList(t, lbl)}
	case 3:
		gs.Statement = &gripql.GraphStatement_Out{Out: genList(t, lbl)}
	case 4:
		gs.Statement = &gripql.GraphStatement_Both{Both: genList(t, lbl)}
	case 5:
		gs.Statement = &gripql.GraphStatement_InE{InE: genList(t, lbl)}
	case 6:
		gs.Statement = &gripql.GraphStatement_OutE{OutE: genList(t, lbl)}
	case 7:
		gs.Statement = &gripql.GraphStatement_BothE{BothE: genList(t, lbl)}
	case 8:
		gs.Statement = &gripql.GraphStatement_InNull{InNull: genList(t, lbl)}
	case 9:
		gs.Statement = &gripql.GraphStatement_OutNull{OutNull: genList(t, lbl)}
	case 10:
		gs.Statement = &gripql.GraphStatement_InENull{InENull: genList(t, lbl)}
	case 11:
		gs.Statement = &gripql.GraphStatement_OutENull{OutENull: genList(t, lbl)}
	case 12:
		gs.Statement = &gripql.GraphStatement_As{As: rapid.SampledFrom(markNames).Draw(t, lbl+".as")}
	case 13:
		n := rapid.IntRange(0, 3).Draw(t, lbl+".nsel")
		sel := &gripql.SelectStatement{}
		for j := 0; j < n; j++ {
			sel.Marks = append(sel.Marks, rapid.SampledFrom(markNames).Draw(t, fmt.Sprintf("%s.sel%d", lbl, j)))
		}
		if rapid.IntRange(0, 9).Draw(t, lbl+".nilsel") == 0 {
			sel = nil
		}
		gs.Statement = &gripql.GraphStatement_Select{Select: sel}
	case 14:
		gs.Statement = &gripql.GraphStatement_Limit{Limit: rapid.SampledFrom([]uint32{0, 1, 2, 4294967295}).Draw(t, lbl+".limit")}
	case 15:
		gs.Statement = &gripql.GraphStatement_Skip{Skip: rapid.SampledFrom([]uint32{0, 1, 2, 4294967295}).Draw(t, lbl+".skip")}
	case 16:
		r := &gripql.Range{Start: rapid.SampledFrom([]int32{0, 1, -1, 5, -2147483648, 2147483647}).Draw(t, lbl+".start"), Stop: rapid.SampledFrom([]int32{0, 1, -1, 3, -5, 2147483647}).Draw(t, lbl+".stop")}
		if rapid.IntRange(0, 9).Draw(t, lbl+".nilrange") == 0 {
			r = nil
		}
		gs.Statement = &gripql.GraphStatement_Range{Range: r}
	case 17, 18:
		gs.Statement = &gripql.GraphStatement_Has{Has: genHas(t, 2, lbl)}
	case 19:
		gs.Statement = &gripql.GraphStatement_HasLabel{HasLabel: genList(t, lbl)}
	case 20:
		gs.Statement = &gripql.GraphStatement_HasKey{HasKey: genList(t, lbl)}
	case 21:
		gs.Statement = &gripql.GraphStatement_HasId{HasId: genList(t, lbl)}
	case 22:
		gs.Statement = &gripql.GraphStatement_Distinct{Distinct: genList(t, lbl)}
	case 23:
		gs.Statement = &gripql.GraphStatement_Fields{Fields: genList(t, lbl)}
	case 24:
		gs.Statement = &gripql.GraphStatement_Unwind{Unwind: rapid.SampledFrom(strPool).Draw(t, lbl+".unwind")}
	case 25:
		gs.Statement = &gripql.GraphStatement_Count{}
	case 26:
		ag := &gripql.Aggregations{}
		n := rapid.IntRange(0, 3).Draw(t, lbl+".nagg")
		for j := 0; j < n; j++ {
			ag.Aggregations = append(ag.Aggregations, genAgg(t, fmt.Sprintf("%s.agg%d", lbl, j)))
		}
		if rapid.IntRange(0, 9).Draw(t, lbl+".nilagg") == 0 {
			ag = nil
		}
		gs.Statement = &gripql.GraphStatement_Aggregate{Aggregate: ag}
	case 27:
		gs.Statement = &gripql.GraphStatement_Render{Render: genValue(t, 2, lbl+".render")}
	case 28:
		gs.Statement = &gripql.GraphStatement_Path{Path: genList(t, lbl)}
	case 29:
		gs.Statement = &gripql.GraphStatement_Mark{Mark: rapid.SampledFrom(markNames).Draw(t, lbl+".mark")}
	case 30:
		j := &gripql.Jump{Mark: rapid.SampledFrom(markNames).Draw(t, lbl+".jmark"), Emit: rapid.Bool().Draw(t, lbl+".emit")}
		// an unconditional jump loops forever by design; keep most jumps conditional on a counter
		if rapid.IntRange(0, 9).Draw(t, lbl+".jcond") < 8 {
			j.Expression = &gripql.HasExpression{Expression: &gripql.HasExpression_Condition{Condition: &gripql.HasCondition{Key: "$a.c", Value: structpb.NewNumberValue(2), Condition: gripql.Condition_LT}}}
		} else {
			j.Expression = genHas(t, 1, lbl+".jexp")
		}
		if rapid.IntRange(0, 14).Draw(t, lbl+".niljump") == 0 {
			j = nil
		}
		gs.Statement = &gripql.GraphStatement_Jump{Jump: j}
	case 31:
		s := &gripql.Set{Key: rapid.SampledFrom(strPool).Draw(t, lbl+".skey"), Value: genValueOpt(t, 1, lbl+".sval", true)}
		if rapid.IntRange(0, 9).Draw(t, lbl+".nilset") == 0 {
			s = nil
		}
		gs.Statement = &gripql.GraphStatement_Set{Set: s}
	case 32:
		inc := &gripql.Increment{Key: rapid.SampledFrom(strPool).Draw(t, lbl+".ikey"), Value: rapid.SampledFrom([]int32{1, 0, -1, 2147483647}).Draw(t, lbl+".ival")}
		if rapid.IntRange(0, 9).Draw(t, lbl+".nilinc") == 0 {
			inc = nil
		}
		gs.Statement = &gripql.GraphStatement_Increment{Increment: inc}
	default:
		// statement with no arm set
	}
	return gs
}

func genQuery(t *rapid.T) *gripql.GraphQuery {
	q := &gripql.GraphQuery{}
	n := rapid.IntRange(0, 8).Draw(t, "nstmts")
	if rapid.IntRange(0, 9).Draw(t, "properStart") < 9 {
		if rapid.Bool().Draw(t, "startV") {
			q.Query = append(q.Query, &gripql.GraphStatement{Statement: &gripql.GraphStatement_V{V: genList(t, "start")}})
		} else {
			q.Query = append(q.Query, &gripql.GraphStatement{Statement: &gripql.GraphStatement_E{E: genList(t, "start")}})
		}
		// loops need a counter on a mark to terminate
		if rapid.IntRange(0, 4).Draw(t, "loopPrelude") == 0 {
			q.Query = append(q.Query,
				&gripql.GraphStatement{Statement: &gripql.GraphStatement_Set{Set: &gripql.Set{Key: "c", Value: structpb.NewNumberValue(0)}}},
				&gripql.GraphStatement{Statement: &gripql.GraphStatement_As{As: "a"}},
				&gripql.GraphStatement{Statement: &gripql.GraphStatement_Mark{Mark: "m1"}},
				&gripql.GraphStatement{Statement: &gripql.GraphStatement_Increment{Increment: &gripql.Increment{Key: "$a.c", Value: 1}}})
		}
	}
	// templates that put the traversal into a state real requests rarely reach before
	// the arbitrary statements follow: a traveler without a current element carrying a
	// mark, or rows that are no elements (count, render, path, aggregation, selection)
	if len(q.Query) > 0 {
		switch rapid.IntRange(0, 9).Draw(t, "template") {
		case 0, 1:
			nullMove := []*gripql.GraphStatement{
				{Statement: &gripql.GraphStatement_OutNull{OutNull: genList(t, "tn")}},
				{Statement: &gripql.GraphStatement_InNull{InNull: genList(t, "tn")}},
				{Statement: &gripql.GraphStatement_OutENull{OutENull: genList(t, "tn")}},
				{Statement: &gripql.GraphStatement_InENull{InENull: genList(t, "tn")}},
				{Statement: &gripql.GraphStatement_Select{Select: &gripql.SelectStatement{Marks: []string{"nope"}}}},
			}
			q.Query = append(q.Query, nullMove[rapid.IntRange(0, len(nullMove)-1).Draw(t, "nullMove")],
				&gripql.GraphStatement{Statement: &gripql.GraphStatement_As{As: rapid.SampledFrom([]string{"a", "b"}).Draw(t, "nullMark")}})
		case 2, 3:
			term := []*gripql.GraphStatement{
				{Statement: &gripql.GraphStatement_Count{}},
				{Statement: &gripql.GraphStatement_Render{Render: structpb.NewStringValue("_gid")}},
				{Statement: &gripql.GraphStatement_Path{}},
				{Statement: &gripql.GraphStatement_Aggregate{Aggregate: &gripql.Aggregations{Aggregations: []*gripql.Aggregate{genAgg(t, "tagg")}}}},
				{Statement: &gripql.GraphStatement_As{As: "a"}},
			}
			k := rapid.IntRange(0, len(term)-1).Draw(t, "terminal")
			q.Query = append(q.Query, term[k])
			if k == 4 {
				q.Query = append(q.Query, &gripql.GraphStatement{Statement: &gripql.GraphStatement_Select{Select: &gripql.SelectStatement{Marks: []string{"a", "a"}}}})
			}
		}
	}
	for i := 0; i < n; i++ {
		gs := genStatement(t, i)
		if rapid.IntRange(0, 29).Draw(t, fmt.Sprintf("nilstmt%d", i)) == 0 {
			gs = nil
		}
		q.Query = append(q.Query, gs)
	}
	return q
}

func elemJSON(ge *gripql.GraphElement) string {
	b, err := protojson.Marshal(ge)
	if err != nil {
		panic(err)
	}
	return string(b)
}

func genStruct(t *rapid.T, lbl string) *structpb.Struct {
	switch rapid.IntRange(0, 5).Draw(t, lbl+".dk") {
	case 0:
		return nil
	case 1:
		return &structpb.Struct{}
	}
	s := &structpb.Struct{Fields: map[string]*structpb.Value{}}
	n := rapid.IntRange(0, 3).Draw(t, lbl+".n")
	for i := 0; i < n; i++ {
		s.Fields[rapid.SampledFrom(append([]string{"k", "n", "label", "v", "e", "_gid", "a.b", "$x"}, strPool[:8]...)).Draw(t, fmt.Sprintf("%s.k%d", lbl, i))] = genValue(t, 2, fmt.Sprintf("%s.v%d", lbl, i))
	}
	return s
}

func genElement(t *rapid.T, lbl string) *gripql.GraphElement {
	ge := &gripql.GraphElement{Graph: rapid.SampledFrom([]string{"pop", "pop", "empty", "nosuchgraph", "", "pop__schema__", "bad name"}).Draw(t, lbl+".graph")}
	id := rapid.SampledFrom([]string{"v0", "v9", "e0", "e9", "", "a\x00b", "x y"}).Draw(t, lbl+".id")
	label := rapid.SampledFrom([]string{"A", "x", "", "label", "v"}).Draw(t, lbl+".label")
	switch rapid.IntRange(0, 9).Draw(t, lbl+".ek") {
	case 0:
		// neither vertex nor edge
	case 1, 2, 3, 4:
		ge.Vertex = &gripql.Vertex{Gid: id, Label: label, Data: genStruct(t, lbl+".data")}
	case 5, 6, 7, 8:
		ge.Edge = &gripql.Edge{Gid: id, Label: label, From: rapid.SampledFrom([]string{"v0", "v1", "", "ghost"}).Draw(t, lbl+".from"),
			To: rapid.SampledFrom([]string{"v1", "v2", "", "ghost"}).Draw(t, lbl+".to"), Data: genStruct(t, lbl+".data")}
	default:
		ge.Vertex = &gripql.Vertex{Gid: id, Label: label}
		ge.Edge = &gripql.Edge{Gid: id, Label: label, From: "v0", To: "v1"}
	}
	return ge
}

func genEdit(t *rapid.T) Case {
	graph := rapid.SampledFrom([]string{"pop", "pop", "empty", "nosuchgraph", "", "pop__schema__", "bad name", "nosuch__schema__"}).Draw(t, "graph")
	id := rapid.SampledFrom([]string{"v0", "v9", "e0", "e9", "", "job-0", "nosuchjob", "../x"}).Draw(t, "id")
	kind := rapid.SampledFrom([]string{"addVertex", "addEdge", "bulkAdd", "bulkAdd", "bulkAdd", "addSchema", "getSchema", "sampleSchema", "getMapping", "addIndex", "deleteIndex", "listIndices",
		"listLabels", "getTimestamp", "getVertex", "getEdge", "deleteVertex", "deleteEdge", "getJob", "viewJob", "deleteJob", "resumeJob", "searchJobs", "listJobs", "deleteGraph"}).Draw(t, "kind")
	c := Case{Kind: kind, Graph: graph, ID: id}
	switch kind {
	case "addVertex", "addEdge", "addSchema":
		c.Elems = []string{elemJSON(genElement(t, "el"))}
		if kind != "addSchema" {
			c.Graph = ""
		}
	case "bulkAdd":
		n := rapid.IntRange(0, 6).Draw(t, "nelems")
		for i := 0; i < n; i++ {
			c.Elems = append(c.Elems, elemJSON(genElement(t, fmt.Sprintf("el%d", i))))
		}
	case "addIndex", "deleteIndex":
		c.ID = rapid.SampledFrom([]string{"A", "", "nolabel", "a.b"}).Draw(t, "ilabel")
		c.Aux = rapid.SampledFrom([]string{"k", "", "a.k", "$x", "_gid"}).Draw(t, "ifield")
	case "resumeJob", "searchJobs":
		c.Query = toJSON(genQuery(t))
	case "deleteGraph":
		if graph == "pop" || graph == "empty" {
			// deleting the fixtures costs a worker restart; keep it rare
			if rapid.IntRange(0, 9).Draw(t, "reallyDelete") != 0 {
				c.Graph = "nosuchgraph"
			}
		}
	}
	return c
}
