package c13

import (
	"context"
	"fmt"
	"strconv"
	"strings"
	"sync"
	"testing"
	"time"

	"github.com/bmeg/grip/gdbi"
	"pgregory.net/rapid"
	"verif/internal/pbt"
)

// ---------------------------------------------------------------------------------
// shared: lookups

func mkLookup(c *streamCase, i int) gdbi.ElementLookup {
	if pat(c.Kinds, i) == 1 {
		return gdbi.ElementLookup{Ref: &gdbi.BaseTraveler{Signal: &gdbi.Signal{ID: i, Dest: "m"}}}
	}
	return gdbi.ElementLookup{ID: strconv.Itoa(i), Ref: &gdbi.BaseTraveler{Current: &gdbi.DataElement{ID: "q" + strconv.Itoa(i)}}}
}

func lookupTok(e gdbi.ElementLookup) string {
	if e.Ref != nil && e.Ref.IsSignal() {
		return "S" + strconv.Itoa(e.Ref.GetSignal().ID)
	}
	return e.ID
}

func feedLookups(r *run, in chan gdbi.ElementLookup) {
	c := r.c
	for i := 0; i < c.N; i++ {
		c.Prod.pause(i)
		in <- mkLookup(c, i)
		r.progress.Add(1)
	}
	r.inputClosed.Store(true)
	close(in)
}

// ---------------------------------------------------------------------------------
// LookupBatcher

func runBatcher(t pbt.TB, c *streamCase) {
	in := make(chan gdbi.ElementLookup, c.InBuf)
	want := make([]string, c.N)
	for i := range want {
		want[i] = lookupTok(mkLookup(c, i))
	}
	var out chan []gdbi.ElementLookup
	s := &stream{
		want:      want,
		buffering: 100 + c.Batch + c.InBuf,
		// the batcher polls its input (select/default + sleep), it never blocks on it
		pollers: []string{"gdbi.LookupBatcher"},
		produce: func(r *run) { feedLookups(r, in) },
		consume: func(r *run) {
			i := 0
			for b := range out {
				if len(b) == 0 {
					r.note("empty-batch", "batch %d is empty", i)
				}
				if len(b) > c.Batch {
					r.note("oversize-batch", "batch %d has %d items, batch size is %d", i, len(b), c.Batch)
				}
				for _, e := range b {
					r.emit(lookupTok(e))
				}
				c.Cons.pause(i)
				i++
			}
			r.outputClosed()
		},
	}
	s.start = func() { out = gdbi.LookupBatcher(in, c.Batch, time.Duration(c.TimeoutUS)*time.Microsecond) }
	execute(t, c, s)
}

func TestLookupBatcher(t *testing.T) {
	if replayOr(t, "TestLookupBatcher") {
		return
	}
	pbt.Check(t, 600, 25000, func(rt *rapid.T) {
		c := streamCase{Comb: "LookupBatcher", Procs: genProcs(rt)}
		c.Batch = rapid.SampledFrom([]int{1, 2, 3, 7, 10, 100, 100, 500, 1000}).Draw(rt, "batch")
		// every real caller passes time.Microsecond
		c.TimeoutUS = rapid.SampledFrom([]int{1, 1, 1, 1, 1, 1, 1, 0, 50, 2000}).Draw(rt, "timeout_us")
		c.N = genN(rt, 5000, c.Batch, 100, 100+c.Batch, 101*c.Batch)
		pauses := 64
		// The idle wait is time.Sleep(timeout/4) per poll. No caller passes anything but
		// 1us; the other values are kept as short cases: 0 turns the wait into a spin
		// (a preemption slice per hand-over when GOMAXPROCS=1), 2000 costs 0.5 ms per
		// poll.
		switch {
		case c.TimeoutUS == 0 && c.Procs == 1:
			c.N, pauses = c.N%21, 4
		case c.TimeoutUS == 0:
			c.N, pauses = c.N%61, 8
		case c.TimeoutUS == 2000:
			c.N, pauses = c.N%301, 32
		case c.TimeoutUS == 50:
			c.N = c.N % 1502
		}
		c.InBuf = rapid.SampledFrom([]int{0, 1, 10, 100}).Draw(rt, "in_buf")
		c.Kinds = genPattern(rt, "signal", 8, []int{0, 0, 0, 1})
		c.Prod = genLatMax(rt, c.N, "prod", pauses)
		c.Cons = genLatMax(rt, c.N, "cons", pauses)
		sample(t, c)
		pbt.Class(rt, fmt.Sprintf("batch=%d", c.Batch))
		pbt.Class(rt, fmt.Sprintf("timeout_us=%d", c.TimeoutUS))
		if c.N > 101*c.Batch {
			pbt.Class(rt, "n>101*batch")
		}
		runCase(rt, c)
	})
}

// ---------------------------------------------------------------------------------
// DualProcessor

func dualLoaderGo(ch chan interface{}, seq, k int, l lat) {
	for j := 0; j < k; j++ {
		l.pause(seq + j)
		ch <- [2]int{seq, j}
	}
	close(ch)
}

func runDual(t pbt.TB, c *streamCase) {
	in := make(chan gdbi.ElementLookup, c.InBuf)
	var want []string
	var wantCalls []int
	for i := 0; i < c.N; i++ {
		e := mkLookup(c, i)
		if e.IsSignal() {
			want = append(want, lookupTok(e))
			continue
		}
		wantCalls = append(wantCalls, i)
		for j := 0; j < pat(c.Fan, i); j++ {
			want = append(want, fmt.Sprintf("%d/%d", i, j))
		}
	}
	var mu sync.Mutex
	var calls []int
	var cbNotes [][2]string // recorded by the callbacks, merged into the run by the consumer
	cbNote := func(symptom, format string, args ...any) {
		mu.Lock()
		cbNotes = append(cbNotes, [2]string{symptom, fmt.Sprintf(format, args...)})
		mu.Unlock()
	}
	loader := func(req gdbi.ElementLookup, load bool) chan interface{} {
		seq, _ := strconv.Atoi(req.ID)
		mu.Lock()
		calls = append(calls, seq)
		mu.Unlock()
		if load != c.Load {
			cbNote("load-flag", "loader called with load=%v, DualProcessor was given %v", load, c.Load)
		}
		if req.IsSignal() {
			cbNote("signal-loaded", "loader called for signal %s", lookupTok(req))
		}
		k := pat(c.Fan, seq)
		ch := make(chan interface{}, (seq%2)*k) // unbuffered or fully buffered
		go dualLoaderGo(ch, seq, k, c.Stage)
		return ch
	}
	deser := func(req gdbi.ElementLookup, data interface{}) gdbi.ElementLookup {
		d, ok := data.([2]int)
		seq, _ := strconv.Atoi(req.ID)
		if !ok || d[0] != seq {
			cbNote("mismatched-data", "deserializer called with request %s and data %v of another request", req.ID, data)
			return req
		}
		c.Stage.pause(seq + d[1] + 1)
		return gdbi.ElementLookup{ID: fmt.Sprintf("%d/%d", d[0], d[1]), Ref: req.Ref}
	}
	var out chan gdbi.ElementLookup
	s := &stream{
		want:      want,
		buffering: 202 + c.InBuf,
		produce:   func(r *run) { feedLookups(r, in) },
		consume: func(r *run) {
			i := 0
			for e := range out {
				tok := lookupTok(e)
				if !e.IsSignal() {
					// the output must still carry the request's traveler
					seq := strings.SplitN(tok, "/", 2)[0]
					if e.Ref == nil || e.Ref.GetCurrent() == nil || e.Ref.GetCurrent().ID != "q"+seq {
						r.note("lost-ref", "output %s does not carry its request's traveler", tok)
					}
				}
				r.emit(tok)
				c.Cons.pause(i)
				i++
			}
			mu.Lock()
			got := append([]int{}, calls...)
			notes := append([][2]string{}, cbNotes...)
			mu.Unlock()
			for _, n := range notes {
				r.note(n[0], "%s", n[1])
			}
			if fmt.Sprint(got) != fmt.Sprint(wantCalls) {
				r.note("loader-calls", "loader was called for requests %.200v, want exactly once per non-signal request in order %.200v", got, wantCalls)
			}
			r.outputClosed()
		},
	}
	s.start = func() { out = gdbi.DualProcessor(context.Background(), in, c.Load, loader, deser) }
	execute(t, c, s)
}

func TestDualProcessor(t *testing.T) {
	if replayOr(t, "TestDualProcessor") {
		return
	}
	pbt.Check(t, 500, 20000, func(rt *rapid.T) {
		c := streamCase{Comb: "DualProcessor", Procs: genProcs(rt)}
		c.Fan = genPattern(rt, "fanout", 8, []int{0, 1, 1, 2, 3})
		c.Kinds = genPattern(rt, "signal", 8, []int{0, 0, 0, 1})
		c.N = genN(rt, 3000, 50, 100, 101, 200, 202)
		c.InBuf = rapid.SampledFrom([]int{0, 1, 10, 100}).Draw(rt, "in_buf")
		c.Load = rapid.Bool().Draw(rt, "load")
		c.Prod = genLat(rt, c.N, "prod")
		c.Stage = genLat(rt, 3*c.N, "stage")
		c.Cons = genLat(rt, 2*c.N, "cons")
		sample(t, c)
		runCase(rt, c)
	})
}
