package c13

import (
	"fmt"
	"testing"

	"github.com/bmeg/grip/gripper"
	"pgregory.net/rapid"
	"verif/internal/pbt"
)

// ChannelMux with synthetic pipelines shaped like the real ones (gripper/graph.go:
// copyPipeline and rowRequestVertexPipeline: buffered in, one worker, buffered out) that
// answer every request exactly once.

type muxAnswer struct{ Seq, Pipe int }

func muxWorker(p int, in, out chan interface{}, l lat, closeOut bool) {
	for v := range in {
		seq := v.(int)
		l.pause(seq)
		out <- muxAnswer{Seq: seq, Pipe: p}
	}
	if closeOut {
		close(out) // rowRequestVertexPipeline closes its output, copyPipeline does not
	}
}

func runMux(t pbt.TB, c *streamCase) {
	npipes := max(1, c.Workers)
	var mux *gripper.ChannelMux
	var out <-chan interface{}
	want := make([]string, c.N)
	for i := range want {
		want[i] = fmt.Sprintf("%d@%d", i, pat(c.Route, i)%npipes)
	}
	s := &stream{
		want:      want,
		buffering: gripper.QueueSize*5 + gripper.QueueSize + npipes*(2*c.PipeBuf+1) + 1,
		produce: func(r *run) {
			ids := make([]int, npipes)
			for p := range ids {
				ids[p] = -1
			}
			add := func(p int) {
				in := make(chan interface{}, c.PipeBuf)
				po := make(chan interface{}, c.PipeBuf)
				go muxWorker(p, in, po, c.Stage, p%2 == 0)
				ids[p], _ = mux.AddPipeline(in, po)
			}
			if !c.Lazy {
				for p := range ids {
					add(p)
				}
			}
			for i := 0; i < c.N; i++ {
				p := pat(c.Route, i) % npipes
				if ids[p] < 0 {
					add(p)
				}
				c.Prod.pause(i)
				mux.Put(ids[p], i)
				r.progress.Add(1)
			}
			r.inputClosed.Store(true)
			mux.Close()
		},
		consume: func(r *run) {
			i := 0
			for v := range out {
				if a, ok := v.(muxAnswer); ok {
					r.emit(fmt.Sprintf("%d@%d", a.Seq, a.Pipe))
				} else {
					r.emit(fmt.Sprintf("%#v", v))
				}
				c.Cons.pause(i)
				i++
			}
			r.outputClosed()
		},
	}
	s.start = func() { mux = gripper.NewChannelMux(); out = mux.GetOutChannel() }
	execute(t, c, s)
}

func TestChannelMux(t *testing.T) {
	if replayOr(t, "TestChannelMux") {
		return
	}
	q := gripper.QueueSize
	pbt.Check(t, 600, 25000, func(rt *rapid.T) {
		c := streamCase{Comb: "ChannelMux", Procs: genProcs(rt)}
		c.Workers = rapid.IntRange(1, 4).Draw(rt, "pipelines")
		if rapid.IntRange(0, 5).Draw(rt, "manyPipelines") == 0 {
			// around and beyond the size the mux preallocates its pipeline table with
			c.Workers = rapid.SampledFrom([]int{8, q - 1, q, q + 1, q + 14}).Draw(rt, "pipelinesMany")
		}
		c.PipeBuf = rapid.SampledFrom([]int{0, 1, 10}).Draw(rt, "pipe_buf")
		c.Lazy = rapid.Bool().Draw(rt, "lazy")
		c.N = genN(rt, 5000, 10, q, 5*q, 6*q, 6*q+c.Workers*(2*c.PipeBuf+1)+1)
		route := make([]int, c.Workers)
		for i := range route {
			route[i] = i
		}
		c.Route = genPattern(rt, "route", max(16, 2*c.Workers), route)
		c.Prod = genLat(rt, c.N, "prod")
		c.Stage = genLat(rt, c.N, "stage")
		c.Cons = genLat(rt, c.N, "cons")
		sample(t, c)
		if c.Workers > q {
			pbt.Class(rt, "pipelines>preallocated-table")
		} else if c.Workers > 4 {
			pbt.Class(rt, "pipelines=5.."+fmt.Sprint(q))
		} else {
			pbt.Class(rt, fmt.Sprintf("pipelines=%d", c.Workers))
		}
		runCase(rt, c)
	})
}
