package c13

import (
	"testing"

	"verif/internal/pbt"
)

// One small fixed case per known finding (see findings/*.md and /verif/known/C13.json).
// They run through the same runCase as the generated cases: while the finding is listed
// as open they print its KNOWN-FINDING line, once it is fixed they must simply hold.

// A:nosuchrow, B:r1, A:r2 -> the mux hands A's only answer (r2) to the slot of the
// unanswered request, so r2 overtakes B:r1.
var knownReorder = streamCase{Comb: "GripperVertexChannel", N: 3, Workers: 2, Procs: 2, Route: []int{0, 1, 0}, MissingAt: []int{0}}

// A:nosuchrow followed by 400 lookups in table B: runMux waits for A's answer,
// messageOrder (250) fills, Put blocks, the input is never drained.
var knownStall = func() streamCase {
	c := streamCase{Comb: "GripperVertexChannel", N: 401, Workers: 2, Procs: 2, MissingAt: []int{0}, BudgetMS: 1500}
	c.Route = make([]int, c.N)
	for i := 1; i < c.N; i++ {
		c.Route[i] = 1
	}
	return c
}()

func TestKnownMuxNoAnswerReorder(t *testing.T) {
	if replayOr(t, "TestKnownMuxNoAnswerReorder") {
		return
	}
	if pbt.Shard() != 0 {
		t.Skip("shard 0 only")
	}
	runCase(t, knownReorder)
}

func TestKnownMuxNoAnswerStalls(t *testing.T) {
	if replayOr(t, "TestKnownMuxNoAnswerStalls") {
		return
	}
	if pbt.Shard() != 0 {
		t.Skip("shard 0 only")
	}
	runCase(t, knownStall)
}
