// Package c13: internal stream combinators preserve order and multiplicity.
//
// One test per combinator; every case is a streamCase (JSON) that fixes the input
// length, the combinator's parameters, GOMAXPROCS and the latency patterns of the
// producer, of the harness-supplied stage callbacks and of the consumer. runCase drives
// the real combinator with harness goroutines on both ends, records the output as a
// sequence of tokens, and compares it with the tokens the input stands for. Whether a
// stream that has not closed is stuck is decided by internal/quiesce, never by a timeout.
package c13

import (
	"encoding/json"
	"fmt"
	"io"
	stdlog "log"
	"os"
	"runtime"
	"sort"
	"strings"
	"sync"
	"sync/atomic"
	"testing"
	"time"

	"pgregory.net/rapid"
	"verif/internal/pbt"
	"verif/internal/quiesce"
)

func TestMain(m *testing.M) {
	stdlog.SetOutput(io.Discard) // gripper.SimpleTableServicer logs every row request
	code := pbt.Main(m, pbt.Meta{
		Property: "C13",
		Level:    "exploration",
		Rule: "random cases per combinator (jobstorage.MarshalStream, jobstorage.UnmarshalStream [alone and chained behind MarshalStream], gripper.ChannelMux with synthetic always-answering pipelines, " +
			"gripper ChannelMux as deployed in TabularGraph.GetVertexChannel over an in-process table server, gdbi.LookupBatcher, gdbi.DualProcessor, engine/queue.New): " +
			"input length drawn from {0,1,2,b-1,b,b+1,2b-1,2b,2b+1,3b+1 for every worker/batch/buffer size b of the combinator, T-1,T,T+1,2T+1 for its total buffering T} or uniformly up to 5000; " +
			"worker count 1-8 / 1-4 pipelines / batch 1-1000 / loader fan-out 0-3; GOMAXPROCS in {1,2,16}; cyclic latency patterns (0-300us sleeps, runtime.Gosched) for producer, stage callbacks and consumer. " +
			"A case is non-trivial when its length exceeds the combinator's total channel buffering T (MarshalStream/UnmarshalStream 31w+2; ChannelMux 300+sum of pipeline buffers; LookupBatcher 100+batch; DualProcessor 202 outputs; queue 102) " +
			"and at least one latency entry is non-zero; distinct = distinct case JSON.",
		Assumptions: []string{
			"only inputs the real callers can produce: worker count >= 1 (jobstorage uses 4), batch size >= 1 (psql 100, elastic 500, mongo configurable, default 1000), one producer goroutine per combinator, loader channels that are closed by the loader, non-nil travelers",
			"ChannelMux with synthetic pipelines is only given pipelines that answer every request exactly once (its stated protocol); requests without an answer are exercised through the real caller chain (TabularGraph.GetVertexChannel -> rowRequestVertexPipeline -> GripperClient.GetRowsByID -> SimpleTableServicer over bufconn), where a lookup of a missing row is such a request",
			"traveler payloads are JSON values as structpb delivers them (float64, string, bool, nil, lists, maps; valid UTF-8; finite numbers)",
			"schedules are sampled (latency patterns x GOMAXPROCS), not enumerated; data races without an observable effect in a non-race build (queue.New's `closed` flag) are not judged here",
		},
	})
	os.Exit(code)
}

// harness goroutines carry this prefix in their function names
const harnessPkg = "verif/c13."

// ---------------------------------------------------------------------------------
// latency patterns

// lat is a cyclic latency pattern: item i pauses Vec[(i/Stride)%len(Vec)] when
// i%Stride==0. Entries: 0 none, -1 runtime.Gosched(), >0 sleep that many microseconds.
type lat struct {
	Vec    []int `json:"vec,omitempty"`
	Stride int   `json:"stride,omitempty"`
}

func (l lat) pause(i int) {
	if len(l.Vec) == 0 {
		return
	}
	s := l.Stride
	if s < 1 {
		s = 1
	}
	if i%s != 0 {
		return
	}
	switch v := l.Vec[(i/s)%len(l.Vec)]; {
	case v < 0:
		runtime.Gosched()
	case v > 0:
		time.Sleep(time.Duration(v) * time.Microsecond)
	}
}

func (l lat) nonzero() bool {
	for _, v := range l.Vec {
		if v != 0 {
			return true
		}
	}
	return false
}

var latValues = []int{0, 0, 0, -1, -1, 1, 20, 100, 300}

// genLat draws a pattern whose total number of pauses over n items stays near 64.
func genLat(rt *rapid.T, n int, label string) lat { return genLatMax(rt, n, label, 64) }

// genLatMax: same with an explicit bound on the number of pauses (combinators that spin
// instead of blocking pay a scheduler time slice per pause when GOMAXPROCS=1).
func genLatMax(rt *rapid.T, n int, label string, maxPauses int) lat {
	k := rapid.IntRange(0, 5).Draw(rt, label+"_len")
	if k == 0 {
		return lat{}
	}
	v := make([]int, k)
	for i := range v {
		v[i] = rapid.SampledFrom(latValues).Draw(rt, label)
	}
	stride := 1
	if n > maxPauses {
		stride = n/maxPauses + 1
	}
	return lat{Vec: v, Stride: stride}
}

// ---------------------------------------------------------------------------------
// the case

type streamCase struct {
	Comb      string `json:"combinator"`
	N         int    `json:"n"`
	Workers   int    `json:"workers,omitempty"`    // serializer workers / mux pipelines / tables
	Batch     int    `json:"batch,omitempty"`      // LookupBatcher batch size
	TimeoutUS int    `json:"timeout_us,omitempty"` // LookupBatcher timeout
	Procs     int    `json:"gomaxprocs"`
	InBuf     int    `json:"in_buf"` // capacity of the channel the harness feeds
	Prod      lat    `json:"producer_latency"`
	Stage     lat    `json:"stage_latency"`
	Cons      lat    `json:"consumer_latency"`
	Kinds     []int  `json:"kinds,omitempty"`      // cyclic: traveler kind per item (serializer), 1 = signal (queue, dual, gripper)
	Route     []int  `json:"route,omitempty"`      // cyclic: pipeline / table per item
	Fan       []int  `json:"fanout,omitempty"`     // cyclic: loader fan-out per request (DualProcessor)
	MissingAt []int  `json:"missing_at,omitempty"` // gripper: positions whose row does not exist
	Chain     bool   `json:"chain,omitempty"`      // UnmarshalStream fed by MarshalStream
	Lazy      bool   `json:"lazy,omitempty"`       // ChannelMux: pipelines added at first use (as GetVertexChannel does)
	PipeBuf   int    `json:"pipe_buf,omitempty"`   // ChannelMux: buffer of the synthetic pipelines' channels
	Load      bool   `json:"load,omitempty"`       // DualProcessor: the load flag handed through
	// budget for the quiescence detector in ms (0 = default); confirmation tests of known
	// hangs use a short one
	BudgetMS int `json:"budget_ms,omitempty"`
}

func (c streamCase) key() string {
	b, _ := json.Marshal(c)
	return string(b)
}

func pat(p []int, i int) int {
	if len(p) == 0 {
		return 0
	}
	return p[i%len(p)]
}

func (c streamCase) anyLatency() bool {
	return c.Prod.nonzero() || c.Stage.nonzero() || c.Cons.nonzero()
}

// genN draws an input length around the given sizes (see Meta.Rule).
func genN(rt *rapid.T, max int, sizes ...int) int {
	cand := []int{0, 1, 2}
	for _, b := range sizes {
		cand = append(cand, b-1, b, b+1, 2*b-1, 2*b, 2*b+1, 3*b+1)
	}
	ok := cand[:0]
	for _, x := range cand {
		if x >= 0 && x <= max {
			ok = append(ok, x)
		}
	}
	switch r := rapid.IntRange(0, 9).Draw(rt, "n_mode"); {
	case r < 6:
		return rapid.SampledFrom(ok).Draw(rt, "n")
	case r < 9:
		return rapid.IntRange(0, min(max, 400)).Draw(rt, "n")
	}
	return rapid.IntRange(0, max).Draw(rt, "n")
}

func genProcs(rt *rapid.T) int { return rapid.SampledFrom([]int{1, 2, 16}).Draw(rt, "gomaxprocs") }

func genPattern(rt *rapid.T, label string, maxLen int, vals []int) []int {
	k := rapid.IntRange(1, maxLen).Draw(rt, label+"_len")
	out := make([]int, k)
	for i := range out {
		out[i] = rapid.SampledFrom(vals).Draw(rt, label)
	}
	return out
}

// ---------------------------------------------------------------------------------
// running a stream

// run is the shared state of one execution.
type run struct {
	c           *streamCase
	progress    atomic.Int64
	inputClosed atomic.Bool // set by the producer immediately before it closes the input
	mu          sync.Mutex
	got         []string // output tokens, in arrival order
	notes       []string // judged by the combinator-specific code: "symptom|detail"
	closedEarly bool     // output closed while inputClosed was still false
}

func (r *run) emit(tok string) {
	r.mu.Lock()
	r.got = append(r.got, tok)
	r.mu.Unlock()
	r.progress.Add(1)
}

func (r *run) note(symptom, format string, args ...any) {
	r.mu.Lock()
	r.notes = append(r.notes, symptom+"|"+fmt.Sprintf(format, args...))
	r.mu.Unlock()
}

// outputClosed is called by the consumer when it sees the output closed.
func (r *run) outputClosed() {
	if !r.inputClosed.Load() {
		r.mu.Lock()
		r.closedEarly = true
		r.mu.Unlock()
	}
}

var devNull, _ = os.OpenFile(os.DevNull, os.O_WRONLY, 0)

const defaultBudget = 10 * time.Second

// stream is what a combinator-specific function hands to execute.
type stream struct {
	// start creates the combinator under test (after the goroutine baseline was taken
	// and GOMAXPROCS was set).
	start func()
	// produce feeds all items (with the producer latency), then sets r.inputClosed and
	// closes the input. Runs in its own harness goroutine.
	produce func(r *run)
	// consume reads the output until it is closed, calling r.emit per item and
	// r.outputClosed at the end. Runs in its own harness goroutine.
	consume func(r *run)
	// want is the token sequence the input stands for.
	want []string
	// pollers: grip functions that wait by polling (see quiesce.WithPollers)
	pollers []string
	// quietStdout: the combinator prints to stdout (engine/queue)
	quietStdout bool
	// buffering is the combinator's total channel buffering T for the non-trivial rule
	buffering int
	// noAnswer: the case contains requests that get no answer (gripper only); changes
	// the symptom names
	noAnswer bool
}

func producerGo(s *stream, r *run, wg *sync.WaitGroup) { defer wg.Done(); s.produce(r) }
func consumerGo(s *stream, r *run, wg *sync.WaitGroup) { defer wg.Done(); s.consume(r) }

// execute runs the stream under the case's GOMAXPROCS and judges it.
func execute(t pbt.TB, c *streamCase, s *stream) {
	pbt.Case(t)
	pbt.Current(t, c)
	classify(t, c, s)

	opts := []quiesce.Option{quiesce.AlsoFilter(harnessPkg), quiesce.WithPollers(s.pollers...)}
	baseline := quiesce.GripGoroutines(opts...)

	prev := runtime.GOMAXPROCS(c.Procs)
	defer runtime.GOMAXPROCS(prev)
	// engine/queue prints two lines per stream; keep them out of the shard log (the
	// swap is undone before anything is judged, so KNOWN-FINDING lines are not lost)
	var savedStdout *os.File
	if s.quietStdout && devNull != nil {
		savedStdout = os.Stdout
		os.Stdout = devNull
		defer func() { os.Stdout = savedStdout }()
	}

	r := &run{c: c}
	s.start()
	var wg sync.WaitGroup
	wg.Add(2)
	done := make(chan struct{})
	go consumerGo(s, r, &wg)
	go producerGo(s, r, &wg)
	go func() { wg.Wait(); close(done) }()

	budget := defaultBudget
	if c.BudgetMS > 0 {
		budget = time.Duration(c.BudgetMS) * time.Millisecond
	}
	t0 := time.Now()
	rep := quiesce.WaitReport(done, r.progress.Load, budget, opts...)
	if d := time.Since(t0); d > 250*time.Millisecond {
		pbt.Class(t, "slow>250ms")
		if os.Getenv("VERIF_C13_TIMING") != "" {
			fmt.Fprintf(os.Stderr, "SLOW %v %s\n", d, c.key())
		}
	}
	runtime.GOMAXPROCS(prev)
	if savedStdout != nil {
		os.Stdout = savedStdout
	}
	switch rep.Verdict {
	case quiesce.Inconclusive:
		pbt.Inconclusive(t, "budget expired, hang not confirmed: "+firstWord(rep.Reason))
		select {
		case <-done:
		case <-time.After(2 * time.Minute):
			t.Fatalf("INFRA: %s case neither finished nor provably hung after %v (+2m): %s\n%s", c.Comb, budget, rep.Reason, rep.Stacks())
		}
	case quiesce.Hang:
		r.mu.Lock()
		got := append([]string{}, r.got...)
		r.mu.Unlock()
		symptom := "stalls"
		if sameSeq(got, s.want) {
			symptom = "never-closes"
		}
		if s.noAnswer {
			symptom = "no-answer-" + symptom
		}
		pbt.Discrepancy(t, c, sigComb(c)+":"+symptom,
			"%s: stream is stuck after %d of %d expected outputs (input closed by producer: %v). %s\n%s",
			c.Comb, len(got), len(s.want), r.inputClosed.Load(), rep.Reason, rep.Stacks())
		return
	}

	// the stream ended: compare
	if !judge(t, c, s, r) {
		return
	}
	// goroutines released?
	left, blocked := quiesce.Leaks(baseline, 5*time.Second, opts...)
	if len(left) > 0 {
		if blocked {
			// parked now; a leak only if they are still parked a second later
			left, blocked = quiesce.Leaks(baseline, time.Second, opts...)
			if len(left) == 0 {
				return
			}
		}
		if !blocked {
			pbt.Inconclusive(t, "goroutines still running after the grace period")
			return
		}
		pbt.Discrepancy(t, c, sigComb(c)+":goroutine-leak", "%s: output closed after all %d items but %d goroutines are still parked:\n%s",
			c.Comb, len(s.want), len(left), quiesce.Render(left, 12))
	}
}

func firstWord(s string) string {
	if i := strings.IndexAny(s, ":("); i > 0 {
		return strings.TrimSpace(s[:i])
	}
	return s
}

// sigComb: the combinator named in signatures (the gripper chain is judged as the
// ChannelMux deployment it is).
func sigComb(c *streamCase) string {
	if c.Comb == "GripperVertexChannel" {
		return "ChannelMux"
	}
	return c.Comb
}

func sameSeq(a, b []string) bool {
	if len(a) != len(b) {
		return false
	}
	for i := range a {
		if a[i] != b[i] {
			return false
		}
	}
	return true
}

func sameMultiset(a, b []string) bool {
	if len(a) != len(b) {
		return false
	}
	x := append([]string{}, a...)
	y := append([]string{}, b...)
	sort.Strings(x)
	sort.Strings(y)
	return sameSeq(x, y)
}

func clip(xs []string, at int) string {
	lo := max(0, at-3)
	hi := min(len(xs), at+4)
	return fmt.Sprintf("[%d..%d)=%v", lo, hi, xs[lo:hi])
}

// judge compares the recorded output with the expectation. Returns false when a
// discrepancy (known or not) was reported.
func judge(t pbt.TB, c *streamCase, s *stream, r *run) bool {
	r.mu.Lock()
	got, notes, early := r.got, r.notes, r.closedEarly
	r.mu.Unlock()
	prefix := ""
	if s.noAnswer {
		prefix = "no-answer-"
	}
	for _, n := range notes {
		i := strings.Index(n, "|")
		pbt.Discrepancy(t, c, sigComb(c)+":"+n[:i], "%s: %s", c.Comb, n[i+1:])
		return false
	}
	if early {
		pbt.Discrepancy(t, c, sigComb(c)+":"+prefix+"closes-early", "%s: output closed before the producer closed the input (%d of %d outputs seen)", c.Comb, len(got), len(s.want))
		return false
	}
	if sameSeq(got, s.want) {
		return true
	}
	at := 0
	for at < len(got) && at < len(s.want) && got[at] == s.want[at] {
		at++
	}
	symptom := ""
	switch {
	case sameMultiset(got, s.want):
		symptom = "reorder"
	default:
		seen := map[string]int{}
		for _, g := range got {
			seen[g]++
		}
		wantc := map[string]int{}
		for _, w := range s.want {
			wantc[w]++
		}
		lost, dup, alien := 0, 0, 0
		for w, n := range wantc {
			if seen[w] < n {
				lost++
			}
		}
		for g, n := range seen {
			if wantc[g] == 0 {
				alien++
			} else if n > wantc[g] {
				dup++
			}
		}
		switch {
		case alien > 0:
			symptom = "spurious-output"
		case dup > 0:
			symptom = "duplicate"
		case lost > 0:
			symptom = "lost"
		}
	}
	pbt.Discrepancy(t, c, sigComb(c)+":"+prefix+symptom,
		"%s: output differs from input at position %d: got %d items %s, want %d items %s",
		c.Comb, at, len(got), clip(got, at), len(s.want), clip(s.want, at))
	return false
}

func classify(t pbt.TB, c *streamCase, s *stream) {
	switch {
	case c.N == 0:
		pbt.Class(t, "n=0")
	case c.N == 1:
		pbt.Class(t, "n=1")
	case len(s.want) <= s.buffering:
		pbt.Class(t, "n<=buffering")
	default:
		pbt.Class(t, "n>buffering")
	}
	pbt.Class(t, fmt.Sprintf("gomaxprocs=%d", c.Procs))
	if c.Prod.nonzero() {
		pbt.Class(t, "latency:producer")
	}
	if c.Stage.nonzero() {
		pbt.Class(t, "latency:stage")
	}
	if c.Cons.nonzero() {
		pbt.Class(t, "latency:consumer")
	}
	if !c.anyLatency() {
		pbt.Class(t, "latency:none")
	}
	if len(s.want) > s.buffering && c.anyLatency() {
		pbt.Nontrivial(t, c.key())
	}
}

// ---------------------------------------------------------------------------------
// dispatch + replay

func runCase(t pbt.TB, c streamCase) {
	switch c.Comb {
	case "MarshalStream":
		runMarshal(t, &c)
	case "UnmarshalStream":
		runUnmarshal(t, &c)
	case "ChannelMux":
		runMux(t, &c)
	case "GripperVertexChannel":
		runGripper(t, &c)
	case "LookupBatcher":
		runBatcher(t, &c)
	case "DualProcessor":
		runDual(t, &c)
	case "Queue":
		runQueue(t, &c)
	default:
		t.Fatalf("INFRA: unknown combinator %q", c.Comb)
	}
}

// replayRuns: outcomes depend on the schedule, so a stored case is re-run this often.
const replayRuns = 20

// replayOr runs the stored case (K times) when the process is in replay mode and the
// case belongs to the named test; otherwise it reports false and the caller generates.
func replayOr(t *testing.T, name string) bool {
	cf, ok := pbt.ReplayFile()
	if !ok {
		return false
	}
	if cf.Test != name {
		t.Skip()
	}
	var c streamCase
	if err := json.Unmarshal(cf.Case, &c); err != nil {
		t.Fatal(err)
	}
	for k := 0; k < replayRuns; k++ {
		runCase(t, c)
	}
	return true
}

func sample(t pbt.TB, c streamCase) {
	if pbt.WantSample(t) {
		pbt.Sample(t, c)
	}
}
