package c13

import (
	"testing"

	"github.com/bmeg/grip/engine/queue"
	"github.com/bmeg/grip/gdbi"
	"pgregory.net/rapid"
	"verif/internal/pbt"
)

// engine/queue.New as used by logic.Jump (engine/logic/jump.go:145-153): Jump.Process
// is the only writer of GetInput() (travelers and the mark's signals, never nil) and
// closes it when its own input ends; JumpMark reads GetOutput().

func queueItem(c *streamCase, i int) *gdbi.BaseTraveler {
	if pat(c.Kinds, i) == 1 {
		return mkTraveler(kSignal, i)
	}
	return mkTraveler(kVertex, i)
}

func runQueue(t pbt.TB, c *streamCase) {
	var q queue.Queue
	want := make([]string, c.N)
	for i := range want {
		want[i] = seqOf(queueItem(c, i))
	}
	s := &stream{
		want:        want,
		buffering:   102, // input 50 + output 50 + one item in each goroutine's hand; the slice between them is unbounded
		quietStdout: true,
		// the output side spins on the slice (no blocking wait)
		pollers: []string{"engine/queue.New"},
		start:   func() { q = queue.New() },
		produce: func(r *run) {
			in := q.GetInput()
			for i := 0; i < c.N; i++ {
				c.Prod.pause(i)
				in <- queueItem(c, i)
				r.progress.Add(1)
			}
			r.inputClosed.Store(true)
			close(in)
		},
		consume: func(r *run) {
			i := 0
			for tr := range q.GetOutput() {
				r.emit(seqOf(tr))
				c.Cons.pause(i)
				i++
			}
			r.outputClosed()
		},
	}
	execute(t, c, s)
}

func TestQueue(t *testing.T) {
	if replayOr(t, "TestQueue") {
		return
	}
	pbt.Check(t, 400, 15000, func(rt *rapid.T) {
		c := streamCase{Comb: "Queue"}
		c.Procs = rapid.SampledFrom([]int{1, 2, 2, 16, 16, 16}).Draw(rt, "gomaxprocs")
		c.N = genN(rt, 5000, 50, 100, 102, 1000)
		pauses := 64
		if c.Procs == 1 {
			// the output goroutine spins on the slice; with a single P every pause of the
			// producer or consumer hands the P to the spinner for a full preemption slice
			// (10-20 ms). Keep such cases affordable: few pauses, moderate length.
			pauses = 6
			if c.N > 1100 {
				c.N = 1001 + c.N%100
			}
		}
		c.Kinds = genPattern(rt, "signal", 8, []int{0, 0, 0, 1})
		c.Prod = genLatMax(rt, c.N, "prod", pauses)
		c.Cons = genLatMax(rt, c.N, "cons", pauses)
		sample(t, c)
		if c.N > 1000 {
			pbt.Class(rt, "n>initial-slice-capacity")
		}
		runCase(rt, c)
	})
}
