package c13

import (
	"context"
	"fmt"
	"net"
	"sort"
	"strconv"
	"sync"
	"testing"

	"github.com/bmeg/grip/gdbi"
	"github.com/bmeg/grip/gripper"
	"google.golang.org/grpc"
	"google.golang.org/grpc/credentials/insecure"
	"google.golang.org/grpc/test/bufconn"
	"pgregory.net/rapid"
	"verif/internal/pbt"
)

// ChannelMux as deployed: TabularGraph.GetVertexChannel (gripper/graph.go:457) routes
// every lookup to one rowRequestVertexPipeline per vertex table (signals to a
// copyPipeline) through a ChannelMux. The tables are served by the repository's own
// SimpleTableServicer over an in-process gRPC connection. A lookup whose row does not
// exist is a request the table server does not answer (gripper/server.go:102), which is
// how a real caller presents ChannelMux with a request without an answer.

const (
	nTables      = 4
	rowsPerTable = 30
)

var (
	fixOnce  sync.Once
	fixGraph *gripper.TabularGraph
	fixErr   error
)

func tablePrefix(p int) string { return string(rune('A'+p)) + ":" }

func fixture() (*gripper.TabularGraph, error) {
	fixOnce.Do(func() {
		drivers := map[string]gripper.Driver{}
		conf := gripper.GraphConfig{Vertices: map[string]gripper.VertexConfig{}, Edges: map[string]gripper.EdgeConfig{}}
		for p := 0; p < nTables; p++ {
			rows := map[string]*gripper.BaseRow{}
			for k := 0; k < rowsPerTable; k++ {
				id := "r" + strconv.Itoa(k)
				rows[id] = &gripper.BaseRow{Key: id, Value: map[string]interface{}{"name": fmt.Sprintf("%s%d", tablePrefix(p), k), "k": float64(k)}}
			}
			name := "t" + strconv.Itoa(p)
			drivers[name] = gripper.NewDriverPreload(rows, nil)
			conf.Vertices[tablePrefix(p)] = gripper.VertexConfig{Gid: tablePrefix(p), Label: "L" + strconv.Itoa(p),
				Data: gripper.ElementConfig{Source: "src", Collection: name}}
		}
		lis := bufconn.Listen(1 << 20)
		srv := grpc.NewServer()
		gripper.RegisterGRIPSourceServer(srv, gripper.NewSimpleTableServer(drivers))
		go srv.Serve(lis)
		conn, err := grpc.Dial("bufnet",
			grpc.WithContextDialer(func(ctx context.Context, _ string) (net.Conn, error) { return lis.DialContext(ctx) }),
			grpc.WithTransportCredentials(insecure.NewCredentials()))
		if err != nil {
			fixErr = err
			return
		}
		fixGraph, fixErr = gripper.NewTabularGraph(conf, map[string]gripper.GRIPSourceClient{"src": gripper.NewGRIPSourceClient(conn)})
	})
	return fixGraph, fixErr
}

const unknownTable = 9 // Route value: an id no vertex table claims

func gripperLookup(c *streamCase, i int, missing map[int]bool) (gdbi.ElementLookup, string) {
	if pat(c.Kinds, i) == 1 {
		return gdbi.ElementLookup{Ref: &gdbi.BaseTraveler{Signal: &gdbi.Signal{ID: i, Dest: "m"}}}, "S" + strconv.Itoa(i)
	}
	ref := &gdbi.BaseTraveler{Current: &gdbi.DataElement{ID: "q" + strconv.Itoa(i)}}
	rt := pat(c.Route, i)
	if rt == unknownTable {
		return gdbi.ElementLookup{ID: "Z:r1", Ref: ref}, ""
	}
	p := rt % max(1, c.Workers)
	if missing[i] {
		return gdbi.ElementLookup{ID: tablePrefix(p) + "nosuchrow" + strconv.Itoa(i), Ref: ref}, ""
	}
	id := tablePrefix(p) + "r" + strconv.Itoa(i%rowsPerTable)
	return gdbi.ElementLookup{ID: id, Ref: ref}, strconv.Itoa(i) + ":" + id
}

func runGripper(t pbt.TB, c *streamCase) {
	g, err := fixture()
	if err != nil {
		t.Fatalf("INFRA: gripper fixture: %v", err)
	}
	missing := map[int]bool{}
	for _, m := range c.MissingAt {
		if m < c.N && pat(c.Kinds, m) != 1 && pat(c.Route, m) != unknownTable {
			missing[m] = true
		}
	}
	var want []string
	for i := 0; i < c.N; i++ {
		if _, tok := gripperLookup(c, i, missing); tok != "" {
			want = append(want, tok)
		}
	}
	in := make(chan gdbi.ElementLookup, c.InBuf)
	var out chan gdbi.ElementLookup
	ctx, cancel := context.WithCancel(context.Background())
	defer cancel() // releases the gRPC streams of a stuck case
	s := &stream{
		want:      want,
		noAnswer:  len(missing) > 0,
		buffering: gripper.QueueSize*6 + 10 + c.InBuf + 1, // messageOrder + outChannel + out
		start:     func() { out = g.GetVertexChannel(ctx, in, true) },
		produce: func(r *run) {
			for i := 0; i < c.N; i++ {
				e, _ := gripperLookup(c, i, missing)
				c.Prod.pause(i)
				in <- e
				r.progress.Add(1)
			}
			r.inputClosed.Store(true)
			close(in)
		},
		consume: func(r *run) {
			i := 0
			for e := range out {
				switch {
				case e.IsSignal():
					r.emit("S" + strconv.Itoa(e.Ref.GetSignal().ID))
				case e.Ref == nil || e.Ref.GetCurrent() == nil:
					r.emit("?:" + e.ID)
				case e.Vertex == nil:
					r.emit(e.Ref.GetCurrent().ID[1:] + ":<no vertex>")
				default:
					if e.Vertex.ID != e.ID {
						r.note("wrong-vertex", "lookup of %s answered with vertex %s", e.ID, e.Vertex.ID)
					}
					r.emit(e.Ref.GetCurrent().ID[1:] + ":" + e.Vertex.ID)
				}
				c.Cons.pause(i)
				i++
			}
			r.outputClosed()
		},
	}
	execute(t, c, s)
}

// muxStallAvoid: a lookup without an answer blocks runMux on that pipeline's output;
// once gripper.QueueSize*5 further requests are queued behind it, Put blocks as well and
// the stream never ends (known finding C13-mux-no-answer-stalls). Generated cases with
// missing rows stay below that.
const muxStallFree = 200

func TestGripperVertexChannel(t *testing.T) {
	if replayOr(t, "TestGripperVertexChannel") {
		return
	}
	pbt.Check(t, 400, 12000, func(rt *rapid.T) {
		c := streamCase{Comb: "GripperVertexChannel", Procs: genProcs(rt)}
		c.Workers = rapid.IntRange(1, nTables).Draw(rt, "tables")
		c.N = genN(rt, 1500, 10, gripper.QueueSize, 5*gripper.QueueSize, 6*gripper.QueueSize+11)
		route := []int{unknownTable}
		for p := 0; p < c.Workers; p++ {
			route = append(route, p, p, p)
		}
		c.Route = genPattern(rt, "route", 12, route)
		c.Kinds = genPattern(rt, "signal", 8, []int{0, 0, 0, 0, 1})
		c.InBuf = rapid.SampledFrom([]int{0, 10}).Draw(rt, "in_buf")
		if c.N > 0 && rapid.IntRange(0, 3).Draw(rt, "with_missing") == 0 {
			k := rapid.IntRange(1, 4).Draw(rt, "n_missing")
			for j := 0; j < k; j++ {
				c.MissingAt = append(c.MissingAt, rapid.IntRange(0, c.N-1).Draw(rt, "missing_at"))
			}
			sort.Ints(c.MissingAt)
			if pbt.IsOpen("ChannelMux:no-answer-stalls") && c.N > muxStallFree {
				c.N = muxStallFree
				pbt.Avoided("C13-mux-no-answer-stalls")
			}
			pbt.Class(rt, "missing-rows")
		}
		c.Prod = genLat(rt, c.N, "prod")
		c.Cons = genLat(rt, c.N, "cons")
		sample(t, c)
		pbt.Class(rt, fmt.Sprintf("tables=%d", c.Workers))
		runCase(rt, c)
	})
}
