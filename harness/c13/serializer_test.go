package c13

import (
	"encoding/json"
	"fmt"
	"reflect"
	"strconv"
	"strings"
	"testing"

	"github.com/bmeg/grip/gdbi"
	"github.com/bmeg/grip/jobstorage"
	"pgregory.net/rapid"
	"verif/internal/pbt"
)

// traveler kinds (streamCase.Kinds); every result kind of gdbi.DataType plus null rows
// (emitNull steps) and signals: server.Submit spools pipeline.Start's output without
// filtering signals (server/job_manager.go:35-42), so MarshalStream can be fed them.
const (
	kVertex = iota
	kEdge
	kCount
	kAggregation
	kSelection
	kRender
	kPath
	kNull
	kSignal
	kBigVertex // vertex with a large property map: makes one worker much slower than its neighbours
	kMarks
	nKinds
)

var kindNames = []string{"vertex", "edge", "count", "aggregation", "selection", "render", "path", "null", "signal", "bigvertex", "marks"}

func payload(seq int) map[string]interface{} {
	switch seq % 5 {
	case 0:
		return map[string]interface{}{}
	case 1:
		return nil
	case 2:
		return map[string]interface{}{"n": float64(seq), "s": "x<&> é\"\\", "b": seq%2 == 0, "z": nil,
			"l": []interface{}{1.5, "a", nil, []interface{}{}, map[string]interface{}{"k": -1e308}}}
	case 3:
		return map[string]interface{}{"big": 9007199254740993.0, "tiny": 5e-324, "neg": -0.5, "empty": "", "m": map[string]interface{}{}}
	}
	return map[string]interface{}{"name": fmt.Sprintf("item-%d", seq)}
}

// nested returns payload(seq) as a value inside another JSON value (an untyped nil
// instead of a nil map: a typed nil map inside an interface{} is not something JSON or
// structpb ever deliver).
func nested(seq int) interface{} {
	if p := payload(seq); p != nil {
		return p
	}
	return nil
}

func elem(prefix string, seq int, edge bool) *gdbi.DataElement {
	e := &gdbi.DataElement{ID: prefix + strconv.Itoa(seq), Label: "L" + strconv.Itoa(seq%3), Data: payload(seq), Loaded: seq%2 == 0}
	if edge {
		e.From, e.To = "f"+strconv.Itoa(seq), "t"+strconv.Itoa(seq)
	}
	return e
}

// mkTraveler builds the traveler with sequence number seq of the given kind. The
// sequence number can be read back with seqOf from whatever field the kind populates.
func mkTraveler(kind, seq int) *gdbi.BaseTraveler {
	switch kind {
	case kVertex:
		return &gdbi.BaseTraveler{Current: elem("x", seq, false), Path: []gdbi.DataElementID{{Vertex: "x" + strconv.Itoa(seq)}}}
	case kEdge:
		return &gdbi.BaseTraveler{Current: elem("x", seq, true), Marks: map[string]*gdbi.DataElement{},
			Path: []gdbi.DataElementID{{Vertex: "f" + strconv.Itoa(seq)}, {Edge: "x" + strconv.Itoa(seq)}}}
	case kCount:
		return &gdbi.BaseTraveler{Count: uint32(seq + 1)}
	case kAggregation:
		var key interface{}
		switch seq % 4 {
		case 0:
			key = "term"
		case 1:
			key = float64(seq) / 2
		case 2:
			key = true
		}
		return &gdbi.BaseTraveler{Aggregation: &gdbi.Aggregate{Name: "a" + strconv.Itoa(seq), Key: key, Value: float64(seq) * 1.25}}
	case kSelection:
		return &gdbi.BaseTraveler{Selections: map[string]*gdbi.DataElement{"s": elem("x", seq, false), "e": elem("y", seq, true)}}
	case kRender:
		return &gdbi.BaseTraveler{Render: map[string]interface{}{"seq": float64(seq), "row": []interface{}{"a", float64(seq), nil, nested(seq + 2)}}}
	case kPath:
		return &gdbi.BaseTraveler{Path: []gdbi.DataElementID{{Vertex: "x" + strconv.Itoa(seq)}, {Edge: "e"}, {}, {Vertex: "w"}}}
	case kNull:
		// emitNull row: no current element, path ends in an empty id
		return &gdbi.BaseTraveler{Marks: map[string]*gdbi.DataElement{"m": elem("x", seq, false)}, Path: []gdbi.DataElementID{{Vertex: "x" + strconv.Itoa(seq)}, {}}}
	case kSignal:
		return &gdbi.BaseTraveler{Signal: &gdbi.Signal{Dest: "mark" + strconv.Itoa(seq%3), ID: seq}}
	case kBigVertex:
		return &gdbi.BaseTraveler{Current: &gdbi.DataElement{ID: "x" + strconv.Itoa(seq), Label: "Big", Data: bigData, Loaded: true}}
	case kMarks:
		return &gdbi.BaseTraveler{Current: elem("x", seq, false), Count: 3,
			Marks: map[string]*gdbi.DataElement{"a": elem("m", seq, false), "b": elem("n", seq, true), "nil": nil},
			Path:  []gdbi.DataElementID{}}
	}
	panic("kind")
}

// bigData is shared by all big vertices (read-only): ~6 kB of JSON, two orders of
// magnitude more marshalling work than the small travelers next to it.
var bigData = func() map[string]interface{} {
	d := map[string]interface{}{}
	for i := 0; i < 60; i++ {
		d["key"+strconv.Itoa(i)] = []interface{}{float64(i), strings.Repeat("v", i%17), nested(i)}
	}
	return d
}()

func atoiSuffix(s string) (int, bool) {
	if len(s) < 2 {
		return 0, false
	}
	n, err := strconv.Atoi(s[1:])
	return n, err == nil
}

// seqOf reads the sequence number back from a traveler ("?" if it carries none).
func seqOf(t gdbi.Traveler) string {
	b, ok := t.(*gdbi.BaseTraveler)
	if !ok || b == nil {
		return "?"
	}
	switch {
	case b.Signal != nil:
		return "S" + strconv.Itoa(b.Signal.ID)
	case b.Current != nil:
		if n, ok := atoiSuffix(b.Current.ID); ok {
			return strconv.Itoa(n)
		}
	case b.Aggregation != nil:
		if n, ok := atoiSuffix(b.Aggregation.Name); ok {
			return strconv.Itoa(n)
		}
	case b.Selections != nil:
		if e := b.Selections["s"]; e != nil {
			if n, ok := atoiSuffix(e.ID); ok {
				return strconv.Itoa(n)
			}
		}
	case b.Render != nil:
		if m, ok := b.Render.(map[string]interface{}); ok {
			if f, ok := m["seq"].(float64); ok {
				return strconv.Itoa(int(f))
			}
		}
	case len(b.Path) > 0:
		if n, ok := atoiSuffix(b.Path[0].Vertex); ok {
			return strconv.Itoa(n)
		}
	case b.Count > 0:
		return strconv.Itoa(int(b.Count) - 1)
	}
	return "?"
}

func tokOf(kind, seq int) string {
	if kind == kSignal {
		return "S" + strconv.Itoa(seq)
	}
	return strconv.Itoa(seq)
}

func tokSeq(tok string) int {
	n, err := strconv.Atoi(strings.TrimPrefix(tok, "S"))
	if err != nil {
		return -1
	}
	return n
}

// checkContent: the decoded traveler must deep-equal the one that was fed with that
// sequence number (Unmarshal(Marshal(x)) == x).
func checkContent(r *run, comb string, got *gdbi.BaseTraveler) {
	tok := seqOf(got)
	seq := tokSeq(tok)
	if seq < 0 || seq >= r.c.N {
		return // reported by the sequence comparison as spurious output
	}
	kind := pat(r.c.Kinds, seq)
	want := mkTraveler(kind, seq)
	if !reflect.DeepEqual(got, want) {
		gj, _ := json.Marshal(got)
		wj, _ := json.Marshal(want)
		r.note("roundtrip-"+kindNames[kind], "traveler %d (%s) changed in the JSON round trip:\n got  %.600s\n want %.600s", seq, kindNames[kind], gj, wj)
	}
}

func serializerBuffering(w int) int { return 31*w + 2 }

func feedTravelers(r *run, in chan gdbi.Traveler) {
	c := r.c
	for i := 0; i < c.N; i++ {
		c.Prod.pause(i)
		in <- mkTraveler(pat(c.Kinds, i), i)
		r.progress.Add(1)
	}
	r.inputClosed.Store(true)
	close(in)
}

func wantTravelers(c *streamCase) []string {
	want := make([]string, c.N)
	for i := range want {
		want[i] = tokOf(pat(c.Kinds, i), i)
	}
	return want
}

func runMarshal(t pbt.TB, c *streamCase) {
	in := make(chan gdbi.Traveler, c.InBuf)
	var out chan []byte
	s := &stream{
		want:      wantTravelers(c),
		buffering: serializerBuffering(c.Workers) + c.InBuf,
		produce:   func(r *run) { feedTravelers(r, in) },
		consume: func(r *run) {
			i := 0
			for b := range out {
				bt := &gdbi.BaseTraveler{}
				if err := json.Unmarshal(b, bt); err != nil {
					r.note("invalid-json", "output %d is not JSON (%v): %.200q", i, err, b)
				} else {
					checkContent(r, c.Comb, bt)
				}
				r.emit(seqOf(bt))
				c.Cons.pause(i)
				i++
			}
			r.outputClosed()
		},
	}
	s.start = func() { out = jobstorage.MarshalStream(in, c.Workers) }
	execute(t, c, s)
}

func runUnmarshal(t pbt.TB, c *streamCase) {
	var out chan gdbi.Traveler
	s := &stream{want: wantTravelers(c)}
	consume := func(r *run) {
		i := 0
		for tr := range out {
			if bt, ok := tr.(*gdbi.BaseTraveler); ok {
				checkContent(r, c.Comb, bt)
			}
			r.emit(seqOf(tr))
			c.Cons.pause(i)
			i++
		}
		r.outputClosed()
	}
	s.consume = consume
	if c.Chain {
		// as in production: MarshalStream's lines go to a file, the file's lines into
		// UnmarshalStream; here the two are piped directly
		in := make(chan gdbi.Traveler, c.InBuf)
		s.buffering = 2*serializerBuffering(c.Workers) + c.InBuf
		s.produce = func(r *run) { feedTravelers(r, in) }
		s.start = func() { out = jobstorage.UnmarshalStream(jobstorage.MarshalStream(in, c.Workers), c.Workers) }
	} else {
		in := make(chan []byte, c.InBuf)
		s.buffering = serializerBuffering(c.Workers) + c.InBuf
		s.produce = func(r *run) {
			for i := 0; i < c.N; i++ {
				b, err := json.Marshal(mkTraveler(pat(c.Kinds, i), i))
				if err != nil {
					panic(err)
				}
				c.Prod.pause(i)
				in <- b
				r.progress.Add(1)
			}
			r.inputClosed.Store(true)
			close(in)
		}
		s.start = func() { out = jobstorage.UnmarshalStream(in, c.Workers) }
	}
	execute(t, c, s)
}

func genSerializerCase(rt *rapid.T, comb string) streamCase {
	w := rapid.SampledFrom([]int{1, 2, 3, 4, 4, 4, 5, 8}).Draw(rt, "workers")
	c := streamCase{Comb: comb, Workers: w, Procs: genProcs(rt)}
	c.N = genN(rt, 5000, w, 10*w, 20*w, 30*w, serializerBuffering(w))
	c.InBuf = rapid.SampledFrom([]int{0, 1, 10, 40}).Draw(rt, "in_buf")
	kinds := make([]int, nKinds)
	for i := range kinds {
		kinds[i] = i
	}
	c.Kinds = genPattern(rt, "kind", 12, kinds)
	c.Prod = genLat(rt, c.N, "prod")
	c.Cons = genLat(rt, c.N, "cons")
	return c
}

func classifyKinds(t pbt.TB, c streamCase) {
	seen := map[int]bool{}
	for i := 0; i < c.N && i < len(c.Kinds); i++ {
		seen[c.Kinds[i]] = true
	}
	for k := range seen {
		pbt.Class(t, "kind:"+kindNames[k])
	}
	pbt.Class(t, fmt.Sprintf("workers=%d", c.Workers))
}

func TestMarshalStream(t *testing.T) {
	if replayOr(t, "TestMarshalStream") {
		return
	}
	pbt.Check(t, 500, 20000, func(rt *rapid.T) {
		c := genSerializerCase(rt, "MarshalStream")
		sample(t, c)
		classifyKinds(rt, c)
		runCase(rt, c)
	})
}

func TestUnmarshalStream(t *testing.T) {
	if replayOr(t, "TestUnmarshalStream") {
		return
	}
	pbt.Check(t, 500, 20000, func(rt *rapid.T) {
		c := genSerializerCase(rt, "UnmarshalStream")
		c.Chain = rapid.IntRange(0, 2).Draw(rt, "chain") == 0
		sample(t, c)
		classifyKinds(rt, c)
		if c.Chain {
			pbt.Class(rt, "chained")
		}
		runCase(rt, c)
	})
}

// Every traveler kind survives the reference JSON round trip on its own (no stream):
// keeps the content oracle honest, and makes sure mkTraveler/seqOf agree.
func TestTravelerKindsSelfCheck(t *testing.T) {
	if _, ok := pbt.ReplayFile(); ok {
		t.Skip()
	}
	for k := 0; k < nKinds; k++ {
		for seq := 0; seq < 10; seq++ {
			x := mkTraveler(k, seq)
			if got := seqOf(x); got != tokOf(k, seq) {
				t.Fatalf("INFRA: seqOf(%s %d) = %s", kindNames[k], seq, got)
			}
		}
	}
}
