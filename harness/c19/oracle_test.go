package c19

import (
	"fmt"
	"math"
	"sort"
	"strconv"
	"strings"

	"verif/internal/model"
)

// verdict of judging one aggregation against the input rows.
type verdict struct {
	sig     string // "" = agrees with the oracle
	msg     string
	unique  bool // the oracle admits exactly one result (independence can compare runs)
	classes []string
}

func bad(sig, format string, a ...interface{}) verdict {
	return verdict{sig: sig, msg: fmt.Sprintf(format, a...)}
}

func judgeAgg(a model.Agg, els []*model.Element, got []bucket) verdict {
	switch a.Kind {
	case "count":
		return judgeCount(len(els), got)
	case "term":
		return judgeTerm(a, fieldValues(els, a.Field), got)
	case "histogram":
		return judgeHistogram(a, fieldValues(els, a.Field), got)
	case "percentile":
		return judgePercentile(a, fieldValues(els, a.Field), got)
	case "field":
		return judgeField(fieldValues(els, a.Field), got)
	case "type":
		return judgeType(fieldValues(els, a.Field), got)
	}
	panic("unknown aggregation kind " + a.Kind)
}

func isInt(x float64) bool { return x == math.Trunc(x) && !math.IsInf(x, 0) }

// ---------------------------------------------------------------------------------
// count

func judgeCount(n int, got []bucket) verdict {
	if len(got) != 1 {
		return bad("count:not-one-row", "returned %d result rows, want exactly one holding %d", len(got), n)
	}
	if got[0].Value != float64(n) {
		return bad("count:wrong", "counted %v, but it was given %d rows", got[0].Value, n)
	}
	return verdict{unique: true}
}

// ---------------------------------------------------------------------------------
// term

func isScalar(v interface{}) bool {
	switch v.(type) {
	case bool, float64, string:
		return true
	}
	return false
}

func judgeTerm(a model.Agg, vals []fv, got []bucket) verdict {
	exp := map[string]int{}
	nulls := 0
	for _, x := range vals {
		if !x.present {
			continue
		}
		if x.v == nil {
			nulls++
		} else if isScalar(x.v) {
			exp[model.Canon(x.v)]++
		}
	}
	var v verdict
	seen := map[string]float64{}
	for _, b := range got {
		k := model.Canon(b.Key)
		if _, dup := seen[k]; dup {
			return bad("term:duplicate-bucket", "lists the value %s twice", k)
		}
		if b.Key == nil {
			// whether null is a value is not stated: a null bucket is accepted with its exact frequency
			if nulls == 0 || b.Value != float64(nulls) {
				return bad("term:unexpected-key", "has a null bucket of %v but the field is explicitly null in %d rows", b.Value, nulls)
			}
			v.classes = append(v.classes, "term:null-bucket")
			continue
		}
		seen[k] = b.Value
		n, ok := exp[k]
		if !ok {
			return bad("term:unexpected-key", "has a bucket for %s, which is not a scalar value of the field in any input row", k)
		}
		if b.Value != float64(n) {
			return bad("term:wrong-frequency", "reports %s x%v, but the value occurs in %d input rows", k, b.Value, n)
		}
	}
	freqs := make([]int, 0, len(exp))
	for _, n := range exp {
		freqs = append(freqs, n)
	}
	sort.Sort(sort.Reverse(sort.IntSlice(freqs)))
	size := int(a.Size)
	if size <= 0 {
		for k, n := range exp {
			if _, ok := seen[k]; !ok {
				return bad("term:missing-value", "has no bucket for %s, which occurs in %d input rows (no size limit given)", k, n)
			}
		}
		v.unique = true
		return v
	}
	want := min(size, len(exp))
	if len(seen) > want {
		return bad("term:size-ignored", "was asked for the %d most frequent values but returned %d buckets (%d distinct scalar values)", size, len(seen), len(exp))
	}
	if len(seen) < want {
		return bad("term:too-few-buckets", "was asked for the %d most frequent of %d distinct values but returned %d buckets", size, len(exp), len(seen))
	}
	minIn := math.MaxInt
	for _, n := range seen {
		minIn = min(minIn, int(n))
	}
	for k, n := range exp {
		if _, ok := seen[k]; !ok && n > minIn {
			return bad("term:not-most-frequent", "omits %s (x%d) but includes a value occurring only %d times (size %d)", k, n, minIn, size)
		}
	}
	v.unique = len(exp) <= size || freqs[size-1] > freqs[size]
	if !v.unique {
		v.classes = append(v.classes, "term:tie-at-cutoff")
	}
	return v
}

// ---------------------------------------------------------------------------------
// numeric readings

type numReading struct {
	nums  []float64 // JSON numbers
	text  []float64 // plain-decimal text (unspecified whether numeric)
	bools []float64 // what a bool->number cast would give (not numeric: for diagnosis)
	junk  int       // present non-null values that are not numeric under any reading
	nonFinite int   // junk strings that strconv.ParseFloat reads as NaN or +-Inf ("inf", "NaN", "-Infinity")
	nulls int
	miss  int
}

func readNums(vals []fv) numReading {
	var r numReading
	for _, x := range vals {
		switch v := x.v.(type) {
		case float64:
			r.nums = append(r.nums, v)
		case bool:
			if v {
				r.bools = append(r.bools, 1)
			} else {
				r.bools = append(r.bools, 0)
			}
		case string:
			if f, ok := model.Number(v); ok {
				r.text = append(r.text, f)
			} else {
				r.junk++
				if f, err := strconv.ParseFloat(v, 64); err == nil && (math.IsNaN(f) || math.IsInf(f, 0)) {
					r.nonFinite++
				}
			}
		case nil:
			if x.present {
				r.nulls++
			} else {
				r.miss++
			}
		default:
			r.junk++
		}
	}
	return r
}

// ---------------------------------------------------------------------------------
// histogram

func histOf(interval float64, sets ...[]float64) map[float64]int {
	h := map[float64]int{}
	for _, s := range sets {
		for _, v := range s {
			k := math.Floor(v/interval) * interval
			if k == 0 {
				k = 0 // fold -0
			}
			h[k]++
		}
	}
	return h
}

func sameHist(a, b map[float64]int) bool {
	if len(a) != len(b) {
		return false
	}
	for k, n := range a {
		if b[k] != n {
			return false
		}
	}
	return true
}

func histText(h map[float64]int) string {
	keys := make([]float64, 0, len(h))
	for k := range h {
		keys = append(keys, k)
	}
	sort.Float64s(keys)
	parts := make([]string, len(keys))
	for i, k := range keys {
		parts[i] = strconv.FormatFloat(k, 'g', -1, 64) + "=" + strconv.Itoa(h[k])
	}
	return "{" + strings.Join(parts, ", ") + "}"
}

func judgeHistogram(a model.Agg, vals []fv, got []bucket) verdict {
	iv := float64(a.Interval)
	r := readNums(vals)
	nz := map[float64]int{}
	seen := map[float64]bool{}
	for _, b := range got {
		k, ok := b.Key.(float64)
		if !ok || math.IsNaN(k) || math.IsInf(k, 0) {
			return bad("histogram:non-number-key", "has the bucket key %s", model.Canon(b.Key))
		}
		if !isInt(k / iv) {
			return bad("histogram:misaligned-key", "has the bucket key %v, not a multiple of the interval %v", k, iv)
		}
		if k == 0 {
			k = 0
		}
		if seen[k] {
			return bad("histogram:duplicate-key", "lists the bucket %v twice", k)
		}
		seen[k] = true
		if b.Value < 0 || !isInt(b.Value) {
			return bad("histogram:wrong-counts", "bucket %v has the count %v", k, b.Value)
		}
		if b.Value > 0 {
			nz[k] = int(b.Value) // empty buckets are allowed and ignored
		}
	}
	strict := histOf(iv, r.nums)
	withText := histOf(iv, r.nums, r.text)
	v := verdict{unique: true}
	switch {
	case sameHist(nz, strict):
		if len(r.text) > 0 {
			v.classes = append(v.classes, "histogram:numeric-text-ignored")
		}
		return v
	case sameHist(nz, withText):
		v.classes = append(v.classes, "histogram:numeric-text-counted")
		return v
	}
	// diagnosis: which non-numeric values found their way into the buckets?
	finiteJunk := r.junk - r.nonFinite
	zeros := make([]float64, finiteJunk)
	for _, t := range [][]float64{nil, r.text} {
		if finiteJunk > 0 && (sameHist(nz, histOf(iv, r.nums, t, zeros)) || sameHist(nz, histOf(iv, r.nums, t, r.bools, zeros))) {
			return bad("histogram:non-numeric-counted-as-0", "counts the %d non-numeric values (strings, lists, maps) of the field as 0 (and %d booleans as 0/1): buckets %s, want %s for the %d numbers", finiteJunk, len(r.bools), histText(nz), histText(strict), len(r.nums))
		}
		if len(r.bools) > 0 && sameHist(nz, histOf(iv, r.nums, t, r.bools)) {
			return bad("histogram:bool-counted-as-number", "counts the %d booleans of the field as the numbers 0/1: buckets %s, want %s for the %d numbers", len(r.bools), histText(nz), histText(strict), len(r.nums))
		}
	}
	if r.nonFinite > 0 {
		return bad("histogram:non-finite-text", "reads the %d strings of the field that spell NaN or an infinity as numbers: buckets %s, want %s for the %d numbers", r.nonFinite, histText(nz), histText(strict), len(r.nums))
	}
	return bad("histogram:wrong-counts", "non-empty buckets %s, want %s for the %d numbers (interval %v)", histText(nz), histText(strict), len(r.nums), iv)
}

// ---------------------------------------------------------------------------------
// percentile

func judgePercentile(a model.Agg, vals []fv, got []bucket) verdict {
	r := readNums(vals)
	// one result per requested percent
	want := map[string]int{}
	for _, p := range a.Percents {
		want[model.Canon(p)]++
	}
	for _, b := range got {
		want[model.Canon(b.Key)]--
	}
	if len(r.nums)+len(r.text) == 0 && len(got) == 0 {
		// no numeric value at all: returning nothing is as good as one (undefined) result per percent
		return verdict{unique: true, classes: []string{"percentile:no-number:no-rows"}}
	}
	for k, n := range want {
		if n != 0 {
			return bad("percentile:wrong-keys", "was asked for the percents %v but the results differ at %s (%+d)", a.Percents, k, n)
		}
	}
	if len(r.nums) == 0 {
		return verdict{unique: true, classes: []string{"percentile:no-number:not-judged"}}
	}
	lo, hi := math.Inf(1), math.Inf(-1)
	for _, s := range [][]float64{r.nums, r.text} {
		for _, x := range s {
			lo, hi = math.Min(lo, x), math.Max(hi, x)
		}
	}
	blame := func() (string, string) {
		switch {
		case r.junk+r.nulls+r.miss > 0:
			return "percentile:non-numeric-fed-as-0", fmt.Sprintf("(%d rows lack the field or hold null, %d hold strings/lists/maps, %d booleans: they appear to be fed in as 0)", r.miss+r.nulls, r.junk, len(r.bools))
		case len(r.bools) > 0:
			return "percentile:bool-fed-as-number", fmt.Sprintf("(%d booleans appear to be fed in as 0/1)", len(r.bools))
		}
		return "percentile:out-of-range", ""
	}
	sorted := append([]bucket{}, got...)
	sort.SliceStable(sorted, func(i, j int) bool { return sorted[i].Key.(float64) < sorted[j].Key.(float64) })
	for i, b := range sorted {
		if math.IsNaN(b.Value) || b.Value < lo || b.Value > hi {
			sig, why := blame()
			return bad(sig, "p%v = %v lies outside [min,max] = [%v,%v] of the %d numeric values %s", b.Key, b.Value, lo, hi, len(r.nums)+len(r.text), why)
		}
		if i > 0 && b.Value < sorted[i-1].Value {
			return bad("percentile:decreasing", "p%v = %v is below p%v = %v", b.Key, b.Value, sorted[i-1].Key, sorted[i-1].Value)
		}
	}
	return verdict{unique: true}
}

// ---------------------------------------------------------------------------------
// field

func judgeField(vals []fv, got []bucket) verdict {
	exp := map[string]int{}
	for _, x := range vals {
		if m, ok := x.v.(map[string]interface{}); ok {
			for k := range m {
				exp[k]++
			}
		}
	}
	seen := map[string]bool{}
	for _, b := range got {
		k, ok := b.Key.(string)
		if !ok {
			return bad("field:non-string-key", "has the key %s", model.Canon(b.Key))
		}
		if seen[k] {
			return bad("field:duplicate-key", "lists the key %q twice", k)
		}
		seen[k] = true
		if b.Value == 0 {
			continue
		}
		if b.Value != float64(exp[k]) {
			return bad("field:wrong-count", "reports the key %q in %v rows, but %d input rows have it", k, b.Value, exp[k])
		}
	}
	for k, n := range exp {
		if !seen[k] {
			return bad("field:missing-key", "does not list the key %q, present in %d input rows", k, n)
		}
	}
	return verdict{unique: true}
}

// ---------------------------------------------------------------------------------
// type

func judgeType(vals []fv, got []bucket) verdict {
	n := map[string]int{}
	for _, x := range vals {
		if !x.present {
			n["missing"]++
		} else {
			n[model.Kind(x.v)]++
		}
	}
	g := map[string]float64{}
	for _, b := range got {
		k, ok := b.Key.(string)
		if !ok {
			return bad("type:non-string-key", "has the key %s", model.Canon(b.Key))
		}
		if _, dup := g[k]; dup {
			return bad("type:duplicate-key", "lists the type %s twice", k)
		}
		g[k] = b.Value
		switch k {
		case "STRING", "NUMERIC", "BOOL", "UNKNOWN", "MAP", "ARRAY":
		default:
			return bad("type:unknown-type-name", "reports the type name %q", k)
		}
	}
	for name, kind := range map[string]string{"STRING": "string", "NUMERIC": "number", "BOOL": "bool"} {
		if g[name] != float64(n[kind]) {
			return bad("type:wrong-count-"+name, "reports %s x%v, but %d input rows hold a %s", name, g[name], n[kind], kind)
		}
	}
	// maps/lists: under their own name or as UNKNOWN; missing: counted as UNKNOWN or not at all
	if g["MAP"] != 0 && g["MAP"] != float64(n["map"]) {
		return bad("type:wrong-count-MAP", "reports MAP x%v, but %d input rows hold a map", g["MAP"], n["map"])
	}
	if g["ARRAY"] != 0 && g["ARRAY"] != float64(n["list"]) {
		return bad("type:wrong-count-ARRAY", "reports ARRAY x%v, but %d input rows hold a list", g["ARRAY"], n["list"])
	}
	other := g["UNKNOWN"] + g["MAP"] + g["ARRAY"]
	lo := float64(n["null"] + n["list"] + n["map"])
	hi := lo + float64(n["missing"])
	if other < lo || other > hi {
		return bad("type:wrong-count-UNKNOWN", "reports UNKNOWN(+MAP+ARRAY) x%v, but %d input rows hold null/list/map and %d lack the field", other, int(lo), n["missing"])
	}
	v := verdict{unique: true}
	if n["missing"] > 0 {
		if other == hi {
			v.classes = append(v.classes, "type:missing-counted-as-UNKNOWN")
		} else {
			v.classes = append(v.classes, "type:missing-not-counted")
		}
	}
	return v
}
