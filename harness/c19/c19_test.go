// Package c19: aggregations summarize exactly the rows they are given.
package c19

import (
	"context"
	"encoding/json"
	"fmt"
	"os"
	"sort"
	"strings"
	"sync"
	"sync/atomic"
	"testing"
	"time"

	"github.com/bmeg/grip/engine/pipeline"
	"github.com/bmeg/grip/gdbi"
	"github.com/bmeg/grip/gripql"
	"verif/internal/gripx"
	"verif/internal/model"
	"verif/internal/pbt"
	"verif/internal/quiesce"
)

func TestMain(m *testing.M) {
	code := pbt.Main(m, pbt.Meta{
		Property: "C19",
		Level:    "exploration",
		Rule: "graphs of 0-60 vertices (a few of ~1000/1001+ = the per-aggregation fan-out buffer; thorough: more of them) whose field f (and nested a.f, edge f) is drawn with skewed frequencies from a per-case palette over missing, null, bools, numbers (negative, fractional, zero, bucket edges, duplicates), strings (incl. empty and plain-decimal text), lists and maps x a prefix traversal (V, V.hasLabel, V.has, V.out with duplicate rows, E, empty input) x 1-4 uniquely named aggregations of kinds term(size in {0,1,2,n,n+1}), histogram(interval in {1,2,5,10}), percentile(percent lists with 0/50/100, unsorted, duplicates), field(_data, $._data, nested map), type, count. " +
			"The oracle is computed from the rows the same traversal returns without aggregate(); every aggregation is also run alone and compared with its result in the combined step. " +
			"Non-trivial: some aggregated field has >=3 distinct scalar values with unequal frequencies and >=1 non-scalar or missing value among the input rows, and, if the step has a histogram, its field has numeric values of both signs; distinct = (graph, traversal) text.",
		Assumptions: []string{
			"a numeric value is a JSON number; plain-decimal text (\"7\", \"-2.5\") may or may not be read as a number by histogram/percentile (has() reads it as one, type() calls it STRING): both readings are accepted; booleans, other strings, lists, maps, null and missing are not numeric",
			"term: an explicit null may or may not get a bucket (if it does, with its exact frequency); with size>0 ties at the cut-off may be broken either way",
			"type: a row lacking the field may or may not be counted as UNKNOWN; maps/lists may be reported as MAP/ARRAY or UNKNOWN; buckets with count 0 are allowed (as for histogram, cf. conformance/tests/ot_aggregations.py)",
			"percentile: only monotonicity in p, membership in [min,max] of the numeric values and one result per requested percent are judged (t-digest is approximate); nothing is judged when the input has no JSON number",
			"numbers stay within +-1000 and intervals >= 1 (the number of histogram buckets is (max-min)/interval; huge magnitudes, interval 0 and non-finite numeric text are probed separately, not generated)",
			"store under test: kvgraph on Badger; row order is never asserted",
		},
	})
	gripx.Cleanup()
	os.Exit(code)
}

// Case is one (graph, traversal) pair; the last step is the aggregate step.
type Case struct {
	Graph *model.Graph `json:"graph"`
	Steps []model.Step `json:"steps"`
}

func (c Case) prefix() []model.Step { return c.Steps[:len(c.Steps)-1] }
func (c Case) aggs() []model.Agg    { return c.Steps[len(c.Steps)-1].Aggs }

func caseKey(c Case) string {
	b, _ := json.Marshal(c.Graph)
	return string(b) + "|" + model.TravString(c.Steps)
}

// ---------------------------------------------------------------------------------
// running a traversal with hang confirmation

const runBudget = 30 * time.Second

type runOut struct {
	compileErr error
	rows       []*gripql.QueryResult
	hang       bool   // confirmed by quiesce
	undecided  string // budget expired, hang not confirmed, stream still open after grace
	report     quiesce.Report
}

type drainer struct {
	mu   sync.Mutex
	rows []*gripql.QueryResult
	n    atomic.Int64
}

// drain is a named function so that quiesce can be told about it (a consumer that is
// merely slow must not be mistaken for a blocked pipeline).
func drain(d *drainer, ch <-chan *gripql.QueryResult, limit int64, done chan struct{}) {
	defer close(done)
	for r := range ch {
		d.mu.Lock()
		d.rows = append(d.rows, r)
		d.mu.Unlock()
		if d.n.Add(1) >= limit {
			return // unbounded output: stop reading, the caller judges the count
		}
	}
}

// maxRows bounds the rows read from one stream; far above anything an aggregation over
// the generated domain may legitimately return (see judgeHistogram for the exact bound).
var maxRows int64 = 2_000_000

func run(gi gdbi.GraphInterface, steps []model.Step) runOut {
	pipe, err := gi.Compiler().Compile(model.Protos(steps), nil)
	if err != nil {
		return runOut{compileErr: err}
	}
	ctx, cancel := context.WithCancel(context.Background())
	defer cancel()
	d := &drainer{}
	done := make(chan struct{})
	go drain(d, pipeline.Run(ctx, pipe, gripx.WorkDir()), maxRows, done)
	rep := quiesce.WaitReport(done, d.n.Load, runBudget, quiesce.AlsoFilter("verif/c19.drain"))
	out := runOut{report: rep}
	switch rep.Verdict {
	case quiesce.Hang:
		out.hang = true
	case quiesce.Inconclusive:
		select {
		case <-done:
		case <-time.After(3 * time.Minute):
			out.undecided = rep.Reason
		}
	}
	d.mu.Lock()
	out.rows = append(out.rows, d.rows...)
	d.mu.Unlock()
	return out
}

// ---------------------------------------------------------------------------------
// rows -> field values, aggregation rows -> buckets

// fv is the value of a field in one input row.
type fv struct {
	present bool
	v       interface{}
}

func rowElement(r *gripql.QueryResult) *model.Element {
	if r == nil {
		return nil
	}
	if v := r.GetVertex(); v != nil {
		return &model.Element{ID: v.Gid, Label: v.Label, Data: v.Data.AsMap()}
	}
	if e := r.GetEdge(); e != nil {
		return &model.Element{ID: e.Gid, Label: e.Label, From: e.From, To: e.To, Data: e.Data.AsMap(), Edge: true}
	}
	return nil
}

func fieldValues(els []*model.Element, path string) []fv {
	path = strings.TrimPrefix(path, "$.")
	out := make([]fv, len(els))
	for i, el := range els {
		v, ok := el.Field(path)
		out[i] = fv{present: ok, v: v}
	}
	return out
}

type bucket struct {
	Key   interface{}
	Value float64
}

func (b bucket) String() string { return fmt.Sprintf("%s=%v", model.Canon(b.Key), b.Value) }

func bucketsText(bs []bucket) string {
	parts := make([]string, len(bs))
	for i, b := range bs {
		parts[i] = b.String()
	}
	sort.Strings(parts)
	if len(parts) > 24 {
		parts = append(parts[:24:24], fmt.Sprintf("… (%d more)", len(parts)-24))
	}
	return "{" + strings.Join(parts, ", ") + "}"
}

// canonBuckets is the order-free identity of an aggregation's result.
func canonBuckets(bs []bucket) string {
	parts := make([]string, len(bs))
	for i, b := range bs {
		parts[i] = b.String()
	}
	sort.Strings(parts)
	return strings.Join(parts, ";")
}

// group splits aggregation result rows by aggregation name.
func group(rows []*gripql.QueryResult) (map[string][]bucket, string) {
	out := map[string][]bucket{}
	for _, r := range rows {
		a := r.GetAggregations()
		if a == nil {
			return nil, fmt.Sprintf("result row is not an aggregation: %s", gripx.RowCanon(r))
		}
		out[a.Name] = append(out[a.Name], bucket{Key: a.Key.AsInterface(), Value: a.Value})
	}
	return out, ""
}

// ---------------------------------------------------------------------------------
// one case

const sigEmptyHistogram = "histogram:empty-input-panic"

// crashes reports whether running the aggregation over these input rows is known to
// kill the process (histogram over no non-null value: fieldValues[0] on an empty slice).
func crashes(a model.Agg, els []*model.Element) bool {
	if a.Kind != "histogram" {
		return false
	}
	for _, x := range fieldValues(els, a.Field) {
		if x.present && x.v != nil {
			return false
		}
	}
	return true
}

func kindsOf(aggs []model.Agg) string {
	ks := make([]string, len(aggs))
	for i, a := range aggs {
		ks[i] = a.Kind
	}
	return strings.Join(ks, "+")
}

func load(t pbt.TB, g *model.Graph) gdbi.GraphInterface {
	gi, err := gripx.Load(gripx.DB("badger"), gripx.FreshName(), g)
	if err != nil {
		t.Fatalf("INFRA: cannot load graph: %v", err)
	}
	return gi
}

// runCase executes and judges one case. allowCrash: run aggregations known to kill the
// process anyway (confirmation child, or the finding is no longer listed as open).
func runCase(t pbt.TB, c Case, allowCrash bool) {
	runLoaded(t, load(t, c.Graph), c, allowCrash)
}

// runLoaded is runCase on a graph that is already stored (gi holds exactly c.Graph).
func runLoaded(t pbt.TB, gi gdbi.GraphInterface, c Case, allowCrash bool) {
	pbt.Case(t)
	if len(c.Steps) < 2 || c.Steps[len(c.Steps)-1].Op != "aggregate" {
		t.Fatalf("INFRA: malformed case: %s", model.TravString(c.Steps))
	}
	trav := model.TravString(c.Steps)

	// the rows the aggregate step is given
	pre := run(gi, c.prefix())
	if pre.compileErr != nil {
		t.Fatalf("INFRA: prefix traversal rejected: %v", pre.compileErr)
	}
	if pre.hang || pre.undecided != "" {
		pbt.Inconclusive(t, "prefix traversal did not finish")
		return
	}
	els := make([]*model.Element, len(pre.rows))
	for i, r := range pre.rows {
		if els[i] = rowElement(r); els[i] == nil {
			t.Fatalf("INFRA: prefix row is not an element: %s", gripx.RowCanon(r))
		}
	}
	classifyInput(t, c, els)

	// steer away from process-killing inputs while the finding is open (VERIF_C19_NOAVOID=1:
	// do not steer, for runs against a patched tree before the entry is marked fixed)
	aggs := c.aggs()
	if !allowCrash && pbt.IsOpen(sigEmptyHistogram) && os.Getenv("VERIF_C19_NOAVOID") == "" {
		kept := aggs[:0:0]
		for _, a := range aggs {
			if crashes(a, els) {
				pbt.Avoided("C19-histogram-empty-input-panic")
				continue
			}
			kept = append(kept, a)
		}
		aggs = kept
		if len(aggs) == 0 {
			pbt.Class(t, "skip:only crashing aggregations")
			return
		}
	}
	full := append(append([]model.Step{}, c.prefix()...), model.Step{Op: "aggregate", Aggs: aggs})

	out := run(gi, full)
	if bad := streamTrouble(t, c, out, kindsOf(aggs), trav); bad {
		return
	}
	got, why := group(out.rows)
	if why != "" {
		pbt.Discrepancy(t, c, "rows:not-aggregation", "%s: %s", trav, why)
		return
	}
	names := map[string]bool{}
	for _, a := range aggs {
		names[a.Name] = true
	}
	for n := range got {
		if !names[n] {
			pbt.Discrepancy(t, c, "rows:unrequested-name", "%s: result rows carry the name %q which no aggregation of the step has", trav, n)
			return
		}
	}

	for _, a := range aggs {
		pbt.Class(t, "agg:"+a.Kind)
		v := judgeAgg(a, els, got[a.Name])
		for _, cl := range v.classes {
			pbt.Class(t, cl)
		}
		if v.sig != "" {
			if pbt.Discrepancy(t, c, v.sig, "%s over %d input rows: aggregation %q %s; returned %s; field values %s", trav, len(els), a.Name, v.msg, bucketsText(got[a.Name]), valuesText(fieldValues(els, a.Field), a.Kind)) {
				return
			}
			continue // listed finding: this aggregation is not judged further
		}
		pbt.Class(t, "judged:"+a.Kind)
		if len(aggs) < 2 {
			continue
		}
		// independence: the same aggregation requested alone
		alone := run(gi, append(append([]model.Step{}, c.prefix()...), model.Step{Op: "aggregate", Aggs: []model.Agg{a}}))
		if bad := streamTrouble(t, c, alone, a.Kind, trav+" [alone: "+a.Name+"]"); bad {
			return
		}
		ag, why := group(alone.rows)
		if why != "" {
			pbt.Discrepancy(t, c, "rows:not-aggregation", "%s [alone: %s]: %s", trav, a.Name, why)
			return
		}
		if !v.unique {
			// several answers are correct (ties at the term cut-off): both runs are held
			// to the oracle instead of to each other
			v2 := judgeAgg(a, els, ag[a.Name])
			if v2.sig != "" {
				if pbt.Discrepancy(t, c, v2.sig, "%s [alone: %s] over %d input rows: %s; returned %s", trav, a.Name, len(els), v2.msg, bucketsText(ag[a.Name])) {
					return
				}
			}
			pbt.Class(t, "independence:tie-not-compared")
			continue
		}
		pbt.Class(t, "judged:independence")
		if x, y := canonBuckets(ag[a.Name]), canonBuckets(got[a.Name]); x != y {
			if pbt.Discrepancy(t, c, "independence:"+a.Kind, "%s: aggregation %q returns %s when requested alone but %s together with %s", trav, a.Name, bucketsText(ag[a.Name]), bucketsText(got[a.Name]), kindsOf(aggs)) {
				return
			}
		}
	}
}

// streamTrouble handles rejected / hung / unbounded streams; true = stop judging.
func streamTrouble(t pbt.TB, c Case, out runOut, kinds, trav string) bool {
	switch {
	case out.compileErr != nil:
		pbt.Discrepancy(t, c, "compile:rejected:"+kinds, "%s rejected: %v", trav, out.compileErr)
		return true
	case out.hang:
		pbt.Discrepancy(t, c, "hang:"+kinds, "%s: stream never closes after %d rows. %s\n%s", trav, len(out.rows), out.report.Reason, out.report.Stacks())
		return true
	case out.undecided != "":
		pbt.Inconclusive(t, "stream open after budget, hang not confirmed")
		t.Fatalf("INFRA: %s neither finished nor provably hung (%s)\n%s", trav, out.undecided, out.report.Stacks())
		return true
	case int64(len(out.rows)) >= maxRows:
		pbt.Discrepancy(t, c, "rows:unbounded:"+kinds, "%s: more than %d result rows", trav, maxRows)
		return true
	}
	return false
}

func valuesText(vals []fv, kind string) string {
	if kind == "count" {
		return "(n/a)"
	}
	cnt := map[string]int{}
	for _, x := range vals {
		if !x.present {
			cnt["<missing>"]++
		} else {
			cnt[model.Canon(x.v)]++
		}
	}
	keys := model.SortedKeys(cnt)
	parts := make([]string, 0, len(keys))
	for _, k := range keys {
		parts = append(parts, fmt.Sprintf("%s x%d", k, cnt[k]))
	}
	if len(parts) > 24 {
		parts = append(parts[:24:24], fmt.Sprintf("… (%d more)", len(parts)-24))
	}
	return "[" + strings.Join(parts, ", ") + "]"
}

// classifyInput records generator health and the non-trivial rule.
func classifyInput(t pbt.Named, c Case, els []*model.Element) {
	switch n := len(els); {
	case n == 0:
		pbt.Class(t, "rows:0")
	case n <= 5:
		pbt.Class(t, "rows:1-5")
	case n <= 60:
		pbt.Class(t, "rows:6-60")
	case n < 1000:
		pbt.Class(t, "rows:61-999")
	case n == 1000:
		pbt.Class(t, "rows:1000")
	default:
		pbt.Class(t, "rows:1001+")
	}
	pbt.Class(t, fmt.Sprintf("k=%d", len(c.aggs())))
	rich, hist, bothSigns := false, false, true
	seenField := map[string]bool{}
	for _, a := range c.aggs() {
		if a.Kind == "count" || seenField[a.Kind+"|"+a.Field] {
			continue
		}
		seenField[a.Kind+"|"+a.Field] = true
		vals := fieldValues(els, a.Field)
		p := profile(vals)
		for _, k := range model.SortedKeys(p.kinds) {
			pbt.Class(t, "value:"+k)
		}
		if p.distinctScalars >= 3 && p.unequal && p.nonScalarOrMissing > 0 {
			rich = true
		}
		if a.Kind == "histogram" {
			hist = true
			if !(p.neg && p.pos) {
				bothSigns = false
			}
		}
	}
	if rich {
		pbt.Class(t, "input:rich")
	}
	if hist && bothSigns {
		pbt.Class(t, "input:histogram-both-signs")
	}
	if rich && (!hist || bothSigns) {
		pbt.Nontrivial(t, caseKey(c))
	}
}

type prof struct {
	kinds              map[string]bool
	distinctScalars    int
	unequal            bool
	nonScalarOrMissing int
	neg, pos           bool
}

func profile(vals []fv) prof {
	p := prof{kinds: map[string]bool{}}
	freq := map[string]int{}
	for _, x := range vals {
		if !x.present {
			p.kinds["missing"] = true
			p.nonScalarOrMissing++
			continue
		}
		k := model.Kind(x.v)
		if s, ok := x.v.(string); ok && model.PlainDecimal(s) {
			k = "numeric-text"
		}
		p.kinds[k] = true
		switch v := x.v.(type) {
		case bool, string:
			freq[model.Canon(v)]++
		case float64:
			freq[model.Canon(v)]++
			if v < 0 {
				p.neg = true
			}
			if v > 0 {
				p.pos = true
			}
		default:
			p.nonScalarOrMissing++
		}
	}
	p.distinctScalars = len(freq)
	first := -1
	for _, n := range freq {
		if first < 0 {
			first = n
		} else if n != first {
			p.unequal = true
		}
	}
	return p
}

// ---------------------------------------------------------------------------------

func TestReplay(t *testing.T) {
	cf, ok := pbt.ReplayFile()
	if !ok {
		t.Skip("no replay file")
	}
	var c Case
	if err := json.Unmarshal(cf.Case, &c); err != nil {
		t.Fatal(err)
	}
	pbt.Current(t, c)
	runCase(t, c, false)
}
