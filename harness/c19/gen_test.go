package c19

import (
	"fmt"
	"testing"

	"github.com/bmeg/grip/gdbi"
	"pgregory.net/rapid"
	"verif/internal/model"
	"verif/internal/pbt"
)

// missing marks "the row has no such field" in a palette.
type missing struct{}

var (
	numberPool = []interface{}{0.0, 1.0, -1.0, 2.0, 3.0, 4.0, 5.0, -5.0, 7.0, 9.0, 10.0, -10.0, 11.0, 12.0, -12.0, 19.0, 20.0, -20.0,
		0.5, -0.5, 2.5, -2.5, 9.75, -0.25, 4.999, 99.0, -37.0, 250.0}
	stringPool = []interface{}{"a", "b", "c", "", "true", "x1", "NUMERIC"}
	textPool   = []interface{}{"7", "-3", "2.5", "0", "10"}
	oddPool    = []interface{}{nil, missing{}, []interface{}{1.0, 2.0}, []interface{}{}, []interface{}{"a"},
		map[string]interface{}{"f": 1.0}, map[string]interface{}{}, map[string]interface{}{"p": "a", "q": []interface{}{1.0}}}
)

func genValue(rt *rapid.T, label string) interface{} {
	switch k := rapid.IntRange(0, 19).Draw(rt, label+".kind"); {
	case k < 9:
		return rapid.SampledFrom(numberPool).Draw(rt, label+".num")
	case k < 12:
		return rapid.SampledFrom(stringPool).Draw(rt, label+".str")
	case k < 13:
		return rapid.SampledFrom(textPool).Draw(rt, label+".text")
	case k < 15:
		return rapid.Bool().Draw(rt, label+".bool")
	}
	return model.DeepCopy(rapid.SampledFrom(oddPool).Draw(rt, label+".odd"))
}

// genPalette draws the distinct values of one case; numbersOnly gives an all-numeric
// field (the clean case the upstream tests cover).
func genPalette(rt *rapid.T) []interface{} {
	n := rapid.IntRange(1, 7).Draw(rt, "paletteSize")
	p := make([]interface{}, n)
	numbersOnly := rapid.IntRange(0, 9).Draw(rt, "numbersOnly") == 0
	for i := range p {
		if numbersOnly {
			p[i] = rapid.SampledFrom(numberPool).Draw(rt, fmt.Sprintf("p%d.num", i))
		} else {
			p[i] = genValue(rt, fmt.Sprintf("p%d", i))
		}
	}
	return p
}

// pick draws a palette entry with a skew towards the first entries (unequal frequencies).
func pick(rt *rapid.T, p []interface{}, label string) interface{} {
	i := rapid.IntRange(0, len(p)-1).Draw(rt, label)
	if j := rapid.IntRange(0, len(p)-1).Draw(rt, label+"'"); j < i {
		i = j
	}
	return model.DeepCopy(p[i])
}

func put(d map[string]interface{}, key string, v interface{}) {
	if _, gone := v.(missing); !gone {
		d[key] = v
	}
}

func genGraph(rt *rapid.T, nV int, palette []interface{}) *model.Graph {
	g := &model.Graph{V: []*model.Element{}, E: []*model.Element{}}
	for i := 0; i < nV; i++ {
		l := fmt.Sprintf("v%d", i)
		d := map[string]interface{}{}
		put(d, "f", pick(rt, palette, l+".f"))
		switch rapid.IntRange(0, 5).Draw(rt, l+".a") {
		case 0, 1, 2:
			a := map[string]interface{}{}
			put(a, "f", pick(rt, palette, l+".a.f"))
			if rapid.Bool().Draw(rt, l+".a.g") {
				a["g"] = 1.0
			}
			d["a"] = a
		case 3:
			d["a"] = "not-a-map"
		}
		if rapid.Bool().Draw(rt, l+".x") {
			d["x"] = float64(rapid.IntRange(1, 2).Draw(rt, l+".xv"))
		}
		if rapid.IntRange(0, 3).Draw(rt, l+".y") == 0 {
			d["y"] = "y"
		}
		label := "A"
		if rapid.IntRange(0, 2).Draw(rt, l+".label") == 0 {
			label = "B"
		}
		g.V = append(g.V, &model.Element{ID: fmt.Sprintf("v%04d", i), Label: label, Data: d})
	}
	if nV > 0 {
		nE := rapid.IntRange(0, min(nV+2, 12)).Draw(rt, "nE")
		for i := 0; i < nE; i++ {
			l := fmt.Sprintf("e%d", i)
			d := map[string]interface{}{}
			if rapid.Bool().Draw(rt, l+".hasF") {
				put(d, "f", pick(rt, palette, l+".f"))
			}
			g.E = append(g.E, &model.Element{ID: fmt.Sprintf("e%03d", i), Edge: true, Label: "x",
				From: g.V[rapid.IntRange(0, nV-1).Draw(rt, l+".from")].ID, To: g.V[rapid.IntRange(0, min(nV-1, 3)).Draw(rt, l+".to")].ID, Data: d})
		}
	}
	return g
}

func genPrefix(rt *rapid.T) []model.Step {
	switch rapid.IntRange(0, 11).Draw(rt, "prefix") {
	case 0, 1, 2, 3:
		return []model.Step{model.S("V")}
	case 4, 5:
		return []model.Step{model.S("V"), model.S("hasLabel", "A")}
	case 6:
		return []model.Step{model.S("V"), model.S("hasLabel", "nolabel")} // empty input
	case 7:
		return []model.Step{model.S("V"), {Op: "has", Has: model.Leaf("eq", "x", 1.0)}}
	case 8:
		return []model.Step{model.S("V"), {Op: "has", Has: model.Leaf("gte", "f", -1.0)}}
	case 9, 10:
		return []model.Step{model.S("V"), model.S("out")} // the same vertex in several rows
	}
	return []model.Step{model.S("E")}
}

func distinctScalars(p []interface{}) int {
	seen := map[string]bool{}
	for _, v := range p {
		if isScalar(v) {
			seen[model.Canon(v)] = true
		}
	}
	return len(seen)
}

var percentLists = [][]float64{
	{0, 50, 100}, {50}, {100, 0}, {99.9, 1, 50, 25}, {50, 50, 10}, {0}, {100}, {25, 50, 75}, {1, 5, 25, 50, 75, 95, 99, 99.9}, {},
}

// kindDeck is shuffled per aggregation (rapid's integer draws favour small values; its
// permutations are uniform), the first card is the kind.
var kindDeck = []string{"term", "term", "histogram", "histogram", "percentile", "percentile", "field", "type", "count"}

func genAgg(rt *rapid.T, label, name string, nDistinct int) model.Agg {
	l := label + name
	kind := rapid.Permutation(kindDeck).Draw(rt, l+".kind")[0]
	field := func(extra ...string) string {
		pool := append([]string{"f", "f", "f", "f", "a.f", "a.f"}, extra...)
		return rapid.SampledFrom(pool).Draw(rt, l+".field")
	}
	switch kind {
	case "term":
		size := rapid.SampledFrom([]int{0, 0, 1, 2, nDistinct, nDistinct + 1, max(nDistinct-1, 0)}).Draw(rt, l+".size")
		return model.Agg{Name: name, Kind: "term", Field: field("_label", "nope"), Size: uint32(size)}
	case "histogram":
		return model.Agg{Name: name, Kind: "histogram", Field: field("nope"), Interval: uint32(rapid.SampledFrom([]int{1, 2, 5, 10}).Draw(rt, l+".interval"))}
	case "percentile":
		return model.Agg{Name: name, Kind: "percentile", Field: field("nope"), Percents: append([]float64{}, rapid.SampledFrom(percentLists).Draw(rt, l+".percents")...)}
	case "field":
		return model.Agg{Name: name, Kind: "field", Field: rapid.SampledFrom([]string{"_data", "$._data", "a", "f", "nope"}).Draw(rt, l+".field")}
	case "type":
		return model.Agg{Name: name, Kind: "type", Field: field("a", "_label", "nope")}
	}
	return model.Agg{Name: name, Kind: "count"}
}

// genSteps draws prefix + aggregate step for a graph drawn from the palette.
func genSteps(rt *rapid.T, palette []interface{}, label string) []model.Step {
	steps := genPrefix(rt)
	k := rapid.SampledFrom([]int{2, 1, 3, 4, 1, 2}).Draw(rt, label+"k")
	aggs := make([]model.Agg, k)
	nd := distinctScalars(palette)
	for i := range aggs {
		aggs[i] = genAgg(rt, label, fmt.Sprintf("a%d", i), nd)
	}
	return append(steps, model.Step{Op: "aggregate", Aggs: aggs})
}

func genCase(rt *rapid.T, nV int) Case {
	palette := genPalette(rt)
	g := genGraph(rt, nV, palette)
	return Case{Graph: g, Steps: genSteps(rt, palette, "")}
}

func sample(t pbt.Named, c Case) {
	if pbt.WantSample(t) {
		vals := []string{}
		for i, v := range c.Graph.V {
			if i >= 12 {
				vals = append(vals, "…")
				break
			}
			if f, ok := v.Data["f"]; ok {
				vals = append(vals, model.Canon(f))
			} else {
				vals = append(vals, "<missing>")
			}
		}
		pbt.Sample(t, map[string]interface{}{"traversal": model.TravString(c.Steps), "vertices": len(c.Graph.V), "edges": len(c.Graph.E), "f": vals})
	}
}

func TestRandom(t *testing.T) {
	// one stored graph serves three traversals (storing the graph is half the cost of a case)
	pbt.Check(t, 1100, 35000, func(rt *rapid.T) {
		n := 0
		switch s := rapid.IntRange(0, 9).Draw(rt, "sizeClass"); {
		case s < 5:
			n = rapid.IntRange(3, 20).Draw(rt, "nV")
		case s < 9:
			n = rapid.IntRange(21, 60).Draw(rt, "nV")
		default:
			n = rapid.IntRange(0, 2).Draw(rt, "nV")
		}
		palette := genPalette(rt)
		g := genGraph(rt, n, palette)
		var gi gdbi.GraphInterface
		for i := 0; i < 3; i++ {
			c := Case{Graph: g, Steps: genSteps(rt, palette, fmt.Sprintf("t%d.", i))}
			pbt.Current(rt, c)
			sample(rt, c)
			if gi == nil {
				gi = load(rt, g)
			}
			runLoaded(rt, gi, c, false)
		}
	})
}

// TestBuffer: inputs around and above the 1000-traveler buffer each aggregation reads from.
func TestBuffer(t *testing.T) {
	pbt.Check(t, 40, 1600, func(rt *rapid.T) {
		n := rapid.SampledFrom([]int{999, 1000, 1000, 1001, 1001, 1002, 1500, 2100}).Draw(rt, "nV")
		c := genCase(rt, n)
		// mostly the plain scan, so that the row count is the vertex count
		if rapid.IntRange(0, 3).Draw(rt, "plainV") > 0 {
			c.Steps = []model.Step{model.S("V"), c.Steps[len(c.Steps)-1]}
		}
		pbt.Current(rt, c)
		sample(rt, c)
		runCase(rt, c, false)
	})
}
