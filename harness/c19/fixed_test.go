package c19

import (
	"bytes"
	"encoding/json"
	"fmt"
	"os"
	"os/exec"
	"regexp"
	"strings"
	"testing"

	"verif/internal/model"
	"verif/internal/pbt"
)

// graphOf builds a graph of A-labelled vertices with the given values of f (missing{} =
// the vertex has no f).
func graphOf(vals ...interface{}) *model.Graph {
	g := &model.Graph{V: []*model.Element{}, E: []*model.Element{}}
	for i, v := range vals {
		d := map[string]interface{}{}
		put(d, "f", v)
		g.V = append(g.V, &model.Element{ID: fmt.Sprintf("v%04d", i), Label: "A", Data: d})
	}
	return g
}

func aggCase(g *model.Graph, aggs ...model.Agg) Case {
	return Case{Graph: g, Steps: []model.Step{model.S("V"), {Op: "aggregate", Aggs: aggs}}}
}

// fixedCases: the documented examples in miniature plus one minimal case per defect the
// design expects, so that every run (any seed) exercises them.
func fixedCases() []Case {
	l := []interface{}{1.0}
	m := map[string]interface{}{"k": 1.0}
	return []Case{
		// clean inputs (what conformance/tests/ot_aggregations.py covers)
		aggCase(graphOf("brown", "blue", "blue", "red", "blue", "brown"), model.Agg{Name: "t", Kind: "term", Field: "f"}),
		aggCase(graphOf(96.0, 97.0, 150.0, 165.0, 167.0, 202.0, 228.0), model.Agg{Name: "h", Kind: "histogram", Field: "f", Interval: 25}),
		aggCase(graphOf(96.0, 97.0, 150.0, 165.0, 167.0, 202.0, 228.0), model.Agg{Name: "p", Kind: "percentile", Field: "f", Percents: []float64{1, 5, 25, 50, 75, 95, 99, 99.9}}),
		aggCase(graphOf(1.0, "a", missing{}), model.Agg{Name: "fld", Kind: "field", Field: "$._data"}, model.Agg{Name: "n", Kind: "count"}),
		aggCase(graphOf(1.0, "a", true, nil, l, m, missing{}), model.Agg{Name: "ty", Kind: "type", Field: "f"}),
		aggCase(graphOf(-0.5, -10.0, 0.0, 9.999, 10.0), model.Agg{Name: "h", Kind: "histogram", Field: "f", Interval: 10}),
		// term: size
		aggCase(graphOf("a", "a", "b"), model.Agg{Name: "t", Kind: "term", Field: "f", Size: 1}),
		aggCase(graphOf("a", "b", "b", "c", "c", "c", l, missing{}), model.Agg{Name: "t", Kind: "term", Field: "f", Size: 2}),
		// histogram: non-numeric values
		aggCase(graphOf(15.0, "x"), model.Agg{Name: "h", Kind: "histogram", Field: "f", Interval: 10}),
		aggCase(graphOf(15.0, l, m), model.Agg{Name: "h", Kind: "histogram", Field: "f", Interval: 10}),
		aggCase(graphOf(15.0, true), model.Agg{Name: "h", Kind: "histogram", Field: "f", Interval: 10}),
		aggCase(graphOf(15.0, "7"), model.Agg{Name: "h", Kind: "histogram", Field: "f", Interval: 10}),
		aggCase(graphOf(1.0, "NaN"), model.Agg{Name: "h", Kind: "histogram", Field: "f", Interval: 1}),
		// percentile: non-numeric values
		aggCase(graphOf(10.0, 20.0, missing{}), model.Agg{Name: "p", Kind: "percentile", Field: "f", Percents: []float64{0, 50, 100}}),
		aggCase(graphOf(10.0, 20.0, "x"), model.Agg{Name: "p", Kind: "percentile", Field: "f", Percents: []float64{0, 50, 100}}),
		aggCase(graphOf(10.0, 20.0, false), model.Agg{Name: "p", Kind: "percentile", Field: "f", Percents: []float64{0, 50, 100}}),
		aggCase(graphOf("x", missing{}), model.Agg{Name: "p", Kind: "percentile", Field: "f", Percents: []float64{0, 50, 100}}),
		aggCase(graphOf(), model.Agg{Name: "p", Kind: "percentile", Field: "f", Percents: []float64{50}}, model.Agg{Name: "t", Kind: "term", Field: "f"}, model.Agg{Name: "n", Kind: "count"}),
		// several in one step
		aggCase(graphOf(1.0, 1.0, 2.0, -3.0, "a", missing{}), model.Agg{Name: "t", Kind: "term", Field: "f"}, model.Agg{Name: "n", Kind: "count"}, model.Agg{Name: "ty", Kind: "type", Field: "f"}, model.Agg{Name: "fld", Kind: "field", Field: "_data"}),
	}
}

func TestFixed(t *testing.T) {
	if _, ok := pbt.ReplayFile(); ok {
		t.Skip("replay mode")
	}
	for i, c := range fixedCases() {
		if !pbt.ShardOwns(i) {
			continue
		}
		pbt.Current(t, c)
		sample(t, c)
		runCase(t, c, false)
	}
	pbt.Exhaustive(t)
}

// ---------------------------------------------------------------------------------
// process-killing inputs: confirmed in a child process

// crashCases are the minimal inputs of the listed process-killing findings.
func crashCases() []Case {
	h := model.Agg{Name: "h", Kind: "histogram", Field: "f", Interval: 10}
	return []Case{
		aggCase(graphOf(), h),                    // no rows at all
		aggCase(graphOf(missing{}, nil), h),      // rows, but none holds a value
		aggCase(graphOf(1.0), model.Agg{Name: "h", Kind: "histogram", Field: "nope", Interval: 1}, model.Agg{Name: "n", Kind: "count"}),
		{Graph: graphOf(1.0, 2.0), Steps: []model.Step{model.S("V"), model.S("hasLabel", "nolabel"), {Op: "aggregate", Aggs: []model.Agg{h}}}},
		// a string spelling an infinity is read as a number: the bucket loop never reaches it
		aggCase(graphOf(1.0, "inf"), model.Agg{Name: "h", Kind: "histogram", Field: "f", Interval: 1}),
		aggCase(graphOf(3.0, "-Infinity", "a"), model.Agg{Name: "h", Kind: "histogram", Field: "f", Interval: 10}, model.Agg{Name: "n", Kind: "count"}),
	}
}

const childEnv = "VERIF_C19_CHILD_CASE"

// childMaxRows: the crash cases hold at most 3 values within [-10,10]; a correct
// histogram has at most 3 non-empty buckets and, with empty ones, at most 21.
const childMaxRows = 20_000

// TestCrashChild runs the case handed over in the environment (only as a child of
// TestKnownCrashes); it exits normally iff the traversal finishes.
func TestCrashChild(t *testing.T) {
	s := os.Getenv(childEnv)
	if s == "" {
		t.Skip("not a child")
	}
	var c Case
	if err := json.Unmarshal([]byte(s), &c); err != nil {
		t.Fatal(err)
	}
	// the parent's bound on the result rows: anything above it is proof of an unbounded
	// stream (the inputs of crashCases admit at most a handful of buckets)
	maxRows = childMaxRows
	out := run(load(t, c.Graph), c.Steps)
	switch {
	case out.compileErr != nil:
		fmt.Printf("CHILD: rejected: %v\n", out.compileErr)
	case out.hang:
		fmt.Printf("CHILD: HANG %s\n%s", out.report.Reason, out.report.Stacks())
		os.Exit(7)
	case int64(len(out.rows)) >= maxRows:
		fmt.Printf("CHILD: UNBOUNDED more than %d rows\n", maxRows)
		os.Exit(8)
	default:
		fmt.Printf("CHILD: finished with %d rows\n", len(out.rows))
	}
}

var panicRe = regexp.MustCompile(`(?s)(panic: .*?)\n\n?goroutine \d+ \[[^\]]*\]:\n(.*)`)

// crashSummary extracts the panic message and the innermost bmeg/grip frame.
func crashSummary(out string) (msg, frame string, ok bool) {
	m := panicRe.FindStringSubmatch(out)
	if m == nil {
		return "", "", false
	}
	msg = strings.TrimSpace(strings.SplitN(m[1], "\n", 2)[0])
	lines := strings.Split(m[2], "\n")
	for i, ln := range lines {
		if strings.HasPrefix(ln, "github.com/bmeg/grip/") {
			frame = strings.TrimSpace(ln)
			if i+1 < len(lines) {
				loc := strings.TrimSpace(lines[i+1])
				if j := strings.Index(loc, " +0x"); j >= 0 {
					loc = loc[:j]
				}
				if j := strings.Index(loc, "/engine/"); j >= 0 {
					loc = loc[j+1:]
				}
				frame += " " + loc
			}
			break
		}
	}
	return msg, frame, true
}

func runChild(t *testing.T, c Case) (output string, exit int) {
	b, err := json.Marshal(c)
	if err != nil {
		t.Fatal(err)
	}
	cmd := exec.Command(os.Args[0], "-test.run", "^TestCrashChild$", "-test.v")
	env := []string{}
	for _, kv := range os.Environ() {
		k := strings.SplitN(kv, "=", 2)[0]
		switch k {
		case "VERIF_STATS_DIR", "VERIF_FAIL_DIR", "VERIF_REPLAY", "VERIF_MERGE", "VERIF_SCRATCH", "TMPDIR", childEnv:
			continue
		}
		env = append(env, kv)
	}
	scratch := pbt.ScratchDir("child-")
	defer os.RemoveAll(scratch)
	cmd.Env = append(env, childEnv+"="+string(b), "VERIF_SCRATCH="+scratch, "TMPDIR="+scratch)
	var buf bytes.Buffer
	cmd.Stdout, cmd.Stderr = &buf, &buf
	err = cmd.Run()
	exit = 0
	if err != nil {
		exit = -1
		if ee, ok := err.(*exec.ExitError); ok {
			exit = ee.ExitCode()
		} else {
			t.Fatalf("INFRA: cannot start child: %v", err)
		}
	}
	return buf.String(), exit
}

func TestKnownCrashes(t *testing.T) {
	if _, ok := pbt.ReplayFile(); ok {
		t.Skip("replay mode")
	}
	if os.Getenv(childEnv) != "" {
		t.Skip("child")
	}
	for i, c := range crashCases() {
		if !pbt.ShardOwns(i) {
			continue
		}
		out, exit := runChild(t, c)
		if exit == 0 && strings.Contains(out, "CHILD: finished") {
			// the child survived: judge the case here, without steering
			pbt.Class(t, "crash-case:survived")
			runCase(t, c, true)
			continue
		}
		pbt.Case(t)
		pbt.Class(t, "crash-case:died")
		trav := model.TravString(c.Steps)
		if msg, frame, ok := crashSummary(out); ok && strings.Contains(frame, "core.(*aggregate).Process") && strings.Contains(msg, "index out of range [0] with length 0") {
			if pbt.Discrepancy(t, c, sigEmptyHistogram, "%s over a graph of %d vertices kills the process: %s at %s", trav, len(c.Graph.V), msg, frame) {
				return
			}
			continue
		}
		if msg, frame, ok := crashSummary(out); ok {
			pbt.Discrepancy(t, c, "crash:"+frame, "%s kills the process: %s at %s", trav, msg, frame)
			return
		}
		if exit == 8 && strings.Contains(out, "CHILD: UNBOUNDED") {
			if pbt.Discrepancy(t, c, "histogram:non-finite-text", "%s over the values %s: the result stream does not end (more than %d rows read; a histogram of these values has at most 21 buckets)", trav, valuesText(fieldValues(c.Graph.V, "f"), "histogram"), childMaxRows) {
				return
			}
			continue
		}
		if exit == 7 {
			pbt.Discrepancy(t, c, "hang:"+kindsOf(c.aggs()), "%s never closes its stream:\n%s", trav, tail(out, 2000))
			return
		}
		t.Fatalf("INFRA: child exited %d without a recognisable verdict:\n%s", exit, tail(out, 3000))
	}
	pbt.Exhaustive(t)
}

func tail(s string, n int) string {
	if len(s) > n {
		return "…" + s[len(s)-n:]
	}
	return s
}
