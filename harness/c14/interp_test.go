package c14

// A small interpreter of MongoDB query ($match) documents over SCALAR documents: every
// field is missing, null, a boolean, a number or a string, possibly below embedded
// documents (no arrays inside the stored documents). It implements only what
// mongo/has_evaluator.go (and hasKey/hasLabel/hasId) can emit, with the semantics of
// the MongoDB manual; anything else is reported as "invalid" (the server would refuse
// the query) or "not judged" (the manual does not settle the answer).
//
// Rules (manual pages: Query Documents, Query for Null or Missing Fields,
// Comparison/Sort Order, $eq $ne $gt $gte $lt $lte $in $nin $not $and $or $nor $exists):
//   R1  a query document is the conjunction of its entries; {} selects every document
//   R2  "a.b.c" descends through embedded documents; a path through a non-document or
//       an absent key is a missing field
//   R3  {f: v} / {f: {$eq: v}}: the field equals v; numbers compare by numeric value,
//       strings byte-wise, booleans as booleans; v == null selects null AND missing
//   R4  $ne is the complement of $eq (so it selects missing fields when v != null)
//   R5  $gt/$gte/$lt/$lte compare only within one type bracket (number with number,
//       string with string, boolean with boolean); a field of another bracket, a null
//       or a missing field is not selected; strings order by simple binary comparison,
//       false < true. Ordering against a null operand is NOT JUDGED (undocumented).
//   R6  $in needs an array (else the query is refused) and selects a field that $eq-
//       matches any member (a null member selects missing fields); $nin = complement
//   R7  {f: {$not: {<operator expression>}}} selects the documents that do not satisfy
//       the operator expression, including those without the field; the operand must be
//       a non-empty document of operators (else refused). A nested $not is accepted
//       (the server parses $not inside an operator expression) and negates again.
//   R8  $and/$or/$nor need a NON-EMPTY array of documents (else refused)
//   R9  $exists: true selects present fields (null included), false missing ones
//   R10 $elemMatch never selects a scalar or missing field
//   R11 an operator document may not mix operators and plain keys; unknown operators
//       are refused

import (
	"fmt"
	"strings"

	"go.mongodb.org/mongo-driver/bson"
)

// invalidQuery: MongoDB would refuse the whole query.
type invalidQuery struct{ construct string }

func (e invalidQuery) Error() string { return "invalid MongoDB query: " + e.construct }

// notJudged: the documented semantics do not settle this (operator, operand) pair.
type notJudged struct{ reason string }

func (e notJudged) Error() string { return "not judged: " + e.reason }

// wire puts a filter through BSON encoding, as the driver would, and decodes it into
// ordered documents (bson.D / bson.A) for interpretation.
func wire(filter interface{}) (bson.D, error) {
	raw, err := bson.Marshal(filter)
	if err != nil {
		return nil, err
	}
	var d bson.D
	if err := bson.Unmarshal(raw, &d); err != nil {
		return nil, err
	}
	return d, nil
}

// lookupPath resolves a dotted path in a stored (scalar) document (R2).
func lookupPath(doc map[string]interface{}, path string) (interface{}, bool) {
	var cur interface{} = doc
	for _, p := range strings.Split(path, ".") {
		m, ok := cur.(map[string]interface{})
		if !ok {
			return nil, false
		}
		cur, ok = m[p]
		if !ok {
			return nil, false
		}
	}
	return cur, true
}

func bracket(v interface{}) string {
	switch v.(type) {
	case nil:
		return "null"
	case bool:
		return "bool"
	case float64, float32, int32, int64, int:
		return "number"
	case string:
		return "string"
	case bson.A, []interface{}:
		return "array"
	case bson.D, bson.M, map[string]interface{}:
		return "document"
	}
	return fmt.Sprintf("other(%T)", v)
}

func num(v interface{}) float64 {
	switch x := v.(type) {
	case float64:
		return x
	case float32:
		return float64(x)
	case int32:
		return float64(x)
	case int64:
		return float64(x)
	case int:
		return float64(x)
	}
	panic("not a number")
}

// eqMatch implements R3 for a scalar stored value.
func eqMatch(val interface{}, present bool, q interface{}) bool {
	if q == nil {
		return !present || val == nil
	}
	if !present {
		return false
	}
	bv, bq := bracket(val), bracket(q)
	if bv != bq {
		return false
	}
	switch bv {
	case "number":
		return num(val) == num(q)
	case "string":
		return val.(string) == q.(string)
	case "bool":
		return val.(bool) == q.(bool)
	}
	// stored values are scalars: an array or document operand never equals them
	return false
}

// cmpMatch implements R5.
func cmpMatch(op string, val interface{}, present bool, q interface{}) (bool, error) {
	if q == nil {
		return false, notJudged{"ordering operator with a null operand"}
	}
	if !present || val == nil {
		return false, nil
	}
	bv, bq := bracket(val), bracket(q)
	if bv != bq {
		return false, nil
	}
	c := 0
	switch bv {
	case "number":
		a, b := num(val), num(q)
		switch {
		case a < b:
			c = -1
		case a > b:
			c = 1
		}
	case "string":
		c = strings.Compare(val.(string), q.(string))
	case "bool":
		a, b := val.(bool), q.(bool)
		switch {
		case !a && b:
			c = -1
		case a && !b:
			c = 1
		}
	default:
		return false, nil
	}
	switch op {
	case "$gt":
		return c > 0, nil
	case "$gte":
		return c >= 0, nil
	case "$lt":
		return c < 0, nil
	}
	return c <= 0, nil
}

func isOperatorDoc(d bson.D) (bool, error) {
	if len(d) == 0 {
		return false, nil
	}
	ops := 0
	for _, e := range d {
		if strings.HasPrefix(e.Key, "$") {
			ops++
		}
	}
	if ops == 0 {
		return false, nil
	}
	if ops != len(d) {
		return false, invalidQuery{"operator document mixes operators and plain keys"}
	}
	return true, nil
}

func truthy(v interface{}) bool {
	switch x := v.(type) {
	case nil:
		return false
	case bool:
		return x
	case float64, int32, int64:
		return num(x) != 0
	}
	return true
}

// matchOps evaluates an operator expression {$op: arg, ...} against one field (all
// operators must hold).
func matchOps(ops bson.D, val interface{}, present bool) (bool, error) {
	res := true
	for _, e := range ops {
		var r bool
		var err error
		switch e.Key {
		case "$eq":
			r = eqMatch(val, present, e.Value)
		case "$ne":
			r = !eqMatch(val, present, e.Value)
		case "$gt", "$gte", "$lt", "$lte":
			r, err = cmpMatch(e.Key, val, present, e.Value)
		case "$in", "$nin":
			arr, ok := e.Value.(bson.A)
			if !ok {
				return false, invalidQuery{e.Key + ":non-array"}
			}
			for _, m := range arr {
				if md, ok := m.(bson.D); ok {
					if isOp, _ := isOperatorDoc(md); isOp {
						return false, invalidQuery{e.Key + ":operator-member"}
					}
				}
				if eqMatch(val, present, m) {
					r = true
				}
			}
			if e.Key == "$nin" {
				r = !r
			}
		case "$not":
			inner, ok := e.Value.(bson.D)
			if !ok {
				return false, invalidQuery{"$not:non-document"}
			}
			if len(inner) == 0 {
				return false, invalidQuery{"$not:{}"}
			}
			isOp, err2 := isOperatorDoc(inner)
			if err2 != nil || !isOp {
				return false, invalidQuery{"$not:non-operator-document"}
			}
			r, err = matchOps(inner, val, present)
			r = !r
		case "$exists":
			r = present == truthy(e.Value)
		case "$elemMatch":
			if _, ok := e.Value.(bson.D); !ok {
				return false, invalidQuery{"$elemMatch:non-document"}
			}
			if b := bracket(val); present && (b == "array" || b == "document") {
				return false, fmt.Errorf("interpreter: stored value is not a scalar")
			}
			r = false
		default:
			return false, invalidQuery{"unknown-operator:" + e.Key}
		}
		if err != nil {
			return false, err
		}
		res = res && r
	}
	return res, nil
}

// matchQuery evaluates a query document against a stored document (R1).
func matchQuery(q bson.D, doc map[string]interface{}) (bool, error) {
	res := true
	for _, e := range q {
		var r bool
		switch e.Key {
		case "$and", "$or", "$nor":
			arr, ok := e.Value.(bson.A)
			if !ok {
				return false, invalidQuery{e.Key + ":non-array"}
			}
			if len(arr) == 0 {
				return false, invalidQuery{e.Key + ":[]"}
			}
			all, any := true, false
			for _, m := range arr {
				md, ok := m.(bson.D)
				if !ok {
					return false, invalidQuery{e.Key + ":non-document-member"}
				}
				x, err := matchQuery(md, doc)
				if err != nil {
					return false, err
				}
				all = all && x
				any = any || x
			}
			switch e.Key {
			case "$and":
				r = all
			case "$or":
				r = any
			default:
				r = !any
			}
		default:
			if strings.HasPrefix(e.Key, "$") {
				return false, invalidQuery{"unknown-top-level-operator:" + e.Key}
			}
			val, present := lookupPath(doc, e.Key)
			if b := bracket(val); present && (b == "array" || strings.HasPrefix(b, "other")) {
				return false, fmt.Errorf("interpreter: stored value at %s is not a scalar", e.Key)
			}
			if present && bracket(val) == "document" {
				// a condition on an embedded document itself: scalar operands never equal it
				val, present = struct{}{}, true
			}
			if od, ok := e.Value.(bson.D); ok {
				isOp, err := isOperatorDoc(od)
				if err != nil {
					return false, err
				}
				if isOp {
					x, err := matchOps(od, val, present)
					if err != nil {
						return false, err
					}
					r = x
					break
				}
			}
			r = eqMatch(val, present, e.Value)
		}
		res = res && r
	}
	return res, nil
}
