package c14

import (
	"encoding/json"
	"fmt"
	"reflect"
	"strconv"
	"strings"
	"testing"

	"github.com/bmeg/grip/engine/logic"
	"github.com/bmeg/grip/gdbi"
	"github.com/bmeg/grip/gripql"
	gripmongo "github.com/bmeg/grip/mongo"
	"go.mongodb.org/mongo-driver/bson"
	"pgregory.net/rapid"
	"verif/internal/gen"
	"verif/internal/model"
	"verif/internal/pbt"
)

// ---------------------------------------------------------------------------------
// (b) filter equivalence

// sdoc is one stored element with scalar fields only.
type sdoc struct {
	ID    string                 `json:"id"`
	Label string                 `json:"label"`
	From  string                 `json:"from,omitempty"`
	To    string                 `json:"to,omitempty"`
	Data  map[string]interface{} `json:"data"`
}

// mongoDoc is the document as the Mongo backend stores it (mongo/convert.go).
func (d sdoc) mongoDoc() map[string]interface{} {
	m := map[string]interface{}{"_id": d.ID, "label": d.Label, "data": model.CopyMap(d.Data)}
	if d.From != "" || d.To != "" {
		m["from"], m["to"] = d.From, d.To
	}
	return m
}

// traveler is the same element as the core engine sees it.
func (d sdoc) traveler() gdbi.Traveler {
	cur := &gdbi.DataElement{ID: d.ID, Label: d.Label, From: d.From, To: d.To, Data: model.CopyMap(d.Data), Loaded: true}
	var t gdbi.Traveler = &gdbi.BaseTraveler{}
	return t.AddCurrent(cur)
}

func (d sdoc) String() string {
	b, _ := json.Marshal(d)
	return string(b)
}

// lookup resolves a has-key on the document (for signatures only).
func (d sdoc) lookup(key string) (interface{}, bool) {
	switch key {
	case "_gid":
		return d.ID, true
	case "_label":
		return d.Label, true
	case "_from":
		return d.From, d.From != ""
	case "_to":
		return d.To, d.To != ""
	}
	return lookupPath(d.Data, key)
}

type filterCase struct {
	Expr *model.Expr `json:"expr"`
	Docs []sdoc      `json:"docs"`
}

func numericText(s string) bool {
	_, err := strconv.ParseFloat(s, 64)
	return err == nil
}

func kindOf(v interface{}, present bool) string {
	if !present {
		return "missing"
	}
	if s, ok := v.(string); ok {
		if numericText(s) {
			return "numtext"
		}
		return "text"
	}
	return model.Kind(v)
}

func listKind(l []interface{}) string {
	if len(l) == 0 {
		return "emptylist"
	}
	ks := []string{}
	seen := map[string]bool{}
	for _, m := range l {
		k := kindOf(m, true)
		if !seen[k] {
			seen[k] = true
			ks = append(ks, k)
		}
	}
	sortStrings(ks)
	return "list(" + strings.Join(ks, "+") + ")"
}

func argKind(a interface{}) string {
	if l, ok := a.([]interface{}); ok {
		return listKind(l)
	}
	return kindOf(a, true)
}

// orderingCell keys one $gt/$gte/$lt/$lte comparison by the kinds of its operands. Two
// strings (numeric text or not) share one key: MongoDB orders any two strings byte-wise
// whereas the core engine orders only their numeric readings.
func orderingCell(vk, ak string) string {
	isStr := func(k string) bool { return k == "numtext" || k == "text" }
	if isStr(vk) && isStr(ak) {
		return "filter:ordering:string-vs-string"
	}
	return fmt.Sprintf("filter:ordering:%s-vs-%s", vk, ak)
}

var rangeParts = map[string][2]string{"inside": {"gt", "lt"}, "outside": {"lt", "gt"}, "between": {"gte", "lt"}}

// leafCell is the root-cause key of a disagreement on one condition: operator family x
// kind of the stored value x kind of the argument. The seven ordering conditions share
// one family (inside/outside/between are translated into $gt/$gte/$lt and are keyed by
// the bound on which the two sides differ); malformed range arguments and "contains on
// a scalar equal to the argument" do not depend on the value kind and get their own
// keys.
func leafCell(lf *model.Expr, d sdoc) string {
	v, present := d.lookup(lf.Key)
	vk := kindOf(v, present)
	switch lf.Op {
	case "gt", "gte", "lt", "lte":
		return orderingCell(vk, argKind(lf.Arg))
	case "inside", "outside", "between":
		l, ok := lf.Arg.([]interface{})
		switch {
		case !ok:
			return "filter:range:arg-not-a-list"
		case len(l) != 2:
			return fmt.Sprintf("filter:range:arg-list-of-%d", min(len(l), 3))
		}
		for _, b := range l {
			if k := kindOf(b, true); k != "number" && k != "numtext" {
				// the core engine drops the whole condition, MongoDB still evaluates the other half
				return "filter:range:non-numeric-bound"
			}
		}
		for i, op := range rangeParts[lf.Op] {
			part := model.Leaf(op, lf.Key, l[i])
			m, err := mongoSelects(part, false, d.mongoDoc())
			c, p := coreKeeps(d, part.Proto())
			if err == nil && p == nil && m != c {
				return orderingCell(vk, kindOf(l[i], true))
			}
		}
		return orderingCell(vk, kindOf(l[0], true)+"+"+kindOf(l[1], true))
	case "contains":
		if (present && model.Equal(v, lf.Arg)) || (!present && lf.Arg == nil) {
			// {$in: [arg]} is an equality test on a scalar field (null equals missing)
			return "filter:contains:scalar-field-equals-arg"
		}
	}
	return fmt.Sprintf("filter:%s:%s:%s", lf.Op, vk, argKind(lf.Arg))
}

func convert(e *gripql.HasExpression, not bool) (f bson.M, p *panicInfo) {
	defer func() {
		if r := recover(); r != nil {
			p = newPanicInfo(r)
		}
	}()
	return gripmongo.VerifConvertHasExpression(e, not), nil
}

func coreKeeps(d sdoc, e *gripql.HasExpression) (keep bool, p *panicInfo) {
	defer func() {
		if r := recover(); r != nil {
			p = newPanicInfo(r)
		}
	}()
	return logic.MatchesHasExpression(d.traveler(), e), nil
}

// mongoSelects evaluates convertHasExpression(e, not) on a document.
func mongoSelects(e *model.Expr, not bool, d map[string]interface{}) (bool, error) {
	f, p := convert(e.Proto(), not)
	if p != nil {
		return false, fmt.Errorf("%s", p.Sig)
	}
	q, err := wire(f)
	if err != nil {
		return false, err
	}
	return matchQuery(q, d)
}

// combine evaluates the Boolean structure of e over per-leaf answers.
func combine(e *model.Expr, leaf func(*model.Expr) (bool, error)) (bool, error) {
	switch e.Op {
	case "and":
		r := true
		for _, k := range e.Kids {
			x, err := combine(k, leaf)
			if err != nil {
				return false, err
			}
			r = r && x
		}
		return r, nil
	case "or":
		r := false
		for _, k := range e.Kids {
			x, err := combine(k, leaf)
			if err != nil {
				return false, err
			}
			r = r || x
		}
		return r, nil
	case "not":
		x, err := combine(e.Kids[0], leaf)
		return !x, err
	}
	return leaf(e)
}

func skeleton(e *model.Expr) string {
	if e.IsLeaf() {
		return "c"
	}
	parts := make([]string, len(e.Kids))
	for i, k := range e.Kids {
		parts[i] = skeleton(k)
	}
	return e.Op + "(" + strings.Join(parts, ",") + ")"
}

func notUnderNot(e *model.Expr, under bool) bool {
	if e.Op == "not" {
		if under {
			return true
		}
		under = true
	}
	for _, k := range e.Kids {
		if notUnderNot(k, under) {
			return true
		}
	}
	return false
}

// attribute finds the root cause of "mongo selected != core kept" on one document.
func attribute(e *model.Expr, d sdoc, got bool) string {
	md := d.mongoDoc()
	// 1. is the translation of the Boolean structure at fault? Compare the whole filter
	// with the same structure evaluated over the filters of the single conditions.
	want, err := combine(e, func(lf *model.Expr) (bool, error) { return mongoSelects(lf, false, md) })
	if err == nil && want != got {
		if notUnderNot(e, false) {
			return "filter:boolean:not-under-not"
		}
		// a condition translated under the not flag?
		for _, lf := range e.Leaves() {
			pos, err1 := mongoSelects(lf, false, md)
			neg, err2 := mongoSelects(lf, true, md)
			if err1 == nil && err2 == nil && pos == neg {
				cell := leafCell(lf, d)
				if cell == "filter:range:arg-not-a-list" {
					return cell // no filter was emitted at all: nothing to negate
				}
				return cell + ":under-not"
			}
		}
		sk := skeleton(e)
		if len(sk) > 60 {
			sk = sk[:60] + "..."
		}
		return "filter:boolean:" + sk
	}
	// 2. a single condition means something else in MongoDB than in the core engine
	for _, lf := range e.Leaves() {
		m, err := mongoSelects(lf, false, md)
		c, p := coreKeeps(d, lf.Proto())
		if err == nil && p == nil && m != c {
			return leafCell(lf, d)
		}
	}
	return "filter:unattributed"
}

func docsKey(docs []sdoc) string {
	b, _ := json.Marshal(docs)
	return string(b)
}

// runFilter judges one expression against its documents. key identifies the case for
// the distinct non-trivial count.
func runFilter(t pbt.TB, c filterCase, key string) {
	pbt.Case(t)
	e := c.Expr
	proto := e.Proto()
	f, p := convert(proto, false)
	if p != nil {
		pbt.Class(t, "convert-panicked")
		report(t, c, p.Sig, "convertHasExpression(%s) panicked: %s", e, p.Value)
		return
	}
	// the filter embedded in the compiled pipeline V().has(e) is that same document
	stmts := model.Protos([]model.Step{model.S("V"), {Op: "has", Has: e}})
	mc := compileMongo(stmts)
	if mc.Verdict != "accept" {
		sig := "pipeline:has-" + mc.Verdict
		if mc.Panic != nil {
			sig = mc.Panic.Sig
		}
		report(t, c, sig, "mongo compile of V().has(%s): %s %s", e, mc.Verdict, mc.Err)
		return
	}
	col, stages, ok := gripmongo.VerifPipelineStages(mc.Pipe)
	if !ok || col != "_vertices" || len(stages) == 0 {
		report(t, c, "pipeline:no-mongo-stages", "V().has(%s): no Mongo stages (ok=%v collection=%q stages=%d)", e, ok, col, len(stages))
		return
	}
	last := stages[len(stages)-1]
	q, err := wire(f)
	if err != nil {
		report(t, c, "invalid-mongo:not-encodable", "filter for %s cannot be encoded as BSON: %v", e, err)
		return
	}
	if len(last) != 1 || last[0].Key != "$match" {
		report(t, c, "pipeline:last-stage-not-match", "V().has(%s): last stage is %v", e, last)
		return
	}
	if q2, err := wire(last[0].Value); err != nil || !reflect.DeepEqual(q, q2) {
		report(t, c, "pipeline:match-differs-from-convert", "V().has(%s): $match stage %v differs from convertHasExpression %v", e, last[0].Value, f)
		return
	}

	// core answers first (non-trivial rule), then the comparison
	keeps := make([]bool, len(c.Docs))
	nT, nF := 0, 0
	for i, d := range c.Docs {
		k, p := coreKeeps(d, proto)
		if p != nil {
			report(t, c, p.Sig, "core evaluation of %s on %s panicked: %s", e, d, p.Value)
			return
		}
		keeps[i] = k
		if k {
			nT++
		} else {
			nF++
		}
	}
	if nT > 0 && nF > 0 {
		pbt.Class(t, "nontrivial:selected-and-unselected")
		pbt.Nontrivial(t, key)
	}
	judged := 0
	for i, d := range c.Docs {
		got, err := matchQuery(q, d.mongoDoc())
		if err != nil {
			switch x := err.(type) {
			case notJudged:
				pbt.Class(t, "not-judged:"+x.reason)
				continue
			case invalidQuery:
				pbt.Class(t, "invalid-mongo")
				report(t, c, "invalid-mongo:"+x.construct, "%s is accepted by the core engine but its filter %v is not a valid MongoDB query: %s", e, f, x.construct)
				return
			}
			t.Fatalf("HARNESS: interpreter failed on %v / %s: %v", f, d, err)
		}
		judged++
		if got != keeps[i] {
			sig := attribute(e, d, got)
			pbt.Class(t, "disagree")
			if !report(t, c, sig, "%s on %s: mongo filter %v selects=%v, core keeps=%v", e, d, f, got, keeps[i]) {
				return // known finding: stop judging this case
			}
		}
	}
	if judged == len(c.Docs) {
		pbt.Class(t, "all-documents-agree")
	}
}

// ---------------------------------------------------------------------------------
// pools

const maxInt53 = 9007199254740992.0

var scalars = []interface{}{
	nil, true, false,
	0.0, 1.0, -1.0, 0.5, -0.5, 2.0, 3.0, 10.0, 1e308, -1e308, maxInt53, maxInt53 + 2, 5e-324,
	"1", "0.5", "-1", "2", "0", "10", "9", "abc", "", "a", "b", "B", "true", " 1", "inf", "1e3", "0x10", "v0", "A",
}

var listArgs = []interface{}{
	li(), li(1.0), li("a"), li(nil), li(1.0, "a"), li("a", "b"), li(nil, 1.0), li(true, false), li("1"), li("abc", "", 0.5), li("v0", "A", "x"),
	li(0.0, 1.0), li(1.0, 1.0), li(2.0, 0.0), li(-1.0, 0.5), li(0.0, 2.0), li("0", "2"), li(0.0, "2"), li("a", "b"), li("", "b"), li(-1e308, 1e308),
	li(0.0, 1.0, 2.0), li(true, 2.0), li(nil, nil), li(false, true), li(0.0, "inf"), li(li(0.0), 2.0), li(li(1.0)),
}

var keyForms = []string{"k", "a.k", "_gid", "_label", "_from", "_to"}

// docsFor builds the document set of a key form: one document per scalar value of the
// field the key addresses (and one without it). Reserved fields are non-empty strings.
var docsFor = func() map[string][]sdoc {
	out := map[string][]sdoc{}
	out["k"] = append(out["k"], sdoc{ID: "v", Label: "L", Data: map[string]interface{}{"other": "x"}})
	out["a.k"] = append(out["a.k"],
		sdoc{ID: "v", Label: "L", Data: map[string]interface{}{"other": "x"}},
		sdoc{ID: "v", Label: "L", Data: map[string]interface{}{"a": "x"}},
		sdoc{ID: "v", Label: "L", Data: map[string]interface{}{"a": map[string]interface{}{"b": 1.0}}})
	for _, s := range scalars {
		out["k"] = append(out["k"], sdoc{ID: "v", Label: "L", Data: map[string]interface{}{"k": s, "other": "x"}})
		out["a.k"] = append(out["a.k"], sdoc{ID: "v", Label: "L", Data: map[string]interface{}{"a": map[string]interface{}{"k": s}}})
		if str, ok := s.(string); ok && str != "" {
			out["_gid"] = append(out["_gid"], sdoc{ID: str, Label: "L", Data: map[string]interface{}{"k": 1.0}})
			out["_label"] = append(out["_label"], sdoc{ID: "v", Label: str, Data: map[string]interface{}{}})
			out["_from"] = append(out["_from"], sdoc{ID: "e", Label: "x", From: str, To: "v1", Data: map[string]interface{}{}})
			out["_to"] = append(out["_to"], sdoc{ID: "e", Label: "x", From: "v1", To: str, Data: map[string]interface{}{"k": "a"}})
		}
	}
	return out
}()

func TestFilterGrid(t *testing.T) {
	if _, ok := pbt.ReplayFile(); ok {
		t.Skip("replay mode")
	}
	args := append(append([]interface{}{}, scalars...), listArgs...)
	i := 0
	for _, op := range model.CondOps {
		for _, key := range keyForms {
			for _, a := range args {
				for _, neg := range []bool{false, true} {
					i++
					if !pbt.ShardOwns(i) {
						continue
					}
					e := model.Leaf(op, key, a)
					if neg {
						e = model.Not(e)
					}
					pbt.Class(t, "op:"+op)
					if pbt.WantSample(t) {
						pbt.Sample(t, e.String())
					}
					runFilter(t, filterCase{Expr: e, Docs: docsFor[key]}, e.String())
				}
			}
		}
	}
	pbt.Exhaustive(t)
}

// ---------------------------------------------------------------------------------
// random trees

var treeKeys = []string{"k", "k", "k", "n", "s", "a.k", "_gid", "_label", "nokey"}

var rangeNums = []interface{}{0.0, 1.0, -1.0, 0.5, 2.0, 3.0, -0.5, 10.0}

func genLeaf(t *rapid.T) *model.Expr {
	op := rapid.SampledFrom(model.CondOps).Draw(t, "op")
	key := rapid.SampledFrom(treeKeys).Draw(t, "key")
	wild := rapid.IntRange(0, 9).Draw(t, "wild") == 0
	switch op {
	case "inside", "outside", "between":
		if !wild {
			return model.Leaf(op, key, li(rapid.SampledFrom(rangeNums).Draw(t, "lo"), rapid.SampledFrom(rangeNums).Draw(t, "hi")))
		}
	case "within", "without":
		if !wild {
			n := rapid.IntRange(0, 4).Draw(t, "n")
			l := make([]interface{}, n)
			for i := range l {
				l[i] = rapid.SampledFrom(scalars).Draw(t, "member")
			}
			return model.Leaf(op, key, l)
		}
	case "gt", "gte", "lt", "lte":
		if !wild {
			return model.Leaf(op, key, rapid.SampledFrom(rangeNums).Draw(t, "num"))
		}
	default:
		if !wild {
			return model.Leaf(op, key, rapid.SampledFrom(scalars).Draw(t, "arg"))
		}
	}
	if rapid.Bool().Draw(t, "listArg") {
		return model.Leaf(op, key, rapid.SampledFrom(listArgs).Draw(t, "arg"))
	}
	return model.Leaf(op, key, rapid.SampledFrom(scalars).Draw(t, "arg"))
}

func genTree(t *rapid.T, depth int, underNot bool) *model.Expr {
	k := rapid.IntRange(0, 9).Draw(t, "node")
	if depth <= 0 || k < 4 {
		return genLeaf(t)
	}
	switch {
	case k < 8:
		n := rapid.IntRange(0, 3).Draw(t, "nkids")
		if n == 0 && rapid.IntRange(0, 3).Draw(t, "keepEmpty") != 0 {
			n = 2
		}
		kids := make([]*model.Expr, n)
		for i := range kids {
			kids[i] = genTree(t, depth-1, underNot)
		}
		if k < 6 {
			return model.And(kids...)
		}
		return model.Or(kids...)
	}
	if underNot && rapid.IntRange(0, 3).Draw(t, "nestNot") != 0 {
		// the translation of a negation below a negation is a known finding
		// (filter:boolean:not-under-not); keep most trees clear of it so that the rest
		// of the Boolean translation stays under test
		pbt.Avoided("C14-not-under-not")
		return genTree(t, depth-1, underNot)
	}
	return model.Not(genTree(t, depth-1, true))
}

var docScalars = []interface{}{nil, true, false, 0.0, 1.0, -1.0, 0.5, 2.0, 3.0, 10.0, "1", "2", "10", "a", "b", "", "abc", "A", "v0"}

func genDoc(t *rapid.T, i int) sdoc {
	l := fmt.Sprintf("d%d", i)
	d := sdoc{Data: map[string]interface{}{}}
	edge := rapid.IntRange(0, 3).Draw(t, l+".edge") == 0
	if edge {
		d.ID = rapid.SampledFrom(gen.EdgeIDs[:4]).Draw(t, l+".id")
		d.Label = rapid.SampledFrom(gen.EdgeLabels).Draw(t, l+".label")
		d.From = rapid.SampledFrom(gen.VertexIDs).Draw(t, l+".from")
		d.To = rapid.SampledFrom(gen.VertexIDs).Draw(t, l+".to")
	} else {
		d.ID = rapid.SampledFrom(gen.VertexIDs).Draw(t, l+".id")
		d.Label = rapid.SampledFrom(gen.VertexLabels).Draw(t, l+".label")
	}
	for _, k := range []string{"k", "n", "s", "l"} {
		if rapid.IntRange(0, 9).Draw(t, l+".has."+k) < 7 {
			d.Data[k] = rapid.SampledFrom(docScalars).Draw(t, l+"."+k)
		}
	}
	switch rapid.IntRange(0, 5).Draw(t, l+".a") {
	case 0:
	case 1:
		d.Data["a"] = rapid.SampledFrom([]interface{}{"x", 1.0, nil}).Draw(t, l+".a.scalar")
	default:
		a := map[string]interface{}{}
		for _, k := range []string{"k", "b"} {
			if rapid.IntRange(0, 9).Draw(t, l+".a.has."+k) < 7 {
				a[k] = rapid.SampledFrom(docScalars).Draw(t, l+".a."+k)
			}
		}
		d.Data["a"] = a
	}
	return d
}

func genDocs(t *rapid.T) []sdoc {
	n := rapid.IntRange(4, 8).Draw(t, "ndocs")
	docs := make([]sdoc, n)
	for i := range docs {
		docs[i] = genDoc(t, i)
	}
	return docs
}

func classifyTree(t pbt.Named, e *model.Expr) {
	depth := func(e *model.Expr) int { return strings.Count(skeleton(e), "(") }
	pbt.Class(t, fmt.Sprintf("tree:nodes-with-kids=%d", min(depth(e), 5)))
	if notUnderNot(e, false) {
		pbt.Class(t, "tree:not-under-not")
	}
	if strings.Contains(skeleton(e), "()") {
		pbt.Class(t, "tree:empty-and-or")
	}
}

func TestFilterTrees(t *testing.T) {
	pbt.Check(t, 40000, 2500000, func(rt *rapid.T) {
		c := filterCase{Expr: genTree(rt, 3, false), Docs: genDocs(rt)}
		classifyTree(rt, c.Expr)
		if pbt.WantSample(rt) {
			pbt.Sample(rt, map[string]interface{}{"expr": c.Expr.String(), "docs": c.Docs})
		}
		runFilter(rt, c, c.Expr.String()+"|"+docsKey(c.Docs))
	})
}

// TestFilterGenHasExpr uses the shared has-expression generator (the one the traversal
// generator embeds in has steps), restricted to current-element keys.
func TestFilterGenHasExpr(t *testing.T) {
	pbt.Check(t, 20000, 1000000, func(rt *rapid.T) {
		c := filterCase{Expr: gen.HasExpr(rt, 3, nil), Docs: genDocs(rt)}
		classifyTree(rt, c.Expr)
		if pbt.WantSample(rt) {
			pbt.Sample(rt, map[string]interface{}{"expr": c.Expr.String(), "docs": c.Docs})
		}
		runFilter(rt, c, c.Expr.String()+"|"+docsKey(c.Docs))
	})
}
