package c14

import (
	"fmt"
	"reflect"
	"strings"
	"testing"

	"github.com/bmeg/grip/gdbi"
	"pgregory.net/rapid"
	"verif/internal/gen"
	"verif/internal/model"
	"verif/internal/pbt"
)

// ---------------------------------------------------------------------------------
// (a) typing agreement

type typCase struct {
	Steps []model.Step `json:"steps"`
}

var unsupported = map[string]bool{"mark": true, "jump": true, "set": true, "increment": true}

// domain reports whether the sequence is inside the property's domain: only steps the
// Mongo compiler supports, and every mark reference ($m.field, select(m)) preceded by
// as(m).
func domain(steps []model.Step) (bool, string) {
	defined := map[string]bool{}
	refs := func(keys []string) bool {
		for _, k := range keys {
			if m, _ := model.SplitRef(strings.TrimPrefix(k, "-")); m != "" && !defined[m] {
				return false
			}
		}
		return true
	}
	for _, s := range steps {
		if unsupported[s.Op] {
			return false, "unsupported-step"
		}
		switch s.Op {
		case "as":
			if len(s.Args) > 0 {
				defined[s.Args[0]] = true
			}
		case "select":
			for _, m := range s.Args {
				if !defined[m] {
					return false, "undefined-mark"
				}
			}
		case "has":
			if s.Has != nil {
				for _, lf := range s.Has.Leaves() {
					if !refs([]string{lf.Key}) {
						return false, "undefined-mark"
					}
				}
			}
		case "hasKey", "distinct", "fields":
			if !refs(s.Args) {
				return false, "undefined-mark"
			}
		case "unwind":
			if !refs(s.Args) {
				return false, "undefined-mark"
			}
		case "render":
			if !refs(model.TemplateRefs(s.Template)) {
				return false, "undefined-mark"
			}
		case "aggregate":
			for _, a := range s.Aggs {
				if !refs([]string{a.Field}) {
					return false, "undefined-mark"
				}
			}
		}
	}
	return true, ""
}

// opName is the step name used in signatures; an argument shape that is itself the
// root cause of a verdict (an empty list, a bad mark name, an aggregation without a
// kind) is part of the name, so that e.g. hasLabel() and hasLabel(A) never share one.
func opName(s model.Step) string {
	switch s.Op {
	case "hasLabel", "hasId", "hasKey", "select":
		if len(s.Args) == 0 {
			return s.Op + "[]"
		}
	case "has":
		if s.Has == nil {
			return "has[nil]"
		}
	case "as":
		if len(s.Args) == 0 || s.Args[0] == "" {
			return "as[empty-name]"
		}
		if m := model.TypeCheck([]model.Step{model.S("V"), s}); m.Verdict == model.IllTyped {
			return "as[bad-name]"
		}
	case "aggregate":
		kinds := []string{}
		seen := map[string]bool{}
		for _, a := range s.Aggs {
			if !seen[a.Kind] {
				seen[a.Kind] = true
				kinds = append(kinds, a.Kind)
			}
		}
		return "aggregate[" + strings.Join(kinds, "+") + "]"
	}
	return s.Op
}

func sameMarks(a, b map[string]gdbi.DataType) bool {
	if len(a) == 0 && len(b) == 0 {
		return true
	}
	return reflect.DeepEqual(a, b)
}

func agree(c, m compiled) bool {
	if c.Verdict != m.Verdict {
		return false
	}
	if c.Verdict != "accept" {
		return true
	}
	return c.Type == m.Type && sameMarks(c.Marks, m.Marks)
}

// runTyping judges one sequence; it returns the two verdicts ("" when not judged).
func runTyping(t pbt.TB, c typCase) (coreV, mongoV string) {
	pbt.Case(t)
	steps := c.Steps
	if ok, why := domain(steps); !ok {
		pbt.Class(t, "out-of-domain:"+why)
		return "", ""
	}
	stmts := model.Protos(steps)
	cc := compileCore(stmts)
	mc := compileMongo(model.Protos(steps))
	pbt.Class(t, "core="+cc.Verdict+",mongo="+mc.Verdict)
	for _, x := range []struct {
		who string
		r   compiled
	}{{"core", cc}, {"mongo", mc}} {
		if x.r.Verdict == "panic" {
			report(t, c, x.r.Panic.Sig, "%s compiler panicked on %s: %s", x.who, model.TravString(steps), x.r.Panic.Value)
			return cc.Verdict, mc.Verdict
		}
	}

	// non-trivial rule: reference type changes >= 2 times after the start, or a defined mark is selected
	ty := model.TypeCheck(steps)
	changes := 0
	for i := 1; i < len(ty.Types); i++ {
		if ty.Types[i] != ty.Types[i-1] {
			changes++
		}
	}
	selects := false
	for i, s := range steps {
		if s.Op == "select" && len(s.Args) > 0 && i < len(ty.Types) {
			selects = true
		}
	}
	if changes >= 2 {
		pbt.Class(t, "nontrivial:type-changes>=2")
	}
	if selects {
		pbt.Class(t, "nontrivial:mark-selected")
	}
	if changes >= 2 || selects {
		pbt.Nontrivial(t, model.TravString(steps))
	}
	if cc.Verdict == "accept" && mc.Verdict == "accept" {
		pbt.Class(t, "final="+cc.Type.String())
	}

	if agree(cc, mc) {
		return cc.Verdict, mc.Verdict
	}

	// attribute: the shortest prefix on which the compilers already disagree
	p := len(steps)
	pc, pm := cc, mc
	for n := 1; n < len(steps); n++ {
		a, b := compileCore(model.Protos(steps[:n])), compileMongo(model.Protos(steps[:n]))
		if !agree(a, b) {
			p, pc, pm = n, a, b
			break
		}
	}
	prev := "none"
	if p > 1 {
		before := compileMongo(model.Protos(steps[:p-1]))
		if before.Verdict != "accept" {
			before = compileCore(model.Protos(steps[:p-1]))
		}
		if before.Verdict == "accept" {
			prev = strings.TrimSuffix(strings.ToLower(before.Type.String()), "data")
		} else {
			prev = "rejected-prefix"
		}
	}
	if pc.Verdict != pm.Verdict {
		sig := fmt.Sprintf("typing:%s-vs-%s:%s-after-%s", pc.Verdict, pm.Verdict, opName(steps[p-1]), prev)
		report(t, c, sig, "%s: core %s (%s) but mongo %s (%s); first disagreement at step %d (%s) after type %s",
			model.TravString(steps), pc.Verdict, pc.Err, pm.Verdict, pm.Err, p-1, steps[p-1], prev)
		return cc.Verdict, mc.Verdict
	}
	lo := p - 2
	if lo < 0 {
		lo = 0
	}
	tail := make([]string, 0, 2)
	for _, s := range steps[lo:p] {
		tail = append(tail, opName(s))
	}
	report(t, c, "datatype:"+strings.Join(tail, "."), "%s: both accept, core types %s marks %s, mongo types %s marks %s (first at step %d)",
		model.TravString(steps), pc.Type, marksString(pc.Marks), pm.Type, marksString(pm.Marks), p-1)
	return cc.Verdict, mc.Verdict
}

// ---------------------------------------------------------------------------------
// alphabet

func li(xs ...interface{}) []interface{} { return append([]interface{}{}, xs...) }
func has(e *model.Expr) model.Step      { return model.Step{Op: "has", Has: e} }
func agg(a ...model.Agg) model.Step     { return model.Step{Op: "aggregate", Aggs: a} }

var starts = []model.Step{model.S("V"), model.S("E"), model.S("V", "v0", "v2", "nope"), model.S("E", "e0", "e3")}

// C01's alphabet plus the shapes on which the two compilers have separate code.
var alphabet = []model.Step{
	model.S("out"), model.S("out", "x"), model.S("out", "x", "y"),
	model.S("in"), model.S("in", "y"), model.S("in", "y", "z"),
	model.S("both"), model.S("both", "x"),
	model.S("outE"), model.S("outE", "x"), model.S("outE", "y", "z"),
	model.S("inE"), model.S("inE", "x"),
	model.S("bothE"), model.S("bothE", "y"),
	has(model.Leaf("eq", "k", 1.0)), has(model.Leaf("gt", "n", 0.0)), has(model.Leaf("eq", "_label", "A")),
	has(model.Leaf("within", "_gid", li("v0", "v1", "e0"))), has(model.Not(model.Leaf("eq", "a.k", 1.0))),
	has(model.Or(model.Leaf("eq", "$a.k", 1.0), model.Leaf("contains", "l", "a"))),
	model.S("hasLabel", "A"), model.S("hasLabel", "x", "B"), model.S("hasId", "v0", "e1"), model.S("hasKey", "k"), model.S("hasKey", "l", "k"), model.S("hasKey", "a.k"),
	model.S("as", "a"), model.S("as", "b"), model.S("select", "a"), model.S("select", "a", "b"),
	model.S("fields"), model.S("fields", "k", "n"), model.S("fields", "-k"),
	{Op: "render", Template: map[string]interface{}{"id": "_gid", "k": "k", "ak": "$a.k"}}, {Op: "render", Template: "_label"},
	model.S("path"), model.S("unwind", "l"),
	model.S("distinct"), model.S("distinct", "k"), model.S("distinct", "$a._gid", "_label"),
	model.S("count"),
	{Op: "limit", N: 0}, {Op: "limit", N: 2}, {Op: "skip", N: 1}, {Op: "skip", N: 9}, {Op: "range", N: 1, M: 3}, {Op: "range", N: 0, M: -1}, {Op: "range", N: 2, M: 1},
	// extras
	model.S("hasLabel"), model.S("hasId"), model.S("hasKey"), model.S("select"),
	model.S("select", "b"), model.S("select", "b", "a"),
	model.S("outNull"), model.S("inNull", "x"), model.S("outENull"), model.S("inENull", "y"),
	model.S("as", ""), model.S("as", "_x"), model.S("as", "a.b"), model.S("as", "__current__"),
	model.S("V"), model.S("E"), model.S("nil"),
	has(model.And()), has(model.Leaf("inside", "n", li(0.0, 2.0))),
	agg(model.Agg{Name: "t", Kind: "term", Field: "k", Size: 2}), agg(model.Agg{Name: "c", Kind: "count"}),
	agg(model.Agg{Name: "h", Kind: "histogram", Field: "n", Interval: 2}, model.Agg{Name: "p", Kind: "percentile", Field: "n", Percents: []float64{50, 99.9}}),
	agg(model.Agg{Name: "f", Kind: "field", Field: "a"}, model.Agg{Name: "y", Kind: "type", Field: "k"}),
	agg(model.Agg{Name: "d", Kind: "term", Field: "k"}, model.Agg{Name: "d", Kind: "count"}),
	agg(), agg(model.Agg{Name: "x", Kind: "none"}),
	{Op: "has"}, // has statement without an expression
}

func first() []model.Step { return append(append([]model.Step{}, starts...), alphabet...) }

func sampleTyping(t pbt.Named, steps []model.Step) {
	if pbt.WantSample(t) {
		pbt.Sample(t, model.TravString(steps))
	}
}

// typingClass groups steps that differ only in arguments that cannot matter for typing
// (edge labels, ids, field names, limits): same step name and argument shape, same use
// of marks. as/select keep their mark names.
func typingClass(s model.Step) string {
	if s.Op == "as" || s.Op == "select" {
		return s.String()
	}
	marks := []string{}
	probe := func(keys []string) {
		for _, k := range keys {
			if m, _ := model.SplitRef(strings.TrimPrefix(k, "-")); m != "" {
				marks = append(marks, m)
			}
		}
	}
	probe(s.Args)
	probe(model.TemplateRefs(s.Template))
	if s.Has != nil {
		for _, lf := range s.Has.Leaves() {
			probe([]string{lf.Key})
		}
	}
	return opName(s) + "|" + strings.Join(marks, ",")
}

// reduced keeps the first step of every typing class.
func reduced(steps []model.Step) []model.Step {
	seen := map[string]bool{}
	var out []model.Step
	for _, s := range steps {
		if k := typingClass(s); !seen[k] {
			seen[k] = true
			out = append(out, s)
		}
	}
	return out
}

// enumerate walks every sequence first x alpha^(<= maxLen-1), judging those of length
// >= judgeFrom. Only prefixes that both compilers accept are extended: each compiler
// stops at its first error, so the extensions of a prefix both reject are rejected by
// both again, the extensions of a prefix on which they disagree carry that same (already
// reported) first disagreement, and a prefix outside the domain stays outside. Subtrees
// are split over the shards by their first two steps.
func enumerate(t *testing.T, firsts, alpha []model.Step, maxLen, judgeFrom int) {
	verdicts := func(steps []model.Step) (string, string) {
		if len(steps) >= judgeFrom {
			sampleTyping(t, steps)
			return runTyping(t, typCase{Steps: steps})
		}
		if ok, _ := domain(steps); !ok {
			return "", ""
		}
		return compileCore(model.Protos(steps)).Verdict, compileMongo(model.Protos(steps)).Verdict
	}
	var rec func(prefix []model.Step)
	rec = func(prefix []model.Step) {
		cv, mv := verdicts(prefix)
		if len(prefix) >= maxLen || cv != "accept" || mv != "accept" {
			return
		}
		for _, s := range alpha {
			rec(append(append([]model.Step{}, prefix...), s))
		}
	}
	n := 0
	for _, f := range firsts {
		n++
		var cv, mv string
		if pbt.ShardOwns(n) {
			cv, mv = verdicts([]model.Step{f})
		} else if ok, _ := domain([]model.Step{f}); ok {
			cv, mv = compileCore(model.Protos([]model.Step{f})).Verdict, compileMongo(model.Protos([]model.Step{f})).Verdict
		}
		if maxLen < 2 || cv != "accept" || mv != "accept" {
			continue
		}
		for _, s := range alpha {
			n++
			if pbt.ShardOwns(n) {
				rec([]model.Step{f, s})
			}
		}
	}
}

// TestTypingExhaustive: every sequence up to total length 4 over the full alphabet (both
// tiers); in the thorough tier also every sequence of length 5 over the reduced alphabet
// (one step per typing class, ~50 steps).
func TestTypingExhaustive(t *testing.T) {
	if _, ok := pbt.ReplayFile(); ok {
		t.Skip("replay mode")
	}
	if pbt.ShardOwns(0) {
		runTyping(t, typCase{Steps: []model.Step{}})
	}
	enumerate(t, first(), alphabet, 4, 1)
	if pbt.Thorough() {
		enumerate(t, reduced(first()), reduced(alphabet), 5, 5)
	}
	pbt.Exhaustive(t)
}

// TestTypingAlphabetRandom draws longer sequences (to length 10) from the same alphabet,
// biased to start with V/E.
func TestTypingAlphabetRandom(t *testing.T) {
	pbt.Check(t, 40000, 2000000, func(rt *rapid.T) {
		var steps []model.Step
		if rapid.IntRange(0, 9).Draw(rt, "properStart") < 8 {
			steps = append(steps, rapid.SampledFrom(starts).Draw(rt, "start"))
		} else {
			steps = append(steps, rapid.SampledFrom(alphabet).Draw(rt, "first"))
		}
		n := rapid.IntRange(0, 9).Draw(rt, "len")
		for i := 0; i < n && len(steps) < 10; i++ {
			s := rapid.SampledFrom(alphabet).Draw(rt, "step")
			if ok, _ := domain(append(append([]model.Step{}, steps...), s)); !ok {
				// the step reads a mark that is not defined yet: define the marks first
				// (keeps the draw inside the domain and makes mark selection common)
				for _, m := range []string{"a", "b"} {
					if len(steps) < 9 {
						steps = append(steps, model.S("as", m))
					}
				}
			}
			steps = append(steps, s)
		}
		sampleTyping(rt, steps)
		runTyping(rt, typCase{Steps: steps})
	})
}

// TestTypingGenerated uses the shared typed-grammar generator and its ill-typed splices.
func TestTypingGenerated(t *testing.T) {
	pbt.Check(t, 30000, 1500000, func(rt *rapid.T) {
		steps := gen.Traversal(rt, gen.TravOpts{MaxLen: 10})
		if rapid.IntRange(0, 2).Draw(rt, "ill") == 0 {
			steps = gen.IllTyped(rt, steps)
		}
		sampleTyping(rt, steps)
		runTyping(rt, typCase{Steps: steps})
	})
}
