package c14

import (
	"testing"

	"verif/internal/model"
	"verif/internal/pbt"
)

// TestConfirmKnown replays the minimal case of every finding listed in
// /verif/known/C14.json (and of the one the tree generator steers away from), so that
// each is observed on every run whatever the seed and the sharding: on the unchanged
// tree each prints its KNOWN-FINDING line, on a tree with the proposed patches each
// passes silently.
func TestConfirmKnown(t *testing.T) {
	if _, ok := pbt.ReplayFile(); ok {
		t.Skip("replay mode")
	}
	if !pbt.ShardOwns(0) {
		t.Skip("runs on shard 0")
	}
	V, out, outE := model.S("V"), model.S("out"), model.S("outE")
	for _, steps := range [][]model.Step{
		{{Op: "limit", N: 1}}, {{Op: "skip", N: 1}}, {{Op: "range", N: 0, M: 2}}, {model.S("count")}, {model.S("unwind", "l")},
		{{Op: "limit", N: 1}, V, out},
		{V, model.S("hasLabel")}, {V, model.S("hasId")}, {V, model.S("hasKey")},
		{V, outE, model.S("hasLabel")}, {V, outE, model.S("hasId")}, {V, outE, model.S("hasKey")},
		{V, agg(model.Agg{Name: "x", Kind: "none"})}, {V, outE, agg(model.Agg{Name: "x", Kind: "none"})},
		{V, {Op: "has"}},
	} {
		runTyping(t, typCase{Steps: steps})
	}
	k := func(v interface{}) []sdoc {
		return []sdoc{
			{ID: "v", Label: "L", Data: map[string]interface{}{"k": v}},
			{ID: "w", Label: "L", Data: map[string]interface{}{"k": 5.0}},
			{ID: "x", Label: "L", Data: map[string]interface{}{}},
		}
	}
	for _, c := range []filterCase{
		{Expr: model.Not(model.Not(model.Leaf("eq", "k", 1.0))), Docs: k(1.0)},
		{Expr: model.Not(model.And(model.Leaf("eq", "k", 1.0), model.Not(model.Leaf("eq", "k", 5.0)))), Docs: k(1.0)},
		{Expr: model.Leaf("inside", "k", li(0.0)), Docs: k(1.0)},
		{Expr: model.Leaf("between", "k", li()), Docs: k(1.0)},
		{Expr: model.Leaf("inside", "k", li(0.0, 2.0, 9.0)), Docs: k(1.0)},
		{Expr: model.Leaf("outside", "k", 3.0), Docs: k(1.0)},
		{Expr: model.Not(model.Leaf("outside", "k", 3.0)), Docs: k(1.0)},
		{Expr: model.Leaf("inside", "k", li("a", "c")), Docs: k("b")},
		{Expr: model.Leaf("outside", "k", li(2.0, "z")), Docs: k(1.0)},
		{Expr: model.And(), Docs: k(1.0)},
		{Expr: model.Or(), Docs: k(1.0)},
		{Expr: model.Not(model.And()), Docs: k(1.0)},
		{Expr: model.Leaf("within", "k", 1.0), Docs: k(1.0)},
		{Expr: model.Leaf("without", "k", nil), Docs: k(1.0)},
		{Expr: model.Not(model.Leaf("without", "k", li(1.0))), Docs: k(1.0)},
		{Expr: model.Leaf("contains", "k", 1.0), Docs: k(1.0)},
		{Expr: model.Leaf("contains", "k", nil), Docs: k(1.0)},
		{Expr: model.Leaf("gt", "k", 1.0), Docs: k("2")},
		{Expr: model.Leaf("lt", "k", "7"), Docs: k(1.0)},
		{Expr: model.Leaf("gt", "k", "a"), Docs: k("b")},
		{Expr: model.Leaf("gt", "k", "9"), Docs: k("10")},
		{Expr: model.Leaf("gt", "k", false), Docs: k(true)},
	} {
		runFilter(t, c, c.Expr.String()+"|"+docsKey(c.Docs))
	}
}
