package c14

import (
	"fmt"
	"os"
	"testing"

	"verif/internal/pbt"
)

// Development aid (see report in c14_test.go); this file sorts last so that the summary
// runs after every other test.
func TestZExploreSummary(t *testing.T) {
	if os.Getenv("C14_EXPLORE") == "" {
		t.Skip("development aid")
	}
	keys := make([]string, 0, len(explored.count))
	for k := range explored.count {
		keys = append(keys, k)
	}
	sortStrings(keys)
	for _, k := range keys {
		mark := " "
		if pbt.IsOpen(k) {
			mark = "K"
		}
		fmt.Printf("EXPLORE %s %-70s %7d  %s\n", mark, k, explored.count[k], explored.first[k])
	}
}

