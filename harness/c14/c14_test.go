// Package c14: the MongoDB compiler preserves typing and filter meaning.
package c14

import (
	"context"
	"encoding/json"
	"fmt"
	"os"
	"regexp"
	"runtime/debug"
	"strings"
	"sync"
	"testing"

	"github.com/bmeg/grip/engine/core"
	"github.com/bmeg/grip/gdbi"
	"github.com/bmeg/grip/gripql"
	gripmongo "github.com/bmeg/grip/mongo"
	"verif/internal/pbt"
)

func TestMain(m *testing.M) {
	code := pbt.Main(m, pbt.Meta{
		Property: "C14",
		Level:    "exploration",
		Rule: "(a) typing: statement sequences over the steps the Mongo compiler supports (no mark/jump/set/increment), marks defined before use: every sequence up to total length 4 over a ~80-step alphabet, in the thorough tier also every sequence of length 5 over one step per typing class (~50 steps) (C01's plus empty-argument filters, null-emitting moves, aggregates, bad mark names, V/E in the middle, a has statement without expression, every step also as first statement; only prefixes both compilers accept are extended), random draws from that alphabet to length 10, and gen.Traversal / gen.IllTyped traversals; core.NewCompiler(stub).Compile vs mongo.NewCompiler(&Graph{}).Compile must agree on accept/reject, DataType and MarkTypes. Non-trivial: the reference type changes >=2 times after the start or a defined mark is selected; distinct = traversal text. " +
			"(b) filters: exhaustive grid 12 operators x key forms (k, a.k, _gid, _label, _from, _to) x scalar/list arguments, plain and under not, and random Boolean trees to depth 3 (own generator incl. empty and/or, and gen.HasExpr on current-element keys), each against a set of scalar documents; the $match document from convertHasExpression (checked to be the one embedded in the compiled pipeline) is run through an interpreter of MongoDB query semantics and must select exactly the documents logic.MatchesHasExpression keeps. Non-trivial: the core engine keeps some and drops other documents of the case; distinct = expression text (+ document set for random cases).",
		Assumptions: []string{
			"no live MongoDB: the trusted base is interp_test.go, a ~300-line interpreter of $and/$or/$nor/$not/$eq/$ne/$gt/$gte/$lt/$lte/$in/$nin/$exists over scalar documents written from the MongoDB manual (rules R1-R11 in its header)",
			"ordering operators with a null operand and has-conditions on another mark ($m.k) are outside the judged domain (counted as not judged / not generated)",
			"stored documents carry only missing/null/bool/number/string fields (numbers are doubles, as grip stores structpb numbers)",
		},
	})
	os.Exit(code)
}

// TestReplay re-runs the case of a replay file through the same runTyping / runFilter
// the searches use; the case form tells which one (typing cases have "steps", filter
// cases "expr" and "docs").
func TestReplay(t *testing.T) {
	cf, ok := pbt.ReplayFile()
	if !ok {
		t.Skip("no replay file")
	}
	var probe map[string]json.RawMessage
	if err := json.Unmarshal(cf.Case, &probe); err != nil {
		t.Fatalf("replay file %s: case is not an object: %v", cf.Test, err)
	}
	if _, isFilter := probe["expr"]; isFilter {
		var c filterCase
		if err := json.Unmarshal(cf.Case, &c); err != nil || c.Expr == nil {
			t.Fatalf("replay file: bad filter case: %v", err)
		}
		runFilter(t, c, c.Expr.String()+"|"+docsKey(c.Docs))
		return
	}
	var c typCase
	if err := json.Unmarshal(cf.Case, &c); err != nil {
		t.Fatalf("replay file: bad typing case: %v", err)
	}
	runTyping(t, c)
}

// report is the single exit for a violation (pbt.Discrepancy). With C14_EXPLORE=1 (a
// development aid, never set by ./check) it instead collects every distinct signature
// with its first example and keeps going, so that all root causes can be listed in one
// run; TestZExploreSummary prints them.
var explored = struct {
	sync.Mutex
	first map[string]string
	count map[string]int
}{first: map[string]string{}, count: map[string]int{}}

func report(t pbt.TB, c interface{}, sig string, format string, args ...any) bool {
	t.Helper()
	if os.Getenv("C14_EXPLORE") == "" {
		return pbt.Discrepancy(t, c, sig, format, args...)
	}
	explored.Lock()
	defer explored.Unlock()
	if explored.count[sig] == 0 {
		explored.first[sig] = fmt.Sprintf(format, args...)
	}
	explored.count[sig]++
	return false
}

// ---------------------------------------------------------------------------------
// panics

var digits = regexp.MustCompile(`[0-9]+`)

// gripFrame names the first bmeg/grip function on a panic stack.
func gripFrame(stack []byte) string {
	for _, ln := range strings.Split(string(stack), "\n") {
		if strings.HasPrefix(ln, "github.com/bmeg/grip/") {
			fn := strings.TrimPrefix(ln, "github.com/bmeg/grip/")
			if i := strings.LastIndex(fn, "("); i > 0 {
				fn = fn[:i]
			}
			return fn
		}
	}
	return "outside-grip"
}

type panicInfo struct {
	Value string
	Sig   string // panic:<first grip frame>:<message class>
}

func newPanicInfo(r interface{}) *panicInfo {
	msg := fmt.Sprint(r)
	cls := strings.TrimPrefix(msg, "runtime error: ")
	if i := strings.Index(cls, " ["); i > 0 {
		cls = cls[:i]
	}
	cls = digits.ReplaceAllString(cls, "N")
	if len(cls) > 60 {
		cls = cls[:60]
	}
	cls = strings.ReplaceAll(strings.TrimSpace(cls), " ", "-")
	return &panicInfo{Value: msg, Sig: "panic:" + gripFrame(debug.Stack()) + ":" + cls}
}

// ---------------------------------------------------------------------------------
// the two compilers

// stubGraph is handed to the core compiler: compiling must not touch the database.
type stubGraph struct{}

func touched(m string) { panic("C14 stub graph: compile called " + m) }

func (stubGraph) Compiler() gdbi.Compiler                     { touched("Compiler"); return nil }
func (stubGraph) GetTimestamp() string                        { touched("GetTimestamp"); return "" }
func (stubGraph) GetVertex(string, bool) *gdbi.Vertex         { touched("GetVertex"); return nil }
func (stubGraph) GetEdge(string, bool) *gdbi.Edge             { touched("GetEdge"); return nil }
func (stubGraph) AddVertex([]*gdbi.Vertex) error              { touched("AddVertex"); return nil }
func (stubGraph) AddEdge([]*gdbi.Edge) error                  { touched("AddEdge"); return nil }
func (stubGraph) BulkAdd(<-chan *gdbi.GraphElement) error     { touched("BulkAdd"); return nil }
func (stubGraph) DelVertex(string) error                      { touched("DelVertex"); return nil }
func (stubGraph) DelEdge(string) error                        { touched("DelEdge"); return nil }
func (stubGraph) ListVertexLabels() ([]string, error)         { touched("ListVertexLabels"); return nil, nil }
func (stubGraph) ListEdgeLabels() ([]string, error)           { touched("ListEdgeLabels"); return nil, nil }
func (stubGraph) AddVertexIndex(string, string) error         { touched("AddVertexIndex"); return nil }
func (stubGraph) DeleteVertexIndex(string, string) error      { touched("DeleteVertexIndex"); return nil }
func (stubGraph) GetVertexIndexList() <-chan *gripql.IndexID  { touched("GetVertexIndexList"); return nil }
func (stubGraph) VertexLabelScan(context.Context, string) chan string {
	touched("VertexLabelScan")
	return nil
}
func (stubGraph) GetVertexList(context.Context, bool) <-chan *gdbi.Vertex {
	touched("GetVertexList")
	return nil
}
func (stubGraph) GetEdgeList(context.Context, bool) <-chan *gdbi.Edge {
	touched("GetEdgeList")
	return nil
}
func (stubGraph) GetVertexChannel(context.Context, chan gdbi.ElementLookup, bool) chan gdbi.ElementLookup {
	touched("GetVertexChannel")
	return nil
}
func (stubGraph) GetOutChannel(context.Context, chan gdbi.ElementLookup, bool, bool, []string) chan gdbi.ElementLookup {
	touched("GetOutChannel")
	return nil
}
func (stubGraph) GetInChannel(context.Context, chan gdbi.ElementLookup, bool, bool, []string) chan gdbi.ElementLookup {
	touched("GetInChannel")
	return nil
}
func (stubGraph) GetOutEdgeChannel(context.Context, chan gdbi.ElementLookup, bool, bool, []string) chan gdbi.ElementLookup {
	touched("GetOutEdgeChannel")
	return nil
}
func (stubGraph) GetInEdgeChannel(context.Context, chan gdbi.ElementLookup, bool, bool, []string) chan gdbi.ElementLookup {
	touched("GetInEdgeChannel")
	return nil
}

var _ gdbi.GraphInterface = stubGraph{}

// compiled is what one compiler said about one statement list.
type compiled struct {
	Verdict string // accept | reject | panic
	Err     string
	Type    gdbi.DataType
	Marks   map[string]gdbi.DataType
	Pipe    gdbi.Pipeline
	Panic   *panicInfo
}

func compileWith(c gdbi.Compiler, stmts []*gripql.GraphStatement) (out compiled) {
	defer func() {
		if r := recover(); r != nil {
			out = compiled{Verdict: "panic", Panic: newPanicInfo(r)}
		}
	}()
	p, err := c.Compile(stmts, nil)
	if err != nil {
		return compiled{Verdict: "reject", Err: err.Error()}
	}
	return compiled{Verdict: "accept", Type: p.DataType(), Marks: p.MarkTypes(), Pipe: p}
}

func compileCore(stmts []*gripql.GraphStatement) compiled {
	return compileWith(core.NewCompiler(stubGraph{}), stmts)
}

// The Mongo compiler only reads the graph name from its *Graph at compile time (the
// zero value has no database handle at all: touching it would be a nil dereference,
// reported as a panic).
func compileMongo(stmts []*gripql.GraphStatement) compiled {
	return compileWith(gripmongo.NewCompiler(&gripmongo.Graph{}), stmts)
}

func marksString(m map[string]gdbi.DataType) string {
	keys := make([]string, 0, len(m))
	for k := range m {
		keys = append(keys, k)
	}
	sortStrings(keys)
	parts := make([]string, len(keys))
	for i, k := range keys {
		parts[i] = k + ":" + m[k].String()
	}
	return "{" + strings.Join(parts, ",") + "}"
}

func sortStrings(a []string) {
	for i := 1; i < len(a); i++ {
		for j := i; j > 0 && a[j] < a[j-1]; j-- {
			a[j], a[j-1] = a[j-1], a[j]
		}
	}
}
