package c09

import (
	"context"
	"encoding/json"
	"fmt"
	"sort"
	"strings"
	"testing"

	"github.com/bmeg/grip/gdbi"
	"github.com/bmeg/grip/kvgraph"
	"github.com/bmeg/grip/kvindex"
	"pgregory.net/rapid"
	"verif/internal/memkv"
	"verif/internal/pbt"
)

// The index as kvgraph drives it (kvgraph/index.go, kvgraph/graph.go): per-label property
// indices registered with AddVertexIndex, documents written by AddVertex and BulkAdd
// (new ids, replacements that keep or change the label), removed by DelVertex. After every
// step each registered field is queried through a fresh KVIndex handle on the same store
// and compared with a scan of the live vertices that were written while the field was
// registered (registration does not index what is already stored).

type gvert struct {
	ID    string      `json:"id"`
	Label string      `json:"label"`
	K     interface{} `json:"k,omitempty"`  // value of property k (nil = absent)
	KK    interface{} `json:"kk,omitempty"` // value of property kk
}

type gop struct {
	Op    string  `json:"op"` // addindex delindex add bulk del
	Label string  `json:"label,omitempty"`
	Field string  `json:"field,omitempty"`
	Verts []gvert `json:"verts,omitempty"`
	ID    string  `json:"id,omitempty"`
}

type gcase struct {
	Ops []gop `json:"ops"`
}

func (o gop) String() string {
	switch o.Op {
	case "addindex", "delindex":
		return fmt.Sprintf("%s(%s.%s)", o.Op, o.Label, o.Field)
	case "del":
		return "del(" + o.ID + ")"
	}
	parts := []string{}
	for _, v := range o.Verts {
		parts = append(parts, fmt.Sprintf("%s:%s{k:%v kk:%v}", v.ID, v.Label, v.K, v.KK))
	}
	return o.Op + "(" + strings.Join(parts, ", ") + ")"
}

var (
	gLabels = []string{"A", "AB"}
	gFields = []string{"k", "kk"}
	gIDs    = []string{"v0", "v1", "v10", "w"}
	gVals   = []interface{}{nil, -3.5, 0.0, 2.0, 7.0, "a", "ab", ""}
)

func genGVert(rt *rapid.T, lbl string) gvert {
	return gvert{ID: rapid.SampledFrom(gIDs).Draw(rt, lbl+".id"), Label: rapid.SampledFrom(gLabels).Draw(rt, lbl+".label"),
		K: rapid.SampledFrom(gVals).Draw(rt, lbl+".k"), KK: rapid.SampledFrom(gVals).Draw(rt, lbl+".kk")}
}

func genGCase(rt *rapid.T) gcase {
	c := gcase{}
	// most histories start with an index so that later writes are indexed
	if rapid.IntRange(0, 9).Draw(rt, "lead") < 8 {
		c.Ops = append(c.Ops, gop{Op: "addindex", Label: rapid.SampledFrom(gLabels).Draw(rt, "l0"), Field: rapid.SampledFrom(gFields).Draw(rt, "f0")})
	}
	n := rapid.IntRange(2, 14).Draw(rt, "n")
	for i := 0; i < n; i++ {
		lbl := fmt.Sprintf("op%d", i)
		switch k := rapid.IntRange(0, 11).Draw(rt, lbl+".kind"); {
		case k <= 1:
			c.Ops = append(c.Ops, gop{Op: "addindex", Label: rapid.SampledFrom(gLabels).Draw(rt, lbl+".l"), Field: rapid.SampledFrom(gFields).Draw(rt, lbl+".f")})
		case k == 2:
			c.Ops = append(c.Ops, gop{Op: "delindex", Label: rapid.SampledFrom(gLabels).Draw(rt, lbl+".l"), Field: rapid.SampledFrom(gFields).Draw(rt, lbl+".f")})
		case k <= 7:
			c.Ops = append(c.Ops, gop{Op: "add", Verts: []gvert{genGVert(rt, lbl)}})
		case k <= 9:
			m := rapid.IntRange(1, 4).Draw(rt, lbl+".m")
			o := gop{Op: "bulk"}
			for j := 0; j < m; j++ {
				o.Verts = append(o.Verts, genGVert(rt, fmt.Sprintf("%s.%d", lbl, j)))
			}
			c.Ops = append(c.Ops, o)
		default:
			c.Ops = append(c.Ops, gop{Op: "del", ID: rapid.SampledFrom(gIDs).Draw(rt, lbl+".id")})
		}
	}
	return c
}

func (v gvert) data() map[string]interface{} {
	d := map[string]interface{}{}
	if v.K != nil {
		d["k"] = v.K
	}
	if v.KK != nil {
		d["kk"] = v.KK
	}
	return d
}

func termText(v interface{}) string {
	if f, ok := v.(float64); ok {
		return fmt.Sprintf("n:%v", f)
	}
	return fmt.Sprintf("s:%q", v)
}

func runGraphIndex(t pbt.TB, c gcase) {
	pbt.Case(t)
	kv := memkv.New()
	db := kvgraph.NewKVGraph(kv)
	const gname = "g"
	if err := db.AddGraph(gname); err != nil {
		t.Fatalf("INFRA: %v", err)
	}
	gi, err := db.Graph(gname)
	if err != nil {
		t.Fatalf("INFRA: %v", err)
	}
	registered := map[string]bool{}                // "Label.field"
	indexed := map[string]map[string]interface{}{} // "Label.field" -> id -> term, the scan the index must equal
	live := map[string]gvert{}
	write := func(v gvert) {
		// the previous version leaves every index
		for _, m := range indexed {
			delete(m, v.ID)
		}
		live[v.ID] = v
		for _, f := range gFields {
			key := v.Label + "." + f
			if !registered[key] {
				continue
			}
			if val, ok := v.data()[f]; ok {
				if indexed[key] == nil {
					indexed[key] = map[string]interface{}{}
				}
				indexed[key][v.ID] = val
			}
		}
	}
	replaced, sameLabelReplaced := false, false
	for step, o := range c.Ops {
		switch o.Op {
		case "addindex":
			if err := gi.AddVertexIndex(o.Label, o.Field); err != nil {
				t.Fatalf("INFRA: AddVertexIndex: %v", err)
			}
			registered[o.Label+"."+o.Field] = true
		case "delindex":
			gi.DeleteVertexIndex(o.Label, o.Field)
			delete(registered, o.Label+"."+o.Field)
			delete(indexed, o.Label+"."+o.Field)
		case "add":
			v := o.Verts[0]
			if old, ok := live[v.ID]; ok {
				replaced = true
				if old.Label == v.Label {
					sameLabelReplaced = true
				}
			}
			if err := gi.AddVertex([]*gdbi.Vertex{{ID: v.ID, Label: v.Label, Data: v.data(), Loaded: true}}); err != nil {
				t.Fatalf("INFRA: AddVertex: %v", err)
			}
			write(v)
		case "bulk":
			ch := make(chan *gdbi.GraphElement, len(o.Verts))
			for _, v := range o.Verts {
				if old, ok := live[v.ID]; ok {
					replaced = true
					if old.Label == v.Label {
						sameLabelReplaced = true
					}
				}
				ch <- &gdbi.GraphElement{Graph: gname, Vertex: &gdbi.Vertex{ID: v.ID, Label: v.Label, Data: v.data(), Loaded: true}}
			}
			close(ch)
			if err := gi.BulkAdd(ch); err != nil {
				t.Fatalf("INFRA: BulkAdd: %v", err)
			}
			for _, v := range o.Verts {
				write(v)
			}
		case "del":
			gi.DelVertex(o.ID)
			delete(live, o.ID)
			for _, m := range indexed {
				delete(m, o.ID)
			}
		}
		// observe every registered field through a fresh handle
		idx := kvindex.NewIndex(kv)
		keys := make([]string, 0, len(registered))
		for k := range registered {
			keys = append(keys, k)
		}
		sort.Strings(keys)
		for _, key := range keys {
			field := gname + ".v." + key
			want := map[string][]string{} // term -> sorted ids
			for id, val := range indexed[key] {
				want[termText(val)] = append(want[termText(val)], id)
			}
			for _, ids := range want {
				sort.Strings(ids)
			}
			// (a) ids matching each term of the universe
			for _, val := range gVals[1:] {
				var got []string
				for id := range idx.GetTermMatch(context.Background(), field, val, 0) {
					got = append(got, id)
				}
				sort.Strings(got)
				if fmt.Sprint(got) != fmt.Sprint(want[termText(val)]) {
					hist := make([]string, step+1)
					for i := range hist {
						hist[i] = c.Ops[i].String()
					}
					pbt.Discrepancy(t, c, "graph-index:term-match", "after step %d %s: GetTermMatch(%s, %v) returns %v, a scan of the live vertices written under the index gives %v\n      history: %s",
						step, o, field, val, got, want[termText(val)], strings.Join(hist, "; "))
					return
				}
			}
			// (b) terms and their counts
			gotCounts := map[string]uint64{}
			for tc := range idx.FieldTermCounts(field) {
				k := termText(tc.String)
				if tc.String == "" && tc.Number != 0 {
					k = termText(tc.Number)
				}
				gotCounts[k] += tc.Count
			}
			// "" and 0 cannot be told apart in a KVTermCount: fold them on both sides
			fold := func(k string) string {
				if k == termText(0.0) {
					return termText("")
				}
				return k
			}
			g2, w2 := map[string]uint64{}, map[string]uint64{}
			for k, n := range gotCounts {
				if n > 0 {
					g2[fold(k)] += n
				}
			}
			for k, ids := range want {
				w2[fold(k)] += uint64(len(ids))
			}
			if fmt.Sprint(g2) != fmt.Sprint(w2) {
				hist := make([]string, step+1)
				for i := range hist {
					hist[i] = c.Ops[i].String()
				}
				pbt.Discrepancy(t, c, "graph-index:term-counts", "after step %d %s: FieldTermCounts(%s) returns %v, a scan of the live vertices written under the index gives %v\n      history: %s",
					step, o, field, g2, w2, strings.Join(hist, "; "))
				return
			}
		}
	}
	if replaced && len(registered) > 0 {
		b, _ := json.Marshal(c)
		pbt.Nontrivial(t, string(b))
	}
	if sameLabelReplaced {
		pbt.Class(t, "graph-index:replacement-keeps-label")
	}
	if replaced {
		pbt.Class(t, "graph-index:replacement")
	}
}

func TestGraphIndex(t *testing.T) {
	if cf, ok := pbt.ReplayFile(); ok {
		if cf.Test != "TestGraphIndex" {
			t.Skip("replay of another test")
		}
		var c gcase
		if err := json.Unmarshal(cf.Case, &c); err != nil {
			t.Fatalf("INFRA: cannot decode case: %v", err)
		}
		runGraphIndex(t, c)
		return
	}
	pbt.Check(t, 1200, 40000, func(rt *rapid.T) {
		c := genGCase(rt)
		if pbt.WantSample(t) {
			ops := make([]string, len(c.Ops))
			for i, o := range c.Ops {
				ops[i] = o.String()
			}
			pbt.Sample(t, strings.Join(ops, "; "))
		}
		runGraphIndex(rt, c)
	})
}
