package c09

import (
	"context"
	"fmt"
	"math"
	"os"
	"testing"
	"time"

	"github.com/bmeg/grip/kvi"
	_ "github.com/bmeg/grip/kvi/badgerdb"
	"github.com/bmeg/grip/kvindex"
)

func drainS(ch chan string) []string {
	var out []string
	for s := range ch {
		out = append(out, s)
	}
	return out
}

func TestProbe(t *testing.T) {
	dir, _ := os.MkdirTemp("", "probe")
	kv, err := kvi.NewKVInterface("badger", dir, nil)
	if err != nil {
		t.Fatal(err)
	}
	idx := kvindex.NewIndex(kv)
	ctx := context.Background()
	dump := func(f string) {
		var terms []interface{}
		for x := range idx.FieldTerms(f) {
			terms = append(terms, x)
		}
		fmt.Printf("  terms(%s)=%v\n", f, terms)
	}
	counts := func(f string) {
		var cs []kvindex.KVTermCount
		for x := range idx.FieldTermCounts(f) {
			cs = append(cs, x)
		}
		fmt.Printf("  counts(%s)=%v\n", f, cs)
	}
	// replace
	idx.AddField("f")
	idx.AddField("n")
	t0 := time.Now()
	idx.AddDoc("d1", map[string]interface{}{"f": "a", "n": -1.0})
	fmt.Println("adddoc took", time.Since(t0))
	idx.AddDoc("d1", map[string]interface{}{"f": "b", "n": 2.0})
	fmt.Printf("replace: match a=%q b=%q n=-1 %q\n", drainS(idx.GetTermMatch(ctx, "f", "a", 0)), drainS(idx.GetTermMatch(ctx, "f", "b", 0)), drainS(idx.GetTermMatch(ctx, "n", -1.0, 0)))
	dump("f")
	var nums []float64
	for x := range idx.FieldNumbers("n") {
		nums = append(nums, x)
	}
	fmt.Println("  numbers", nums)
	// double decrement
	idx.AddField("g")
	idx.AddDoc("x1", map[string]interface{}{"g": "s"})
	idx.AddDoc("x2", map[string]interface{}{"g": "s"})
	fmt.Println("removedoc x1:", idx.RemoveDoc("x1"))
	dump("g")
	counts("g")
	fmt.Printf("  match s=%q\n", drainS(idx.GetTermMatch(ctx, "g", "s", 0)))
	fmt.Println("removedoc x2:", idx.RemoveDoc("x2"))
	fmt.Printf("  match s=%q\n", drainS(idx.GetTermMatch(ctx, "g", "s", 0)))
	// removefield then removedoc
	idx.AddField("h1")
	idx.AddField("h2")
	idx.AddDoc("y1", map[string]interface{}{"h1": "p", "h2": "q"})
	idx.RemoveField("h1")
	fmt.Println("removedoc y1 after removefield:", idx.RemoveDoc("y1"))
	fmt.Printf("  match h2 q=%q\n", drainS(idx.GetTermMatch(ctx, "h2", "q", 0)))
	// numeric
	idx.AddField("m")
	idx.AddDoc("z1", map[string]interface{}{"m": 0.0})
	idx.AddDoc("z2", map[string]interface{}{"m": -1.0})
	fmt.Println("min,max {0,-1}:", idx.FieldTermNumberMin("m"), idx.FieldTermNumberMax("m"))
	idx.AddDoc("z3", map[string]interface{}{"m": -2.5})
	idx.AddDoc("z4", map[string]interface{}{"m": 2.0})
	idx.AddDoc("z5", map[string]interface{}{"m": 0.5})
	rng := func(lo, hi float64) {
		var cs []kvindex.KVTermCount
		for x := range idx.FieldTermNumberRange("m", lo, hi) {
			cs = append(cs, x)
		}
		fmt.Printf("  range[%v,%v)=%v\n", lo, hi, cs)
	}
	rng(-2.5, -1)
	rng(-2.5, 0)
	rng(-1, 0.5)
	rng(-3, 3)
	rng(0, 2)
	rng(0.5, 2)
	rng(math.Inf(-1), math.Inf(1))
	nums = nil
	for x := range idx.FieldNumbers("m") {
		nums = append(nums, x)
	}
	fmt.Println("  numbers", nums, "min", idx.FieldTermNumberMin("m"), "max", idx.FieldTermNumberMax("m"))
	fmt.Printf("  match m=-1: %q\n", drainS(idx.GetTermMatch(ctx, "m", -1.0, 0)))
}
