package c09

import (
	"encoding/json"
	"fmt"
	"math"
	"os"
	"sort"
	"testing"

	"github.com/bmeg/grip/kvi"
	"github.com/bmeg/grip/kvindex"
	"pgregory.net/rapid"
	"verif/internal/pbt"
)

func TestMain(m *testing.M) {
	removeStaleStoreDirs()
	code := pbt.Main(m, pbt.Meta{
		Property: "C09",
		Level:    "exploration",
		Rule: "histories of AddField/RemoveField/AddDoc/AddDocTx-in-BulkWrite/AddDocTx-in-Update/RemoveDoc/RemoveDocTx-in-Update/FieldTermCounts/FieldStringTermCounts over 3 field paths (2 nested), 5 document ids, 6 string terms and 12 boundary numbers on kvindex.KVIndex over Badger (thorough: also the reference ordered map, LevelDB, Bolt, Pebble); " +
			"after every step every query (GetTermMatch for every term of the case, with and without maxCount; FieldTerms; FieldNumbers; FieldTermNumberMin/Max; FieldTermNumberRange over pairs of the present terms, 0 and the infinities; the two count queries where the history asks for them) is compared with a scan of the model's live documents. " +
			"Exhaustive: all sequences of exactly 3 (thorough 4) ops over a 13-op alphabet; random: unconstrained histories, and histories steered clear of the listed defects. " +
			"A case is non-trivial when queries were judged after a removal or replacement of a live document on a field holding >= 2 indexed live documents; distinct = distinct op list.",
		Assumptions: []string{
			"a document added before a field was registered is not expected under that field (kvgraph/index.go: TODO reindex existing data); RemoveField followed by AddField starts empty",
			"documents carry only strings, finite float64 numbers, nulls or nothing at an indexed path (other kinds make AddDocTx return 'unsupported term type' and are outside the property)",
			"-0.0 and +0.0 compare equal wherever values are compared (FieldTerms, counts, FieldNumbers, min/max are folded; a range may count the zero documents either way when a -0.0 document exists); GetTermMatch is asked for each zero by its exact bits, as the index stores them as two terms",
			"FieldTermNumberRange(lo,hi) is judged as the half-open interval [lo,hi) for lo < hi (what the histogram aggregation relies on); bounds are the present terms, 0 and +-Inf, never -0.0",
			"FieldTermNumberMin/Max are judged only while the field holds a numeric term",
			"FieldTermCounts/FieldStringTermCounts write recounted values back, so they are operations of the history, not part of the per-step observation",
			"one KVIndex value per history (the in-memory field map is not rebuilt from the store on reopen; reopening is not part of the property)",
		},
	})
	cleanupStores()
	os.Exit(code)
}

// ---------------------------------------------------------------------------------
// generators

func genTerm(rt *rapid.T, f int) Term {
	// per-field kind weights (string, number, lacking) out of 20
	w := [4][2]int{{14, 16}, {2, 15}, {8, 16}, {8, 16}}[f]
	k := rapid.IntRange(0, 19).Draw(rt, "kind")
	switch {
	case k < w[0]:
		// small effective pool so that documents share terms
		i := rapid.IntRange(0, 8).Draw(rt, "str")
		if i >= len(strPool) {
			i %= 2
		}
		return Term{K: "s", I: i}
	case k < w[1]:
		i := rapid.IntRange(0, len(numPool)+3).Draw(rt, "num")
		if i >= len(numPool) {
			i = []int{2, 4, 6, 1}[i-len(numPool)] // -1, 0, 1, -2.5 more often
		}
		return Term{K: "n", I: i}
	}
	switch rapid.IntRange(0, 3).Draw(rt, "lack") {
	case 0:
		return Term{K: "null"}
	case 1:
		if f == 1 {
			return Term{K: "nomap"}
		}
	}
	return Term{K: "absent"}
}

func genDoc(rt *rapid.T) DocIn {
	d := DocIn{ID: rapid.IntRange(0, len(docIDs)-1).Draw(rt, "doc")}
	for f := range fieldPaths {
		d.T[f] = genTerm(rt, f)
	}
	if d.T[1].K == "nomap" {
		d.T[3] = Term{K: "absent"} // A is not a map: A.kk cannot exist
	}
	return d
}

var opWeights = func() []string {
	var out []string
	for k, n := range map[string]int{"addfield": 5, "removefield": 2, "adddoc": 12, "bulk": 4, "update": 3, "removedoc": 6, "removedoctx": 3, "counts": 3, "scounts": 1} {
		for i := 0; i < n; i++ {
			out = append(out, k)
		}
	}
	sort.Strings(out)
	return out
}()

func genOp(rt *rapid.T) Op {
	kind := rapid.SampledFrom(opWeights).Draw(rt, "op")
	switch kind {
	case "addfield", "removefield", "counts", "scounts":
		return Op{Op: kind, F: rapid.IntRange(0, len(fieldPaths)-1).Draw(rt, "field")}
	case "removedoc", "removedoctx":
		return Op{Op: kind, ID: rapid.IntRange(0, len(docIDs)-1).Draw(rt, "doc")}
	case "adddoc":
		return Op{Op: kind, Docs: []DocIn{genDoc(rt)}}
	}
	n := rapid.IntRange(1, 3).Draw(rt, "ndocs")
	o := Op{Op: kind}
	for i := 0; i < n; i++ {
		o.Docs = append(o.Docs, genDoc(rt))
	}
	return o
}

// finalCounts: both count queries on every field end each history.
func finalCounts() []Op {
	var out []Op
	for f := range fieldPaths {
		out = append(out, Op{Op: "scounts", F: f}, Op{Op: "counts", F: f})
	}
	return out
}

func genFree(rt *rapid.T) Case {
	n := rapid.IntRange(1, pbt.Pick(25, 40)).Draw(rt, "len")
	// most histories start by registering fields, as every caller does
	var ops []Op
	if rapid.IntRange(0, 9).Draw(rt, "preregister") < 7 {
		for f := range fieldPaths {
			if rapid.IntRange(0, 3).Draw(rt, "reg") > 0 {
				ops = append(ops, Op{Op: "addfield", F: f})
			}
		}
	}
	for i := 0; i < n; i++ {
		ops = append(ops, genOp(rt))
	}
	return Case{Ops: append(ops, finalCounts()...)}
}

// avoider keeps the defect-free simulator next to the simulators with each listed
// defect switched on; an operation is emitted only if all of them end in the same state,
// i.e. no listed defect can be triggered by the history. Replacements are rewritten as
// count + remove + add, removals as count + remove (a cached count sidesteps the double
// decrement); what still diverges is dropped.
type avoider struct {
	sims []*sim // [0] defect-free, then one per single defect, last all defects
	ops  []Op
}

func newAvoider() *avoider {
	a := &avoider{sims: []*sim{newSim(0)}}
	for b := uint(1); b < 1<<nBugs; b <<= 1 {
		a.sims = append(a.sims, newSim(b))
	}
	a.sims = append(a.sims, newSim(1<<nBugs-1))
	return a
}

// try applies ops to all simulators; ok if they agree afterwards.
func (a *avoider) try(ops []Op) (next []*sim, ok bool, diverged []uint) {
	next = make([]*sim, len(a.sims))
	ok = true
	// what a removedoctx removes is what the caller knows as the stored version: the
	// defect-free simulator's view, for every simulator
	resolved := make([]Op, len(ops))
	truth := a.sims[0]
	for k, op := range ops {
		resolved[k] = resolve(op, truth.content)
		truth, _, _ = truth.apply(resolved[k])
	}
	for i, s := range a.sims {
		cur := s
		for _, op := range resolved {
			n, failed, _ := cur.apply(op)
			if failed {
				ok = false
				if s.bugs != 0 && s.bugs&(s.bugs-1) == 0 {
					diverged = append(diverged, s.bugs)
				}
			}
			cur = n
		}
		next[i] = cur
	}
	for i := 1; i < len(next); i++ {
		if !next[i].equal(next[0]) {
			ok = false
			if b := a.sims[i].bugs; b&(b-1) == 0 {
				diverged = append(diverged, b)
			}
		}
	}
	return next, ok, diverged
}

func (a *avoider) countsAll() []Op {
	var out []Op
	for f := range fieldPaths {
		if a.sims[0].fields[f] {
			out = append(out, Op{Op: "counts", F: f})
		}
	}
	return out
}

func (a *avoider) push(op Op) {
	cands := [][]Op{{op}}
	switch op.Op {
	case "removedoc":
		cands = append(cands, append(a.countsAll(), op))
	case "adddoc", "bulk", "update":
		alt := a.countsAll()
		seen := map[int]bool{}
		for _, d := range op.Docs {
			if !seen[d.ID] {
				seen[d.ID] = true
				alt = append(alt, Op{Op: "removedoc", ID: d.ID})
				alt = append(alt, a.countsAll()...)
			}
		}
		// within one batch every id at most once (a repeated id is a replacement inside the batch)
		uniq := op
		uniq.Docs = nil
		seen = map[int]bool{}
		var untx []Op
		for _, d := range op.Docs {
			if !seen[d.ID] {
				seen[d.ID] = true
				uniq.Docs = append(uniq.Docs, d)
				untx = append(untx, Op{Op: "removedoctx", ID: d.ID})
			}
		}
		// the way kvgraph replaces: un-index the stored version, then add
		cands = append(cands, append(untx, uniq), append(alt, uniq))
	}
	for i, ops := range cands {
		next, ok, diverged := a.try(ops)
		if i == 0 {
			seen := map[uint]bool{}
			for _, b := range diverged {
				if !seen[b] {
					seen[b] = true
					pbt.Avoided(bugFinding[b])
				}
			}
		}
		if ok {
			a.sims = next
			a.ops = append(a.ops, ops...)
			return
		}
	}
	// dropped
}

func genAvoiding(rt *rapid.T) Case {
	n := rapid.IntRange(4, pbt.Pick(30, 45)).Draw(rt, "len")
	a := newAvoider()
	for f := range fieldPaths {
		if rapid.IntRange(0, 3).Draw(rt, "reg") > 0 {
			a.push(Op{Op: "addfield", F: f})
		}
	}
	for i := 0; i < n; i++ {
		a.push(genOp(rt))
	}
	for _, op := range finalCounts() {
		a.push(op)
	}
	return Case{Ops: a.ops}
}

// ---------------------------------------------------------------------------------
// tests

func replayCase(t *testing.T, names ...string) (Case, bool) {
	cf, ok := pbt.ReplayFile()
	if !ok {
		return Case{}, false
	}
	match := false
	for _, n := range names {
		if cf.Test == n {
			match = true
		}
	}
	if !match {
		t.Skip("replay of another test")
	}
	var c Case
	if err := json.Unmarshal(cf.Case, &c); err != nil {
		t.Fatalf("INFRA: cannot decode case: %v", err)
	}
	return c, true
}

// TestHistories: unconstrained random histories. Most of them run into one of the
// listed defects after a few steps (each hit is recorded and ends the judging of that
// history); TestHistoriesAvoiding covers what lies behind.
func TestHistories(t *testing.T) {
	if c, ok := replayCase(t, "TestHistories", "TestHistoriesAvoiding", "TestExhaustive", "TestConfirmKnown", "process-crash"); ok {
		runCase(t, c)
		return
	}
	pbt.Check(t, 800, 10000, func(rt *rapid.T) {
		c := genFree(rt)
		if pbt.WantSample(t) {
			pbt.Sample(t, opsText(c.Ops))
		}
		runCase(rt, c)
	})
}

func TestHistoriesAvoiding(t *testing.T) {
	if _, ok := pbt.ReplayFile(); ok {
		t.Skip("replay mode (TestHistories replays)")
	}
	pbt.Check(t, 800, 10000, func(rt *rapid.T) {
		c := genAvoiding(rt)
		if pbt.WantSample(t) {
			pbt.Sample(t, opsText(c.Ops))
		}
		runCase(rt, c)
	})
}

// the alphabet of the exhaustive enumeration; every sequence starts with addfield(F0)
func sdoc(id int, t0, t1 Term) DocIn { return DocIn{ID: id, T: [4]Term{t0, t1, {K: "absent"}, {K: "absent"}}} }

var (
	sA     = Term{K: "s", I: 0}
	sB     = Term{K: "s", I: 2}
	nM1    = Term{K: "n", I: 2}
	nM25   = Term{K: "n", I: 1}
	n0     = Term{K: "n", I: 4}
	n2     = Term{K: "n", I: 7}
	absent = Term{K: "absent"}
)

var alphabet = []Op{
	{Op: "addfield", F: 1},
	{Op: "removefield", F: 0},
	{Op: "adddoc", Docs: []DocIn{sdoc(0, sA, nM1)}},
	{Op: "adddoc", Docs: []DocIn{sdoc(0, sB, n2)}},
	{Op: "adddoc", Docs: []DocIn{sdoc(1, sA, n0)}},
	{Op: "bulk", Docs: []DocIn{sdoc(1, sA, absent)}},
	{Op: "update", Docs: []DocIn{sdoc(3, absent, nM25)}},
	{Op: "removedoc", ID: 0},
	{Op: "removedoc", ID: 1},
	{Op: "removedoctx", ID: 0},
	{Op: "counts", F: 0},
	{Op: "addfield", F: 0},
	{Op: "removefield", F: 1},
}

func TestExhaustive(t *testing.T) {
	if _, ok := pbt.ReplayFile(); ok {
		t.Skip("replay mode (TestHistories replays)")
	}
	depth := pbt.Pick(3, 4)
	total := 1
	for i := 0; i < depth; i++ {
		total *= len(alphabet)
	}
	// every sequence of exactly `depth` ops (shorter ones are their prefixes: the
	// oracle runs after every step)
	for i := 0; i < total; i++ {
		if !pbt.ShardOwns(i) {
			continue
		}
		ops := []Op{{Op: "addfield", F: 0}}
		for x, k := i, 0; k < depth; k++ {
			ops = append(ops, alphabet[x%len(alphabet)])
			x /= len(alphabet)
		}
		ops = append(ops, Op{Op: "counts", F: 0}, Op{Op: "counts", F: 1})
		c := Case{Ops: ops}
		if pbt.WantSample(t) {
			pbt.Sample(t, opsText(c.Ops))
		}
		runCase(t, c)
	}
	pbt.Exhaustive(t)
}

// TestConfirmKnown replays the minimal history of each listed defect (and of defects
// the random search is steered away from), so that every run reports them while they
// are open and is silent about them once they are repaired.
var confirmCases = map[string][]Op{
	"replace-keeps-old-term": {
		{Op: "addfield", F: 0},
		{Op: "adddoc", Docs: []DocIn{sdoc(0, sA, absent)}},
		{Op: "adddoc", Docs: []DocIn{sdoc(0, sB, absent)}},
	},
	"replace-keeps-old-term:adddoctx": {
		{Op: "addfield", F: 0},
		{Op: "bulk", Docs: []DocIn{sdoc(0, sA, absent)}},
		{Op: "bulk", Docs: []DocIn{sdoc(0, sB, absent)}},
	},
	"removedoc-double-decrement": {
		{Op: "addfield", F: 0},
		{Op: "adddoc", Docs: []DocIn{sdoc(0, sA, absent)}},
		{Op: "adddoc", Docs: []DocIn{sdoc(1, sA, absent)}},
		{Op: "removedoc", ID: 0},
	},
	"removedoc-fails-after-removefield": {
		{Op: "addfield", F: 0},
		{Op: "addfield", F: 1},
		{Op: "adddoc", Docs: []DocIn{sdoc(0, sA, n2)}},
		{Op: "removefield", F: 0},
		{Op: "removedoc", ID: 0},
	},
	"gettermmatch-number-id-nul-prefix": {
		{Op: "addfield", F: 1},
		{Op: "adddoc", Docs: []DocIn{sdoc(0, absent, n2)}},
	},
	"numeric-max:neg+zero": {
		{Op: "addfield", F: 1},
		{Op: "adddoc", Docs: []DocIn{sdoc(0, absent, n0)}},
		{Op: "adddoc", Docs: []DocIn{sdoc(1, absent, nM1)}},
	},
	"numeric-min:negzero+pos": {
		{Op: "addfield", F: 1},
		{Op: "adddoc", Docs: []DocIn{sdoc(0, absent, Term{K: "n", I: 3})}},
		{Op: "adddoc", Docs: []DocIn{sdoc(1, absent, n2)}},
	},
	"range:negative-bounds": {
		{Op: "addfield", F: 1},
		{Op: "adddoc", Docs: []DocIn{sdoc(0, absent, nM25)}},
		{Op: "adddoc", Docs: []DocIn{sdoc(1, absent, nM1)}},
		{Op: "adddoc", Docs: []DocIn{sdoc(2, absent, n2)}},
		{Op: "adddoc", Docs: []DocIn{sdoc(3, absent, n0)}},
	},
}

func TestConfirmKnown(t *testing.T) {
	if _, ok := pbt.ReplayFile(); ok {
		t.Skip("replay mode (TestHistories replays)")
	}
	names := make([]string, 0, len(confirmCases))
	for n := range confirmCases {
		names = append(names, n)
	}
	sort.Strings(names)
	for i, n := range names {
		if !pbt.ShardOwns(i) {
			continue
		}
		runCase(t, Case{Ops: confirmCases[n]})
	}
}

// ---------------------------------------------------------------------------------
// many distinct numeric terms: FieldTermNumberRange hands its answer over through a
// channel of capacity 100 that it fills before returning it.

type bigCase struct {
	Driver string `json:"driver"`
	N      int    `json:"n"`      // distinct numeric terms, half of them negative
	Lo     int    `json:"lo"`     // range bounds as indexes into the sorted term list (-1 = -Inf, N = +Inf)
	Hi     int    `json:"hi"`
	Dup    bool   `json:"dup"`    // every term carried by two documents
}

func bigTerms(n int) []float64 {
	out := make([]float64, n)
	for i := range out {
		out[i] = float64(i-n/2)*0.5 + 0.25
	}
	return out
}

func runBig(t pbt.TB, c bigCase) {
	pbt.Case(t)
	pbt.Current(t, c)
	// a private store: a deadlocked call keeps its read transaction open for ever
	var kv kvi.KVInterface
	var err error
	if c.Driver == "mem" {
		kv, _, err = caseStore("mem")
	} else {
		kv, err = openStore(c.Driver)
	}
	if err != nil {
		t.Fatalf("INFRA: open %s: %v", c.Driver, err)
	}
	idx := kvindex.NewIndex(kv)
	const field = "h"
	idx.AddField(field)
	terms := bigTerms(c.N)
	// one Update transaction per 50 documents, like the aggregation processors
	id := 0
	per := 1
	if c.Dup {
		per = 2
	}
	for start := 0; start < len(terms); start += 50 {
		end := start + 50
		if end > len(terms) {
			end = len(terms)
		}
		err := kv.Update(func(tx kvi.KVTransaction) error {
			for _, x := range terms[start:end] {
				for k := 0; k < per; k++ {
					if err := idx.AddDocTx(tx, fmt.Sprintf("%d", id), map[string]interface{}{field: x}); err != nil {
						return err
					}
					id++
				}
			}
			return nil
		})
		if err != nil {
			pbt.Discrepancy(t, c, "error:update", "[%s] AddDocTx of %d numeric documents failed: %v", c.Driver, c.N, err)
			return
		}
	}
	lo, hi := math.Inf(-1), math.Inf(1)
	if c.Lo >= 0 {
		lo = terms[c.Lo]
	}
	if c.Hi < c.N {
		hi = terms[c.Hi]
	}
	want := map[float64]uint64{}
	for _, x := range terms {
		if lo <= x && x < hi {
			want[x] = uint64(per)
		}
	}
	if len(want) > 100 {
		pbt.Nontrivial(t, fmt.Sprintf("big|%d|%d|%d|%v", c.N, c.Lo, c.Hi, c.Dup))
		pbt.Class(t, "range-terms:>100")
	} else {
		pbt.Class(t, "range-terms:<=100")
	}
	raw, h := numberRange(idx, field, lo, hi)
	if h != nil {
		if h.proven {
			pbt.Discrepancy(t, c, "range:deadlock-buffer-full", "[%s] FieldTermNumberRange(%s, %v, %v) over %d distinct terms in range never returns: %s", c.Driver, field, lo, hi, len(want), h.where)
		} else {
			pbt.Inconclusive(t, "FieldTermNumberRange did not return within the budget and no goroutine is provably stuck")
		}
		return
	}
	got := map[float64]uint64{}
	for _, x := range raw {
		got[x.Number] += x.Count
	}
	for _, x := range terms {
		if got[x] == want[x] {
			continue
		}
		sig := "range:many-terms:content"
		switch {
		case got[x] == 0 && x == lo && lo < 0:
			sig = "range:negative-lo-excluded"
		case want[x] == 0 && x == hi && hi < 0:
			sig = "range:negative-hi-included"
		}
		if c.Driver != "badger" && c.Driver != "mem" && sig == "range:many-terms:content" {
			sig = c.Driver + ":" + sig // not one of the symptoms of the index's own scan
		}
		if !pbt.Discrepancy(t, c, sig, "[%s] FieldTermNumberRange(%s, %v, %v) over %d terms: term %v has count %d, want %d", c.Driver, field, lo, hi, c.N, x, got[x], want[x]) {
			continue
		}
	}
}

func TestRangeManyTerms(t *testing.T) {
	if cf, ok := pbt.ReplayFile(); ok {
		if cf.Test != "TestRangeManyTerms" {
			t.Skip("replay of another test")
		}
		var c bigCase
		if err := json.Unmarshal(cf.Case, &c); err != nil {
			t.Fatalf("INFRA: cannot decode case: %v", err)
		}
		runBig(t, c)
		return
	}
	type shape struct {
		n, lo, hi int
		dup       bool
	}
	shapes := []shape{
		{99, -1, 99, false}, {100, -1, 100, false}, {101, -1, 101, false}, // whole line: 99, 100, 101 terms
		{240, 120, 220, false}, {240, 120, 221, true}, // positive side: 100 and 101 terms
	}
	if pbt.Thorough() {
		shapes = append(shapes, shape{240, 10, 110, false}, shape{240, 9, 110, true}, shape{240, 60, 180, false}, shape{1000, -1, 1000, true}, shape{150, -1, 75, false})
	}
	i := 0
	for _, drv := range tierDrivers() {
		for _, s := range shapes {
			i++
			if !pbt.ShardOwns(i) {
				continue
			}
			runBig(t, bigCase{Driver: drv, N: s.n, Lo: s.lo, Hi: s.hi, Dup: s.dup})
		}
	}
	pbt.Exhaustive(t)
}
