// Package c09: secondary-index answers equal a scan of the live documents.
//
// A case is an explicit list of operations on one kvindex.KVIndex (field registration
// and removal, document insertion / replacement / removal through every entry point the
// callers use, and the two count queries, which write to the store). After every step
// every public query is compared with a brute-force scan of the model's live documents.
//
// Layout of this file: universe, case form, specification model, defect simulators
// (used only to NAME a discrepancy, never to excuse one), store handling, judge.
package c09

import (
	"context"
	"encoding/json"
	"fmt"
	"math"
	"os"
	"path/filepath"
	"runtime"
	"sort"
	"strings"
	"sync"
	"time"

	"github.com/bmeg/grip/kvi"
	_ "github.com/bmeg/grip/kvi/badgerdb"
	_ "github.com/bmeg/grip/kvi/boltdb"
	_ "github.com/bmeg/grip/kvi/leveldb"
	_ "github.com/bmeg/grip/kvi/pebbledb"
	"github.com/bmeg/grip/kvindex"
	"verif/internal/memkv"
	"verif/internal/pbt"
)

// ---------------------------------------------------------------------------------
// universe

// field paths: nested ones shaped like kvgraph's "<graph>.v.label" and
// "<graph>.v.<Label>.<key>" (they share the prefix g.v; the name of the last one extends the
// name of the second byte-wise, like the indexed properties age / age_group of one label),
// and one top-level path as the aggregation processors use.
var fieldPaths = []string{"g.v.label", "g.v.A.k", "h", "g.v.A.kk"}

// document ids: one id is a prefix of another
var docIDs = []string{"d0", "d1", "d10", "d2", "e"}

// string terms: prefix pair, the empty string, a dotted one, non-ASCII
var strPool = []string{"a", "ab", "b", "", "A.k", "Pérson"}

var negZero = math.Copysign(0, -1)

// numeric terms: sign / magnitude boundaries
var numPool = []float64{-1e9, -2.5, -1, negZero, 0, 0.5, 1, 2, 1e9, math.MaxFloat64, -math.MaxFloat64, math.SmallestNonzeroFloat64}

// Term is the value a document carries at one field path.
type Term struct {
	K string `json:"k"`           // s: strPool[I] | n: numPool[I] | absent | null | nomap
	I int    `json:"i,omitempty"` // pool index
}

// value returns the indexable value (string or float64) if the document has one here.
func (t Term) value() (interface{}, bool) {
	switch t.K {
	case "s":
		return strPool[t.I%len(strPool)], true
	case "n":
		return numPool[t.I%len(numPool)], true
	}
	return nil, false
}

func (t Term) String() string {
	if v, ok := t.value(); ok {
		return tkOf(v).String()
	}
	if t.K == "" {
		return "absent"
	}
	return t.K
}

// tk is a comparable term key: a string or the bits of a float64.
type tk struct {
	num  bool
	s    string
	bits uint64
}

func tkOf(v interface{}) tk {
	switch x := v.(type) {
	case string:
		return tk{s: x}
	case float64:
		return tk{num: true, bits: math.Float64bits(x)}
	}
	panic(fmt.Sprintf("tkOf(%T)", v))
}

func (k tk) float() float64 { return math.Float64frombits(k.bits) }

// canon maps -0.0 to +0.0 (the property does not distinguish them).
func (k tk) canon() tk {
	if k.num && k.float() == 0 {
		return tk{num: true}
	}
	return k
}

func (k tk) isZero() bool { return k.num && k.float() == 0 }

func (k tk) value() interface{} {
	if k.num {
		return k.float()
	}
	return k.s
}

func (k tk) String() string {
	if k.num {
		f := k.float()
		if f == 0 && math.Signbit(f) {
			return "-0"
		}
		return fmt.Sprintf("%v", f)
	}
	return fmt.Sprintf("%q", k.s)
}

func tkLess(a, b tk) bool {
	if a.num != b.num {
		return !a.num
	}
	if a.num {
		if a.float() != b.float() {
			return a.float() < b.float()
		}
		return a.bits < b.bits
	}
	return a.s < b.s
}

// ---------------------------------------------------------------------------------
// case form

// DocIn is one document: its id and its value at each of the three field paths.
type DocIn struct {
	ID int     `json:"id"`
	T  [4]Term `json:"t"`
}

func (d DocIn) String() string {
	return fmt.Sprintf("%s{%s:%s %s:%s %s:%s %s:%s}", docIDs[d.ID], fieldPaths[0], d.T[0], fieldPaths[1], d.T[1], fieldPaths[2], d.T[2], fieldPaths[3], d.T[3])
}

// Op kinds:
//
//	addfield F / removefield F
//	adddoc Docs[0]            KVIndex.AddDoc
//	bulk Docs...              AddDocTx for each doc inside KV.BulkWrite (kvgraph.AddVertex)
//	update Docs...            AddDocTx for each doc inside KV.Update (aggregation processors)
//	removedoc ID              KVIndex.RemoveDoc (through the per-document entry list)
//	removedoctx ID            KVIndex.RemoveDocTx inside KV.Update with the content the document was last
//	                          added with, the way kvgraph un-indexes the stored version of an element before
//	                          it re-adds or deletes it; nothing happens if the document is not live
//	counts F / scounts F      FieldTermCounts / FieldStringTermCounts (they write the recounted values back)
type Op struct {
	Op   string  `json:"op"`
	F    int     `json:"f,omitempty"`
	ID   int     `json:"id,omitempty"`
	Docs []DocIn `json:"docs,omitempty"`
}

func (o Op) String() string {
	switch o.Op {
	case "addfield", "removefield", "counts", "scounts":
		return fmt.Sprintf("%s(%s)", o.Op, fieldPaths[o.F])
	case "removedoc", "removedoctx":
		return fmt.Sprintf("%s(%s)", o.Op, docIDs[o.ID])
	}
	parts := make([]string, len(o.Docs))
	for i, d := range o.Docs {
		parts[i] = d.String()
	}
	return fmt.Sprintf("%s(%s)", o.Op, strings.Join(parts, ", "))
}

// Case is one history. Driver is filled in when a discrepancy is reported (replay runs
// exactly that driver); an empty Driver means "the drivers of the tier".
type Case struct {
	Driver string `json:"driver,omitempty"`
	Ops    []Op   `json:"ops"`
	Text   string `json:"text,omitempty"` // human-readable rendering, ignored on replay
}

func opsText(ops []Op) string {
	parts := make([]string, len(ops))
	for i, o := range ops {
		parts[i] = o.String()
	}
	return strings.Join(parts, "; ")
}

func wellFormed(c Case) error {
	for _, o := range c.Ops {
		switch o.Op {
		case "addfield", "removefield", "counts", "scounts":
			if o.F < 0 || o.F >= len(fieldPaths) {
				return fmt.Errorf("bad field index in %v", o)
			}
		case "removedoc", "removedoctx":
			if o.ID < 0 || o.ID >= len(docIDs) {
				return fmt.Errorf("bad doc index in %v", o)
			}
		case "adddoc", "bulk", "update":
			if len(o.Docs) == 0 || (o.Op == "adddoc" && len(o.Docs) != 1) {
				return fmt.Errorf("bad doc list in %q", o.Op)
			}
			for i, d := range o.Docs {
				if d.ID < 0 || d.ID >= len(docIDs) {
					return fmt.Errorf("bad doc index in %q", o.Op)
				}
				if d.T[1].K == "nomap" {
					o.Docs[i].T[3] = Term{K: "absent"} // A is not a map: A.kk cannot exist
				}
				for _, t := range d.T {
					if t.I < 0 {
						return fmt.Errorf("bad pool index")
					}
				}
			}
		default:
			return fmt.Errorf("unknown op %q", o.Op)
		}
	}
	return nil
}

// buildDoc makes the nested document the index digs through, shaped like
// kvgraph.vertexIdxStruct: {g: {v: {label: T0, A: {k: T1}}}, gh: T2}, where g is the
// case's namespace (as kvgraph puts the graph name in front).
func buildDoc(d DocIn, ns string) map[string]interface{} {
	v := map[string]interface{}{}
	root := map[string]interface{}{ns: map[string]interface{}{"v": v}}
	if x, ok := d.T[0].value(); ok {
		v["label"] = x
	} else if d.T[0].K == "null" {
		v["label"] = nil
	}
	switch x, ok := d.T[1].value(); {
	case ok:
		v["A"] = map[string]interface{}{"k": x}
	case d.T[1].K == "null":
		v["A"] = map[string]interface{}{"k": nil}
	case d.T[1].K == "nomap":
		v["A"] = "not-a-map" // the path g.v.A.k cannot be followed
	}
	if d.T[1].K != "nomap" { // (normalised: T[3] is absent when A is not a map)
		a, _ := v["A"].(map[string]interface{})
		if x, ok := d.T[3].value(); ok {
			if a == nil {
				a = map[string]interface{}{}
				v["A"] = a
			}
			a["kk"] = x
		} else if d.T[3].K == "null" {
			if a == nil {
				a = map[string]interface{}{}
				v["A"] = a
			}
			a["kk"] = nil
		}
	}
	if x, ok := d.T[2].value(); ok {
		root[ns+"h"] = x
	} else if d.T[2].K == "null" {
		root[ns+"h"] = nil
	}
	return root
}

// ---------------------------------------------------------------------------------
// specification model: a scan of the live documents.
//
// A document is expected under a field iff the field was registered when the document
// was (last) added, the field has not been removed since, and the document has a string
// or number there (kvgraph/index.go: "TODO kick off background process to reindex
// existing data": documents older than the registration are not indexed for it).

type spec struct {
	fields [4]bool
	live   map[int]map[int]tk // doc -> field -> indexed term
	docs   map[int]DocIn      // doc -> content it was last added with
}

func newSpec() *spec { return &spec{live: map[int]map[int]tk{}, docs: map[int]DocIn{}} }

// resolve fills in what a removedoctx op needs at run time: the content the caller
// hands to RemoveDocTx is the stored version of the document, i.e. what it was last added
// with (no document: no call).
func resolve(op Op, content map[int]DocIn) Op {
	if op.Op == "removedoctx" {
		op.Docs = nil
		if d, ok := content[op.ID]; ok {
			op.Docs = []DocIn{d}
		}
	}
	return op
}

func (s *spec) addDoc(d DocIn) {
	m := map[int]tk{}
	for f := range fieldPaths {
		if s.fields[f] {
			if v, ok := d.T[f].value(); ok {
				m[f] = tkOf(v)
			}
		}
	}
	s.live[d.ID] = m
	s.docs[d.ID] = d
}

func (s *spec) apply(op Op) {
	switch op.Op {
	case "addfield":
		s.fields[op.F] = true
	case "removefield":
		s.fields[op.F] = false
		for _, m := range s.live {
			delete(m, op.F)
		}
	case "adddoc", "bulk", "update":
		for _, d := range op.Docs {
			s.addDoc(d)
		}
	case "removedoc", "removedoctx":
		delete(s.live, op.ID)
		delete(s.docs, op.ID)
	}
}

// entries of field f: term -> sorted doc indexes (raw terms: -0 and +0 separate)
func (s *spec) entries(f int) map[tk][]int {
	out := map[tk][]int{}
	for id, m := range s.live {
		if k, ok := m[f]; ok {
			out[k] = append(out[k], id)
		}
	}
	for k := range out {
		sort.Ints(out[k])
	}
	return out
}

func (s *spec) numbers(f int) []float64 {
	var out []float64
	for _, m := range s.live {
		if k, ok := m[f]; ok && k.num {
			out = append(out, k.float())
		}
	}
	sort.Float64s(out)
	return out
}

// ---------------------------------------------------------------------------------
// defect simulators
//
// A simulator is a small replica of what kvindex keeps in the store (entries, term
// keys with their cached counts, per-document entry lists), with one switch per known
// stateful defect. All 2^n switch settings run next to the real index. They never
// decide whether an answer is right (only the specification model does); when an answer
// is wrong, the smallest set of switches that reproduces the wrong answer names the
// root cause (the discrepancy signature). With every switch off the simulator must
// agree with the specification model (checked on every comparison).

const (
	bugReplaceAddDoc   = 1 << iota // AddDoc of an existing id leaves the old version's entries
	bugReplaceAddDocTx             // AddDocTx (BulkWrite / Update callers) likewise
	bugDoubleDecrement             // RemoveDoc deletes the entry, recounts (already without it), subtracts one again
	bugStaleRecord                 // RemoveDoc fails on an entry whose term key is gone (RemoveField does not touch the per-document lists)
	nBugs              = 4
)

var bugSig = map[uint]string{
	bugReplaceAddDoc:   "replace-keeps-old-term",
	bugReplaceAddDocTx: "replace-keeps-old-term:adddoctx",
	bugDoubleDecrement: "removedoc-double-decrement",
	bugStaleRecord:     "removedoc-fails-after-removefield",
}

var bugFinding = map[uint]string{
	bugReplaceAddDoc:   "C09-replace-keeps-old-term",
	bugReplaceAddDocTx: "C09-replace-keeps-old-term-adddoctx",
	bugDoubleDecrement: "C09-removedoc-double-decrement",
	bugStaleRecord:     "C09-removedoc-fails-after-removefield",
}

type ent struct {
	f  int
	k  tk
	id int
}
type fterm struct {
	f int
	k tk
}

type sim struct {
	bugs    uint
	fields  [4]bool
	entries map[ent]bool
	terms   map[fterm]uint64 // term key present; 0 = count invalidated
	docs    map[int][]ent    // per-document entry list ("D" keys)
	content map[int]DocIn    // what the caller knows as the stored version of each document
}

func newSim(bugs uint) *sim {
	return &sim{bugs: bugs, entries: map[ent]bool{}, terms: map[fterm]uint64{}, docs: map[int][]ent{}, content: map[int]DocIn{}}
}

func (s *sim) clone() *sim {
	o := &sim{bugs: s.bugs, fields: s.fields, entries: make(map[ent]bool, len(s.entries)), terms: make(map[fterm]uint64, len(s.terms)), docs: make(map[int][]ent, len(s.docs))}
	for k, v := range s.entries {
		o.entries[k] = v
	}
	for k, v := range s.terms {
		o.terms[k] = v
	}
	for k, v := range s.docs {
		o.docs[k] = append([]ent(nil), v...)
	}
	o.content = make(map[int]DocIn, len(s.content))
	for k, v := range s.content {
		o.content[k] = v
	}
	return o
}

func (s *sim) recount(ft fterm) uint64 {
	var n uint64
	for e := range s.entries {
		if e.f == ft.f && e.k == ft.k {
			n++
		}
	}
	return n
}

// removeDoc mutates s; false = the real call would return an error (caller discards s).
func (s *sim) removeDoc(id int) bool {
	rec, ok := s.docs[id]
	if !ok {
		return true
	}
	for _, e := range rec {
		ft := fterm{e.f, e.k}
		if s.bugs&bugStaleRecord == 0 && !s.entries[e] {
			continue // repaired behaviour: an entry that no longer exists needs no bookkeeping
		}
		if s.bugs&bugDoubleDecrement != 0 {
			delete(s.entries, e)
		}
		c, has := s.terms[ft]
		if !has {
			return false
		}
		if c == 0 {
			c = s.recount(ft)
			s.terms[ft] = c
		}
		delete(s.entries, e)
		if c > 0 {
			c--
		}
		if c == 0 {
			delete(s.terms, ft)
		} else {
			s.terms[ft] = c
		}
	}
	delete(s.docs, id)
	return true
}

// removeDocTx: KVIndex.RemoveDocTx with the given content: the entries are computed from
// the content and the registered fields, the per-document list is neither used nor updated.
func (s *sim) removeDocTx(d DocIn) {
	for f := range fieldPaths {
		if !s.fields[f] {
			continue
		}
		v, ok := d.T[f].value()
		if !ok {
			continue
		}
		e := ent{f, tkOf(v), d.ID}
		if !s.entries[e] {
			continue
		}
		delete(s.entries, e)
		ft := fterm{f, e.k}
		if s.recount(ft) > 0 {
			s.terms[ft] = 0
		} else {
			delete(s.terms, ft)
		}
	}
}

func (s *sim) addDoc(d DocIn, bug uint) bool {
	if s.bugs&bug == 0 {
		if !s.removeDoc(d.ID) {
			return false
		}
	}
	rec := []ent{}
	for f := range fieldPaths {
		if !s.fields[f] {
			continue
		}
		if v, ok := d.T[f].value(); ok {
			e := ent{f, tkOf(v), d.ID}
			s.entries[e] = true
			s.terms[fterm{f, e.k}] = 0
			rec = append(rec, e)
		}
	}
	s.docs[d.ID] = rec
	s.content[d.ID] = d
	return true
}

type termCount struct {
	k tk
	n uint64
}

// apply returns the successor state (s itself is not modified), whether the real call
// is predicted to return an error, and for the count queries the predicted answer.
func (s *sim) apply(op Op) (next *sim, failed bool, counts []termCount) {
	w := s.clone()
	switch op.Op {
	case "addfield":
		w.fields[op.F] = true
	case "removefield":
		w.fields[op.F] = false
		for e := range w.entries {
			if e.f == op.F {
				delete(w.entries, e)
			}
		}
		for ft := range w.terms {
			if ft.f == op.F {
				delete(w.terms, ft)
			}
		}
	case "adddoc":
		if !w.addDoc(op.Docs[0], bugReplaceAddDoc) {
			return s, true, nil
		}
	case "bulk", "update":
		for _, d := range op.Docs {
			if !w.addDoc(d, bugReplaceAddDocTx) {
				return s, true, nil
			}
		}
	case "removedoc":
		if !w.removeDoc(op.ID) {
			return s, true, nil
		}
		delete(w.content, op.ID)
	case "removedoctx":
		if len(op.Docs) == 1 {
			w.removeDocTx(op.Docs[0])
			delete(w.content, op.ID)
		}
	case "counts", "scounts":
		var fts []fterm
		for ft := range w.terms {
			if ft.f == op.F && (op.Op == "counts" || !ft.k.num) {
				fts = append(fts, ft)
			}
		}
		sort.Slice(fts, func(i, j int) bool { return tkLess(fts[i].k, fts[j].k) })
		for _, ft := range fts {
			c := w.terms[ft]
			if c == 0 {
				c = w.recount(ft)
				w.terms[ft] = c
			}
			counts = append(counts, termCount{ft.k, c})
		}
	}
	return w, false, counts
}

func (s *sim) equal(o *sim) bool {
	if s.fields != o.fields || len(s.entries) != len(o.entries) || len(s.terms) != len(o.terms) || len(s.docs) != len(o.docs) {
		return false
	}
	for e := range s.entries {
		if !o.entries[e] {
			return false
		}
	}
	for ft, c := range s.terms {
		if oc, ok := o.terms[ft]; !ok || oc != c {
			return false
		}
	}
	if len(s.content) != len(o.content) {
		return false
	}
	for id, d := range s.content {
		if od, ok := o.content[id]; !ok || od != d {
			return false
		}
	}
	for id, rec := range s.docs {
		orec, ok := o.docs[id]
		if !ok || len(rec) != len(orec) {
			return false
		}
		a := map[ent]bool{}
		for _, e := range rec {
			a[e] = true
		}
		for _, e := range orec {
			if !a[e] {
				return false
			}
		}
	}
	return true
}

func (s *sim) match(f int, k tk) []int {
	var ids []int
	for e := range s.entries {
		if e.f == f && e.k == k {
			ids = append(ids, e.id)
		}
	}
	sort.Ints(ids)
	return ids
}

func (s *sim) fieldTerms(f int) []tk {
	var out []tk
	for ft := range s.terms {
		if ft.f == f {
			out = append(out, ft.k)
		}
	}
	return out
}

// subsets of the switches ordered by size, then value: the first that reproduces an
// observation is the smallest explanation.
var bugSubsets = func() []uint {
	var out []uint
	for b := uint(0); b < 1<<nBugs; b++ {
		out = append(out, b)
	}
	pop := func(x uint) int {
		n := 0
		for ; x != 0; x &= x - 1 {
			n++
		}
		return n
	}
	sort.SliceStable(out, func(i, j int) bool {
		if pop(out[i]) != pop(out[j]) {
			return pop(out[i]) < pop(out[j])
		}
		return out[i] < out[j]
	})
	return out
}()

func lowestBug(set uint) uint { return set & -set }

// ---------------------------------------------------------------------------------
// canonical renderings (sets, not orders; -0 folded into 0)

func idsText(ids []int) string {
	parts := make([]string, len(ids))
	for i, id := range ids {
		parts[i] = docIDs[id]
	}
	return "[" + strings.Join(parts, " ") + "]"
}

func termSetText(ks []tk) string {
	seen := map[tk]bool{}
	var c []tk
	for _, k := range ks {
		k = k.canon()
		if !seen[k] {
			seen[k] = true
			c = append(c, k)
		}
	}
	sort.Slice(c, func(i, j int) bool { return tkLess(c[i], c[j]) })
	parts := make([]string, len(c))
	for i, k := range c {
		parts[i] = k.String()
	}
	return "{" + strings.Join(parts, " ") + "}"
}

// countsText renders term counts the way KVTermCount can express them: a string term
// "" and the number 0 are indistinguishable there ({String:"", Number:0}), so both
// fold into the same key on either side of the comparison.
func countsText(cs []termCount) string {
	m := map[string]uint64{}
	for _, c := range cs {
		k := c.k.canon()
		var key string
		if k.num {
			key = fmt.Sprintf("|%v", k.float())
		} else {
			key = fmt.Sprintf("%q|0", k.s)
			if k.s == "" {
				key = "|0"
			}
		}
		m[key] += c.n
	}
	keys := make([]string, 0, len(m))
	for k := range m {
		keys = append(keys, k)
	}
	sort.Strings(keys)
	parts := make([]string, len(keys))
	for i, k := range keys {
		parts[i] = fmt.Sprintf("%s=%d", k, m[k])
	}
	return "{" + strings.Join(parts, " ") + "}"
}

// ---------------------------------------------------------------------------------
// stores

// Stores live on tmpfs when there is one: every Badger/Bolt commit is an fsync, which on
// a disk costs more than everything else in a case together. The directories are removed
// when the process ends (cleanupStores) and leftovers of killed runs on the next start.
type openedStore struct {
	kv   kvi.KVInterface
	dir  string
	uses int
}

var (
	storeMu   sync.Mutex
	stores    = map[string]*openedStore{}
	storeDirs []string
)

func storeBase() string {
	if d := os.Getenv("C09_STORE_DIR"); d != "" {
		return d
	}
	if st, err := os.Stat("/dev/shm"); err == nil && st.IsDir() {
		if f, err := os.CreateTemp("/dev/shm", "verif-c09-probe"); err == nil {
			f.Close()
			os.Remove(f.Name())
			return "/dev/shm"
		}
	}
	return ""
}

func newStoreDir(driver string) string {
	base := storeBase()
	if base == "" {
		return pbt.ScratchDir("c09-" + driver + "-")
	}
	dir, err := os.MkdirTemp(base, "verif-c09-"+driver+"-")
	if err != nil {
		return pbt.ScratchDir("c09-" + driver + "-")
	}
	storeMu.Lock()
	storeDirs = append(storeDirs, dir)
	storeMu.Unlock()
	return dir
}

func cleanupStores() {
	storeMu.Lock()
	defer storeMu.Unlock()
	for _, d := range storeDirs {
		os.RemoveAll(d)
	}
	storeDirs = nil
}

// removeStaleStoreDirs removes directories left behind by runs that were killed.
func removeStaleStoreDirs() {
	base := storeBase()
	if base == "" {
		return
	}
	old, _ := filepath.Glob(filepath.Join(base, "verif-c09-*"))
	for _, d := range old {
		if st, err := os.Stat(d); err == nil && time.Since(st.ModTime()) > 2*time.Hour {
			os.RemoveAll(d)
		}
	}
}

func openStoreDir(driver string) (kvi.KVInterface, string, error) {
	dir := newStoreDir(driver)
	path := dir
	if driver == "bolt" {
		path = filepath.Join(dir, "bolt.db")
	}
	kv, err := kvi.NewKVInterface(driver, path, nil)
	return kv, dir, err
}

func openStore(driver string) (kvi.KVInterface, error) {
	kv, _, err := openStoreDir(driver)
	return kv, err
}

// caseStore returns the store a case runs on and the case's namespace. Stores are shared
// by the cases of a process and never wiped (deleting leaves tombstones that every later
// scan has to step over; after a few hundred wipes a case costs 50x more): instead every
// case gets field names and document ids under a namespace of its own, numbered upwards,
// so that it only ever sees its own keys, with earlier cases' keys before them and
// nothing after them, as in a store of its own. "mem" is the in-memory ordered map of
// internal/memkv (reference semantics, no driver quirks), one per case.
var nsSeq int

const reopenEvery = 3000

func caseStore(driver string) (kvi.KVInterface, string, error) {
	storeMu.Lock()
	nsSeq++
	ns := fmt.Sprintf("g%07d", nsSeq)
	st, ok := stores[driver]
	storeMu.Unlock()
	if driver == "mem" {
		return memkv.New(), ns, nil
	}
	if ok {
		st.uses++
		if st.uses < reopenEvery {
			return st.kv, ns, nil
		}
		st.kv.Close()
		os.RemoveAll(st.dir)
		storeMu.Lock()
		delete(stores, driver)
		storeMu.Unlock()
	}
	kv, dir, err := openStoreDir(driver)
	if err != nil {
		return nil, ns, err
	}
	storeMu.Lock()
	stores[driver] = &openedStore{kv: kv, dir: dir}
	storeMu.Unlock()
	return kv, ns, nil
}

// ---------------------------------------------------------------------------------
// draining channels. The index hands out channels fed by goroutines; a channel that is
// never closed is judged only when a goroutine is provably stuck inside kvindex.

const drainBudget = 30 * time.Second

type hang struct {
	proven bool
	where  string
}

func stuckInKvindex(fn string) (bool, string) {
	// two samples 100 ms apart: the same goroutine sits in a channel send inside fn
	find := func() string {
		buf := make([]byte, 1<<20)
		buf = buf[:runtime.Stack(buf, true)]
		for _, g := range strings.Split(string(buf), "\n\n") {
			if strings.Contains(g, "kvindex.(*KVIndex)."+fn) && strings.Contains(strings.SplitN(g, "\n", 2)[0], "chan send") {
				return strings.SplitN(g, "\n", 2)[0]
			}
		}
		return ""
	}
	a := find()
	if a == "" {
		return false, ""
	}
	time.Sleep(100 * time.Millisecond)
	b := find()
	ga := strings.SplitN(a, " [", 2)[0]
	if b == "" || strings.SplitN(b, " [", 2)[0] != ga {
		return false, ""
	}
	return true, ga + " blocked in chan send inside kvindex." + fn
}

func drain[T any](ch <-chan T, fn string) ([]T, *hang) {
	var out []T
	timer := time.NewTimer(drainBudget)
	defer timer.Stop()
	for {
		select {
		case v, ok := <-ch:
			if !ok {
				return out, nil
			}
			out = append(out, v)
		case <-timer.C:
			ok, where := stuckInKvindex(fn)
			return out, &hang{proven: ok, where: where}
		}
	}
}

// numberRange calls FieldTermNumberRange, which fills its channel before returning it:
// the call itself can block for ever, so it runs in its own goroutine. A call that has
// not returned is a deadlock exactly when its goroutine is blocked sending on the
// channel it has not handed out yet (nobody can ever receive from it).
func numberRange(idx *kvindex.KVIndex, field string, lo, hi float64) ([]kvindex.KVTermCount, *hang) {
	res := make(chan chan kvindex.KVTermCount, 1)
	go func() { res <- idx.FieldTermNumberRange(field, lo, hi) }()
	deadline := time.Now().Add(drainBudget)
	wait := 2 * time.Millisecond
	for {
		select {
		case ch := <-res:
			return drain(ch, "FieldTermNumberRange")
		case <-time.After(wait):
		}
		if wait >= 100*time.Millisecond {
			if ok, where := stuckInKvindex("FieldTermNumberRange"); ok {
				return nil, &hang{proven: true, where: where}
			}
		}
		if time.Now().After(deadline) {
			return nil, &hang{}
		}
		if wait < 200*time.Millisecond {
			wait *= 4
		}
	}
}

// ---------------------------------------------------------------------------------
// judge

type finding struct {
	Step  int    // index of the op after which it was seen
	Query string // which query / call
	Sig   string
	Msg   string
}

func (f finding) key() string { return fmt.Sprintf("%d|%s|%s", f.Step, f.Query, f.Sig) }

type caseInfo struct {
	classes      map[string]bool
	nontrivial   bool
	inconclusive string
	harness      string // model self-check failure (a bug of this harness)
	steps        int    // steps fully judged
}

type judgeRun struct {
	c      Case
	driver string
	ns     string // namespace of the case inside the shared store
	idx    *kvindex.KVIndex
	kv     kvi.KVInterface
	sp     *spec
	sims   map[uint]*sim
	fs     []finding
	info   caseInfo
	probes [4][]tk // terms probed with GetTermMatch, per field
	step   int
	ever   [4]bool // field registered at some point
	seen   map[string]bool
	// set after a document removal / replacement (non-triviality rule)
	afterChange bool
	// a wrong answer showed that the stored state itself is off: the case ends
	statefulHit bool
}

// real names inside the store: fields g.v.label, g.v.A.k, gh and ids g-d0 ... with g = j.ns
func (j *judgeRun) fname(f int) string {
	if f == 2 {
		return j.ns + "h"
	}
	return j.ns + fieldPaths[f][1:]
}

func (j *judgeRun) dname(id int) string { return j.ns + "-" + docIDs[id] }

func (j *judgeRun) docIndex(s string) (int, bool) {
	if !strings.HasPrefix(s, j.ns+"-") {
		return 0, false
	}
	id, ok := idIndex[s[len(j.ns)+1:]]
	return id, ok
}

func (j *judgeRun) add(query, sig, format string, args ...any) {
	k := query + "|" + sig
	if j.seen[k] {
		return // one report per (query kind, signature) and case
	}
	j.seen[k] = true
	j.fs = append(j.fs, finding{Step: j.step, Query: query, Sig: sig, Msg: fmt.Sprintf("after step %d %s: ", j.step, j.c.Ops[j.step]) + fmt.Sprintf(format, args...)})
}

// explain names a wrong answer of a state-dependent query: the smallest set of defect
// switches whose simulator gives exactly this answer.
func (j *judgeRun) explain(query, actual, want string, pred func(*sim) string, what string) {
	if p := pred(j.sims[0]); p != want && want != "" {
		j.info.harness = fmt.Sprintf("model self-check: %s: specification says %s, defect-free simulator says %s (step %d of %s)", what, want, p, j.step, opsText(j.c.Ops))
		return
	}
	for _, set := range bugSubsets {
		if set == 0 {
			continue
		}
		if pred(j.sims[set]) == actual {
			j.add(query, bugSig[lowestBug(set)], "%s returned %s, a scan of the live documents gives %s", what, actual, want)
			return
		}
	}
	j.add(query, "unexplained:"+query+":after-"+j.c.Ops[j.step].Op, "%s returned %s, a scan of the live documents gives %s", what, actual, want)
}

// probeTerms: for each field every term some document of the case carries at that field
// (-0 and +0 both, as soon as one of them occurs), plus one string and one number no
// document carries.
func probeTerms(c Case) [4][]tk {
	var res [4][]tk
	for f := range fieldPaths {
		seen := map[tk]bool{}
		var out []tk
		add := func(k tk) {
			if !seen[k] {
				seen[k] = true
				out = append(out, k)
			}
		}
		for _, o := range c.Ops {
			for _, d := range o.Docs {
				if v, ok := d.T[f].value(); ok {
					k := tkOf(v)
					add(k)
					if k.isZero() {
						add(tkOf(0.0))
						add(tkOf(negZero))
					}
				}
			}
		}
		add(tkOf("never-used"))
		add(tkOf(12345.678))
		sort.Slice(out, func(i, j int) bool { return tkLess(out[i], out[j]) })
		res[f] = out
	}
	return res
}

var idIndex = func() map[string]int {
	m := map[string]int{}
	for i, s := range docIDs {
		m[s] = i
	}
	return m
}()

func signClass(nums []float64) string {
	var neg, negzero, zero, pos bool
	for _, x := range nums {
		switch {
		case x < 0:
			neg = true
		case x > 0:
			pos = true
		case math.Signbit(x):
			negzero = true
		default:
			zero = true
		}
	}
	var p []string
	if neg {
		p = append(p, "neg")
	}
	if negzero {
		p = append(p, "negzero")
	}
	if zero {
		p = append(p, "zero")
	}
	if pos {
		p = append(p, "pos")
	}
	return strings.Join(p, "+")
}

func sgn(x float64) string {
	switch {
	case x < 0:
		return "neg"
	case x > 0:
		return "pos"
	}
	return "zero"
}

// exec performs one op on the real index.
func (j *judgeRun) exec(op Op) error {
	switch op.Op {
	case "addfield":
		return j.idx.AddField(j.fname(op.F))
	case "removefield":
		return j.idx.RemoveField(j.fname(op.F))
	case "adddoc":
		return j.idx.AddDoc(j.dname(op.Docs[0].ID), buildDoc(op.Docs[0], j.ns))
	case "bulk":
		return j.kv.BulkWrite(func(tx kvi.KVBulkWrite) error {
			for _, d := range op.Docs {
				if err := j.idx.AddDocTx(tx, j.dname(d.ID), buildDoc(d, j.ns)); err != nil {
					return err
				}
			}
			return nil
		})
	case "update":
		return j.kv.Update(func(tx kvi.KVTransaction) error {
			for _, d := range op.Docs {
				if err := j.idx.AddDocTx(tx, j.dname(d.ID), buildDoc(d, j.ns)); err != nil {
					return err
				}
			}
			return nil
		})
	case "removedoc":
		return j.idx.RemoveDoc(j.dname(op.ID))
	case "removedoctx":
		if len(op.Docs) != 1 {
			return nil
		}
		return j.kv.Update(func(tx kvi.KVTransaction) error {
			return j.idx.RemoveDocTx(tx, j.dname(op.ID), buildDoc(op.Docs[0], j.ns))
		})
	}
	return nil
}

func (j *judgeRun) hung(h *hang, query, sig string) {
	if h.proven {
		j.statefulHit = true // the store now has a stuck reader: stop the case
		j.add(query, sig, "%s never returns: %s", query, h.where)
		return
	}
	j.info.inconclusive = query + " did not finish within the budget and no goroutine is provably stuck"
}

func decodeCounts(cs []kvindex.KVTermCount, onlyStrings bool) []termCount {
	out := make([]termCount, 0, len(cs))
	for _, c := range cs {
		if c.String != "" {
			out = append(out, termCount{tkOf(c.String), c.Count})
		} else {
			// {String:"", Number:x}: a number, or the empty string (x == 0); countsText folds both
			if onlyStrings && c.Number == 0 {
				out = append(out, termCount{tkOf(""), c.Count})
			} else {
				out = append(out, termCount{tkOf(c.Number), c.Count})
			}
		}
	}
	return out
}

func (j *judgeRun) judgeCounts(op Op, simCounts map[uint][]termCount) {
	f := op.F
	field := fieldPaths[f]
	real := j.fname(f)
	var raw []kvindex.KVTermCount
	var h *hang
	name := "FieldTermCounts"
	if op.Op == "counts" {
		raw, h = drain(j.idx.FieldTermCounts(real), "fieldTermCounts")
	} else {
		name = "FieldStringTermCounts"
		raw, h = drain(j.idx.FieldStringTermCounts(real), "fieldTermCounts")
	}
	if h != nil {
		j.hung(h, name, "hang:"+name)
		return
	}
	var want []termCount
	if j.sp.fields[f] {
		for k, ids := range j.sp.entries(f) {
			if op.Op == "counts" || !k.num {
				want = append(want, termCount{k, uint64(len(ids))})
			}
		}
	}
	actual := countsText(decodeCounts(raw, op.Op == "scounts"))
	if a, w := countsText(simCounts[0]), countsText(want); a != w {
		j.info.harness = fmt.Sprintf("model self-check: %s(%s): simulator %s, specification %s (step %d of %s)", name, field, a, w, j.step, opsText(j.c.Ops))
		return
	}
	if w := countsText(want); actual != w {
		j.statefulHit = true
		j.explain(name, actual, w, func(s *sim) string { return countsText(simCounts[s.bugs]) }, fmt.Sprintf("%s(%s)", name, field))
	}
}

// selfCheck: with every defect switch off the simulator must describe the same index
// as the specification model.
func (j *judgeRun) selfCheck() {
	s0 := j.sims[0]
	for f := range fieldPaths {
		ents := map[tk][]int{}
		if j.sp.fields[f] {
			ents = j.sp.entries(f)
		}
		var want []tk
		n := 0
		for k, ids := range ents {
			want = append(want, k)
			n += len(ids)
			if a, b := idsText(s0.match(f, k)), idsText(ids); a != b {
				j.info.harness = fmt.Sprintf("model self-check: entries of (%s, %s): simulator %s, specification %s (step %d of %s)", fieldPaths[f], k, a, b, j.step, opsText(j.c.Ops))
				return
			}
		}
		m := 0
		for e := range s0.entries {
			if e.f == f {
				m++
			}
		}
		var have []tk
		for _, k := range s0.fieldTerms(f) {
			have = append(have, k)
		}
		if m != n || termSetText(have) != termSetText(want) || len(have) != len(want) {
			j.info.harness = fmt.Sprintf("model self-check: field %s: simulator has %d entries, terms %s; specification %d entries, terms %s (step %d of %s)", fieldPaths[f], m, termSetText(have), n, termSetText(want), j.step, opsText(j.c.Ops))
			return
		}
	}
}

// observe compares every query on every field with the specification model. After a
// count query (which rewrites term keys and nothing else) only FieldTerms of that field
// is looked at again (only = the field's index).
func (j *judgeRun) observe(only int) {
	ctx := context.Background()
	if j.selfCheck(); j.info.harness != "" {
		return
	}
	for f, field := range fieldPaths {
		if !j.ever[f] || (only >= 0 && f != only) {
			continue // never registered: nothing can be there
		}
		real := j.fname(f)
		ents := map[tk][]int{}
		if j.sp.fields[f] {
			ents = j.sp.entries(f)
		}
		hasNegZero := false
		for k := range ents {
			if k.num && k.float() == 0 && math.Signbit(k.float()) {
				hasNegZero = true
			}
		}
		// --- GetTermMatch for every probe term
		limited := [4]bool{}
		for _, k := range j.probes[f] {
			if only >= 0 {
				break
			}
			raw, h := drain(j.idx.GetTermMatch(ctx, real, k.value(), 0), "GetTermMatch")
			if h != nil {
				j.hung(h, "GetTermMatch", "hang:GetTermMatch")
				return
			}
			var ids []int
			bad := ""
			nul := false
			dup := false
			seen := map[int]bool{}
			for _, s := range raw {
				if k.num && strings.HasPrefix(s, "\x00") {
					nul = true
					s = s[1:]
				}
				id, ok := j.docIndex(s)
				if !ok {
					bad = s
					continue
				}
				if seen[id] {
					dup = true
				}
				seen[id] = true
				ids = append(ids, id)
			}
			sort.Ints(ids)
			if nul {
				j.add("GetTermMatch", "gettermmatch-number-id-nul-prefix", "GetTermMatch(%s, %s) returned %q: document ids of a numeric term come back with a leading NUL byte", field, k, raw)
			}
			if bad != "" {
				j.statefulHit = true
				j.add("GetTermMatch", "unexplained:GetTermMatch:unknown-id", "GetTermMatch(%s, %s) returned %q, not a document id", field, k, bad)
				return
			}
			if dup {
				j.statefulHit = true
				j.add("GetTermMatch", "unexplained:GetTermMatch:duplicate-id", "GetTermMatch(%s, %s) returned %q", field, k, raw)
				return
			}
			// by exact bits: -0.0 and +0.0 are two terms of the index (FieldNumbers hands both
			// out with their signs), so each is asked for separately
			req := ents[k]
			if idsText(ids) != idsText(req) {
				j.statefulHit = true
				kk := k
				j.explain("GetTermMatch", idsText(ids), idsText(req), func(s *sim) string { return idsText(s.match(f, kk)) }, fmt.Sprintf("GetTermMatch(%s, %s)", field, k))
				return
			}
			// maxCount > 0: any subset of that size
			for _, mc := range []int{1, 2} {
				if len(ids) < mc || limited[mc] {
					continue
				}
				limited[mc] = true // once per field and step: on the first term with enough documents
				lim, h := drain(j.idx.GetTermMatch(ctx, real, k.value(), mc), "GetTermMatch")
				if h != nil {
					j.hung(h, "GetTermMatch", "hang:GetTermMatch")
					return
				}
				var lids []int
				for _, s := range lim {
					s = strings.TrimPrefix(s, "\x00")
					if id, ok := j.docIndex(s); ok {
						lids = append(lids, id)
					}
				}
				sort.Ints(lids)
				if len(lim) != mc || len(lids) != mc || !subset(lids, ids) || (mc == 2 && lids[0] == lids[1]) {
					j.add("GetTermMatch", "gettermmatch:maxcount", "GetTermMatch(%s, %s, maxCount=%d) returned %q; the unlimited answer is %s", field, k, mc, lim, idsText(ids))
				}
			}
		}
		// --- FieldTerms
		rawTerms, h := drain(j.idx.FieldTerms(real), "FieldTerms")
		if h != nil {
			j.hung(h, "FieldTerms", "hang:FieldTerms")
			return
		}
		var got []tk
		dupTerm := ""
		seenT := map[tk]bool{}
		for _, x := range rawTerms {
			switch x.(type) {
			case string, float64:
				k := tkOf(x)
				if seenT[k] {
					dupTerm = k.String()
				}
				seenT[k] = true
				got = append(got, k)
			default:
				j.statefulHit = true
				j.add("FieldTerms", "unexplained:FieldTerms:kind", "FieldTerms(%s) produced a %T", field, x)
				return
			}
		}
		var wantTerms []tk
		for k := range ents {
			wantTerms = append(wantTerms, k)
		}
		if a, w := termSetText(got), termSetText(wantTerms); a != w {
			j.statefulHit = true
			j.explain("FieldTerms", a, w, func(s *sim) string { return termSetText(s.fieldTerms(f)) }, fmt.Sprintf("FieldTerms(%s)", field))
			return
		}
		if dupTerm != "" {
			j.statefulHit = true
			j.add("FieldTerms", "unexplained:FieldTerms:duplicate", "FieldTerms(%s) lists %s twice: %v", field, dupTerm, rawTerms)
			return
		}
		if !j.sp.fields[f] || only >= 0 {
			continue
		}
		// from here on the stored entries of the field are what the model expects: the
		// numeric queries are functions of those entries alone
		nums := j.sp.numbers(f)
		live := 0
		for _, ids := range ents {
			live += len(ids)
		}
		if j.afterChange && live >= 2 {
			j.info.nontrivial = true
		}
		if len(nums) > 0 {
			j.info.classes["numbers:"+signClass(nums)] = true
		}
		// --- FieldNumbers: ascending, with multiplicity
		gotNums, h := drain(j.idx.FieldNumbers(real), "FieldNumbers")
		if h != nil {
			j.hung(h, "FieldNumbers", "hang:FieldNumbers")
			return
		}
		asc := sort.SliceIsSorted(gotNums, func(a, b int) bool { return gotNums[a] < gotNums[b] })
		sortedGot := append([]float64(nil), gotNums...)
		sort.Float64s(sortedGot)
		same := len(sortedGot) == len(nums)
		for i := 0; same && i < len(nums); i++ {
			same = sortedGot[i] == nums[i]
		}
		if !same {
			j.add("FieldNumbers", "fieldnumbers:content:"+signClass(nums), "FieldNumbers(%s) returned %v, the live documents hold %v", field, gotNums, nums)
		} else if !asc {
			j.add("FieldNumbers", "fieldnumbers:order:"+signClass(nums), "FieldNumbers(%s) returned %v, not ascending", field, gotNums)
		}
		if len(nums) == 0 {
			continue
		}
		// --- min / max (defined only when a numeric term exists)
		if got, want := j.idx.FieldTermNumberMin(real), nums[0]; got != want {
			j.add("FieldTermNumberMin", "numeric-min:"+signClass(nums), "FieldTermNumberMin(%s) = %v, the live documents hold %v", field, got, nums)
		}
		if got, want := j.idx.FieldTermNumberMax(real), nums[len(nums)-1]; got != want {
			j.add("FieldTermNumberMax", "numeric-max:"+signClass(nums), "FieldTermNumberMax(%s) = %v, the live documents hold %v", field, got, nums)
		}
		// --- half-open ranges [lo, hi), lo < hi, over the terms present, 0 and the infinities
		bounds := []float64{math.Inf(-1), 0, math.Inf(1)}
		for _, x := range nums {
			if x != 0 {
				bounds = append(bounds, x)
			}
		}
		sort.Float64s(bounds)
		uniq := bounds[:0]
		for i, x := range bounds {
			if i == 0 || x != bounds[i-1] {
				uniq = append(uniq, x)
			}
		}
		bounds = uniq
		type pair struct{ lo, hi float64 }
		var pairs []pair
		for a := 0; a < len(bounds); a++ {
			for b := a + 1; b < len(bounds); b++ {
				pairs = append(pairs, pair{bounds[a], bounds[b]})
			}
		}
		stride := (len(pairs) + maxRangeQueries - 1) / maxRangeQueries
		for pi := j.step % stride; pi < len(pairs); pi += stride {
			lo, hi := pairs[pi].lo, pairs[pi].hi
			raw, h := numberRange(j.idx, real, lo, hi)
			if h != nil {
				j.hung(h, "FieldTermNumberRange", "range:deadlock-buffer-full")
				return
			}
			want := map[float64]uint64{}
			for _, x := range nums {
				if lo <= x && x < hi {
					want[x+0]++ // -0 + 0 = +0
				}
			}
			got := map[float64]uint64{}
			for _, c := range raw {
				got[c.Number+0] += c.Count
				if c.String != "" {
					j.add("FieldTermNumberRange", "range:string-term", "FieldTermNumberRange(%s, %v, %v) produced the string term %q", field, lo, hi, c.String)
				}
			}
			vals := map[float64]bool{}
			for v := range want {
				vals[v] = true
			}
			for v := range got {
				vals[v] = true
			}
			var order []float64
			for v := range vals {
				order = append(order, v)
			}
			sort.Float64s(order)
			for _, v := range order {
				g, w := got[v], want[v]
				if g == w || (v == 0 && hasNegZero) {
					continue
				}
				var sig string
				switch {
				case g == 0 && v == lo && lo < 0:
					sig = "range:negative-lo-excluded"
				case w == 0 && v == hi && hi < 0:
					sig = "range:negative-hi-included"
				case w == 0 && hi == 0 && lo < 0 && v >= 0:
					sig = "range:hi-zero-wraps-around"
				case g == 0:
					sig = fmt.Sprintf("range:missing:lo-%s,hi-%s,term-%s", sgn(lo), sgn(hi), sgn(v))
				case w == 0:
					sig = fmt.Sprintf("range:extra:lo-%s,hi-%s,term-%s", sgn(lo), sgn(hi), sgn(v))
				default:
					sig = fmt.Sprintf("range:count:lo-%s,hi-%s,term-%s", sgn(lo), sgn(hi), sgn(v))
				}
				j.add("FieldTermNumberRange", sig, "FieldTermNumberRange(%s, %v, %v) returned %v; the live documents hold %v, so [lo,hi) is %v (term %v: got count %d, want %d)", field, lo, hi, raw, nums, want, v, g, w)
			}
		}
	}
}

const maxRangeQueries = 10

func subset(a, b []int) bool {
	m := map[int]bool{}
	for _, x := range b {
		m[x] = true
	}
	for _, x := range a {
		if !m[x] {
			return false
		}
	}
	return true
}

// judge runs the case on one driver and returns every discrepancy found: wrong answers
// of the state-independent numeric queries do not end the case; the first wrong answer
// that shows the stored state itself is off does (everything after it would only repeat it).
func judge(c Case, driver string) ([]finding, caseInfo) {
	j := &judgeRun{c: c, driver: driver, sp: newSpec(), sims: map[uint]*sim{}, seen: map[string]bool{}}
	j.info.classes = map[string]bool{}
	kv, ns, err := caseStore(driver)
	j.ns = ns
	if err != nil {
		j.info.inconclusive = "cannot open store: " + err.Error()
		return nil, j.info
	}
	j.kv = kv
	j.idx = kvindex.NewIndex(kv)
	for _, set := range bugSubsets {
		j.sims[set] = newSim(set)
	}
	j.probes = probeTerms(c)
	for i, op := range c.Ops {
		j.step = i
		op = resolve(op, j.sp.docs)
		// classification (generator health)
		switch op.Op {
		case "removedoc", "removedoctx":
			if _, ok := j.sp.live[op.ID]; ok {
				j.info.classes[op.Op+"-present"] = true
				j.afterChange = true
			} else {
				j.info.classes[op.Op+"-absent"] = true
			}
		case "adddoc", "bulk", "update":
			for _, d := range op.Docs {
				if _, ok := j.sp.live[d.ID]; ok {
					j.info.classes["replacement:"+op.Op] = true
					j.afterChange = true
				}
			}
			j.info.classes["op:"+op.Op] = true
		case "removefield":
			if j.sp.fields[op.F] && len(j.sp.entries(op.F)) > 0 {
				j.info.classes["removefield-with-entries"] = true
			}
		case "addfield":
			if !j.sp.fields[op.F] && len(j.sp.live) > 0 {
				j.info.classes["addfield-after-docs"] = true
			}
			j.ever[op.F] = true
		}
		err := j.exec(op)
		j.sp.apply(op)
		simFailed := map[uint]bool{}
		simCounts := map[uint][]termCount{}
		for set, s := range j.sims {
			next, failed, counts := s.apply(op)
			j.sims[set] = next
			simFailed[set] = failed
			simCounts[set] = counts
		}
		// every call is expected to succeed on documents made of strings and numbers
		actualErr := "ok"
		if err != nil {
			actualErr = "error"
		}
		if actualErr != "ok" {
			j.statefulHit = true
			j.explain("error:"+op.Op, actualErr, "ok", func(s *sim) string {
				if simFailed[s.bugs] {
					return "error"
				}
				return "ok"
			}, fmt.Sprintf("%s [%v]", op, err))
			if len(j.fs) > 0 {
				last := &j.fs[len(j.fs)-1]
				last.Msg += fmt.Sprintf(" (error: %v)", err)
			}
		}
		if j.info.harness != "" || j.statefulHit {
			break
		}
		if op.Op == "counts" || op.Op == "scounts" {
			j.judgeCounts(op, simCounts)
			if j.info.harness != "" || j.statefulHit || j.info.inconclusive != "" {
				break
			}
		}
		if op.Op == "counts" || op.Op == "scounts" {
			j.observe(op.F)
		} else {
			j.observe(-1)
		}
		if j.info.harness != "" || j.statefulHit || j.info.inconclusive != "" {
			break
		}
		j.info.steps = i + 1
	}
	if j.statefulHit {
		j.info.classes["ended:state-defect"] = true
	} else {
		j.info.classes["ended:complete"] = true
	}
	return j.fs, j.info
}

// ---------------------------------------------------------------------------------
// reporting

var (
	surveyMu sync.Mutex
	surveyed = map[string]bool{}
)

// tierDrivers: quick = Badger; thorough = Badger, the reference ordered map, and the
// other three embedded drivers.
func tierDrivers() []string {
	if d := os.Getenv("C09_DRIVERS"); d != "" {
		return strings.Split(d, ",")
	}
	if pbt.Thorough() {
		return []string{"badger", "mem", "level", "bolt", "pebble"}
	}
	return []string{"badger"}
}

func caseKey(c Case) string {
	b, _ := json.Marshal(c.Ops)
	return string(b)
}

// runCase is the single entry point for random, enumerated, confirmation and replayed
// cases. Findings of a driver other than Badger / the reference map that do not occur
// on the reference map (same step, same query, same signature) are driver-specific and
// carry the driver's name in front of the signature.
func runCase(t pbt.TB, c Case) {
	if err := wellFormed(c); err != nil {
		t.Fatalf("INFRA: malformed case: %v", err)
	}
	pbt.Case(t)
	c.Text = opsText(c.Ops)
	pbt.Current(t, c)
	drivers := tierDrivers()
	if c.Driver != "" {
		drivers = []string{c.Driver}
	}
	var ref map[string]bool
	refSteps := 0
	for di, drv := range drivers {
		fs, info := judge(c, drv)
		if info.harness != "" {
			t.Fatalf("HARNESS: %s", info.harness)
		}
		if info.inconclusive != "" {
			pbt.Inconclusive(t, drv+": "+info.inconclusive)
		}
		if di == 0 {
			for cl := range info.classes {
				pbt.Class(t, cl)
			}
			if info.nontrivial {
				pbt.Nontrivial(t, caseKey(c))
			}
			bucket := "50+"
			for _, b := range [][2]int{{0, 4}, {5, 9}, {10, 19}, {20, 49}} {
				if info.steps >= b[0] && info.steps <= b[1] {
					bucket = fmt.Sprintf("%02d-%02d", b[0], b[1])
				}
			}
			pbt.Class(t, "steps-judged:"+bucket)
		}
		if len(fs) == 0 {
			continue
		}
		other := drv != "badger" && drv != "mem"
		if other && ref == nil {
			ref = map[string]bool{}
			rfs, rinfo := judge(c, "mem")
			for _, f := range rfs {
				ref[f.key()] = true
			}
			refSteps = rinfo.steps
		}
		cc := c
		cc.Driver = drv
		for _, f := range fs {
			sig := f.Sig
			// driver-specific: the reference map, judged up to this step, does not show it.
			// Where the reference run ended earlier (an index defect that this driver happens
			// to mask ended it), the finding keeps its plain signature only if it is one the
			// defect simulators explain or one already listed for the index itself.
			if other && !ref[f.key()] {
				comparable := refSteps > f.Step
				if comparable || !(explainedBySim[sig] || pbt.IsOpen(sig)) {
					sig = drv + ":" + sig
				}
			}
			pbt.Class(t, "finding:"+sig)
			if os.Getenv("C09_SURVEY") != "" && !pbt.IsOpen(sig) {
				// development aid: list every unlisted signature once instead of stopping at the first
				surveyMu.Lock()
				first := !surveyed[sig]
				surveyed[sig] = true
				surveyMu.Unlock()
				if first {
					fmt.Printf("SURVEY sig=%s [%s] %s\n  history: %s\n", sig, drv, f.Msg, c.Text)
				}
				continue
			}
			pbt.Discrepancy(t, cc, sig, "[%s] %s\n  history: %s", drv, f.Msg, c.Text)
		}
	}
}

var explainedBySim = func() map[string]bool {
	m := map[string]bool{}
	for _, s := range bugSig {
		m[s] = true
	}
	return m
}()
