package c02

// TestMarkReads: which properties of an earlier step a later step reads through a mark
// decides whether that earlier step's data is loaded. The random grammar reaches the
// combination (element-producing step, as(), nothing else that forces the load, a later
// reader of the mark in a particular reference form) only now and then, so it is
// enumerated: producer x move after the mark x reader x reference form, on generated
// graphs and both backends, planned vs literal.

import (
	"testing"

	"pgregory.net/rapid"
	"verif/internal/gen"
	"verif/internal/model"
	"verif/internal/pbt"
)

func markReadPrograms() [][]model.Step {
	S := model.S
	producers := [][]model.Step{
		{S("V")}, {S("E")}, {S("V"), S("out")}, {S("V"), S("outE")}, {S("V"), S("inE")}, {S("V"), S("hasLabel", "A")},
		{S("V", "v0", "v1", "v2")}, {S("E"), S("in")},
	}
	afters := [][]model.Step{{}, {S("out")}, {S("in")}, {S("both"), S("hasLabel", "A", "B")}}
	refs := []string{"$a._data", "$a.k", "$a._gid", "$a._label", "$a._data.k", "$a.a.k", "$a._from", "$a.n"}
	var out [][]model.Step
	for _, p := range producers {
		for _, a := range afters {
			edgeMarked := p[len(p)-1].Op == "E" || p[len(p)-1].Op == "outE" || p[len(p)-1].Op == "inE"
			if len(a) > 0 && a[0].Op == "both" && edgeMarked {
				// fine: both() from an edge gives its two endpoints
			}
			for _, r := range refs {
				readers := [][]model.Step{
					{{Op: "render", Template: r}},
					{{Op: "render", Template: map[string]interface{}{"d": r, "id": "$a._gid", "cur": "_gid"}}},
					{{Op: "has", Has: model.Leaf("eq", r, 1.0)}},
					{{Op: "has", Has: model.Not(model.Leaf("eq", r, "a"))}, S("count")},
					{S("hasKey", r)},
					{S("distinct", r), S("count")},
				}
				for _, rd := range readers {
					prog := append(append(append(append([]model.Step{}, p...), S("as", "a")), a...), rd...)
					out = append(out, prog)
				}
			}
		}
	}
	return out
}

func TestMarkReads(t *testing.T) {
	if _, ok := pbt.ReplayFile(); ok {
		t.Skip("replay mode")
	}
	progs := markReadPrograms()
	pbt.Check(t, 6, 60, func(rt *rapid.T) {
		g := gen.Graph(rt, 6, 10)
		for i, steps := range progs {
			if !pbt.ShardOwns(i) {
				continue
			}
			if model.TypeCheck(steps).Verdict != model.WellTyped {
				continue
			}
			for _, be := range []string{"mem", "badger"} {
				c := Case{Graph: g, Steps: steps, Backend: be, Kind: "diff"}
				pbt.Current(rt, c)
				if i%97 == 0 && pbt.WantSample(rt) {
					pbt.Sample(rt, map[string]interface{}{"backend": be, "traversal": model.TravString(steps), "graph": g})
				}
				runCase(rt, c)
			}
		}
	})
}
