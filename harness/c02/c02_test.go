// Package c02: query planning (index rewrite, load elision) never changes answers.
package c02

import (
	"encoding/json"
	"fmt"
	"os"
	"strings"
	"testing"

	"github.com/bmeg/grip/engine/core"
	"github.com/bmeg/grip/engine/pipeline"
	"github.com/bmeg/grip/gdbi"
	"github.com/bmeg/grip/gripql"
	"google.golang.org/protobuf/proto"
	"pgregory.net/rapid"
	"verif/internal/gen"
	"verif/internal/gripx"
	"verif/internal/memgraph"
	"verif/internal/model"
	"verif/internal/pbt"
)

func TestMain(m *testing.M) {
	code := pbt.Main(m, pbt.Meta{
		Property: "C02",
		Level:    "exploration",
		Rule: "random graphs x order-insensitive traversals from the typed grammar biased towards leading hasLabel/hasId/has(_gid|_label) chains and later steps that read properties of earlier steps or marks (with and without a terminal count()), plus an exhaustive pass over a filter-chain alphabet; each case is run on two backends (kvgraph/Badger, and an in-memory backend that honours load=false like psql/mongo) through the production compiler and through a literal pipeline (core.StatementProcessor on the unrewritten statements with every step forced to load); also count() vs row count and spelling equivalence of label/id filters. " +
			"Non-trivial: the optimizer rewrote the statement list or at least one driver call ran with load=false on the production side, and the literal result is non-empty; distinct = (backend, graph, traversal) text.",
		Assumptions: []string{
			"internal/memgraph implements the gdbi contract for load=false the way psql/graph.go does (id/label/endpoints only, Loaded=false)",
			"the literal pipeline (no optimizer, StepOutputs forced to '*') is the meaning of 'executed literally with every element fully loaded'; the C01 reference interpreter is used only to say which side is wrong",
		},
	})
	gripx.Cleanup()
	os.Exit(code)
}

type Case struct {
	Graph   *model.Graph `json:"graph"`
	Steps   []model.Step `json:"steps"`
	Backend string       `json:"backend"` // badger | mem
	Kind    string       `json:"kind"`    // diff | spelling
	Alt     []model.Step `json:"alt,omitempty"`
	// Arrival: how the graph got into the store (badger only; nil = every element written once)
	Arrival *gripx.Arrival `json:"arrival,omitempty"`
}

func opsSig(steps []model.Step) string {
	ops := make([]string, len(steps))
	for i, s := range steps {
		ops[i] = s.Op
		if s.Op == "has" && s.Has != nil {
			ops[i] = "has[" + hasShape(s.Has) + "]"
		}
	}
	return strings.Join(ops, ".")
}

func hasShape(e *model.Expr) string {
	if e.IsLeaf() {
		k := e.Key
		if !strings.HasPrefix(k, "_") && !strings.HasPrefix(k, "$") {
			k = "data"
		} else if strings.HasPrefix(k, "$") {
			k = "$mark"
		}
		return e.Op + ":" + k
	}
	parts := []string{}
	for _, k := range e.Kids {
		parts = append(parts, hasShape(k))
	}
	return e.Op + "(" + strings.Join(parts, ",") + ")"
}

// literal builds the pipeline "executed literally": no optimizer, every step loads.
func literal(gi gdbi.GraphInterface, stmts []*gripql.GraphStatement) (gdbi.Pipeline, error) {
	if err := core.Validate(stmts, nil); err != nil {
		return nil, err
	}
	ps := pipeline.NewPipelineState(stmts)
	for _, s := range ps.Steps {
		ps.StepOutputs[s] = []string{"*"}
	}
	procs := make([]gdbi.Processor, 0, len(stmts))
	for i, gs := range stmts {
		ps.SetCurStatment(i)
		p, err := core.StatementProcessor(gs, gi, ps)
		if err != nil {
			return nil, err
		}
		procs = append(procs, p)
	}
	return core.NewPipeline(gi, procs, ps), nil
}

func rewritten(stmts []*gripql.GraphStatement) bool {
	cp := make([]*gripql.GraphStatement, len(stmts))
	for i, s := range stmts {
		cp[i] = proto.Clone(s).(*gripql.GraphStatement)
	}
	opt := core.IndexStartOptimize(cp)
	if len(opt) != len(stmts) {
		return true
	}
	for i := range opt {
		if !proto.Equal(opt[i], stmts[i]) {
			return true
		}
	}
	return false
}

type backend struct {
	name string
	gi   gdbi.GraphInterface
	mem  *memgraph.Graph
}

func open(t pbt.TB, name string, g *model.Graph, a *gripx.Arrival) *backend {
	if name == "mem" {
		m := memgraph.New(g)
		return &backend{name: name, gi: m, mem: m}
	}
	if a != nil {
		pbt.Class(t, "graph-arrived-through-overwrites-and-deletes")
	}
	gi, err := gripx.LoadVia(gripx.DB("badger"), gripx.FreshName(), g, a)
	if err != nil {
		t.Fatalf("INFRA: load: %v", err)
	}
	return &backend{name: name, gi: gi}
}

func hasOrderSensitive(steps []model.Step) bool {
	for _, s := range steps {
		if model.OrderSensitive(s) {
			return true
		}
	}
	return false
}

// runDiff: production vs literal on one backend (+ count law).
func runDiff(t pbt.TB, b *backend, c Case) {
	pbt.Case(t)
	ty := model.TypeCheck(c.Steps)
	if ty.Verdict != model.WellTyped {
		pbt.Class(t, "skip:typing "+ty.Verdict.String())
		return
	}
	stmts := model.Protos(c.Steps)
	rw := rewritten(stmts)
	if b.mem != nil {
		b.mem.ResetCounters()
	}
	prod := gripx.Run(b.gi, model.Protos(c.Steps))
	noload := 0
	if b.mem != nil {
		noload = b.mem.NoLoadTotal()
	}
	lp, lerr := literal(b.gi, model.Protos(c.Steps))
	if (prod.CompileErr != nil) != (lerr != nil) {
		pbt.Discrepancy(t, c, "compile:"+b.name+":"+opsSig(c.Steps), "%s on %s: production compile error=%v, literal compile error=%v", model.TravString(c.Steps), b.name, prod.CompileErr, lerr)
		return
	}
	if lerr != nil {
		pbt.Class(t, "skip:rejected by both")
		return
	}
	lit := gripx.RunPipe(lp)
	if prod.Hang || lit.Hang {
		pbt.Inconclusive(t, "stream not closed within budget")
		return
	}
	if rw {
		pbt.Class(t, "optimizer-rewrote")
	}
	if noload > 0 {
		pbt.Class(t, "load-elided")
	}
	if (rw || noload > 0 || b.mem == nil) && len(lit.Rows) > 0 {
		// on Badger the elision is invisible to the harness; count those cases only
		// when the optimizer rewrote the statements
		if rw || noload > 0 {
			pbt.Nontrivial(t, b.name+"|"+gkey(c.Graph)+"|"+model.TravString(c.Steps))
		}
	}
	if hasOrderSensitive(c.Steps) {
		// Planning changes the row ORDER (an index lookup lists by label, a scan by key),
		// so a limit/skip/range/distinct may keep other rows. The row count is still
		// determined when every step after it maps one row to one row (or just counts);
		// a later filter or move sees different rows and nothing can be compared.
		j := 0
		for i, st := range c.Steps {
			if model.OrderSensitive(st) {
				j = i
				break
			}
		}
		for _, st := range c.Steps[j+1:] {
			switch st.Op {
			case "as", "fields", "render", "path", "count", "select":
			default:
				pbt.Class(t, "skip:order-sensitive step followed by a filter or move")
				return
			}
		}
		pbt.Class(t, "judged:row-count-only")
		if len(prod.Rows) != len(lit.Rows) {
			pbt.Discrepancy(t, c, "count:"+b.name+":"+opsSig(c.Steps), "%s on %s: planned pipeline returned %d rows, literal pipeline %d", model.TravString(c.Steps), b.name, len(prod.Rows), len(lit.Rows))
		}
		return
	}
	pbt.Class(t, "judged:equality")
	if d := gripx.DiffMultiset(prod.Rows, lit.Rows); d != "" {
		who := ""
		if travs, final, unspec := model.Eval(c.Graph, c.Steps); unspec == "" {
			want := gripx.ExpectedRows(travs, final)
			switch {
			case gripx.DiffMultiset(prod.Rows, want) == "":
				who = " (the planned result agrees with the reference model: the literal run is the odd one)"
			case gripx.DiffMultiset(lit.Rows, want) == "":
				who = " (the literal result agrees with the reference model: planning changed the answer)"
			}
		}
		pbt.Discrepancy(t, c, "rows:"+b.name+":"+opsSig(c.Steps), "%s on %s: planned vs literal: %s%s", model.TravString(c.Steps), b.name, d, who)
		return
	}
	// count law: count() equals the number of rows of the uncounted traversal
	if last := c.Steps[len(c.Steps)-1]; last.Op != "count" && ty.Final.IsElement() {
		cs := append(append([]model.Step{}, c.Steps...), model.S("count"))
		if b.mem != nil {
			b.mem.ResetCounters()
		}
		co := gripx.Run(b.gi, model.Protos(cs))
		if co.CompileErr != nil || co.Hang {
			return
		}
		got := -1
		if len(co.Raw) == 1 && co.Raw[0] != nil {
			got = int(co.Raw[0].GetCount())
		}
		pbt.Class(t, "judged:count-law")
		if got != len(prod.Rows) {
			pbt.Discrepancy(t, c, "countlaw:"+b.name+":"+opsSig(cs), "%s on %s: count()=%d but the uncounted traversal returns %d rows", model.TravString(cs), b.name, got, len(prod.Rows))
		}
	}
}

func gkey(g *model.Graph) string {
	b, _ := json.Marshal(g)
	return string(b)
}

// runSpelling: two spellings of the same label/id filter give identical rows.
func runSpelling(t pbt.TB, b *backend, c Case) {
	pbt.Case(t)
	for _, s := range [][]model.Step{c.Steps, c.Alt} {
		if ty := model.TypeCheck(s); ty.Verdict != model.WellTyped {
			pbt.Class(t, "skip:typing "+ty.Verdict.String())
			return
		}
	}
	a := gripx.Run(b.gi, model.Protos(c.Steps))
	z := gripx.Run(b.gi, model.Protos(c.Alt))
	if (a.CompileErr != nil) != (z.CompileErr != nil) {
		pbt.Discrepancy(t, c, "spelling-compile:"+b.name, "%s vs %s on %s: compile errors differ: %v / %v", model.TravString(c.Steps), model.TravString(c.Alt), b.name, a.CompileErr, z.CompileErr)
		return
	}
	if a.CompileErr != nil || a.Hang || z.Hang {
		return
	}
	if len(a.Rows) > 0 {
		pbt.Nontrivial(t, "spelling|"+b.name+"|"+gkey(c.Graph)+"|"+model.TravString(c.Steps)+"|"+model.TravString(c.Alt))
	}
	if d := gripx.DiffMultiset(a.Rows, z.Rows); d != "" {
		pbt.Discrepancy(t, c, "spelling:"+b.name+":"+opsSig(c.Steps[:2])+"~"+opsSig(c.Alt[:2]), "equivalent spellings differ on %s: %s vs %s: %s", b.name, model.TravString(c.Steps), model.TravString(c.Alt), d)
	}
}

func runCase(t pbt.TB, c Case) {
	b := open(t, c.Backend, c.Graph, c.Arrival)
	if c.Kind == "spelling" {
		runSpelling(t, b, c)
	} else {
		runDiff(t, b, c)
	}
}

func TestReplay(t *testing.T) {
	cf, ok := pbt.ReplayFile()
	if !ok {
		t.Skip("no replay file")
	}
	var c Case
	if err := json.Unmarshal(cf.Case, &c); err != nil {
		t.Fatal(err)
	}
	runCase(t, c)
}

func TestPlannedVsLiteral(t *testing.T) {
	pbt.Check(t, 4000, 60000, func(rt *rapid.T) {
		g := gen.Graph(rt, 6, 10)
		steps := gen.Traversal(rt, gen.TravOpts{MaxLen: 8, FilterBias: true, NoOrder: rapid.IntRange(0, 9).Draw(rt, "noOrder") < 8})
		arr := gen.Arrival(rt, g)
		for _, be := range []string{"mem", "badger"} {
			c := Case{Graph: g, Steps: steps, Backend: be, Kind: "diff"}
			if be == "badger" {
				c.Arrival = arr
			}
			pbt.Current(rt, c)
			if pbt.WantSample(rt) {
				pbt.Sample(rt, map[string]interface{}{"backend": be, "traversal": model.TravString(steps), "graph": g})
			}
			runCase(rt, c)
		}
	})
}

// spellings of "label is x" / "id is x"
func labelSpellings(x string) []model.Step {
	tr := model.Leaf("neq", "_gid", "no-such-id")
	return []model.Step{
		model.S("hasLabel", x),
		{Op: "has", Has: model.Leaf("eq", "_label", x)},
		{Op: "has", Has: model.Leaf("within", "_label", []interface{}{x})},
		{Op: "has", Has: model.And(model.Leaf("eq", "_label", x))},
		{Op: "has", Has: model.And(model.Leaf("eq", "_label", x), tr)},
		{Op: "has", Has: model.And(tr, model.Leaf("eq", "_label", x))},
		{Op: "has", Has: model.Or(model.Leaf("eq", "_label", x))},
		{Op: "has", Has: model.Not(model.Leaf("neq", "_label", x))},
		{Op: "has", Has: model.Leaf("within", "_label", []interface{}{x, x})},
	}
}

func idSpellings(x string) []model.Step {
	tr := model.Leaf("neq", "_label", "no-such-label")
	return []model.Step{
		model.S("hasId", x),
		{Op: "has", Has: model.Leaf("eq", "_gid", x)},
		{Op: "has", Has: model.Leaf("within", "_gid", []interface{}{x})},
		{Op: "has", Has: model.And(model.Leaf("eq", "_gid", x))},
		{Op: "has", Has: model.And(model.Leaf("eq", "_gid", x), tr)},
		{Op: "has", Has: model.And(tr, model.Leaf("eq", "_gid", x))},
		{Op: "has", Has: model.Not(model.Leaf("neq", "_gid", x))},
	}
}

func TestSpellings(t *testing.T) {
	pbt.Check(t, 1500, 40000, func(rt *rapid.T) {
		g := gen.Graph(rt, 6, 10)
		start := rapid.SampledFrom([]string{"V", "V", "E"}).Draw(rt, "start")
		var sp []model.Step
		if rapid.Bool().Draw(rt, "byLabel") {
			pool := gen.VertexLabels
			if start == "E" {
				pool = gen.EdgeLabels
			}
			sp = labelSpellings(rapid.SampledFrom(pool).Draw(rt, "label"))
		} else {
			pool := gen.VertexIDs
			if start == "E" {
				pool = gen.EdgeIDs[:6]
			}
			sp = idSpellings(rapid.SampledFrom(pool).Draw(rt, "id"))
		}
		i := rapid.IntRange(0, len(sp)-1).Draw(rt, "spellingA")
		j := rapid.IntRange(0, len(sp)-1).Draw(rt, "spellingB")
		// optional second leading filter and a tail
		var mid []model.Step
		if rapid.Bool().Draw(rt, "secondFilter") {
			mid = append(mid, rapid.SampledFrom([]model.Step{model.S("hasLabel", "A", "x"), model.S("hasId", "v0", "v1", "e0", "e1"), {Op: "has", Has: model.Leaf("eq", "k", 1.0)}, model.S("hasLabel", "B")}).Draw(rt, "mid"))
		}
		tailFull := gen.Traversal(rt, gen.TravOpts{MaxLen: 4, NoOrder: true})
		tail := tailFull[1:]
		if tailFull[0].Op != start || len(tailFull[0].Args) > 0 {
			tail = nil
		}
		mk := func(s model.Step) []model.Step {
			out := []model.Step{model.S(start), s}
			if rapid.Bool().Draw(rt, "midFirst") && len(mid) > 0 {
				out = []model.Step{model.S(start), mid[0], s}
			} else {
				out = append(out, mid...)
			}
			return append(out, tail...)
		}
		a := mk(sp[i])
		// same layout for the alternative
		z := append([]model.Step{}, a...)
		for k := range z {
			if z[k].String() == sp[i].String() {
				z[k] = sp[j]
				break
			}
		}
		arr := gen.Arrival(rt, g)
		for _, be := range []string{"mem", "badger"} {
			c := Case{Graph: g, Steps: a, Alt: z, Backend: be, Kind: "spelling"}
			if be == "badger" {
				c.Arrival = arr
			}
			pbt.Current(rt, c)
			if pbt.WantSample(rt) {
				pbt.Sample(rt, fmt.Sprintf("%s: %s ~ %s", be, model.TravString(a), model.TravString(z)))
			}
			runCase(rt, c)
		}
	})
}
