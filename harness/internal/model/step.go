package model

import (
	"fmt"
	"strings"

	"github.com/bmeg/grip/gripql"
	"google.golang.org/protobuf/types/known/structpb"
)

// Step is a serialisable traversal statement.
//
//	V E                         Args = ids
//	out in both outE inE bothE  Args = edge labels
//	outNull inNull outENull inENull
//	has                         Has
//	hasLabel hasId hasKey       Args
//	as                          Args[0] = name
//	select                      Args = mark names
//	fields distinct             Args = fields
//	render                      Template
//	path count
//	unwind                      Args[0] = field
//	limit skip                  N
//	range                       N = start, M = stop
//	aggregate                   Aggs
//	mark                        Args[0]; jump: Args[0] = mark, Has = condition (nil = always), Emit
//	set                         Args[0] = key, Template = value; increment: Args[0] = key, N = delta
type Step struct {
	Op       string      `json:"op"`
	Args     []string    `json:"args,omitempty"`
	Has      *Expr       `json:"has,omitempty"`
	N        int64       `json:"n,omitempty"`
	M        int64       `json:"m,omitempty"`
	Template interface{} `json:"template,omitempty"`
	Aggs     []Agg       `json:"aggs,omitempty"`
	Emit     bool        `json:"emit,omitempty"`
}

// Agg is one aggregation of an aggregate step.
type Agg struct {
	Name     string    `json:"name"`
	Kind     string    `json:"kind"` // term histogram percentile field type count
	Field    string    `json:"field,omitempty"`
	Size     uint32    `json:"size,omitempty"`
	Interval uint32    `json:"interval,omitempty"`
	Percents []float64 `json:"percents,omitempty"`
}

func S(op string, args ...string) Step { return Step{Op: op, Args: args} }

func strList(a []string) *structpb.ListValue {
	if a == nil {
		return &structpb.ListValue{}
	}
	vals := make([]*structpb.Value, len(a))
	for i, s := range a {
		vals[i] = structpb.NewStringValue(s)
	}
	return &structpb.ListValue{Values: vals}
}

func (a Agg) Proto() *gripql.Aggregate {
	o := &gripql.Aggregate{Name: a.Name}
	switch a.Kind {
	case "term":
		o.Aggregation = &gripql.Aggregate_Term{Term: &gripql.TermAggregation{Field: a.Field, Size: a.Size}}
	case "histogram":
		o.Aggregation = &gripql.Aggregate_Histogram{Histogram: &gripql.HistogramAggregation{Field: a.Field, Interval: a.Interval}}
	case "percentile":
		o.Aggregation = &gripql.Aggregate_Percentile{Percentile: &gripql.PercentileAggregation{Field: a.Field, Percents: a.Percents}}
	case "field":
		o.Aggregation = &gripql.Aggregate_Field{Field: &gripql.FieldAggregation{Field: a.Field}}
	case "type":
		o.Aggregation = &gripql.Aggregate_Type{Type: &gripql.TypeAggregation{Field: a.Field}}
	case "count":
		o.Aggregation = &gripql.Aggregate_Count{Count: &gripql.CountAggregation{}}
	case "none":
		// no aggregation set (structurally valid, semantically empty)
	default:
		panic("model: unknown aggregation kind " + a.Kind)
	}
	return o
}

// Proto converts one step to the wire statement.
func (s Step) Proto() *gripql.GraphStatement {
	gs := &gripql.GraphStatement{}
	arg0 := ""
	if len(s.Args) > 0 {
		arg0 = s.Args[0]
	}
	switch s.Op {
	case "V":
		gs.Statement = &gripql.GraphStatement_V{V: strList(s.Args)}
	case "E":
		gs.Statement = &gripql.GraphStatement_E{E: strList(s.Args)}
	case "out":
		gs.Statement = &gripql.GraphStatement_Out{Out: strList(s.Args)}
	case "in":
		gs.Statement = &gripql.GraphStatement_In{In: strList(s.Args)}
	case "both":
		gs.Statement = &gripql.GraphStatement_Both{Both: strList(s.Args)}
	case "outE":
		gs.Statement = &gripql.GraphStatement_OutE{OutE: strList(s.Args)}
	case "inE":
		gs.Statement = &gripql.GraphStatement_InE{InE: strList(s.Args)}
	case "bothE":
		gs.Statement = &gripql.GraphStatement_BothE{BothE: strList(s.Args)}
	case "outNull":
		gs.Statement = &gripql.GraphStatement_OutNull{OutNull: strList(s.Args)}
	case "inNull":
		gs.Statement = &gripql.GraphStatement_InNull{InNull: strList(s.Args)}
	case "outENull":
		gs.Statement = &gripql.GraphStatement_OutENull{OutENull: strList(s.Args)}
	case "inENull":
		gs.Statement = &gripql.GraphStatement_InENull{InENull: strList(s.Args)}
	case "has":
		var h *gripql.HasExpression
		if s.Has != nil {
			h = s.Has.Proto()
		}
		gs.Statement = &gripql.GraphStatement_Has{Has: h}
	case "hasLabel":
		gs.Statement = &gripql.GraphStatement_HasLabel{HasLabel: strList(s.Args)}
	case "hasId":
		gs.Statement = &gripql.GraphStatement_HasId{HasId: strList(s.Args)}
	case "hasKey":
		gs.Statement = &gripql.GraphStatement_HasKey{HasKey: strList(s.Args)}
	case "as":
		gs.Statement = &gripql.GraphStatement_As{As: arg0}
	case "select":
		gs.Statement = &gripql.GraphStatement_Select{Select: &gripql.SelectStatement{Marks: s.Args}}
	case "fields":
		gs.Statement = &gripql.GraphStatement_Fields{Fields: strList(s.Args)}
	case "distinct":
		gs.Statement = &gripql.GraphStatement_Distinct{Distinct: strList(s.Args)}
	case "render":
		v, err := structpb.NewValue(s.Template)
		if err != nil {
			panic(err)
		}
		gs.Statement = &gripql.GraphStatement_Render{Render: v}
	case "path":
		gs.Statement = &gripql.GraphStatement_Path{Path: &structpb.ListValue{}}
	case "count":
		gs.Statement = &gripql.GraphStatement_Count{}
	case "unwind":
		gs.Statement = &gripql.GraphStatement_Unwind{Unwind: arg0}
	case "limit":
		gs.Statement = &gripql.GraphStatement_Limit{Limit: uint32(s.N)}
	case "skip":
		gs.Statement = &gripql.GraphStatement_Skip{Skip: uint32(s.N)}
	case "range":
		gs.Statement = &gripql.GraphStatement_Range{Range: &gripql.Range{Start: int32(s.N), Stop: int32(s.M)}}
	case "aggregate":
		ag := &gripql.Aggregations{}
		for _, a := range s.Aggs {
			ag.Aggregations = append(ag.Aggregations, a.Proto())
		}
		gs.Statement = &gripql.GraphStatement_Aggregate{Aggregate: ag}
	case "mark":
		gs.Statement = &gripql.GraphStatement_Mark{Mark: arg0}
	case "jump":
		j := &gripql.Jump{Mark: arg0, Emit: s.Emit}
		if s.Has != nil {
			j.Expression = s.Has.Proto()
		}
		gs.Statement = &gripql.GraphStatement_Jump{Jump: j}
	case "set":
		v, err := structpb.NewValue(s.Template)
		if err != nil {
			panic(err)
		}
		gs.Statement = &gripql.GraphStatement_Set{Set: &gripql.Set{Key: arg0, Value: v}}
	case "increment":
		gs.Statement = &gripql.GraphStatement_Increment{Increment: &gripql.Increment{Key: arg0, Value: int32(s.N)}}
	case "nil":
		// a statement with no oneof set
	default:
		panic("model: unknown step op " + s.Op)
	}
	return gs
}

// Protos converts a traversal.
func Protos(steps []Step) []*gripql.GraphStatement {
	out := make([]*gripql.GraphStatement, len(steps))
	for i, s := range steps {
		out[i] = s.Proto()
	}
	return out
}

func (s Step) String() string {
	switch s.Op {
	case "has":
		if s.Has == nil {
			return "has(<nil>)"
		}
		return "has(" + s.Has.String() + ")"
	case "limit", "skip":
		return fmt.Sprintf("%s(%d)", s.Op, s.N)
	case "range":
		return fmt.Sprintf("range(%d,%d)", s.N, s.M)
	case "render":
		return "render(" + Canon(s.Template) + ")"
	case "aggregate":
		parts := []string{}
		for _, a := range s.Aggs {
			parts = append(parts, fmt.Sprintf("%s:%s(%s,%d,%d,%v)", a.Name, a.Kind, a.Field, a.Size, a.Interval, a.Percents))
		}
		return "aggregate(" + strings.Join(parts, ";") + ")"
	case "jump":
		c := "always"
		if s.Has != nil {
			c = s.Has.String()
		}
		return fmt.Sprintf("jump(%s,%s,emit=%v)", strings.Join(s.Args, ","), c, s.Emit)
	case "set":
		return fmt.Sprintf("set(%s,%s)", strings.Join(s.Args, ","), Canon(s.Template))
	case "increment":
		return fmt.Sprintf("increment(%s,%d)", strings.Join(s.Args, ","), s.N)
	}
	return s.Op + "(" + strings.Join(s.Args, ",") + ")"
}

// TravString renders a traversal.
func TravString(steps []Step) string {
	parts := make([]string, len(steps))
	for i, s := range steps {
		parts[i] = s.String()
	}
	return strings.Join(parts, ".")
}
