package model

import (
	"sort"
	"strings"
)

// Element is a vertex or an edge of the abstract graph.
type Element struct {
	ID    string                 `json:"id"`
	Label string                 `json:"label"`
	From  string                 `json:"from,omitempty"`
	To    string                 `json:"to,omitempty"`
	Data  map[string]interface{} `json:"data,omitempty"`
	Edge  bool                   `json:"edge,omitempty"`
	// Tainted names top-level properties whose value the documentation leaves open
	// (reference interpreter only, see EvalX); reading one makes a case unspecified
	Tainted map[string]bool `json:"-"`
}

// Graph is the abstract graph: ids unique per kind. Endpoints of an edge need not exist.
type Graph struct {
	V []*Element `json:"v"`
	E []*Element `json:"e"`
}

func (g *Graph) Vertex(id string) *Element {
	for _, v := range g.V {
		if v.ID == id {
			return v
		}
	}
	return nil
}

func (g *Graph) EdgeByID(id string) *Element {
	for _, e := range g.E {
		if e.ID == id {
			return e
		}
	}
	return nil
}

func (g *Graph) Clone() *Graph {
	o := &Graph{}
	for _, v := range g.V {
		c := *v
		c.Data = CopyMap(v.Data)
		o.V = append(o.V, &c)
	}
	for _, e := range g.E {
		c := *e
		c.Data = CopyMap(e.Data)
		o.E = append(o.E, &c)
	}
	return o
}

// Shape summarises structural features (for generator-health classification).
type Shape struct {
	SelfLoop, Parallel, Dangling, Isolated, Empty, Nested bool
}

func (g *Graph) Shape() Shape {
	var s Shape
	s.Empty = len(g.V) == 0 && len(g.E) == 0
	pairs := map[string]int{}
	touched := map[string]bool{}
	for _, e := range g.E {
		if e.From == e.To {
			s.SelfLoop = true
		}
		pairs[e.From+"\x00"+e.To]++
		if g.Vertex(e.From) == nil || g.Vertex(e.To) == nil {
			s.Dangling = true
		}
		touched[e.From], touched[e.To] = true, true
	}
	for _, n := range pairs {
		if n > 1 {
			s.Parallel = true
		}
	}
	for _, v := range g.V {
		if !touched[v.ID] {
			s.Isolated = true
		}
		for _, d := range v.Data {
			switch d.(type) {
			case map[string]interface{}, []interface{}:
				s.Nested = true
			}
		}
	}
	return s
}

// Field resolves a field path against one element, as documented in jsonpath.md:
// _gid/_label/_from/_to name the element's own attributes, _data its property map,
// anything else is a (dotted) path into the properties. Only paths through maps are
// resolved here (array subscripts / projection through lists are not generated).
func (el *Element) Field(path string) (interface{}, bool) {
	if el == nil {
		return nil, false
	}
	parts := strings.Split(path, ".")
	var cur interface{}
	switch parts[0] {
	case "_gid":
		cur = el.ID
	case "_label":
		cur = el.Label
	case "_from":
		cur = el.From
	case "_to":
		cur = el.To
	case "_data":
		cur = dataOrEmpty(el.Data)
	default:
		cur = dataOrEmpty(el.Data)
		parts = append([]string{"_data"}, parts...)
	}
	for _, p := range parts[1:] {
		m, ok := cur.(map[string]interface{})
		if !ok {
			return nil, false
		}
		cur, ok = m[p]
		if !ok {
			return nil, false
		}
	}
	return cur, true
}

func dataOrEmpty(m map[string]interface{}) interface{} {
	if m == nil {
		return map[string]interface{}{}
	}
	return m
}

// SplitRef splits "$mark.path" into (mark, path); for a plain path mark is "".
func SplitRef(key string) (mark, path string) {
	if strings.HasPrefix(key, "$") {
		i := strings.Index(key, ".")
		if i < 0 {
			return key[1:], ""
		}
		return key[1:i], key[i+1:]
	}
	return "", key
}

// SortedKeys returns the sorted keys of a map.
func SortedKeys[V any](m map[string]V) []string {
	out := make([]string, 0, len(m))
	for k := range m {
		out = append(out, k)
	}
	sort.Strings(out)
	return out
}
