// Package model holds the abstract graph, the serialisable traversal/has-expression
// forms used in case files, and the reference semantics written from the user
// documentation (website/content/docs/queries/*.md), independent of engine code.
package model

import (
	"encoding/json"
	"fmt"
	"math"
	"sort"
	"strconv"
	"strings"
)

// Kind names the JSON kind of a value (after structpb round trip: numbers are float64).
func Kind(v interface{}) string {
	switch v.(type) {
	case nil:
		return "null"
	case bool:
		return "bool"
	case float64:
		return "number"
	case string:
		return "string"
	case []interface{}:
		return "list"
	case map[string]interface{}:
		return "map"
	}
	return fmt.Sprintf("other(%T)", v)
}

// Equal is deep JSON equality (numbers by ==, so 0 equals -0; no NaN is generated).
func Equal(a, b interface{}) bool {
	switch x := a.(type) {
	case nil:
		return b == nil
	case bool:
		y, ok := b.(bool)
		return ok && x == y
	case float64:
		y, ok := b.(float64)
		return ok && x == y
	case string:
		y, ok := b.(string)
		return ok && x == y
	case []interface{}:
		y, ok := b.([]interface{})
		if !ok || len(x) != len(y) {
			return false
		}
		for i := range x {
			if !Equal(x[i], y[i]) {
				return false
			}
		}
		return true
	case map[string]interface{}:
		y, ok := b.(map[string]interface{})
		if !ok || len(x) != len(y) {
			return false
		}
		for k, v := range x {
			w, ok := y[k]
			if !ok || !Equal(v, w) {
				return false
			}
		}
		return true
	}
	return false
}

// PlainDecimal reports whether s is a numeral in decimal notation: an optional sign, digits
// with an optional decimal point (at least one digit: "5", "5.", ".5", "0.5"), an optional
// exponent ("1e3", "2.5E-1"). This is the text the reference treats as a number: every
// common reading of "numeric text" (JSON, Go, C, Python, JavaScript number syntax) accepts
// these or a subset of them, and the engine reads text with strconv.ParseFloat, which
// accepts them all. Hex floats, digit separators, "inf"/"nan" and padded text stay open.
func PlainDecimal(s string) bool {
	i := 0
	if i < len(s) && (s[i] == '-' || s[i] == '+') {
		i++
	}
	digits := 0
	for i < len(s) && s[i] >= '0' && s[i] <= '9' {
		i++
		digits++
	}
	if i < len(s) && s[i] == '.' {
		i++
		for i < len(s) && s[i] >= '0' && s[i] <= '9' {
			i++
			digits++
		}
	}
	if digits == 0 {
		return false
	}
	if i < len(s) && (s[i] == 'e' || s[i] == 'E') {
		i++
		if i < len(s) && (s[i] == '-' || s[i] == '+') {
			i++
		}
		exp := 0
		for i < len(s) && s[i] >= '0' && s[i] <= '9' {
			i++
			exp++
		}
		if exp == 0 {
			return false
		}
	}
	return i == len(s)
}

// ExoticNumeric reports text that strconv.ParseFloat accepts but that is not a decimal
// numeral ("inf", "nan", "0x1p3", "0x_1p0"), or a decimal numeral too large for a float64:
// whether it is "numeric text" is not documented, so ordering cells involving it are not judged.
func ExoticNumeric(s string) bool {
	f, err := strconv.ParseFloat(s, 64)
	if PlainDecimal(s) {
		return err != nil || math.IsInf(f, 0) // "1e999": out of range
	}
	return err == nil
}

// Number returns the numeric reading of a value: JSON numbers and plain decimal text.
func Number(v interface{}) (float64, bool) {
	switch x := v.(type) {
	case float64:
		return x, true
	case string:
		if PlainDecimal(x) {
			f, err := strconv.ParseFloat(x, 64)
			if err == nil && !math.IsInf(f, 0) {
				return f, true
			}
		}
	}
	return 0, false
}

// Canon renders a JSON value with sorted keys (for multiset comparison and samples).
func Canon(v interface{}) string {
	var sb strings.Builder
	canon(&sb, v)
	return sb.String()
}

func canon(sb *strings.Builder, v interface{}) {
	switch x := v.(type) {
	case map[string]interface{}:
		keys := make([]string, 0, len(x))
		for k := range x {
			keys = append(keys, k)
		}
		sort.Strings(keys)
		sb.WriteByte('{')
		for i, k := range keys {
			if i > 0 {
				sb.WriteByte(',')
			}
			b, _ := json.Marshal(k)
			sb.Write(b)
			sb.WriteByte(':')
			canon(sb, x[k])
		}
		sb.WriteByte('}')
	case []interface{}:
		sb.WriteByte('[')
		for i, e := range x {
			if i > 0 {
				sb.WriteByte(',')
			}
			canon(sb, e)
		}
		sb.WriteByte(']')
	case float64:
		if x == 0 {
			sb.WriteString("0") // -0 and 0 are the same JSON number for our purposes
		} else {
			sb.WriteString(strconv.FormatFloat(x, 'g', -1, 64))
		}
	default:
		b, err := json.Marshal(x)
		if err != nil {
			fmt.Fprintf(sb, "%#v", x)
		} else {
			sb.Write(b)
		}
	}
}

// DeepCopy copies a JSON value.
func DeepCopy(v interface{}) interface{} {
	switch x := v.(type) {
	case map[string]interface{}:
		o := make(map[string]interface{}, len(x))
		for k, e := range x {
			o[k] = DeepCopy(e)
		}
		return o
	case []interface{}:
		o := make([]interface{}, len(x))
		for i, e := range x {
			o[i] = DeepCopy(e)
		}
		return o
	}
	return v
}

// CopyMap copies a property map (nil stays an empty map).
func CopyMap(m map[string]interface{}) map[string]interface{} {
	if m == nil {
		return map[string]interface{}{}
	}
	return DeepCopy(m).(map[string]interface{})
}
