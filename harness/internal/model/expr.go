package model

import (
	"fmt"
	"strings"

	"github.com/bmeg/grip/gripql"
	"google.golang.org/protobuf/types/known/structpb"
)

// Expr is a serialisable has-expression. Op is one of the twelve condition names
// (eq neq gt gte lt lte inside outside between within without contains) or and/or/not.
type Expr struct {
	Op   string      `json:"op"`
	Key  string      `json:"key,omitempty"`
	Arg  interface{} `json:"arg,omitempty"`
	Kids []*Expr     `json:"kids,omitempty"`
}

var CondOps = []string{"eq", "neq", "gt", "gte", "lt", "lte", "inside", "outside", "between", "within", "without", "contains"}

var condMap = map[string]gripql.Condition{
	"eq": gripql.Condition_EQ, "neq": gripql.Condition_NEQ, "gt": gripql.Condition_GT, "gte": gripql.Condition_GTE,
	"lt": gripql.Condition_LT, "lte": gripql.Condition_LTE, "inside": gripql.Condition_INSIDE,
	"outside": gripql.Condition_OUTSIDE, "between": gripql.Condition_BETWEEN, "within": gripql.Condition_WITHIN,
	"without": gripql.Condition_WITHOUT, "contains": gripql.Condition_CONTAINS,
}

func Leaf(op, key string, arg interface{}) *Expr { return &Expr{Op: op, Key: key, Arg: arg} }
func And(k ...*Expr) *Expr                       { return &Expr{Op: "and", Kids: k} }
func Or(k ...*Expr) *Expr                        { return &Expr{Op: "or", Kids: k} }
func Not(k *Expr) *Expr                          { return &Expr{Op: "not", Kids: []*Expr{k}} }

func (e *Expr) IsLeaf() bool { _, ok := condMap[e.Op]; return ok }

// Proto converts to the wire form.
func (e *Expr) Proto() *gripql.HasExpression {
	switch e.Op {
	case "and":
		l := &gripql.HasExpressionList{}
		for _, k := range e.Kids {
			l.Expressions = append(l.Expressions, k.Proto())
		}
		return &gripql.HasExpression{Expression: &gripql.HasExpression_And{And: l}}
	case "or":
		l := &gripql.HasExpressionList{}
		for _, k := range e.Kids {
			l.Expressions = append(l.Expressions, k.Proto())
		}
		return &gripql.HasExpression{Expression: &gripql.HasExpression_Or{Or: l}}
	case "not":
		return &gripql.HasExpression{Expression: &gripql.HasExpression_Not{Not: e.Kids[0].Proto()}}
	}
	c, ok := condMap[e.Op]
	if !ok {
		panic("model: unknown op " + e.Op)
	}
	v, err := structpb.NewValue(e.Arg)
	if err != nil {
		panic(fmt.Sprintf("model: bad arg %#v: %v", e.Arg, err))
	}
	return &gripql.HasExpression{Expression: &gripql.HasExpression_Condition{
		Condition: &gripql.HasCondition{Key: e.Key, Value: v, Condition: c}}}
}

func (e *Expr) String() string {
	if e.IsLeaf() {
		return fmt.Sprintf("%s(%s,%s)", e.Op, e.Key, Canon(e.Arg))
	}
	parts := make([]string, len(e.Kids))
	for i, k := range e.Kids {
		parts[i] = k.String()
	}
	return e.Op + "(" + strings.Join(parts, ",") + ")"
}

// Leaves lists the condition leaves.
func (e *Expr) Leaves() []*Expr {
	if e.IsLeaf() {
		return []*Expr{e}
	}
	var out []*Expr
	for _, k := range e.Kids {
		out = append(out, k.Leaves()...)
	}
	return out
}

// Tri is the reference verdict: the documentation defines true/false for most cells
// and leaves some unspecified.
type Tri int

const (
	False Tri = iota
	True
	Undefined
)

func (t Tri) String() string { return [...]string{"false", "true", "undefined"}[t] }

func tri(b bool) Tri {
	if b {
		return True
	}
	return False
}

// Lookup resolves a field reference: value and whether the field is present.
type Lookup func(key string) (interface{}, bool)

// RefCond is the documented meaning of one condition (operations.md "Conditions").
func RefCond(op string, val interface{}, present bool, arg interface{}) Tri {
	if !present {
		val = nil
	}
	exotic := func(v interface{}) bool {
		s, ok := v.(string)
		return ok && ExoticNumeric(s)
	}
	switch op {
	case "eq", "neq":
		var r Tri
		if !present && arg == nil {
			r = Undefined // is a missing field equal to null? not documented
		} else {
			r = tri(Equal(val, arg))
		}
		if op == "neq" && r != Undefined {
			r = tri(r == False)
		}
		return r
	case "gt", "gte", "lt", "lte":
		if exotic(val) || exotic(arg) {
			return Undefined
		}
		a, ok1 := Number(val)
		b, ok2 := Number(arg)
		if !ok1 || !ok2 {
			return False
		}
		switch op {
		case "gt":
			return tri(a > b)
		case "gte":
			return tri(a >= b)
		case "lt":
			return tri(a < b)
		default:
			return tri(a <= b)
		}
	case "inside", "outside", "between":
		if exotic(val) {
			return Undefined
		}
		l, ok := arg.([]interface{})
		if !ok || len(l) != 2 {
			return False // not a pair of numbers: an ordering test that cannot match
		}
		if exotic(l[0]) || exotic(l[1]) {
			return Undefined
		}
		lo, ok1 := Number(l[0])
		hi, ok2 := Number(l[1])
		v, ok3 := Number(val)
		if !ok1 || !ok2 || !ok3 {
			return False
		}
		switch op {
		case "inside":
			return tri(v > lo && v < hi)
		case "outside":
			return tri(v < lo || v > hi)
		default:
			return tri(v >= lo && v < hi)
		}
	case "within", "without":
		l, ok := arg.([]interface{})
		if !ok {
			return Undefined // "provided values" must be a list
		}
		found := false
		for _, m := range l {
			if !present && m == nil {
				return Undefined
			}
			if Equal(val, m) {
				found = true
			}
		}
		if op == "without" {
			return tri(!found)
		}
		return tri(found)
	case "contains":
		switch x := val.(type) {
		case []interface{}:
			for _, m := range x {
				if Equal(m, arg) {
					return True
				}
			}
			return False
		case string, map[string]interface{}:
			return Undefined // substring / key containment is not documented
		}
		return False
	}
	panic("model: unknown condition " + op)
}

// RefExpr evaluates an expression by ordinary Boolean algebra over RefCond.
// Any undefined leaf makes the result undefined (only algebraic laws are judged then).
func RefExpr(e *Expr, look Lookup) Tri {
	switch e.Op {
	case "and":
		r := True
		for _, k := range e.Kids {
			switch RefExpr(k, look) {
			case Undefined:
				return Undefined
			case False:
				r = False
			}
		}
		return r
	case "or":
		r := False
		for _, k := range e.Kids {
			switch RefExpr(k, look) {
			case Undefined:
				return Undefined
			case True:
				r = True
			}
		}
		return r
	case "not":
		switch RefExpr(e.Kids[0], look) {
		case Undefined:
			return Undefined
		case True:
			return False
		}
		return True
	}
	v, present := look(e.Key)
	return RefCond(e.Op, v, present, e.Arg)
}
