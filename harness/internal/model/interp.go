package model

import (
	"fmt"
	"strings"
)

// Type is the element type flowing out of a step.
type Type int

const (
	TNone Type = iota
	TVertex
	TEdge
	TCount
	TSelection
	TRender
	TPath
	TAgg
)

func (t Type) String() string {
	return [...]string{"none", "vertex", "edge", "count", "selection", "render", "path", "aggregation"}[t]
}

func (t Type) IsElement() bool { return t == TVertex || t == TEdge }

// PathEntry is one hop recorded by path().
type PathEntry struct {
	Vertex string `json:"vertex,omitempty"`
	Edge   string `json:"edge,omitempty"`
}

// Trav is one traveler of the reference semantics.
type Trav struct {
	Cur   *Element
	Marks map[string]*Element
	Path  []PathEntry
	// terminal payloads
	Count  int
	Render interface{}
	Sel    map[string]*Element
}

func (t *Trav) with(cur *Element, appendPath bool) *Trav {
	o := &Trav{Cur: cur, Marks: t.Marks}
	if appendPath {
		o.Path = append(append([]PathEntry{}, t.Path...), entryOf(cur))
	} else {
		o.Path = t.Path
	}
	return o
}

func entryOf(el *Element) PathEntry {
	if el == nil {
		return PathEntry{}
	}
	if el.Edge {
		return PathEntry{Edge: el.ID}
	}
	return PathEntry{Vertex: el.ID}
}

// Verdict of the reference typing.
type Verdict int

const (
	WellTyped Verdict = iota
	IllTyped
	Unspecified
)

func (v Verdict) String() string { return [...]string{"well-typed", "ill-typed", "unspecified"}[v] }

// Typing is the result of TypeCheck.
type Typing struct {
	Verdict Verdict
	At      int    // index of the offending step (ill-typed / unspecified)
	Why     string // reason
	Final   Type
	Marks   map[string]Type
	Types   []Type // type after each step
}

func validName(k string) bool {
	if k == "" {
		return false
	}
	if strings.ContainsAny(k, "!@#$%^&*()+={}[] :;\"',.<>?/\\|~") {
		return false
	}
	if strings.HasPrefix(k, "_") || strings.HasPrefix(k, "-") {
		return false
	}
	return k != "__current__"
}

// TypeCheck is the reference typing, derived from the compiler's own error messages:
// shapes it rejects explicitly are ill-typed; shapes it tolerates without any
// documentation are unspecified (the oracle demands neither outcome).
func TypeCheck(steps []Step) Typing {
	ty := Typing{Marks: map[string]Type{}}
	cur := TNone
	ill := func(i int, why string, a ...interface{}) Typing {
		ty.Verdict, ty.At, ty.Why = IllTyped, i, fmt.Sprintf(why, a...)
		return ty
	}
	unspec := func(i int, why string, a ...interface{}) {
		if ty.Verdict == WellTyped {
			ty.Verdict, ty.At, ty.Why = Unspecified, i, fmt.Sprintf(why, a...)
		}
	}
	if len(steps) == 0 {
		ty.Verdict, ty.Why = Unspecified, "empty traversal"
		return ty
	}
	for i, s := range steps {
		if i == 0 && s.Op != "V" && s.Op != "E" {
			return ill(i, "first statement is not V or E")
		}
		switch s.Op {
		case "V", "E":
			if cur != TNone {
				return ill(i, "%s only valid at the beginning", s.Op)
			}
			if s.Op == "V" {
				cur = TVertex
			} else {
				cur = TEdge
			}
		case "out", "in", "both", "outNull", "inNull":
			if !cur.IsElement() {
				return ill(i, "%s needs a vertex or edge, got %s", s.Op, cur)
			}
			if cur == TEdge && len(s.Args) > 0 {
				unspec(i, "edge-label argument on a move from an edge")
			}
			if strings.HasSuffix(s.Op, "Null") {
				unspec(i, "null-emitting move")
			}
			cur = TVertex
		case "outE", "inE", "bothE", "outENull", "inENull":
			if cur != TVertex {
				return ill(i, "%s needs a vertex, got %s", s.Op, cur)
			}
			if strings.HasSuffix(s.Op, "Null") {
				unspec(i, "null-emitting move")
			}
			cur = TEdge
		case "has":
			if !cur.IsElement() {
				return ill(i, "has needs a vertex or edge, got %s", cur)
			}
			if s.Has == nil {
				unspec(i, "has without expression")
			} else {
				for _, lf := range s.Has.Leaves() {
					if m, _ := SplitRef(lf.Key); m != "" {
						if _, ok := ty.Marks[m]; !ok {
							unspec(i, "has references undefined mark %s", m)
						}
					}
				}
			}
		case "hasLabel", "hasId", "hasKey":
			if !cur.IsElement() {
				return ill(i, "%s needs a vertex or edge, got %s", s.Op, cur)
			}
			if len(s.Args) == 0 {
				return ill(i, "%s without arguments", s.Op)
			}
			if s.Op == "hasKey" {
				for _, f := range s.Args {
					if m, _ := SplitRef(f); m != "" {
						if _, ok := ty.Marks[m]; !ok {
							unspec(i, "hasKey references undefined mark %s", m)
						}
					}
				}
			}
		case "limit", "skip", "range":
			if !cur.IsElement() {
				unspec(i, "%s on %s rows", s.Op, cur)
			}
		case "count":
			if !cur.IsElement() {
				unspec(i, "count on %s rows", cur)
			}
			cur = TCount
		case "distinct":
			if !cur.IsElement() {
				return ill(i, "distinct needs a vertex or edge, got %s", cur)
			}
			for _, f := range s.Args {
				if m, _ := SplitRef(f); m != "" {
					if _, ok := ty.Marks[m]; !ok {
						unspec(i, "distinct references undefined mark %s", m)
					}
				}
			}
		case "as":
			name := ""
			if len(s.Args) > 0 {
				name = s.Args[0]
			}
			if !validName(name) {
				return ill(i, "invalid mark name %q", name)
			}
			if !cur.IsElement() {
				return ill(i, "as needs a vertex or edge, got %s", cur)
			}
			ty.Marks[name] = cur
		case "select":
			if !cur.IsElement() {
				return ill(i, "select needs a vertex or edge, got %s", cur)
			}
			if len(s.Args) == 0 {
				return ill(i, "select without marks")
			}
			for _, m := range s.Args {
				if _, ok := ty.Marks[m]; !ok {
					unspec(i, "select of undefined mark %s", m)
				}
			}
			if len(s.Args) == 1 {
				cur = ty.Marks[s.Args[0]]
			} else {
				cur = TSelection
			}
		case "render":
			if !cur.IsElement() {
				return ill(i, "render needs a vertex or edge, got %s", cur)
			}
			for _, f := range TemplateRefs(s.Template) {
				if m, _ := SplitRef(f); m != "" {
					if _, ok := ty.Marks[m]; !ok {
						unspec(i, "render references undefined mark %s", m)
					}
				}
			}
			cur = TRender
		case "path":
			if !cur.IsElement() {
				return ill(i, "path needs a vertex or edge, got %s", cur)
			}
			cur = TPath
		case "fields":
			if !cur.IsElement() {
				return ill(i, "fields needs a vertex or edge, got %s", cur)
			}
		case "aggregate":
			if !cur.IsElement() {
				return ill(i, "aggregate needs a vertex or edge, got %s", cur)
			}
			seen := map[string]bool{}
			for _, a := range s.Aggs {
				if seen[a.Name] {
					unspec(i, "duplicate aggregation name")
				}
				seen[a.Name] = true
			}
			cur = TAgg
		case "unwind":
			if !cur.IsElement() {
				unspec(i, "unwind on %s rows", cur)
			}
		case "nil":
			return ill(i, "statement without a known step")
		default:
			unspec(i, "step %s has no documented typing", s.Op)
		}
		ty.Types = append(ty.Types, cur)
	}
	ty.Final = cur
	return ty
}

// MaxRows caps the number of travelers the reference interpreter follows; larger
// intermediate results make the case unspecified (sizes are C07's business).
var MaxRows = 3000

// OrderSensitive reports steps whose output depends on the (undocumented) row order.
func OrderSensitive(s Step) bool {
	switch s.Op {
	case "limit", "skip", "range", "distinct":
		return true
	}
	return false
}

// CountComparable reports whether the NUMBER of rows of a traversal is determined although
// it contains order-sensitive steps: everything after the first of them maps one row to one
// row (as, fields, render, path, select), truncates by position (limit, skip, range) or
// counts. A filter, move, unwind or distinct behind it sees whichever rows the row order
// happened to keep, and row order is not specified (both() merges two branches).
func CountComparable(steps []Step) bool {
	seen := false
	for _, s := range steps {
		if !seen {
			seen = OrderSensitive(s)
			continue
		}
		switch s.Op {
		case "as", "fields", "render", "path", "select", "limit", "skip", "range", "count":
		default:
			return false
		}
	}
	return true
}

// Eval is the reference interpreter: it applies each step's documented meaning to the
// list of travelers produced by the previous step. It returns the final travelers and
// their type; unspec != "" means the documentation does not define the result of this
// traversal on this graph (the case must not be judged by equality).
func Eval(g *Graph, steps []Step) (travs []*Trav, final Type, unspec string) {
	travs, final, unspec, subsetOnly := EvalX(g, steps)
	if unspec == "" && subsetOnly {
		return nil, final, "unwind() of a missing, non-list or empty value"
	}
	return travs, final, unspec
}

// EvalX is Eval with one more outcome. unwind() of a missing, non-list or empty value is
// not documented: neither how many rows it yields (the engine yields one, MongoDB's
// $unwind none) nor what the unwound field holds. The reference yields one row whose
// unwound field is *tainted*; a later step that reads a tainted field makes the case
// unspecified, but if nothing reads it (e.g. the traversal moves on with select/out) the
// rows are still determined up to that multiplicity: subsetOnly is true and the engine's
// rows must be a sub-multiset of the returned ones.
func EvalX(g *Graph, steps []Step) (travs []*Trav, final Type, unspec string, subsetOnly bool) {
	ty := TypeCheck(steps)
	if ty.Verdict != WellTyped {
		return nil, ty.Final, "typing " + ty.Verdict.String() + ": " + ty.Why, false
	}
	cur := TNone
	travs = []*Trav{{Marks: map[string]*Element{}}}
	pathOK := true
	for i, s := range steps {
		if i > 0 {
			cur = ty.Types[i-1]
		}
		var next []*Trav
		labelOK := func(e *Element) bool {
			if len(s.Args) == 0 {
				return true
			}
			for _, l := range s.Args {
				if l == e.Label {
					return true
				}
			}
			return false
		}
		switch s.Op {
		case "V":
			for _, t := range travs {
				if len(s.Args) == 0 {
					for _, v := range g.V {
						next = append(next, t.with(v, true))
					}
				} else {
					for _, id := range s.Args {
						if v := g.Vertex(id); v != nil {
							next = append(next, t.with(v, true))
						}
					}
				}
			}
		case "E":
			for _, t := range travs {
				if len(s.Args) == 0 {
					for _, e := range g.E {
						next = append(next, t.with(e, true))
					}
				} else {
					for _, id := range s.Args {
						if e := g.EdgeByID(id); e != nil {
							next = append(next, t.with(e, true))
						}
					}
				}
			}
		case "out", "in", "both":
			for _, t := range travs {
				if cur == TEdge {
					if len(s.Args) > 0 {
						return nil, cur, "edge-label argument on a move from an edge", false
					}
					if s.Op == "in" || s.Op == "both" {
						if v := g.Vertex(t.Cur.From); v != nil {
							next = append(next, t.with(v, true))
						}
					}
					if s.Op == "out" || s.Op == "both" {
						if v := g.Vertex(t.Cur.To); v != nil {
							next = append(next, t.with(v, true))
						}
					}
					continue
				}
				if s.Op == "in" || s.Op == "both" {
					for _, e := range g.E {
						if e.To == t.Cur.ID && labelOK(e) {
							if v := g.Vertex(e.From); v != nil {
								next = append(next, t.with(v, true))
							}
						}
					}
				}
				if s.Op == "out" || s.Op == "both" {
					for _, e := range g.E {
						if e.From == t.Cur.ID && labelOK(e) {
							if v := g.Vertex(e.To); v != nil {
								next = append(next, t.with(v, true))
							}
						}
					}
				}
			}
		case "outE", "inE", "bothE":
			for _, t := range travs {
				if s.Op == "inE" || s.Op == "bothE" {
					for _, e := range g.E {
						if e.To == t.Cur.ID && labelOK(e) {
							next = append(next, t.with(e, true))
						}
					}
				}
				if s.Op == "outE" || s.Op == "bothE" {
					for _, e := range g.E {
						if e.From == t.Cur.ID && labelOK(e) {
							next = append(next, t.with(e, true))
						}
					}
				}
			}
		case "has":
			for _, t := range travs {
				for _, lf := range s.Has.Leaves() {
					if t.readsTainted(lf.Key) {
						return nil, cur, taintedRead, false
					}
				}
				r := RefExpr(s.Has, t.Lookup)
				if r == Undefined {
					return nil, cur, fmt.Sprintf("step %d: has() cell not defined by the documentation", i), false
				}
				if r == True {
					next = append(next, t)
				}
			}
		case "hasLabel":
			for _, t := range travs {
				if labelOK(t.Cur) {
					next = append(next, t)
				}
			}
		case "hasId":
			for _, t := range travs {
				for _, id := range s.Args {
					if id == t.Cur.ID {
						next = append(next, t)
						break
					}
				}
			}
		case "hasKey":
			for _, t := range travs {
				all := true
				for _, k := range s.Args {
					if t.readsTainted(k) {
						return nil, cur, taintedRead, false
					}
					if _, ok := t.Lookup(k); !ok {
						all = false
					}
				}
				if all {
					next = append(next, t)
				}
			}
		case "as":
			for _, t := range travs {
				o := &Trav{Cur: t.Cur, Path: t.Path, Marks: map[string]*Element{}}
				for k, v := range t.Marks {
					o.Marks[k] = v
				}
				o.Marks[s.Args[0]] = t.Cur
				next = append(next, o)
			}
		case "select":
			if len(s.Args) == 1 {
				for _, t := range travs {
					m, ok := t.Marks[s.Args[0]]
					if !ok {
						return nil, cur, "select of undefined mark", false
					}
					next = append(next, t.with(m, true))
				}
			} else {
				for _, t := range travs {
					sel := map[string]*Element{}
					for _, name := range s.Args {
						m, ok := t.Marks[name]
						if !ok {
							return nil, cur, "select of undefined mark", false
						}
						if len(m.Tainted) > 0 {
							return nil, cur, taintedRead, false
						}
						sel[name] = m
					}
					next = append(next, &Trav{Sel: sel})
				}
			}
		case "fields":
			var inc, exc []string
			for _, a := range s.Args {
				name := strings.TrimPrefix(a, "-")
				if name == "" || strings.ContainsAny(name, ".$") || strings.HasPrefix(name, "_") {
					return nil, cur, "fields() on reserved or nested names", false
				}
				if strings.HasPrefix(a, "-") {
					exc = append(exc, name)
				} else {
					inc = append(inc, name)
				}
			}
			if len(inc) > 0 && len(exc) > 0 {
				return nil, cur, "fields() mixing include and exclude", false
			}
			for _, t := range travs {
				el := *t.Cur
				el.Data = map[string]interface{}{}
				el.Tainted = nil
				for k := range t.Cur.Tainted {
					keep := len(inc) == 0 && len(exc) > 0
					for _, x := range inc {
						if x == k {
							keep = true
						}
					}
					for _, x := range exc {
						if x == k {
							keep = false
						}
					}
					if keep {
						if el.Tainted == nil {
							el.Tainted = map[string]bool{}
						}
						el.Tainted[k] = true
					}
				}
				switch {
				case len(inc) > 0:
					for _, k := range inc {
						if v, ok := t.Cur.Data[k]; ok {
							el.Data[k] = v
						}
					}
				case len(exc) > 0:
					for k, v := range t.Cur.Data {
						el.Data[k] = v
					}
					for _, k := range exc {
						delete(el.Data, k)
					}
				}
				next = append(next, t.with(&el, false))
			}
			pathOK = false
		case "render":
			for _, t := range travs {
				for _, ref := range TemplateRefs(s.Template) {
					if t.readsTainted(ref) {
						return nil, cur, taintedRead, false
					}
				}
				v, u := renderTemplate(t, s.Template)
				if u != "" {
					return nil, cur, u, false
				}
				next = append(next, &Trav{Render: v})
			}
		case "path":
			if !pathOK {
				return nil, cur, "path() after fields()/unwind()", false
			}
			next = travs
		case "unwind":
			f := s.Args[0]
			if strings.ContainsAny(f, ".$") || strings.HasPrefix(f, "_") {
				return nil, cur, "unwind() of a nested, reserved or mark field", false
			}
			for _, t := range travs {
				if t.Cur.Tainted[f] {
					return nil, cur, "unwind() of a field whose value is unspecified", false
				}
				v, ok := t.Cur.Data[f]
				l, isList := v.([]interface{})
				if !ok || !isList || len(l) == 0 {
					el := *t.Cur
					el.Data = CopyMap(t.Cur.Data)
					delete(el.Data, f)
					el.Tainted = map[string]bool{f: true}
					for k := range t.Cur.Tainted {
						el.Tainted[k] = true
					}
					next = append(next, t.with(&el, false))
					subsetOnly = true
					continue
				}
				for _, item := range l {
					el := *t.Cur
					el.Data = CopyMap(t.Cur.Data)
					el.Data[f] = DeepCopy(item)
					next = append(next, t.with(&el, false))
				}
			}
			pathOK = false
		case "count":
			next = []*Trav{{Count: len(travs)}}
		case "distinct":
			// one traveler per distinct key tuple. Which traveler of a group survives depends
			// on the (undocumented) row order; the step is only given a reference result
			// when that choice cannot be seen: all travelers of a group are identical.
			groups := map[string]string{}
			for _, t := range travs {
				for _, f := range distinctFields(s.Args) {
					if t.readsTainted(f) {
						return nil, cur, taintedRead, false
					}
				}
				k, ok := DistinctKey(t, s.Args)
				if !ok {
					continue
				}
				needPath := false
				for _, later := range steps[i+1:] {
					if later.Op == "path" {
						needPath = true
					}
				}
				st := t.stateCanon(needPath)
				if prev, seen := groups[k]; seen {
					if prev != st {
						return nil, cur, "order-sensitive step distinct", false
					}
					continue
				}
				groups[k] = st
				next = append(next, t)
			}
		case "limit", "skip", "range":
			return nil, cur, "order-sensitive step " + s.Op, false
		default:
			return nil, cur, "step " + s.Op + " has no reference semantics", false
		}
		if len(next) > MaxRows {
			return nil, cur, "row explosion beyond the reference's size cap", false
		}
		travs = next
	}
	if ty.Final.IsElement() {
		for _, t := range travs {
			if t.Cur != nil && len(t.Cur.Tainted) > 0 {
				return nil, ty.Final, taintedRead, false
			}
		}
	}
	return travs, ty.Final, "", subsetOnly
}

func distinctFields(fields []string) []string {
	if len(fields) == 0 {
		return []string{"_gid"}
	}
	return fields
}

// DistinctKey is the key tuple distinct() compares; ok=false when a field is absent (the
// row is dropped by the step).
func DistinctKey(t *Trav, fields []string) (string, bool) {
	fields = distinctFields(fields)
	parts := make([]string, len(fields))
	for i, f := range fields {
		v, ok := t.Lookup(f)
		if !ok {
			return "", false
		}
		parts[i] = Canon(v)
	}
	return strings.Join(parts, "\x00"), true
}

// stateCanon renders everything a later step or the final row can observe of a traveler.
func (t *Trav) stateCanon(withPath bool) string {
	el := func(e *Element) interface{} {
		if e == nil {
			return nil
		}
		taint := SortedKeys(e.Tainted)
		return []interface{}{e.ID, e.Label, e.From, e.To, e.Edge, e.Data, taint}
	}
	marks := map[string]interface{}{}
	for k, m := range t.Marks {
		marks[k] = el(m)
	}
	sel := map[string]interface{}{}
	for k, m := range t.Sel {
		sel[k] = el(m)
	}
	var path []interface{}
	if withPath {
		for _, p := range t.Path {
			path = append(path, []interface{}{p.Vertex, p.Edge})
		}
	}
	return Canon([]interface{}{el(t.Cur), marks, path, t.Count, t.Render, sel})
}

// readsTainted reports whether a field reference reads a property whose value is
// unspecified (see EvalX).
func (t *Trav) readsTainted(key string) bool {
	mark, path := SplitRef(key)
	el := t.Cur
	if mark != "" {
		el = t.Marks[mark]
	}
	if el == nil || len(el.Tainted) == 0 {
		return false
	}
	first := strings.Split(path, ".")[0]
	if first == "_data" {
		return true
	}
	return el.Tainted[first]
}

const taintedRead = "a step reads a field that an earlier unwind() left unspecified"

// Lookup resolves a (possibly mark-qualified) field reference on the traveler.
func (t *Trav) Lookup(key string) (interface{}, bool) {
	mark, path := SplitRef(key)
	el := t.Cur
	if mark != "" {
		el = t.Marks[mark]
	}
	if el == nil || path == "" {
		return nil, false
	}
	return el.Field(path)
}

func renderTemplate(t *Trav, tmpl interface{}) (interface{}, string) {
	switch x := tmpl.(type) {
	case string:
		mark, path := SplitRef(x)
		if mark != "" {
			if _, ok := t.Marks[mark]; !ok {
				return nil, "render of an undefined mark"
			}
		}
		if path == "" || strings.ContainsAny(path, "[]:*") {
			return nil, "render path form not covered by the reference"
		}
		v, ok := t.Lookup(x)
		if !ok {
			return nil, ""
		}
		return DeepCopy(v), ""
	case map[string]interface{}:
		o := map[string]interface{}{}
		for k, v := range x {
			r, u := renderTemplate(t, v)
			if u != "" {
				return nil, u
			}
			o[k] = r
		}
		return o, ""
	case []interface{}:
		o := make([]interface{}, len(x))
		for i, v := range x {
			r, u := renderTemplate(t, v)
			if u != "" {
				return nil, u
			}
			o[i] = r
		}
		return o, ""
	}
	return nil, "non-string template leaf"
}

// TemplateRefs lists the field references (string leaves) of a render template.
func TemplateRefs(t interface{}) []string {
	switch x := t.(type) {
	case string:
		return []string{x}
	case map[string]interface{}:
		var out []string
		for _, k := range SortedKeys(x) {
			out = append(out, TemplateRefs(x[k])...)
		}
		return out
	case []interface{}:
		var out []string
		for _, v := range x {
			out = append(out, TemplateRefs(v)...)
		}
		return out
	}
	return nil
}
