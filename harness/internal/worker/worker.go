// Package worker runs the code under test in a child process (the test binary
// re-executed with VERIF_WORKER=1), because a panic inside a pipeline goroutine or a
// gRPC handler terminates the process and cannot be observed in-process. The child
// starts a live GripServer, prints its address, and then answers JSON commands on
// stdin/stdout with a package-supplied handler. The parent detects the child's death,
// and extracts the panic message and the first bmeg/grip frame from its stderr as the
// crash signature.
package worker

import (
	"bufio"
	"bytes"
	"encoding/json"
	"fmt"
	"io"
	"os"
	"os/exec"
	"regexp"
	"strings"
	"sync"
	"time"

	"verif/internal/live"
	"verif/internal/pbt"
)

// Handler answers one command inside the child.
type Handler func(srv *live.Server, cmd json.RawMessage) (interface{}, error)

// IsChild reports whether this process is a worker child.
func IsChild() bool { return os.Getenv("VERIF_WORKER") == "1" }

// ChildMain runs the child loop; never returns.
func ChildMain(h Handler) {
	dir := os.Getenv("VERIF_WORKER_DIR")
	srv, err := live.Start(dir)
	if err != nil {
		fmt.Printf("FAILED %v\n", err)
		os.Exit(3)
	}
	out := bufio.NewWriter(os.Stdout)
	fmt.Fprintf(out, "READY %s %s\n", srv.RPCAddr, srv.HTTPBase)
	out.Flush()
	in := bufio.NewReaderSize(os.Stdin, 1<<20)
	for {
		line, err := in.ReadBytes('\n')
		if len(line) > 0 {
			res, herr := h(srv, json.RawMessage(line))
			reply := map[string]interface{}{"result": res}
			if herr != nil {
				reply["error"] = herr.Error()
			}
			b, _ := json.Marshal(reply)
			out.Write(b)
			out.WriteByte('\n')
			out.Flush()
		}
		if err != nil {
			os.Exit(0)
		}
	}
}

// Worker is the parent's handle.
type Worker struct {
	cmd    *exec.Cmd
	stdin  io.WriteCloser
	stdout *bufio.Reader
	stderr *bytes.Buffer
	mu     sync.Mutex
	Srv    *live.Server
	dead   chan struct{}
	dir    string
}

// Start spawns a child.
func Start() (*Worker, error) {
	dir := pbt.ScratchDir("worker-")
	cmd := exec.Command(os.Args[0], "-test.run", "^TestWorkerChild$", "-test.timeout", "0")
	cmd.Env = append(os.Environ(), "VERIF_WORKER=1", "VERIF_WORKER_DIR="+dir, "VERIF_STATS_DIR=", "VERIF_REPLAY=")
	stdin, _ := cmd.StdinPipe()
	stdoutPipe, _ := cmd.StdoutPipe()
	w := &Worker{cmd: cmd, stdin: stdin, stderr: &bytes.Buffer{}, dead: make(chan struct{}), dir: dir}
	cmd.Stderr = w.stderr
	if err := cmd.Start(); err != nil {
		return nil, err
	}
	go func() { cmd.Wait(); close(w.dead) }()
	w.stdout = bufio.NewReaderSize(stdoutPipe, 1<<20)
	// wait for READY (the server prints other lines first)
	deadline := time.Now().Add(60 * time.Second)
	for {
		line, err := w.stdout.ReadString('\n')
		if strings.HasPrefix(line, "READY ") {
			f := strings.Fields(line)
			srv, derr := live.Dial(f[1])
			if derr != nil {
				w.Stop()
				return nil, derr
			}
			srv.HTTPBase = f[2]
			w.Srv = srv
			return w, nil
		}
		if strings.HasPrefix(line, "FAILED") || err != nil || time.Now().After(deadline) {
			w.Stop()
			return nil, fmt.Errorf("INFRA: worker did not start: %q %v stderr=%s", line, err, tail(w.stderr.String(), 2000))
		}
	}
}

func tail(s string, n int) string {
	if len(s) > n {
		return s[len(s)-n:]
	}
	return s
}

// Alive reports whether the child process is still running.
func (w *Worker) Alive() bool {
	select {
	case <-w.dead:
		return false
	default:
		return true
	}
}

// WaitDead waits up to d for the child to exit (a crash takes a moment to show).
func (w *Worker) WaitDead(d time.Duration) bool {
	select {
	case <-w.dead:
		return true
	case <-time.After(d):
		return false
	}
}

// Exec sends a command to the child's handler and waits for the reply. died is true
// when the child exited instead of answering.
func (w *Worker) Exec(cmd interface{}, budget time.Duration) (result json.RawMessage, herr string, died bool, timedOut bool) {
	w.mu.Lock()
	defer w.mu.Unlock()
	b, _ := json.Marshal(cmd)
	b = append(bytes.ReplaceAll(b, []byte("\n"), []byte(" ")), '\n')
	if _, err := w.stdin.Write(b); err != nil {
		return nil, "", true, false
	}
	type rep struct {
		line string
		err  error
	}
	ch := make(chan rep, 1)
	go func() {
		for {
			line, err := w.stdout.ReadString('\n')
			if err != nil || strings.HasPrefix(line, "{\"") {
				ch <- rep{line, err}
				return
			}
		}
	}()
	select {
	case r := <-ch:
		if r.err != nil {
			w.WaitDead(5 * time.Second)
			return nil, "", true, false
		}
		var reply struct {
			Result json.RawMessage `json:"result"`
			Error  string          `json:"error"`
		}
		json.Unmarshal([]byte(r.line), &reply)
		return reply.Result, reply.Error, false, false
	case <-w.dead:
		return nil, "", true, false
	case <-time.After(budget):
		return nil, "", false, true
	}
}

var frameRe = regexp.MustCompile(`(?m)^(github\.com/bmeg/grip/[^\s(]+(?:\([^)]*\))?[^\s(]*)\(`)

// CrashInfo extracts the panic message and the first bmeg/grip frame from the child's
// stderr.
func (w *Worker) CrashInfo() (msg, frame string) {
	s := w.stderr.String()
	i := strings.LastIndex(s, "panic: ")
	j := strings.LastIndex(s, "fatal error: ")
	if j > i {
		i = j
	}
	if i < 0 {
		return "exit without panic message: " + tail(s, 300), "unknown"
	}
	rest := s[i:]
	msg = strings.SplitN(rest, "\n", 2)[0]
	if m := frameRe.FindStringSubmatch(rest); m != nil {
		frame = strings.TrimPrefix(m[1], "github.com/bmeg/grip/")
	} else {
		frame = "unknown"
	}
	return msg, frame
}

// Stderr returns the tail of the child's stderr.
func (w *Worker) Stderr(n int) string { return tail(w.stderr.String(), n) }

// Stop terminates the child and removes its directory.
func (w *Worker) Stop() {
	if w.Srv != nil && w.Srv.Conn != nil {
		w.Srv.Conn.Close()
	}
	w.stdin.Close()
	if !w.WaitDead(3 * time.Second) {
		w.cmd.Process.Kill()
		w.WaitDead(3 * time.Second)
	}
	os.RemoveAll(w.dir)
}
