// Package memgraph is an in-memory gdbi.GraphInterface over the abstract graph that
// HONOURS the load hint the way the PostgreSQL and MongoDB drivers do: with
// load == false it returns elements with Loaded:false and no property data
// (psql: "SELECT gid, label ..."; mongo: projection _id,label[,from,to]). kvgraph
// ignores the hint for vertices, so load-elision mistakes are invisible there.
// It records which calls asked for what.
package memgraph

import (
	"context"
	"fmt"
	"sync"

	"github.com/bmeg/grip/engine/core"
	"github.com/bmeg/grip/gdbi"
	"github.com/bmeg/grip/gripql"
	"verif/internal/model"
)

type Graph struct {
	mu sync.Mutex
	g  *model.Graph
	// NoLoadCalls counts calls made with load == false, by method
	NoLoadCalls map[string]int
	LoadCalls   map[string]int
	ts          int
}

func New(g *model.Graph) *Graph {
	return &Graph{g: g.Clone(), NoLoadCalls: map[string]int{}, LoadCalls: map[string]int{}}
}

func (m *Graph) note(method string, load bool) {
	m.mu.Lock()
	if load {
		m.LoadCalls[method]++
	} else {
		m.NoLoadCalls[method]++
	}
	m.mu.Unlock()
}

// NoLoadTotal is the number of driver calls that were told not to load properties.
func (m *Graph) NoLoadTotal() int {
	m.mu.Lock()
	defer m.mu.Unlock()
	n := 0
	for _, c := range m.NoLoadCalls {
		n += c
	}
	return n
}

func (m *Graph) ResetCounters() {
	m.mu.Lock()
	m.NoLoadCalls, m.LoadCalls = map[string]int{}, map[string]int{}
	m.mu.Unlock()
}

func (m *Graph) Compiler() gdbi.Compiler { return core.NewCompiler(m, core.IndexStartOptimize) }
func (m *Graph) GetTimestamp() string    { return fmt.Sprintf("%d", m.ts) }

func (m *Graph) vertex(el *model.Element, load bool) *gdbi.Vertex {
	v := &gdbi.Vertex{ID: el.ID, Label: el.Label, Loaded: load}
	if load {
		v.Data = model.CopyMap(el.Data)
	}
	return v
}

func (m *Graph) edge(el *model.Element, load bool) *gdbi.Edge {
	e := &gdbi.Edge{ID: el.ID, Label: el.Label, From: el.From, To: el.To, Loaded: load}
	if load {
		e.Data = model.CopyMap(el.Data)
	}
	return e
}

func (m *Graph) GetVertex(key string, load bool) *gdbi.Vertex {
	m.note("GetVertex", load)
	if el := m.g.Vertex(key); el != nil {
		return m.vertex(el, load)
	}
	return nil
}

func (m *Graph) GetEdge(key string, load bool) *gdbi.Edge {
	m.note("GetEdge", load)
	if el := m.g.EdgeByID(key); el != nil {
		return m.edge(el, load)
	}
	return nil
}

func (m *Graph) AddVertex(vs []*gdbi.Vertex) error { return fmt.Errorf("memgraph is read-only") }
func (m *Graph) AddEdge(es []*gdbi.Edge) error     { return fmt.Errorf("memgraph is read-only") }
func (m *Graph) BulkAdd(s <-chan *gdbi.GraphElement) error {
	for range s {
	}
	return fmt.Errorf("memgraph is read-only")
}
func (m *Graph) DelVertex(key string) error { return fmt.Errorf("memgraph is read-only") }
func (m *Graph) DelEdge(key string) error   { return fmt.Errorf("memgraph is read-only") }

func (m *Graph) VertexLabelScan(ctx context.Context, label string) chan string {
	out := make(chan string, 100)
	go func() {
		defer close(out)
		for _, v := range m.g.V {
			if v.Label == label {
				out <- v.ID
			}
		}
	}()
	return out
}

func labelsOf(els []*model.Element) []string {
	seen := map[string]bool{}
	out := []string{}
	for _, e := range els {
		if !seen[e.Label] {
			seen[e.Label] = true
			out = append(out, e.Label)
		}
	}
	return out
}

func (m *Graph) ListVertexLabels() ([]string, error)                { return labelsOf(m.g.V), nil }
func (m *Graph) ListEdgeLabels() ([]string, error)                  { return labelsOf(m.g.E), nil }
func (m *Graph) AddVertexIndex(label string, field string) error    { return nil }
func (m *Graph) DeleteVertexIndex(label string, field string) error { return nil }
func (m *Graph) GetVertexIndexList() <-chan *gripql.IndexID {
	o := make(chan *gripql.IndexID)
	close(o)
	return o
}

func (m *Graph) GetVertexList(ctx context.Context, load bool) <-chan *gdbi.Vertex {
	m.note("GetVertexList", load)
	o := make(chan *gdbi.Vertex, 100)
	go func() {
		defer close(o)
		for _, v := range m.g.V {
			select {
			case <-ctx.Done():
				return
			default:
			}
			o <- m.vertex(v, load)
		}
	}()
	return o
}

func (m *Graph) GetEdgeList(ctx context.Context, load bool) <-chan *gdbi.Edge {
	m.note("GetEdgeList", load)
	o := make(chan *gdbi.Edge, 100)
	go func() {
		defer close(o)
		for _, e := range m.g.E {
			select {
			case <-ctx.Done():
				return
			default:
			}
			o <- m.edge(e, load)
		}
	}()
	return o
}

func (m *Graph) GetVertexChannel(ctx context.Context, req chan gdbi.ElementLookup, load bool) chan gdbi.ElementLookup {
	m.note("GetVertexChannel", load)
	o := make(chan gdbi.ElementLookup, 100)
	go func() {
		defer close(o)
		for r := range req {
			if r.IsSignal() {
				o <- r
				continue
			}
			if el := m.g.Vertex(r.ID); el != nil {
				r.Vertex = m.vertex(el, load)
				o <- r
			}
		}
	}()
	return o
}

func labelOK(labels []string, l string) bool {
	if len(labels) == 0 {
		return true
	}
	for _, x := range labels {
		if x == l {
			return true
		}
	}
	return false
}

func (m *Graph) adj(name string, req chan gdbi.ElementLookup, load, emitNull bool, labels []string, out bool, wantEdge bool) chan gdbi.ElementLookup {
	m.note(name, load)
	o := make(chan gdbi.ElementLookup, 100)
	go func() {
		defer close(o)
		for r := range req {
			if r.IsSignal() {
				o <- r
				continue
			}
			found := false
			for _, e := range m.g.E {
				if (out && e.From != r.ID) || (!out && e.To != r.ID) || !labelOK(labels, e.Label) {
					continue
				}
				rr := r
				if wantEdge {
					rr.Edge = m.edge(e, load)
					o <- rr
					found = true
					continue
				}
				far := e.To
				if !out {
					far = e.From
				}
				if v := m.g.Vertex(far); v != nil {
					rr.Vertex = m.vertex(v, load)
					o <- rr
					found = true
				}
			}
			if !found && emitNull {
				rr := r
				rr.Vertex, rr.Edge = nil, nil
				o <- rr
			}
		}
	}()
	return o
}

func (m *Graph) GetOutChannel(ctx context.Context, req chan gdbi.ElementLookup, load bool, emitNull bool, edgeLabels []string) chan gdbi.ElementLookup {
	return m.adj("GetOutChannel", req, load, emitNull, edgeLabels, true, false)
}
func (m *Graph) GetInChannel(ctx context.Context, req chan gdbi.ElementLookup, load bool, emitNull bool, edgeLabels []string) chan gdbi.ElementLookup {
	return m.adj("GetInChannel", req, load, emitNull, edgeLabels, false, false)
}
func (m *Graph) GetOutEdgeChannel(ctx context.Context, req chan gdbi.ElementLookup, load bool, emitNull bool, edgeLabels []string) chan gdbi.ElementLookup {
	return m.adj("GetOutEdgeChannel", req, load, emitNull, edgeLabels, true, true)
}
func (m *Graph) GetInEdgeChannel(ctx context.Context, req chan gdbi.ElementLookup, load bool, emitNull bool, edgeLabels []string) chan gdbi.ElementLookup {
	return m.adj("GetInEdgeChannel", req, load, emitNull, edgeLabels, false, true)
}

var _ gdbi.GraphInterface = (*Graph)(nil)
