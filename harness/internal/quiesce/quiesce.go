// Package quiesce decides whether a stream that did not finish within its time budget
// is really stuck. A bare timeout is never a verdict (GUIDE: "Never use wall-clock
// limits as an oracle"): Wait reports Hang only when two goroutine dumps taken at least
// one second apart show every goroutine of interest blocked on a channel / select /
// mutex / condition variable with identical stacks while the caller's progress counter
// stood still. Everything else (something is runnable, sleeping, in a system call, a
// stack changed, the counter moved) is Inconclusive.
//
// "Goroutine of interest" = a goroutine with a frame (or a "created by" line) whose
// function name contains one of the filter substrings; the default filter is
// github.com/bmeg/grip/ . Harness goroutines that feed or drain the stream should be
// added with WithFilter so that a producer that is merely slow is not mistaken for a
// blocked pipeline. The goroutine that calls into this package is always left out.
package quiesce

import (
	"fmt"
	"regexp"
	"runtime"
	"sort"
	"strconv"
	"strings"
	"time"
)

// DefaultFilter selects goroutines running (or started by) bmeg/grip code.
const DefaultFilter = "github.com/bmeg/grip/"

// Verdict of Wait.
type Verdict int

const (
	// Done: the done channel was closed (possibly while the dumps were being taken).
	Done Verdict = iota
	// Hang: budget expired and the goroutines of interest are provably parked.
	Hang
	// Inconclusive: budget expired but a hang could not be confirmed.
	Inconclusive
)

func (v Verdict) String() string {
	switch v {
	case Done:
		return "done"
	case Hang:
		return "hang"
	}
	return "inconclusive"
}

// Goroutine is one parsed entry of a runtime.Stack(all) dump.
type Goroutine struct {
	ID        int64
	State     string   // "chan receive", "select", "runnable", "sleep", ...
	Frames    []string // "pkg.func file.go:123", innermost first, arguments/offsets removed
	CreatedBy string   // "pkg.func file.go:123" or ""
	match     int      // index of the innermost frame matching the filter, -1 = only created-by
}

// Blocked reports whether the goroutine is parked on a synchronisation primitive that
// only another goroutine can release.
func (g Goroutine) Blocked() bool {
	for _, p := range blockedStates {
		if strings.HasPrefix(g.State, p) {
			return true
		}
	}
	return false
}

var blockedStates = []string{
	"chan send", "chan receive", "select", "sync.Cond.Wait", "sync.Mutex.Lock",
	"sync.RWMutex.Lock", "sync.RWMutex.RLock", "sync.WaitGroup.Wait", "semacquire",
}

// key is the identity used to compare two dumps: state + full normalised stack.
func (g Goroutine) key() string {
	return g.State + "\n" + strings.Join(g.Frames, "\n") + "\n^" + g.CreatedBy
}

// String renders the goroutine in one line: id, state, the innermost frame of interest
// and the frame it is parked in.
func (g Goroutine) String() string {
	at := ""
	if g.match >= 0 && g.match < len(g.Frames) {
		at = shortFrame(g.Frames[g.match])
	} else if len(g.Frames) > 0 {
		at = shortFrame(g.Frames[0])
	}
	s := fmt.Sprintf("g%d [%s] %s", g.ID, g.State, at)
	if g.CreatedBy != "" {
		s += " <- " + shortFrame(g.CreatedBy)
	}
	return s
}

func shortFrame(f string) string {
	f = strings.TrimPrefix(f, DefaultFilter)
	// "/long/path/file.go:12" -> "file.go:12"
	if i := strings.LastIndex(f, " "); i >= 0 {
		fn, loc := f[:i], f[i+1:]
		if j := strings.LastIndex(loc, "/"); j >= 0 {
			loc = loc[j+1:]
		}
		return fn + " " + loc
	}
	return f
}

// Render lists goroutines compactly (one per line, at most max lines; max <= 0: all),
// for failure messages.
func Render(gs []Goroutine, max int) string {
	var b strings.Builder
	for i, g := range gs {
		if max > 0 && i >= max {
			fmt.Fprintf(&b, "  ... %d more\n", len(gs)-i)
			break
		}
		b.WriteString("  " + g.String() + "\n")
	}
	return b.String()
}

// ---------------------------------------------------------------------------------
// options

type config struct {
	filter  []string
	pollers []string
	gap     time.Duration
}

// Option adjusts Wait / Snapshot / Leaks.
type Option func(*config)

// WithFilter replaces the package-path filter (default: DefaultFilter). A goroutine is
// of interest when any function name in its stack, or its creator, contains one of the
// substrings.
func WithFilter(substr ...string) Option {
	return func(c *config) { c.filter = append([]string{}, substr...) }
}

// AlsoFilter adds substrings to the filter (keeping the default).
func AlsoFilter(substr ...string) Option {
	return func(c *config) { c.filter = append(c.filter, substr...) }
}

// WithPollers names functions (substring of the function name) that wait by polling
// (`select { default: }` / sleep loops) instead of blocking. Such goroutines never look
// blocked in a dump; they are tolerated in a Hang verdict as long as every other
// goroutine of interest is blocked with an unchanged stack and the progress counter did
// not move.
func WithPollers(fn ...string) Option {
	return func(c *config) { c.pollers = append(c.pollers, fn...) }
}

// WithGap sets the distance between the two dumps (minimum and default: 1 s).
func WithGap(d time.Duration) Option {
	return func(c *config) {
		if d > time.Second {
			c.gap = d
		}
	}
}

func mkconfig(opts []Option) *config {
	c := &config{filter: []string{DefaultFilter}, gap: time.Second}
	for _, o := range opts {
		o(c)
	}
	return c
}

// ---------------------------------------------------------------------------------
// dumps

var (
	headerRe = regexp.MustCompile(`^goroutine (\d+)(?: [^\[]*)? \[([^\]]*)\]:$`)
	offsetRe = regexp.MustCompile(` \+0x[0-9a-f]+$`)
	inGorRe  = regexp.MustCompile(` in goroutine \d+$`)
)

const selfMarker = "verif/internal/quiesce."

func dump() string {
	buf := make([]byte, 1<<16)
	for {
		n := runtime.Stack(buf, true)
		if n < len(buf) {
			return string(buf[:n])
		}
		buf = make([]byte, 2*len(buf))
	}
}

func funcName(line string) string {
	// "pkg.(*T).Method(0xc000012345, {0x1, 0x2})" -> "pkg.(*T).Method"; the argument
	// list is the last parenthesised group
	if strings.HasSuffix(line, ")") {
		depth := 0
		for i := len(line) - 1; i >= 0; i-- {
			switch line[i] {
			case ')':
				depth++
			case '(':
				depth--
				if depth == 0 {
					return line[:i]
				}
			}
		}
	}
	return line
}

func parse(text string) []Goroutine {
	var out []Goroutine
	for _, block := range strings.Split(text, "\n\n") {
		lines := strings.Split(strings.TrimSpace(block), "\n")
		if len(lines) == 0 {
			continue
		}
		m := headerRe.FindStringSubmatch(lines[0])
		if m == nil {
			continue
		}
		id, _ := strconv.ParseInt(m[1], 10, 64)
		state := m[2]
		if i := strings.Index(state, ","); i >= 0 {
			state = state[:i] // drop ", 2 minutes", ", locked to thread"
		}
		g := Goroutine{ID: id, State: state, match: -1}
		for i := 1; i < len(lines); i++ {
			fn := lines[i]
			if strings.HasPrefix(fn, "\t") || strings.HasPrefix(fn, "...") {
				continue
			}
			loc := ""
			if i+1 < len(lines) && strings.HasPrefix(lines[i+1], "\t") {
				loc = offsetRe.ReplaceAllString(strings.TrimSpace(lines[i+1]), "")
				i++
			}
			if strings.HasPrefix(fn, "created by ") {
				fn = inGorRe.ReplaceAllString(strings.TrimPrefix(fn, "created by "), "")
				g.CreatedBy = fn + " " + loc
				continue
			}
			g.Frames = append(g.Frames, funcName(fn)+" "+loc)
		}
		out = append(out, g)
	}
	return out
}

func contains(s string, subs []string) bool {
	for _, x := range subs {
		if x != "" && strings.Contains(s, x) {
			return true
		}
	}
	return false
}

func (c *config) select_(all []Goroutine) []Goroutine {
	var out []Goroutine
next:
	for _, g := range all {
		for _, f := range g.Frames {
			if strings.Contains(f, selfMarker) {
				continue next // the goroutine asking the question
			}
		}
		g.match = -1
		hit := false
		for i, f := range g.Frames {
			if contains(f, c.filter) {
				g.match = i
				hit = true
				break
			}
		}
		if !hit && contains(g.CreatedBy, c.filter) {
			hit = true
		}
		if hit {
			out = append(out, g)
		}
	}
	sort.Slice(out, func(i, j int) bool { return out[i].ID < out[j].ID })
	return out
}

func (c *config) isPoller(g Goroutine) bool {
	if len(c.pollers) == 0 {
		return false
	}
	for _, f := range g.Frames {
		if contains(f, c.pollers) {
			return true
		}
	}
	return false
}

// Snapshot returns the goroutines of interest right now.
func Snapshot(opts ...Option) []Goroutine {
	c := mkconfig(opts)
	return c.select_(parse(dump()))
}

// GripGoroutines lists the current goroutines of interest, one line each
// ("g<ID> [state] innermost-grip-frame <- creator"). Meant for leak checks: take it
// before a case and hand it to Leaks afterwards.
func GripGoroutines(opts ...Option) []string {
	gs := Snapshot(opts...)
	out := make([]string, len(gs))
	for i, g := range gs {
		out[i] = g.String()
	}
	return out
}

func lineID(s string) int64 {
	s = strings.TrimPrefix(s, "g")
	if i := strings.IndexByte(s, ' '); i >= 0 {
		s = s[:i]
	}
	id, err := strconv.ParseInt(s, 10, 64)
	if err != nil {
		return -1
	}
	return id
}

// Leaks polls until no goroutine of interest exists that was not in the baseline
// (matched by goroutine id), or the grace period is over. It returns the goroutines
// still alive then (nil = everything was released) and whether all of them are blocked
// (a leak that is still running may simply not have been scheduled yet: treat that as
// inconclusive, not as a leak).
func Leaks(baseline []string, grace time.Duration, opts ...Option) (left []Goroutine, allBlocked bool) {
	c := mkconfig(opts)
	base := map[int64]bool{}
	for _, l := range baseline {
		base[lineID(l)] = true
	}
	deadline := time.Now().Add(grace)
	pause := 50 * time.Microsecond
	for {
		left = left[:0]
		for _, g := range c.select_(parse(dump())) {
			if !base[g.ID] {
				left = append(left, g)
			}
		}
		if len(left) == 0 {
			return nil, false
		}
		if time.Now().After(deadline) {
			break
		}
		runtime.Gosched()
		time.Sleep(pause)
		if pause < 20*time.Millisecond {
			pause *= 2
		}
	}
	allBlocked = true
	for _, g := range left {
		if !g.Blocked() {
			allBlocked = false
		}
	}
	return left, allBlocked
}

// ---------------------------------------------------------------------------------
// Wait

// Report is the detailed outcome of WaitReport.
type Report struct {
	Verdict Verdict
	// Reason says why a hang could not be confirmed (Inconclusive) or summarises it (Hang).
	Reason string
	// Goroutines of interest in the second dump (Hang / Inconclusive).
	Goroutines []Goroutine
}

// Stacks renders the goroutines of the report compactly.
func (r Report) Stacks() string { return Render(r.Goroutines, 24) }

// Wait waits for done. If the budget expires first it decides between Hang and
// Inconclusive as described in the package comment. progress must be cheap and safe to
// call from any goroutine (an atomic counter of items produced+consumed); nil = no
// counter.
func Wait(done <-chan struct{}, progress func() int64, budget time.Duration, opts ...Option) Verdict {
	return WaitReport(done, progress, budget, opts...).Verdict
}

// WaitReport is Wait with the evidence attached.
func WaitReport(done <-chan struct{}, progress func() int64, budget time.Duration, opts ...Option) Report {
	c := mkconfig(opts)
	if progress == nil {
		progress = func() int64 { return 0 }
	}
	t := time.NewTimer(budget)
	select {
	case <-done:
		t.Stop()
		return Report{Verdict: Done}
	case <-t.C:
	}
	p0 := progress()
	s1 := c.select_(parse(dump()))
	g := time.NewTimer(c.gap)
	select {
	case <-done:
		g.Stop()
		return Report{Verdict: Done}
	case <-g.C:
	}
	s2 := c.select_(parse(dump()))
	p1 := progress()
	select {
	case <-done:
		return Report{Verdict: Done}
	default:
	}
	rep := Report{Verdict: Inconclusive, Goroutines: s2}
	if p0 != p1 {
		rep.Reason = fmt.Sprintf("progress counter moved (%d -> %d)", p0, p1)
		return rep
	}
	if len(s2) == 0 {
		rep.Reason = "no goroutine matches the filter"
		return rep
	}
	first := map[int64]Goroutine{}
	for _, x := range s1 {
		first[x.ID] = x
	}
	if len(s1) != len(s2) {
		rep.Reason = fmt.Sprintf("goroutine set changed (%d -> %d)", len(s1), len(s2))
		return rep
	}
	nblocked := 0
	for _, x := range s2 {
		if c.isPoller(x) {
			if _, ok := first[x.ID]; !ok {
				rep.Reason = "goroutine set changed: " + x.String()
				return rep
			}
			continue
		}
		if !x.Blocked() {
			rep.Reason = "not blocked: " + x.String()
			return rep
		}
		y, ok := first[x.ID]
		if !ok {
			rep.Reason = "goroutine set changed: " + x.String()
			return rep
		}
		if x.key() != y.key() {
			rep.Reason = "stack changed: " + y.String() + " => " + x.String()
			return rep
		}
		nblocked++
	}
	if nblocked == 0 {
		rep.Reason = "only polling goroutines left"
		return rep
	}
	rep.Verdict = Hang
	rep.Reason = fmt.Sprintf("%d goroutines parked with identical stacks in two dumps %s apart, progress counter unchanged at %d", nblocked, c.gap, p1)
	return rep
}
