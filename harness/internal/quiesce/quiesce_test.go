package quiesce_test

import (
	"strings"
	"sync"
	"sync/atomic"
	"testing"
	"time"

	"verif/internal/quiesce"
)

// The functions of this file live in package path "verif/internal/quiesce_test", which
// stands in for github.com/bmeg/grip/ (the harness cannot define functions there).
const me = "verif/internal/quiesce_test."

func parkOnChan(c chan int, started *sync.WaitGroup) {
	started.Done()
	<-c
}

func parkOnMutex(m *sync.Mutex, started *sync.WaitGroup) {
	started.Done()
	m.Lock()
	m.Unlock()
}

func spin(stop *atomic.Bool, started *sync.WaitGroup) {
	started.Done()
	for !stop.Load() {
	}
}

func TestDone(t *testing.T) {
	done := make(chan struct{})
	go func() { time.Sleep(5 * time.Millisecond); close(done) }()
	if v := quiesce.Wait(done, nil, 10*time.Second, quiesce.WithFilter(me)); v != quiesce.Done {
		t.Fatalf("want done, got %v", v)
	}
}

func TestHangOnDeadlock(t *testing.T) {
	c := make(chan int)
	m := &sync.Mutex{}
	m.Lock()
	var wg sync.WaitGroup
	wg.Add(2)
	go parkOnChan(c, &wg)
	go parkOnMutex(m, &wg)
	wg.Wait()
	done := make(chan struct{})
	start := time.Now()
	r := quiesce.WaitReport(done, func() int64 { return 7 }, 30*time.Millisecond, quiesce.WithFilter(me))
	if r.Verdict != quiesce.Hang {
		t.Fatalf("want hang, got %v (%s)\n%s", r.Verdict, r.Reason, r.Stacks())
	}
	if time.Since(start) < time.Second {
		t.Fatalf("dumps must be >= 1s apart, verdict after %v", time.Since(start))
	}
	if len(r.Goroutines) != 2 {
		t.Fatalf("want the 2 parked goroutines, got\n%s", r.Stacks())
	}
	s := r.Stacks()
	if !strings.Contains(s, "parkOnChan") || !strings.Contains(s, "parkOnMutex") || !strings.Contains(s, "[chan receive]") {
		t.Fatalf("unexpected rendering:\n%s", s)
	}
	// the default filter (bmeg/grip) sees none of them
	if gs := quiesce.GripGoroutines(); len(gs) != 0 {
		t.Fatalf("default filter matched harness goroutines: %v", gs)
	}
	if v := quiesce.Wait(done, nil, time.Millisecond); v != quiesce.Inconclusive {
		t.Fatalf("no matching goroutine must be inconclusive, got %v", v)
	}
	// release: leak check sees them go away
	base := []string{}
	close(c)
	m.Unlock()
	if left, _ := quiesce.Leaks(base, 5*time.Second, quiesce.WithFilter(me)); len(left) != 0 {
		t.Fatalf("goroutines not released:\n%s", quiesce.Render(left, 0))
	}
}

func TestRunnableIsInconclusive(t *testing.T) {
	var stop atomic.Bool
	c := make(chan int)
	var wg sync.WaitGroup
	wg.Add(2)
	go spin(&stop, &wg)
	go parkOnChan(c, &wg)
	wg.Wait()
	defer func() { stop.Store(true); close(c) }()
	done := make(chan struct{})
	r := quiesce.WaitReport(done, nil, 10*time.Millisecond, quiesce.WithFilter(me))
	if r.Verdict != quiesce.Inconclusive || !strings.Contains(r.Reason, "not blocked") {
		t.Fatalf("want inconclusive/not blocked, got %v (%s)", r.Verdict, r.Reason)
	}
	// declared as a poller, the spinner is tolerated
	r = quiesce.WaitReport(done, nil, 10*time.Millisecond, quiesce.WithFilter(me), quiesce.WithPollers(me+"spin"))
	if r.Verdict != quiesce.Hang {
		t.Fatalf("want hang with poller declared, got %v (%s)", r.Verdict, r.Reason)
	}
}

func TestProgressIsInconclusive(t *testing.T) {
	c := make(chan int)
	var wg sync.WaitGroup
	wg.Add(1)
	go parkOnChan(c, &wg)
	wg.Wait()
	defer close(c)
	var n atomic.Int64
	r := quiesce.WaitReport(make(chan struct{}), func() int64 { return n.Add(1) }, 10*time.Millisecond, quiesce.WithFilter(me))
	if r.Verdict != quiesce.Inconclusive || !strings.Contains(r.Reason, "progress") {
		t.Fatalf("want inconclusive/progress, got %v (%s)", r.Verdict, r.Reason)
	}
}

func TestLeaks(t *testing.T) {
	base := quiesce.GripGoroutines(quiesce.WithFilter(me))
	c := make(chan int)
	var wg sync.WaitGroup
	wg.Add(1)
	go parkOnChan(c, &wg)
	wg.Wait()
	left, blocked := quiesce.Leaks(base, 20*time.Millisecond, quiesce.WithFilter(me))
	if len(left) != 1 || !blocked || !strings.Contains(left[0].String(), "parkOnChan") {
		t.Fatalf("want one blocked leak, got %v blocked=%v", left, blocked)
	}
	close(c)
	if left, _ := quiesce.Leaks(base, 5*time.Second, quiesce.WithFilter(me)); left != nil {
		t.Fatalf("still there: %v", left)
	}
}

func TestDoneDuringDumps(t *testing.T) {
	done := make(chan struct{})
	go func() { time.Sleep(300 * time.Millisecond); close(done) }()
	if v := quiesce.Wait(done, nil, 10*time.Millisecond, quiesce.WithFilter(me)); v != quiesce.Done {
		t.Fatalf("want done, got %v", v)
	}
}
