// Package gripx wraps the parts of bmeg/grip the checks drive: opening embedded
// stores, loading an abstract graph, compiling and running a traversal with a hang
// detector, and canonicalising result rows.
package gripx

import (
	"context"
	"encoding/json"
	"fmt"
	"os"
	"path/filepath"
	"sort"
	"sync"
	"sync/atomic"
	"time"

	"github.com/bmeg/grip/engine/pipeline"
	"github.com/bmeg/grip/gdbi"
	"github.com/bmeg/grip/gripql"
	"github.com/bmeg/grip/kvgraph"
	_ "github.com/bmeg/grip/kvi/badgerdb"
	_ "github.com/bmeg/grip/kvi/boltdb"
	_ "github.com/bmeg/grip/kvi/leveldb"
	_ "github.com/bmeg/grip/kvi/pebbledb"
	"google.golang.org/protobuf/encoding/protojson"
	"google.golang.org/protobuf/types/known/structpb"
	"verif/internal/model"
	"verif/internal/pbt"
)

var (
	dbMu    sync.Mutex
	dbs     = map[string]gdbi.GraphDB{}
	dbDirs  = map[string]string{}
	workDir string
	nameSeq int64
)

// DB returns the process-wide kvgraph database on the named embedded driver
// ("badger", "bolt", "level", "pebble"), created under the run's scratch directory.
func DB(driver string) gdbi.GraphDB {
	dbMu.Lock()
	defer dbMu.Unlock()
	if db, ok := dbs[driver]; ok {
		return db
	}
	dir := pbt.ScratchDir("db-" + driver + "-")
	path := dir
	if driver == "bolt" {
		path = filepath.Join(dir, "bolt.db")
	}
	db, err := kvgraph.NewKVGraphDB(driver, path)
	if err != nil {
		panic(fmt.Sprintf("INFRA: cannot open %s store: %v", driver, err))
	}
	dbs[driver] = db
	dbDirs[driver] = dir
	return db
}

// Recycle closes the process-wide store of a driver and removes its directory; the
// next DB(driver) call opens a fresh one. Long campaigns call it every few hundred
// cases so that scans do not slow down on accumulated garbage.
func Recycle(driver string) {
	dbMu.Lock()
	defer dbMu.Unlock()
	if db, ok := dbs[driver]; ok {
		db.Close()
		delete(dbs, driver)
	}
	if d, ok := dbDirs[driver]; ok {
		os.RemoveAll(d)
		delete(dbDirs, driver)
	}
}

// WorkDir is the directory handed to pipeline.Run for temporary stores.
func WorkDir() string {
	dbMu.Lock()
	defer dbMu.Unlock()
	if workDir == "" {
		workDir = pbt.ScratchDir("work-")
	}
	return workDir
}

// FreshName returns a graph name not used before in this process.
func FreshName() string {
	return fmt.Sprintf("g%07d", atomic.AddInt64(&nameSeq, 1))
}

func ToGdbi(el *model.Element) *gdbi.DataElement {
	return &gdbi.DataElement{ID: el.ID, Label: el.Label, From: el.From, To: el.To, Data: model.CopyMap(el.Data), Loaded: true}
}

// Load creates graph `name` and stores the abstract graph in it (unique ids, so no
// replace semantics are involved).
func Load(db gdbi.GraphDB, name string, g *model.Graph) (gdbi.GraphInterface, error) {
	if err := db.AddGraph(name); err != nil {
		return nil, err
	}
	gi, err := db.Graph(name)
	if err != nil {
		return nil, err
	}
	if len(g.V) > 0 {
		vs := make([]*gdbi.Vertex, len(g.V))
		for i, v := range g.V {
			vs[i] = ToGdbi(v)
		}
		if err := gi.AddVertex(vs); err != nil {
			return nil, err
		}
	}
	if len(g.E) > 0 {
		es := make([]*gdbi.Edge, len(g.E))
		for i, e := range g.E {
			es[i] = ToGdbi(e)
		}
		if err := gi.AddEdge(es); err != nil {
			return nil, err
		}
	}
	return gi, nil
}

// Arrival describes how a graph got into the store: besides the final elements, earlier
// versions of some of them (same id, other label, data or endpoints) that were overwritten
// and elements that were written and deleted again. By C03 the stored graph is the final
// graph whatever the arrival; queries are judged against the final graph alone, so a
// write path that leaves stale index entries or records behind shows up as a wrong answer.
type Arrival struct {
	Bulk  bool             `json:"bulk,omitempty"`  // one BulkAdd stream instead of AddVertex/AddEdge calls
	Old   []*model.Element `json:"old,omitempty"`   // earlier versions, written first
	Gone  []*model.Element `json:"gone,omitempty"`  // written, then deleted (ids outside the graph and never an endpoint of it)
	Twice bool             `json:"twice,omitempty"` // the final elements are written twice
}

// LoadVia creates the graph and brings g into it along the given arrival (nil = plain load).
func LoadVia(db gdbi.GraphDB, name string, g *model.Graph, a *Arrival) (gdbi.GraphInterface, error) {
	if a == nil {
		return Load(db, name, g)
	}
	if err := db.AddGraph(name); err != nil {
		return nil, err
	}
	gi, err := db.Graph(name)
	if err != nil {
		return nil, err
	}
	var seq []*model.Element
	seq = append(seq, a.Old...)
	seq = append(seq, a.Gone...)
	seq = append(seq, g.V...)
	seq = append(seq, g.E...)
	if a.Twice {
		seq = append(seq, g.V...)
		seq = append(seq, g.E...)
	}
	if a.Bulk {
		ch := make(chan *gdbi.GraphElement, len(seq))
		for _, e := range seq {
			if e.Edge {
				ch <- &gdbi.GraphElement{Graph: name, Edge: ToGdbi(e)}
			} else {
				ch <- &gdbi.GraphElement{Graph: name, Vertex: ToGdbi(e)}
			}
		}
		close(ch)
		if err := gi.BulkAdd(ch); err != nil {
			return nil, err
		}
	} else {
		for _, e := range seq {
			var err error
			if e.Edge {
				err = gi.AddEdge([]*gdbi.Edge{ToGdbi(e)})
			} else {
				err = gi.AddVertex([]*gdbi.Vertex{ToGdbi(e)})
			}
			if err != nil {
				return nil, err
			}
		}
	}
	for _, e := range a.Gone {
		var err error
		if e.Edge {
			err = gi.DelEdge(e.ID)
		} else {
			err = gi.DelVertex(e.ID)
		}
		if err != nil {
			return nil, err
		}
	}
	return gi, nil
}

// Canon turns any JSON-marshalable value into canonical JSON text.
func canonJSON(b []byte) string {
	var v interface{}
	if err := json.Unmarshal(b, &v); err != nil {
		return string(b)
	}
	return model.Canon(v)
}

// RowCanon renders one result row canonically (protojson, keys sorted).
func RowCanon(r *gripql.QueryResult) string {
	if r == nil {
		return "null-row"
	}
	b, err := protojson.MarshalOptions{EmitUnpopulated: false}.Marshal(r)
	if err != nil {
		return "unmarshalable:" + err.Error()
	}
	return canonJSON(b)
}

// Outcome of running a traversal.
type Outcome struct {
	CompileErr error
	Rows       []string // canonical, sorted
	Raw        []*gripql.QueryResult
	Hang       bool // the stream did not close within the budget (see RunBudget)
}

// RunBudget bounds the wait for a result stream to close. It is not an oracle: a
// case that exceeds it is reported as Hang and must be confirmed by the caller
// (quiescence) or counted inconclusive.
var RunBudget = 60 * time.Second

// Run compiles the statements with the graph's production compiler and drains the
// result stream.
func Run(gi gdbi.GraphInterface, stmts []*gripql.GraphStatement) Outcome {
	pipe, err := gi.Compiler().Compile(stmts, nil)
	if err != nil {
		return Outcome{CompileErr: err}
	}
	return RunPipe(pipe)
}

// RunPipe runs a compiled pipeline.
func RunPipe(pipe gdbi.Pipeline) Outcome {
	ctx, cancel := context.WithCancel(context.Background())
	defer cancel()
	ch := pipeline.Run(ctx, pipe, WorkDir())
	var out Outcome
	timer := time.NewTimer(RunBudget)
	defer timer.Stop()
	for {
		select {
		case r, ok := <-ch:
			if !ok {
				sort.Strings(out.Rows)
				return out
			}
			out.Raw = append(out.Raw, r)
			out.Rows = append(out.Rows, RowCanon(r))
		case <-timer.C:
			out.Hang = true
			sort.Strings(out.Rows)
			return out
		}
	}
}

// Cleanup closes stores (best effort; the driver removes the scratch directory).
func Cleanup() {
	dbMu.Lock()
	defer dbMu.Unlock()
	for _, db := range dbs {
		db.Close()
	}
	dbs = map[string]gdbi.GraphDB{}
	if workDir != "" {
		os.RemoveAll(workDir)
	}
}

func mustStruct(m map[string]interface{}) *structpb.Struct {
	s, err := structpb.NewStruct(model.CopyMap(m))
	if err != nil {
		panic(err)
	}
	return s
}

func toVertex(el *model.Element) *gripql.Vertex {
	return &gripql.Vertex{Gid: el.ID, Label: el.Label, Data: mustStruct(el.Data)}
}

func toEdge(el *model.Element) *gripql.Edge {
	return &gripql.Edge{Gid: el.ID, Label: el.Label, From: el.From, To: el.To, Data: mustStruct(el.Data)}
}

// ExpectedRow builds the wire row the reference traveler stands for.
func ExpectedRow(t *model.Trav, ty model.Type) *gripql.QueryResult {
	switch ty {
	case model.TVertex:
		return &gripql.QueryResult{Result: &gripql.QueryResult_Vertex{Vertex: toVertex(t.Cur)}}
	case model.TEdge:
		return &gripql.QueryResult{Result: &gripql.QueryResult_Edge{Edge: toEdge(t.Cur)}}
	case model.TCount:
		return &gripql.QueryResult{Result: &gripql.QueryResult_Count{Count: uint32(t.Count)}}
	case model.TRender:
		v, err := structpb.NewValue(t.Render)
		if err != nil {
			panic(err)
		}
		return &gripql.QueryResult{Result: &gripql.QueryResult_Render{Render: v}}
	case model.TPath:
		l := make([]interface{}, len(t.Path))
		for i, p := range t.Path {
			m := map[string]interface{}{}
			if p.Vertex != "" {
				m["vertex"] = p.Vertex
			} else if p.Edge != "" {
				m["edge"] = p.Edge
			}
			l[i] = m
		}
		lv, err := structpb.NewList(l)
		if err != nil {
			panic(err)
		}
		return &gripql.QueryResult{Result: &gripql.QueryResult_Path{Path: lv}}
	case model.TSelection:
		sel := map[string]*gripql.Selection{}
		for k, el := range t.Sel {
			if el.Edge {
				sel[k] = &gripql.Selection{Result: &gripql.Selection_Edge{Edge: toEdge(el)}}
			} else {
				sel[k] = &gripql.Selection{Result: &gripql.Selection_Vertex{Vertex: toVertex(el)}}
			}
		}
		return &gripql.QueryResult{Result: &gripql.QueryResult_Selections{Selections: &gripql.Selections{Selections: sel}}}
	}
	panic("gripx: no row form for type " + ty.String())
}

// ExpectedRows renders the reference result canonically (sorted).
func ExpectedRows(travs []*model.Trav, ty model.Type) []string {
	out := make([]string, len(travs))
	for i, t := range travs {
		out[i] = RowCanon(ExpectedRow(t, ty))
	}
	sort.Strings(out)
	return out
}

// DiffMultiset describes the difference between two sorted multisets of rows ("" if equal).
func DiffMultiset(got, want []string) string {
	cnt := map[string]int{}
	for _, r := range want {
		cnt[r]++
	}
	for _, r := range got {
		cnt[r]--
	}
	var missing, extra []string
	for r, n := range cnt {
		for ; n > 0; n-- {
			missing = append(missing, r)
		}
		for ; n < 0; n++ {
			extra = append(extra, r)
		}
	}
	if len(missing) == 0 && len(extra) == 0 {
		return ""
	}
	sort.Strings(missing)
	sort.Strings(extra)
	clip := func(a []string) []string {
		if len(a) > 4 {
			return append(a[:4:4], fmt.Sprintf("… (%d more)", len(a)-4))
		}
		return a
	}
	return fmt.Sprintf("got %d rows, want %d; missing=%v extra=%v", len(got), len(want), clip(missing), clip(extra))
}

// SubMultiset reports whether every row of sub occurs in super at least as often.
func SubMultiset(sub, super []string) bool {
	cnt := map[string]int{}
	for _, r := range super {
		cnt[r]++
	}
	for _, r := range sub {
		cnt[r]--
		if cnt[r] < 0 {
			return false
		}
	}
	return true
}
