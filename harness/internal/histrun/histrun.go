// Package histrun executes a mutation history (internal/hist) against a gdbi.GraphDB
// step by step, comparing after EVERY step the complete observation of every graph
// (internal/obs) with the abstract model, plus return values and the timestamp rule.
// Shared by C03 (Badger), C04 (restart positions) and C10(b) (every driver).
package histrun

import (
	"fmt"
	"strings"

	"github.com/bmeg/grip/gdbi"
	"verif/internal/hist"
	"verif/internal/obs"
	"verif/internal/pbt"
)

// Universe probed after every step.
var Universe = obs.Universe{VertexIDs: append(append([]string{}, hist.VIDs...), "ghost"), EdgeIDs: hist.EIDs,
	VLabels: []string{"A", "AB", "B", "C"}, ELabels: []string{"x", "xy", "y", "z"}, Traversals: true}

// Env provides the store. Reopen (may be nil) closes and reopens it and returns the new
// handle; it is called for ops of kind "reopen".
type Env struct {
	DB     gdbi.GraphDB
	Reopen func() (gdbi.GraphDB, error)
	// SigPrefix is prepended to every discrepancy signature (e.g. "pebble:").
	SigPrefix string
}

// Result says what the history exercised.
type Result struct {
	SawEdge, SawShape   bool
	Reopens             int
	WritesAfterReopen   int
	NewLabelAfterReopen bool // a vertex with a label first used after a reopen was added
	Stopped             bool // judging stopped at a known finding / divergence
	Steps               int
}

func method(line string) string {
	if strings.HasPrefix(line, "V()") || strings.HasPrefix(line, "E()") {
		if i := strings.Index(line[3:], "("); i > 0 {
			return line[:3+i]
		}
	}
	return obs.Method(line)
}

// Text renders a history.
func Text(ops []hist.Op) string {
	parts := make([]string, len(ops))
	for i, o := range ops {
		parts[i] = o.String()
	}
	return strings.Join(parts, "; ")
}

// Run applies the history; c is the replayable case value handed to pbt.Discrepancy.
func Run(t pbt.TB, c interface{}, ops []hist.Op, env *Env) (res Result) {
	db := env.DB
	world := hist.World{}
	names := hist.Names{}
	disc := func(sig, format string, args ...interface{}) bool {
		return pbt.Discrepancy(t, c, env.SigPrefix+sig, format, args...)
	}
	labelsSeen := map[string]bool{}
	afterReopen := false
	for step, op := range ops {
		res.Steps = step + 1
		where := fmt.Sprintf("step %d %s", step, op)
		if op.Kind == "reopen" {
			if env.Reopen == nil {
				continue
			}
			ndb, err := env.Reopen()
			if err != nil {
				t.Fatalf("INFRA: reopen failed: %v", err)
			}
			db = ndb
			env.DB = ndb
			res.Reopens++
			afterReopen = true
			pbt.Class(t, "op:reopen")
			// everything must be exactly as before the restart
			if !observeAll(t, db, world, names, where, "reopen", disc) {
				res.Stopped = true
				return
			}
			continue
		}
		// timestamps of existing graphs before the call
		tsBefore := map[string]string{}
		for ln := range world {
			if gi, err := db.Graph(names.Real(ln)); err == nil {
				tsBefore[ln] = gi.GetTimestamp()
			}
		}
		stateBefore := map[string]string{}
		for ln, g := range world {
			stateBefore[ln] = hist.StateText(g)
		}
		ex := world.Apply(op)
		pbt.Class(t, "op:"+ex.Class)
		if strings.Contains(ex.Class, "relabel") || strings.Contains(ex.Class, "reattach") || strings.Contains(ex.Class, "newdata") ||
			ex.Class == "delVertex" || ex.Class == "delVertex-with-edges" || ex.Class == "delEdge" {
			res.SawShape = true
		}
		for _, g := range world {
			if len(g.E) > 0 {
				res.SawEdge = true
			}
		}
		if afterReopen && !ex.MustFail {
			res.WritesAfterReopen++
			for _, e := range op.Elems {
				if !e.Edge && !labelsSeen[op.Graph+"/"+e.Label] {
					res.NewLabelAfterReopen = true
				}
			}
		}
		if !ex.MustFail {
			for _, e := range op.Elems {
				if !e.Edge {
					labelsSeen[op.Graph+"/"+e.Label] = true
				}
			}
		}
		err, panicked := hist.ApplyReal(db, names, op)
		if panicked {
			disc("panic:"+ex.Class, "%s panicked: %v", where, err)
			res.Stopped = true
			return
		}
		if ex.MustFail && err == nil {
			if !disc("accepted:"+ex.Class, "%s must be rejected with an error but returned nil", where) {
				res.Stopped = true
				return
			}
		}
		if !ex.MustFail && err != nil && !strings.HasSuffix(ex.Class, "-absent") {
			if !disc("rejected:"+ex.Class, "%s returned an error: %v", where, err) {
				res.Stopped = true
				return
			}
		}
		if !observeAll(t, db, world, names, where, ex.Class, disc) {
			res.Stopped = true
			return
		}
		// timestamp rule for the call itself
		for ln, g := range world {
			before, had := tsBefore[ln]
			if !had {
				continue
			}
			gi, gerr := db.Graph(names.Real(ln))
			if gerr != nil {
				continue
			}
			tsA := gi.GetTimestamp()
			changed := stateBefore[ln] != hist.StateText(g)
			addressed := ln == op.Graph
			switch {
			case addressed && err == nil && changed && tsA == before:
				if !disc("timestamp:unchanged-after-"+op.Kind, "%s: graph %s changed but its timestamp did not (%s)", where, ln, tsA) {
					res.Stopped = true
					return
				}
			case !addressed && tsA != before:
				if !disc("timestamp:other-graph-touched-by-"+op.Kind, "%s: timestamp of unrelated graph %s changed (%s -> %s)", where, ln, before, tsA) {
					res.Stopped = true
					return
				}
			}
		}
	}
	return res
}

// observeAll compares every graph with the model; false = stop judging this history.
func observeAll(t pbt.TB, db gdbi.GraphDB, world hist.World, names hist.Names, where, class string, disc func(sig, format string, args ...interface{}) bool) bool {
	listed := map[string]bool{}
	for _, n := range db.ListGraphs() {
		listed[n] = true
	}
	for _, ln := range hist.Graphs {
		real := names.Real(ln)
		g, exists := world[ln]
		if exists != listed[real] {
			disc("ListGraphs:after-"+class, "%s: graph %s listed=%v but model says exists=%v", where, ln, listed[real], exists)
			return false
		}
		gi, gerr := db.Graph(real)
		if exists != (gerr == nil) {
			disc("Graph():after-"+class, "%s: Graph(%s) error=%v but model says exists=%v", where, ln, gerr, exists)
			return false
		}
		if !exists {
			continue
		}
		tsA := gi.GetTimestamp()
		got := obs.OfGraph(gi, Universe)
		want := obs.OfModel(g, Universe)
		if d := obs.Diff(got, want); len(d) > 0 {
			more := ""
			if len(d) > 1 {
				more = fmt.Sprintf(" (+%d more differences)", len(d)-1)
			}
			disc(method(d[0])+":after-"+class, "%s: graph %s: %s%s", where, ln, d[0], more)
			return false // state diverged; stop judging this history
		}
		if tsB := gi.GetTimestamp(); tsA != tsB {
			if !disc("timestamp:changed-by-reads", "%s: graph %s: timestamp changed across pure reads (%s -> %s)", where, ln, tsA, tsB) {
				return false
			}
		}
	}
	return true
}
