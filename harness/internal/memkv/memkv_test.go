package memkv

import (
	"bytes"
	"errors"
	"fmt"
	"sort"
	"sync"
	"testing"

	"github.com/bmeg/grip/kvi"
	"pgregory.net/rapid"
)

func b(s string) []byte { return []byte(s) }

func dumpStr(s *Store) string {
	out := ""
	for _, p := range s.Dump() {
		out += fmt.Sprintf("%q=%q;", p.Key, p.Value)
	}
	return out
}

func TestPointOps(t *testing.T) {
	s := New()
	if s.HasKey(b("a")) {
		t.Fatal("empty store has a")
	}
	if _, err := s.Get(b("a")); !errors.Is(err, ErrNotFound) {
		t.Fatalf("Get missing: %v", err)
	}
	in := b("v")
	s.Set(b("a"), in)
	in[0] = 'X' // the store must have copied
	s.Set(b("e"), nil)
	if v, err := s.Get(b("a")); err != nil || string(v) != "v" {
		t.Fatalf("Get a = %q %v", v, err)
	}
	if v, err := s.Get(b("e")); err != nil || len(v) != 0 || !s.HasKey(b("e")) {
		t.Fatalf("empty value must be present: %q %v", v, err)
	}
	v, _ := s.Get(b("a"))
	v[0] = 'Y' // the caller's copy
	if v2, _ := s.Get(b("a")); string(v2) != "v" {
		t.Fatalf("Get returned shared memory: %q", v2)
	}
	s.Delete(b("zz")) // absent: no error, no change
	s.Delete(b("a"))
	if dumpStr(s) != `"e"="";` {
		t.Fatal(dumpStr(s))
	}
}

func TestDeletePrefix(t *testing.T) {
	s := New()
	for _, k := range []string{"a", "ab", "ab\xff", "ac", "b", "\x00"} {
		s.Set(b(k), b("1"))
	}
	s.DeletePrefix(b("ab"))
	if got := dumpStr(s); got != `"\x00"="1";"a"="1";"ac"="1";"b"="1";` {
		t.Fatal(got)
	}
	s.DeletePrefix(b("x"))
	if s.Len() != 4 {
		t.Fatal("prefix without match changed the store")
	}
	s.DeletePrefix(nil)
	if s.Len() != 0 {
		t.Fatal("empty prefix must match everything")
	}
}

func walk(it kvi.KVIterator) string {
	out := ""
	for ; it.Valid(); it.Next() {
		v, _ := it.Value()
		out += fmt.Sprintf("%s=%s,", it.Key(), v)
	}
	return out
}

func TestIterator(t *testing.T) {
	s := New()
	for _, k := range []string{"b", "d", "f"} {
		s.Set(b(k), b("v"+k))
	}
	s.View(func(it kvi.KVIterator) error {
		if it.Valid() || it.Key() != nil {
			t.Error("fresh iterator is valid")
		}
		if err := it.Next(); err == nil || it.Valid() {
			t.Error("Next on an unpositioned iterator")
		}
		cases := []struct {
			rev  bool
			k    string
			want string
		}{
			{false, "a", "b=vb,d=vd,f=vf,"}, {false, "b", "b=vb,d=vd,f=vf,"}, {false, "c", "d=vd,f=vf,"},
			{false, "f", "f=vf,"}, {false, "g", ""},
			{true, "g", "f=vf,d=vd,b=vb,"}, {true, "f", "f=vf,d=vd,b=vb,"}, {true, "e", "d=vd,b=vb,"},
			{true, "b", "b=vb,"}, {true, "a", ""},
		}
		for _, c := range cases {
			var err error
			if c.rev {
				err = it.SeekReverse(b(c.k))
			} else {
				err = it.Seek(b(c.k))
			}
			if (err == nil) != it.Valid() {
				t.Errorf("seek(%v,%q): err=%v valid=%v", c.rev, c.k, err, it.Valid())
			}
			if got := walk(it); got != c.want {
				t.Errorf("seek(%v,%q): %q want %q", c.rev, c.k, got, c.want)
			}
			if it.Valid() || it.Key() != nil {
				t.Error("walked off the end but still valid")
			}
			if _, err := it.Value(); err == nil {
				t.Error("Value of an invalid iterator")
			}
		}
		if v, err := it.Get(b("d")); err != nil || string(v) != "vd" {
			t.Errorf("it.Get: %q %v", v, err)
		}
		if _, err := it.Get(b("c")); err == nil {
			t.Error("it.Get of a missing key")
		}
		return nil
	})
}

func TestViewIsSnapshot(t *testing.T) {
	s := New()
	s.Set(b("a"), b("1"))
	s.View(func(it kvi.KVIterator) error {
		s.Set(b("b"), b("2")) // a write during a View is allowed and invisible to it
		it.Seek(b("a"))
		if got := walk(it); got != "a=1," {
			t.Errorf("view saw a later write: %q", got)
		}
		return nil
	})
	if s.Len() != 2 {
		t.Fatal("write during view lost")
	}
}

func TestTransaction(t *testing.T) {
	s := New()
	s.Set(b("a"), b("1"))
	s.Set(b("c"), b("3"))
	err := s.Update(func(tx kvi.KVTransaction) error {
		tx.Set(b("b"), b("2"))
		tx.Delete(b("c"))
		if !tx.HasKey(b("b")) || tx.HasKey(b("c")) {
			t.Error("transaction does not see its own writes")
		}
		if v, err := tx.Get(b("b")); err != nil || string(v) != "2" {
			t.Errorf("tx.Get: %q %v", v, err)
		}
		tx.View(func(it kvi.KVIterator) error {
			it.Seek(b("a"))
			tx.Set(b("zz"), b("9")) // not visible to the running view
			if got := walk(it); got != "a=1,b=2," {
				t.Errorf("tx view: %q", got)
			}
			return nil
		})
		// the committed state is unchanged until the closure returns (top-level reads
		// from inside the closure are allowed)
		if s.HasKey(b("b")) || !s.HasKey(b("c")) {
			t.Error("uncommitted writes visible outside the transaction")
		}
		return nil
	})
	if err != nil || dumpStr(s) != `"a"="1";"b"="2";"zz"="9";` {
		t.Fatal(err, dumpStr(s))
	}
	boom := errors.New("boom")
	err = s.Update(func(tx kvi.KVTransaction) error {
		tx.Set(b("q"), b("q"))
		tx.Delete(b("a"))
		return boom
	})
	if err != boom || dumpStr(s) != `"a"="1";"b"="2";"zz"="9";` {
		t.Fatal("failed transaction changed the store", err, dumpStr(s))
	}
	func() {
		defer func() { recover() }()
		s.Update(func(tx kvi.KVTransaction) error { tx.Delete(b("a")); panic("x") })
	}()
	if !s.HasKey(b("a")) {
		t.Fatal("panicking transaction changed the store")
	}
	if err := s.Set(b("after"), nil); err != nil { // writer lock released after the panic
		t.Fatal(err)
	}
}

func TestBulkWrite(t *testing.T) {
	s := New()
	s.Set(b("a"), b("0"))
	s.BulkWrite(func(bl kvi.KVBulkWrite) error {
		bl.Set(b("a"), b("1"))
		bl.Set(b("b"), b(""))
		bl.Set(b("a"), b("2"))
		if v, _ := s.Get(b("a")); string(v) != "0" {
			t.Error("batch applied early")
		}
		return nil
	})
	if dumpStr(s) != `"a"="2";"b"="";` {
		t.Fatal(dumpStr(s))
	}
	s.BulkWrite(func(bl kvi.KVBulkWrite) error { bl.Set(b("c"), nil); return errors.New("no") })
	if s.HasKey(b("c")) {
		t.Fatal("failed batch applied")
	}
}

func TestCloneDumpClose(t *testing.T) {
	s := New()
	s.Set(b("b"), b("2"))
	s.Set(b("a"), b("1"))
	c := s.Clone()
	c.Set(b("a"), b("x"))
	c.Delete(b("b"))
	if dumpStr(s) != `"a"="1";"b"="2";` || dumpStr(c) != `"a"="x";` {
		t.Fatal(dumpStr(s), dumpStr(c))
	}
	d := s.Dump()
	d[0].Value[0] = 'Z'
	d[0].Key[0] = 'Z'
	if dumpStr(s) != `"a"="1";"b"="2";` {
		t.Fatal("Dump shares memory with the store")
	}
	s.Close()
	if err := s.Set(b("a"), nil); err != ErrClosed {
		t.Fatal("write after close:", err)
	}
	if _, err := s.Get(b("a")); err != ErrClosed {
		t.Fatal("read after close:", err)
	}
	if s.Clone().Set(b("q"), nil) != nil {
		t.Fatal("clone of a closed store must be open")
	}
}

// naive is an independent, deliberately dumb ordered map.
type naive map[string]string

func (n naive) keys() []string {
	ks := make([]string, 0, len(n))
	for k := range n {
		ks = append(ks, k)
	}
	sort.Strings(ks)
	return ks
}

func TestAgainstNaive(t *testing.T) {
	alpha := []byte{0, 'a', 'b', 0xff}
	key := rapid.SliceOfN(rapid.SampledFrom(alpha), 0, 3)
	rapid.Check(t, func(rt *rapid.T) {
		s := New()
		n := naive{}
		steps := rapid.IntRange(1, 30).Draw(rt, "steps")
		for i := 0; i < steps; i++ {
			k := key.Draw(rt, "k")
			switch rapid.IntRange(0, 5).Draw(rt, "op") {
			case 0, 1:
				v := key.Draw(rt, "v")
				s.Set(k, v)
				n[string(k)] = string(v)
			case 2:
				s.Delete(k)
				delete(n, string(k))
			case 3:
				s.DeletePrefix(k)
				for _, x := range n.keys() {
					if bytes.HasPrefix([]byte(x), k) {
						delete(n, x)
					}
				}
			case 4:
				s.Update(func(tx kvi.KVTransaction) error {
					v := key.Draw(rt, "v")
					tx.Set(k, v)
					n[string(k)] = string(v)
					k2 := key.Draw(rt, "k2")
					tx.Delete(k2)
					delete(n, string(k2))
					return nil
				})
			case 5:
				s.BulkWrite(func(bl kvi.KVBulkWrite) error {
					for j := 0; j < 3; j++ {
						k, v := key.Draw(rt, "k"), key.Draw(rt, "v")
						bl.Set(k, v)
						n[string(k)] = string(v)
					}
					return nil
				})
			}
			ks := n.keys()
			p := key.Draw(rt, "probe")
			s.View(func(it kvi.KVIterator) error {
				// forward from p
				var want, got []string
				for _, x := range ks {
					if x >= string(p) {
						want = append(want, x+"="+n[x])
					}
				}
				for it.Seek(p); it.Valid(); it.Next() {
					v, _ := it.Value()
					got = append(got, string(it.Key())+"="+string(v))
				}
				if fmt.Sprint(got) != fmt.Sprint(want) {
					rt.Fatalf("Seek(%q): %q want %q", p, got, want)
				}
				want, got = nil, nil
				for j := len(ks) - 1; j >= 0; j-- {
					if ks[j] <= string(p) {
						want = append(want, ks[j]+"="+n[ks[j]])
					}
				}
				for it.SeekReverse(p); it.Valid(); it.Next() {
					v, _ := it.Value()
					got = append(got, string(it.Key())+"="+string(v))
				}
				if fmt.Sprint(got) != fmt.Sprint(want) {
					rt.Fatalf("SeekReverse(%q): %q want %q", p, got, want)
				}
				return nil
			})
			_, inN := n[string(p)]
			v, err := s.Get(p)
			if s.HasKey(p) != inN || (err == nil) != inN || (inN && string(v) != n[string(p)]) {
				rt.Fatalf("point read %q: has=%v get=%q,%v want present=%v %q", p, s.HasKey(p), v, err, inN, n[string(p)])
			}
		}
	})
}

func TestFaulty(t *testing.T) {
	s := New()
	f := NewFaulty(s)
	f.Set(b("a"), b("1"))
	f.Update(func(tx kvi.KVTransaction) error {
		tx.Set(b("b"), b("2"))
		tx.Delete(b("a"))
		if !tx.HasKey(b("b")) {
			t.Error("wrapped transaction lost its reads")
		}
		return nil
	})
	f.BulkWrite(func(bl kvi.KVBulkWrite) error { bl.Set(b("c"), b("3")); bl.Set(b("d"), b("4")); return nil })
	f.Delete(b("d"))
	f.DeletePrefix(b("zz"))
	ws := f.Writes()
	kinds := ""
	for _, w := range ws {
		kinds += fmt.Sprintf("%s/%d ", w.Kind, len(w.Ops))
	}
	if kinds != "set/0 update/2 bulk/2 delete/0 deleteprefix/0 " || f.NWrites() != 5 {
		t.Fatal(kinds)
	}
	if string(ws[1].Ops[0].Key) != "b" || ws[1].Ops[1].Kind != "delete" || string(ws[2].Ops[1].Value) != "4" {
		t.Fatalf("%+v", ws)
	}
	before := dumpStr(s)

	// crash before the 2nd write from now: the first passes, the second and all later
	// ones are refused and leave the store untouched; reads keep working
	f.CrashBefore(2)
	if Catch(func() { f.Set(b("x"), b("1")) }) {
		t.Fatal("first write after arming refused")
	}
	afterFirst := dumpStr(s)
	ran := false
	if !Catch(func() {
		f.Update(func(tx kvi.KVTransaction) error { ran = true; tx.Set(b("y"), nil); return nil })
	}) {
		t.Fatal("second write not refused")
	}
	if ran {
		t.Fatal("refused transaction ran its closure")
	}
	for i, w := range []func(){
		func() { f.Set(b("y"), nil) }, func() { f.Delete(b("x")) }, func() { f.DeletePrefix(b("")) },
		func() { f.BulkWrite(func(bl kvi.KVBulkWrite) error { ran = true; return bl.Set(b("y"), nil) }) },
	} {
		if !Catch(w) {
			t.Fatalf("write %d after the crash point passed", i)
		}
	}
	if ran || dumpStr(s) != afterFirst || afterFirst == before {
		t.Fatal("store changed after the crash point", dumpStr(s))
	}
	if !f.Crashed() || f.Refused() != 5 || f.NWrites() != 6 {
		t.Fatal(f.Crashed(), f.Refused(), f.NWrites())
	}
	if !f.HasKey(b("x")) {
		t.Fatal("reads must pass after a crash")
	}
	f.View(func(it kvi.KVIterator) error { it.Seek(b("x")); return nil })
	f.Disarm()
	if f.Crashed() || Catch(func() { f.Set(b("y"), nil) }) || !s.HasKey(b("y")) {
		t.Fatal("disarm")
	}
	// crash before the very next write
	f.CrashBefore(1)
	if !Catch(func() { f.Set(b("never"), nil) }) || s.HasKey(b("never")) {
		t.Fatal("CrashBefore(1)")
	}
	// a foreign panic is not swallowed
	func() {
		defer func() {
			if r := recover(); r != "other" {
				t.Fatalf("Catch swallowed %v", r)
			}
		}()
		Catch(func() { panic("other") })
	}()
	f.ResetLog()
	if f.NWrites() != 0 {
		t.Fatal("ResetLog")
	}
}

// every crash point of one multi-write call, each explored from a clone of the same
// pre-state (the intended use)
func TestFaultyCloneEnumeration(t *testing.T) {
	base := New()
	base.Set(b("k0"), b("v"))
	call := func(kv kvi.KVInterface) {
		kv.Set(b("k1"), b("1"))
		kv.Update(func(tx kvi.KVTransaction) error { tx.Set(b("k2"), b("2")); tx.Delete(b("k0")); return nil })
		kv.Delete(b("k1"))
	}
	want := []string{`"k0"="v";`, `"k0"="v";"k1"="1";`, `"k1"="1";"k2"="2";`, `"k2"="2";`}
	for k := 1; k <= 4; k++ {
		s := base.Clone()
		f := NewFaulty(s)
		f.CrashBefore(k)
		crashed := Catch(func() { call(f) })
		if crashed != (k <= 3) {
			t.Fatalf("k=%d crashed=%v", k, crashed)
		}
		if dumpStr(s) != want[k-1] {
			t.Fatalf("k=%d: %s want %s", k, dumpStr(s), want[k-1])
		}
	}
	if dumpStr(base) != `"k0"="v";` {
		t.Fatal("clones leaked into the base store")
	}
}

func TestConcurrentUse(t *testing.T) {
	f := NewFaulty(New())
	var wg sync.WaitGroup
	for g := 0; g < 8; g++ {
		wg.Add(1)
		go func(g int) {
			defer wg.Done()
			for i := 0; i < 200; i++ {
				k := b(fmt.Sprintf("k%d-%d", g, i%10))
				switch i % 5 {
				case 0:
					f.Set(k, k)
				case 1:
					f.Update(func(tx kvi.KVTransaction) error { tx.Set(k, nil); tx.Delete(b("k0-0")); return nil })
				case 2:
					f.View(func(it kvi.KVIterator) error {
						for it.Seek(b("k")); it.Valid(); it.Next() {
							it.Value()
						}
						return nil
					})
				case 3:
					f.BulkWrite(func(bl kvi.KVBulkWrite) error { return bl.Set(k, k) })
					f.Writes()
				case 4:
					f.Get(k)
					f.Inner().(*Store).Clone().Dump()
				}
			}
		}(g)
	}
	wg.Wait()
	if f.NWrites() != 8*200*3/5 {
		t.Fatal(f.NWrites())
	}
}
