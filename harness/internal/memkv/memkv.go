// Package memkv is an in-memory kvi.KVInterface with the obvious ordered-map
// semantics, plus a fault-injecting wrapper (faulty.go).
//
// It is the *model* the embedded key-value drivers are compared with (C10) and the
// store under the graph layer in crash enumerations.
//
// Semantics (byte-wise lexicographic key order):
//
//   - Get of a missing key returns ErrNotFound; HasKey reports presence; an empty
//     value is a value (the key is present).
//   - Seek(k) positions on the smallest key >= k, SeekReverse(k) on the largest key
//     <= k; Next moves one key further in the direction of the last seek (forward
//     before any seek); Valid reports whether the cursor is on a key. A positioning
//     call that finds no key leaves the cursor invalid and returns ErrInvalid; Key and
//     Value of an invalid cursor return nil.
//   - View iterates over a snapshot taken when View is called; nothing a concurrent
//     writer does is visible to a running View.
//   - Update runs the closure on a private working copy: reads through the
//     transaction (Get, HasKey, its View) see the transaction's own earlier writes;
//     when the closure returns nil the working copy replaces the store atomically,
//     when it returns an error (or panics) nothing changes. Updates are serialised;
//     a top-level read made from inside an Update closure sees the last committed state
//     (as with Badger), a nested Update or write from inside an Update closure
//     deadlocks (as with Bolt).
//   - BulkWrite collects the Sets and applies them atomically when the closure returns
//     nil (later Sets of the same key win).
//   - All byte slices are copied on the way in and on the way out.
//
// A Store is safe for concurrent use.
package memkv

import (
	"bytes"
	"errors"
	"sort"
	"sync"

	"github.com/bmeg/grip/kvi"
)

var (
	// ErrNotFound is returned by Get for a missing key.
	ErrNotFound = errors.New("memkv: key not found")
	// ErrInvalid is returned by a positioning call that leaves the cursor invalid.
	ErrInvalid = errors.New("memkv: iterator not on a key")
	// ErrClosed is returned by every call after Close.
	ErrClosed = errors.New("memkv: store closed")
)

// Pair is one key/value pair (Dump).
type Pair struct {
	Key   []byte
	Value []byte
}

type entry struct {
	k string
	v []byte // never mutated after it was stored
}

// Store is the sorted map. The zero value is not usable; call New.
type Store struct {
	mu     sync.RWMutex // guards cur and closed
	wmu    sync.Mutex   // serialises writers
	cur    []entry      // sorted by k; the slice is immutable once published
	closed bool
}

var _ kvi.KVInterface = (*Store)(nil)

// New returns an empty store.
func New() *Store { return &Store{} }

func cp(b []byte) []byte {
	out := make([]byte, len(b))
	copy(out, b)
	return out
}

func find(es []entry, k string) (int, bool) {
	i := sort.Search(len(es), func(i int) bool { return es[i].k >= k })
	return i, i < len(es) && es[i].k == k
}

func (s *Store) snapshot() ([]entry, error) {
	s.mu.RLock()
	defer s.mu.RUnlock()
	if s.closed {
		return nil, ErrClosed
	}
	return s.cur, nil
}

// write runs fn on a private copy of the current state and publishes the result
// when fn returns nil.
func (s *Store) write(fn func(w *working) error) error {
	s.wmu.Lock()
	defer s.wmu.Unlock()
	base, err := s.snapshot()
	if err != nil {
		return err
	}
	w := &working{es: append(make([]entry, 0, len(base)+4), base...)}
	if err := fn(w); err != nil {
		return err
	}
	s.mu.Lock()
	defer s.mu.Unlock()
	if s.closed {
		return ErrClosed
	}
	s.cur = w.es
	return nil
}

// working is a mutable sorted entry list owned by one writer.
type working struct{ es []entry }

func (w *working) set(k, v []byte) {
	i, ok := find(w.es, string(k))
	e := entry{k: string(k), v: cp(v)}
	if ok {
		w.es[i] = e
		return
	}
	w.es = append(w.es, entry{})
	copy(w.es[i+1:], w.es[i:])
	w.es[i] = e
}

func (w *working) del(k []byte) {
	if i, ok := find(w.es, string(k)); ok {
		w.es = append(w.es[:i], w.es[i+1:]...)
	}
}

func (w *working) delPrefix(p []byte) {
	i, _ := find(w.es, string(p))
	j := i
	for j < len(w.es) && bytes.HasPrefix([]byte(w.es[j].k), p) {
		j++
	}
	w.es = append(w.es[:i], w.es[j:]...)
}

func get(es []entry, k []byte) ([]byte, error) {
	if i, ok := find(es, string(k)); ok {
		return cp(es[i].v), nil
	}
	return nil, ErrNotFound
}

// HasKey reports whether key is present.
func (s *Store) HasKey(key []byte) bool {
	es, err := s.snapshot()
	if err != nil {
		return false
	}
	_, ok := find(es, string(key))
	return ok
}

// Get returns a copy of the value of key, or ErrNotFound.
func (s *Store) Get(key []byte) ([]byte, error) {
	es, err := s.snapshot()
	if err != nil {
		return nil, err
	}
	return get(es, key)
}

// Set stores value under key.
func (s *Store) Set(key, value []byte) error {
	return s.write(func(w *working) error { w.set(key, value); return nil })
}

// Delete removes key (no error when it is absent).
func (s *Store) Delete(key []byte) error {
	return s.write(func(w *working) error { w.del(key); return nil })
}

// DeletePrefix removes every key that starts with prefix (the empty prefix matches
// every key).
func (s *Store) DeletePrefix(prefix []byte) error {
	return s.write(func(w *working) error { w.delPrefix(prefix); return nil })
}

// View runs u with an iterator over a snapshot of the store.
func (s *Store) View(u func(it kvi.KVIterator) error) error {
	es, err := s.snapshot()
	if err != nil {
		return err
	}
	return u(&iter{es: es, pos: -1, forward: true})
}

// Update runs u in a transaction (see the package comment).
func (s *Store) Update(u func(tx kvi.KVTransaction) error) error {
	return s.write(func(w *working) error { return u(&txn{w: w}) })
}

// BulkWrite runs u with a batch whose Sets are applied atomically when u returns nil.
func (s *Store) BulkWrite(u func(bl kvi.KVBulkWrite) error) error {
	b := &bulk{}
	if err := u(b); err != nil {
		return err
	}
	return s.write(func(w *working) error {
		for _, p := range b.sets {
			w.set(p.Key, p.Value)
		}
		return nil
	})
}

// Close marks the store closed; later calls fail with ErrClosed.
func (s *Store) Close() error {
	s.mu.Lock()
	defer s.mu.Unlock()
	s.closed = true
	return nil
}

// Clone returns an independent deep copy of the store's committed state (open, even
// if s was closed).
func (s *Store) Clone() *Store {
	s.mu.RLock()
	defer s.mu.RUnlock()
	// entries are immutable (values are never modified in place), so sharing the
	// published slice is a deep copy in effect; copy anyway so that the two stores
	// share no memory at all
	out := make([]entry, len(s.cur))
	for i, e := range s.cur {
		out[i] = entry{k: e.k, v: cp(e.v)}
	}
	return &Store{cur: out}
}

// Dump returns all key/value pairs in key order (copies).
func (s *Store) Dump() []Pair {
	s.mu.RLock()
	es := s.cur
	s.mu.RUnlock()
	out := make([]Pair, len(es))
	for i, e := range es {
		out[i] = Pair{Key: []byte(e.k), Value: cp(e.v)}
	}
	return out
}

// Len returns the number of keys.
func (s *Store) Len() int {
	s.mu.RLock()
	defer s.mu.RUnlock()
	return len(s.cur)
}

// ---------------------------------------------------------------------------------

type bulk struct {
	mu   sync.Mutex
	sets []Pair
}

func (b *bulk) Set(key, value []byte) error {
	b.mu.Lock()
	b.sets = append(b.sets, Pair{Key: cp(key), Value: cp(value)})
	b.mu.Unlock()
	return nil
}

// txn is the transaction handed to an Update closure. It must not be used after
// the closure returned, nor from several goroutines at once.
type txn struct{ w *working }

func (t *txn) Get(key []byte) ([]byte, error) { return get(t.w.es, key) }
func (t *txn) HasKey(key []byte) bool {
	_, ok := find(t.w.es, string(key))
	return ok
}
func (t *txn) Set(key, value []byte) error { t.w.set(key, value); return nil }
func (t *txn) Delete(key []byte) error     { t.w.del(key); return nil }

// View iterates over the transaction's current state (its own writes included). The
// iterator works on a copy, so writes made through the transaction while the View is
// running do not disturb it (and are not visible to it).
func (t *txn) View(u func(it kvi.KVIterator) error) error {
	es := append([]entry(nil), t.w.es...)
	return u(&iter{es: es, pos: -1, forward: true})
}

// iter is a cursor over an immutable sorted entry list. pos is the index of the
// current entry, or -1 / len(es) when the cursor is not on a key.
type iter struct {
	es      []entry
	pos     int
	forward bool
}

func (it *iter) Valid() bool { return it.pos >= 0 && it.pos < len(it.es) }

func (it *iter) status() error {
	if it.Valid() {
		return nil
	}
	return ErrInvalid
}

func (it *iter) Seek(k []byte) error {
	it.forward = true
	it.pos, _ = find(it.es, string(k))
	return it.status()
}

func (it *iter) SeekReverse(k []byte) error {
	it.forward = false
	i, ok := find(it.es, string(k))
	if !ok {
		i-- // es[i] is the first key > k (or len): step back to the last key < k
	}
	it.pos = i
	return it.status()
}

func (it *iter) Next() error {
	if !it.Valid() {
		return ErrInvalid
	}
	if it.forward {
		it.pos++
	} else {
		it.pos--
	}
	return it.status()
}

func (it *iter) Key() []byte {
	if !it.Valid() {
		return nil
	}
	return []byte(it.es[it.pos].k)
}

func (it *iter) Value() ([]byte, error) {
	if !it.Valid() {
		return nil, ErrInvalid
	}
	return cp(it.es[it.pos].v), nil
}

func (it *iter) Get(key []byte) ([]byte, error) { return get(it.es, key) }
