package memkv

import (
	"sync"

	"github.com/bmeg/grip/kvi"
)

// crash is the type of the Crash sentinel.
type crash struct{}

func (crash) Error() string { return "memkv: simulated crash (write refused)" }

// Crash is the value a Faulty store panics with when it refuses a write. Harnesses
// recover it at the API-call boundary (see Catch); it is comparable: r == memkv.Crash.
var Crash error = crash{}

// Catch runs fn and reports whether it was cut short by the Crash sentinel. Any other
// panic is re-raised.
func Catch(fn func()) (crashed bool) {
	defer func() {
		if r := recover(); r != nil {
			if r == Crash {
				crashed = true
				return
			}
			panic(r)
		}
	}()
	fn()
	return false
}

// Write is one logged top-level write. Kind is "set", "delete", "deleteprefix",
// "update" or "bulk"; Key/Value are set for the first three; Ops lists the Sets and
// Deletes issued inside an update transaction or bulk batch, in order.
type Write struct {
	Kind  string
	Key   []byte
	Value []byte
	Ops   []Write
}

// Faulty wraps a kvi.KVInterface. It logs every top-level write — Set, Delete,
// DeletePrefix, one Update transaction, one BulkWrite batch: each counts as ONE
// atomic write, whatever it does inside — and can be armed to "crash": from the k-th
// top-level write on, every write is refused by panicking with Crash *before* the
// wrapped store (or, for Update/BulkWrite, the caller's closure) is touched, so the
// store holds exactly what it held before that write. Reads always pass through.
//
// An Update or BulkWrite call counts as a write whether or not its closure would have
// written anything. A write whose wrapped call returns an error is logged all the same
// (the wrapper cannot know what the wrapped store kept of it).
//
// Faulty is safe for concurrent use as far as the wrapped store is.
type Faulty struct {
	inner kvi.KVInterface

	mu      sync.Mutex
	log     []*Write
	armed   bool
	left    int // writes still allowed before the crash (valid while armed)
	crashed bool
	refused int
}

var _ kvi.KVInterface = (*Faulty)(nil)

// NewFaulty wraps inner (unarmed, empty log).
func NewFaulty(inner kvi.KVInterface) *Faulty { return &Faulty{inner: inner} }

// Inner returns the wrapped store.
func (f *Faulty) Inner() kvi.KVInterface { return f.inner }

// CrashBefore arms the wrapper: the k-th top-level write from now (1-based) and every
// later one is refused with panic(Crash). k <= 0 disarms (same as Disarm).
func (f *Faulty) CrashBefore(k int) {
	f.mu.Lock()
	defer f.mu.Unlock()
	if k <= 0 {
		f.armed, f.crashed, f.left = false, false, 0
		return
	}
	f.armed, f.crashed, f.left = true, false, k-1
}

// Disarm lets all writes through again (also after a crash).
func (f *Faulty) Disarm() { f.CrashBefore(0) }

// Crashed reports whether a write has been refused since the wrapper was last armed.
func (f *Faulty) Crashed() bool {
	f.mu.Lock()
	defer f.mu.Unlock()
	return f.crashed
}

// Refused returns how many writes have been refused in total.
func (f *Faulty) Refused() int {
	f.mu.Lock()
	defer f.mu.Unlock()
	return f.refused
}

// Writes returns a copy of the log of writes that were let through, oldest first.
func (f *Faulty) Writes() []Write {
	f.mu.Lock()
	defer f.mu.Unlock()
	out := make([]Write, len(f.log))
	for i, w := range f.log {
		out[i] = copyWrite(*w)
	}
	return out
}

// NWrites returns the number of writes let through so far.
func (f *Faulty) NWrites() int {
	f.mu.Lock()
	defer f.mu.Unlock()
	return len(f.log)
}

// ResetLog forgets the logged writes.
func (f *Faulty) ResetLog() {
	f.mu.Lock()
	f.log = nil
	f.mu.Unlock()
}

func copyWrite(w Write) Write {
	out := Write{Kind: w.Kind, Key: cpNil(w.Key), Value: cpNil(w.Value)}
	for _, o := range w.Ops {
		out.Ops = append(out.Ops, copyWrite(o))
	}
	return out
}

func cpNil(b []byte) []byte {
	if b == nil {
		return nil
	}
	return cp(b)
}

// admit is called at the start of every top-level write: it either logs the write
// (returning the log record, to which transaction/batch operations are added) or
// panics with Crash.
func (f *Faulty) admit(w Write) *Write {
	f.mu.Lock()
	if f.armed {
		if f.crashed || f.left == 0 {
			f.crashed = true
			f.refused++
			f.mu.Unlock()
			panic(Crash)
		}
		f.left--
	}
	rec := &w
	f.log = append(f.log, rec)
	f.mu.Unlock()
	return rec
}

func (f *Faulty) addOp(rec *Write, w Write) {
	f.mu.Lock()
	rec.Ops = append(rec.Ops, w)
	f.mu.Unlock()
}

func (f *Faulty) HasKey(key []byte) bool         { return f.inner.HasKey(key) }
func (f *Faulty) Get(key []byte) ([]byte, error) { return f.inner.Get(key) }
func (f *Faulty) View(u func(it kvi.KVIterator) error) error {
	return f.inner.View(u)
}
func (f *Faulty) Close() error { return f.inner.Close() }

func (f *Faulty) Set(key, value []byte) error {
	f.admit(Write{Kind: "set", Key: cp(key), Value: cp(value)})
	return f.inner.Set(key, value)
}

func (f *Faulty) Delete(key []byte) error {
	f.admit(Write{Kind: "delete", Key: cp(key)})
	return f.inner.Delete(key)
}

func (f *Faulty) DeletePrefix(prefix []byte) error {
	f.admit(Write{Kind: "deleteprefix", Key: cp(prefix)})
	return f.inner.DeletePrefix(prefix)
}

func (f *Faulty) Update(u func(tx kvi.KVTransaction) error) error {
	slot := f.admit(Write{Kind: "update"})
	return f.inner.Update(func(tx kvi.KVTransaction) error {
		return u(&loggedTx{KVTransaction: tx, f: f, slot: slot})
	})
}

func (f *Faulty) BulkWrite(u func(bl kvi.KVBulkWrite) error) error {
	slot := f.admit(Write{Kind: "bulk"})
	return f.inner.BulkWrite(func(bl kvi.KVBulkWrite) error {
		return u(&loggedBulk{bl: bl, f: f, slot: slot})
	})
}

type loggedTx struct {
	kvi.KVTransaction
	f    *Faulty
	slot *Write
}

func (t *loggedTx) Set(key, value []byte) error {
	t.f.addOp(t.slot, Write{Kind: "set", Key: cp(key), Value: cp(value)})
	return t.KVTransaction.Set(key, value)
}

func (t *loggedTx) Delete(key []byte) error {
	t.f.addOp(t.slot, Write{Kind: "delete", Key: cp(key)})
	return t.KVTransaction.Delete(key)
}

type loggedBulk struct {
	bl   kvi.KVBulkWrite
	f    *Faulty
	slot *Write
}

func (b *loggedBulk) Set(key, value []byte) error {
	b.f.addOp(b.slot, Write{Kind: "set", Key: cp(key), Value: cp(value)})
	return b.bl.Set(key, value)
}
