package pbt

import (
	"fmt"
	"os"
	"path/filepath"
	"strconv"
	"sync"
	"syscall"
)

var fuzzOnce sync.Once

// FuzzIteration is called at the top of every native fuzz iteration with the target's
// arguments. The fuzzing engine discards the output of its worker processes and, when a
// worker dies in a goroutine of the tested code, may save an input that was not the one
// being executed. So each worker (a) sends its stderr - where the Go runtime writes the
// panic trace - to $VERIF_SCRATCH/fuzz-stderr-<pid>.txt and (b) keeps the arguments of the
// iteration in progress, in corpus file format, in $VERIF_SCRATCH/fuzz-cur-<pid>: after a
// worker's death the driver reads the trace and replays that file.
func FuzzIteration(args ...interface{}) {
	dir := os.Getenv("VERIF_SCRATCH")
	if dir == "" {
		return
	}
	pid := strconv.Itoa(os.Getpid())
	fuzzOnce.Do(func() {
		if f, err := os.OpenFile(filepath.Join(dir, "fuzz-stderr-"+pid+".txt"), os.O_CREATE|os.O_WRONLY|os.O_APPEND, 0o644); err == nil {
			syscall.Dup2(int(f.Fd()), 2)
		}
	})
	b := []byte("go test fuzz v1\n")
	for _, a := range args {
		switch x := a.(type) {
		case []byte:
			b = append(b, fmt.Sprintf("[]byte(%q)\n", x)...)
		case string:
			b = append(b, fmt.Sprintf("string(%q)\n", x)...)
		case bool:
			b = append(b, fmt.Sprintf("bool(%v)\n", x)...)
		case uint8:
			b = append(b, fmt.Sprintf("byte(%q)\n", rune(x))...)
		case uint16:
			b = append(b, fmt.Sprintf("uint16(%d)\n", x)...)
		default:
			b = append(b, fmt.Sprintf("%T(%v)\n", a, a)...)
		}
	}
	tmp := filepath.Join(dir, "fuzz-cur-"+pid+".tmp")
	if os.WriteFile(tmp, b, 0o644) == nil {
		os.Rename(tmp, filepath.Join(dir, "fuzz-cur-"+pid))
	}
}
