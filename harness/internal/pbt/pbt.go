// Package pbt is the glue between the property packages (cNN) and the ./check
// driver: run parameters from the environment, a rapid wrapper with per-test case
// counts and derived seeds, case files for replay, known-finding matching, and the
// statistics from which the driver writes evidence/<ID>.json.
package pbt

import (
	"encoding/json"
	"flag"
	"fmt"
	"hash/fnv"
	"io"
	"os"
	"path/filepath"
	"sort"
	"strconv"
	"strings"
	"sync"
	"testing"
	"time"

	griplog "github.com/bmeg/grip/log"
	"github.com/sirupsen/logrus"
	"pgregory.net/rapid"
)

// Meta describes one property package.
type Meta struct {
	Property    string   `json:"property_id"`
	Level       string   `json:"level"` // exploration | fault_enumeration
	Rule        string   `json:"rule"`
	Assumptions []string `json:"assumptions"`
}

// ---------------------------------------------------------------------------------
// environment

func Tier() string {
	if os.Getenv("VERIF_TIER") == "thorough" {
		return "thorough"
	}
	return "quick"
}

func Thorough() bool { return Tier() == "thorough" }

func envInt(k string, def int) int {
	if v := os.Getenv(k); v != "" {
		if n, err := strconv.Atoi(v); err == nil {
			return n
		}
	}
	return def
}

// Seed is VERIF_SEED (0 is remapped to 1: rapid treats 0 as "random").
func Seed() int {
	s := envInt("VERIF_SEED", 1)
	if s == 0 {
		s = 1
	}
	if s < 0 {
		s = -s
	}
	return s
}

func Shard() int   { return envInt("VERIF_SHARD", 0) }
func NShards() int { return max(1, envInt("VERIF_NSHARDS", 1)) }

// Pick returns q in the quick tier and th in the thorough tier.
func Pick(q, th int) int {
	if Thorough() {
		return th
	}
	return q
}

// ScratchDir returns a fresh directory below VERIF_SCRATCH (set by the driver to a
// per-run temporary directory that it removes afterwards).
func ScratchDir(prefix string) string {
	base := os.Getenv("VERIF_SCRATCH")
	if base == "" {
		base = os.TempDir()
	}
	d, err := os.MkdirTemp(base, prefix)
	if err != nil {
		panic(err)
	}
	return d
}

// ---------------------------------------------------------------------------------
// statistics

type testStats struct {
	Cases        int64             `json:"cases"`
	Nontrivial   int64             `json:"nontrivial_hits"`
	Classes      map[string]int64  `json:"classes"`
	Samples      []json.RawMessage `json:"samples"`
	Inconclusive map[string]int64  `json:"inconclusive"`
	Exhaustive   bool              `json:"exhaustive"`
	Requested    int64             `json:"requested"`
}

type stats struct {
	mu        sync.Mutex
	Meta      Meta                  `json:"meta"`
	Tests     map[string]*testStats `json:"tests"`
	Known     map[string]int64      `json:"known_hits"`
	Avoided   map[string]int64      `json:"avoided"`
	Failures  []failure             `json:"failures"`
	distinct  map[uint64]struct{}
	WallStart time.Time `json:"-"`
}

type failure struct {
	Test     string `json:"test"`
	CaseFile string `json:"case_file"`
	Msg      string `json:"msg"`
}

var st = &stats{Tests: map[string]*testStats{}, Known: map[string]int64{}, Avoided: map[string]int64{}, distinct: map[uint64]struct{}{}}

func ts(test string) *testStats {
	s, ok := st.Tests[test]
	if !ok {
		s = &testStats{Classes: map[string]int64{}, Inconclusive: map[string]int64{}}
		st.Tests[test] = s
	}
	return s
}

func baseName(t interface{ Name() string }) string {
	n := t.Name()
	if i := strings.Index(n, "/"); i >= 0 {
		n = n[:i]
	}
	return n
}

// Named is anything with a test name (*testing.T, *rapid.T wrappers).
type Named interface{ Name() string }

// Case counts one generated/enumerated case for the test.
func Case(t Named) {
	st.mu.Lock()
	ts(baseName(t)).Cases++
	st.mu.Unlock()
}

// Nontrivial records that the case identified by key is non-trivial by the package's
// rule. Distinctness is by (test, key) hash.
func Nontrivial(t Named, key string) {
	h := fnv.New64a()
	h.Write([]byte(baseName(t)))
	h.Write([]byte{0})
	h.Write([]byte(key))
	st.mu.Lock()
	ts(baseName(t)).Nontrivial++
	st.distinct[h.Sum64()] = struct{}{}
	st.mu.Unlock()
}

// Class increments a classification counter (generator health).
func Class(t Named, label string) {
	st.mu.Lock()
	ts(baseName(t)).Classes[label]++
	st.mu.Unlock()
}

// Inconclusive counts a case whose verdict could not be decided (never a violation).
func Inconclusive(t Named, reason string) {
	st.mu.Lock()
	ts(baseName(t)).Inconclusive[reason]++
	st.mu.Unlock()
}

// Avoided counts draws that were steered away from a known finding by construction.
func Avoided(id string) {
	st.mu.Lock()
	st.Avoided[id]++
	st.mu.Unlock()
}

const maxSamples = 6

// Sample keeps a few example cases per test (first ones and then sparse later ones).
func Sample(t Named, v interface{}) {
	st.mu.Lock()
	defer st.mu.Unlock()
	s := ts(baseName(t))
	n := s.Cases
	if len(s.Samples) < maxSamples/2 || (len(s.Samples) < maxSamples && n%97 == 0) {
		b, err := json.Marshal(v)
		if err == nil {
			if len(b) > 4000 {
				b, _ = json.Marshal(string(b[:4000]) + "…")
			}
			s.Samples = append(s.Samples, b)
		}
	}
}

// WantSample reports whether Sample would keep a case now (to avoid building it).
func WantSample(t Named) bool {
	st.mu.Lock()
	defer st.mu.Unlock()
	s := ts(baseName(t))
	return len(s.Samples) < maxSamples/2 || (len(s.Samples) < maxSamples && s.Cases%97 == 0)
}

// Exhaustive marks that a test enumerated its finite space completely.
func Exhaustive(t Named) {
	st.mu.Lock()
	if !enumCut {
		ts(baseName(t)).Exhaustive = true
	}
	st.mu.Unlock()
}

// ---------------------------------------------------------------------------------
// known findings

type Finding struct {
	Status   string `json:"status"` // open | fixed
	Property string `json:"property"`
	ID       string `json:"id"`
	Match    string `json:"match"` // exact discrepancy signature
	What     string `json:"what"`
	Commit   string `json:"commit,omitempty"`
	Replay   string `json:"replay,omitempty"`
}

var (
	findingsOnce sync.Once
	findings     []Finding
)

func loadFindings() {
	p := os.Getenv("VERIF_KNOWN")
	if p == "" {
		p = "/verif/known_findings.json"
	}
	files := []string{p}
	// per-property files next to the main one: known/<ID>.json (same schema)
	more, _ := filepath.Glob(filepath.Join(filepath.Dir(p), "known", "*.json"))
	sort.Strings(more)
	files = append(files, more...)
	for _, fn := range files {
		b, err := os.ReadFile(fn)
		if err != nil {
			continue
		}
		var f struct {
			Findings []Finding `json:"findings"`
		}
		if err := json.Unmarshal(b, &f); err != nil {
			panic(fn + ": " + err.Error())
		}
		findings = append(findings, f.Findings...)
	}
}

// OpenFinding returns the open known finding of this property whose match equals the
// signature, or nil.
func OpenFinding(property, sig string) *Finding {
	findingsOnce.Do(loadFindings)
	for i := range findings {
		f := &findings[i]
		if f.Status == "open" && f.Property == property && f.Match == sig {
			return f
		}
	}
	return nil
}

// OpenFindings lists the open findings of a property.
func OpenFindings(property string) []Finding {
	findingsOnce.Do(loadFindings)
	var out []Finding
	for _, f := range findings {
		if f.Status == "open" && f.Property == property {
			out = append(out, f)
		}
	}
	return out
}

// IsOpen reports whether an open finding with this signature is listed.
func IsOpen(sig string) bool {
	return OpenFinding(st.Meta.Property, sig) != nil
}

// Stdout is the process's standard output as it was at start-up. KNOWN-FINDING lines are
// written to it, so a harness that points os.Stdout elsewhere to silence the tested code's
// chatter cannot swallow them.
var Stdout = os.Stdout

// KnownHit records that a listed open finding was observed (prints the KNOWN-FINDING
// line once per process; the driver de-duplicates across shards).
func KnownHit(f *Finding) {
	st.mu.Lock()
	first := st.Known[f.ID] == 0
	st.Known[f.ID]++
	st.mu.Unlock()
	if first {
		fmt.Fprintf(Stdout, "KNOWN-FINDING: property=%s %s [%s]\n", f.Property, f.What, f.ID)
	}
}

// ---------------------------------------------------------------------------------
// failing: case files

// TB is the subset of testing.TB / *rapid.T the helpers need.
type TB interface {
	Name() string
	Fatalf(format string, args ...any)
	Logf(format string, args ...any)
	Helper()
}

// CaseFile is the replay format: which test, and the JSON-serialised case.
type CaseFile struct {
	Property string          `json:"property"`
	Test     string          `json:"test"`
	Sig      string          `json:"signature,omitempty"`
	Msg      string          `json:"message,omitempty"`
	Case     json.RawMessage `json:"case"`
}

func failDir() string {
	d := os.Getenv("VERIF_FAIL_DIR")
	if d == "" {
		d = filepath.Join(os.TempDir(), "verif-fail")
	}
	os.MkdirAll(d, 0o755)
	return d
}

// Discrepancy is the single exit for a property violation found on case c with a
// root-cause signature sig. If sig is a listed open finding the hit is recorded and
// false is returned (the caller should stop judging this case); otherwise the case is
// written as a replay file and the test fails.
func Discrepancy(t TB, c interface{}, sig string, format string, args ...any) bool {
	t.Helper()
	if f := OpenFinding(st.Meta.Property, sig); f != nil {
		KnownHit(f)
		return false
	}
	msg := fmt.Sprintf(format, args...)
	if os.Getenv("VERIF_SURVEY") != "" {
		// development aid: list every distinct signature instead of stopping at the first
		st.mu.Lock()
		first := st.Known["survey:"+sig] == 0
		st.Known["survey:"+sig]++
		st.mu.Unlock()
		if first {
			cb, _ := json.Marshal(c)
			if len(cb) > 1500 {
				cb = cb[:1500]
			}
			fmt.Fprintf(Stdout, "SURVEY sig=%s :: %s :: CASE %s\n", sig, strings.SplitN(msg, "\n", 2)[0], cb)
		}
		return false
	}
	b, err := json.Marshal(c)
	if err != nil {
		b, _ = json.Marshal(fmt.Sprintf("%#v", c))
	}
	name := baseName(t)
	cf := CaseFile{Property: st.Meta.Property, Test: name, Sig: sig, Msg: msg, Case: b}
	out, _ := json.MarshalIndent(cf, "", " ")
	path := filepath.Join(failDir(), fmt.Sprintf("%s.shard%d.json", name, Shard()))
	os.WriteFile(path, out, 0o644)
	st.mu.Lock()
	// keep only the latest failure per test (rapid re-runs the property while
	// shrinking; the last one written is the minimal case)
	kept := st.Failures[:0]
	for _, f := range st.Failures {
		if f.Test != name {
			kept = append(kept, f)
		}
	}
	st.Failures = append(kept, failure{Test: name, CaseFile: path, Msg: msg})
	st.mu.Unlock()
	t.Fatalf("DISCREPANCY sig=%s: %s", sig, msg)
	return true
}

// ReplayFile returns the case file to replay (VERIF_REPLAY), if any.
func ReplayFile() (*CaseFile, bool) {
	p := os.Getenv("VERIF_REPLAY")
	if p == "" {
		return nil, false
	}
	b, err := os.ReadFile(p)
	if err != nil {
		panic(err)
	}
	var cf CaseFile
	if err := json.Unmarshal(b, &cf); err != nil {
		panic(err)
	}
	return &cf, true
}

// LoadCase decodes a committed case file.
func LoadCase(path string, into interface{}) (*CaseFile, error) {
	b, err := os.ReadFile(path)
	if err != nil {
		return nil, err
	}
	var cf CaseFile
	if err := json.Unmarshal(b, &cf); err != nil {
		return nil, err
	}
	if into != nil {
		if err := json.Unmarshal(cf.Case, into); err != nil {
			return nil, err
		}
	}
	return &cf, nil
}

// ---------------------------------------------------------------------------------
// rapid wrapper

func hashName(s string) uint64 {
	h := fnv.New64a()
	h.Write([]byte(s))
	return h.Sum64() % 1000
}

// Check runs a rapid property with a per-test case budget (split over the shards)
// and a seed derived from VERIF_SEED, the shard and the test name. In replay mode
// (VERIF_REPLAY set) random search is skipped entirely.
func Check(t *testing.T, quickN, thoroughN int, prop func(*rapid.T)) {
	t.Helper()
	if _, ok := ReplayFile(); ok {
		t.Skip("replay mode")
	}
	n := Pick(quickN, thoroughN)
	per := (n + NShards() - 1) / NShards()
	if per < 1 {
		per = 1
	}
	seed := uint64(Seed())*1000003 + uint64(Shard())*1009 + hashName(t.Name()) + 1
	flag.Set("rapid.checks", strconv.Itoa(per))
	flag.Set("rapid.seed", strconv.FormatUint(seed, 10))
	flag.Set("rapid.nofailfile", "true")
	st.mu.Lock()
	ts(baseName(t)).Requested += int64(per)
	st.mu.Unlock()
	// the soft deadline trims the case count, never the verdict: a floor of cases is
	// always run, a case that has started always finishes, and once a discrepancy was
	// recorded (rapid is shrinking it) nothing is cut any more
	floor := (quickN + NShards() - 1) / NShards() / 4
	if floor < 5 {
		floor = 5
	}
	name := baseName(t)
	ran := 0
	rapid.Check(t, func(rt *rapid.T) {
		ran++
		if ran > floor && OverBudget() && !hasFailure(name) {
			st.mu.Lock()
			ts(name).Inconclusive["not run: the shard's soft time budget was used up (case count trimmed)"]++
			st.mu.Unlock()
			return
		}
		prop(rt)
	})
}

var softDeadline = func() time.Time {
	if v, err := strconv.ParseInt(os.Getenv("VERIF_SOFT_DEADLINE"), 10, 64); err == nil && v > 0 {
		return time.Unix(v, 0)
	}
	return time.Time{}
}()

// OverBudget reports whether the shard's soft time budget (set by the driver well before
// the hard deadline) is used up. Generated cases and enumerated items not yet started
// are then skipped and counted; a run that was trimmed never claims exhaustiveness.
func OverBudget() bool {
	return !softDeadline.IsZero() && time.Now().After(softDeadline)
}

func hasFailure(test string) bool {
	st.mu.Lock()
	defer st.mu.Unlock()
	for _, f := range st.Failures {
		if f.Test == test {
			return true
		}
	}
	return false
}

var enumCut bool

// ShardOwns splits an enumerated space over the shards (and owns nothing more once the
// shard's soft time budget is used up).
func ShardOwns(i int) bool {
	if i%NShards() != Shard() {
		return false
	}
	if OverBudget() {
		st.mu.Lock()
		enumCut = true
		st.Avoided["enumerated items not run: soft time budget used up"]++
		st.mu.Unlock()
		return false
	}
	return true
}

// ---------------------------------------------------------------------------------
// TestMain

type shardFile struct {
	Meta     Meta                  `json:"meta"`
	Tier     string                `json:"tier"`
	Seed     int                   `json:"seed"`
	Shard    int                   `json:"shard"`
	Tests    map[string]*testStats `json:"tests"`
	Known    map[string]int64      `json:"known_hits"`
	Avoided  map[string]int64      `json:"avoided"`
	Failures []failure             `json:"failures"`
	Distinct []uint64              `json:"distinct"`
	WallS    float64               `json:"wall_s"`
	ExitCode int                   `json:"exit_code"`
}

// Main is called from each package's TestMain.
func Main(m *testing.M, meta Meta) int {
	st.Meta = meta
	if os.Getenv("VERIF_GRIPLOG") == "" {
		// bmeg/grip logs every rejected condition; keep the shard logs readable
		griplog.GetLogger().SetOutput(io.Discard)
		logrus.SetOutput(io.Discard)
	}
	if dir := os.Getenv("VERIF_MERGE"); dir != "" {
		return merge(dir, meta)
	}
	start := time.Now()
	code := m.Run()
	if dir := os.Getenv("VERIF_STATS_DIR"); dir != "" {
		sf := shardFile{Meta: meta, Tier: Tier(), Seed: Seed(), Shard: Shard(), Tests: st.Tests, Known: st.Known,
			Avoided: st.Avoided, Failures: st.Failures, WallS: time.Since(start).Seconds(), ExitCode: code}
		for h := range st.distinct {
			sf.Distinct = append(sf.Distinct, h)
		}
		b, _ := json.Marshal(sf)
		os.MkdirAll(dir, 0o755)
		os.WriteFile(filepath.Join(dir, fmt.Sprintf("shard%03d.json", Shard())), b, 0o644)
	}
	return code
}

// merge combines the shard files of one run into the evidence file
// (VERIF_EVIDENCE_OUT); VERIF_VIOLATIONS carries the driver's violation count and
// VERIF_WALL the total wall time.
func merge(dir string, meta Meta) int {
	files, _ := filepath.Glob(filepath.Join(dir, "shard*.json"))
	sort.Strings(files)
	tests := map[string]*testStats{}
	known := map[string]int64{}
	avoided := map[string]int64{}
	distinct := map[uint64]struct{}{}
	tier, seed := Tier(), Seed()
	for _, f := range files {
		b, err := os.ReadFile(f)
		if err != nil {
			continue
		}
		var sf shardFile
		if json.Unmarshal(b, &sf) != nil {
			continue
		}
		for name, s := range sf.Tests {
			d, ok := tests[name]
			if !ok {
				d = &testStats{Classes: map[string]int64{}, Inconclusive: map[string]int64{}, Exhaustive: true}
				tests[name] = d
			}
			d.Cases += s.Cases
			d.Nontrivial += s.Nontrivial
			d.Requested += s.Requested
			d.Exhaustive = d.Exhaustive && s.Exhaustive
			for k, v := range s.Classes {
				d.Classes[k] += v
			}
			for k, v := range s.Inconclusive {
				d.Inconclusive[k] += v
			}
			if len(d.Samples) < maxSamples {
				room := maxSamples - len(d.Samples)
				if len(s.Samples) < room {
					room = len(s.Samples)
				}
				if room > 2 {
					room = 2
				}
				d.Samples = append(d.Samples, s.Samples[:room]...)
			}
		}
		for k, v := range sf.Known {
			known[k] += v
		}
		for k, v := range sf.Avoided {
			avoided[k] += v
		}
		for _, h := range sf.Distinct {
			distinct[h] = struct{}{}
		}
	}
	var evals int64
	var samples []interface{}
	perTest := map[string]interface{}{}
	classes := map[string]int64{}
	inconclusive := map[string]int64{}
	exhaustive := len(tests) > 0
	names := make([]string, 0, len(tests))
	for n := range tests {
		names = append(names, n)
	}
	sort.Strings(names)
	for _, n := range names {
		s := tests[n]
		evals += s.Cases
		exhaustive = exhaustive && s.Exhaustive
		perTest[n] = map[string]interface{}{"cases": s.Cases, "nontrivial_hits": s.Nontrivial, "exhaustive": s.Exhaustive, "requested_random_cases": s.Requested}
		for k, v := range s.Classes {
			classes[n+":"+k] += v
		}
		for k, v := range s.Inconclusive {
			inconclusive[n+":"+k] += v
		}
		for _, smp := range s.Samples {
			samples = append(samples, map[string]interface{}{"test": n, "case": smp})
		}
	}
	viol := envInt("VERIF_VIOLATIONS", 0)
	wall, _ := strconv.ParseFloat(os.Getenv("VERIF_WALL"), 64)
	ev := map[string]interface{}{
		"property_id": meta.Property,
		"tier":        tier,
		"seed":        seed,
		"level":       meta.Level,
		"coverage": map[string]interface{}{
			"evaluations":          evals,
			"distinct_nontrivial":  len(distinct),
			"rule":                 meta.Rule,
			"samples":              samples,
			"exhaustive":           exhaustive,
			"per_test":             perTest,
			"classes":              classes,
			"inconclusive":         inconclusive,
			"excluded_known_hits":  known,
			"avoided_by_generator": avoided,
			"shards":               len(files),
		},
		"assumptions": meta.Assumptions,
		"wall_s":      wall,
		"violations":  viol,
	}
	b, _ := json.MarshalIndent(ev, "", " ")
	out := os.Getenv("VERIF_EVIDENCE_OUT")
	if out == "" {
		os.Stdout.Write(b)
		return 0
	}
	if err := os.WriteFile(out, b, 0o644); err != nil {
		fmt.Fprintln(os.Stderr, err)
		return 2
	}
	return 0
}

// Current records the case about to be executed in a file, so that a case that kills
// the whole process (panic in a pipeline goroutine) still leaves a replay file. Only
// for packages whose cases cost milliseconds.
func Current(t Named, c interface{}) {
	d := os.Getenv("VERIF_FAIL_DIR")
	if d == "" {
		return
	}
	b, err := json.Marshal(c)
	if err != nil {
		return
	}
	cf := CaseFile{Property: st.Meta.Property, Test: baseName(t), Sig: "process-crash", Case: b}
	out, _ := json.Marshal(cf)
	curMu.Lock()
	defer curMu.Unlock()
	if curFile == nil {
		f, err := os.OpenFile(filepath.Join(d, fmt.Sprintf("current.shard%d.json", Shard())), os.O_CREATE|os.O_RDWR|os.O_TRUNC, 0o644)
		if err != nil {
			return
		}
		curFile = f
	}
	// one pwrite + one ftruncate per case (the file stays open)
	if _, err := curFile.WriteAt(out, 0); err == nil {
		curFile.Truncate(int64(len(out)))
	}
}

// ClearCurrent forgets the recorded case (call it after a case that cannot have
// killed the process, when later cases do not record themselves).
func ClearCurrent() {
	curMu.Lock()
	defer curMu.Unlock()
	if curFile != nil {
		name := curFile.Name()
		curFile.Close()
		curFile = nil
		os.Remove(name)
	}
}

var (
	curMu   sync.Mutex
	curFile *os.File
)
