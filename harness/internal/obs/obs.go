// Package obs computes "everything observable about a graph" through the
// gdbi.GraphInterface read methods, and the same observation from the abstract model,
// as flat maps  observation-name -> canonical text, so that two observations can be
// compared piecewise with precise failure messages.
package obs

import (
	"context"
	"fmt"
	"sort"
	"strings"

	"github.com/bmeg/grip/gdbi"
	"verif/internal/gripx"
	"verif/internal/model"
)

// Universe bounds what is probed.
type Universe struct {
	VertexIDs  []string
	EdgeIDs    []string
	VLabels    []string
	ELabels    []string
	Traversals bool // also run V().hasLabel(l), V().count(), E().count()
}

type Observation map[string]string

func elemText(id, label, from, to string, data map[string]interface{}, withData bool) string {
	s := fmt.Sprintf("id=%q label=%q", id, label)
	if from != "" || to != "" {
		s += fmt.Sprintf(" from=%q to=%q", from, to)
	}
	if withData {
		s += " data=" + model.Canon(interface{}(model.CopyMap(data)))
	}
	return s
}

func multiset(items []string) string {
	sort.Strings(items)
	return "[" + strings.Join(items, " | ") + "]"
}

func setOf(items []string) string {
	seen := map[string]bool{}
	var out []string
	for _, i := range items {
		if !seen[i] {
			seen[i] = true
			out = append(out, i)
		}
	}
	sort.Strings(out)
	return "{" + strings.Join(out, ",") + "}"
}

func labelSets(u Universe) [][]string {
	out := [][]string{nil}
	for _, l := range u.ELabels {
		out = append(out, []string{l})
	}
	if len(u.ELabels) >= 2 {
		out = append(out, []string{u.ELabels[0], u.ELabels[1]})
	}
	return out
}

// OfModel observes the abstract graph.
func OfModel(g *model.Graph, u Universe) Observation {
	o := Observation{}
	for _, id := range u.VertexIDs {
		v := g.Vertex(id)
		for _, load := range []bool{true, false} {
			k := fmt.Sprintf("GetVertex(%s,load=%v)", id, load)
			if v == nil {
				o[k] = "nil"
			} else {
				o[k] = elemText(v.ID, v.Label, "", "", v.Data, load)
			}
		}
	}
	for _, id := range u.EdgeIDs {
		e := g.EdgeByID(id)
		for _, load := range []bool{true, false} {
			k := fmt.Sprintf("GetEdge(%s,load=%v)", id, load)
			if e == nil {
				o[k] = "nil"
			} else {
				o[k] = elemText(e.ID, e.Label, e.From, e.To, e.Data, load)
			}
		}
	}
	var vl, el, el0 []string
	for _, v := range g.V {
		vl = append(vl, elemText(v.ID, v.Label, "", "", v.Data, true))
	}
	for _, e := range g.E {
		el = append(el, elemText(e.ID, e.Label, e.From, e.To, e.Data, true))
		el0 = append(el0, elemText(e.ID, e.Label, e.From, e.To, nil, false))
	}
	o["GetVertexList(load=true)"] = multiset(vl)
	o["GetEdgeList(load=true)"] = multiset(el)
	o["GetEdgeList(load=false)"] = multiset(el0)
	in := func(labels []string, l string) bool {
		if len(labels) == 0 {
			return true
		}
		for _, x := range labels {
			if x == l {
				return true
			}
		}
		return false
	}
	for _, id := range u.VertexIDs {
		for _, ls := range labelSets(u) {
			var outV, inV, outE, inE []string
			for _, e := range g.E {
				if !in(ls, e.Label) {
					continue
				}
				if e.From == id {
					outE = append(outE, e.ID)
					if g.Vertex(e.To) != nil {
						outV = append(outV, e.To)
					}
				}
				if e.To == id {
					inE = append(inE, e.ID)
					if g.Vertex(e.From) != nil {
						inV = append(inV, e.From)
					}
				}
			}
			sfx := fmt.Sprintf("(%s,labels=%v)", id, ls)
			o["GetOutChannel"+sfx] = multiset(outV)
			o["GetInChannel"+sfx] = multiset(inV)
			o["GetOutEdgeChannel"+sfx] = multiset(outE)
			o["GetInEdgeChannel"+sfx] = multiset(inE)
		}
	}
	var vls, els []string
	for _, v := range g.V {
		vls = append(vls, v.Label)
	}
	for _, e := range g.E {
		els = append(els, e.Label)
	}
	o["ListVertexLabels"] = setOf(vls)
	o["ListEdgeLabels"] = setOf(els)
	for _, l := range u.VLabels {
		var ids []string
		for _, v := range g.V {
			if v.Label == l {
				ids = append(ids, v.ID)
			}
		}
		o["VertexLabelScan("+l+")"] = multiset(ids)
		if u.Traversals {
			o["V().hasLabel("+l+")"] = multiset(append([]string{}, ids...))
		}
	}
	if u.Traversals {
		o["V().count()"] = fmt.Sprint(len(g.V))
		o["E().count()"] = fmt.Sprint(len(g.E))
	}
	return o
}

func drain(ch chan gdbi.ElementLookup, f func(gdbi.ElementLookup)) {
	for r := range ch {
		f(r)
	}
}

func lookups(ids ...string) chan gdbi.ElementLookup {
	ch := make(chan gdbi.ElementLookup, len(ids))
	for _, id := range ids {
		ch <- gdbi.ElementLookup{ID: id}
	}
	close(ch)
	return ch
}

// OfGraph observes a stored graph through the gdbi read API. A panic in a read method
// is reported as the observation value "PANIC: ...".
func OfGraph(gi gdbi.GraphInterface, u Universe) Observation {
	o := Observation{}
	ctx := context.Background()
	safe := func(k string, f func() string) {
		defer func() {
			if r := recover(); r != nil {
				o[k] = fmt.Sprintf("PANIC: %v", r)
			}
		}()
		o[k] = f()
	}
	for _, id := range u.VertexIDs {
		for _, load := range []bool{true, false} {
			id, load := id, load
			safe(fmt.Sprintf("GetVertex(%s,load=%v)", id, load), func() string {
				v := gi.GetVertex(id, load)
				if v == nil {
					return "nil"
				}
				// a driver may return data although load=false; only id/label are compared then
				return elemText(v.ID, v.Label, "", "", v.Data, load)
			})
		}
	}
	for _, id := range u.EdgeIDs {
		for _, load := range []bool{true, false} {
			id, load := id, load
			safe(fmt.Sprintf("GetEdge(%s,load=%v)", id, load), func() string {
				e := gi.GetEdge(id, load)
				if e == nil {
					return "nil"
				}
				return elemText(e.ID, e.Label, e.From, e.To, e.Data, load)
			})
		}
	}
	safe("GetVertexList(load=true)", func() string {
		var l []string
		for v := range gi.GetVertexList(ctx, true) {
			l = append(l, elemText(v.ID, v.Label, "", "", v.Data, true))
		}
		return multiset(l)
	})
	safe("GetEdgeList(load=true)", func() string {
		var l []string
		for e := range gi.GetEdgeList(ctx, true) {
			l = append(l, elemText(e.ID, e.Label, e.From, e.To, e.Data, true))
		}
		return multiset(l)
	})
	safe("GetEdgeList(load=false)", func() string {
		var l []string
		for e := range gi.GetEdgeList(ctx, false) {
			l = append(l, elemText(e.ID, e.Label, e.From, e.To, nil, false))
		}
		return multiset(l)
	})
	for _, id := range u.VertexIDs {
		for _, ls := range labelSets(u) {
			id, ls := id, ls
			sfx := fmt.Sprintf("(%s,labels=%v)", id, ls)
			safe("GetOutChannel"+sfx, func() string {
				var l []string
				drain(gi.GetOutChannel(ctx, lookups(id), false, false, ls), func(r gdbi.ElementLookup) { l = append(l, r.Vertex.ID) })
				return multiset(l)
			})
			safe("GetInChannel"+sfx, func() string {
				var l []string
				drain(gi.GetInChannel(ctx, lookups(id), false, false, ls), func(r gdbi.ElementLookup) { l = append(l, r.Vertex.ID) })
				return multiset(l)
			})
			safe("GetOutEdgeChannel"+sfx, func() string {
				var l []string
				drain(gi.GetOutEdgeChannel(ctx, lookups(id), false, false, ls), func(r gdbi.ElementLookup) { l = append(l, r.Edge.ID) })
				return multiset(l)
			})
			safe("GetInEdgeChannel"+sfx, func() string {
				var l []string
				drain(gi.GetInEdgeChannel(ctx, lookups(id), false, false, ls), func(r gdbi.ElementLookup) { l = append(l, r.Edge.ID) })
				return multiset(l)
			})
		}
	}
	safe("ListVertexLabels", func() string {
		l, err := gi.ListVertexLabels()
		if err != nil {
			return "error: " + err.Error()
		}
		return setOf(l)
	})
	safe("ListEdgeLabels", func() string {
		l, err := gi.ListEdgeLabels()
		if err != nil {
			return "error: " + err.Error()
		}
		return setOf(l)
	})
	for _, lb := range u.VLabels {
		lb := lb
		safe("VertexLabelScan("+lb+")", func() string {
			var ids []string
			for id := range gi.VertexLabelScan(ctx, lb) {
				ids = append(ids, id)
			}
			return multiset(ids)
		})
		if u.Traversals {
			safe("V().hasLabel("+lb+")", func() string {
				out := gripx.Run(gi, model.Protos([]model.Step{model.S("V"), model.S("hasLabel", lb)}))
				if out.CompileErr != nil {
					return "compile error: " + out.CompileErr.Error()
				}
				if out.Hang {
					return "HANG"
				}
				var ids []string
				for _, r := range out.Raw {
					ids = append(ids, r.GetVertex().GetGid())
				}
				return multiset(ids)
			})
		}
	}
	if u.Traversals {
		for _, st := range []string{"V", "E"} {
			st := st
			safe(st+"().count()", func() string {
				out := gripx.Run(gi, model.Protos([]model.Step{model.S(st), model.S("count")}))
				if out.CompileErr != nil {
					return "compile error: " + out.CompileErr.Error()
				}
				if out.Hang || len(out.Raw) != 1 {
					return fmt.Sprintf("HANG-or-rows=%d", len(out.Raw))
				}
				return fmt.Sprint(out.Raw[0].GetCount())
			})
		}
	}
	return o
}

// Diff lists the observation names whose values differ (sorted), with both values.
func Diff(got, want Observation) []string {
	var out []string
	keys := map[string]bool{}
	for k := range got {
		keys[k] = true
	}
	for k := range want {
		keys[k] = true
	}
	for _, k := range model.SortedKeys(keys) {
		if got[k] != want[k] {
			out = append(out, fmt.Sprintf("%s: stored=%s model=%s", k, got[k], want[k]))
		}
	}
	return out
}

// Method extracts the method name of an observation key ("GetOutChannel(v0,…)" -> "GetOutChannel").
func Method(diffLine string) string {
	if i := strings.IndexAny(diffLine, "(:"); i > 0 {
		return diffLine[:i]
	}
	return diffLine
}
