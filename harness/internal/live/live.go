// Package live starts a real GripServer (server.NewGripServer + Serve) in-process on
// loopback ports with a Badger store under a scratch directory, and connects gRPC
// clients to it. Used in-process by checks that need the real handlers, and inside a
// worker subprocess by checks where a request may kill the server.
package live

import (
	"context"
	"fmt"
	"net"
	"os"
	"path/filepath"
	"time"

	"github.com/bmeg/grip/config"
	"github.com/bmeg/grip/gripql"
	"github.com/bmeg/grip/server"
	"google.golang.org/grpc"
	"google.golang.org/grpc/credentials/insecure"
)

type Server struct {
	RPCAddr  string
	HTTPBase string
	Dir      string
	Conn     *grpc.ClientConn
	Query    gripql.QueryClient
	Edit     gripql.EditClient
	Job      gripql.JobClient
	Conf     gripql.ConfigureClient
	cancel   context.CancelFunc
	Done     chan error
}

func freePort() (string, error) {
	l, err := net.Listen("tcp", "127.0.0.1:0")
	if err != nil {
		return "", err
	}
	defer l.Close()
	return fmt.Sprint(l.Addr().(*net.TCPAddr).Port), nil
}

// Start launches a server (no accounts) under dir. It retries on port races between
// parallel shard processes.
func Start(dir string) (*Server, error) {
	var last error
	for attempt := 0; attempt < 8; attempt++ {
		s, err := try(filepath.Join(dir, fmt.Sprintf("srv%d", attempt)))
		if err == nil {
			return s, nil
		}
		last = err
	}
	return nil, last
}

func try(dir string) (*Server, error) {
	if err := os.MkdirAll(dir, 0o755); err != nil {
		return nil, err
	}
	rpcPort, err := freePort()
	if err != nil {
		return nil, err
	}
	httpPort, err := freePort()
	if err != nil {
		return nil, err
	}
	conf := config.DefaultConfig()
	conf.Server.HostName = "127.0.0.1"
	conf.Server.RPCPort = rpcPort
	conf.Server.HTTPPort = httpPort
	conf.Server.WorkDir = filepath.Join(dir, "work")
	db := filepath.Join(dir, "badger.db")
	conf.Drivers["badger"] = config.DriverConfig{Badger: &db}
	conf.Default = "badger"
	srv, err := server.NewGripServer(conf, dir, nil)
	if err != nil {
		return nil, err
	}
	ctx, cancel := context.WithCancel(context.Background())
	s := &Server{RPCAddr: "127.0.0.1:" + rpcPort, HTTPBase: "http://127.0.0.1:" + httpPort, Dir: dir, cancel: cancel, Done: make(chan error, 1)}
	go func() { s.Done <- srv.Serve(ctx) }()
	dctx, dcancel := context.WithTimeout(ctx, 20*time.Second)
	defer dcancel()
	conn, err := grpc.DialContext(dctx, s.RPCAddr, grpc.WithTransportCredentials(insecure.NewCredentials()), grpc.WithBlock(),
		grpc.WithDefaultCallOptions(grpc.MaxCallRecvMsgSize(64<<20)))
	if err != nil {
		cancel()
		return nil, fmt.Errorf("dial %s: %v", s.RPCAddr, err)
	}
	s.Conn = conn
	s.Query, s.Edit, s.Job, s.Conf = gripql.NewQueryClient(conn), gripql.NewEditClient(conn), gripql.NewJobClient(conn), gripql.NewConfigureClient(conn)
	// identity check: a marker graph created through this connection must be listed
	marker := fmt.Sprintf("marker%dx%d", os.Getpid(), time.Now().UnixNano()%1000000)
	if _, err := s.Edit.AddGraph(ctx, &gripql.GraphID{Graph: marker}); err != nil {
		s.Stop()
		return nil, fmt.Errorf("setup AddGraph: %v", err)
	}
	lg, err := s.Query.ListGraphs(ctx, &gripql.Empty{})
	found := false
	if err == nil {
		for _, g := range lg.Graphs {
			if g == marker {
				found = true
			}
		}
	}
	if !found {
		s.Stop()
		return nil, fmt.Errorf("port %s answers for a different server", rpcPort)
	}
	s.Edit.DeleteGraph(ctx, &gripql.GraphID{Graph: marker})
	return s, nil
}

// Dial connects clients to a server started elsewhere (worker subprocess).
func Dial(rpcAddr string) (*Server, error) {
	ctx, cancel := context.WithTimeout(context.Background(), 20*time.Second)
	defer cancel()
	conn, err := grpc.DialContext(ctx, rpcAddr, grpc.WithTransportCredentials(insecure.NewCredentials()), grpc.WithBlock(),
		grpc.WithDefaultCallOptions(grpc.MaxCallRecvMsgSize(64<<20)))
	if err != nil {
		return nil, err
	}
	return &Server{RPCAddr: rpcAddr, Conn: conn, Query: gripql.NewQueryClient(conn), Edit: gripql.NewEditClient(conn),
		Job: gripql.NewJobClient(conn), Conf: gripql.NewConfigureClient(conn)}, nil
}

func (s *Server) Stop() {
	if s.Conn != nil {
		s.Conn.Close()
	}
	if s.cancel != nil {
		s.cancel()
	}
}
