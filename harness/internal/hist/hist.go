// Package hist defines mutation histories over gdbi.GraphDB (the C03 operation
// alphabet), the abstract model they act on, their application to a real store, and
// rapid generators for them. Used by C03, C04 and C10(b).
package hist

import (
	"fmt"
	"strings"

	"github.com/bmeg/grip/gdbi"
	"pgregory.net/rapid"
	"verif/internal/gripx"
	"verif/internal/model"
)

// Op is one mutating API call.
type Op struct {
	Kind  string           `json:"kind"` // addGraph deleteGraph addVertex addEdge bulkAdd delVertex delEdge reopen
	Graph string           `json:"graph,omitempty"`
	Elems []*model.Element `json:"elems,omitempty"`
	ID    string           `json:"id,omitempty"`
}

func (o Op) String() string {
	switch o.Kind {
	case "addGraph", "deleteGraph", "reopen":
		return fmt.Sprintf("%s(%s)", o.Kind, o.Graph)
	case "delVertex", "delEdge":
		return fmt.Sprintf("%s(%s,%s)", o.Kind, o.Graph, o.ID)
	}
	parts := []string{}
	for _, e := range o.Elems {
		if e.Edge {
			parts = append(parts, fmt.Sprintf("E{%s:%s %s->%s %s}", e.ID, e.Label, e.From, e.To, model.Canon(interface{}(model.CopyMap(e.Data)))))
		} else {
			parts = append(parts, fmt.Sprintf("V{%s:%s %s}", e.ID, e.Label, model.Canon(interface{}(model.CopyMap(e.Data)))))
		}
	}
	return fmt.Sprintf("%s(%s,[%s])", o.Kind, o.Graph, strings.Join(parts, " "))
}

// ValidName mirrors the documented rule for graph and property names.
func ValidName(k string) bool {
	if strings.ContainsAny(k, "!@#$%^&*()+={}[] :;\"',.<>?/\\|~") {
		return false
	}
	return !strings.HasPrefix(k, "_") && !strings.HasPrefix(k, "-")
}

var reserved = map[string]bool{"_gid": true, "_label": true, "_to": true, "_from": true, "_data": true}

// ValidElement: non-blank id/label (and endpoints for edges), valid property names.
func ValidElement(e *model.Element) bool {
	if e.ID == "" || e.Label == "" {
		return false
	}
	if e.Edge && (e.From == "" || e.To == "") {
		return false
	}
	for k := range e.Data {
		if reserved[k] || !ValidName(k) {
			return false
		}
	}
	return true
}

// World is the abstract state: graph name -> abstract graph.
type World map[string]*model.Graph

func (w World) Clone() World {
	o := World{}
	for k, g := range w {
		o[k] = g.Clone()
	}
	return o
}

func upsert(g *model.Graph, e *model.Element) {
	c := *e
	c.Data = model.CopyMap(e.Data)
	if e.Edge {
		for i, x := range g.E {
			if x.ID == e.ID {
				g.E[i] = &c
				return
			}
		}
		g.E = append(g.E, &c)
		return
	}
	for i, x := range g.V {
		if x.ID == e.ID {
			g.V[i] = &c
			return
		}
	}
	g.V = append(g.V, &c)
}

// Expect describes what the abstract model says about an op.
type Expect struct {
	MustFail bool   // the call must return an error and change nothing
	Changed  bool   // the abstract state of the addressed graph changed
	Class    string // classification of the op for signatures/statistics
}

// Apply applies op to the model and says what the real call must do.
func (w World) Apply(op Op) Expect {
	g, exists := w[op.Graph]
	before := ""
	if exists {
		before = StateText(g)
	}
	ex := Expect{Class: op.Kind}
	switch op.Kind {
	case "addGraph":
		if !ValidName(op.Graph) {
			ex.MustFail, ex.Class = true, "addGraph-invalid-name"
			return ex
		}
		if !exists {
			w[op.Graph] = &model.Graph{}
			ex.Changed = true
		} else {
			ex.Class = "addGraph-existing"
		}
		return ex
	case "deleteGraph":
		if exists {
			delete(w, op.Graph)
			ex.Changed = true
		} else {
			ex.Class = "deleteGraph-absent"
		}
		return ex
	}
	if !exists {
		ex.MustFail, ex.Class = true, op.Kind+"-missing-graph"
		return ex
	}
	switch op.Kind {
	case "addVertex", "addEdge", "bulkAdd":
		for _, e := range op.Elems {
			if !ValidElement(e) {
				ex.MustFail, ex.Class = true, op.Kind+"-invalid-element"
				return ex
			}
		}
		cls := map[string]bool{}
		for _, e := range op.Elems {
			var old *model.Element
			if e.Edge {
				old = g.EdgeByID(e.ID)
			} else {
				old = g.Vertex(e.ID)
			}
			switch {
			case old == nil:
				cls["new"] = true
			case old.Label != e.Label:
				cls["relabel"] = true
			case old.From != e.From || old.To != e.To:
				cls["reattach"] = true
			case !model.Equal(interface{}(model.CopyMap(old.Data)), interface{}(model.CopyMap(e.Data))):
				cls["newdata"] = true
			default:
				cls["same"] = true
			}
			upsert(g, e)
		}
		ex.Class = op.Kind + "-" + strings.Join(model.SortedKeys(cls), "+")
	case "delVertex":
		if g.Vertex(op.ID) == nil {
			ex.Class = "delVertex-absent"
			break
		}
		nv := g.V[:0]
		for _, v := range g.V {
			if v.ID != op.ID {
				nv = append(nv, v)
			}
		}
		g.V = nv
		ne := g.E[:0]
		incident := false
		for _, e := range g.E {
			if e.From == op.ID || e.To == op.ID {
				incident = true
				continue
			}
			ne = append(ne, e)
		}
		g.E = ne
		if incident {
			ex.Class = "delVertex-with-edges"
		}
	case "delEdge":
		if g.EdgeByID(op.ID) == nil {
			ex.Class = "delEdge-absent"
			break
		}
		ne := g.E[:0]
		for _, e := range g.E {
			if e.ID != op.ID {
				ne = append(ne, e)
			}
		}
		g.E = ne
	default:
		panic("hist: unknown op " + op.Kind)
	}
	ex.Changed = StateText(g) != before
	return ex
}

// StateText is a canonical rendering of an abstract graph (order-insensitive).
func StateText(g *model.Graph) string {
	var parts []string
	for _, v := range g.V {
		parts = append(parts, fmt.Sprintf("V{%s:%s %s}", v.ID, v.Label, model.Canon(interface{}(model.CopyMap(v.Data)))))
	}
	for _, e := range g.E {
		parts = append(parts, fmt.Sprintf("E{%s:%s %s->%s %s}", e.ID, e.Label, e.From, e.To, model.Canon(interface{}(model.CopyMap(e.Data)))))
	}
	// insertion order is irrelevant
	for i := 1; i < len(parts); i++ {
		for j := i; j > 0 && parts[j] < parts[j-1]; j-- {
			parts[j], parts[j-1] = parts[j-1], parts[j]
		}
	}
	return strings.Join(parts, ";")
}

// Names maps logical graph names to names unique in this process (invalid names map
// to themselves, so that validation is exercised).
type Names map[string]string

func (n Names) Real(logical string) string {
	if !ValidName(logical) {
		return logical
	}
	if r, ok := n[logical]; ok {
		return r
	}
	r := gripx.FreshName()
	n[logical] = r
	return r
}

// ApplyReal performs op on the store. Panics are returned as errors with panicked=true.
func ApplyReal(db gdbi.GraphDB, names Names, op Op) (err error, panicked bool) {
	defer func() {
		if r := recover(); r != nil {
			err, panicked = fmt.Errorf("panic: %v", r), true
		}
	}()
	real := names.Real(op.Graph)
	switch op.Kind {
	case "addGraph":
		return db.AddGraph(real), false
	case "deleteGraph":
		return db.DeleteGraph(real), false
	}
	gi, err := db.Graph(real)
	if err != nil {
		return err, false
	}
	switch op.Kind {
	case "addVertex":
		vs := make([]*gdbi.Vertex, len(op.Elems))
		for i, e := range op.Elems {
			vs[i] = gripx.ToGdbi(e)
		}
		return gi.AddVertex(vs), false
	case "addEdge":
		es := make([]*gdbi.Edge, len(op.Elems))
		for i, e := range op.Elems {
			es[i] = gripx.ToGdbi(e)
		}
		return gi.AddEdge(es), false
	case "bulkAdd":
		ch := make(chan *gdbi.GraphElement, len(op.Elems))
		for _, e := range op.Elems {
			ge := &gdbi.GraphElement{Graph: real}
			if e.Edge {
				ge.Edge = gripx.ToGdbi(e)
			} else {
				ge.Vertex = gripx.ToGdbi(e)
			}
			ch <- ge
		}
		close(ch)
		return gi.BulkAdd(ch), false
	case "delVertex":
		return gi.DelVertex(op.ID), false
	case "delEdge":
		return gi.DelEdge(op.ID), false
	}
	panic("hist: unknown op " + op.Kind)
}

// ---------------------------------------------------------------------------------
// generators

var (
	Graphs  = []string{"ga", "gb"}
	VIDs    = []string{"v0", "v1", "v2", "v3"}
	EIDs    = []string{"e0", "e1", "e2", "e3"}
	// label universes contain a pair where one label is a proper prefix of the other
	// (A/AB, x/xy): index keys are built by joining components, and a scan for one
	// term must not match the other
	VLabels = []string{"A", "AB", "C"}
	ELabels = []string{"x", "xy", "z"}
)

func smallData(t *rapid.T, lbl string) map[string]interface{} {
	switch rapid.IntRange(0, 4).Draw(t, lbl+".data") {
	case 0, 1:
		return map[string]interface{}{}
	case 2:
		return map[string]interface{}{"k": rapid.SampledFrom([]interface{}{0.0, 1.0, "a"}).Draw(t, lbl+".k")}
	case 3:
		return map[string]interface{}{"k": 1.0, "n": map[string]interface{}{"x": "a"}}
	}
	return map[string]interface{}{"l": []interface{}{1.0, "a"}}
}

func GenVertex(t *rapid.T, lbl string) *model.Element {
	return &model.Element{ID: rapid.SampledFrom(VIDs).Draw(t, lbl+".id"), Label: rapid.SampledFrom(VLabels).Draw(t, lbl+".label"), Data: smallData(t, lbl)}
}

func GenEdge(t *rapid.T, lbl string) *model.Element {
	ends := append(append([]string{}, VIDs...), "ghost")
	return &model.Element{ID: rapid.SampledFrom(EIDs).Draw(t, lbl+".id"), Edge: true, Label: rapid.SampledFrom(ELabels).Draw(t, lbl+".label"),
		From: rapid.SampledFrom(ends).Draw(t, lbl+".from"), To: rapid.SampledFrom(ends).Draw(t, lbl+".to"), Data: smallData(t, lbl)}
}

// invalid elements: blank id/label/endpoints, reserved or invalid property names
func GenInvalid(t *rapid.T, lbl string) *model.Element {
	if rapid.Bool().Draw(t, lbl+".invalidEdge") {
		e := GenEdge(t, lbl)
		switch rapid.IntRange(0, 4).Draw(t, lbl+".how") {
		case 0:
			e.ID = ""
		case 1:
			e.Label = ""
		case 2:
			e.From = ""
		case 3:
			e.To = ""
		default:
			e.Data = map[string]interface{}{rapid.SampledFrom([]string{"_gid", "a.b", "_x", "a b", "-k"}).Draw(t, lbl+".badkey"): 1.0}
		}
		return e
	}
	v := GenVertex(t, lbl)
	switch rapid.IntRange(0, 2).Draw(t, lbl+".how") {
	case 0:
		v.ID = ""
	case 1:
		v.Label = ""
	default:
		v.Data = map[string]interface{}{rapid.SampledFrom([]string{"_label", "a.b", "_x", "a$", "-k"}).Draw(t, lbl+".badkey"): 1.0}
	}
	return v
}

// GenOp draws one operation. invalid enables invalid names/elements.
func GenOp(t *rapid.T, i int, invalid bool) Op {
	lbl := fmt.Sprintf("op%d", i)
	gname := rapid.SampledFrom(Graphs).Draw(t, lbl+".graph")
	k := rapid.IntRange(0, 99).Draw(t, lbl+".kind")
	switch {
	case k < 8:
		if invalid && rapid.IntRange(0, 3).Draw(t, lbl+".badname") == 0 {
			gname = rapid.SampledFrom([]string{"bad name", "_x", "a.b", "-g", "a/b"}).Draw(t, lbl+".name")
		}
		return Op{Kind: "addGraph", Graph: gname}
	case k < 12:
		return Op{Kind: "deleteGraph", Graph: gname}
	case k < 32:
		if invalid && rapid.IntRange(0, 9).Draw(t, lbl+".inv") == 0 {
			e := GenInvalid(t, lbl)
			if e.Edge {
				return Op{Kind: "addEdge", Graph: gname, Elems: []*model.Element{e}}
			}
			return Op{Kind: "addVertex", Graph: gname, Elems: []*model.Element{e}}
		}
		n := rapid.IntRange(1, 3).Draw(t, lbl+".n")
		op := Op{Kind: "addVertex", Graph: gname}
		for j := 0; j < n; j++ {
			op.Elems = append(op.Elems, GenVertex(t, fmt.Sprintf("%s.v%d", lbl, j)))
		}
		return op
	case k < 60:
		n := rapid.IntRange(1, 2).Draw(t, lbl+".n")
		op := Op{Kind: "addEdge", Graph: gname}
		for j := 0; j < n; j++ {
			op.Elems = append(op.Elems, GenEdge(t, fmt.Sprintf("%s.e%d", lbl, j)))
		}
		return op
	case k < 70:
		n := rapid.IntRange(0, 4).Draw(t, lbl+".n")
		op := Op{Kind: "bulkAdd", Graph: gname}
		for j := 0; j < n; j++ {
			if rapid.Bool().Draw(t, fmt.Sprintf("%s.b%d.isEdge", lbl, j)) {
				op.Elems = append(op.Elems, GenEdge(t, fmt.Sprintf("%s.b%d", lbl, j)))
			} else {
				op.Elems = append(op.Elems, GenVertex(t, fmt.Sprintf("%s.b%d", lbl, j)))
			}
		}
		return op
	case k < 85:
		return Op{Kind: "delVertex", Graph: gname, ID: rapid.SampledFrom(VIDs).Draw(t, lbl+".id")}
	}
	return Op{Kind: "delEdge", Graph: gname, ID: rapid.SampledFrom(EIDs).Draw(t, lbl+".id")}
}

// GenHistory draws a history that starts by creating the first graph (so that most
// operations land on an existing graph).
func GenHistory(t *rapid.T, maxLen int, invalid bool) []Op {
	n := rapid.IntRange(1, maxLen).Draw(t, "histLen")
	ops := []Op{{Kind: "addGraph", Graph: Graphs[0]}}
	if rapid.Bool().Draw(t, "secondGraph") {
		ops = append(ops, Op{Kind: "addGraph", Graph: Graphs[1]})
	}
	for i := 0; i < n; i++ {
		ops = append(ops, GenOp(t, i, invalid))
	}
	return ops
}
